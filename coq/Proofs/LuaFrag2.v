(* C15 beyond the fixed-width flat fragment (Proofs/LuaFlat.v): dynamic strings, lists of scalars /
   fixed strings / dynamic strings, and match fields whose payloads are empty packets.

   For every message the specification lays out, the emitted main dissector (the MODEL of the
   generator, Gen/Lua.v) run over the canonical encoding attributes exactly [ranges] and
   finishes at the end of the message:

     lua_frag2_correct :  root_packet M = Some root -> lua_frag2 M = true ->
                          msg_elems v <= loop_budget \/ length r <= loop_budget ->
                          layout no_cs M fuel root v = Some b -> ranges M fuel root v = Some (r, n) ->
                          sem_lua_run (gen_lua M) fuel' b = LOk (r, n) /\ n = length b
     lua_frag4_correct :  the same for lua_frag4 M, with  typed M fuel root v = true  and  1 <= fuel'
     (lua_frag_s1_correct, lua_frag_s2_correct: the first two stages, corollaries)

   Fragments (lua_frag_s1 => lua_frag_s2 => lua_frag2 => lua_frag4 => lua_frag):
     lua_frag_s1   scalars, fixed strings, dynamic strings
     lua_frag_s2   + lists of scalars
     lua_frag2     + lists of fixed / dynamic strings  =  lua_frag, no match field, [len_ok]
     lua_frag4     + match fields over empty packets   =  lua_frag, [key_not_repeated], [len_ok]
   [lua_frag2_covers]: every model whose root packet is made of scalars, fixed strings, dynamic
   strings and lists of those (unsigned 1/2/4-byte prefixes, distinct sub-function names, [len_ok])
   is in lua_frag2.  [lua_frag] itself (Gen/LuaFrag.v) is too wide: counterexamples (evaluated) at
   the end of the file.

   The invariant of Proofs/LuaFlat.v (offset = number of bytes laid out so far; triples emitted
   so far = ranges of the fields laid out so far) is generalised to
     * steps that READ a length / count prefix from the buffer: the bytes the layout appends for
       a field are still there in the FINAL buffer ([holds], frame lemma [lay_fields_frame]:
       later fields only append, or patch the length-of placeholder, which lies elsewhere), and
       decoding them gives the length back ([accessor_prefix], from dec_be_enc_be);
     * loops ([LFor]: induction on the list of elements, [loop_exec]);
     * locals declared on the way: the environment is  L ++ [offset; tree]  with no binding of
       "offset" / "tree" in L ([clean]); the locals of a loop body go away at its end ([leave_envL]);
     * calls: the sub-dissector of an empty packet displays one item over the next byte (there
       is one: [minsum]) and returns; the name resolves to it because sub-function names are
       distinct ([call_empty_gen]).                                                             *)
From FP Require Import LuaOracle Lua LuaFrag LuaFlat BytesLemmas Typed Paths.
From Coq Require Import Lia ZifyN ZifyNat.
Open Scope string_scope.
Open Scope list_scope.

(* ------------------------------------------------------------------ regions of a buffer *)

(* the bytes [x] sit at offset [o] of [buf] *)
Definition holds (buf : list byte) (o : nat) (x : list byte) : Prop :=
  exists pre post, buf = pre ++ x ++ post /\ length pre = o.

Lemma holds_end (cur x : list byte) : holds (cur ++ x) (length cur) x.
Proof. exists cur, []. rewrite app_nil_r. split; reflexivity. Qed.

Lemma holds_app_r (c y : list byte) (o : nat) (x : list byte) : holds c o x -> holds (c ++ y) o x.
Proof.
  intros [pre [post [Hc Hl]]]. exists pre, (post ++ y). split; [| exact Hl].
  rewrite Hc. rewrite <- !app_assoc. reflexivity.
Qed.

Lemma holds_split (buf : list byte) (o : nat) (x1 x2 : list byte) :
  holds buf o (x1 ++ x2) -> holds buf o x1 /\ holds buf (o + length x1) x2.
Proof.
  intros [pre [post [Hc Hl]]]. split.
  - exists pre, (x2 ++ post). split; [| exact Hl]. rewrite Hc, <- app_assoc. reflexivity.
  - exists (pre ++ x1), post. split.
    + rewrite Hc, <- !app_assoc. reflexivity.
    + rewrite app_length. lia.
Qed.

Lemma holds_bound (buf : list byte) (o : nat) (x : list byte) : holds buf o x -> (o + length x <= length buf)%nat.
Proof. intros [pre [post [Hc Hl]]]. rewrite Hc, !app_length. lia. Qed.

Lemma holds_read (buf : list byte) (o : nat) (x : list byte) :
  holds buf o x -> firstn (length x) (skipn o buf) = x.
Proof.
  intros [pre [post [Hc Hl]]]. subst buf o. rewrite skipn_len_app, firstn_len_app. reflexivity.
Qed.

Lemma patch_at_app_l (a b : list byte) (pos : nat) (new : list byte) :
  (pos + length new <= length a)%nat -> patch_at (a ++ b) pos new = patch_at a pos new ++ b.
Proof.
  intros H. unfold patch_at. rewrite firstn_app, skipn_app.
  replace (pos - length a)%nat with 0%nat by lia.
  replace (pos + length new - length a)%nat with 0%nat by lia.
  cbn [firstn skipn]. rewrite app_nil_r, <- !app_assoc. reflexivity.
Qed.

Lemma patch_at_app_r (a b : list byte) (pos : nat) (new : list byte) :
  (length a <= pos)%nat -> patch_at (a ++ b) pos new = a ++ patch_at b (pos - length a) new.
Proof.
  intros H. unfold patch_at. rewrite firstn_app, skipn_app.
  rewrite (firstn_all2 a) by lia. rewrite (skipn_all2 a) by lia.
  replace (pos + length new - length a)%nat with (pos - length a + length new)%nat by lia.
  cbn [app]. rewrite <- !app_assoc. reflexivity.
Qed.

Lemma holds_patch (c : list byte) (o : nat) (x : list byte) (pos : nat) (new : list byte) :
  holds c o x -> (pos + length new <= length c)%nat ->
  (pos + length new <= o \/ o + length x <= pos)%nat ->
  holds (patch_at c pos new) o x.
Proof.
  intros [pre [post [Hc Hl]]] Hin Hdis. subst c.
  destruct Hdis as [Hd | Hd].
  - exists (patch_at pre pos new), post. split.
    + apply patch_at_app_l. lia.
    + rewrite patch_at_length; lia.
  - exists pre, (patch_at post (pos - length (pre ++ x)) new). split; [| exact Hl].
    rewrite (app_assoc pre x post). rewrite patch_at_app_r by (rewrite app_length; lia).
    rewrite <- app_assoc. reflexivity.
Qed.

(* ------------------------------------------------------------------ environments *)

(* no binding of the two variables of the dissector the emitted code relies on *)
Fixpoint clean (L : lenv) : Prop :=
  match L with
  | [] => True
  | (x, _) :: r => x <> "offset" /\ x <> "tree" /\ clean r
  end.

Definition envL (L : lenv) (n : nat) : lenv := L ++ env0 n.

Lemma envL_cons (x : string) (v : lval) (L : lenv) (n : nat) : (x, v) :: envL L n = envL ((x, v) :: L) n.
Proof. reflexivity. Qed.

Lemma clean_app (X L : lenv) : clean X -> clean L -> clean (X ++ L).
Proof.
  induction X as [| [x v] X IH]; intros HX HL; [exact HL |].
  cbn [clean app] in *. destruct HX as [H1 [H2 H3]]. repeat split; try assumption. apply IH; assumption.
Qed.

Lemma lget_hd (x : string) (v : lval) (e : lenv) : lget ((x, v) :: e) x = v.
Proof. unfold lget. cbn [assoc]. rewrite String.eqb_refl. reflexivity. Qed.

Lemma lget_envL_hd (x : string) (v : lval) (L : lenv) (n : nat) : lget (envL ((x, v) :: L) n) x = v.
Proof. unfold envL. cbn [app]. apply lget_hd. Qed.

Lemma lget_tl (x y : string) (v : lval) (e : lenv) : y <> x -> lget ((y, v) :: e) x = lget e x.
Proof.
  intros H. unfold lget. cbn [assoc].
  destruct (String.eqb_spec x y) as [Heq | _]; [subst; contradiction | reflexivity].
Qed.

Lemma lget_envL_offset (L : lenv) (n : nat) : clean L -> lget (envL L n) "offset" = LvNum (Z.of_nat n).
Proof.
  induction L as [| [x v] L IH]; intros H; [reflexivity |].
  cbn [clean] in H. destruct H as [H1 [H2 H3]].
  unfold envL. cbn [app]. rewrite lget_tl by assumption. apply IH. assumption.
Qed.

Lemma lget_envL_tree (L : lenv) (n : nat) : clean L -> lget (envL L n) "tree" = LvTree.
Proof.
  induction L as [| [x v] L IH]; intros H; [reflexivity |].
  cbn [clean] in H. destruct H as [H1 [H2 H3]].
  unfold envL. cbn [app]. rewrite lget_tl by assumption. apply IH. assumption.
Qed.

Lemma need_tree_envL (L : lenv) (n : nat) : clean L -> need_tree (envL L n) "tree" = LOk tt.
Proof. intros H. unfold need_tree. rewrite lget_envL_tree by assumption. reflexivity. Qed.

Lemma lset_envL (L : lenv) (n m : nat) : clean L -> lset (envL L n) "offset" (LvNum (Z.of_nat m)) = envL L m.
Proof.
  induction L as [| [x v] L IH]; intros H; [reflexivity |].
  cbn [clean] in H. destruct H as [H1 [H2 H3]].
  unfold envL. cbn [app lset].
  destruct (String.eqb_spec "offset" x) as [Heq | _]; [subst; contradiction |].
  f_equal. apply IH. assumption.
Qed.

Lemma leave_envL (X L : lenv) (n n' : nat) (o1 o2 : list triple) (b1 b2 : nat) (r1 r2 : option lval) :
  leave (mkLS (envL L n) o1 b1 r1) (mkLS (envL (X ++ L) n') o2 b2 r2) = mkLS (envL L n') o2 b2 r2.
Proof.
  unfold leave, with_env. cbn [ls_env ls_out ls_budget ls_ret]. f_equal.
  unfold envL. rewrite !app_length. cbn [env0 length].
  replace (length X + length L + 2 - (length L + 2))%nat with (length X) by lia.
  rewrite <- app_assoc. apply skipn_len_app.
Qed.

Lemma buf_range_envL (buf : list byte) (L : lenv) (n size : nat) :
  clean L -> (n + size <= length buf)%nat ->
  buf_range buf (envL L n) (LvNum (Z.of_nat size)) = LOk (n, size).
Proof. intros HL Hle. apply buf_range_ok; [apply lget_envL_offset; exact HL | exact Hle]. Qed.

(* ------------------------------------------------------------------ the accessors of the prefixes *)

Lemma accessor_uint (w : nat) (h : list byte) :
  accessor "uint" w h
  = if andb (Nat.leb 1 w) (Nat.leb w 4) then LOk (LvNum (Z.of_N (dec_be 0 h)))
    else LFail (EType "TvbRange:uint() on a range that is not 1..4 bytes").
Proof. reflexivity. Qed.

Lemma accessor_le_uint (w : nat) (h : list byte) :
  accessor "le_uint" w h
  = if andb (Nat.leb 1 w) (Nat.leb w 4) then LOk (LvNum (Z.of_N (dec_be 0 (rev h))))
    else LFail (EType "TvbRange:uint() on a range that is not 1..4 bytes").
Proof. reflexivity. Qed.

Definition uint_meth (le : bool) : string := if le then "le_uint" else "uint".

Lemma fits_mod (w : nat) (n : N) : fits w n = true -> (n mod pow256 w = n)%N.
Proof. unfold fits. intros H. apply N.ltb_lt in H. apply N.mod_small. exact H. Qed.

Lemma accessor_prefix (le : bool) (w cnt : nat) :
  (w = 1 \/ w = 2 \/ w = 4)%nat -> fits w (N.of_nat cnt) = true ->
  accessor (uint_meth le) w (enc_int w le (N.of_nat cnt)) = LOk (LvNum (Z.of_nat cnt)).
Proof.
  intros Hw Hfit. pose proof (fits_mod w _ Hfit) as Hmod.
  assert (Hrange : andb (Nat.leb 1 w) (Nat.leb w 4) = true)
    by (destruct Hw as [H | [H | H]]; subst w; reflexivity).
  unfold uint_meth, enc_int. destruct le.
  - rewrite accessor_le_uint, Hrange, rev_involutive, dec_be_enc_be, Hmod.
    rewrite N.mul_0_l, N.add_0_l, nat_N_Z. reflexivity.
  - rewrite accessor_uint, Hrange, dec_be_enc_be, Hmod.
    rewrite N.mul_0_l, N.add_0_l, nat_N_Z. reflexivity.
Qed.

(* ------------------------------------------------------------------ execution steps *)

Section Steps.
  Variable buf : list byte.
  Variable fields : list string.
  Variable callf : string -> lval -> lval -> list triple -> nat -> lres (lval * list triple * nat).

  Notation run := (exec_list buf fields callf).

  (* "tree:add(fields.X, buf(offset, size)); offset = offset + size" *)
  Lemma step_add_adv (name : string) (n size : nat) (le : bool) (rest : list lstmt)
        (L : lenv) (out : list triple) (budget : nat) :
    clean L -> mem_str name fields = true -> (n + size <= length buf)%nat ->
    run (LAdd "tree" name (LConst size) le :: LAdv (LConst size) :: rest) (mkLS (envL L n) out budget None)
    = run rest (mkLS (envL L (n + size)) ((name, n, size) :: out) budget None).
  Proof.
    intros HL Hmem Hle.
    cbn [exec_list ls_ret]. cbn [exec_stmt ls_env].
    rewrite need_tree_envL by exact HL. cbn [lbind].
    rewrite Hmem. cbn [negb eval].
    rewrite (buf_range_envL buf L n size HL Hle).
    cbn [lbind ls_out ls_budget ls_ret exec_list]. cbn [exec_stmt ls_env eval].
    rewrite lget_envL_offset by exact HL.
    cbn [lbind with_env ls_out ls_budget ls_ret ls_env].
    rewrite <- Nat2Z.inj_add, lset_envL by exact HL. reflexivity.
  Qed.

  (* "local v = buf(offset, w):uint(); tree:add("..".. v, buf(offset, w)); offset = offset + w" *)
  Lemma step_prefix (var label : string) (w cnt n : nat) (le : bool) (rest : list lstmt)
        (L : lenv) (out : list triple) (budget : nat) :
    clean L -> var <> "offset" -> var <> "tree" ->
    (w = 1 \/ w = 2 \/ w = 4)%nat -> fits w (N.of_nat cnt) = true ->
    holds buf n (enc_int w le (N.of_nat cnt)) ->
    run (LLocalInt var w (uint_meth le) :: LAddText "tree" label var w :: LAdv (LConst w) :: rest)
        (mkLS (envL L n) out budget None)
    = run rest (mkLS (envL ((var, LvNum (Z.of_nat cnt)) :: L) (n + w)) out budget None).
  Proof.
    intros HL Hv1 Hv2 Hw Hfit Hh.
    pose proof (holds_bound _ _ _ Hh) as Hb. rewrite enc_int_length in Hb.
    pose proof (holds_read _ _ _ Hh) as Hr. rewrite enc_int_length in Hr.
    assert (HL' : clean ((var, LvNum (Z.of_nat cnt)) :: L)) by (cbn [clean]; repeat split; assumption).
    cbn [exec_list ls_ret]. cbn [exec_stmt ls_env].
    rewrite (buf_range_envL buf L n w HL Hb). cbn [lbind].
    rewrite Hr, (accessor_prefix le w cnt Hw Hfit). cbn [lbind].
    unfold declare, with_env. cbn [ls_env ls_out ls_budget ls_ret].
    rewrite envL_cons.
    cbn [exec_list ls_ret]. cbn [exec_stmt ls_env].
    rewrite need_tree_envL by exact HL'. cbn [lbind].
    rewrite lget_envL_hd.
    rewrite (buf_range_envL buf _ n w HL' Hb). cbn [lbind].
    cbn [exec_list ls_ret]. cbn [exec_stmt ls_env eval].
    rewrite lget_envL_offset by exact HL'.
    cbn [with_env ls_out ls_budget ls_ret ls_env].
    rewrite <- Nat2Z.inj_add, lset_envL by exact HL'. reflexivity.
  Qed.

  (* "tree:add(fields.X, buf(offset, v)); offset = offset + v" *)
  Lemma step_add_adv_var (name x : string) (n len : nat) (rest : list lstmt)
        (L : lenv) (out : list triple) (budget : nat) :
    clean ((x, LvNum (Z.of_nat len)) :: L) -> mem_str name fields = true -> (n + len <= length buf)%nat ->
    run (LAdd "tree" name (LVar x) false :: LAdv (LVar x) :: rest)
        (mkLS (envL ((x, LvNum (Z.of_nat len)) :: L) n) out budget None)
    = run rest (mkLS (envL ((x, LvNum (Z.of_nat len)) :: L) (n + len)) ((name, n, len) :: out) budget None).
  Proof.
    intros HL Hmem Hle.
    cbn [exec_list ls_ret]. cbn [exec_stmt ls_env].
    rewrite need_tree_envL by exact HL. cbn [lbind].
    rewrite Hmem. cbn [negb eval].
    rewrite lget_envL_hd.
    rewrite (buf_range_envL buf _ n len HL Hle).
    cbn [lbind ls_out ls_budget ls_ret exec_list]. cbn [exec_stmt ls_env eval].
    rewrite lget_envL_offset by exact HL.
    rewrite lget_envL_hd.
    cbn [lbind with_env ls_out ls_budget ls_ret ls_env].
    rewrite <- Nat2Z.inj_add, lset_envL by exact HL. reflexivity.
  Qed.

  (* a declared local that is only looked at: "local x = buf(offset, w):meth()" *)
  Lemma step_local_int (x meth : string) (w n : nat) (v : lval) (rest : list lstmt)
        (L : lenv) (out : list triple) (budget : nat) :
    clean L -> (n + w <= length buf)%nat ->
    accessor meth w (firstn w (skipn n buf)) = LOk v ->
    run (LLocalInt x w meth :: rest) (mkLS (envL L n) out budget None)
    = run rest (mkLS (envL ((x, v) :: L) n) out budget None).
  Proof.
    intros HL Hb Hacc.
    cbn [exec_list ls_ret]. cbn [exec_stmt ls_env].
    rewrite (buf_range_envL buf L n w HL Hb). cbn [lbind].
    rewrite Hacc. cbn [lbind]. reflexivity.
  Qed.

  Lemma step_local_str (x : string) (w n : nat) (rest : list lstmt)
        (L : lenv) (out : list triple) (budget : nat) :
    clean L -> (n + w <= length buf)%nat ->
    run (LLocalStr x (LConst w) :: rest) (mkLS (envL L n) out budget None)
    = run rest (mkLS (envL ((x, LvBytes (firstn w (skipn n buf))) :: L) n) out budget None).
  Proof.
    intros HL Hb.
    cbn [exec_list ls_ret]. cbn [exec_stmt ls_env eval].
    rewrite (buf_range_envL buf L n w HL Hb). cbn [lbind]. reflexivity.
  Qed.

  Lemma step_local_str_var (x y : string) (len n : nat) (rest : list lstmt)
        (L : lenv) (out : list triple) (budget : nat) :
    clean ((y, LvNum (Z.of_nat len)) :: L) -> (n + len <= length buf)%nat ->
    run (LLocalStr x (LVar y) :: rest) (mkLS (envL ((y, LvNum (Z.of_nat len)) :: L) n) out budget None)
    = run rest (mkLS (envL ((x, LvBytes (firstn len (skipn n buf))) :: (y, LvNum (Z.of_nat len)) :: L) n) out budget None).
  Proof.
    intros HL Hb.
    cbn [exec_list ls_ret]. cbn [exec_stmt ls_env eval].
    rewrite lget_envL_hd.
    rewrite (buf_range_envL buf _ n len HL Hb). cbn [lbind]. reflexivity.
  Qed.

  Lemma step_info (t : string) (rest : list lstmt) (st : lua_state) :
    ls_ret st = None -> run (LInfo t :: rest) st = run rest st.
  Proof. intros H. cbn [exec_list]. rewrite H. reflexivity. Qed.

  (* the body of a loop is run like any list of statements *)
  Lemma for_loop_ext (f g : lua_state -> lres lua_state) :
    (forall st, f st = g st) -> forall k i n st, for_loop f k i n st = for_loop g k i n st.
  Proof.
    intros Hfg. induction k as [| k IH]; intros i n st; cbn [for_loop].
    - reflexivity.
    - destruct (Z.ltb n i); [reflexivity |]. destruct (ls_ret st); [reflexivity |].
      destruct (ls_budget st) as [| b]; [reflexivity |].
      rewrite Hfg. destruct (g _) as [st' | e]; cbn [lbind]; [apply IH | reflexivity].
  Qed.

  Lemma step_for (limit : string) (body rest : list lstmt) (st : lua_state) (n : Z) :
    ls_ret st = None -> lget (ls_env st) limit = LvNum n ->
    run (LFor limit body :: rest) st
    = lbind (for_loop (run body) (ls_budget st) 1%Z n st) (run rest).
  Proof.
    intros Hret Hl. cbn [exec_list]. rewrite Hret. f_equal.
    cbn [exec_stmt]. rewrite Hl.
    apply for_loop_ext. clear. induction body as [| s r IH]; intros st; [reflexivity |].
    cbn [exec_list]. destruct (ls_ret st); [reflexivity |].
    destruct (exec_stmt buf fields callf s st) as [st' | e]; cbn [lbind]; [apply IH | reflexivity].
  Qed.
End Steps.

(* ------------------------------------------------------------------ type names *)

Lemma gbt_idem (t : string) : get_basic_type (get_basic_type t) = get_basic_type t.
Proof.
  unfold get_basic_type at 2 3. cbv zeta.
  repeat match goal with
         | |- context [if ?c then _ else _] =>
             lazymatch c with context [to_lower t] => destruct c eqn:? end
         end; try reflexivity.
  unfold get_basic_type. cbv zeta.
  repeat match goal with H : _ = false |- _ => rewrite H; clear H end.
  reflexivity.
Qed.

Definition scalar_names : list (string * nat) :=
  [("char", 1); ("u8", 1); ("i8", 1); ("u16", 2); ("i16", 2); ("u32", 4); ("i32", 4); ("f32", 4);
   ("u64", 8); ("i64", 8); ("f64", 8)]%nat.

Lemma ty_width_cases (t : string) (w : nat) : ty_width t = Some w -> In (t, w) scalar_names.
Proof.
  unfold ty_width. intros H.
  repeat match type of H with
         | (if ?c then _ else _) = _ => destruct c eqn:?
         end; try discriminate H.
  all: injection H as <-.
  all: repeat match goal with
              | E : orb _ _ = true |- _ => apply orb_prop in E; destruct E as [E | E]
              end.
  all: match goal with E : String.eqb _ _ = true |- _ => apply String.eqb_eq in E; subst t end.
  all: unfold scalar_names; cbn [In]; repeat ((left; reflexivity) || right).
Qed.

Lemma scalar_width_cases (t : string) (w : nat) : scalar_width t = Some w -> In (t, w) scalar_names.
Proof.
  unfold scalar_width. destruct (String.eqb_spec t "char") as [-> | _].
  - intros H. injection H as <-. left. reflexivity.
  - apply ty_width_cases.
Qed.

(* what the dissector's type table says about a scalar type of the wire specification *)
Lemma scalar_lua (t : string) (w : nat) :
  In (t, w) scalar_names ->
  exists lt, lua_basic t = Some lt /\ lt_size lt = w /\
    (forall (le : bool) (h : list byte), exists v, accessor (if le then lt_le lt else lt_be lt) w h = LOk v).
Proof.
  intros Hin. unfold scalar_names in Hin. cbn [In] in Hin.
  repeat (destruct Hin as [Hin | Hin]; [injection Hin as <- <-; eexists; split; [reflexivity |]; split; [reflexivity |];
                                        intros [|] h; eexists; reflexivity |]).
  destruct Hin.
Qed.

Lemma suffix_len_ne_offset (s : string) : (s ++ "_len")%string <> "offset".
Proof. destruct s as [| c1 [| c2 [| c3 [| c4 [| c5 [| c6 [| c7 s]]]]]]]; cbn; discriminate. Qed.
Lemma suffix_len_ne_tree (s : string) : (s ++ "_len")%string <> "tree".
Proof. destruct s as [| c1 [| c2 [| c3 [| c4 [| c5 s]]]]]; cbn; discriminate. Qed.
Lemma suffix_size_ne_offset (s : string) : (s ++ "_size")%string <> "offset".
Proof. destruct s as [| c1 [| c2 [| c3 [| c4 [| c5 [| c6 [| c7 s]]]]]]]; cbn; discriminate. Qed.
Lemma suffix_size_ne_tree (s : string) : (s ++ "_size")%string <> "tree".
Proof. destruct s as [| c1 [| c2 [| c3 [| c4 [| c5 s]]]]]; cbn; discriminate. Qed.

(* ------------------------------------------------------------------ one occurrence of a field's type *)

Lemma key_name_clean (M : bmodel) (k : string) :
  key_name_ok M k = true -> snake M k <> "offset" /\ snake M k <> "tree".
Proof.
  unfold key_name_ok. intros H. apply negb_true_iff in H. apply orb_false_elim in H. destruct H as [_ H].
  split; intros E; rewrite E in H; discriminate H.
Qed.

Lemma fgt_scalar (f : field) (ty : string) :
  (f_attr f = ABasic ty \/ (exists x, f_attr f = ALen x ty) \/ (exists x, f_attr f = ACheck x ty)) ->
  field_get_type f
  = if orb (String.eqb (to_lower (get_basic_type ty)) "string") (String.eqb (to_lower (get_basic_type ty)) "char[]")
    then Some "string" else Some (get_basic_type ty).
Proof.
  intros [Ha | [[x Ha] | [x Ha]]]; unfold field_get_type; rewrite Ha; cbn [attr_get_type]; rewrite gbt_idem; reflexivity.
Qed.

(* the width the layout uses for a scalar field *)
Definition spec_width (f : field) : option nat :=
  match f_attr f with
  | ABasic ty => scalar_width (get_basic_type ty)
  | ALen _ ty | ACheck _ ty => ty_width (get_basic_type ty)
  | _ => None
  end.

Lemma scalar_field_facts (M : bmodel) (f : field) :
  scalar_ok f = true ->
  exists (w : nat) (lt : luatype),
    spec_width f = Some w /\ In (gtype f, w) scalar_names /\ lua_basic (gtype f) = Some lt /\ lt_size lt = w /\
    (f_rep f = false -> min_size M f = w).
Proof.
  unfold scalar_ok, spec_width, min_size, gtype. intros Hok.
  destruct (f_attr f) as [ty | | | tg ty | alg ty | | |] eqn:Ha; try discriminate Hok.
  - rewrite (fgt_scalar f ty (or_introl Ha)) in *.
    destruct (orb _ _); [discriminate Hok |].
    destruct (scalar_width (get_basic_type ty)) as [w |] eqn:Hw; [| discriminate Hok].
    pose proof (scalar_width_cases _ _ Hw) as Hin.
    destruct (scalar_lua _ _ Hin) as [lt [Hlt [Hsz _]]].
    exists w, lt. repeat split; try assumption. intros ->. reflexivity.
  - unfold width_of_field in *.
    rewrite (fgt_scalar f ty (or_intror (or_introl (ex_intro _ tg Ha)))) in *.
    destruct (orb _ _); [discriminate Hok |].
    destruct (ty_width (get_basic_type ty)) as [w |] eqn:Hw; [| discriminate Hok].
    pose proof (ty_width_cases _ _ Hw) as Hin.
    destruct (scalar_lua _ _ Hin) as [lt [Hlt [Hsz _]]].
    exists w, lt. repeat split; try assumption. intros ->. reflexivity.
  - unfold width_of_field in *.
    rewrite (fgt_scalar f ty (or_intror (or_intror (ex_intro _ alg Ha)))) in *.
    destruct (orb _ _); [discriminate Hok |].
    destruct (ty_width (get_basic_type ty)) as [w |] eqn:Hw; [| discriminate Hok].
    pose proof (ty_width_cases _ _ Hw) as Hin.
    destruct (scalar_lua _ _ Hin) as [lt [Hlt [Hsz _]]].
    exists w, lt. repeat split; try assumption. intros ->. reflexivity.
Qed.

Lemma unsigned_prefix_facts (M : bmodel) (t : string) :
  unsigned_prefix t = true ->
  exists w : nat, (w = 1 \/ w = 2 \/ w = 4)%nat /\ ty_width t = Some w /\
    lua_basic t = Some (mkLT "uint32" "uint" "le_uint" w) /\
    forall (tree var label : string) (f : field),
      prefix_stmts M tree t var label f
      = [LLocalInt var w (uint_meth (le_of M)); LAddText tree label var w; LAdv (LConst w)].
Proof.
  unfold unsigned_prefix, str_in. cbn [existsb]. intros H.
  repeat (apply orb_prop in H; destruct H as [H | H]); try discriminate H;
    apply String.eqb_eq in H; subst t;
    [exists 1%nat | exists 2%nat | exists 4%nat]; (split; [tauto |]); repeat split; intros; reflexivity.
Qed.

Section Fields.
  Variable M : bmodel.
  Variable root : packet.
  Variable buf : list byte.            (* the final buffer: the whole message *)
  Variable fields : list string.
  Variable callf : string -> lval -> lval -> list triple -> nat -> lres (lval * list triple * nat).
  Variable lay : packet -> value -> list byte -> option (list byte).
  Variable rec : packet -> value -> list byte -> option (list rtriple).

  Notation run := (exec_list buf fields callf).
  Notation fname f := (lua_field_name M root f).

  Definition velems (v : value) : nat := match v with VList l => length l | _ => 0%nat end.

  (* what may be repeated *)
  Definition elem_ok (f : field) : bool :=
    match f_attr f with
    | ABasic _ => scalar_ok f
    | AFixed _ _ => true
    | ADyn => unsigned_prefix (c_str (m_cfg M))
    | _ => false
    end.

  (* "tree:add(fields.X, buf(offset, w)); offset = offset + w", preceded by "local k = buf(offset, w):meth()"
     when the field is a match key *)
  Lemma scalar_exec (f : field) (key : bool) (w n : nat) (lt : luatype) (rest : list lstmt)
        (L : lenv) (out : list triple) (budget : nat) :
    (exists ty, f_attr f = ABasic ty \/ (exists x, f_attr f = ALen x ty) \/ (exists x, f_attr f = ACheck x ty)) ->
    lua_basic (gtype f) = Some lt -> lt_size lt = w -> In (gtype f, w) scalar_names ->
    (key = true -> key_name_ok M (f_name f) = true) ->
    mem_str (fname f) fields = true ->
    clean L -> (n + w <= length buf)%nat ->
    exists X, clean X /\
      run ((if key then local_stmts M f else []) ++ field_stmts M "tree" root f ++ rest) (mkLS (envL L n) out budget None)
      = run rest (mkLS (envL (X ++ L) (n + w)) ((fname f, n, w) :: out) budget None).
  Proof.
    intros [ty Ha] Hlt Hsz Hin Hkey Hmem HL Hb.
    assert (Hfs : field_stmts M "tree" root f = [LAdd "tree" (fname f) (LConst w) (le_of M); LAdv (LConst w)]).
    { unfold field_stmts. destruct Ha as [Ha | [[x Ha] | [x Ha]]]; rewrite Ha, Hlt, Hsz; reflexivity. }
    assert (Hls : local_stmts M f = [LLocalInt (snake M (f_name f)) w (lua_meth M lt)]).
    { unfold local_stmts. destruct Ha as [Ha | [[x Ha] | [x Ha]]]; rewrite Ha, Hlt, Hsz; reflexivity. }
    rewrite Hfs. destruct key.
    - rewrite Hls. cbn [app].
      destruct (scalar_lua _ _ Hin) as [lt' [Hlt' [_ Hacc]]].
      rewrite Hlt in Hlt'. injection Hlt' as <-.
      destruct (Hacc (le_of M) (firstn w (skipn n buf))) as [v Hv].
      destruct (key_name_clean M (f_name f) (Hkey eq_refl)) as [Hk1 Hk2].
      exists [(snake M (f_name f), v)]. split; [cbn [clean]; tauto |].
      rewrite (step_local_int buf fields callf _ _ w n v _ L out budget HL Hb Hv).
      cbn [app]. apply step_add_adv; [cbn [clean]; tauto | assumption | assumption].
    - exists []. split; [exact I |]. cbn [app]. apply step_add_adv; assumption.
  Qed.

  Lemma elem_exec (f : field) (key : bool) (v : value) (cur e : list byte) :
    elem_ok f = true ->
    (key = true -> key_name_ok M (f_name f) = true) ->
    mem_str (fname f) fields = true ->
    lay_elem M lay (f_attr f) v cur = Some e ->
    exists (bytes : list byte) (s l : nat),
      e = cur ++ bytes /\ velems v = 0%nat /\ (f_rep f = false -> (min_size M f <= length bytes)%nat) /\
      (forall e', length e' = length e ->
                  rng_elem M rec (fname f) (f_attr f) v cur e' = Some [(fname f, s, l)]) /\
      (holds buf (length cur) bytes ->
       forall (L : lenv) (out : list triple) (budget : nat) (rest : list lstmt), clean L ->
       exists X, clean X /\
         run ((if key then local_stmts M f else []) ++ field_stmts M "tree" root f ++ rest)
             (mkLS (envL L (length cur)) out budget None)
         = run rest (mkLS (envL (X ++ L) (length e)) ((fname f, s, l) :: out) budget None)).
  Proof.
    intros Hok Hkey Hmem Hlay. unfold elem_ok in Hok.
    destruct (f_attr f) as [ty | n0 fp | | | | | |] eqn:Ha; try discriminate Hok.
    - (* scalar *)
      destruct (scalar_field_facts M f Hok) as [w [lt [Hsw [Hin [Hlt [Hsz Hmin]]]]]].
      unfold spec_width in Hsw. rewrite Ha in Hsw.
      destruct v as [x | s | l | vs | q pv]; cbn [lay_elem] in Hlay; try discriminate Hlay.
      rewrite Hsw in Hlay. destruct (fits w x); [| discriminate Hlay].
      injection Hlay as <-.
      exists (enc_int w (cfg_le M) x), (length cur), w.
      rewrite enc_int_length.
      split; [reflexivity |]. split; [reflexivity |].
      split; [intros Hr; rewrite (Hmin Hr); lia |].
      split.
      + intros e' He'. cbn [rng_elem]. rewrite He', app_length, enc_int_length.
        replace (length cur + w - length cur)%nat with w by lia. reflexivity.
      + intros Hh L out budget rest HL.
        pose proof (holds_bound _ _ _ Hh) as Hb. rewrite enc_int_length in Hb.
        rewrite app_length, enc_int_length.
        apply (scalar_exec f key w (length cur) lt rest L out budget); try assumption.
        exists ty. left. exact Ha.
    - (* fixed string *)
      destruct v as [x | s | l | vs | q pv]; cbn [lay_elem] in Hlay; try discriminate Hlay.
      destruct (eff_pad M fp) as [[c lft] |]; [| discriminate Hlay].
      destruct (Nat.leb (length s) n0) eqn:Hfit; [| discriminate Hlay].
      injection Hlay as <-. apply Nat.leb_le in Hfit.
      exists (pad_to n0 c lft s), (length cur), n0.
      rewrite (pad_to_length n0 c lft s Hfit).
      split; [reflexivity |]. split; [reflexivity |].
      split; [intros Hr; unfold min_size; rewrite Hr, Ha; lia |].
      split.
      + intros e' He'. cbn [rng_elem]. rewrite He', app_length, (pad_to_length n0 c lft s Hfit).
        replace (length cur + n0 - length cur)%nat with n0 by lia. reflexivity.
      + intros Hh L out budget rest HL.
        pose proof (holds_bound _ _ _ Hh) as Hb. rewrite (pad_to_length n0 c lft s Hfit) in Hb.
        rewrite app_length, (pad_to_length n0 c lft s Hfit).
        unfold field_stmts, local_stmts. rewrite Ha. destruct key.
        * destruct (key_name_clean M (f_name f) (Hkey eq_refl)) as [Hk1 Hk2].
          eexists [(snake M (f_name f), _)]. split; [cbn [clean]; tauto |].
          cbn [app].
          rewrite (step_local_str buf fields callf _ n0 (length cur) _ L out budget HL Hb).
          apply step_add_adv; [cbn [clean]; tauto | assumption | assumption].
        * exists []. split; [exact I |]. cbn [app]. apply step_add_adv; assumption.
    - (* dynamic string *)
      destruct (unsigned_prefix_facts M _ Hok) as [w [Hw [Htw [Hlb Hps]]]].
      destruct v as [x | s | l | vs | q pv]; cbn [lay_elem] in Hlay; try discriminate Hlay.
      unfold str_w in Hlay. rewrite Htw in Hlay.
      destruct (fits w (N.of_nat (length s))) eqn:Hfit; [| discriminate Hlay].
      injection Hlay as <-.
      exists (enc_int w (cfg_le M) (N.of_nat (length s)) ++ s), (length cur + w)%nat, (length s).
      split; [reflexivity |]. split; [reflexivity |].
      split; [intros Hr; unfold min_size, cfg_str_w; rewrite Hr, Ha, Htw, app_length, enc_int_length; cbn [opt_w]; lia |].
      split.
      + intros e' He'. cbn [rng_elem]. unfold str_w. rewrite Htw, He', !app_length, enc_int_length.
        replace (length cur + (w + length s) - length cur - w)%nat with (length s) by lia. reflexivity.
      + intros Hh L out budget rest HL.
        destruct (holds_split _ _ _ _ Hh) as [Hh1 Hh2]. rewrite enc_int_length in Hh2.
        pose proof (holds_bound _ _ _ Hh2) as Hb2.
        pose proof (holds_bound _ _ _ Hh1) as Hb1. rewrite enc_int_length in Hb1.
        rewrite !app_length, enc_int_length.
        unfold field_stmts, local_stmts. rewrite Ha, Hlb, Hps. cbn [lt_size].
        change (lua_meth M (mkLT "uint32" "uint" "le_uint" w)) with (uint_meth (le_of M)).
        change (cfg_le M) with (le_of M) in *.
        assert (Hln1 : len_name M root f <> "offset") by apply suffix_len_ne_offset.
        assert (Hln2 : len_name M root f <> "tree") by apply suffix_len_ne_tree.
        destruct key.
        * destruct (key_name_clean M (f_name f) (Hkey eq_refl)) as [Hk1 Hk2].
          pose proof (holds_read _ _ _ Hh1) as Hr. rewrite enc_int_length in Hr.
          assert (HL1 : clean (("_len", LvNum (Z.of_nat (length s))) :: L))
            by (cbn [clean]; repeat split; try assumption; discriminate).
          eexists [(len_name M root f, _); (snake M (f_name f), _); ("_len", _)].
          split; [cbn [clean]; repeat split; try assumption; discriminate |].
          cbn [app].
          rewrite (step_local_int buf fields callf "_len" _ w (length cur) (LvNum (Z.of_nat (length s))) _ L out budget HL
                     ltac:(lia) ltac:(rewrite Hr; apply accessor_prefix; assumption)).
          rewrite (step_local_str_var buf fields callf _ "_len" (length s) (length cur) _ L out budget HL1 ltac:(lia)).
          assert (HL2 : clean ((snake M (f_name f), LvBytes (firstn (length s) (skipn (length cur) buf)))
                               :: ("_len", LvNum (Z.of_nat (length s))) :: L))
            by (cbn [clean]; repeat split; try assumption; discriminate).
          rewrite (step_prefix buf fields callf (len_name M root f) _ w (length s) (length cur) (le_of M) _ _ out budget
                     HL2 Hln1 Hln2 Hw Hfit Hh1).
          assert (HL3 : clean ((len_name M root f, LvNum (Z.of_nat (length s)))
                               :: (snake M (f_name f), LvBytes (firstn (length s) (skipn (length cur) buf)))
                               :: ("_len", LvNum (Z.of_nat (length s))) :: L))
            by (cbn [clean]; repeat split; try assumption; discriminate).
          rewrite (step_add_adv_var buf fields callf (fname f) (len_name M root f) (length cur + w) (length s) rest _ out
                     budget HL3 Hmem ltac:(lia)).
          rewrite Nat.add_assoc. reflexivity.
        * eexists [(len_name M root f, _)].
          split; [cbn [clean]; repeat split; assumption |].
          cbn [app].
          rewrite (step_prefix buf fields callf (len_name M root f) _ w (length s) (length cur) (le_of M) _ L out budget
                     HL Hln1 Hln2 Hw Hfit Hh1).
          assert (HL3 : clean ((len_name M root f, LvNum (Z.of_nat (length s))) :: L))
            by (cbn [clean]; repeat split; assumption).
          rewrite (step_add_adv_var buf fields callf (fname f) (len_name M root f) (length cur + w) (length s) rest _ out
                     budget HL3 Hmem ltac:(lia)).
          rewrite Nat.add_assoc. reflexivity.
  Qed.

  (* ---- repeated fields ---- *)

  Definition loop_body (f : field) : list lstmt :=
    field_stmts M "tree" root f ++ [LInfo ("append:" ++ f_name f)].

  Lemma loop_exec (f : field) :
    elem_ok f = true -> mem_str (fname f) fields = true ->
    forall (l : list value) (cur e : list byte),
    lay_list (lay_elem M lay (f_attr f)) l cur = Some e ->
    exists (bytes : list byte) (r : list rtriple),
      e = cur ++ bytes /\ rng_list M lay rec (fname f) (f_attr f) l cur = Some r /\ length r = length l /\
      (holds buf (length cur) bytes ->
       forall (L : lenv) (out : list triple) (budget k : nat) (i : Z), clean L ->
       (length l <= k)%nat -> (length l <= budget)%nat ->
       for_loop (run (loop_body f)) k i (i + Z.of_nat (length l) - 1)%Z (mkLS (envL L (length cur)) out budget None)
       = LOk (mkLS (envL L (length e)) (rev r ++ out) (budget - length l) None)).
  Proof.
    intros Hok Hmem. induction l as [| v l' IH]; intros cur e Hlay.
    - cbn [lay_list] in Hlay. injection Hlay as <-.
      exists [], []. split; [rewrite app_nil_r; reflexivity |]. split; [reflexivity |]. split; [reflexivity |].
      intros _ L out budget k i HL _ _. cbn [length rev app].
      rewrite Nat.sub_0_r.
      destruct k; cbn [for_loop];
        (destruct (Z.ltb_spec (i + Z.of_nat 0 - 1) i) as [_ | Hge]; [reflexivity | lia]).
    - cbn [lay_list] in Hlay.
      destruct (lay_elem M lay (f_attr f) v cur) as [e1 |] eqn:H1; [| discriminate Hlay].
      destruct (elem_exec f false v cur e1 Hok ltac:(discriminate) Hmem H1)
        as [b1 [s [len [He1 [_ [_ [Hrng Hexec]]]]]]].
      destruct (IH e1 e Hlay) as [bs [r' [He [Hr' [Hrl' Hloop]]]]].
      exists (b1 ++ bs), ((fname f, s, len) :: r').
      split; [rewrite He, He1, app_assoc; reflexivity |].
      split; [cbn [rng_list]; rewrite H1, (Hrng e1 eq_refl), Hr'; reflexivity |].
      split; [cbn [length]; rewrite Hrl'; reflexivity |].
      intros Hh L out budget k i HL Hk Hb.
      destruct (holds_split _ _ _ _ Hh) as [Hh1 Hh2].
      cbn [length] in Hk, Hb |- *.
      destruct k as [| k']; [lia |]. destruct budget as [| b']; [lia |].
      cbn [for_loop ls_ret ls_budget ls_env ls_out].
      destruct (Z.ltb_spec (i + Z.of_nat (S (length l')) - 1) i) as [Hlt | _]; [lia |].
      rewrite envL_cons.
      assert (HLi : clean (("i", LvNum i) :: L)) by (cbn [clean]; repeat split; try assumption; discriminate).
      destruct (Hexec Hh1 (("i", LvNum i) :: L) out b' [LInfo ("append:" ++ f_name f)] HLi) as [X [HX Hrun]].
      cbn [app] in Hrun. unfold loop_body at 1. rewrite Hrun.
      cbn [exec_list ls_ret exec_stmt lbind].
      replace (X ++ ("i", LvNum i) :: L) with ((X ++ [("i", LvNum i)]) ++ L) by (rewrite <- app_assoc; reflexivity).
      rewrite leave_envL.
      replace (i + Z.of_nat (S (length l')) - 1)%Z with (i + 1 + Z.of_nat (length l') - 1)%Z by lia.
      assert (Hh2' : holds buf (length e1) bs) by (rewrite He1, app_length; exact Hh2).
      rewrite (Hloop Hh2' L ((fname f, s, len) :: out) b' k' (i + 1)%Z HL ltac:(lia) ltac:(lia)).
      cbn [rev]. rewrite <- app_assoc. reflexivity.
  Qed.

  Lemma list_stmts_shape (f : field) (w : nat) :
    elem_ok f = true ->
    (forall (tree var label : string) (g : field),
      prefix_stmts M tree (c_list (m_cfg M)) var label g
      = [LLocalInt var w (uint_meth (le_of M)); LAddText tree label var w; LAdv (LConst w)]) ->
    list_stmts M "tree" root f
    = [LLocalInt (size_name M root f) w (uint_meth (le_of M));
       LAddText "tree" (f_name f ++ " Size: ") (size_name M root f) w; LAdv (LConst w);
       LFor (size_name M root f) (loop_body f)].
  Proof.
    intros Hok Hps. unfold list_stmts, loop_body. rewrite Hps. unfold elem_ok in Hok.
    destruct (f_attr f); try discriminate Hok; reflexivity.
  Qed.

  Lemma list_field_exec (f : field) (v : value) (cur : list byte) (lp : option nat) (st' : lstate) :
    f_rep f = true -> unsigned_prefix (c_list (m_cfg M)) = true -> elem_ok f = true ->
    mem_str (fname f) fields = true ->
    lay_field no_cs M lay root f v (cur, lp) = Some st' ->
    exists (bytes : list byte) (r : list rtriple),
      st' = (cur ++ bytes, lp) /\ (min_size M f <= length bytes)%nat /\
      rng_field M lay rec root f v (cur, lp) st' = Some r /\ velems v = length r /\
      (holds buf (length cur) bytes ->
       forall (L : lenv) (out : list triple) (budget : nat) (rest : list lstmt), clean L ->
       (velems v <= budget)%nat ->
       exists X, clean X /\
         run (list_stmts M "tree" root f ++ rest) (mkLS (envL L (length cur)) out budget None)
         = run rest (mkLS (envL (X ++ L) (length (fst st'))) (rev r ++ out) (budget - velems v) None)).
  Proof.
    intros Hrep Hpre Hok Hmem Hlay.
    destruct (unsigned_prefix_facts M _ Hpre) as [w [Hw [Htw [_ Hps]]]].
    unfold lay_field in Hlay. rewrite Hrep in Hlay.
    destruct v as [x | s | l | vs | q pv]; try discriminate Hlay.
    destruct (repeatable (f_attr f)); [| discriminate Hlay].
    unfold list_w in Hlay. rewrite Htw in Hlay.
    destruct (fits w (N.of_nat (length l))) eqn:Hfit; [| discriminate Hlay].
    destruct (lay_list _ l _) as [e |] eqn:Hl; [| discriminate Hlay].
    injection Hlay as <-.
    destruct (loop_exec f Hok Hmem l _ e Hl) as [bytes [r [He [Hr [Hrl Hloop]]]]].
    exists (enc_int w (cfg_le M) (N.of_nat (length l)) ++ bytes), r.
    split; [rewrite He, app_assoc; reflexivity |].
    split; [unfold min_size, cfg_list_w; rewrite Hrep, Htw, app_length, enc_int_length; cbn [opt_w]; lia |].
    split; [unfold rng_field; rewrite Hrep; unfold list_w; rewrite Htw; cbn [fst]; exact Hr |].
    split; [cbn [velems]; symmetry; exact Hrl |].
    { intros Hh L out budget rest HL Hbud. cbn [velems fst] in Hbud |- *.
      destruct (holds_split _ _ _ _ Hh) as [Hh1 Hh2]. rewrite enc_int_length in Hh2.
      change (cfg_le M) with (le_of M) in *.
      rewrite (list_stmts_shape f w Hok Hps). cbn [app].
      assert (Hs1 : size_name M root f <> "offset") by apply suffix_size_ne_offset.
      assert (Hs2 : size_name M root f <> "tree") by apply suffix_size_ne_tree.
      rewrite (step_prefix buf fields callf (size_name M root f) _ w (length l) (length cur) (le_of M) _ L out budget
                 HL Hs1 Hs2 Hw Hfit Hh1).
      assert (HL1 : clean ((size_name M root f, LvNum (Z.of_nat (length l))) :: L))
        by (cbn [clean]; repeat split; assumption).
      rewrite (step_for buf fields callf (size_name M root f) (loop_body f) rest
                 (mkLS (envL ((size_name M root f, LvNum (Z.of_nat (length l))) :: L) (length cur + w)) out budget None)
                 (Z.of_nat (length l)) eq_refl (lget_envL_hd _ _ _ _)).
      cbn [ls_budget].
      assert (Hh2' : holds buf (length (cur ++ enc_int w (le_of M) (N.of_nat (length l)))) bytes)
        by (rewrite app_length, enc_int_length; exact Hh2).
      pose proof (Hloop Hh2' _ out budget budget 1%Z HL1 Hbud Hbud) as Hrun.
      rewrite app_length, enc_int_length in Hrun.
      replace (1 + Z.of_nat (length l) - 1)%Z with (Z.of_nat (length l)) in Hrun by lia.
      rewrite Hrun. cbn [lbind].
      exists [(size_name M root f, LvNum (Z.of_nat (length l)))]. split; [cbn [clean]; tauto |].
      reflexivity. }
  Qed.

  (* ---- length-of targets: the placeholder that a later field patches ---- *)

  Definition is_target (f : field) : bool := match f_len f with LTarget => true | _ => false end.
  Definition has_target (fs : list field) : bool := existsb is_target fs.

  (* a placeholder that a later field patches is at least as wide as the patch *)
  Fixpoint len_ok (fs : list field) : bool :=
    match fs with
    | [] => true
    | f :: r =>
        andb (len_ok r)
             (match f_attr f with
              | ALen _ ty =>
                  orb (negb (has_target r))
                      (match len_width root, ty_width (get_basic_type ty) with
                       | Some w', Some w => Nat.leb w' w
                       | _, _ => true
                       end)
              | _ => true
              end)
    end.

  Definition lp_inv (tg : bool) (lp : option nat) (cur : list byte) : Prop :=
    tg = true -> forall pos w', lp = Some pos -> len_width root = Some w' -> (pos + w' <= length cur)%nat.

  (* the region [o, o + |x|) is not the placeholder *)
  Definition sep (tg : bool) (lp : option nat) (o : nat) (x : list byte) : Prop :=
    tg = true -> forall pos w', lp = Some pos -> len_width root = Some w' ->
                 (pos + w' <= o \/ o + length x <= pos)%nat.

  (* what laying out one field does to the state *)
  Definition shape (f : field) (fr : list field) (cur : list byte) (lp : option nat)
             (bytes cur' : list byte) (lp' : option nat) : Prop :=
    (cur' = cur ++ bytes /\ lp' = lp)
    \/ (cur' = cur ++ bytes /\ lp' = Some (length cur) /\
        (has_target fr = true -> forall w', len_width root = Some w' -> (w' <= length bytes)%nat))
    \/ (is_target f = true /\ lp' = lp /\
        exists pos w' n, lp = Some pos /\ len_width root = Some w' /\
                         cur' = patch_at (cur ++ bytes) pos (enc_int w' (cfg_le M) n)).

  Lemma has_target_cons (f : field) (fr : list field) : has_target fr = true -> has_target (f :: fr) = true.
  Proof. intros H. unfold has_target in *. cbn [existsb]. rewrite H. apply orb_true_r. Qed.

  Lemma has_target_hd (f : field) (fr : list field) : is_target f = true -> has_target (f :: fr) = true.
  Proof. intros H. unfold has_target. cbn [existsb]. rewrite H. reflexivity. Qed.

  Lemma shape_facts (f : field) (fr : list field) (cur : list byte) (lp : option nat)
        (bytes cur' : list byte) (lp' : option nat) :
    shape f fr cur lp bytes cur' lp' ->
    lp_inv (has_target (f :: fr)) lp cur ->
    length cur' = (length cur + length bytes)%nat /\
    lp_inv (has_target fr) lp' cur' /\
    (forall o x, holds cur o x -> sep (has_target (f :: fr)) lp o x ->
                 holds cur' o x /\ sep (has_target fr) lp' o x) /\
    (lp' = lp -> holds cur' (length cur) bytes /\ sep (has_target fr) lp' (length cur) bytes).
  Proof.
    intros Hs Hinv. destruct Hs as [[-> ->] | [[-> [-> Hw]] | [Ht [-> [pos [w' [n [-> [Hlw ->]]]]]]]]].
    - split; [apply app_length |].
      split; [intros Htg pos w' Hp Hlw; rewrite app_length; pose proof (Hinv (has_target_cons f fr Htg) pos w' Hp Hlw); lia |].
      split.
      + intros o x Hh Hsep. split; [apply holds_app_r; exact Hh |].
        intros Htg. apply Hsep. apply has_target_cons. exact Htg.
      + intros _. split; [apply holds_end |].
        intros Htg pos w' Hp Hlw. left. apply (Hinv (has_target_cons f fr Htg) pos w' Hp Hlw).
    - split; [apply app_length |].
      split; [intros Htg pos w' Hp Hlw; injection Hp as <-; rewrite app_length; pose proof (Hw Htg w' Hlw); lia |].
      split.
      + intros o x Hh Hsep. split; [apply holds_app_r; exact Hh |].
        intros Htg pos w' Hp Hlw. injection Hp as <-. right. apply (holds_bound _ _ _ Hh).
      + intros Heq. split; [apply holds_end |].
        intros Htg pos w' Hp Hlw. left. injection Hp as <-.
        pose proof (Hinv (has_target_cons f fr Htg) (length cur) w' (eq_sym Heq) Hlw). lia.
    - pose proof (Hinv (has_target_hd f fr Ht) pos w' eq_refl Hlw) as Hpos.
      assert (Hpl : length (patch_at (cur ++ bytes) pos (enc_int w' (cfg_le M) n)) = (length cur + length bytes)%nat).
      { rewrite patch_at_length; rewrite ?enc_int_length, app_length; lia. }
      split; [exact Hpl |].
      split; [intros Htg pos0 w0 Hp Hlw0; rewrite Hpl; pose proof (Hinv (has_target_hd f fr Ht) pos0 w0 Hp Hlw0); lia |].
      split.
      + intros o x Hh Hsep. split.
        * apply holds_patch; [apply holds_app_r; exact Hh | rewrite enc_int_length, app_length; lia |].
          rewrite enc_int_length. apply (Hsep (has_target_hd f fr Ht) pos w' eq_refl Hlw).
        * intros Htg. apply Hsep. apply has_target_hd. exact Ht.
      + intros _. split.
        * apply holds_patch; [apply holds_end | rewrite enc_int_length, app_length; lia |].
          rewrite enc_int_length. left. exact Hpos.
        * intros Htg pos0 w0 Hp Hlw0. left. apply (Hinv (has_target_hd f fr Ht) pos0 w0 Hp Hlw0).
  Qed.

  (* the default branch of lay_field: lay_elem, then the patch of the placeholder if the field is the target *)
  Lemma lay_field_default (f : field) (v : value) (cur : list byte) (lp : option nat) (cur' : list byte) (lp' : option nat) :
    f_rep f = false ->
    match f_attr f with ALen _ _ | ACheck _ _ => False | _ => True end ->
    lay_field no_cs M lay root f v (cur, lp) = Some (cur', lp') ->
    exists e, lay_elem M lay (f_attr f) v cur = Some e /\ lp' = lp /\
      (cur' = e \/ (is_target f = true /\ exists pos w' n, lp = Some pos /\ len_width root = Some w' /\
                                                         cur' = patch_at e pos (enc_int w' (cfg_le M) n))).
  Proof.
    intros Hrep Ha Hlay. unfold lay_field in Hlay. rewrite Hrep in Hlay. unfold is_target.
    destruct (f_attr f); try contradiction;
      (destruct (f_len f) eqn:Hfl;
       [ destruct (lay_elem M lay _ v cur) as [e |]; [| discriminate Hlay]; injection Hlay as <- <-;
         exists e; repeat split; left; reflexivity
       | destruct lp as [pos |]; [| discriminate Hlay];
         destruct (len_width root) as [w' |]; [| discriminate Hlay];
         destruct (lay_elem M lay _ v cur) as [e |]; [| discriminate Hlay];
         destruct (fits w' _); [| discriminate Hlay]; injection Hlay as <- <-;
         exists e; repeat split; right; split; [reflexivity |]; eexists _, _, _; repeat split
       | destruct (lay_elem M lay _ v cur) as [e |]; [| discriminate Hlay]; injection Hlay as <- <-;
         exists e; repeat split; left; reflexivity ]).
  Qed.

  Lemma default_shape (f : field) (fr : list field) (cur : list byte) (lp : option nat) (bytes e cur' : list byte) :
    e = cur ++ bytes ->
    (cur' = e \/ (is_target f = true /\ exists pos w' n, lp = Some pos /\ len_width root = Some w' /\
                                                       cur' = patch_at e pos (enc_int w' (cfg_le M) n))) ->
    shape f fr cur lp bytes cur' lp.
  Proof.
    intros -> [-> | [Ht [pos [w' [n [Hlp [Hlw ->]]]]]]].
    - left. split; reflexivity.
    - right. right. split; [exact Ht |]. split; [reflexivity |]. exists pos, w', n. repeat split; assumption.
  Qed.

  (* ---- match fields whose payloads are empty packets ---- *)

  Hypothesis lay_empty : forall q v b e, p_fields q = [] -> lay q v b = Some e -> e = b.
  Hypothesis rec_empty : forall q v b e, p_fields q = [] -> lay q v b = Some e -> rec q v b = Some [].

  (* a call that does nothing but display an item over the next byte *)
  Definition harmless (g : string) : Prop :=
    forall (n : nat) (out : list triple) (budget : nat), (n + 1 <= length buf)%nat ->
      callf g LvTree (LvNum (Z.of_nat n)) out budget = LOk (LvNum (Z.of_nat n), out, budget).

  (* [matches]: the root packet may have match fields (then the sub-dissectors of the empty packets are called) *)
  Variable matches : bool.
  Hypothesis call_empty :
    matches = true -> forall mp, pair_ok M mp = true -> harmless ("dissect_" ++ snake M (mp_value mp)).

  Definition no_match (f : field) : bool := match f_attr f with AMatch _ _ _ => false | _ => true end.

  Lemma go_run (body : list lstmt) (st : lua_state) :
    (fix go (b : list lstmt) (st : lua_state) : lres lua_state :=
       match b with
       | [] => LOk st
       | s' :: r => match ls_ret st with
                    | Some _ => LOk st
                    | None => lbind (exec_stmt buf fields callf s' st) (go r)
                    end
       end) body st = run body st.
  Proof.
    revert st. induction body as [| s r IH]; intros st; [reflexivity |].
    cbn [exec_list]. destruct (ls_ret st); [reflexivity |].
    destruct (exec_stmt buf fields callf s st) as [st' | e]; cbn [lbind]; [apply IH | reflexivity].
  Qed.

  Lemma ifchain_noop (arms : list (string * string * list lstmt)) (st : lua_state) :
    (forall k lit body, In (k, lit, body) arms -> run body st = LOk st) ->
    leave st st = st ->
    exec_stmt buf fields callf (LIfChain arms) st = LOk st.
  Proof.
    intros Harms Hleave. cbn [exec_stmt].
    induction arms as [| [[k lit] body] r IH]; [reflexivity |].
    destruct (key_eq (lget (ls_env st) k) lit).
    - rewrite go_run, (Harms k lit body (or_introl eq_refl)). cbn [lbind]. rewrite Hleave. reflexivity.
    - apply IH. intros k' lit' body' Hin. apply (Harms k' lit' body'). right. exact Hin.
  Qed.

  Lemma chain_exec (k : string) (pairs : list mpair) (rest : list lstmt) (L : lenv) (out : list triple) (budget n : nat) :
    matches = true -> forallb (pair_ok M) pairs = true -> clean L -> (n + 1 <= length buf)%nat ->
    run (LIfChain (map (fun mp => (snake M k, mp_key mp,
                                   [LCall ("dissect_" ++ snake M (mp_value mp)) "tree" false;
                                    LInfo ("set:" ++ mp_value mp)])) pairs) :: rest)
        (mkLS (envL L n) out budget None)
    = run rest (mkLS (envL L n) out budget None).
  Proof.
    intros Hm Hpairs HL Hn. cbn [exec_list ls_ret].
    rewrite ifchain_noop; [reflexivity | |].
    - intros k' lit body Hin. apply in_map_iff in Hin. destruct Hin as [mp [Heq Hin]].
      injection Heq as _ _ <-.
      rewrite forallb_forall in Hpairs.
      cbn [exec_list ls_ret]. cbn [exec_stmt ls_env ls_out ls_budget].
      rewrite lget_envL_tree, lget_envL_offset by exact HL.
      pose proof (call_empty Hm mp (Hpairs mp Hin) n out budget Hn) as Hc. cbn [append] in Hc.
      rewrite Hc. cbn [lbind ls_ret exec_list]. reflexivity.
    - unfold leave, with_env. cbn [ls_env ls_out ls_budget ls_ret]. rewrite Nat.sub_diag. reflexivity.
  Qed.

  (* ---- one field of the root packet ---- *)

  Definition is_key (f : field) : bool := andb (is_match_key f root) (negb (String.eqb (gtype f) "match")).

  (* every field that bears the name of a match key is read into a local first: it must not be
     repeated (the local would be read over the count prefix and the first elements), and the
     local must not shadow offset / tree *)
  Definition keyc (f : field) : bool :=
    if is_key f then andb (negb (f_rep f)) (key_name_ok M (f_name f)) else true.

  Definition stmts_of (f : field) : list lstmt :=
    (if is_key f then local_stmts M f else [])
    ++ (if f_rep f then list_stmts M "tree" root f else field_stmts M "tree" root f).

  Definition declared (f : field) : bool :=
    match f_attr f with AMatch _ _ _ => true | _ => mem_str (fname f) fields end.

  Definition minsum (fs : list field) : nat := fold_right (fun g acc => (min_size M g + acc)%nat) 0%nat fs.

  (* the payload of a match field is a message of one of the packets the field lists *)
  Definition val_ok (f : field) (v : value) : bool :=
    orb (f_rep f)
        (match f_attr f, v with
         | AMatch _ _ pairs, VDyn name _ => existsb (fun mp => String.eqb name (mp_value mp)) pairs
         | _, _ => true
         end).

  Lemma rng_field_default (f : field) (v : value) (cur : list byte) (lp : option nat) (cur' : list byte) (lp' : option nat) :
    f_rep f = false ->
    match f_attr f with ALen _ _ | ACheck _ _ => False | _ => True end ->
    rng_field M lay rec root f v (cur, lp) (cur', lp') = rng_elem M rec (fname f) (f_attr f) v cur cur'.
  Proof.
    intros Hrep Ha. unfold rng_field. rewrite Hrep. cbn [fst].
    destruct (f_attr f); try contradiction; reflexivity.
  Qed.

  Lemma field_step (f : field) (fr : list field) (v : value) (cur : list byte) (lp : option nat)
        (cur' : list byte) (lp' : option nat) :
    fields_ok M root (f :: fr) = true -> keyc f = true -> declared f = true -> val_ok f v = true ->
    (matches = false -> no_match f = true) ->
    len_ok (f :: fr) = true ->
    lay_field no_cs M lay root f v (cur, lp) = Some (cur', lp') ->
    exists (bytes : list byte) (r : list rtriple),
      shape f fr cur lp bytes cur' lp' /\ (min_size M f <= length bytes)%nat /\ (velems v <= length r)%nat /\
      (lp_inv (has_target (f :: fr)) lp cur -> rng_field M lay rec root f v (cur, lp) (cur', lp') = Some r) /\
      (lp_inv (has_target (f :: fr)) lp cur ->
       (lp' = lp -> holds buf (length cur) bytes) ->
       (length cur' + minsum fr <= length buf)%nat ->
       forall (L : lenv) (out : list triple) (budget : nat) (rest : list lstmt), clean L ->
       (velems v <= budget)%nat ->
       exists X, clean X /\
         run (stmts_of f ++ rest) (mkLS (envL L (length cur)) out budget None)
         = run rest (mkLS (envL (X ++ L) (length cur')) (rev r ++ out) (budget - velems v) None)).
  Proof.
    intros Hok Hk Hdecl Hval Hnm Hlen Hlay.
    cbn [fields_ok] in Hok. apply andb_prop in Hok. destruct Hok as [_ Hf].
    assert (Hkn : is_key f = true -> key_name_ok M (f_name f) = true).
    { intros Hik. unfold keyc in Hk. rewrite Hik in Hk. apply andb_prop in Hk. tauto. }
    destruct (f_rep f) eqn:Hrep.
    - (* repeated *)
      apply andb_prop in Hf. destruct Hf as [Hpre Hf].
      assert (Helem : elem_ok f = true) by (unfold elem_ok; destruct (f_attr f); try discriminate Hf; exact Hf).
      assert (Hik : is_key f = false).
      { unfold keyc in Hk. destruct (is_key f); [rewrite Hrep in Hk; discriminate Hk | reflexivity]. }
      assert (Hmem : mem_str (fname f) fields = true).
      { unfold declared in Hdecl. unfold elem_ok in Helem. destruct (f_attr f); try discriminate Helem; exact Hdecl. }
      destruct (list_field_exec f v cur lp (cur', lp') Hrep Hpre Helem Hmem Hlay) as [bytes [r [Hst [Hmin [Hrng [Hvr Hexec]]]]]].
      injection Hst as -> ->.
      exists bytes, r. split; [left; split; reflexivity |]. split; [exact Hmin |]. split; [rewrite Hvr; apply le_n |].
      split; [intros _; exact Hrng |].
      intros _ Hh _ L out budget rest HL Hbud.
      destruct (Hexec (Hh eq_refl) L out budget rest HL Hbud) as [X [HX Hrun]].
      exists X. split; [exact HX |].
      unfold stmts_of. rewrite Hik, Hrep. cbn [app fst] in *. exact Hrun.
    - (* not repeated *)
      assert (Hcases : elem_ok f = true
                       \/ (scalar_ok f = true /\ ((exists tg ty, f_attr f = ALen tg ty) \/ (exists alg ty, f_attr f = ACheck alg ty)))
                       \/ (exists k ka pairs, f_attr f = AMatch (Some k) ka pairs /\ forallb (pair_ok M) pairs = true /\
                                               (1 <= minsum fr)%nat)).
      { unfold elem_ok. destruct (f_attr f) as [ty | n0 fp | | tg ty | alg ty | | [k |] ka pairs |]; try discriminate Hf.
        - left. exact Hf.
        - left. reflexivity.
        - left. exact Hf.
        - right. left. split; [exact Hf |]. left. exists tg, ty. reflexivity.
        - right. left. split; [exact Hf |]. right. exists alg, ty. reflexivity.
        - right. right. exists k, ka, pairs. apply andb_prop in Hf. destruct Hf as [Hp Hf].
          apply andb_prop in Hf. destruct Hf as [_ Hm]. apply Nat.leb_le in Hm. repeat split; assumption. }
      destruct Hcases as [Helem | [[Hsc Hattr] | [k [ka [pairs [Ha [Hpairs Hone]]]]]]].
      + (* scalar, fixed string, dynamic string *)
        assert (Hnl : match f_attr f with ALen _ _ | ACheck _ _ => False | _ => True end)
          by (unfold elem_ok in Helem; destruct (f_attr f); try discriminate Helem; exact I).
        assert (Hmem : mem_str (fname f) fields = true).
        { unfold declared in Hdecl. unfold elem_ok in Helem. destruct (f_attr f); try discriminate Helem; exact Hdecl. }
        destruct (lay_field_default f v cur lp cur' lp' Hrep Hnl Hlay) as [e [Hle [-> Hc]]].
        destruct (elem_exec f (is_key f) v cur e Helem Hkn Hmem Hle) as [bytes [s [l [He [Hv0 [Hmin [Hrng Hexec]]]]]]].
        pose proof (default_shape f fr cur lp bytes e cur' He Hc) as Hshape.
        exists bytes, [(fname f, s, l)].
        split; [exact Hshape |]. split; [exact (Hmin Hrep) |]. split; [rewrite Hv0; apply Nat.le_0_l |].
        split.
        * intros Hinv. destruct (shape_facts _ _ _ _ _ _ _ Hshape Hinv) as [Hl' _].
          rewrite (rng_field_default f v cur lp cur' lp Hrep Hnl). apply Hrng. rewrite Hl', He, app_length. reflexivity.
        * intros Hinv Hh _ L out budget rest HL _.
          destruct (shape_facts _ _ _ _ _ _ _ Hshape Hinv) as [Hl' _].
          destruct (Hexec (Hh eq_refl) L out budget rest HL) as [X [HX Hrun]].
          exists X. split; [exact HX |].
          unfold stmts_of. rewrite Hrep, <- app_assoc, Hrun, Hv0, Nat.sub_0_r.
          replace (length e) with (length cur') by (rewrite Hl', He, app_length; reflexivity).
          reflexivity.
      + (* length-of and checksum fields *)
        destruct (scalar_field_facts M f Hsc) as [w [lt [Hsw [Hin [Hlt [Hsz Hmsz]]]]]].
        assert (Hmem : mem_str (fname f) fields = true).
        { unfold declared in Hdecl. destruct Hattr as [[tg [ty Ha]] | [alg [ty Ha]]]; rewrite Ha in Hdecl; exact Hdecl. }
        assert (Hex : exists ty, f_attr f = ABasic ty \/ (exists x, f_attr f = ALen x ty) \/ (exists x, f_attr f = ACheck x ty)).
        { destruct Hattr as [[tg [ty Ha]] | [alg [ty Ha]]]; exists ty; [right; left | right; right]; eexists; exact Ha. }
        assert (Hgen : forall bytes, length bytes = w -> cur' = cur ++ bytes ->
                  (min_size M f <= length bytes)%nat /\
                  (rng_field M lay rec root f v (cur, lp) (cur', lp') = Some [(fname f, length cur, w)]) /\
                  ((length cur' + minsum fr <= length buf)%nat ->
                   forall (L : lenv) (out : list triple) (budget : nat) (rest : list lstmt), clean L ->
                   exists X, clean X /\
                     run (stmts_of f ++ rest) (mkLS (envL L (length cur)) out budget None)
                     = run rest (mkLS (envL (X ++ L) (length cur')) (rev [(fname f, length cur, w)] ++ out) budget None))).
        { intros bytes Hbl ->. split; [| split].
          - rewrite (Hmsz Hrep), Hbl. apply le_n.
          - unfold rng_field. rewrite Hrep. cbn [fst]. rewrite app_length, Hbl.
            replace (length cur + w - length cur)%nat with w by (clear; lia).
            destruct Hattr as [[tg [ty Ha]] | [alg [ty Ha]]]; rewrite Ha; reflexivity.
          - intros Hb L out budget rest HL. rewrite app_length, Hbl in *.
            destruct (scalar_exec f (is_key f) w (length cur) lt rest L out budget Hex Hlt Hsz Hin Hkn Hmem HL ltac:(clear - Hb; lia))
              as [X [HX Hrun]].
            exists X. split; [exact HX |].
            unfold stmts_of. rewrite Hrep, <- app_assoc. exact Hrun. }
        unfold lay_field in Hlay. rewrite Hrep in Hlay. unfold spec_width in Hsw.
        destruct Hattr as [[tg [ty Ha]] | [alg [ty Ha]]]; rewrite Ha in Hlay, Hsw.
        * destruct v as [x | s | l | vs | q pv]; try discriminate Hlay.
          rewrite Hsw in Hlay. injection Hlay as <- <-.
          destruct (Hgen (enc_int w (cfg_le M) 0%N) (enc_int_length _ _ _) eq_refl) as [Hmin [Hrng Hexec]].
          exists (enc_int w (cfg_le M) 0%N), [(fname f, length cur, w)].
          split.
          { right. left. split; [reflexivity |]. split; [reflexivity |].
            intros Htg w' Hlw. rewrite enc_int_length.
            cbn [len_ok] in Hlen. rewrite Ha, Htg, Hlw, Hsw in Hlen. cbn [negb orb] in Hlen.
            apply andb_prop in Hlen. destruct Hlen as [_ Hle]. apply Nat.leb_le in Hle. exact Hle. }
          split; [exact Hmin |]. split; [apply Nat.le_0_l |]. split; [intros _; exact Hrng |].
          intros _ _ Hb L out budget rest HL _. cbn [velems]. rewrite Nat.sub_0_r. apply Hexec; assumption.
        * destruct v as [x | s | l | vs | q pv]; try discriminate Hlay.
          rewrite Hsw in Hlay. unfold no_cs in Hlay.
          destruct (fits w x); [| discriminate Hlay]. injection Hlay as <- <-.
          destruct (Hgen (enc_int w (cfg_le M) x) (enc_int_length _ _ _) eq_refl) as [Hmin [Hrng Hexec]].
          exists (enc_int w (cfg_le M) x), [(fname f, length cur, w)].
          split; [left; split; reflexivity |].
          split; [exact Hmin |]. split; [apply Nat.le_0_l |]. split; [intros _; exact Hrng |].
          intros _ _ Hb L out budget rest HL _. cbn [velems]. rewrite Nat.sub_0_r. apply Hexec; assumption.
      + (* match field: the payload is a message of an empty packet *)
        assert (Hm : matches = true).
        { destruct matches; [reflexivity |]. specialize (Hnm eq_refl). unfold no_match in Hnm. rewrite Ha in Hnm. discriminate Hnm. }
        assert (Hnl : match f_attr f with ALen _ _ | ACheck _ _ => False | _ => True end) by (rewrite Ha; exact I).
        destruct (lay_field_default f v cur lp cur' lp' Hrep Hnl Hlay) as [e [Hle [-> Hc]]].
        rewrite Ha in Hle. unfold val_ok in Hval. rewrite Hrep, Ha in Hval. cbn [orb] in Hval.
        destruct v as [x | s | l | vs | name pv]; cbn [lay_elem] in Hle; try discriminate Hle.
        apply existsb_exists in Hval. destruct Hval as [mp [Hin Hname]].
        apply String.eqb_eq in Hname. subst name.
        rewrite forallb_forall in Hpairs. pose proof (Hpairs mp Hin) as Hpo. unfold pair_ok in Hpo.
        unfold lay_ref in Hle.
        destruct (lookup_packet M (mp_value mp)) as [q |] eqn:Hlk; [| discriminate Hpo].
        apply andb_prop in Hpo. destruct Hpo as [_ Hq].
        assert (Hqe : p_fields q = []) by (destruct (p_fields q); [reflexivity | discriminate Hq]).
        pose proof (lay_empty q pv cur e Hqe Hle) as ->.
        pose proof (default_shape f fr cur lp [] cur cur' (eq_sym (app_nil_r cur)) Hc) as Hshape.
        exists [], [].
        split; [exact Hshape |].
        split; [unfold min_size; rewrite Hrep, Ha; exact (le_n 0) |]. split; [apply Nat.le_0_l |].
        split.
        * intros _. rewrite (rng_field_default f _ cur lp cur' lp Hrep Hnl). rewrite Ha. cbn [rng_elem].
          unfold rng_ref. rewrite Hlk. apply (rec_empty q pv cur cur Hqe Hle).
        * intros Hinv _ Hb L out budget rest HL _. cbn [velems rev app]. rewrite Nat.sub_0_r.
          destruct (shape_facts _ _ _ _ _ _ _ Hshape Hinv) as [Hl' _]. cbn [length] in Hl'.
          exists []. split; [exact I |]. cbn [app].
          assert (Hik : is_key f = false).
          { unfold is_key, gtype, field_get_type. rewrite Ha. cbn [String.eqb Ascii.eqb Bool.eqb negb]. apply andb_false_r. }
          unfold stmts_of. rewrite Hik, Hrep. unfold field_stmts. rewrite Ha. cbn [app].
          replace (length cur') with (length cur) by (clear - Hl'; lia).
          destruct pairs as [| mp0 pr]; [destruct Hin |].
          apply chain_exec; [exact Hm | apply forallb_forall; exact Hpairs | exact HL | clear - Hb Hl' Hone; lia].
  Qed.

  (* ---- all the fields ---- *)

  Fixpoint vals_ok (fs : list field) (vs : list value) : bool :=
    match fs, vs with
    | f :: fr, v :: vr => andb (val_ok f v) (vals_ok fr vr)
    | _, _ => true
    end.

  (* the number of loop iterations the dissector makes *)
  Definition list_elems (vs : list value) : nat := fold_right (fun v acc => (velems v + acc)%nat) 0%nat vs.

  Lemma fields_ok_tl (f : field) (fr : list field) : fields_ok M root (f :: fr) = true -> fields_ok M root fr = true.
  Proof. cbn [fields_ok]. intros H. apply andb_prop in H. tauto. Qed.

  Lemma len_ok_tl (f : field) (fr : list field) : len_ok (f :: fr) = true -> len_ok fr = true.
  Proof. cbn [len_ok]. intros H. apply andb_prop in H. tauto. Qed.

  (* frame: what has been laid out stays where it is, except the placeholder *)
  Lemma lay_fields_frame (fs : list field) :
    forall (vs : list value) (cur : list byte) (lp : option nat) (b : list byte),
    fields_ok M root fs = true -> forallb keyc fs = true -> forallb declared fs = true ->
    vals_ok fs vs = true -> (matches = false -> forallb no_match fs = true) -> len_ok fs = true ->
    lp_inv (has_target fs) lp cur ->
    lay_fields no_cs M lay root fs vs (cur, lp) = Some b ->
    (length cur + minsum fs <= length b)%nat /\
    forall o x, holds cur o x -> sep (has_target fs) lp o x -> holds b o x.
  Proof.
    induction fs as [| f fr IH]; intros vs cur lp b Hok Hkeys Hdecl Hvals Hnm Hlen Hinv Hlay.
    - destruct vs as [| v vr]; [| discriminate Hlay]. cbn [lay_fields fst] in Hlay. injection Hlay as <-.
      split; [cbn [minsum fold_right]; lia |]. intros o x Hh _. exact Hh.
    - destruct vs as [| v vr]; [discriminate Hlay |].
      cbn [lay_fields] in Hlay.
      destruct (lay_field no_cs M lay root f v (cur, lp)) as [[cur' lp'] |] eqn:Hstep; [| discriminate Hlay].
      cbn [forallb] in Hkeys, Hdecl. apply andb_prop in Hkeys. apply andb_prop in Hdecl.
      cbn [vals_ok] in Hvals. apply andb_prop in Hvals.
      destruct Hkeys as [Hk Hkeys]. destruct Hdecl as [Hd Hdecl]. destruct Hvals as [Hv Hvals].
      assert (Hnm1 : matches = false -> no_match f = true)
        by (intros Hm; specialize (Hnm Hm); cbn [forallb] in Hnm; apply andb_prop in Hnm; tauto).
      assert (Hnm2 : matches = false -> forallb no_match fr = true)
        by (intros Hm; specialize (Hnm Hm); cbn [forallb] in Hnm; apply andb_prop in Hnm; tauto).
      destruct (field_step f fr v cur lp cur' lp' Hok Hk Hd Hv Hnm1 Hlen Hstep) as [bytes [r [Hshape [Hmin _]]]].
      destruct (shape_facts _ _ _ _ _ _ _ Hshape Hinv) as [Hl' [Hinv' [Hframe _]]].
      destruct (IH vr cur' lp' b (fields_ok_tl _ _ Hok) Hkeys Hdecl Hvals Hnm2 (len_ok_tl _ _ Hlen) Hinv' Hlay) as [Hbound Hfr].
      split.
      + unfold minsum in *. cbn [fold_right]. clear - Hbound Hl' Hmin. lia.
      + intros o x Hh Hsep. destruct (Hframe o x Hh Hsep) as [Hh' Hsep']. apply Hfr; assumption.
  Qed.

  Lemma fields_exec (fs : list field) :
    forall (vs : list value) (cur : list byte) (lp : option nat) (out : list triple) (budget : nat)
           (rest : list lstmt) (L : lenv),
    fields_ok M root fs = true -> forallb keyc fs = true -> forallb declared fs = true ->
    vals_ok fs vs = true -> (matches = false -> forallb no_match fs = true) -> len_ok fs = true ->
    lp_inv (has_target fs) lp cur ->
    lay_fields no_cs M lay root fs vs (cur, lp) = Some buf ->
    clean L -> (list_elems vs <= budget)%nat ->
    exists (r : list rtriple) (X : lenv),
      rng_fields no_cs M lay rec root fs vs (cur, lp) = Some r /\ clean X /\
      run (flat_map stmts_of fs ++ rest) (mkLS (envL L (length cur)) out budget None)
      = run rest (mkLS (envL (X ++ L) (length buf)) (rev r ++ out) (budget - list_elems vs) None).
  Proof.
    induction fs as [| f fr IH]; intros vs cur lp out budget rest L Hok Hkeys Hdecl Hvals Hnm Hlen Hinv Hlay HL Hbud.
    - destruct vs as [| v vr]; [| discriminate Hlay]. cbn [lay_fields fst] in Hlay. injection Hlay as <-.
      exists [], []. split; [reflexivity |]. split; [exact I |].
      cbn [flat_map app rev list_elems fold_right]. rewrite Nat.sub_0_r. reflexivity.
    - destruct vs as [| v vr]; [discriminate Hlay |].
      cbn [lay_fields] in Hlay.
      destruct (lay_field no_cs M lay root f v (cur, lp)) as [[cur' lp'] |] eqn:Hstep; [| discriminate Hlay].
      cbn [forallb] in Hkeys, Hdecl. apply andb_prop in Hkeys. apply andb_prop in Hdecl.
      cbn [vals_ok] in Hvals. apply andb_prop in Hvals.
      destruct Hkeys as [Hk Hkeys]. destruct Hdecl as [Hd Hdecl]. destruct Hvals as [Hv Hvals].
      cbn [list_elems fold_right] in Hbud. fold (list_elems vr) in Hbud.
      assert (Hnm1 : matches = false -> no_match f = true)
        by (intros Hm; specialize (Hnm Hm); cbn [forallb] in Hnm; apply andb_prop in Hnm; tauto).
      assert (Hnm2 : matches = false -> forallb no_match fr = true)
        by (intros Hm; specialize (Hnm Hm); cbn [forallb] in Hnm; apply andb_prop in Hnm; tauto).
      destruct (field_step f fr v cur lp cur' lp' Hok Hk Hd Hv Hnm1 Hlen Hstep) as [bytes [r1 [Hshape [Hmin [_ [Hrng Hexec]]]]]].
      destruct (shape_facts _ _ _ _ _ _ _ Hshape Hinv) as [Hl' [Hinv' [Hframe Hnew]]].
      destruct (lay_fields_frame fr vr cur' lp' buf (fields_ok_tl _ _ Hok) Hkeys Hdecl Hvals Hnm2 (len_ok_tl _ _ Hlen) Hinv' Hlay)
        as [Hbound Hfr].
      assert (Hh : lp' = lp -> holds buf (length cur) bytes).
      { intros Heq. destruct (Hnew Heq) as [Hh Hs]. apply Hfr; assumption. }
      destruct (Hexec Hinv Hh Hbound L out budget (flat_map stmts_of fr ++ rest) HL ltac:(clear - Hbud; lia)) as [X1 [HX1 Hrun1]].
      destruct (IH vr cur' lp' (rev r1 ++ out) (budget - velems v)%nat rest (X1 ++ L)
                   (fields_ok_tl _ _ Hok) Hkeys Hdecl Hvals Hnm2 (len_ok_tl _ _ Hlen) Hinv' Hlay
                   (clean_app _ _ HX1 HL) ltac:(clear - Hbud; lia)) as [r2 [X2 [Hr2 [HX2 Hrun2]]]].
      exists (r1 ++ r2), (X2 ++ X1).
      split; [cbn [rng_fields]; rewrite Hstep, (Hrng Hinv), Hr2; reflexivity |].
      split; [apply clean_app; assumption |].
      cbn [flat_map]. rewrite <- app_assoc, Hrun1, Hrun2.
      cbn [list_elems fold_right]. fold (list_elems vr).
      rewrite rev_app_distr, <- !app_assoc, Nat.sub_add_distr. reflexivity.
  Qed.

  (* every element of a list is attributed one range *)
  Lemma rng_fields_elems (fs : list field) :
    forall (vs : list value) (cur : list byte) (lp : option nat) (r : list rtriple),
    fields_ok M root fs = true -> forallb keyc fs = true -> forallb declared fs = true ->
    vals_ok fs vs = true -> (matches = false -> forallb no_match fs = true) -> len_ok fs = true ->
    lp_inv (has_target fs) lp cur ->
    rng_fields no_cs M lay rec root fs vs (cur, lp) = Some r ->
    (list_elems vs <= length r)%nat.
  Proof.
    induction fs as [| f fr IH]; intros vs cur lp r Hok Hkeys Hdecl Hvals Hnm Hlen Hinv Hrng.
    - destruct vs as [| v vr]; [| discriminate Hrng]. apply Nat.le_0_l.
    - destruct vs as [| v vr]; [discriminate Hrng |].
      cbn [rng_fields] in Hrng.
      destruct (lay_field no_cs M lay root f v (cur, lp)) as [[cur' lp'] |] eqn:Hstep; [| discriminate Hrng].
      cbn [forallb] in Hkeys, Hdecl. apply andb_prop in Hkeys. apply andb_prop in Hdecl.
      cbn [vals_ok] in Hvals. apply andb_prop in Hvals.
      destruct Hkeys as [Hk Hkeys]. destruct Hdecl as [Hd Hdecl]. destruct Hvals as [Hv Hvals].
      assert (Hnm1 : matches = false -> no_match f = true)
        by (intros Hm; specialize (Hnm Hm); cbn [forallb] in Hnm; apply andb_prop in Hnm; tauto).
      assert (Hnm2 : matches = false -> forallb no_match fr = true)
        by (intros Hm; specialize (Hnm Hm); cbn [forallb] in Hnm; apply andb_prop in Hnm; tauto).
      destruct (field_step f fr v cur lp cur' lp' Hok Hk Hd Hv Hnm1 Hlen Hstep) as [bytes [r1 [Hshape [_ [Hvr [Hr1 _]]]]]].
      destruct (shape_facts _ _ _ _ _ _ _ Hshape Hinv) as [_ [Hinv' _]].
      rewrite (Hr1 Hinv) in Hrng.
      destruct (rng_fields no_cs M lay rec root fr vr (cur', lp')) as [r2 |] eqn:Hr2; [| discriminate Hrng].
      injection Hrng as <-.
      pose proof (IH vr cur' lp' r2 (fields_ok_tl _ _ Hok) Hkeys Hdecl Hvals Hnm2 (len_ok_tl _ _ Hlen) Hinv' Hr2) as Hle2.
      rewrite app_length. cbn [list_elems fold_right]. fold (list_elems vr). clear - Hvr Hle2. lia.
  Qed.
End Fields.

(* ------------------------------------------------------------------ tie to gen_lua and to ranges *)

Lemma find_packet_in (ps : list packet) (n : string) (p : packet) : find_packet ps n = Some p -> In p ps.
Proof.
  induction ps as [| q r IH]; [discriminate |]. cbn [find_packet].
  destruct (String.eqb (p_name q) n); intros H; [injection H as <-; left; reflexivity | right; apply IH; exact H].
Qed.

Lemma root_packet_in (M : bmodel) (root : packet) : root_packet M = Some root -> In root (m_packets M).
Proof.
  unfold root_packet. destruct (m_root M) as [rn |]; [| discriminate]. apply find_packet_in.
Qed.

Lemma gen_lua_root (M : bmodel) (root : packet) :
  root_packet M = Some root ->
  gen_lua M = mkLua (flat_map (field_defs M def_fuel) (m_packets M))
                    (flat_map (fun p => if p_root p then [] else sub_dissectors M p) (m_packets M) ++ root_inline M root)
                    (packet_stmts M "tree" root).
Proof.
  unfold root_packet, gen_lua, gen_lua_opt. destruct (m_root M) as [rn |]; [| discriminate].
  intros ->. reflexivity.
Qed.

(* the kinds of fields for which a ProtoField is declared *)
Definition kind_ok (f : field) : bool :=
  match f_attr f with
  | ABasic _ | ALen _ _ | ACheck _ _ => scalar_ok f
  | AFixed _ _ | ADyn | AMatch _ _ _ => true
  | _ => false
  end.

Lemma fields_ok_kind (M : bmodel) (root : packet) (fs : list field) :
  fields_ok M root fs = true -> forallb kind_ok fs = true.
Proof.
  induction fs as [| f r IH]; [reflexivity |]. cbn [fields_ok forallb]. intros H.
  apply andb_prop in H. destruct H as [Hr Hf]. rewrite (IH Hr), andb_true_r.
  unfold kind_ok. destruct (f_rep f).
  - apply andb_prop in Hf. destruct Hf as [_ Hf]. destruct (f_attr f); try discriminate Hf; try reflexivity; exact Hf.
  - destruct (f_attr f); try discriminate Hf; try reflexivity; exact Hf.
Qed.

Lemma field_defs_declares (M : bmodel) (p : packet) (f : field) (k : nat) :
  In f (p_fields p) -> kind_ok f = true ->
  match f_attr f with AMatch _ _ _ => True | _ => In (lua_field_name M p f) (map fst (field_defs M (S k) p)) end.
Proof.
  intros Hin Hk. unfold kind_ok in Hk.
  assert (Hscalar : scalar_ok f = true -> In (lua_field_name M p f) (map fst (field_defs M (S k) p))).
  { intros Hsc. destruct (scalar_field_facts M f Hsc) as [w [lt [_ [Hnames _]]]].
    cbn [field_defs]. rewrite flat_map_concat_map, concat_map, map_map. apply in_concat.
    eexists. split; [apply in_map_iff; exists f; split; [reflexivity | exact Hin] |].
    unfold scalar_names in Hnames. cbn [In] in Hnames.
    repeat (destruct Hnames as [Hnames | Hnames];
            [injection Hnames as Hg _; rewrite <- Hg; destruct (f_attr f); left; reflexivity |]).
    destruct Hnames. }
  destruct (f_attr f) as [ty | n0 fp | | tg ty | alg ty | | |] eqn:Ha; try discriminate Hk; try exact I;
    try (apply Hscalar; exact Hk).
  - cbn [field_defs]. rewrite flat_map_concat_map, concat_map, map_map. apply in_concat.
    eexists. split; [apply in_map_iff; exists f; split; [reflexivity | exact Hin] |].
    rewrite Ha. left. reflexivity.
  - cbn [field_defs]. rewrite flat_map_concat_map, concat_map, map_map. apply in_concat.
    eexists. split; [apply in_map_iff; exists f; split; [reflexivity | exact Hin] |].
    rewrite Ha. unfold gtype, field_get_type. rewrite Ha. left. reflexivity.
Qed.

Lemma declared_root (M : bmodel) (root : packet) :
  root_packet M = Some root -> fields_ok M root (p_fields root) = true ->
  forallb (declared M root (map fst (lp_fields (gen_lua M)))) (p_fields root) = true.
Proof.
  intros Hroot Hok. rewrite (gen_lua_root M root Hroot). cbn [lp_fields].
  pose proof (fields_ok_kind M root _ Hok) as Hkinds. rewrite forallb_forall in Hkinds.
  apply forallb_forall. intros f Hin.
  pose proof (field_defs_declares M root f 63 Hin (Hkinds f Hin)) as Hd.
  unfold declared. destruct (f_attr f); try reflexivity;
    (unfold mem_str; apply existsb_exists; exists (lua_field_name M root f); split; [| apply String.eqb_refl];
     rewrite flat_map_concat_map, concat_map, map_map; apply in_concat;
     exists (map fst (field_defs M def_fuel root)); split;
     [apply in_map_iff; exists root; split; [reflexivity | apply root_packet_in; exact Hroot] | exact Hd]).
Qed.

Lemma lay_packet_empty (M : bmodel) (k : nat) (q : packet) (v : value) (b e : list byte) :
  p_fields q = [] -> lay_packet no_cs M k q v b = Some e -> e = b.
Proof.
  intros Hq. destruct k as [| k]; [discriminate |]. cbn [lay_packet]. unfold lay_packet_body.
  destruct v as [x | s | l | vs | n pv]; try discriminate. rewrite Hq.
  destruct vs; [| discriminate]. cbn [lay_fields fst]. intros H. injection H as <-. reflexivity.
Qed.

Lemma rng_packet_empty (M : bmodel) (k : nat) (q : packet) (v : value) (b e : list byte) :
  p_fields q = [] -> lay_packet no_cs M k q v b = Some e -> rng_packet no_cs M k q v b = Some [].
Proof.
  intros Hq. destruct k as [| k]; [discriminate |]. cbn [lay_packet rng_packet]. unfold lay_packet_body, rng_packet_body.
  destruct v as [x | s | l | vs | n pv]; try discriminate. rewrite Hq.
  destruct vs; [| discriminate]. reflexivity.
Qed.

Definition msg_ok (root : packet) (v : value) : Prop :=
  match v with VObj vs => vals_ok (p_fields root) vs = true | _ => True end.

(* the number of iterations of the dissector's loops: the elements of the lists of the message *)
Definition msg_elems (v : value) : nat := match v with VObj vs => list_elems vs | _ => 0%nat end.

Theorem lua_frag_general (M : bmodel) (root : packet) (v : value) (fuel fuel' : nat)
        (b : list byte) (r : list (string * nat * nat)) (n : nat) (matches : bool) :
  root_packet M = Some root ->
  fields_ok M root (p_fields root) = true ->
  forallb (keyc M root) (p_fields root) = true ->
  len_ok root (p_fields root) = true ->
  (matches = false -> forallb no_match (p_fields root) = true) ->
  (matches = true -> forall mp, pair_ok M mp = true ->
     harmless b (call_fn (gen_lua M) b fuel' (length (lp_funs (gen_lua M)))) ("dissect_" ++ snake M (mp_value mp))) ->
  msg_ok root v -> (msg_elems v <= loop_budget \/ length r <= loop_budget)%nat ->
  layout no_cs M fuel root v = Some b ->
  ranges M fuel root v = Some (r, n) ->
  sem_lua_run (gen_lua M) fuel' b = LOk (r, n) /\ n = length b.
Proof.
  intros Hroot Hok Hkeys Hlen Hnm Hcall Hmsg Helems Hlay Hrng.
  unfold ranges, ranges_with in Hrng. fold no_cs in Hrng. rewrite Hlay in Hrng.
  destruct fuel as [| fuel0]; [discriminate Hlay |].
  unfold layout in Hlay. cbn [lay_packet] in Hlay. cbn [rng_packet] in Hrng.
  unfold lay_packet_body in Hlay. unfold rng_packet_body in Hrng.
  destruct v as [x | s | l | vs | q pv]; try discriminate Hlay.
  cbn [msg_ok msg_elems] in Hmsg, Helems.
  assert (Hinv : lp_inv root (has_target (p_fields root)) None []) by (intros _ pos w' Hp; discriminate Hp).
  assert (Hdecl := declared_root M root Hroot Hok).
  assert (Helems' : (list_elems vs <= loop_budget)%nat).
  { destruct Helems as [He | He]; [exact He |].
    destruct (rng_fields no_cs M (lay_packet no_cs M fuel0) (rng_packet no_cs M fuel0) root (p_fields root) vs ([], None))
      as [r0 |] eqn:Hr0; [| discriminate Hrng].
    injection Hrng as <- _.
    pose proof (rng_fields_elems M root b (map fst (lp_fields (gen_lua M)))
                  (call_fn (gen_lua M) b fuel' (length (lp_funs (gen_lua M))))
                  (lay_packet no_cs M fuel0) (rng_packet no_cs M fuel0)
                  (lay_packet_empty M fuel0) (rng_packet_empty M fuel0) matches Hcall
                  (p_fields root) vs [] None r0 Hok Hkeys Hdecl Hmsg Hnm Hlen Hinv Hr0) as Hle.
    unfold rtriple in *. clear - He Hle. lia. }
  destruct (fields_exec M root b (map fst (lp_fields (gen_lua M)))
                        (call_fn (gen_lua M) b fuel' (length (lp_funs (gen_lua M))))
                        (lay_packet no_cs M fuel0) (rng_packet no_cs M fuel0)
                        (lay_packet_empty M fuel0) (rng_packet_empty M fuel0) matches Hcall
                        (p_fields root) vs [] None [] loop_budget [] []
                        Hok Hkeys Hdecl Hmsg Hnm Hlen Hinv Hlay I Helems')
    as [r' [X [Hr [HX Hexec]]]].
  rewrite Hr in Hrng. injection Hrng as <- <-.
  split; [| reflexivity].
  unfold sem_lua_run.
  assert (Hmain : lp_main (gen_lua M) = packet_stmts M "tree" root)
    by (rewrite (gen_lua_root M root Hroot); reflexivity).
  rewrite Hmain.
  change (packet_stmts M "tree" root) with (flat_map (stmts_of M root) (p_fields root)).
  rewrite <- (app_nil_r (flat_map (stmts_of M root) (p_fields root))).
  change (mkLS [("offset", LvNum 0); ("tree", LvTree)] [] loop_budget None)
    with (mkLS (envL [] (@length byte [])) [] loop_budget None).
  rewrite Hexec.
  cbn [exec_list ls_env ls_out].
  rewrite lget_envL_offset by (rewrite app_nil_r; exact HX).
  rewrite app_nil_r, rev_involutive, Nat2Z.id.
  destruct (Z.ltb_spec (Z.of_nat (length b)) 0) as [Hneg | Hpos]; [lia | reflexivity].
Qed.

(* ------------------------------------------------------------------ the match-free fragment *)

Lemma no_match_not_key (fs : list field) (f : field) :
  forallb no_match fs = true ->
  existsb (fun g => match f_attr g with
                    | AMatch (Some k) _ _ => String.eqb (f_name f) k
                    | _ => false
                    end) fs = false.
Proof.
  induction fs as [| g r IH]; intros Hall; [reflexivity |].
  cbn [forallb] in Hall. apply andb_prop in Hall. destruct Hall as [Hg Hr].
  cbn [existsb]. rewrite (IH Hr), orb_false_r.
  unfold no_match in Hg. destruct (f_attr g); try discriminate Hg; reflexivity.
Qed.

Lemma no_match_keyc (M : bmodel) (root : packet) :
  forallb no_match (p_fields root) = true -> forallb (keyc M root) (p_fields root) = true.
Proof.
  intros Hnm. apply forallb_forall. intros f _. unfold keyc, is_key, is_match_key.
  rewrite (no_match_not_key _ f Hnm). reflexivity.
Qed.

Lemma no_match_vals_ok (fs : list field) : forallb no_match fs = true -> forall vs, vals_ok fs vs = true.
Proof.
  induction fs as [| f r IH]; intros Hall vs; [reflexivity |].
  cbn [forallb] in Hall. apply andb_prop in Hall. destruct Hall as [Hf Hr].
  destruct vs as [| v vr]; [reflexivity |]. cbn [vals_ok]. rewrite (IH Hr vr), andb_true_r.
  unfold val_ok. unfold no_match in Hf. destruct (f_attr f); try discriminate Hf; apply orb_true_r.
Qed.

(* [lua_frag] without match fields, and with placeholders wide enough for the patch *)
Definition lua_frag2 (M : bmodel) : bool :=
  match root_packet M with
  | Some root => andb (lua_frag M) (andb (forallb no_match (p_fields root)) (len_ok root (p_fields root)))
  | None => false
  end.

Lemma lua_frag_fields_ok (M : bmodel) (root : packet) :
  root_packet M = Some root -> lua_frag M = true ->
  fields_ok M root (p_fields root) = true /\ nodup_str (sub_function_names M) = true.
Proof.
  unfold root_packet, lua_frag. destruct (m_root M) as [rn |]; [| discriminate].
  intros ->. intros H. apply andb_prop in H. exact H.
Qed.

Theorem lua_frag2_correct (M : bmodel) (root : packet) (v : value) (fuel fuel' : nat)
        (b : list byte) (r : list (string * nat * nat)) (n : nat) :
  root_packet M = Some root ->
  lua_frag2 M = true ->
  (msg_elems v <= loop_budget \/ length r <= loop_budget)%nat ->
  layout no_cs M fuel root v = Some b ->
  ranges M fuel root v = Some (r, n) ->
  sem_lua_run (gen_lua M) fuel' b = LOk (r, n) /\ n = length b.
Proof.
  intros Hroot Hfrag Helems Hlay Hrng. unfold lua_frag2 in Hfrag. rewrite Hroot in Hfrag.
  apply andb_prop in Hfrag. destruct Hfrag as [Hfrag Hrest].
  apply andb_prop in Hrest. destruct Hrest as [Hnm Hlen].
  destruct (lua_frag_fields_ok M root Hroot Hfrag) as [Hok _].
  apply (lua_frag_general M root v fuel fuel' b r n false Hroot Hok (no_match_keyc M root Hnm) Hlen (fun _ => Hnm));
    try assumption.
  - discriminate.
  - unfold msg_ok. destruct v; try exact I. apply no_match_vals_ok. exact Hnm.
Qed.

(* ------------------------------------------------------------------ match fields: typed messages, sub-dissectors *)

Lemma table_first_in (pairs : list mpair) (kv : value) (n : string) :
  table_first (pairs_table pairs) kv = Some n ->
  existsb (fun mp => String.eqb n (mp_value mp)) pairs = true.
Proof.
  induction pairs as [| mp r IH]; [discriminate |].
  unfold pairs_table in *. cbn [map table_first existsb].
  destruct (key_matches (mp_key mp) kv).
  - intros H. injection H as <-. rewrite String.eqb_refl. reflexivity.
  - intros H. rewrite (IH H). apply orb_true_r.
Qed.

Lemma typed_vals_ok (M : bmodel) (rec : packet -> value -> bool) (p : packet) (vs0 : list value) (fs : list field) :
  forall (i : nat) (rest : list value), typed_fields M rec p vs0 i fs rest = true -> vals_ok fs rest = true.
Proof.
  induction fs as [| f r IH]; intros i rest H; [reflexivity |].
  destruct rest as [| v vr]; [reflexivity |].
  cbn [typed_fields] in H. apply andb_prop in H. destruct H as [Hf Hr].
  cbn [vals_ok]. rewrite (IH _ _ Hr), andb_true_r.
  unfold val_ok. unfold typed_field in Hf.
  destruct (f_rep f); [reflexivity |]. cbn [orb].
  destruct (f_attr f) as [| | | | | | [k |] ka pairs |]; try reflexivity; destruct v as [x | s | l | xs | name pv]; try reflexivity.
  - destruct (index_of_name k (p_fields p) 0) as [ki |]; [| discriminate Hf].
    apply andb_prop in Hf. destruct Hf as [_ Hf].
    destruct (nth_error (p_fields p) ki) as [kf |]; [| discriminate Hf].
    destruct (nth_error vs0 ki) as [kv |]; [| discriminate Hf].
    apply andb_prop in Hf. destruct Hf as [_ Hf]. apply andb_prop in Hf. destruct Hf as [_ Hf].
    destruct (table_first (pairs_table pairs) kv) as [n |] eqn:Ht; [| discriminate Hf].
    destruct (lookup_packet M name); [| discriminate Hf].
    apply andb_prop in Hf. destruct Hf as [Hn _]. apply String.eqb_eq in Hn. subst n.
    apply (table_first_in pairs kv name Ht).
  - discriminate Hf.
Qed.

(* one level of sub_dissectors (as in Proofs/NormGen.v) *)
Lemma sub_dissectors_step (M : bmodel) (p : packet) :
  sub_dissectors M p =
  flat_map (fun '(_, q) => sub_dissectors M q) (inline_children (p_fields p))
  ++ [mkFun ("dissect_" ++ snake M (p_name p)) true
            (LSubtree "tree" 1 (p_name p)
             :: (match p_fields p with
                 | [] => [LAppendText "subtree"]
                 | _ => packet_stmts M "subtree" p
                 end)
             ++ [LReturnOffset])].
Proof.
  destruct p as [n r l fs mfs]. cbn [sub_dissectors p_fields p_name]. f_equal.
  induction fs as [| f fs IH]; [reflexivity |].
  destruct f as [fn a la rp].
  destruct a as [| | | | | iner pn rf inl | |]; try exact IH.
  destruct iner; [| exact IH]. destruct inl as [q |]; [| exact IH].
  cbn [inline_children flat_map]. f_equal. exact IH.
Qed.

Definition dname (M : bmodel) (x : string * packet) : string := "dissect_" ++ snake M (p_name (snd x)).

(* the sub-dissectors are named after the packets, in the order of [packets_under] *)
Lemma sub_dissectors_names (M : bmodel) : forall (k : nat) (path : string) (p : packet),
  (psize p <= k)%nat -> map fn_name (sub_dissectors M p) = map (dname M) (packets_under path p).
Proof.
  induction k as [| k IH]; intros path p Hk; [destruct p; cbn [psize] in Hk; lia |].
  rewrite sub_dissectors_step, packets_under_unfold, !map_app. f_equal.
  rewrite !flat_map_concat_map, !concat_map, !map_map. f_equal.
  apply map_ext_in. intros [fname q] Hin. apply IH.
  pose proof (psize_child p fname q Hin). lia.
Qed.

Definition sub_of (M : bmodel) (p : packet) : list lfun := if p_root p then [] else sub_dissectors M p.
Definition under_of (p : packet) : list (string * packet) := if p_root p then [] else packets_under (p_name p) p.

Lemma funs_names (M : bmodel) (ps : list packet) :
  map fn_name (flat_map (sub_of M) ps) = map (dname M) (flat_map under_of ps).
Proof.
  induction ps as [| p r IH]; [reflexivity |].
  cbn [flat_map]. rewrite !map_app, IH. f_equal.
  unfold sub_of, under_of. destruct (p_root p); [reflexivity |].
  apply (sub_dissectors_names M (psize p)). lia.
Qed.

Lemma sub_function_names_eq (M : bmodel) :
  sub_function_names M = map (fun x => snake M (p_name (snd x))) (flat_map under_of (m_packets M)).
Proof.
  unfold sub_function_names. apply map_ext. intros [a q]. reflexivity.
Qed.

(* ---- name resolution at the level of the main dissector ---- *)

Fixpoint rl (g : string) (funs : list lfun) (i : nat) (best : option (nat * lfun)) : option (nat * lfun) :=
  match funs with
  | [] => best
  | fn :: r => rl g r (S i) (if andb (fn_local fn) (String.eqb (fn_name fn) g) then Some (i, fn) else best)
  end.

Lemma resolve_local_rl (g : string) (caller : nat) : forall (funs : list lfun) (i : nat) (best : option (nat * lfun)),
  (i + length funs <= caller + 1)%nat -> resolve_local funs i caller g best = rl g funs i best.
Proof.
  induction funs as [| fn r IH]; intros i best H; [reflexivity |].
  cbn [resolve_local rl length] in *.
  destruct (Nat.ltb_spec caller i) as [Hlt | _]; [lia |]. apply IH. lia.
Qed.

Lemma rl_app (g : string) (X Y : list lfun) : forall (i : nat) (best : option (nat * lfun)),
  rl g (X ++ Y) i best = rl g Y (i + length X) (rl g X i best).
Proof.
  induction X as [| fn r IH]; intros i best; cbn [app rl length].
  - rewrite Nat.add_0_r. reflexivity.
  - rewrite IH. f_equal. lia.
Qed.

Lemma rl_none (g : string) (Y : list lfun) : forall (i : nat) (best : option (nat * lfun)),
  mem_str g (map fn_name Y) = false -> rl g Y i best = best.
Proof.
  induction Y as [| fn r IH]; intros i best H; [reflexivity |].
  unfold mem_str in H. cbn [map existsb] in H. apply orb_false_elim in H. destruct H as [H1 H2].
  cbn [rl]. rewrite String.eqb_sym, H1, andb_false_r. apply IH. exact H2.
Qed.

Lemma resolve_last (g : string) (X Y : list lfun) (fn : lfun) :
  fn_local fn = true -> fn_name fn = g -> mem_str g (map fn_name Y) = false ->
  resolve (X ++ fn :: Y) (length (X ++ fn :: Y)) g = Some (length X, fn).
Proof.
  intros Hl Hn Hy. unfold resolve.
  rewrite resolve_local_rl by lia. rewrite rl_app. cbn [rl].
  rewrite Hl, Hn, String.eqb_refl. cbn [andb]. rewrite rl_none by exact Hy. reflexivity.
Qed.

(* the sub-dissector of an empty packet displays one item over the next byte and returns the offset *)
Lemma call_empty_fn (P : lprog) (buf : list byte) (k caller idx : nat) (g lbl : string) (fn : lfun) :
  resolve (lp_funs P) caller g = Some (idx, fn) ->
  fn_body fn = [LSubtree "tree" 1 lbl; LAppendText "subtree"; LReturnOffset] ->
  harmless buf (call_fn P buf (S k) caller) g.
Proof.
  intros Hres Hbody n out budget Hn. cbn [call_fn]. rewrite Hres, Hbody.
  change [("offset", LvNum (Z.of_nat n)); ("tree", LvTree)] with (envL [] n).
  cbn [exec_list ls_ret]. cbn [exec_stmt ls_env].
  rewrite need_tree_envL by exact I. cbn [lbind].
  rewrite (buf_range_envL buf [] n 1 I Hn). cbn [lbind].
  unfold declare, with_env. cbn [ls_env ls_out ls_budget ls_ret]. rewrite envL_cons.
  cbn [exec_list ls_ret]. cbn [exec_stmt ls_env].
  unfold need_tree. rewrite lget_envL_hd. cbn [lbind].
  cbn [exec_list ls_ret]. cbn [exec_stmt ls_env ls_out ls_budget lbind].
  rewrite lget_envL_offset by (cbn [clean]; repeat split; discriminate).
  reflexivity.
Qed.

Lemma eqb_append_prefix (pre x y : string) : String.eqb (pre ++ x) (pre ++ y) = String.eqb x y.
Proof. induction pre as [| c pre IH]; [reflexivity |]. cbn [append String.eqb]. rewrite Ascii.eqb_refl. exact IH. Qed.

Lemma mem_str_prefix (pre x : string) (l : list string) : mem_str (pre ++ x) (map (append pre) l) = mem_str x l.
Proof.
  unfold mem_str. induction l as [| y r IH]; [reflexivity |]. cbn [map existsb]. rewrite eqb_append_prefix, IH. reflexivity.
Qed.

Lemma nodup_str_app (A B : list string) (x : string) : nodup_str (A ++ x :: B) = true -> mem_str x B = false.
Proof.
  induction A as [| a A IH]; cbn [app nodup_str]; intros H; apply andb_prop in H; destruct H as [H1 H2].
  - apply negb_true_iff in H1. exact H1.
  - apply IH. exact H2.
Qed.

Lemma find_packet_name (ps : list packet) (n : string) (p : packet) : find_packet ps n = Some p -> p_name p = n.
Proof.
  induction ps as [| q r IH]; [discriminate |]. cbn [find_packet].
  destruct (String.eqb_spec (p_name q) n) as [Heq | _]; intros H; [injection H as <-; exact Heq | apply IH; exact H].
Qed.

Lemma no_obj_root_inline (M : bmodel) (root : packet) (fs : list field) :
  fields_ok M root fs = true ->
  flat_map (fun f => match f_attr f with AObj true _ _ (Some q) => sub_dissectors M q | _ => [] end) fs = [].
Proof.
  induction fs as [| f r IH]; [reflexivity |]. cbn [fields_ok flat_map]. intros H.
  apply andb_prop in H. destruct H as [Hr Hf]. rewrite (IH Hr), app_nil_r.
  destruct (f_rep f).
  - apply andb_prop in Hf. destruct Hf as [_ Hf]. destruct (f_attr f); try discriminate Hf; reflexivity.
  - destruct (f_attr f); try discriminate Hf; reflexivity.
Qed.

Lemma call_empty_gen (M : bmodel) (root : packet) (b : list byte) (fuel' : nat) :
  root_packet M = Some root -> lua_frag M = true -> (1 <= fuel')%nat ->
  forall mp, pair_ok M mp = true ->
    harmless b (call_fn (gen_lua M) b fuel' (length (lp_funs (gen_lua M)))) ("dissect_" ++ snake M (mp_value mp)).
Proof.
  intros Hroot Hfrag Hfuel mp Hpo.
  destruct (lua_frag_fields_ok M root Hroot Hfrag) as [Hok Hnd].
  destruct fuel' as [| k]; [lia |].
  unfold pair_ok in Hpo. unfold lookup_packet in Hpo.
  destruct (find_packet (m_packets M) (mp_value mp)) as [q |] eqn:Hq; [| discriminate Hpo].
  apply andb_prop in Hpo. destruct Hpo as [Hnr Hqf]. apply negb_true_iff in Hnr.
  assert (Hqe : p_fields q = []) by (destruct (p_fields q); [reflexivity | discriminate Hqf]).
  pose proof (find_packet_name _ _ _ Hq) as Hname. rewrite <- Hname.
  destruct (in_split q (m_packets M) (find_packet_in _ _ _ Hq)) as [A [B Hsplit]].
  assert (Hfuns : lp_funs (gen_lua M)
                  = flat_map (sub_of M) A
                    ++ mkFun ("dissect_" ++ snake M (p_name q)) true
                             [LSubtree "tree" 1 (p_name q); LAppendText "subtree"; LReturnOffset]
                    :: flat_map (sub_of M) B).
  { rewrite (gen_lua_root M root Hroot). cbn [lp_funs].
    unfold root_inline. rewrite (no_obj_root_inline M root _ Hok), app_nil_r.
    change (fun p => if p_root p then [] else sub_dissectors M p) with (sub_of M).
    rewrite Hsplit, flat_map_app. cbn [flat_map]. f_equal.
    unfold sub_of at 1. rewrite Hnr, sub_dissectors_step, Hqe. reflexivity. }
  rewrite Hfuns.
  apply (call_empty_fn (gen_lua M) b k _ (length (flat_map (sub_of M) A)) _ (p_name q)
           (mkFun ("dissect_" ++ snake M (p_name q)) true
                  [LSubtree "tree" 1 (p_name q); LAppendText "subtree"; LReturnOffset])); [| reflexivity].
  rewrite Hfuns. apply resolve_last; [reflexivity | reflexivity |].
  rewrite funs_names.
  rewrite sub_function_names_eq, Hsplit, flat_map_app, map_app in Hnd. cbn [flat_map] in Hnd.
  unfold under_of at 2 in Hnd. rewrite Hnr, packets_under_unfold, Hqe in Hnd.
  cbn [inline_children flat_map app map snd] in Hnd.
  apply nodup_str_app in Hnd.
  rewrite <- (mem_str_prefix "dissect_") in Hnd. rewrite map_map in Hnd. exact Hnd.
Qed.

(* no repeated field bears the name of a match key *)
Definition key_not_repeated (root : packet) (f : field) : bool := negb (andb (is_match_key f root) (f_rep f)).

Lemma fields_ok_keyname (M : bmodel) (root : packet) (fs : list field) :
  fields_ok M root fs = true ->
  forall g k ka pairs, In g fs -> f_attr g = AMatch (Some k) ka pairs -> key_name_ok M k = true.
Proof.
  induction fs as [| f r IH]; intros Hok g k ka pairs Hin Ha; [destruct Hin |].
  cbn [fields_ok] in Hok. apply andb_prop in Hok. destruct Hok as [Hr Hf].
  destruct Hin as [<- | Hin]; [| apply (IH Hr g k ka pairs Hin Ha)].
  rewrite Ha in Hf. destruct (f_rep f).
  - apply andb_prop in Hf. destruct Hf as [_ Hf]. discriminate Hf.
  - apply andb_prop in Hf. destruct Hf as [_ Hf]. apply andb_prop in Hf. destruct Hf as [Hkf _].
    unfold LuaFrag.key_field_ok in Hkf. destruct (find_field (p_fields root) k); [| discriminate Hkf].
    apply andb_prop in Hkf. destruct Hkf as [_ Hkf]. apply andb_prop in Hkf. tauto.
Qed.

Lemma frag_keyc (M : bmodel) (root : packet) :
  fields_ok M root (p_fields root) = true ->
  forallb (key_not_repeated root) (p_fields root) = true ->
  forallb (keyc M root) (p_fields root) = true.
Proof.
  intros Hok Hkeys. rewrite forallb_forall in Hkeys. apply forallb_forall. intros f Hin.
  specialize (Hkeys f Hin). unfold key_not_repeated in Hkeys. unfold keyc, is_key.
  destruct (is_match_key f root) eqn:Hmk; [| reflexivity].
  destruct (negb (String.eqb (gtype f) "match")); [| reflexivity]. cbn [andb] in *.
  rewrite Hkeys. cbn [andb].
  unfold is_match_key in Hmk. apply existsb_exists in Hmk. destruct Hmk as [g [Hg Hm]].
  destruct (f_attr g) as [| | | | | | [k |] ka pairs |] eqn:Ha; try discriminate Hm.
  apply String.eqb_eq in Hm. rewrite Hm. apply (fields_ok_keyname M root _ Hok g k ka pairs Hg Ha).
Qed.

(* [lua_frag] with: no repeated field bears the name of a match key, and placeholders wide enough
   for the patch *)
Definition lua_frag4 (M : bmodel) : bool :=
  match root_packet M with
  | Some root => andb (lua_frag M) (andb (forallb (key_not_repeated root) (p_fields root)) (len_ok root (p_fields root)))
  | None => false
  end.

Theorem lua_frag4_correct (M : bmodel) (root : packet) (v : value) (fuel fuel' : nat)
        (b : list byte) (r : list (string * nat * nat)) (n : nat) :
  root_packet M = Some root ->
  lua_frag4 M = true ->
  typed M fuel root v = true ->
  (1 <= fuel')%nat ->
  (msg_elems v <= loop_budget \/ length r <= loop_budget)%nat ->
  layout no_cs M fuel root v = Some b ->
  ranges M fuel root v = Some (r, n) ->
  sem_lua_run (gen_lua M) fuel' b = LOk (r, n) /\ n = length b.
Proof.
  intros Hroot Hfrag Htyped Hfuel Helems Hlay Hrng. unfold lua_frag4 in Hfrag. rewrite Hroot in Hfrag.
  apply andb_prop in Hfrag. destruct Hfrag as [Hfrag Hrest].
  apply andb_prop in Hrest. destruct Hrest as [Hkeys Hlen].
  destruct (lua_frag_fields_ok M root Hroot Hfrag) as [Hok _].
  apply (lua_frag_general M root v fuel fuel' b r n true Hroot Hok (frag_keyc M root Hok Hkeys) Hlen); try assumption.
  - discriminate.
  - intros _. apply (call_empty_gen M root b fuel' Hroot Hfrag Hfuel).
  - unfold msg_ok. destruct v as [x | s | l | vs | q pv]; try exact I.
    destruct fuel as [| fuel0]; [discriminate Htyped |].
    cbn [typed] in Htyped. unfold typed_body in Htyped.
    apply (typed_vals_ok M _ root vs _ _ _ Htyped).
Qed.

(* ------------------------------------------------------------------ the fragments, from the smallest *)

Definition root_fields (M : bmodel) : list field :=
  match root_packet M with Some root => p_fields root | None => [] end.

Definition stage1_field (f : field) : bool := negb (f_rep f).
Definition stage2_field (f : field) : bool :=
  orb (negb (f_rep f)) (match f_attr f with ABasic _ => true | _ => false end).

(* (1) scalars, fixed strings, dynamic strings *)
Definition lua_frag_s1 (M : bmodel) : bool := andb (lua_frag2 M) (forallb stage1_field (root_fields M)).
(* (2) + lists of scalars *)
Definition lua_frag_s2 (M : bmodel) : bool := andb (lua_frag2 M) (forallb stage2_field (root_fields M)).
(* (3) + lists of fixed and dynamic strings: lua_frag2;  (4) + empty match payloads: lua_frag4 *)

Lemma lua_frag_s1_s2 (M : bmodel) : lua_frag_s1 M = true -> lua_frag_s2 M = true.
Proof.
  unfold lua_frag_s1, lua_frag_s2. intros H. apply andb_prop in H. destruct H as [H1 H2].
  rewrite H1. cbn [andb]. rewrite forallb_forall in H2. apply forallb_forall. intros f Hin.
  unfold stage2_field. unfold stage1_field in H2. rewrite (H2 f Hin). reflexivity.
Qed.

Lemma lua_frag_s2_frag2 (M : bmodel) : lua_frag_s2 M = true -> lua_frag2 M = true.
Proof. unfold lua_frag_s2. intros H. apply andb_prop in H. tauto. Qed.

Lemma lua_frag2_frag4 (M : bmodel) : lua_frag2 M = true -> lua_frag4 M = true.
Proof.
  unfold lua_frag2, lua_frag4. destruct (root_packet M) as [root |]; [| discriminate].
  intros H. apply andb_prop in H. destruct H as [H1 H2]. apply andb_prop in H2. destruct H2 as [H2 H3].
  rewrite H1, H3. cbn [andb]. rewrite andb_true_r. apply forallb_forall. intros f _.
  unfold key_not_repeated, is_match_key. rewrite (no_match_not_key _ f H2). reflexivity.
Qed.

Lemma lua_frag4_frag (M : bmodel) : lua_frag4 M = true -> lua_frag M = true.
Proof.
  unfold lua_frag4. destruct (root_packet M) as [root |]; [| discriminate].
  intros H. apply andb_prop in H. tauto.
Qed.

Theorem lua_frag_s1_correct (M : bmodel) (root : packet) (v : value) (fuel fuel' : nat)
        (b : list byte) (r : list (string * nat * nat)) (n : nat) :
  root_packet M = Some root -> lua_frag_s1 M = true -> (msg_elems v <= loop_budget \/ length r <= loop_budget)%nat ->
  layout no_cs M fuel root v = Some b -> ranges M fuel root v = Some (r, n) ->
  sem_lua_run (gen_lua M) fuel' b = LOk (r, n) /\ n = length b.
Proof.
  intros Hroot Hfrag. apply lua_frag2_correct; [exact Hroot |].
  apply lua_frag_s2_frag2, lua_frag_s1_s2. exact Hfrag.
Qed.

Theorem lua_frag_s2_correct (M : bmodel) (root : packet) (v : value) (fuel fuel' : nat)
        (b : list byte) (r : list (string * nat * nat)) (n : nat) :
  root_packet M = Some root -> lua_frag_s2 M = true -> (msg_elems v <= loop_budget \/ length r <= loop_budget)%nat ->
  layout no_cs M fuel root v = Some b -> ranges M fuel root v = Some (r, n) ->
  sem_lua_run (gen_lua M) fuel' b = LOk (r, n) /\ n = length b.
Proof.
  intros Hroot Hfrag. apply lua_frag2_correct; [exact Hroot |]. apply lua_frag_s2_frag2. exact Hfrag.
Qed.

(* ---- what lua_frag2 covers: any root packet made of scalars, fixed strings, dynamic strings
   and lists of those, with unsigned 1/2/4-byte prefixes ---- *)

Definition simple_field (M : bmodel) (f : field) : bool :=
  if f_rep f then
    andb (unsigned_prefix (c_list (m_cfg M)))
         (match f_attr f with
          | ABasic _ => scalar_ok f
          | AFixed _ _ => true
          | ADyn => unsigned_prefix (c_str (m_cfg M))
          | _ => false
          end)
  else
    match f_attr f with
    | ABasic _ | ALen _ _ | ACheck _ _ => scalar_ok f
    | AFixed _ _ => true
    | ADyn => unsigned_prefix (c_str (m_cfg M))
    | _ => false
    end.

Lemma simple_fields_ok (M : bmodel) (root : packet) (fs : list field) :
  forallb (simple_field M) fs = true -> fields_ok M root fs = true /\ forallb no_match fs = true.
Proof.
  induction fs as [| f r IH]; [split; reflexivity |]. cbn [forallb fields_ok]. intros H.
  apply andb_prop in H. destruct H as [Hf Hr]. destruct (IH Hr) as [H1 H2]. rewrite H1, H2.
  unfold simple_field in Hf. unfold no_match. split.
  - cbn [andb]. destruct (f_rep f); [| destruct (f_attr f); try discriminate Hf; exact Hf].
    apply andb_prop in Hf. destruct Hf as [Hp Hf]. rewrite Hp. cbn [andb].
    destruct (f_attr f); try discriminate Hf; exact Hf.
  - rewrite andb_true_r. destruct (f_rep f); [apply andb_prop in Hf; destruct Hf as [_ Hf] |];
      destruct (f_attr f); try discriminate Hf; reflexivity.
Qed.

Lemma no_target_len_ok (root : packet) (fs : list field) : has_target fs = false -> len_ok root fs = true.
Proof.
  induction fs as [| f r IH]; [reflexivity |]. unfold has_target in *. cbn [existsb len_ok]. intros H.
  apply orb_false_elim in H. destruct H as [_ H]. rewrite (IH H). fold (has_target r). unfold has_target. rewrite H.
  destruct (f_attr f); reflexivity.
Qed.

Lemma lua_frag2_covers (M : bmodel) (root : packet) :
  root_packet M = Some root ->
  forallb (simple_field M) (p_fields root) = true ->
  nodup_str (sub_function_names M) = true ->
  len_ok root (p_fields root) = true ->
  lua_frag2 M = true.
Proof.
  intros Hroot Hsimple Hnd Hlen. destruct (simple_fields_ok M root _ Hsimple) as [Hok Hnm].
  unfold lua_frag2. rewrite Hroot, Hnm, Hlen.
  unfold lua_frag. unfold root_packet in Hroot. destruct (m_root M) as [rn |]; [| discriminate Hroot].
  rewrite Hroot, Hok, Hnd. reflexivity.
Qed.

(* ------------------------------------------------------------------ non-vacuity *)

(* a root packet with a length-of field and its target (a dynamic string), a fixed string, a list
   of u32, a list of dynamic strings, a list of fixed strings, a checksum; and, for lua_frag4, a
   match field over two empty packets *)
Definition ex_cfg : config := mkCfg "u16" "u8" "" "" "" true None.

Definition ex_root_fields : list field :=
  [mkField "len" (ALen (Some "body") "u16") LLenOf false;
   mkField "kind" (ABasic "u8") LNone false;
   mkField "body" ADyn LTarget false;
   mkField "tag" (AFixed 4 None) LNone false;
   mkField "nums" (ABasic "uint32") LNone true;
   mkField "names" ADyn LNone true;
   mkField "codes" (AFixed 3 (Some (mkPad "'0'" true))) LNone true;
   mkField "crc" (ACheck """CRC32""" "u32") LNone false].

Definition ex_root2 : packet := mkPacket "Msg" true (Some "len") ex_root_fields [].
Definition ex_M2 : bmodel := mkModel ex_cfg [ex_root2] ["Msg"] (Some "Msg") [].

Definition ex_root4 : packet :=
  mkPacket "Msg" true (Some "len")
           (firstn 2 ex_root_fields
            ++ [mkField "payload" (AMatch (Some "kind") None [mkPair "1" "Ping"; mkPair "2" "Pong"]) LNone false]
            ++ skipn 2 ex_root_fields) [].
Definition ex_M4 : bmodel :=
  mkModel ex_cfg [ex_root4; mkPacket "Ping" false None [] []; mkPacket "Pong" false None [] []]
          ["Msg"; "Ping"; "Pong"] (Some "Msg") [].

Example ex_frag2 : lua_frag2 ex_M2 = true /\ lua_frag_s2 ex_M2 = false.
Proof. split; vm_compute; reflexivity. Qed.

Example ex_frag4 : lua_frag4 ex_M4 = true /\ lua_frag2 ex_M4 = false.
Proof. split; vm_compute; reflexivity. Qed.

Definition ex_v2 : value :=
  VObj [VInt 0; VInt 2; VStr [104; 105; 33]%N; VStr [65; 66]%N; VList [VInt 7; VInt 70000]%N;
        VList [VStr [97]%N; VStr []; VStr [98; 99]%N]; VList [VStr [49]%N; VStr [50; 51]%N]; VInt 3735928559%N].

Definition ex_v4 : value :=
  VObj [VInt 0; VInt 2; VDyn "Pong" (VObj []); VStr [104; 105; 33]%N; VStr [65; 66]%N; VList [VInt 7; VInt 70000]%N;
        VList [VStr [97]%N; VStr []; VStr [98; 99]%N]; VList [VStr [49]%N; VStr [50; 51]%N]; VInt 3735928559%N].

(* the hypotheses of the theorems are satisfiable, and the conclusion is what evaluation gives *)
Example ex_run2 :
  exists b r n, layout no_cs ex_M2 3 ex_root2 ex_v2 = Some b /\ ranges ex_M2 3 ex_root2 ex_v2 = Some (r, n) /\
                (msg_elems ex_v2 <= loop_budget)%nat /\ length r = 12%nat /\ n = 41%nat /\
                sem_lua_run (gen_lua ex_M2) 0 b = LOk (r, n).
Proof.
  eexists _, _, _. split; [vm_compute; reflexivity |]. split; [vm_compute; reflexivity |].
  split; [apply Nat.leb_le; vm_compute; reflexivity |]. vm_compute. repeat split; reflexivity.
Qed.

Example ex_run4 :
  exists b r n, layout no_cs ex_M4 3 ex_root4 ex_v4 = Some b /\ ranges ex_M4 3 ex_root4 ex_v4 = Some (r, n) /\
                typed ex_M4 3 ex_root4 ex_v4 = true /\ length r = 12%nat /\ n = 41%nat /\
                sem_lua_run (gen_lua ex_M4) 1 b = LOk (r, n).
Proof.
  eexists _, _, _. split; [vm_compute; reflexivity |]. split; [vm_compute; reflexivity |].
  vm_compute. repeat split; reflexivity.
Qed.

(* ------------------------------------------------------------------ why not all of lua_frag

   Three models / messages that [lua_frag] accepts and on which the statement is false
   (evaluated), and one limit of the semantics itself.                                        *)

Definition cx_cfg : config := mkCfg "u8" "u8" "" "" "" false None.
Definition cx_empty : packet := mkPacket "Empty" false None [] [].

(* (a) a REPEATED field bearing the name of a match key.  isMatchField (lua_wsp_generator.go:245)
   compares names only, so "local k = buf(offset, 4):uint()" is emitted in front of the list too,
   over its count prefix and first elements: out of range when the list is short.
     root packet R { uint8 k; match k { 1 : Empty }; repeat uint32 k; }      message k=1, [], k=[]
   lua_frag only looks at the FIRST field named k (key_field_ok).  Excluded by [keyc]. *)
Definition cx_dup_root : packet :=
  mkPacket "R" true None
           [mkField "k" (ABasic "u8") LNone false;
            mkField "m" (AMatch (Some "k") None [mkPair "1" "Empty"]) LNone false;
            mkField "k" (ABasic "u32") LNone true] [].
Definition cx_dup : bmodel := mkModel cx_cfg [cx_dup_root; cx_empty] [] (Some "R") [].
Definition cx_dup_v : value := VObj [VInt 1; VDyn "Empty" (VObj []); VList []].

Example cx_dup_key :
  lua_frag cx_dup = true /\ lua_frag4 cx_dup = false /\ typed cx_dup 5 cx_dup_root cx_dup_v = true /\
  layout no_cs cx_dup 5 cx_dup_root cx_dup_v = Some [1; 0]%N /\
  ranges cx_dup 5 cx_dup_root cx_dup_v = Some ([("R_k", 0, 1)], 2)%nat /\
  sem_lua_run (gen_lua cx_dup) 5 [1; 0]%N = LFail (EBeyond 1 4 2).
Proof. vm_compute. repeat split; reflexivity. Qed.

(* (b) a packet whose length field (p_lenf, the width of the patch) is not its length-of field: the
   2-byte patch written at the 1-byte placeholder overwrites the length prefix of the string that
   follows, and the dissector reads a wrong length.  Not a model the DSL front end builds (it sets
   the packet's length field to the length-of field itself): the fragment is too wide, the
   dissector is not at fault.  Excluded by [len_ok]. *)
Definition cx_patch_root : packet :=
  mkPacket "R" true (Some "w")
           [mkField "len" (ALen (Some "s") "u8") LLenOf false;
            mkField "s" ADyn LTarget false;
            mkField "w" (ABasic "u16") LNone false] [].
Definition cx_patch : bmodel := mkModel cx_cfg [cx_patch_root] [] (Some "R") [].
Definition cx_patch_v : value := VObj [VInt 0; VStr [65; 66]%N; VInt 7].

Example cx_wide_patch :
  lua_frag cx_patch = true /\ lua_frag4 cx_patch = false /\
  layout no_cs cx_patch 5 cx_patch_root cx_patch_v = Some [0; 3; 65; 66; 0; 7]%N /\
  ranges cx_patch 5 cx_patch_root cx_patch_v = Some ([("R_len", 0, 1); ("R_s", 2, 2); ("R_w", 4, 2)], 6)%nat /\
  sem_lua_run (gen_lua cx_patch) 5 [0; 3; 65; 66; 0; 7]%N = LFail (EBeyond 5 2 6).
Proof. vm_compute. repeat split; reflexivity. Qed.

(* (c) [layout] does not ask the payload of a match field to be a message of one of the packets
   the field lists (that is [typed]): with a payload of another, non-empty, packet the fields of
   the payload are not displayed.  Hence the hypothesis [typed] of lua_frag4_correct. *)
Definition cx_other : packet := mkPacket "Other" false None [mkField "x" (ABasic "u8") LNone false] [].
Definition cx_untyped_root : packet :=
  mkPacket "R" true None
           [mkField "k" (ABasic "u8") LNone false;
            mkField "m" (AMatch (Some "k") None [mkPair "1" "Empty"]) LNone false;
            mkField "z" (ABasic "u8") LNone false] [].
Definition cx_untyped : bmodel := mkModel cx_cfg [cx_untyped_root; cx_empty; cx_other] [] (Some "R") [].
Definition cx_untyped_v : value := VObj [VInt 1; VDyn "Other" (VObj [VInt 9]); VInt 3].

Example cx_untyped_payload :
  lua_frag4 cx_untyped = true /\ typed cx_untyped 5 cx_untyped_root cx_untyped_v = false /\
  layout no_cs cx_untyped 5 cx_untyped_root cx_untyped_v = Some [1; 9; 3]%N /\
  ranges cx_untyped 5 cx_untyped_root cx_untyped_v = Some ([("R_k", 0, 1); ("Other_x", 1, 1); ("R_z", 2, 1)], 3)%nat /\
  sem_lua_run (gen_lua cx_untyped) 5 [1; 9; 3]%N = LOk ([("R_k", 0, 1); ("R_z", 1, 1)], 2)%nat.
Proof. vm_compute. repeat split; reflexivity. Qed.

(* the fuel of sem_lua_run is the depth of calls: one level is needed for the sub-dissectors *)
Example cx_fuel :
  sem_lua_run (gen_lua cx_untyped) 0 [1; 3]%N = LFail EFuel /\
  sem_lua_run (gen_lua cx_untyped) 1 [1; 3]%N = LOk ([("R_k", 0, 1); ("R_z", 1, 1)], 2)%nat.
Proof. vm_compute. split; reflexivity. Qed.

(* (d) the semantics gives every run [loop_budget] = 30000 loop iterations in all (a constant of
   LuaIR.sem_lua_run, not a parameter): a message with more list elements runs out of it.  Hence
   the hypothesis  msg_elems v <= loop_budget.  Here: 30001 empty fixed strings. *)
Definition cx_budget_root : packet := mkPacket "R" true None [mkField "l" (AFixed 0 None) LNone true] [].
Definition cx_budget : bmodel := mkModel (mkCfg "u16" "u8" "" "" "" false None) [cx_budget_root] [] (Some "R") [].

Example cx_loop_budget :
  lua_frag2 cx_budget = true /\
  layout no_cs cx_budget 2 cx_budget_root (VObj [VList (repeat (VStr []) (30 * 1000 + 1))]) = Some [117; 49]%N /\
  sem_lua_run (gen_lua cx_budget) 2 [117; 49]%N = LFail EFuel.
Proof. vm_compute. repeat split; reflexivity. Qed.

Print Assumptions lua_frag_s1_correct.
Print Assumptions lua_frag_s2_correct.
Print Assumptions lua_frag2_correct.
Print Assumptions lua_frag4_correct.
Print Assumptions lua_frag2_covers.
