(* Validated output is complete (C07, IR level): an IR program that the proved-sound validator
   accepts for a model - encoders and decoders - has, for every packet of the model, an entry
   with one member per declared field and a live encode and decode step for every field,
   provided every field has an attribute (which is what the reference compilation needs to
   emit a step at all).  *)
From FP Require Import Completeness Validate EqvSoundEnc EqvSoundDec RefEnc Paths Validated.
Open Scope list_scope.

Lemma strip_noops_keeps n l l' x :
  strip_noops n l = Some l' -> In x l -> is_noop (snd x) = false -> In x l'.
Proof.
  revert l'. induction l as [|[i s] r IH]; intros l' Hs Hin Hn; [destruct Hin|].
  cbn [strip_noops] in Hs. destruct (strip_noops n r) as [r'|] eqn:Er; [|discriminate].
  destruct Hin as [Hx|Hin].
  - subst x. cbn [snd] in Hn. rewrite Hn in Hs. inversion Hs. left. reflexivity.
  - specialize (IH r' eq_refl Hin Hn). destruct (is_noop s).
    + destruct (Nat.ltb i n); [inversion Hs; subst; exact IH|discriminate].
    + inversion Hs. right. exact IH.
Qed.

Lemma strip_noops_sub n l l' x :
  strip_noops n l = Some l' -> In x l' -> In x l.
Proof.
  revert l'. induction l as [|[i s] r IH]; intros l' Hs Hin.
  - cbn in Hs. inversion Hs; subst. destruct Hin.
  - cbn [strip_noops] in Hs. destruct (strip_noops n r) as [r'|] eqn:Er; [|discriminate].
    destruct (is_noop s) eqn:En.
    + destruct (Nat.ltb i n); [|discriminate]. inversion Hs; subst. right. exact (IH _ eq_refl Hin).
    + inversion Hs; subst. destruct Hin as [Hx|Hin].
      * left. exact Hx.
      * right. exact (IH _ eq_refl Hin).
Qed.

Lemma forall2b_in_r {A} (f : A -> A -> bool) a b y :
  forall2b f a b = true -> In y b -> exists x, In x a /\ f x y = true.
Proof.
  revert b. induction a as [|x a IH]; intros b H Hin; destruct b as [|y' b]; cbn [forall2b] in H; try discriminate.
  - destruct Hin.
  - apply andb_prop in H. destruct H as [Hxy Hab]. destruct Hin as [Hy|Hin].
    + subst y'. exists x. split; [left; reflexivity|exact Hxy].
    + destruct (IH b Hab Hin) as [x' [Hx' Hf]]. exists x'. split; [right; exact Hx'|exact Hf].
Qed.

(* a step equivalent to a value step reads the same member and is a value step *)
Lemma step_eqvb_value n j t i s :
  step_eqvb n (j, t) (i, s) = true -> value_step s = true -> j = i /\ value_step t = true.
Proof.
  intros H Hv.
  destruct s; cbn in Hv; try discriminate Hv;
    destruct t; cbn in H;
    try discriminate H;
    try (apply andb_prop in H; destruct H as [H1 H2];
         first [ discriminate H2
               | apply Nat.eqb_eq in H1; split; [exact H1|reflexivity] ]).
Qed.

Lemma step_eqvb_markzero n j t i m w le :
  step_eqvb n (j, t) (i, EMarkZero m w le) = true -> is_markzero t = true.
Proof.
  intros H. destruct t; cbn in H; try reflexivity; try discriminate H;
    apply andb_prop in H; destruct H as [_ H2]; discriminate H2.
Qed.

(* the reference compilation emits, for a field that has an attribute, a placeholder (length-of
   field) or a value step tagged with the field's index *)
Lemma ref_enc_field_covers M mk path p i f :
  field_supported f = true ->
  if is_len_field f
  then exists m w le, In (i, EMarkZero m w le) (ref_enc_field M mk path p i f)
  else exists s, In (i, s) (ref_enc_field M mk path p i f) /\ value_step s = true.
Proof.
  intros Hs. destruct f as [name a la rep]. unfold field_supported in Hs. cbn [f_rep f_attr] in Hs.
  unfold is_len_field, ref_enc_field. cbn [f_rep f_attr f_len].
  destruct rep.
  - assert (E : match a, true with ALen _ _, false => true | _, _ => false end = false) by (destruct a; reflexivity).
    rewrite E. eexists. split; [left; reflexivity|reflexivity].
  - destruct a as [ty|len pad| |tg lt|alg ty|iner pn rf inl|k ka pairs|]; cbn [orb] in Hs; try discriminate Hs.
    + destruct la; (eexists; split; [left; reflexivity|reflexivity]).
    + destruct la; (eexists; split; [left; reflexivity|reflexivity]).
    + destruct la; (eexists; split; [left; reflexivity|reflexivity]).
    + do 3 eexists. left. reflexivity.
    + eexists. split; [left; reflexivity|reflexivity].
    + destruct la; (eexists; split; [left; reflexivity|reflexivity]).
    + destruct la; (eexists; split; [left; reflexivity|reflexivity]).
Qed.

Lemma ref_enc_in M mk path p i f x :
  In (i, f) (number 0 (p_fields p)) -> In x (ref_enc_field M mk path p i f) -> In x (ir_enc (ref_ir M mk path p)).
Proof.
  intros Hin Hx. unfold ref_ir. cbn [ir_enc]. apply in_flat_map. exists (i, f). split; [exact Hin|exact Hx].
Qed.

Lemma ref_dec_in M mk path p i f :
  In (i, f) (number 0 (p_fields p)) -> exists d, In (i, d) (ir_dec (ref_ir M mk path p)).
Proof.
  intros Hin. unfold ref_ir. cbn [ir_dec].
  destruct (f_rep f) eqn:Er.
  - eexists. apply in_flat_map. exists (i, f). split; [exact Hin|]. unfold ref_dec_field. rewrite Er. left. reflexivity.
  - eexists. apply in_flat_map. exists (i, f). split; [exact Hin|]. unfold ref_dec_field. rewrite Er. left. reflexivity.
Qed.

Lemma enc_covers_of_eqv M mk path p n a i f :
  enc_eqvb n a (ir_enc (ref_ir M mk path p)) = true ->
  In (i, f) (number 0 (p_fields p)) -> field_supported f = true ->
  enc_covers a i f = true.
Proof.
  intros He Hin Hs. unfold enc_eqvb in He.
  destruct (strip_noops n a) as [a'|] eqn:Ea; [|discriminate].
  destruct (strip_noops n (ir_enc (ref_ir M mk path p))) as [b'|] eqn:Eb; [|discriminate].
  pose proof (ref_enc_field_covers M mk path p i f Hs) as Hc.
  unfold enc_covers. destruct (is_len_field f).
  - destruct Hc as [m [w [le Hm]]].
    pose proof (ref_enc_in M mk path p i f _ Hin Hm) as Hb.
    pose proof (strip_noops_keeps _ _ _ _ Eb Hb eq_refl) as Hb'.
    destruct (forall2b_in_r _ _ _ _ He Hb') as [[j t] [Hx Hst]].
    apply existsb_exists. exists (j, t). split; [exact (strip_noops_sub _ _ _ _ Ea Hx)|].
    cbn [snd]. exact (step_eqvb_markzero _ _ _ _ _ _ _ Hst).
  - destruct Hc as [s [Hm Hv]].
    pose proof (ref_enc_in M mk path p i f _ Hin Hm) as Hb.
    assert (Hn : is_noop (snd (i, s)) = false).
    { cbn [snd]. unfold value_step in Hv. apply andb_prop in Hv. destruct Hv as [Hv _].
      destruct (is_noop s); [discriminate Hv|reflexivity]. }
    pose proof (strip_noops_keeps _ _ _ _ Eb Hb Hn) as Hb'.
    destruct (forall2b_in_r _ _ _ _ He Hb') as [[j t] [Hx Hst]].
    destruct (step_eqvb_value _ _ _ _ _ Hst Hv) as [Hji Hvt].
    apply existsb_exists. exists (j, t). split; [exact (strip_noops_sub _ _ _ _ Ea Hx)|].
    cbn [fst snd]. rewrite Hji, Nat.eqb_refl, Hvt. reflexivity.
Qed.

Lemma dec_covers_of_eqv M mk path p a i f :
  dec_eqvb a (ir_dec (ref_ir M mk path p)) = true ->
  In (i, f) (number 0 (p_fields p)) ->
  dec_covers a i = true.
Proof.
  intros He Hin. unfold dec_eqvb in He.
  apply andb_prop in He. destruct He as [He H2]. apply andb_prop in He. destruct He as [Ha _].
  destruct (ref_dec_in M mk path p i f Hin) as [d Hd].
  destruct (forall2b_in_r _ _ _ _ H2 Hd) as [[j t] [Hx Hst]].
  unfold dstep_eqvb in Hst. cbn [fst snd] in Hst. apply andb_prop in Hst. destruct Hst as [Hji _].
  apply Nat.eqb_eq in Hji.
  unfold dec_covers. apply existsb_exists. exists (j, t). split; [exact Hx|].
  cbn [fst snd]. rewrite Hji, Nat.eqb_refl.
  rewrite forallb_forall in Ha. exact (Ha (j, t) Hx).
Qed.

Theorem validated_is_complete M O :
  validate_enc M O = true -> validate_dec M O = true -> supported M = true ->
  complete_ir M O = true.
Proof.
  unfold validate_enc, validate_dec, paths_ok. intros He Hd Hs.
  apply andb_prop in He. destruct He as [Hp He]. apply andb_prop in Hd. destruct Hd as [_ Hd].
  pose proof (nodupb_NoDup _ Hp) as Hnd.
  unfold complete_ir. apply forallb_forall. intros [path p] Hin. cbn [fst snd].
  pose proof (find_ref M (mk_of O) Hnd path p Hin) as Hr.
  pose proof (find_ir_eqv O _ path He) as Hfe. pose proof (find_ir_deqv O _ path Hd) as Hfd.
  rewrite Hr in Hfe, Hfd.
  destruct (find_ir O path) as [a|]; [|contradiction].
  destruct Hfe as [Hm Hee]. destruct Hfd as [_ Hdd].
  unfold complete_pkt. apply andb_true_intro. split.
  - rewrite Hm. unfold ref_ir. cbn [ir_members]. apply Nat.eqb_refl.
  - apply forallb_forall. intros [i f] Hif. cbn [fst snd].
    assert (Hsf : field_supported f = true).
    { unfold supported in Hs. rewrite forallb_forall in Hs. specialize (Hs (path, p) Hin). cbn [snd] in Hs.
      rewrite forallb_forall in Hs. apply Hs.
      clear - Hif. revert Hif. generalize 0%nat. induction (p_fields p) as [|g r IH]; intros k Hif; [destruct Hif|].
      cbn [number] in Hif. destruct Hif as [E|Hif]; [inversion E; left; reflexivity|right; exact (IH _ Hif)]. }
    apply andb_true_intro. split.
    + apply (enc_covers_of_eqv M (mk_of O) path p (ir_members a) (ir_enc a) i f); assumption.
    + apply (dec_covers_of_eqv M (mk_of O) path p (ir_dec a) i f); assumption.
Qed.

Print Assumptions validated_is_complete.
