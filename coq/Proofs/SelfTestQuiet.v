(* Under [quiet] (Tests/Quiet.v) the store table is irrelevant: the object-returning
   encoder writes the bytes of [sem_enc] and returns the sample unchanged.  Hence
   [validated_selftest_passes] (Proofs/SelfTestPass.v) extends to every test - in any language -
   that does not reach a packet with store-backs. *)
From FP Require Import SelfTest Quiet SelfTestLemmas SelfTestPass Validate Validated Typed.
Open Scope list_scope.

Section Level.
  Variable cs : string -> option (list byte -> N).
  Variable rec : string -> value -> list byte -> option (list byte).
  Variable recm : string -> value -> list byte -> option (list byte * value).
  Variable recq : string -> value -> bool.
  Hypothesis Hrec : forall n v b, recq n v = true -> recm n v b = lift (rec n v b) v.

  Lemma encm_list_lift_in f g l : forall buf acc,
    (forall v b, In v l -> f v b = lift (g v b) v) ->
    encm_list f l buf acc = lift (enc_list g l buf) (rev acc ++ l).
  Proof.
    induction l as [|x r IH]; intros buf acc H; cbn [encm_list enc_list lift].
    - rewrite app_nil_r. reflexivity.
    - rewrite (H x buf (or_introl eq_refl)). destruct (g x buf) as [b|]; cbn [lift]; [|reflexivity].
      rewrite (IH b (x :: acc)); [|intros v b' Hv; apply H; right; exact Hv].
      cbn [rev]. rewrite <- app_assoc. reflexivity.
  Qed.

  Lemma encm_elem_quiet s : forall v buf,
    quiet_elem recq s v = true -> encm_elem recm s v buf = lift (enc_elem rec s v buf) v.
  Proof.
    induction s as [w le|n p|pw ple ele|pw ple ele e IHe|ty| |m w le|e IHe sid|m sid w le cw sl|alg w le|why];
      intros v buf Hq.
    - destruct v; reflexivity.
    - destruct v; reflexivity.
    - destruct v; reflexivity.
    - destruct v as [| |l| |]; try reflexivity. cbn [encm_elem enc_elem]. cbn [quiet_elem] in Hq.
      rewrite forallb_forall in Hq.
      rewrite (encm_list_lift_in (encm_elem recm e) (enc_elem rec e) l _ []); [|intros x b Hx; apply IHe; apply Hq; exact Hx].
      cbn [rev app]. destruct (enc_list (enc_elem rec e) l _); reflexivity.
    - destruct v; cbn [encm_elem enc_elem]; apply Hrec; exact Hq.
    - destruct v as [| | | |q pv]; try reflexivity. cbn [encm_elem enc_elem]. cbn [quiet_elem] in Hq. rewrite (Hrec _ _ _ Hq).
      destruct (rec q pv buf); reflexivity.
    - destruct v; reflexivity.
    - destruct v; reflexivity.
    - destruct v; reflexivity.
    - destruct v; reflexivity.
    - destruct v; reflexivity.
  Qed.

  Lemma encm_step_quiet i s v vs st :
    nth_error vs i = Some v -> quiet_step recq s v = true ->
    encm_step cs recm [] i s v vs st = lift (enc_step cs rec s v st) vs.
  Proof.
    intros Hn Hq. destruct s as [w le|n p|pw ple ele|pw ple ele e|ty| |m w le|e sid|m sid w le cw sl|alg w le|why];
      unfold encm_step; cbn [enc_step]; cbn [quiet_step] in Hq.
    - rewrite encm_elem_quiet by exact Hq. cbn [enc_elem]. destruct v; cbn [lift]; try reflexivity. rewrite (set_nth_same _ _ _ Hn). reflexivity.
    - rewrite encm_elem_quiet by exact Hq. destruct (enc_elem rec (EFixed n p) v (st_buf st)); cbn [lift]; [rewrite (set_nth_same _ _ _ Hn)|]; reflexivity.
    - rewrite encm_elem_quiet by exact Hq. destruct (enc_elem rec (EStr pw ple ele) v (st_buf st)); cbn [lift]; [rewrite (set_nth_same _ _ _ Hn)|]; reflexivity.
    - rewrite encm_elem_quiet by exact Hq. destruct (enc_elem rec (EList pw ple ele e) v (st_buf st)); cbn [lift]; [rewrite (set_nth_same _ _ _ Hn)|]; reflexivity.
    - rewrite encm_elem_quiet by exact Hq. destruct (enc_elem rec (EObj ty) v (st_buf st)); cbn [lift]; [rewrite (set_nth_same _ _ _ Hn)|]; reflexivity.
    - rewrite encm_elem_quiet by exact Hq. destruct (enc_elem rec EDyn v (st_buf st)); cbn [lift]; [rewrite (set_nth_same _ _ _ Hn)|]; reflexivity.
    - reflexivity.
    - rewrite encm_elem_quiet by exact Hq. destruct (enc_elem rec e v (st_buf st)); cbn [lift]; [rewrite (set_nth_same _ _ _ Hn)|]; reflexivity.
    - destruct (lookup_mark (st_marks st) m); [|reflexivity].
      destruct (lookup_mark (st_spans st) sid); [|reflexivity].
      destruct (match sl with Some k => Nat.leb w k | None => true end); reflexivity.
    - destruct v; cbn [lift]; try reflexivity.
      destruct (cs (unquote alg)); reflexivity.
    - reflexivity.
  Qed.

  Lemma encm_steps_quiet steps : forall vs st,
    quiet_steps recq steps vs = true ->
    encm_steps cs recm [] steps vs st = lift (enc_steps cs rec steps vs st) vs.
  Proof.
    induction steps as [|[i s] r IH]; intros vs st Hq; cbn [encm_steps enc_steps]; [reflexivity|].
    unfold quiet_steps in Hq. cbn [forallb fst snd] in Hq. apply andb_prop in Hq. destruct Hq as [Hq Hr].
    destruct (nth_error vs i) as [v|] eqn:Hn; [|reflexivity].
    rewrite (encm_step_quiet i s v vs st Hn Hq).
    destruct (enc_step cs rec s v st) as [st'|]; cbn [lift]; [apply IH; exact Hr|reflexivity].
  Qed.
End Level.

Theorem enc_mut_quiet cs P S fuel : forall name v buf,
  quiet P S fuel name v = true ->
  enc_mut cs P S fuel name v buf = lift (sem_enc cs P fuel name v buf) v.
Proof.
  induction fuel as [|fuel IH]; intros name v buf Hq; cbn [enc_mut sem_enc]; [reflexivity|].
  cbn [quiet] in Hq. destruct (find_ir P name) as [ir|]; [|reflexivity].
  apply andb_prop in Hq. destruct Hq as [Hns Hq]. unfold no_stores in Hns.
  destruct (stores_of S name) as [|s0 sr]; [|discriminate Hns].
  unfold encm_packet_body, enc_packet_body. destruct v as [| | |vs|]; try reflexivity.
  destruct (Nat.eqb (length vs) (ir_members ir)); [|reflexivity].
  rewrite (encm_steps_quiet cs (sem_enc cs P fuel) (enc_mut cs P S fuel) (quiet P S fuel) IH _ _ _ Hq).
  destruct (enc_steps cs (sem_enc cs P fuel) (ir_enc ir) vs _); reflexivity.
Qed.

Lemma selftest_quiet reg M P St eqs post path p v b :
  packet_at M path = Some p ->
  sem_enc (cs_test reg) P fuel0 path v [] = Some b ->
  quiet P St fuel0 path v = true ->
  selftest reg M P St eqs post path v =
    match sem_dec P fuel0 path b with
    | DOk (v2, _) => if teq M eqs fuel0 path p (copy_members post v v2) v2 then TPass else TNotEqual
    | _ => TDecodeFails
    end.
Proof.
  intros Hp He Hq. unfold selftest. rewrite Hp, (enc_mut_quiet _ _ _ _ _ _ _ Hq), He. cbn [lift].
  rewrite EqvSoundDec.list_eqb_refl. reflexivity.
Qed.

(* the theorem of Proofs/SelfTestPass.v for ANY store table the test does not reach *)
Theorem validated_selftest_passes_quiet reg M O St eqs post path p v :
  validate_enc M O = true -> validate_dec_full M O = true ->
  In (path, p) (all_packets M) ->
  typed M fuel0 p v = true ->
  layout_defined reg M path v = true ->
  eqs_ok M eqs = true ->
  post_ok reg p post = true ->
  no_nested_computed reg M p = true ->
  quiet O St fuel0 path v = true ->
  selftest reg M O St eqs post path v = TPass.
Proof.
  intros Henc Hdec Hin Ht Hlay Heqs Hpost Hguard Hq.
  assert (Hnd : NoDup (map fst (all_packets M))).
  { unfold validate_enc, paths_ok in Henc. apply andb_prop in Henc. destruct Henc as [Hp _]. exact (nodupb_NoDup _ Hp). }
  pose proof (packet_at_in M path p Hnd Hin) as Hpa.
  unfold layout_defined in Hlay. rewrite Hpa in Hlay. unfold layout in Hlay.
  destruct (lay_packet (cs_test reg) M fuel0 p v []) as [b|] eqn:Hl; [|discriminate Hlay].
  pose proof (validated_enc_correct (cs_test reg) M O Henc fuel0 path p v [] b Hin Hl) as He.
  destruct (validated_dec_correct (cs_test reg) M O Hdec fuel0 path p v [] b Hin Ht Hl) as [msg [v' [Hb [Hd [Hu _]]]]].
  cbn [app] in Hb. subst msg.
  rewrite (selftest_quiet reg M O St eqs post path p v b Hpa He Hq).
  specialize (Hd []). rewrite app_nil_r in Hd. rewrite Hd.
  change fuel0 with (S (pred fuel0)) in Ht, Hu |- *.
  rewrite (ueq_teq_top reg M eqs Hnd Heqs (pred fuel0) path p post v v' Hin Hguard Hpost Ht Hu). reflexivity.
Qed.

(* not vacuous: the example of Proofs/SelfTestPass.v with a store table for the root packet "Msg"
   (length at the back-patch of member 2 into member 1, checksum member 6): the tests of the
   packets "Inner" and "Logon" do not reach it; the test of "Msg" itself does (quiet = false) *)
Definition exq_S : list (string * list store) :=
  [("Msg"%string, [mkStore 2 1 (Some 4%nat); mkStore 6 6 (Some 4%nat)])].
Definition exq_inner_v : value := VObj [VInt 5; VStr [104; 105]%N].

Example exq_hypotheses :
  packet_at ex_M "Inner" = Some ex_inner /\ typed ex_M fuel0 ex_inner exq_inner_v = true /\
  layout_defined true ex_M "Inner" exq_inner_v = true /\ post_ok true ex_inner [] = true /\
  no_nested_computed true ex_M ex_inner = true /\
  quiet ex_O exq_S fuel0 "Inner" exq_inner_v = true /\ quiet ex_O exq_S fuel0 "Msg" ex_v = false.
Proof. repeat split; vm_compute; reflexivity. Qed.

Example exq_passes : selftest true ex_M ex_O exq_S [] [] "Inner" exq_inner_v = TPass.
Proof.
  destruct ex_hypotheses as [He [Hd [_ [_ [_ [_ [Hq0 _]]]]]]].
  destruct exq_hypotheses as [Hp [Ht [Hl [Hpo [Hg [Hq _]]]]]].
  apply (validated_selftest_passes_quiet true ex_M ex_O exq_S [] [] "Inner" ex_inner exq_inner_v); try assumption.
  unfold packet_at in Hp. exact (assoc_in _ _ _ Hp).
Qed.

Print Assumptions validated_selftest_passes_quiet.
Print Assumptions exq_passes.
