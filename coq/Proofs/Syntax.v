(* Theorems about the syntax models (coq/Syntax).

   parse_flatten:  parse ts = Some t  ->
       the default-channel tokens of ts are exactly the terminals of t, in order, followed by
       one EOF token:  map text (default ts) = flatten t ++ [text of that EOF token].
   Corollaries: flatten t = removelast (map text (default ts)) (parse_flatten_removelast);
   with ts = the result of [lex], the last text is "<EOF>" (lex_parse_flatten).
   parse_tokens: the same for whole tokens (type, text, line, column, index), parse_types for
   the types.

   Method: every rule function [r_X] satisfies
       r_X s = Some (x, s')  ->  st_rest s = toks_X x ++ st_rest s'
   (what the rule consumed is what its node contains), by unfolding the function; the loops
   [many]/[many1] lift the property to lists; [r_field_def] by induction on its fuel. *)
From FP Require Import Lexer Parser Flatten.
From Coq Require Import Lia.

Definition consumes {A : Type} (p : pst -> option (A * pst)) (fl : A -> list ptok) : Prop :=
  forall s x s', p s = Some (x, s') -> st_rest s = fl x ++ st_rest s'.

Lemma expect_ok : forall ty s t s', expect ty s = Some (t, s') -> st_rest s = [t] ++ st_rest s'.
Proof.
  intros ty s t s' H. unfold expect in H.
  destruct (st_rest s) as [|k r] eqn:E; [discriminate|].
  destruct (Nat.eqb (p_type k) ty && negb (Nat.eqb ty T_EOF)); [|discriminate].
  inversion H; subst; reflexivity.
Qed.

Lemma accept_ok : forall ty s o s', accept ty s = (o, s') -> st_rest s = o2l o ++ st_rest s'.
Proof.
  intros ty s o s' H. unfold accept in H.
  destruct (expect ty s) as [[t s1]|] eqn:E.
  - inversion H; subst. apply expect_ok in E. exact E.
  - inversion H; subst. reflexivity.
Qed.

Lemma many_ok : forall (A : Type) (p : pst -> option (A * pst)) (fl : A -> list ptok) (first : list nat),
    consumes p fl -> forall fuel, consumes (many fuel first p) (flat_map fl).
Proof.
  intros A p fl first Hp fuel. induction fuel as [|f IH]; intros s xs s' H; simpl in H.
  - discriminate.
  - destruct (mem (la 0 s) first).
    + destruct (p s) as [[x s1]|] eqn:E1; [|discriminate].
      destruct (many f first p s1) as [[ys s2]|] eqn:E2; [|discriminate].
      inversion H; subst. apply Hp in E1. apply IH in E2.
      simpl. rewrite E1, E2. rewrite app_assoc. reflexivity.
    + inversion H; subst. reflexivity.
Qed.

Lemma many1_ok : forall (A : Type) (p : pst -> option (A * pst)) (fl : A -> list ptok) (first : list nat),
    consumes p fl -> forall fuel, consumes (many1 fuel first p) (flat_map fl).
Proof.
  intros A p fl first Hp fuel s xs s' H. unfold many1 in H.
  destruct (p s) as [[x s1]|] eqn:E1; [|discriminate].
  destruct (many fuel first p s1) as [[ys s2]|] eqn:E2; [|discriminate].
  inversion H; subst. apply Hp in E1. apply (many_ok A p fl first Hp) in E2.
  simpl. rewrite E1, E2. rewrite app_assoc. reflexivity.
Qed.

(* ------------------------------------------------------------------ proof automation *)
(* one step of taking a rule function apart *)
Ltac crack H :=
  match type of H with
  | match ?e with Some _ => _ | None => None end = Some _ =>
      let E := fresh "E" in destruct e as [[? ?]|] eqn:E; [|discriminate H]
  | (let '(_, _) := ?e in _) = Some _ =>
      let E := fresh "E" in destruct e as [? ?] eqn:E
  | (if ?c then _ else _) = Some _ =>
      let C := fresh "C" in destruct c eqn:C; [|try discriminate H]
  end.

Ltac crack_all H := repeat (crack H; simpl in H).

(* turn every fact "a sub-parser succeeded" into an equation on st_rest *)
Ltac facts :=
  repeat match goal with
         | E : expect _ _ = Some _ |- _ => apply expect_ok in E
         | E : accept _ _ = (_, _) |- _ => apply accept_ok in E
         end.

(* apply a lemma [consumes p fl] to the hypothesis (whatever its generated name) that it fits *)
Tactic Notation "use" uconstr(L) :=
  match goal with
  | E : _ = Some (_, _) |- _ => apply L in E
  end.

Ltac finish :=
  simpl in *;
  repeat match goal with
         | E : st_rest _ = _ |- _ => rewrite E; clear E
         end;
  repeat (first [rewrite <- app_assoc | progress simpl]); try reflexivity.

(* ------------------------------------------------------------------ the rules *)
Lemma r_basic_type_ok : consumes r_basic_type toks_basic_type.
Proof. intros s x s' H. unfold r_basic_type in H. crack_all H. inversion H; subst. facts. finish. Qed.

Lemma r_fixed_string_ok : consumes r_fixed_string toks_fixed_string.
Proof. intros s x s' H. unfold r_fixed_string in H. crack_all H. inversion H; subst. facts. finish. Qed.

Lemma r_dynamic_string_ok : consumes r_dynamic_string toks_dynamic_string.
Proof. intros s x s' H. unfold r_dynamic_string in H. crack_all H. inversion H; subst. facts. finish. Qed.

Lemma r_type_ok : consumes r_type toks_type.
Proof.
  intros s x s' H. unfold r_type in H.
  destruct (mem (la 0 s) basic_types).
  - crack_all H. inversion H; subst. use r_basic_type_ok. finish.
  - destruct (mem (la 0 s) [T_CHARLB; T_ZCHARLB]).
    + crack_all H. inversion H; subst. use r_fixed_string_ok. finish.
    + destruct (mem (la 0 s) [T_STRINGKW; T_CHARARR]); [|discriminate].
      crack_all H. inversion H; subst. use r_dynamic_string_ok. finish.
Qed.

Lemma r_opt_type_ok : consumes r_opt_type toks_opt_type.
Proof.
  intros s x s' H. unfold r_opt_type in H.
  destruct (mem (la 0 s) type_first).
  - crack_all H. inversion H; subst. use r_type_ok. finish.
  - inversion H; subst. reflexivity.
Qed.

Lemma r_value_ok : consumes r_value toks_value.
Proof.
  intros s x s' H. unfold r_value in H.
  destruct (mem (la 0 s) type_first).
  { crack_all H. inversion H; subst. use r_type_ok. finish. }
  repeat match type of H with
         | (if ?c then _ else _) = Some _ =>
             destruct c; [crack_all H; inversion H; subst; facts; finish|]
         end.
  discriminate.
Qed.

Lemma r_calculated_from_ok : consumes r_calculated_from toks_calculated_from.
Proof. intros s x s' H. unfold r_calculated_from in H. crack_all H. inversion H; subst. facts. finish. Qed.

Lemma r_length_of_ok : consumes r_length_of toks_length_of.
Proof. intros s x s' H. unfold r_length_of in H. crack_all H. inversion H; subst. facts. finish. Qed.

Lemma r_padding_attr_ok : consumes r_padding_attr toks_padding_attr.
Proof.
  intros s x s' H. unfold r_padding_attr in H. crack_all H. inversion H; subst. facts.
  unfold toks_padding_attr. finish.
Qed.

Lemma r_tag_attr_ok : consumes r_tag_attr toks_tag_attr.
Proof. intros s x s' H. unfold r_tag_attr in H. crack_all H. inversion H; subst. facts. finish. Qed.

Lemma r_field_attribute_ok : consumes r_field_attribute toks_field_attribute.
Proof.
  intros s x s' H. unfold r_field_attribute in H.
  destruct (Nat.eqb (la 0 s) T_LENGTHOF).
  { crack_all H. inversion H; subst. use r_length_of_ok. finish. }
  destruct (Nat.eqb (la 0 s) T_CALCFROM).
  { crack_all H. inversion H; subst. use r_calculated_from_ok. finish. }
  destruct (Nat.eqb (la 0 s) T_TAG).
  { crack_all H. inversion H; subst. use r_tag_attr_ok. finish. }
  destruct (Nat.eqb (la 0 s) T_PADDING_ATTR); [|discriminate].
  crack_all H. inversion H; subst. use r_padding_attr_ok. finish.
Qed.

Lemma r_meta_decl_ok : consumes r_meta_decl toks_meta_decl.
Proof.
  intros s x s' H. unfold r_meta_decl in H. crack_all H. inversion H; subst.
  use r_type_ok. facts. unfold toks_meta_decl. finish.
Qed.

Lemma r_ref_meta_decl_ok : consumes r_ref_meta_decl toks_ref_meta_decl.
Proof.
  intros s x s' H. unfold r_ref_meta_decl in H. crack_all H. inversion H; subst.
  facts. unfold toks_ref_meta_decl. finish.
Qed.

Lemma r_length_field_decl_ok : consumes r_length_field_decl toks_length_field_decl.
Proof.
  intros s x s' H. unfold r_length_field_decl in H. crack_all H. inversion H; subst.
  use r_opt_type_ok. use r_length_of_ok. facts. unfold toks_length_field_decl. finish.
Qed.

Lemma r_checksum_field_decl_ok : consumes r_checksum_field_decl toks_checksum_field_decl.
Proof.
  intros s x s' H. unfold r_checksum_field_decl in H. crack_all H. inversion H; subst.
  use r_opt_type_ok. use r_calculated_from_ok. facts. unfold toks_checksum_field_decl. finish.
Qed.

Lemma r_list_item_ok : consumes r_list_item (fun t => [t]).
Proof.
  intros s x s' H. unfold r_list_item in H.
  destruct (mem (la 0 s) [T_DIGITS; T_STRING]); [|discriminate].
  apply expect_ok in H. exact H.
Qed.

Lemma r_list_more_ok : consumes r_list_more toks_comma_item.
Proof.
  intros s x s' H. unfold r_list_more in H. crack_all H. inversion H; subst.
  use r_list_item_ok. facts. unfold toks_comma_item. finish.
Qed.

Lemma r_key_list_ok : forall fuel, consumes (r_key_list fuel) toks_key_list.
Proof.
  intros fuel s x s' H. unfold r_key_list in H. crack_all H. inversion H; subst.
  use r_list_item_ok.
  use (many_ok _ _ _ _ r_list_more_ok). facts. unfold toks_key_list. finish.
Qed.

Lemma r_match_pair_ok : forall fuel, consumes (r_match_pair fuel) toks_match_pair.
Proof.
  intros fuel s x s' H. unfold r_match_pair in H.
  crack H. simpl in H. crack_all H. inversion H; subst. facts.
  match goal with
  | E : (if Nat.eqb (la 0 s) T_DIGITS then _ else _) = Some (?k, ?s1) |- _ =>
      assert (K : st_rest s = toks_match_key k ++ st_rest s1);
      [ clear - E;
        destruct (Nat.eqb (la 0 s) T_DIGITS);
        [ crack_all E; inversion E; subst; facts; finish |];
        destruct (Nat.eqb (la 0 s) T_STRING);
        [ crack_all E; inversion E; subst; facts; finish |];
        destruct (Nat.eqb (la 0 s) T_LBRACK); [| discriminate E];
        crack_all E; inversion E; subst; use r_key_list_ok; finish
      | clear E ]
  end.
  unfold toks_match_pair. finish.
Qed.

Lemma r_match_field_decl_ok : forall fuel, consumes (r_match_field_decl fuel) toks_match_field_decl.
Proof.
  intros fuel s x s' H. unfold r_match_field_decl in H. crack_all H. inversion H; subst.
  use (many1_ok _ _ _ _ (r_match_pair_ok fuel)). facts. unfold toks_match_field_decl. finish.
Qed.

Lemma r_field_def_ok : forall fuel, consumes (r_field_def fuel) toks_field_def.
Proof.
  induction fuel as [|f IH]; intros s x s' H; simpl in H; [discriminate|].
  destruct (predict_fd s) as [alt|]; [|discriminate].
  destruct alt as [|[|[|[|[|[|[|alt]]]]]]]; try discriminate.
  - (* 1: InerObjectField *)
    crack_all H. inversion H; subst.
    use (many1_ok _ _ _ _ IH). facts. finish.
  - (* 2: MetaField *)
    crack_all H. inversion H; subst. use r_meta_decl_ok. facts. finish.
  - (* 3: ObjectField *)
    crack_all H. inversion H; subst. facts. finish.
  - (* 4: LengthField *)
    crack_all H. inversion H; subst. use r_length_field_decl_ok. finish.
  - (* 5: CheckSumField *)
    crack_all H. inversion H; subst. use r_checksum_field_decl_ok. finish.
  - (* 6: MatchField *)
    crack_all H. inversion H; subst. use r_match_field_decl_ok. facts. finish.
Qed.

Lemma r_field_with_attr_ok : forall fuel, consumes (r_field_with_attr fuel) toks_field_with_attr.
Proof.
  intros fuel s x s' H. unfold r_field_with_attr in H. crack_all H. inversion H; subst.
  use (many_ok _ _ _ _ r_field_attribute_ok). use r_field_def_ok.
  unfold toks_field_with_attr. finish.
Qed.

Lemma r_packet_def_ok : forall fuel, consumes (r_packet_def fuel) toks_packet_def.
Proof.
  intros fuel s x s' H. unfold r_packet_def in H. crack_all H. inversion H; subst.
  use (many_ok _ _ _ _ (r_field_with_attr_ok fuel)). facts. unfold toks_packet_def. finish.
Qed.

Lemma r_meta_item_ok : consumes r_meta_item toks_meta_item.
Proof.
  intros s x s' H. unfold r_meta_item in H.
  destruct (Nat.eqb (la 0 s) T_IDENTIFIER).
  - crack_all H. inversion H; subst. use r_ref_meta_decl_ok. finish.
  - crack_all H. inversion H; subst. use r_meta_decl_ok. finish.
Qed.

Lemma r_meta_def_ok : forall fuel, consumes (r_meta_def fuel) toks_meta_def.
Proof.
  intros fuel s x s' H. unfold r_meta_def in H. crack_all H. inversion H; subst.
  use (many_ok _ _ _ _ r_meta_item_ok). facts. unfold toks_meta_def. finish.
Qed.

Lemma r_option_decl_ok : consumes r_option_decl toks_option_decl.
Proof.
  intros s x s' H. unfold r_option_decl in H. crack_all H. inversion H; subst.
  use r_value_ok. facts. unfold toks_option_decl. finish.
Qed.

Lemma r_option_def_ok : forall fuel, consumes (r_option_def fuel) toks_option_def.
Proof.
  intros fuel s x s' H. unfold r_option_def in H. crack_all H. inversion H; subst.
  use (many_ok _ _ _ _ r_option_decl_ok). facts. unfold toks_option_def. finish.
Qed.

Lemma r_definition_ok : forall fuel, consumes (r_definition fuel) toks_definition.
Proof.
  intros fuel s x s' H. unfold r_definition in H.
  destruct (mem (la 0 s) [T_ROOT; T_PACKET]).
  { crack_all H. inversion H; subst. use r_packet_def_ok. finish. }
  destruct (Nat.eqb (la 0 s) T_METADATA).
  { crack_all H. inversion H; subst. use r_meta_def_ok. finish. }
  destruct (Nat.eqb (la 0 s) T_OPTIONS); [|discriminate].
  crack_all H. inversion H; subst. use r_option_def_ok. finish.
Qed.

Lemma r_packet_ok : forall fuel, consumes (r_packet fuel) toks_pt.
Proof.
  intros fuel s x s' H. unfold r_packet in H. crack_all H. inversion H; subst.
  use (many_ok _ _ _ _ (r_definition_ok fuel)). unfold toks_pt. simpl. exact E.
Qed.

(* ------------------------------------------------------------------ the whole parser *)
Theorem parse_ptoks_toks : forall ps t,
    parse_ptoks ps = Some t -> exists e, p_type e = T_EOF /\ ps = toks_pt t ++ [e].
Proof.
  intros ps t H. unfold parse_ptoks in H.
  destruct (r_packet (S (length ps)) (mkSt None ps)) as [[t0 s1]|] eqn:E; [|discriminate].
  apply r_packet_ok in E. simpl in E.
  destruct (st_rest s1) as [|e [|e2 r]]; try discriminate.
  destruct (Nat.eqb (p_type e) T_EOF) eqn:Ety; [|discriminate].
  injection H as Ht. rewrite <- Ht. exists e. split.
  - apply Nat.eqb_eq. exact Ety.
  - exact E.
Qed.

Definition default_channel (ts : list tok) : list tok := filter (fun k => negb (hidden k)) ts.

Lemma index_from_texts : forall ts i, map p_text (index_from i ts) = map text (default_channel ts).
Proof.
  induction ts as [|k r IH]; intros i; simpl; [reflexivity|].
  destruct (hidden k); simpl.
  - apply IH.
  - rewrite IH. reflexivity.
Qed.

Lemma index_from_types : forall ts i, map p_type (index_from i ts) = map type (default_channel ts).
Proof.
  induction ts as [|k r IH]; intros i; simpl; [reflexivity|].
  destruct (hidden k); simpl.
  - apply IH.
  - rewrite IH. reflexivity.
Qed.

(* The terminals of the tree are the default-channel tokens of the input, in order, followed
   by one EOF token. *)
Theorem parse_flatten : forall ts t,
    parse ts = Some t ->
    exists eof_txt, map text (default_channel ts) = flatten t ++ [eof_txt].
Proof.
  intros ts t H. unfold parse in H.
  apply parse_ptoks_toks in H. destruct H as [e [_ Hps]].
  exists (p_text e).
  rewrite <- (index_from_texts ts 0). rewrite Hps. unfold flatten.
  rewrite map_app. reflexivity.
Qed.

Corollary parse_flatten_removelast : forall ts t,
    parse ts = Some t -> flatten t = removelast (map text (default_channel ts)).
Proof.
  intros ts t H. destruct (parse_flatten ts t H) as [x Hx]. rewrite Hx.
  rewrite removelast_last. reflexivity.
Qed.

(* the same with everything the tree keeps of a token (type, text, line, column, index): the
   terminals of the tree ARE the numbered default-channel tokens of the stream *)
Theorem parse_tokens : forall ts t,
    parse ts = Some t -> exists e, p_type e = T_EOF /\ index_from 0 ts = toks_pt t ++ [e].
Proof.
  intros ts t H. unfold parse in H. apply parse_ptoks_toks in H. exact H.
Qed.

(* in particular the token types: those of the stream, EOF last *)
Theorem parse_types : forall ts t,
    parse ts = Some t -> map type (default_channel ts) = map p_type (toks_pt t) ++ [T_EOF].
Proof.
  intros ts t H. unfold parse in H.
  apply parse_ptoks_toks in H. destruct H as [e [Hty Hps]].
  rewrite <- (index_from_types ts 0). rewrite Hps. rewrite map_app. simpl. rewrite Hty. reflexivity.
Qed.

(* ------------------------------------------------------------------ with the lexer in front *)
Lemma lex_go_last : forall rs fuel s ln cl acc ts,
    lex_go rs fuel s ln cl acc = Some ts -> exists ln' cl' front, ts = front ++ [eof_tok ln' cl'].
Proof.
  intros rs. induction fuel as [|f IH]; intros s ln cl acc ts H; [discriminate H|].
  destruct s as [|c r]; cbn [lex_go] in H.
  - inversion H; subst. exists ln, cl, (rev acc). reflexivity.
  - (* the rules are never looked into: whatever they match, the recursion goes on *)
    destruct (best_match rs (c :: r) None) as [[ty n]|]; [|discriminate H].
    destruct n as [|n]; [discriminate H|].
    destruct (advance (firstn (S n) (c :: r)) ln cl) as [ln1 cl1].
    destruct (Nat.eqb ty T_WS); apply IH in H; exact H.
Qed.

Lemma default_channel_app : forall a b, default_channel (a ++ b) = default_channel a ++ default_channel b.
Proof. intros a b. unfold default_channel. apply filter_app. Qed.

(* text -> tokens -> tree: the terminals of the tree, then "<EOF>", are the texts of the
   default-channel tokens *)
Theorem lex_parse_flatten : forall rs ts t,
    lex rs = Some ts -> parse ts = Some t ->
    map text (default_channel ts) = flatten t ++ [eof_text].
Proof.
  intros rs ts t Hl Hp. unfold lex in Hl.
  destruct (lex_go_last _ _ _ _ _ _ _ Hl) as [ln [cl [front Hts]]].
  destruct (parse_flatten ts t Hp) as [x Hx].
  rewrite Hx. f_equal. f_equal.
  assert (L : last (map text (default_channel ts)) EmptyString = x).
  { rewrite Hx. apply last_last. }
  rewrite <- L. rewrite Hts. rewrite default_channel_app. simpl.
  rewrite map_app. simpl. rewrite last_last. reflexivity.
Qed.
