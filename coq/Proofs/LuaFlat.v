(* C15 on the fixed-width flat fragment: a root packet whose fields are non-repeated scalars
   and fixed strings.  For every message the specification lays out, the emitted main
   dissector (the MODEL of the generator, Gen/Lua.v), run over the canonical encoding,
   attributes exactly [ranges] and finishes at the end of the message.

   This is the base case of the C15 theorem (no prefix is read, no sub-dissector is called);
   the statement for the whole of [lua_frag] (strings, lists, empty match payloads) has the same
   shape and is checked by harness/lua.py on every run, not proved here.                   *)
From FP Require Import LuaOracle Lua BytesLemmas.
From Coq Require Import Lia.
Open Scope list_scope.

Definition env0 (n : nat) : lenv := [("offset"%string, LvNum (Z.of_nat n)); ("tree"%string, LvTree)].

Lemma buf_range_ok (buf : list byte) (e : lenv) (n size : nat) :
  lget e "offset" = LvNum (Z.of_nat n) ->
  (n + size <= length buf)%nat ->
  buf_range buf e (LvNum (Z.of_nat size)) = LOk (n, size).
Proof.
  intros Hoff Hle. unfold buf_range. rewrite Hoff. cbn [lbind].
  destruct (Z.ltb_spec (Z.of_nat n) 0) as [Hneg | _]; [lia |].
  destruct (Z.eqb_spec (Z.of_nat size) (-1)) as [Heq | _]; [lia |].
  destruct (Z.ltb_spec (Z.of_nat size) (-1)) as [Hlt | _]; [lia |].
  unfold blen.
  destruct (Z.leb_spec (Z.of_nat n + Z.of_nat size) (Z.of_nat (length buf))) as [_ | Hgt]; [| lia].
  rewrite !Nat2Z.id. reflexivity.
Qed.

Lemma need_tree_env0 (n : nat) : need_tree (env0 n) "tree" = LOk tt.
Proof. reflexivity. Qed.

Lemma lget_offset_env0 (n : nat) : lget (env0 n) "offset" = LvNum (Z.of_nat n).
Proof. reflexivity. Qed.

Lemma lset_offset_env0 (n : nat) (v : lval) : lset (env0 n) "offset" v = [("offset"%string, v); ("tree"%string, LvTree)].
Proof. reflexivity. Qed.

Section FlatFixed.
  Variable M : bmodel.
  Variable root : packet.
  Variable fields : list string.
  Variable callf : string -> lval -> lval -> list triple -> nat -> lres (lval * list triple * nat).
  Variable lay : packet -> value -> list byte -> option (list byte).
  Variable rec : packet -> value -> list byte -> option (list rtriple).

  (* a non-repeated scalar or fixed string whose ProtoField is declared *)
  Definition fixed_field_ok (f : field) : bool :=
    andb (negb (f_rep f))
   (andb (match f_len f with LNone => true | _ => false end)
   (andb (mem_str (lua_field_name M root f) fields)
         (match f_attr f with
          | ABasic t => match lua_basic (gtype f), scalar_width (get_basic_type t) with
                        | Some lt, Some w => Nat.eqb (lt_size lt) w
                        | _, _ => false
                        end
          | AFixed _ _ => true
          | _ => false
          end))).

  (* "tree:add(fields.X, buf(offset, size)); offset = offset + size" *)
  Lemma exec_add_adv (buf : list byte) (name : string) (n size : nat) (le : bool) (rest : list lstmt)
        (out : list triple) (budget : nat) :
    mem_str name fields = true ->
    (n + size <= length buf)%nat ->
    exec_list buf fields callf (LAdd "tree" name (LConst size) le :: LAdv (LConst size) :: rest)
              (mkLS (env0 n) out budget None)
    = exec_list buf fields callf rest (mkLS (env0 (n + size)) ((name, n, size) :: out) budget None).
  Proof.
    intros Hmem Hle.
    cbn [exec_list ls_ret]. cbn [exec_stmt ls_env].
    rewrite need_tree_env0. cbn [lbind].
    rewrite Hmem. cbn [negb eval].
    rewrite (buf_range_ok buf (env0 n) n size eq_refl Hle).
    cbn [lbind ls_out ls_budget ls_ret exec_list]. cbn [exec_stmt ls_env eval].
    rewrite lget_offset_env0.
    cbn [lbind with_env ls_out ls_budget ls_ret ls_env].
    rewrite lset_offset_env0.
    rewrite <- Nat2Z.inj_add. reflexivity.
  Qed.

  (* one field: what the layout appends, what the generator emits, what the specification attributes *)
  Lemma fixed_step (f : field) (v : value) (cur : list byte) (lp : option nat) (st' : Layout.lstate) :
    fixed_field_ok f = true ->
    lay_field no_cs M lay root f v (cur, lp) = Some st' ->
    exists (bytes : list byte) (le : bool),
      st' = (cur ++ bytes, lp) /\
      field_stmts M "tree" root f
        = [LAdd "tree" (lua_field_name M root f) (LConst (length bytes)) le; LAdv (LConst (length bytes))] /\
      f_rep f = false /\
      mem_str (lua_field_name M root f) fields = true /\
      rng_field M lay rec root f v (cur, lp) st' = Some [(lua_field_name M root f, length cur, length bytes)].
  Proof.
    intros Hok Hlay. unfold fixed_field_ok in Hok.
    apply andb_prop in Hok. destruct Hok as [Hrep Hok].
    apply andb_prop in Hok. destruct Hok as [Hlen Hok].
    apply andb_prop in Hok. destruct Hok as [Hmem Hattr].
    apply negb_true_iff in Hrep.
    unfold lay_field in Hlay. rewrite Hrep in Hlay.
    unfold rng_field, field_stmts. rewrite Hrep.
    destruct (f_attr f) as [t | n fp | | tg lt | alg ty | iner pn rf inl | k ka prs | ] eqn:Ha; try discriminate Hattr.
    - (* ABasic *)
      destruct (f_len f) eqn:Hfl; try discriminate Hlen.
      destruct (lua_basic (gtype f)) as [lt |] eqn:Hlt; [| discriminate Hattr].
      destruct (scalar_width (get_basic_type t)) as [w |] eqn:Hw; [| discriminate Hattr].
      apply Nat.eqb_eq in Hattr.
      destruct v as [n | s | l | vs | q pv]; cbn [lay_elem] in Hlay; try discriminate Hlay;
        rewrite Hw in Hlay; try discriminate Hlay.
      destruct (fits w n); [| discriminate Hlay].
      injection Hlay as Hst. subst st'.
      exists (enc_int w (cfg_le M) n), (le_of M).
      rewrite enc_int_length.
      repeat split; try assumption.
      + rewrite Hattr. reflexivity.
      + cbn [fst rng_elem]. rewrite app_length, enc_int_length.
        replace (length cur + w - length cur)%nat with w by lia. reflexivity.
    - (* AFixed *)
      destruct (f_len f) eqn:Hfl; try discriminate Hlen.
      destruct v as [x | s | l | vs | q pv]; cbn [lay_elem] in Hlay; try discriminate Hlay.
      destruct (eff_pad M fp) as [[c lft] |]; [| discriminate Hlay].
      destruct (Nat.leb (length s) n) eqn:Hfit; [| discriminate Hlay].
      injection Hlay as Hst. subst st'.
      apply Nat.leb_le in Hfit.
      exists (pad_to n c lft s), false.
      rewrite (pad_to_length n c lft s Hfit).
      repeat split; try assumption.
      cbn [fst rng_elem]. rewrite app_length, (pad_to_length n c lft s Hfit).
      replace (length cur + n - length cur)%nat with n by lia. reflexivity.
  Qed.

  (* no match field: nothing is a match key *)
  Lemma no_match_key (fs : list field) (f : field) :
    forallb fixed_field_ok fs = true ->
    existsb (fun g => match f_attr g with
                      | AMatch (Some k) _ _ => String.eqb (f_name f) k
                      | _ => false
                      end) fs = false.
  Proof.
    induction fs as [| g r IH]; intros Hall; [reflexivity |].
    cbn [forallb] in Hall. apply andb_prop in Hall. destruct Hall as [Hg Hr].
    cbn [existsb]. rewrite (IH Hr). rewrite orb_false_r.
    unfold fixed_field_ok in Hg.
    apply andb_prop in Hg. destruct Hg as [_ Hg].
    apply andb_prop in Hg. destruct Hg as [_ Hg].
    apply andb_prop in Hg. destruct Hg as [_ Hg].
    destruct (f_attr g); try discriminate Hg; reflexivity.
  Qed.

  (* the statements emitted for a list of fields, none of which is a match key *)
  Definition stmts_of (fs : list field) : list lstmt :=
    flat_map (fun f => if f_rep f then list_stmts M "tree" root f else field_stmts M "tree" root f) fs.

  Lemma fixed_fields (buf : list byte) (fs : list field) :
    forall (vs : list value) (cur : list byte) (lp : option nat) (b : list byte) (out : list triple) (budget : nat)
           (rest : list lstmt) (tail : list byte),
    forallb fixed_field_ok fs = true ->
    lay_fields no_cs M lay root fs vs (cur, lp) = Some b ->
    buf = b ++ tail ->
    exists (more : list byte) (r : list rtriple),
      b = cur ++ more /\
      rng_fields no_cs M lay rec root fs vs (cur, lp) = Some r /\
      exec_list buf fields callf (stmts_of fs ++ rest) (mkLS (env0 (length cur)) out budget None)
      = exec_list buf fields callf rest (mkLS (env0 (length b)) (rev r ++ out) budget None).
  Proof.
    induction fs as [| f fr IH]; intros vs cur lp b out budget rest tail Hall Hlay Hbuf.
    - destruct vs as [| v vr]; [| discriminate Hlay].
      cbn [lay_fields fst] in Hlay. injection Hlay as Hb. subst b.
      exists [], []. rewrite app_nil_r. repeat split.
    - destruct vs as [| v vr]; [discriminate Hlay |].
      cbn [forallb] in Hall. apply andb_prop in Hall. destruct Hall as [Hf Hfr].
      cbn [lay_fields] in Hlay.
      destruct (lay_field no_cs M lay root f v (cur, lp)) as [st' |] eqn:Hstep; [| discriminate Hlay].
      destruct (fixed_step f v cur lp st' Hf Hstep) as [bytes [le [Hst [Hstm [Hrep [Hmem Hrng]]]]]].
      subst st'.
      destruct (IH vr (cur ++ bytes) lp b ((lua_field_name M root f, length cur, length bytes) :: out) budget rest tail
                   Hfr Hlay Hbuf) as [more [r [Hb [Hr Hexec]]]].
      exists (bytes ++ more), ((lua_field_name M root f, length cur, length bytes) :: r).
      split; [rewrite Hb, app_assoc; reflexivity |].
      split.
      + cbn [rng_fields]. rewrite Hstep, Hrng, Hr. reflexivity.
      + unfold stmts_of. cbn [flat_map]. rewrite Hrep, Hstm.
        cbn [app].
        rewrite exec_add_adv; [| assumption |].
        * fold (stmts_of fr). rewrite <- app_length. rewrite Hexec.
          cbn [rev]. rewrite <- app_assoc. reflexivity.
        * rewrite Hbuf, Hb. rewrite !app_length. lia.
  Qed.
End FlatFixed.

(* ---- tie to gen_lua and to ranges ---- *)

Definition fixed_flat (M : bmodel) : bool :=
  match root_packet M with
  | Some root => forallb (fixed_field_ok M root (map fst (lp_fields (gen_lua M)))) (p_fields root)
  | None => false
  end.

Lemma packet_stmts_no_key (M : bmodel) (root : packet) (fl : list string) :
  forallb (fixed_field_ok M root fl) (p_fields root) = true ->
  packet_stmts M "tree" root = stmts_of M root (p_fields root).
Proof.
  intros Hall. unfold packet_stmts, stmts_of.
  apply flat_map_ext. intros f.
  unfold is_match_key. rewrite (no_match_key M root fl (p_fields root) f Hall).
  reflexivity.
Qed.

Theorem lua_fixed_flat_correct (M : bmodel) (root : packet) (v : value) (fuel fuel' : nat)
        (b : list byte) (r : list (string * nat * nat)) (n : nat) :
  root_packet M = Some root ->
  fixed_flat M = true ->
  layout no_cs M fuel root v = Some b ->
  ranges M fuel root v = Some (r, n) ->
  sem_lua_run (gen_lua M) fuel' b = LOk (r, n) /\ n = length b.
Proof.
  intros Hroot Hfrag Hlay Hrng.
  unfold fixed_flat in Hfrag. rewrite Hroot in Hfrag.
  unfold ranges, ranges_with in Hrng. fold no_cs in Hrng. rewrite Hlay in Hrng.
  destruct fuel as [| fuel0]; [discriminate Hlay |].
  unfold layout in Hlay. cbn [lay_packet] in Hlay. cbn [rng_packet] in Hrng.
  unfold lay_packet_body in Hlay. unfold rng_packet_body in Hrng.
  destruct v as [x | s | l | vs | q pv]; try discriminate Hlay.
  destruct (fixed_fields M root (map fst (lp_fields (gen_lua M)))
                         (call_fn (gen_lua M) b fuel' (length (lp_funs (gen_lua M))))
                         (lay_packet no_cs M fuel0) (rng_packet no_cs M fuel0)
                         b (p_fields root) vs [] None b [] loop_budget [] [] Hfrag Hlay (eq_sym (app_nil_r b)))
    as [more [r' [Hb [Hr Hexec]]]].
  rewrite Hr in Hrng. injection Hrng as Hr' Hn. subst r' n.
  split; [| reflexivity].
  unfold sem_lua_run.
  assert (Hmain : lp_main (gen_lua M) = packet_stmts M "tree" root).
  { unfold gen_lua, gen_lua_opt. unfold root_packet in Hroot.
    destruct (m_root M) as [rn |]; [| discriminate Hroot].
    rewrite Hroot. reflexivity. }
  rewrite Hmain.
  rewrite (packet_stmts_no_key M root _ Hfrag).
  rewrite <- (app_nil_r (stmts_of M root (p_fields root))).
  change (mkLS [("offset"%string, LvNum 0); ("tree"%string, LvTree)] [] loop_budget None)
    with (mkLS (env0 (@length byte [])) [] loop_budget None).
  rewrite Hexec.
  cbn [exec_list ls_env ls_out].
  rewrite lget_offset_env0.
  rewrite app_nil_r, rev_involutive, Nat2Z.id.
  destruct (Z.ltb_spec (Z.of_nat (length b)) 0) as [Hneg | Hpos]; [lia | reflexivity].
Qed.

(* the theorem is not vacuous: closed under the global context, and an instance *)
Print Assumptions lua_fixed_flat_correct.
