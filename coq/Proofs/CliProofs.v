(* Property C16, "every entry point delivers exactly the library result", for the model Cli/Cli.v.
   Everything is proved for ALL library functions F (FormatPacketDsl), P (ParseFile) and G (the
   generators, with the history of generators already run on the shared model): the wrappers add or
   lose nothing whatever the library computes.  Where the real wrappers violate the property the
   model follows them and a [..._refuted] lemma gives a concrete witness. *)
From Coq Require Import String Ascii List Arith NArith ZArith Bool Lia Permutation.
From FP Require Import Cli.
Import ListNotations.
Open Scope string_scope.

(* ------------------------------------------------------------------ strings, file system *)

Lemma sapp_assoc (a b c : string) : (a ++ b) ++ c = a ++ (b ++ c).
Proof. induction a as [|ch a IHa]; simpl; [reflexivity | rewrite IHa; reflexivity]. Qed.

Lemma sapp_nil_r (a : string) : a ++ "" = a.
Proof. induction a as [|ch a IHa]; simpl; [reflexivity | rewrite IHa; reflexivity]. Qed.

Lemma sapp_inj_l (d a b : string) : d ++ a = d ++ b -> a = b.
Proof.
  induction d as [|ch d IHd]; simpl; intros Heq; [exact Heq|].
  injection Heq as Heq. apply IHd. exact Heq.
Qed.

Lemma is_empty_false (s : string) : s <> "" -> is_empty s = false.
Proof. destruct s as [|c s]; [congruence | reflexivity]. Qed.

Lemma fs_read_write_eq (p c : string) (f : fs) : fs_read p (fs_write p c f) = Some c.
Proof. unfold fs_write; simpl. rewrite String.eqb_refl. reflexivity. Qed.

Lemma fs_read_write_neq (p q c : string) (f : fs) : q <> p -> fs_read q (fs_write p c f) = fs_read q f.
Proof.
  intros Hne. unfold fs_write; simpl.
  destruct (String.eqb q p) eqn:He; [apply String.eqb_eq in He; congruence | reflexivity].
Qed.

Lemma fs_read_app (q : string) (a b : fs) :
  fs_read q (a ++ b)%list = match fs_read q a with Some c => Some c | None => fs_read q b end.
Proof.
  induction a as [|[k v] a IHa]; simpl; [reflexivity|].
  destruct (String.eqb q k); [reflexivity | exact IHa].
Qed.

Lemma fs_read_not_in (q : string) (a : fs) : ~ In q (map fst a) -> fs_read q a = None.
Proof.
  induction a as [|[k v] a IHa]; simpl; intros Hni; [reflexivity|].
  destruct (String.eqb q k) eqn:He.
  - apply String.eqb_eq in He. exfalso. apply Hni. left. symmetry. exact He.
  - apply IHa. intros Hin. apply Hni. right. exact Hin.
Qed.

Lemma fs_read_in_nodup (q c : string) (a : fs) :
  NoDup (map fst a) -> In (q, c) a -> fs_read q a = Some c.
Proof.
  induction a as [|[k v] a IHa]; simpl; intros Hnd Hin; [contradiction|].
  inversion Hnd as [|k' l' Hnotin Hnd']; subst.
  destruct Hin as [Heq | Hin].
  - injection Heq as Hk Hv. subst. rewrite String.eqb_refl. reflexivity.
  - destruct (String.eqb q k) eqn:He.
    + apply String.eqb_eq in He. subst. exfalso. apply Hnotin.
      change k with (fst (k, c)). apply in_map. exact Hin.
    + apply IHa; assumption.
Qed.

(* ------------------------------------------------------------------ root.go *)

(* the only shapes cobra ever sees *)
Lemma rewrite_args_shape (args : list string) :
  rewrite_args args = ["--help"] \/
  exists rest, rewrite_args args = "compile" :: rest \/ rewrite_args args = "format" :: rest.
Proof.
  destruct args as [|a rest]; [left; reflexivity|]. right. unfold rewrite_args.
  destruct (is_subcommand a) eqn:Hs.
  - unfold is_subcommand in Hs. apply orb_true_iff in Hs. destruct Hs as [Hs | Hs];
      apply String.eqb_eq in Hs; subst; exists rest; [left | right]; reflexivity.
  - exists (a :: rest). left. reflexivity.
Qed.

Lemma rewrite_args_inserts_compile (a : string) (rest : list string) :
  a <> "compile" -> a <> "format" -> rewrite_args (a :: rest) = "compile" :: a :: rest.
Proof.
  intros Hc Hf. unfold rewrite_args, is_subcommand.
  apply String.eqb_neq in Hc. apply String.eqb_neq in Hf. rewrite Hc, Hf. reflexivity.
Qed.

(* ------------------------------------------------------------------ written paths *)

Definition out_path (dir : string) (e : string * string) : string * string :=
  (dir ++ "/" ++ fst e, snd e).

Fixpoint gen_lines (ws : list (string * string)) : string :=
  match ws with
  | [] => ""
  | e :: r => "Generated code for packet: " ++ fst e ++ nl ++ gen_lines r
  end.

Lemma gen_lines_app (a b : list (string * string)) : gen_lines (a ++ b)%list = gen_lines a ++ gen_lines b.
Proof.
  induction a as [|e a IHa]; [reflexivity|].
  change (gen_lines ((e :: a) ++ b)%list) with ("Generated code for packet: " ++ fst e ++ nl ++ gen_lines (a ++ b)%list).
  change (gen_lines (e :: a)) with ("Generated code for packet: " ++ fst e ++ nl ++ gen_lines a).
  rewrite IHa. rewrite !sapp_assoc. reflexivity.
Qed.

Lemma write_code_spec (dir : string) (l : list (string * string)) (w : world) :
  write_code dir l w =
  mkWorld (rev (map (out_path dir) l) ++ files w)%list (stdout w ++ gen_lines (map (out_path dir) l)) (exit w).
Proof.
  revert w. induction l as [|[name data] l IHl]; intros w.
  - simpl. rewrite sapp_nil_r. destruct w; reflexivity.
  - change (write_code dir ((name, data) :: l) w)
      with (write_code dir l (println ("Generated code for packet: " ++ (dir ++ "/" ++ name))
                                      (write (dir ++ "/" ++ name) data w))).
    rewrite IHl.
    change (map (out_path dir) ((name, data) :: l)) with ((dir ++ "/" ++ name, data) :: map (out_path dir) l).
    change (gen_lines ((dir ++ "/" ++ name, data) :: map (out_path dir) l))
      with ("Generated code for packet: " ++ (dir ++ "/" ++ name) ++ nl ++ gen_lines (map (out_path dir) l)).
    unfold println, print, write, fs_write. cbn [files stdout exit rev].
    rewrite <- app_assoc. cbn [app]. rewrite !sapp_assoc. reflexivity.
Qed.

Section Proofs.
  Variable F : string -> string * option string.
  Variable P : string -> parse_result.
  Variable G : list lang -> lang -> string -> gen_result.

  Notation exec := (exec F P G).

  (* ================================================================ (a) format -d *)

  Theorem format_d_ok (f : fs) (x r : string) :
    x <> "" -> F x = (r, None) ->
    exec ["format"; "-d"; x] f = Some (mkWorld f (r ++ nl) 0) /\
    exec ["format"; "--dsl"; x] f = Some (mkWorld f (r ++ nl) 0) /\
    exec ["format"; "--dsl=" ++ x] f = Some (mkWorld f (r ++ nl) 0).
  Proof.
    intros Hne HF. destruct x as [|c x]; [congruence|].
    repeat split; cbn; unfold format_input; rewrite HF; reflexivity.
  Qed.

  Theorem format_d_error (f : fs) (x r e : string) :
    x <> "" -> F x = (r, Some e) ->
    exec ["format"; "-d"; x] f = Some (mkWorld f ("Error formatting DSL: " ++ e ++ nl) 1) /\
    exec ["format"; "--dsl"; x] f = Some (mkWorld f ("Error formatting DSL: " ++ e ++ nl) 1) /\
    exec ["format"; "--dsl=" ++ x] f = Some (mkWorld f ("Error formatting DSL: " ++ e ++ nl) 1).
  Proof.
    intros Hne HF. destruct x as [|c x]; [congruence|].
    repeat split; cbn; unfold format_input; rewrite HF; reflexivity.
  Qed.

  (* ================================================================ (b) format -f *)

  Theorem format_f_ok (f : fs) (p old r : string) :
    p <> "" -> fs_read p f = Some old -> F old = (r, None) ->
    exec ["format"; "-f"; p] f = Some (mkWorld (fs_write p r f) "" 0) /\
    exec ["format"; "--file"; p] f = Some (mkWorld (fs_write p r f) "" 0) /\
    exec ["format"; "--file=" ++ p] f = Some (mkWorld (fs_write p r f) "" 0).
  Proof.
    intros Hne Hrd HF. destruct p as [|c p]; [congruence|].
    repeat split; cbn; cbn in Hrd; rewrite Hrd; unfold format_input; rewrite HF; reflexivity.
  Qed.

  (* what that world means: the file holds exactly the formatter's text, every other path is untouched *)
  Corollary format_f_ok_files (f : fs) (p old r : string) (w : world) :
    p <> "" -> fs_read p f = Some old -> F old = (r, None) ->
    exec ["format"; "-f"; p] f = Some w ->
    fs_read p (files w) = Some (fst (F old)) /\
    (forall q, q <> p -> fs_read q (files w) = fs_read q f) /\ stdout w = "" /\ exit w = 0.
  Proof.
    intros Hne Hrd HF Hex.
    destruct (format_f_ok f p old r Hne Hrd HF) as [H1 _]. rewrite H1 in Hex. injection Hex as Hw. subst w.
    simpl. rewrite HF. simpl. split; [apply fs_read_write_eq|].
    split; [|split; reflexivity]. intros q Hq. apply fs_read_write_neq. exact Hq.
  Qed.

  Theorem format_f_error (f : fs) (p old r e : string) :
    p <> "" -> fs_read p f = Some old -> F old = (r, Some e) ->
    exec ["format"; "-f"; p] f = Some (mkWorld f ("Error formatting DSL: " ++ e ++ nl) 1) /\
    exec ["format"; "--file"; p] f = Some (mkWorld f ("Error formatting DSL: " ++ e ++ nl) 1) /\
    exec ["format"; "--file=" ++ p] f = Some (mkWorld f ("Error formatting DSL: " ++ e ++ nl) 1).
  Proof.
    intros Hne Hrd HF. destruct p as [|c p]; [congruence|].
    repeat split; cbn; cbn in Hrd; rewrite Hrd; unfold format_input; rewrite HF; reflexivity.
  Qed.

  (* -d wins over -f for the INPUT, but -f still names the OUTPUT: the file is overwritten with the
     formatted -d text (and created when it does not exist), nothing is printed *)
  Theorem format_d_and_f (f : fs) (x p r : string) :
    x <> "" -> p <> "" -> F x = (r, None) ->
    exec ["format"; "-d"; x; "-f"; p] f = Some (mkWorld (fs_write p r f) "" 0).
  Proof.
    intros Hx Hp HF. destruct x as [|c x]; [congruence|]. destruct p as [|c' p]; [congruence|].
    cbn. unfold format_input. rewrite HF. reflexivity.
  Qed.

  (* ================================================================ (c) the exported C function *)

  Theorem lib_format_ok (x r : string) :
    F (cstr x) = (r, None) -> lib_format F x = cstr r.
  Proof. intros HF. unfold lib_format. rewrite HF. reflexivity. Qed.

  Theorem lib_format_error (x r e : string) :
    F (cstr x) = (r, Some e) -> lib_format F x = "Error:" ++ cstr e.
  Proof. intros HF. unfold lib_format. rewrite HF. reflexivity. Qed.

  Fixpoint no_nul (s : string) : bool :=
    match s with EmptyString => true | String c r => negb (Ascii.eqb c zero) && no_nul r end.

  Lemma cstr_no_nul (s : string) : no_nul s = true -> cstr s = s.
  Proof.
    induction s as [|c s IHs]; simpl; intros Hn; [reflexivity|].
    apply andb_true_iff in Hn. destruct Hn as [Hc Hs]. apply negb_true_iff in Hc. rewrite Hc.
    rewrite IHs; [reflexivity | exact Hs].
  Qed.

  (* for genuine C strings (no NUL inside) the function returns exactly the formatter's text *)
  Corollary lib_format_exact (x r : string) :
    no_nul x = true -> F x = (r, None) -> no_nul r = true -> lib_format F x = fst (F x).
  Proof.
    intros Hx HF Hr. rewrite HF. simpl.
    rewrite (lib_format_ok x r); [apply cstr_no_nul; exact Hr|].
    rewrite (cstr_no_nul x Hx). exact HF.
  Qed.

  (* ================================================================ (d) compile *)

  Definition short_opt (l : lang) : string :=
    match l with Lua => "-l" | Rust => "-r" | Go => "-g" | Java => "-j" | Python => "-p" | Cpp => "-c" end.

  (* "<output flags>": any sequence of (language, directory) pairs; a language may occur several times *)
  Definition out_args (sel : list (lang * string)) : list string :=
    flat_map (fun e => [short_opt (fst e); snd e]) sel.

  Definition compile_args (p : string) (sel : list (lang * string)) : list string :=
    "-f" :: p :: out_args sel.

  (* the directory requested for a language: its last occurrence on the command line *)
  Definition dirs_of (sel : list (lang * string)) : lang -> string := fun l => out_lookup l (rev sel).

  Lemma parse_out_args (sel : list (lang * string)) :
    forall (fuel : nat) (o : opts),
      2 * length sel < fuel ->
      parse_args fuel CCompile (out_args sel) o =
      Ok (mkOpts (o_file o) (o_dsl o) (rev sel ++ o_outs o)%list (o_help o) (o_pos o)).
  Proof.
    induction sel as [|[l d] sel IHsel]; intros fuel o Hfuel.
    - destruct fuel as [|fuel]; [lia|]. destruct o; reflexivity.
    - destruct fuel as [|fuel]; [simpl in Hfuel; lia|].
      assert (Hf : 2 * length sel < fuel) by (simpl in Hfuel; lia).
      change (out_args ((l, d) :: sel)) with (short_opt l :: d :: out_args sel).
      destruct l; cbn -[parse_args out_args]; cbn [parse_args];
        cbn -[parse_args out_args]; rewrite (IHsel fuel _ Hf); cbn;
        rewrite <- app_assoc; reflexivity.
  Qed.

  Lemma parse_compile_args (p : string) (sel : list (lang * string)) :
    parse_flags CCompile (compile_args p sel) = Ok (mkOpts p "" (rev sel) false []).
  Proof.
    unfold parse_flags, compile_args.
    change (parse_args (S (length ("-f" :: p :: out_args sel))) CCompile ("-f" :: p :: out_args sel) opts0)
      with (parse_args (S (S (length (out_args sel)))) CCompile (out_args sel) (mkOpts p "" [] false [])).
    rewrite parse_out_args.
    - simpl. rewrite app_nil_r. reflexivity.
    - unfold out_args. clear. induction sel as [|e sel IHsel]; simpl; lia.
  Qed.

  (* The file set the generators deliver for a request: for each requested language, in compile.go's
     generator order, the generator's file map with "dir/" put in front of every name; the history
     handed to G is the list of generators that already ran.  None: some generator failed. *)
  Fixpoint plan (x : string) (hist todo : list lang) (dirs : lang -> string) : option (list (string * string)) :=
    match todo with
    | [] => Some []
    | L :: r =>
        if is_empty (dirs L) then plan x hist r dirs else
        match G hist L x with
        | GFiles l => match plan x (hist ++ [L])%list r dirs with
                      | Some ws => Some (map (out_path (dirs L)) l ++ ws)%list
                      | None => None
                      end
        | _ => None
        end
    end.

  Lemma run_gens_plan (x : string) (dirs : lang -> string) (todo : list lang) :
    forall (hist : list lang) (w : world) (ws : list (string * string)),
      plan x hist todo dirs = Some ws ->
      run_gens G x hist todo dirs w =
      (mkWorld (rev ws ++ files w)%list (stdout w ++ gen_lines ws) (exit w), CDone).
  Proof.
    induction todo as [|L todo IHtodo]; intros hist w ws Hplan; simpl in Hplan.
    - injection Hplan as Hws. subst ws. simpl. rewrite sapp_nil_r. destruct w; reflexivity.
    - simpl. destruct (is_empty (dirs L)) eqn:Hd; [apply IHtodo; exact Hplan|].
      destruct (G hist L x) as [l|e|] eqn:HG; try discriminate.
      destruct (plan x (hist ++ [L])%list todo dirs) as [ws'|] eqn:Hrest; [|discriminate].
      injection Hplan as Hws. subst ws.
      rewrite (IHtodo _ _ ws' Hrest). rewrite write_code_spec. simpl.
      rewrite rev_app_distr, <- app_assoc, gen_lines_app, sapp_assoc. reflexivity.
  Qed.

  (* SUCCESS: with or without the word "compile", the final file system is the old one with exactly the
     planned writes applied in order (fs_write conses: [rev ws ++ f]); the exit status is 0; standard
     output is ParseFile's own output followed by one line per written file. *)
  Theorem compile_ok (f : fs) (p x noise : string) (sel : list (lang * string)) (ws : list (string * string)) :
    fs_read p f = Some x -> P x = PModel noise [] ->
    plan x [] gen_order (dirs_of sel) = Some ws ->
    exec ("compile" :: compile_args p sel) f = Some (mkWorld (rev ws ++ f)%list (noise ++ gen_lines ws) 0) /\
    exec (compile_args p sel) f = Some (mkWorld (rev ws ++ f)%list (noise ++ gen_lines ws) 0).
  Proof.
    intros Hrd HP Hplan.
    assert (Hgo : dispatch F P G ("compile" :: compile_args p sel) (mkWorld f "" 0)
                  = Some (mkWorld (rev ws ++ f)%list (noise ++ gen_lines ws) 0)).
    { unfold dispatch. cbn [String.eqb Ascii.eqb Bool.eqb]. unfold run_cmd. rewrite parse_compile_args.
      cbn [o_help]. unfold run_compile, compile. cbn [o_file files]. rewrite Hrd, HP.
      change (out_dir (mkOpts p "" (rev sel) false [])) with (dirs_of sel).
      rewrite (run_gens_plan x (dirs_of sel) gen_order [] _ ws Hplan). reflexivity. }
    split; unfold Cli.exec; [exact Hgo|].
    unfold compile_args at 1. rewrite rewrite_args_inserts_compile; [exact Hgo | discriminate | discriminate].
  Qed.

  (* "under the requested directories and nowhere else", "later writes win" *)
  Corollary compile_ok_elsewhere (f : fs) (ws : list (string * string)) (q : string) :
    ~ In q (map fst ws) -> fs_read q (rev ws ++ f)%list = fs_read q f.
  Proof.
    intros Hni. rewrite fs_read_app. rewrite fs_read_not_in; [reflexivity|].
    rewrite map_rev. intros Hin. apply Hni. apply in_rev. exact Hin.
  Qed.

  Corollary compile_ok_last_write (f : fs) (ws1 ws2 : list (string * string)) (q c : string) :
    ~ In q (map fst ws2) -> fs_read q (rev (ws1 ++ (q, c) :: ws2) ++ f)%list = Some c.
  Proof.
    intros Hni. rewrite rev_app_distr. simpl. rewrite <- !app_assoc. rewrite fs_read_app.
    rewrite fs_read_not_in; [|rewrite map_rev; intros Hin; apply Hni; apply in_rev; exact Hin].
    simpl. rewrite String.eqb_refl. reflexivity.
  Qed.

  (* The order in which WriteCodeToFile ranges over one generator's map does not matter for the files
     (map keys are distinct): any permutation of the map gives the same content at every path. *)
  Lemma out_path_keys_nodup (dir : string) (l : list (string * string)) :
    NoDup (map fst l) -> NoDup (map fst (map (out_path dir) l)).
  Proof.
    induction l as [|[n c] l IHl]; simpl; intros Hnd; [constructor|].
    inversion Hnd as [|n' l' Hnotin Hnd']; subst. constructor; [|apply IHl; exact Hnd'].
    intros Hin. apply Hnotin. rewrite map_map in Hin. apply in_map_iff in Hin.
    destruct Hin as [[n2 c2] [Heq Hin2]]. simpl in Heq. apply sapp_inj_l in Heq.
    simpl in Heq. injection Heq as Heq. subst n2.
    change n with (fst (n, c2)). apply in_map. exact Hin2.
  Qed.

  Theorem write_code_order_irrelevant (dir : string) (l l' : list (string * string)) (w : world) (q : string) :
    NoDup (map fst l) -> Permutation l l' ->
    fs_read q (files (write_code dir l w)) = fs_read q (files (write_code dir l' w)).
  Proof.
    intros Hnd Hperm. rewrite !write_code_spec. simpl. rewrite !fs_read_app.
    assert (Hnd1 : NoDup (map fst (rev (map (out_path dir) l)))).
    { rewrite map_rev. apply NoDup_rev. apply out_path_keys_nodup. exact Hnd. }
    assert (Hperm' : Permutation (rev (map (out_path dir) l)) (rev (map (out_path dir) l'))).
    { apply Permutation_trans with (map (out_path dir) l); [apply Permutation_sym, Permutation_rev|].
      apply Permutation_trans with (map (out_path dir) l'); [apply Permutation_map; exact Hperm | apply Permutation_rev]. }
    assert (Hnd2 : NoDup (map fst (rev (map (out_path dir) l')))).
    { apply Permutation_NoDup with (map fst (rev (map (out_path dir) l))); [apply Permutation_map; exact Hperm' | exact Hnd1]. }
    destruct (fs_read q (rev (map (out_path dir) l))) as [c|] eqn:H1.
    - assert (Hin : In (q, c) (rev (map (out_path dir) l))).
      { clear - H1. induction (rev (map (out_path dir) l)) as [|[k v] a IHa]; simpl in H1; [discriminate|].
        destruct (String.eqb q k) eqn:He.
        - apply String.eqb_eq in He. injection H1 as H1. subst. left. reflexivity.
        - right. apply IHa. exact H1. }
      rewrite (fs_read_in_nodup q c _ Hnd2 (Permutation_in _ Hperm' Hin)). reflexivity.
    - destruct (fs_read q (rev (map (out_path dir) l'))) as [c|] eqn:H2; [|reflexivity].
      assert (Hin : In (q, c) (rev (map (out_path dir) l'))).
      { clear - H2. induction (rev (map (out_path dir) l')) as [|[k v] a IHa]; simpl in H2; [discriminate|].
        destruct (String.eqb q k) eqn:He.
        - apply String.eqb_eq in He. injection H2 as H2. subst. left. reflexivity.
        - right. apply IHa. exact H2. }
      rewrite (fs_read_in_nodup q c _ Hnd1 (Permutation_in _ (Permutation_sym Hperm') Hin)) in H1. discriminate.
  Qed.

  (* FAILURE: a syntax error, or diagnostics of the visitor: exit status 1, no file is touched *)
  Theorem compile_syntax_error (f : fs) (p x msg : string) (sel : list (lang * string)) :
    fs_read p f = Some x -> P x = PSyntax msg ->
    exec ("compile" :: compile_args p sel) f = Some (mkWorld f ("failed to parse file: " ++ msg ++ nl) 1) /\
    exec (compile_args p sel) f = Some (mkWorld f ("failed to parse file: " ++ msg ++ nl) 1).
  Proof.
    intros Hrd HP.
    assert (Hgo : dispatch F P G ("compile" :: compile_args p sel) (mkWorld f "" 0)
                  = Some (mkWorld f ("failed to parse file: " ++ msg ++ nl) 1)).
    { unfold dispatch. cbn [String.eqb Ascii.eqb Bool.eqb]. unfold run_cmd. rewrite parse_compile_args.
      cbn [o_help]. unfold run_compile, compile. cbn [o_file files]. rewrite Hrd, HP. reflexivity. }
    split; unfold Cli.exec; [exact Hgo|].
    unfold compile_args at 1. rewrite rewrite_args_inserts_compile; [exact Hgo | discriminate | discriminate].
  Qed.

  Theorem compile_diagnostics (f : fs) (p x noise : string) (d : Z * Z * string) (ds : list (Z * Z * string))
          (sel : list (lang * string)) :
    fs_read p f = Some x -> P x = PModel noise (d :: ds) ->
    let out := noise ++ String.concat "" (map diag_line (d :: ds))
               ++ "found " ++ show_nat (length (d :: ds)) ++ " syntax errors" ++ nl in
    exec ("compile" :: compile_args p sel) f = Some (mkWorld f out 1) /\
    exec (compile_args p sel) f = Some (mkWorld f out 1).
  Proof.
    intros Hrd HP out.
    assert (Hgo : dispatch F P G ("compile" :: compile_args p sel) (mkWorld f "" 0) = Some (mkWorld f out 1)).
    { unfold dispatch. cbn [String.eqb Ascii.eqb Bool.eqb]. unfold run_cmd. rewrite parse_compile_args.
      cbn [o_help]. unfold run_compile, compile. cbn [o_file files]. rewrite Hrd, HP.
      unfold fail, println, print, exit_with. cbn [files stdout exit]. unfold out.
      cbn [append]. rewrite !sapp_assoc. reflexivity. }
    split; unfold Cli.exec; [exact Hgo|].
    unfold compile_args at 1. rewrite rewrite_args_inserts_compile; [exact Hgo | discriminate | discriminate].
  Qed.

  (* ================================================================ root.go's rewriting, as it is *)

  (* "help" and "completion" are not yet commands when isSubcommand looks: they are compiled *)
  Theorem help_is_rewritten (f : fs) :
    fs_read "" f = None ->
    exec ["help"] f =
    Some (mkWorld f ("failed to parse file: could not read file: open : no such file or directory" ++ nl) 1).
  Proof. intros Hrd. cbn -[fs_read]. unfold run_compile, compile. cbn -[fs_read]. rewrite Hrd. reflexivity. Qed.

  Theorem completion_is_rewritten (f : fs) :
    fs_read "" f = None ->
    exec ["completion"; "bash"] f =
    Some (mkWorld f ("failed to parse file: could not read file: open : no such file or directory" ++ nl) 1).
  Proof. intros Hrd. cbn -[fs_read]. unfold run_compile, compile. cbn -[fs_read]. rewrite Hrd. reflexivity. Qed.

  Theorem top_level_help_flag_is_compile_help (f : fs) :
    exec ["--help"] f = Some (mkWorld f help_compile 0) /\ exec ["-h"] f = Some (mkWorld f help_compile 0) /\
    exec [] f = Some (mkWorld f help_root 0).
  Proof. repeat split. Qed.

  (* the empty DSL text cannot be given with -d *)
  Theorem format_d_empty (f : fs) :
    exec ["format"; "-d"; ""] f = Some (mkWorld f ("Please provide a DSL string or a file path" ++ nl) 1).
  Proof. reflexivity. Qed.
End Proofs.

(* ------------------------------------------------------------------ refutations (concrete witnesses) *)

Definition F_w (x : string) : string * option string := ("F(" ++ x ++ ")", None).
Definition P_w (x : string) : parse_result := PModel ("Options: map[]" ++ nl) [].
Definition G_w (h : list lang) (l : lang) (x : string) : gen_result :=
  match l with Python => GPanic | _ => GFiles [(lang_name l ++ ".out", "code")] end.
Definition fs_w : fs := [("in.dsl", "old")].

(* C16 (a)/(b), full strength: "format -d X" leaves every file alone.  False as soon as -f is also given:
   the file named by -f is overwritten with the formatted X. *)
Lemma format_d_leaves_files_alone_refuted :
  ~ (forall F P G (f : fs) (x p : string) (w : world),
        x <> "" -> exec F P G ["format"; "-d"; x; "-f"; p] f = Some w -> files w = f).
Proof.
  intros H. specialize (H F_w P_w G_w fs_w "X" "in.dsl" (mkWorld [("in.dsl", "F(X)"); ("in.dsl", "old")] "" 0)).
  assert (Hx : "X" <> "") by discriminate. specialize (H Hx eq_refl). discriminate H.
Qed.

(* ... nor does "format -f p" always leave in p the formatted text of p's old content *)
Lemma format_f_formats_the_file_refuted :
  ~ (forall F P G (f : fs) (x p old : string) (w : world),
        fs_read p f = Some old -> exec F P G ["format"; "-d"; x; "-f"; p] f = Some w ->
        fs_read p (files w) = Some (fst (F old))).
Proof.
  intros H. specialize (H F_w P_w G_w fs_w "X" "in.dsl" "old" (mkWorld [("in.dsl", "F(X)"); ("in.dsl", "old")] "" 0) eq_refl eq_refl).
  discriminate H.
Qed.

(* C16 (a), full strength, includes the empty text: "format -d ''" should print F "" *)
Lemma format_d_empty_refuted :
  ~ (forall F P G (f : fs) (x : string) (w : world),
        exec F P G ["format"; "-d"; x] f = Some w -> snd (F x) = None -> stdout w = fst (F x) ++ nl /\ exit w = 0).
Proof.
  intros H. specialize (H F_w P_w G_w fs_w "" _ eq_refl eq_refl). destruct H as [H _]. discriminate H.
Qed.

(* C16 (c), full strength: "returns exactly that text" fails for a buffer with an inner NUL byte *)
Lemma lib_format_exact_refuted :
  ~ (forall F (x : string), snd (F x) = None -> lib_format F x = fst (F x)).
Proof.
  intros H. specialize (H F_w ("a" ++ String zero "b") eq_refl). discriminate H.
Qed.

(* the root command's own subcommands are unreachable: "fin-protoc help" is not the help *)
Lemma help_prints_help_refuted :
  ~ (forall F P G (f : fs), exec F P G ["help"] f = Some (mkWorld f help_root 0)).
Proof. intros H. specialize (H F_w P_w G_w fs_w). discriminate H. Qed.

Lemma top_level_help_is_root_help_refuted :
  ~ (forall F P G (f : fs), exec F P G ["--help"] f = Some (mkWorld f help_root 0)).
Proof. intros H. specialize (H F_w P_w G_w fs_w). discriminate H. Qed.

(* standard output of a successful compile is NOT just the report of the generated files: ParseFile's
   visitor prints "Options: map[...]" first (in the real code always; here P_w) *)
Lemma compile_stdout_only_reports_files_refuted :
  ~ (forall F P G (f : fs) (p x noise : string) (sel : list (lang * string)) (ws : list (string * string)) (w : world),
        fs_read p f = Some x -> P x = PModel noise [] -> plan G x [] gen_order (dirs_of sel) = Some ws ->
        exec F P G (compile_args p sel) f = Some w -> stdout w = gen_lines ws).
Proof.
  intros H.
  specialize (H F_w P_w G_w fs_w "in.dsl" "old" _ [(Lua, "o")] _ _ eq_refl eq_refl eq_refl eq_refl).
  discriminate H.
Qed.

(* a generator that panics after others have written: exit status 2 and the earlier files stay *)
Lemma compile_all_or_nothing_refuted :
  ~ (forall F P G (f : fs) (args : list string) (w : world),
        exec F P G args f = Some w -> exit w <> 0 -> files w = f).
Proof.
  intros H.
  specialize (H F_w P_w G_w fs_w ["-f"; "in.dsl"; "-r"; "o"; "-p"; "o"] _ eq_refl).
  simpl in H. assert (Hne : 2 <> 0) by discriminate. specialize (H Hne). discriminate H.
Qed.
