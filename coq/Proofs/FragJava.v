(* Java: on the fragment java_frag_enc / java_frag_dec (Gen/Frag.v) the generator model's
   output is accepted by the validator - for ALL models. *)
From FP Require Import Validate Frag BytesLemmas Paths RefEnc RefDec Validated FragCommon.
From Coq Require Import Lia.
Open Scope nat_scope.
Open Scope list_scope.

Ltac cond1 H := apply conds_ok_cons in H; destruct H as [H _].
Ltac cond2 H H1 := apply conds_ok_cons in H; destruct H as [H1 H].
Ltac get_num Hc w Hw := cond1 Hc; apply numeric_inv in Hc; destruct Hc as [w Hw].
Ltac get_obj Hc :=
  cond1 Hc; unfold obj_ok, ref_obj_path in *;
  match goal with |- context [obj_path ?pa ?f] => destruct (obj_path pa f) as [ty|] eqn:Eobj; [|discriminate] end.

Lemma onat_eqb_some a i : onat_eqb a (Some i) = true -> a = Some i.
Proof. destruct a as [x|]; cbn [onat_eqb]; [|discriminate]. intros H. apply Nat.eqb_eq in H. subst. reflexivity. Qed.

Lemma onat_eqb_inv a b : onat_eqb a b = true -> exists k, a = Some k /\ b = Some k.
Proof.
  destruct a as [x|], b as [y|]; cbn [onat_eqb]; try discriminate.
  intros H. apply Nat.eqb_eq in H. subst. exists y. split; reflexivity.
Qed.

Lemma number_nth {A} (l : list A) : forall k i x, In (i, x) (FP.Common.number k l) -> nth_error l (i - k) = Some x.
Proof.
  induction l as [|y l IH]; cbn [FP.Common.number]; intros k i x Hin; [destruct Hin|].
  destruct Hin as [E|Hin].
  - inversion E; subst. rewrite Nat.sub_diag. reflexivity.
  - pose proof (number_in _ _ _ _ Hin) as [Hr _]. specialize (IH _ _ _ Hin).
    replace (i - k) with (S (i - S k)) by lia. exact IH.
Qed.

Section JavaNames.
  Variable M : bmodel.
  Hypothesis Hnames : java_names_ok M = true.

  Lemma java_camels :
    camel M "byte" = "Byte"%string /\ camel M "short" = "Short"%string /\ camel M "int" = "Int"%string /\
    camel M "long" = "Long"%string /\ camel M "float" = "Float"%string /\ camel M "double" = "Double"%string.
  Proof.
    pose proof Hnames as Hn. unfold java_names_ok in Hn. cbn [forallb fst snd] in Hn.
    repeat (apply andb_prop in Hn; destruct Hn as [?H Hn]).
    repeat match goal with H : String.eqb _ _ = true |- _ => apply String.eqb_eq in H end.
    repeat split; assumption.
  Qed.

  (* the Netty method named for a numeric type: its width, a byte order equivalent to the configured one,
     and a cast of the same width *)
  Lemma java_netty x w : ty_width x = Some w ->
    exists l, netty (meth M (java_type x)) = (w, l) /\ order_eqb w l (le_of M) = true /\
              prim_w (j_basic (java_type x)) = w.
  Proof.
    intros H. destruct java_camels as [C1 [C2 [C3 [C4 [C5 C6]]]]].
    pose proof (ty_width_cases x w H) as Hc. cbn [In] in Hc.
    repeat (destruct Hc as [Hc|Hc];
      [subst x; cbn in H; inversion H; try subst w; unfold meth; cbn [java_type str_in existsb String.eqb Ascii.eqb Bool.eqb orb j_le j_basic];
       destruct (le_of M); rewrite ?C1, ?C2, ?C3, ?C4, ?C5, ?C6; eexists; (split; [reflexivity|split; [reflexivity|reflexivity]])|]).
    destruct Hc.
  Qed.

  (* a scalar field, numeric or 'char' (javaBasicTypeMap["char"] = byte) *)
  Lemma java_scalar n t : scalar_or_char t = true ->
    exists w l, (forall la rp, netty (meth M (field_jtype (mkField n (ABasic t) la rp))) = (w, l)) /\
                order_eqb w l (le_of M) = true /\ scalar_width (get_basic_type t) = Some w.
  Proof.
    intros H. apply orb_prop in H. destruct H as [H|H].
    - apply numeric_inv in H. destruct H as [w Hw].
      destruct (java_netty _ _ Hw) as [l [En [Eo _]]]. exists w, l.
      split; [intros la rp; unfold field_jtype; rewrite (fgt_basic _ _ _ _ _ Hw); exact En|]. split; [exact Eo|].
      apply scalar_width_numeric. exact Hw.
    - apply String.eqb_eq in H. subst t. destruct java_camels as [C1 _].
      exists 1, false. split; [|split; [unfold order_eqb; apply orb_true_r|reflexivity]]. intros la rp. unfold field_jtype.
      change (field_get_type (mkField n (ABasic "char") la rp)) with (Some "char"%string). cbv iota.
      unfold meth. cbn [java_type str_in existsb String.eqb Ascii.eqb Bool.eqb orb j_le j_basic].
      destruct (le_of M); rewrite ?C1; reflexivity.
  Qed.
End JavaNames.

Section JavaPacket.
  Variable M : bmodel.
  Hypothesis Hnames : java_names_ok M = true.
  Variable mk : string -> packet -> nat.
  Variable path : string.
  Variable p : packet.
  Hypothesis Hmk : mk path p = java_pkt_mark M p.
  Let n := length (p_fields p).

  Lemma java_lc_index_lt t : is_some (index_where (fun n' => String.eqb (lcamel M n') (lcamel M t)) (p_fields p) 0) = true ->
    FP.Java.lc_index M p t < n.
  Proof.
    unfold FP.Java.lc_index. destruct (index_where _ (p_fields p) 0) as [i|] eqn:E; [|discriminate].
    intros _. apply index_where_lt in E. unfold n. lia.
  Qed.

  Lemma java_enc_field_ok i f :
    i < n -> nth_error (p_fields p) i = Some f ->
    conds_ok (java_enc_conds M path p i f) = true ->
    steps_ok n (java_enc_step M path p i f) (ref_enc_field M mk path p i f) = true.
  Proof.
    intros Hi Hnth H. unfold java_enc_conds in H.
    destruct f as [fn a la rp].
    unfold java_enc_step, ref_enc_field. cbn [f_rep f_attr f_len f_name] in *.
    destruct rp.
    - (* repeated *)
      apply conds_ok_app in H. destruct H as [H Ha].
      cond2 H H1. cond2 H H2. cond2 H H3. cond1 H.
      apply onat_eqb_some in H3. apply onat_eqb_some in H.
      destruct (ty_width (c_list (m_cfg M))) as [lw|] eqn:Elw; [|discriminate H2].
      destruct (java_netty M Hnames _ _ Elw) as [ll [Enl [Eol _]]].
      assert (Hcl : cfg_list_w M = lw) by (unfold cfg_list_w; rewrite Elw; reflexivity). rewrite Hcl.
      unfold java_enc_list. cbv zeta. cbn [f_len f_name]. rewrite Enl. rewrite H3.
      unfold java_enc_simple, ref_elem, java_enc_name in *. cbn [f_attr f_name] in *.
      destruct la; [ |discriminate H1| ].
      all: destruct a as [t|len fp| |tg lt|alg t|iner pn rf inl|k ka pairs|]; try (cond1 Ha; discriminate Ha).
      1, 5: cond1 Ha; destruct (java_scalar M Hnames fn _ Ha) as [w [l [En [Eo Esw]]]]; rewrite En, H, Esw;
        cbn [same_member tag_of opt_w]; rewrite Nat.eqb_refl;
        (apply se_elem; [reflexivity|]); (apply eqv_list_o; [exact Eol|]); apply eqv_int_o; exact Eo.
      1, 4: cond1 Ha; rewrite H; cbn [same_member tag_of]; rewrite Nat.eqb_refl;
        (apply se_elem; [reflexivity|]); (apply eqv_list_o; [exact Eol|]); apply eqv_fixed;
        (apply pad_ok_eqb; [exact norm_java_good|exact Ha]).
      1, 3: cond1 Ha; destruct (ty_width (c_str (m_cfg M))) as [sw|] eqn:Esw; [|discriminate Ha];
        destruct (java_netty M Hnames _ _ Esw) as [l [En [Eo _]]]; rewrite En, H;
        cbn [same_member tag_of]; rewrite Nat.eqb_refl;
        assert (Hcs : cfg_str_w M = sw) by (unfold cfg_str_w; rewrite Esw; reflexivity); rewrite Hcs;
        (apply se_elem; [reflexivity|]); (apply eqv_list_o; [exact Eol|]); apply eqv_str_o; exact Eo.
      all: get_obj Ha; destruct iner; unfold codec_call; rewrite H, Hnth; cbn [f_attr f_rep Bool.eqb]; rewrite Eobj;
        cbn [same_member tag_of]; rewrite Nat.eqb_refl;
        (apply se_elem; [reflexivity|]); (apply eqv_list_o; [exact Eol|]); apply eqv_obj.
    - unfold java_enc_field. cbn [f_len f_attr f_name].
      destruct la.
      2: { cond2 H H1. cond2 H H2. cond2 H H3. cond2 H H4. cond2 H H5. cond1 H. unfold java_enc_target. cbv zeta. cbn [f_name].
        apply onat_eqb_some in H1.
        destruct (p_lenf p) as [ln|]; [|discriminate H].
        rewrite H3. destruct (decl_index M p (lcamel M ln)) as [lj|]; [|discriminate H4].
        apply Nat.eqb_eq in H. rewrite Hmk, <- H.
        unfold len_w_agree, ref_len_w, lenf_w, len_field, width_of_field in *.
        destruct (len_field_index p) as [li|]; [|destruct (len_width p); discriminate H5].
        destruct (nth_error (p_fields p) li) as [lf|]; [|destruct (len_width p); discriminate H5].
        unfold field_jtype.
        destruct (field_get_type lf) as [lt|]; [|destruct (len_width p); discriminate H5].
        destruct (len_width p) as [w'|]; [|discriminate H5].
        destruct (ty_width lt) as [w|] eqn:Ew; [|discriminate H5]. apply Nat.eqb_eq in H5. subst w'. cbn [opt_w].
        destruct (java_netty M Hnames _ _ Ew) as [l [En [Eo Ep]]]. rewrite En, Ep.
        unfold codec_call. rewrite H1, Hnth. cbn [f_attr f_rep tag_of Bool.eqb].
        unfold ref_elem. cbn [f_attr].
        destruct a as [t|len fp| |tg lt'|alg t|iner pn rf inl|k ka pairs|]; try discriminate H2.
        - unfold obj_ok, ref_obj_path in *. destruct (obj_path path _) as [ty|]; [|discriminate H2].
          apply se_target; [exact Hi|exact Hi|apply eqv_obj|exact Eo| |reflexivity].
          rewrite Nat.eqb_refl. reflexivity.
        - apply se_target; [exact Hi|exact Hi|reflexivity|exact Eo| |reflexivity].
          rewrite Nat.eqb_refl. reflexivity. }
      all: destruct a as [t|len fp| |tg lt|alg t|iner pn rf inl|k ka pairs|].
      all: unfold java_enc_simple, ref_elem, java_enc_name in *; cbn [f_attr f_name] in *.
      8, 16: (cond2 H H0; cond1 H; discriminate H).
      (* scalar *)
      1, 8: cond2 H H0; apply onat_eqb_some in H0; cond1 H;
        destruct (java_scalar M Hnames fn _ H) as [w [l [En [Eo Esw]]]]; rewrite En, H0, Esw;
        cbn [tag_of opt_w]; (apply se_elem; [reflexivity|]); apply eqv_int_o; exact Eo.
      (* fixed string *)
      1, 7: cond2 H H0; apply onat_eqb_some in H0; cond1 H; rewrite H0; cbn [tag_of];
        (apply se_elem; [reflexivity|]); apply eqv_fixed; (apply pad_ok_eqb; [exact norm_java_good|exact H]).
      (* dynamic string *)
      1, 6: cond2 H H0; apply onat_eqb_some in H0; cond1 H;
        destruct (ty_width (c_str (m_cfg M))) as [sw|] eqn:Esw; [|discriminate H];
        destruct (java_netty M Hnames _ _ Esw) as [l [En [Eo _]]]; rewrite En, H0; cbn [tag_of];
        assert (Hcs : cfg_str_w M = sw) by (unfold cfg_str_w; rewrite Esw; reflexivity); rewrite Hcs;
        (apply se_elem; [reflexivity|]); apply eqv_str_o; exact Eo.
      (* length field *)
      1, 5: cond2 H H1; cond2 H H2; cond1 H; apply numeric_inv in H1; destruct H1 as [w Hw];
        unfold field_jtype; rewrite (fgt_len _ _ _ _ _ _ Hw);
        destruct (java_netty M Hnames _ _ Hw) as [l [En [Eo _]]]; rewrite En, Hw; cbn [opt_w];
        apply Nat.eqb_eq in H; rewrite Hmk, <- H;
        apply se_mark; [apply java_lc_index_lt; exact H2|exact Hi|exact Eo].
      (* checksum *)
      1, 4: cond2 H H0; apply onat_eqb_some in H0; get_num H w Hw; unfold field_jtype; rewrite (fgt_check _ _ _ _ _ _ Hw);
        destruct (java_netty M Hnames _ _ Hw) as [l [En [Eo _]]]; rewrite En, H0, Hw;
        cbn [tag_of opt_w]; apply se_check; exact Eo.
      (* object *)
      1, 3: cond2 H H0; apply onat_eqb_some in H0; get_obj H; destruct iner; unfold codec_call; rewrite H0, Hnth;
        cbn [f_attr f_rep Bool.eqb tag_of]; rewrite Eobj; (apply se_elem; [reflexivity|]); apply eqv_obj.
      (* match *)
      all: cond2 H H0; apply onat_eqb_some in H0; unfold codec_call; rewrite H0, Hnth; cbn [f_attr tag_of];
        apply se_elem; reflexivity.
  Qed.
End JavaPacket.

Lemma codec_call_nomark M path p x elem r o s :
  codec_call M path p x elem = (o, s) -> first_mark ((tag_of o, s) :: r) = first_mark r.
Proof.
  unfold codec_call. destruct (decl_index M p x) as [j|]; [|intros H; inversion H; reflexivity].
  destruct (nth_error (p_fields p) j) as [fj|]; [|intros H; inversion H; reflexivity].
  destruct (f_attr fj); try (intros H; inversion H; reflexivity).
  - destruct (Bool.eqb (f_rep fj) elem); [|intros H; inversion H; reflexivity].
    destruct (obj_path path fj); intros H; inversion H; reflexivity.
  - destruct elem; intros H; inversion H; reflexivity.
Qed.

Lemma java_simple_nomark M path p f elem r o s :
  java_enc_simple M path p f elem = (o, s) -> first_mark ((tag_of o, s) :: r) = first_mark r.
Proof.
  destruct f as [fn a la rp]. unfold java_enc_simple. cbn [f_attr f_name].
  destruct a as [t|len fp| |tg lt|alg t|iner pn rf inl|k ka pairs|].
  - destruct (netty _) as [w le]. intros H; inversion H; reflexivity.
  - intros H; inversion H; reflexivity.
  - destruct (netty _) as [w le]. intros H; inversion H; reflexivity.
  - intros H; inversion H; reflexivity.
  - destruct (netty _) as [w le]. destruct elem; intros H; inversion H; reflexivity.
  - destruct iner; apply codec_call_nomark.
  - apply codec_call_nomark.
  - intros H; inversion H; reflexivity.
Qed.

Lemma java_first_mark M path p i f r :
  first_mark (java_enc_step M path p i f ++ r) = match java_field_mark M p f with Some m => m | None => first_mark r end.
Proof.
  destruct f as [fn a la rp]. unfold java_enc_step, java_field_mark. cbn [f_rep f_attr f_len f_name].
  destruct rp.
  - unfold java_enc_list. cbv zeta. destruct (netty _) as [pw ple].
    destruct (match f_len _ with LTarget => _ | _ => _ end) as [em es]. reflexivity.
  - unfold java_enc_field. cbn [f_len f_attr f_name].
    destruct la.
    2: { unfold java_enc_target. cbv zeta. destruct (codec_call _ _ _ _ _) as [tm inner]. destruct (netty _) as [w le]. reflexivity. }
    all: destruct a as [t|len fp| |tg lt|alg t|iner pn rf inl|k ka pairs|];
      try (destruct (netty _) as [w le]; reflexivity);
      match goal with |- context [java_enc_simple ?M ?pa ?p ?f ?e] =>
        destruct (java_enc_simple M pa p f e) as [o s] eqn:E; cbn [app]; exact (java_simple_nomark _ _ _ _ _ _ _ _ E)
      end.
Qed.

Lemma java_dec_field_ok M path p i f :
  java_names_ok M = true -> nth_error (p_fields p) i = Some f ->
  conds_ok (java_dec_conds M path p i f) = true ->
  dsteps_ok [java_dec_step M path p f] (ref_dec_field M path p i f) = true.
Proof.
  intros Hnames Hnth H. unfold java_dec_conds in H.
  destruct f as [fn a la rp].
  unfold java_dec_step, ref_dec_field. cbn [f_rep f_attr f_len f_name] in *.
  destruct rp; [cond1 H; discriminate H|].
  cond2 H Hd. apply onat_eqb_some in Hd.
  unfold java_dec_field, ref_delem, java_enc_name in *. cbn [f_attr f_name] in *. rewrite Hd. cbn [tag_of].
  destruct a as [t|len fp| |tg lt|alg t|iner pn rf inl|[k|] ka pairs|]; try (cond1 H; discriminate H).
  - cond1 H. destruct (java_scalar M Hnames fn _ H) as [w [l [En [Eo Esw]]]]. rewrite En, Esw. cbn [opt_w].
    apply dse. apply deqv_int_o. exact Eo.
  - cond1 H. apply dse. apply deqv_fixed. apply pad_ok_eqb; [exact norm_java_good|exact H].
  - get_num H w Hw. unfold field_jtype. rewrite (fgt_len _ _ _ _ _ _ Hw).
    destruct (java_netty M Hnames _ _ Hw) as [l [En [Eo _]]]. rewrite En, Hw. cbn [opt_w].
    apply dse. apply deqv_int_o. exact Eo.
  - get_num H w Hw. unfold field_jtype. rewrite (fgt_check _ _ _ _ _ _ Hw).
    destruct (java_netty M Hnames _ _ Hw) as [l [En [Eo _]]]. rewrite En, Hw. cbn [opt_w].
    apply dse. apply deqv_int_o. exact Eo.
  - cond2 H Ho. cond2 H Hn. cond1 H. apply onat_eqb_some in Hn.
    unfold obj_ok, ref_obj_path in *.
    destruct (obj_path path _) as [ty|] eqn:Eobj; [|discriminate Ho].
    destruct iner; unfold java_dec_obj; rewrite Hn, Hnth; cbn [f_attr f_rep negb andb]; rewrite H, Eobj;
      apply dse; apply deqv_obj.
  - cond2 H H1. cond2 H H2. cond1 H.
    unfold java_dec_match. cbn [f_name]. rewrite Hd.
    apply onat_eqb_inv in H1. destruct H1 as [ki [E1 E2]]. rewrite E1, E2.
    unfold is_match_member. rewrite Hnth. cbn [f_attr].
    apply tbl_eqb_eq in H2. rewrite H2. unfold pairs_tbl in *.
    apply dse. apply deqv_dispatch. rewrite H. apply orb_true_r.
Qed.

Lemma java_packet_enc M mk path p :
  java_names_ok M = true ->
  mk path p = first_mark (ir_enc (java_ir M path p)) ->
  conds_ok (fields_conds (java_enc_conds M) path p) = true ->
  ir_members (java_ir M path p) = length (p_fields p) /\
  steps_ok (length (p_fields p)) (ir_enc (java_ir M path p)) (ir_enc (ref_ir M mk path p)) = true.
Proof.
  intros Hnames Hmk H. split; [reflexivity|].
  unfold java_ir, ref_ir in *. cbn [ir_enc] in *. rewrite java_number_eq in *.
  rewrite (first_mark_flat (java_enc_step M path p) (java_field_mark M p)) in Hmk by (intros; apply java_first_mark).
  fold (java_pkt_mark M p) in Hmk.
  apply steps_ok_flat. intros [i f] Hin.
  destruct (number_in _ _ _ _ Hin) as [Hi _].
  pose proof (number_nth _ _ _ _ Hin) as Hnth. rewrite Nat.sub_0_r in Hnth.
  apply java_enc_field_ok; [exact Hnames|exact Hmk|lia|exact Hnth|].
  exact (fields_conds_in _ _ _ _ _ H Hin).
Qed.

Lemma java_packet_dec M mk path p :
  java_names_ok M = true ->
  conds_ok (fields_conds (java_dec_conds M) path p) = true ->
  ir_members (java_ir M path p) = length (p_fields p) /\
  dsteps_ok (ir_dec (java_ir M path p)) (ir_dec (ref_ir M mk path p)) = true.
Proof.
  intros Hnames H. split; [reflexivity|].
  unfold java_ir, ref_ir. cbn [ir_dec]. rewrite java_number_eq, map_as_flat_map.
  apply (dsteps_ok_flat (fun x : nat * field => [let '(_, f) := x in java_dec_step M path p f])). intros [i f] Hin.
  pose proof (number_nth _ _ _ _ Hin) as Hnth. rewrite Nat.sub_0_r in Hnth.
  apply java_dec_field_ok; [exact Hnames|exact Hnth|]. exact (fields_conds_in _ _ _ _ _ H Hin).
Qed.

Lemma java_packet_trav M path p : java_packet M path p = trav pkt_ir (java_ir M) path p.
Proof. reflexivity. Qed.

Lemma gen_java_gprog M :
  gen_java M = gprog (string * packet) (fun x => x) (fun x => java_ir M (fst x) (snd x)) (all_packets M).
Proof.
  unfold gen_java, gprog.
  rewrite (flat_map_ext_in' _ (fun p => trav pkt_ir (java_ir M) (p_name p) p)) by (intros; apply java_packet_trav).
  rewrite trav_all. apply map_ext. intros [path p]. reflexivity.
Qed.

Theorem java_frag_enc_validates M : java_frag_enc M = true -> validate_enc M (gen_java M) = true.
Proof.
  unfold java_frag_enc, java_enc_all. intros H. cond2 H Hp. cond2 H Hn.
  rewrite gen_java_gprog. apply generic_validate_enc; [symmetry; apply map_id|exact Hp|].
  intros [path p] mk Hin Hmk. cbn [fst snd] in *.
  apply java_packet_enc; [exact Hn|exact Hmk|].
  exact (packets_conds_in M _ path p H Hin).
Qed.

Theorem java_frag_dec_validates M : java_frag_dec M = true -> validate_dec M (gen_java M) = true.
Proof.
  unfold java_frag_dec, java_dec_all. intros H. cond2 H Hp. cond2 H Hl. cond2 H Hn.
  rewrite gen_java_gprog. apply generic_validate_dec; [symmetry; apply map_id|exact Hp|].
  intros [path p] Hin. cbn [fst snd] in *.
  apply java_packet_dec; [exact Hn|]. exact (packets_conds_in M _ path p H Hin).
Qed.

Theorem java_frag_dec_validates_full M : java_frag_dec M = true -> validate_dec_full M (gen_java M) = true.
Proof.
  intros H. unfold validate_dec_full. rewrite (java_frag_dec_validates M H). cbn [andb].
  unfold java_frag_dec, java_dec_all in H. cond2 H Hp. cond2 H Hl. rewrite <- frag_lenw_ok_eq. exact Hl.
Qed.
