(* The reference compilation implements the wire specification (encoders):
   whenever the specification lays a message out, the reference encoder writes exactly
   those bytes - for every model, packet, message, buffer prefix and fuel. *)
From FP Require Import Ref BytesLemmas Paths.
From Coq Require Import Lia.
Open Scope list_scope.

Lemma find_ir_assoc P n : find_ir P n = assoc P n.
Proof.
  induction P as [|[k v] r IH]; cbn [find_ir assoc]; [reflexivity|].
  rewrite String.eqb_sym. destruct (String.eqb n k); [reflexivity|exact IH].
Qed.

Lemma N_ascii_roundtrip b : (b < 256)%N -> N_of_ascii (ascii_of_N b) = b.
Proof. intros H. apply N_ascii_embedding. exact H. Qed.

Lemma lit_byte_quote b : (b < 256)%N -> lit_byte (quote_byte b) = Some b.
Proof.
  intros H. unfold quote_byte. destruct (N.eqb_spec b 92) as [E|E]; [subst; reflexivity|].
  cbn [lit_byte].
  destruct (Ascii.eqb_spec (ascii_of_N b) "\"%char) as [E'|E'].
  - exfalso. apply E. rewrite <- (N_ascii_roundtrip b H), E'. reflexivity.
  - rewrite N_ascii_roundtrip by exact H.
    (* the literal is quote, one character, quote: none of the escape forms *)
    destruct (ascii_of_N b) as [[] [] [] [] [] [] [] []]; try reflexivity; congruence.
Qed.

Lemma pad_byte_of_lt s b : pad_byte_of s = Some b -> (b < 256)%N.
Proof.
  unfold pad_byte_of.
  destruct s as [|c1 [|c2 [|c3 [|]]]]; try discriminate.
  - destruct c1 as [[] [] [] [] [] [] [] []]; try discriminate. intros H; inversion H. reflexivity.
  - destruct c1 as [[] [] [] [] [] [] [] []]; discriminate.
  - destruct c1 as [[] [] [] [] [] [] [] []]; try discriminate.
    destruct c3 as [[] [] [] [] [] [] [] []]; try discriminate.
    intros H; inversion H. apply N_ascii_bounded.
  - destruct c1 as [[] [] [] [] [] [] [] []]; try discriminate.
    destruct c3 as [[] [] [] [] [] [] [] []]; discriminate.
Qed.

Lemma eff_pad_lt M fp c l : eff_pad M fp = Some (c, l) -> (c < 256)%N.
Proof.
  unfold eff_pad.
  destruct (match fp with Some p => Some p | None => c_pad (m_cfg M) end) as [p|].
  - destruct (pad_byte_of (pad_char p)) as [b|] eqn:E; [|discriminate].
    intros H; inversion H; subst. eapply pad_byte_of_lt; eassumption.
  - intros H; inversion H. reflexivity.
Qed.

Lemma ref_pad_of M fp c l : eff_pad M fp = Some (c, l) -> pad_of (ref_pad M fp) = Some (c, l).
Proof.
  intros H. unfold ref_pad. rewrite H. cbn [pad_of].
  rewrite lit_byte_quote by (eapply eff_pad_lt; eassumption). reflexivity.
Qed.

Section RefEnc.
  Variable cs : string -> option (list byte -> N).
  Variable M : bmodel.
  Variable mk : string -> packet -> nat.
  Hypothesis Hnodup : NoDup (map fst (all_packets M)).

  Let P := ref_prog M mk.

  Lemma find_ref path p : In (path, p) (all_packets M) -> find_ir P path = Some (ref_ir M mk path p).
  Proof.
    intros H. rewrite find_ir_assoc. unfold P, ref_prog.
    apply (assoc_map_in (fun path p => ref_ir M mk path p)); assumption.
  Qed.

  Section Step.
    Variable recL : packet -> value -> list byte -> option (list byte).
    Variable recS : string -> value -> list byte -> option (list byte).
    Hypothesis Hrec : forall path q v buf b,
        In (path, q) (all_packets M) -> recL q v buf = Some b -> recS path v buf = Some b.

    Variable path : string.
    Variable p : packet.
    Hypothesis Hp : In (path, p) (all_packets M).

    Lemma ref_elem_ok f v buf b :
      In f (p_fields p) ->
      lay_elem M recL (f_attr f) v buf = Some b ->
      enc_elem recS (ref_elem M path f) v buf = Some b.
    Proof.
      intros Hf. destruct f as [fname a la rp]. cbn [f_attr]. unfold ref_elem. cbn [f_attr].
      destruct a as [t|len fp| |tg lt|alg t|iner pn rf inl|k ka pairs|]; cbn [lay_elem].
      - (* ABasic *) destruct v as [n| | | |]; try discriminate.
        destruct (scalar_width (get_basic_type t)) as [w|]; [|discriminate].
        destruct (fits w n); [|discriminate]. cbn [opt_w enc_elem]. intros H; exact H.
      - (* AFixed *) destruct v as [|s| | |]; try discriminate.
        destruct (eff_pad M fp) as [[c l]|] eqn:E; [|discriminate].
        cbn [enc_elem]. rewrite (ref_pad_of M fp c l E). intros H; exact H.
      - (* ADyn *) destruct v as [|s| | |]; try discriminate.
        unfold str_w, cfg_str_w. destruct (ty_width (c_str (m_cfg M))) as [w|]; [|discriminate].
        destruct (fits w (N.of_nat (length s))); [|discriminate].
        cbn [opt_w enc_elem]. unfold cfg_le, le_of. destruct s; intros H; exact H.
      - destruct v; discriminate.
      - destruct v; discriminate.
      - (* AObj *)
        destruct iner.
        + destruct inl as [q|]; [|destruct v, rf; discriminate].
          intros H. cbn [enc_elem]. unfold ref_obj_path, obj_path. cbn [f_attr f_name].
          apply (Hrec _ q); [|destruct v; exact H].
          apply (all_closed M path p); [exact Hp|].
          eapply inline_child_of_field. exact Hf.
        + destruct rf as [name|]; [|destruct v, inl; discriminate].
          unfold lay_ref. destruct (lookup_packet M name) as [q|] eqn:E; [|destruct v, inl; discriminate].
          intros H. cbn [enc_elem]. unfold ref_obj_path, obj_path. cbn [f_attr].
          apply (Hrec _ q); [apply lookup_in_all; exact E|destruct v, inl; exact H].
      - (* AMatch *) destruct v as [| | | |name pv]; try discriminate.
        unfold lay_ref. destruct (lookup_packet M name) as [q|] eqn:E; [|discriminate].
        intros H. cbn [enc_elem]. apply (Hrec _ q); [apply lookup_in_all; exact E|exact H].
      - destruct v; discriminate.
    Qed.

    Lemma ref_list_ok f l buf b :
      In f (p_fields p) ->
      lay_list (lay_elem M recL (f_attr f)) l buf = Some b ->
      enc_list (enc_elem recS (ref_elem M path f)) l buf = Some b.
    Proof.
      intros Hf. revert buf. induction l as [|v r IH]; intros buf; cbn [lay_list enc_list]; [intros H; exact H|].
      destruct (lay_elem M recL (f_attr f) v buf) as [b'|] eqn:E; [|discriminate].
      rewrite (ref_elem_ok f v buf b' Hf E). apply IH.
    Qed.

    (* the position variable of the length placeholder tracks the specification's [lp] *)
    Definition marks_ok (st : estate) (lp : option nat) : Prop :=
      forall pos, lp = Some pos -> lookup_mark (st_marks st) (mk path p) = Some pos.

    Lemma lookup_mark_hd m k v : lookup_mark ((k, v) :: m) k = Some v.
    Proof. cbn [lookup_mark]. rewrite Nat.eqb_refl. reflexivity. Qed.

    (* one field: the reference steps take a state matching (buf, lp) to one matching the
       specification's next state *)
    Lemma ref_field_ok i f v vs st buf lp buf' lp' :
      In f (p_fields p) -> nth_error vs i = Some v ->
      st_buf st = buf -> marks_ok st lp ->
      lay_field cs M recL p f v (buf, lp) = Some (buf', lp') ->
      exists st', fold_left (fun o x => match o with
                                        | Some s => match nth_error vs (fst x) with
                                                    | Some v => enc_step cs recS (snd x) v s
                                                    | None => None
                                                    end
                                        | None => None
                                        end) (ref_enc_field M mk path p i f) (Some st) = Some st'
                  /\ st_buf st' = buf' /\ marks_ok st' lp'.
    Proof.
      intros Hf Hv Hb Hm. unfold lay_field, ref_enc_field.
      destruct (f_rep f).
      - (* repeated *)
        destruct v as [| |l| |]; try discriminate.
        destruct (repeatable (f_attr f)); [|discriminate].
        unfold list_w, cfg_list_w. destruct (ty_width (c_list (m_cfg M))) as [w|]; [|discriminate].
        destruct (fits w (N.of_nat (length l))); [|discriminate].
        destruct (lay_list _ l _) as [b|] eqn:E; [|discriminate].
        intros H; inversion H; subst buf' lp'. clear H.
        cbn [fold_left fst snd]. rewrite Hv. cbn [enc_step enc_elem opt_w].
        apply ref_list_ok in E; [|exact Hf].
        unfold cfg_le, le_of in *. rewrite Hb.
        replace (match l with [] => c_le (m_cfg M) | _ :: _ => c_le (m_cfg M) end) with (c_le (m_cfg M)) by (destruct l; reflexivity).
        rewrite E. eexists. split; [reflexivity|]. split; [reflexivity|exact Hm].
      - destruct (f_attr f) as [t|len fp| |tg lt|alg t|iner pn rf inl|k ka pairs|] eqn:Ea.
        all: try (
          (* plain element, possibly the length-of target *)
          destruct (f_len f) eqn:El;
          [ destruct (lay_elem M recL _ v buf) as [b|] eqn:E; [|discriminate];
            intros H; inversion H; subst buf' lp'; clear H;
            cbn [fold_left fst snd]; rewrite Hv;
            rewrite <- Ea in E; pose proof (ref_elem_ok f v buf b Hf E) as He;
            rewrite <- Hb in He;
            assert (Hs : enc_step cs recS (ref_elem M path f) v st = Some (mkSt b (st_marks st) (st_spans st)))
              by (unfold ref_elem in *; rewrite Ea in *; cbn [enc_step]; rewrite He; reflexivity);
            rewrite Hs; eexists; split; [reflexivity|]; split; [reflexivity|exact Hm]
          | destruct lp as [pos|]; [|discriminate];
            destruct (len_width p) as [w|] eqn:Ew; [|discriminate];
            destruct (lay_elem M recL _ v buf) as [b|] eqn:E; [|discriminate];
            destruct (fits w (N.of_nat (length b - length buf))) eqn:Efit; [|discriminate];
            intros H; inversion H; subst buf' lp'; clear H;
            cbn [fold_left fst snd]; rewrite Hv; cbn [enc_step];
            rewrite <- Ea in E; pose proof (ref_elem_ok f v buf b Hf E) as He;
            rewrite <- Hb in He; rewrite He; cbn [st_marks st_spans st_buf];
            rewrite (Hm pos eq_refl), lookup_mark_hd;
            unfold ref_len_w; rewrite Ew; cbn [opt_w];
            unfold fits in Efit; apply N.ltb_lt in Efit;
            rewrite N.mod_small by (rewrite Hb; exact Efit);
            rewrite Hb; unfold cfg_le, le_of;
            eexists; split; [reflexivity|]; split; [reflexivity|];
            intros pos' Hpos'; cbn [st_marks]; apply Hm; exact Hpos'
          | destruct (lay_elem M recL _ v buf) as [b|] eqn:E; [|discriminate];
            intros H; inversion H; subst buf' lp'; clear H;
            cbn [fold_left fst snd]; rewrite Hv;
            rewrite <- Ea in E; pose proof (ref_elem_ok f v buf b Hf E) as He;
            rewrite <- Hb in He;
            assert (Hs : enc_step cs recS (ref_elem M path f) v st = Some (mkSt b (st_marks st) (st_spans st)))
              by (unfold ref_elem in *; rewrite Ea in *; cbn [enc_step]; rewrite He; reflexivity);
            rewrite Hs; eexists; split; [reflexivity|]; split; [reflexivity|exact Hm] ]).
        + (* ALen: placeholder *)
          destruct v as [n| | | |]; try discriminate.
          destruct (ty_width (get_basic_type lt)) as [w|]; [|discriminate].
          intros H; inversion H; subst buf' lp'. clear H.
          cbn [fold_left fst snd]. rewrite Hv. cbn [enc_step opt_w].
          eexists. split; [reflexivity|]. cbn [st_buf st_marks]. split.
          * rewrite Hb. reflexivity.
          * intros pos Hpos. inversion Hpos; subst pos. rewrite Hb. apply lookup_mark_hd.
        + (* ACheck *)
          destruct v as [n| | | |]; try discriminate.
          destruct (ty_width (get_basic_type t)) as [w|]; [|discriminate].
          destruct (fits w _) eqn:Efit; [|discriminate].
          intros H; inversion H; subst buf' lp'. clear H.
          cbn [fold_left fst snd]. rewrite Hv. cbn [enc_step opt_w]. rewrite Hb.
          eexists. split; [reflexivity|]. split; [reflexivity|exact Hm].
        + (* ANil: the specification lays nothing out *)
          assert (Hn : forall v, lay_elem M recL ANil v buf = None) by (intros []; reflexivity).
          rewrite Hn. destruct (f_len f); [discriminate| |discriminate].
          destruct lp; [|discriminate]. destruct (len_width p); discriminate.
    Qed.

    Let stepf (vs : list value) := fun (o : option estate) (x : nat * estep) =>
      match o with
      | Some s => match nth_error vs (fst x) with
                  | Some v => enc_step cs recS (snd x) v s
                  | None => None
                  end
      | None => None
      end.

    Lemma enc_steps_as_fold steps vs st :
      enc_steps cs recS steps vs st =
      match fold_left (stepf vs) steps (Some st) with Some s => Some (st_buf s) | None => None end.
    Proof.
      revert st. induction steps as [|[i s] r IH]; intros st; cbn [enc_steps fold_left]; [reflexivity|].
      unfold stepf at 2. cbn [fst snd].
      assert (Hnone : forall l, fold_left (stepf vs) l None = None)
        by (intros l; induction l as [|x l IHl]; [reflexivity|exact IHl]).
      destruct (nth_error vs i) as [v|]; [|rewrite Hnone; reflexivity].
      destruct (enc_step cs recS s v st) as [st'|]; [apply IH|rewrite Hnone; reflexivity].
    Qed.

    Lemma lay_fields_length fs vs st b : lay_fields cs M recL p fs vs st = Some b -> length vs = length fs.
    Proof.
      revert vs st. induction fs as [|f fs IH]; intros vs st; destruct vs as [|v vs]; cbn [lay_fields]; try discriminate.
      - reflexivity.
      - destruct (lay_field cs M recL p f v st) as [st'|]; [|discriminate]. intros H. cbn [length]. f_equal. eapply IH. exact H.
    Qed.

    Lemma ref_fields_ok : forall fs k done rest st buf lp b,
      incl fs (p_fields p) -> length done = k ->
      st_buf st = buf -> marks_ok st lp ->
      lay_fields cs M recL p fs rest (buf, lp) = Some b ->
      exists st', fold_left (stepf (done ++ rest))
                    (flat_map (fun '(i, f) => ref_enc_field M mk path p i f) (number k fs)) (Some st) = Some st'
                  /\ st_buf st' = b.
    Proof.
      induction fs as [|f fs IH]; intros k done rest st buf lp b Hincl Hk Hb Hm.
      - destruct rest; cbn [lay_fields]; [|discriminate]. intros H; inversion H; subst b.
        cbn [number flat_map fold_left fst]. exists st. split; [reflexivity|exact Hb].
      - destruct rest as [|v rest]; cbn [lay_fields]; [discriminate|].
        destruct (lay_field cs M recL p f v (buf, lp)) as [[buf' lp']|] eqn:Ef; [|discriminate].
        intros Hrest.
        cbn [number flat_map]. rewrite fold_left_app.
        assert (Hnth : nth_error (done ++ v :: rest) k = Some v).
        { rewrite nth_error_app2 by lia. rewrite Hk, Nat.sub_diag. reflexivity. }
        destruct (ref_field_ok k f v (done ++ v :: rest) st buf lp buf' lp') as [st' [Hfold [Hb' Hm']]];
          [apply Hincl; left; reflexivity|exact Hnth|exact Hb|exact Hm|exact Ef|].
        fold (stepf (done ++ v :: rest)) in Hfold. rewrite Hfold.
        replace (done ++ v :: rest) with ((done ++ [v]) ++ rest) by (rewrite <- app_assoc; reflexivity).
        apply (IH (S k) (done ++ [v]) rest st' buf' lp' b).
        + intros x Hx. apply Hincl. right. exact Hx.
        + rewrite app_length. cbn [length]. lia.
        + exact Hb'.
        + exact Hm'.
        + exact Hrest.
    Qed.

    Lemma ref_packet_ok v buf b :
      lay_packet_body cs M recL p v buf = Some b ->
      enc_packet_body cs recS (ref_ir M mk path p) v buf = Some b.
    Proof.
      unfold lay_packet_body, enc_packet_body. destruct v as [| | |vs|]; try discriminate.
      intros H. pose proof (lay_fields_length _ _ _ _ H) as Hl.
      cbn [ref_ir ir_members ir_enc]. rewrite Hl, Nat.eqb_refl.
      rewrite enc_steps_as_fold.
      destruct (ref_fields_ok (p_fields p) 0 [] vs (mkSt buf [] []) buf None b) as [st' [Hf Hb]];
        [apply incl_refl|reflexivity|reflexivity|intros pos Hpos; discriminate|exact H|].
      cbn [app] in Hf. rewrite Hf, Hb. reflexivity.
    Qed.
  End Step.

  (* the reference encoder writes exactly the bytes of the specification *)
  Theorem ref_enc_correct : forall fuel path p v buf b,
    In (path, p) (all_packets M) ->
    lay_packet cs M fuel p v buf = Some b ->
    sem_enc cs P fuel path v buf = Some b.
  Proof.
    induction fuel as [|fuel IH]; intros path p v buf b Hin; cbn [lay_packet sem_enc]; [discriminate|].
    intros H. rewrite (find_ref path p Hin).
    apply (ref_packet_ok (lay_packet cs M fuel) (sem_enc cs P fuel)); [|exact Hin|exact H].
    intros path' q v' buf' b' Hin' H'. eapply IH; eassumption.
  Qed.
End RefEnc.
