(* Structure of all_packets: lookup by path, closure under inline children. *)
From FP Require Import BModel.
From Coq Require Import Lia.
Open Scope list_scope.

(* the inline children of a field list, with the names of their fields *)
Fixpoint inline_children (fs : list field) : list (string * packet) :=
  match fs with
  | [] => []
  | mkField fname (AObj true _ _ (Some q)) _ _ :: r => (fname, q) :: inline_children r
  | _ :: r => inline_children r
  end.

Fixpoint psize (p : packet) : nat :=
  match p with
  | mkPacket _ _ _ fs _ =>
      S ((fix go (fs : list field) : nat :=
            match fs with
            | [] => 0
            | mkField _ (AObj true _ _ (Some q)) _ _ :: r => psize q + go r
            | _ :: r => go r
            end) fs)
  end.

Lemma psize_child p fname q : In (fname, q) (inline_children (p_fields p)) -> psize q < psize p.
Proof.
  destruct p as [n r l fs mfs]. cbn [p_fields psize].
  induction fs as [|f fs IH]; cbn [inline_children]; [intros []|].
  destruct f as [fn a la rp].
  destruct a as [| | | | |iner pn rf inl| |]; try (intros H; specialize (IH H); lia).
  destruct iner; [|intros H; specialize (IH H); lia].
  destruct inl as [q'|]; [|intros H; specialize (IH H); lia].
  cbn [In]. intros [H|H].
  - inversion H; subst. lia.
  - specialize (IH H). lia.
Qed.

(* one level of packets_under *)
Lemma packets_under_unfold path p :
  packets_under path p =
  flat_map (fun '(fname, q) => packets_under (path_join path fname) q) (inline_children (p_fields p)) ++ [(path, p)].
Proof.
  destruct p as [n r l fs mfs]. cbn [packets_under p_fields]. f_equal.
  induction fs as [|f fs IH]; [reflexivity|].
  destruct f as [fn a la rp].
  destruct a as [| | | | |iner pn rf inl| |]; try exact IH.
  destruct iner; [|exact IH]. destruct inl as [q|]; [|exact IH].
  cbn [inline_children flat_map]. f_equal. exact IH.
Qed.

Lemma in_self path p : In (path, p) (packets_under path p).
Proof. rewrite packets_under_unfold. apply in_or_app. right. left. reflexivity. Qed.

Lemma in_child_under path p fname q x :
  In (fname, q) (inline_children (p_fields p)) ->
  In x (packets_under (path_join path fname) q) -> In x (packets_under path p).
Proof.
  intros Hc Hx. rewrite packets_under_unfold. apply in_or_app. left.
  apply in_flat_map. exists (fname, q). split; assumption.
Qed.

(* closure: the inline children of a listed packet are listed under the extended path *)
Lemma under_closed : forall k r t path p fname q,
  psize t <= k ->
  In (path, p) (packets_under r t) -> In (fname, q) (inline_children (p_fields p)) ->
  In (path_join path fname, q) (packets_under r t).
Proof.
  induction k as [|k IH]; intros r t path p fname q Hk Hin Hc.
  - destruct t; cbn [psize] in Hk; lia.
  - rewrite packets_under_unfold in Hin. apply in_app_or in Hin. destruct Hin as [Hin|Hin].
    + apply in_flat_map in Hin. destruct Hin as [[fn' q'] [Hc' Hin']].
      apply (in_child_under r t fn' q'); [exact Hc'|].
      apply (IH _ _ path p); [|exact Hin'|exact Hc].
      pose proof (psize_child t fn' q' Hc'). lia.
    + destruct Hin as [Hin|[]]. inversion Hin; subst.
      apply (in_child_under path p fname q); [exact Hc|apply in_self].
Qed.

Lemma all_closed M path p fname q :
  In (path, p) (all_packets M) -> In (fname, q) (inline_children (p_fields p)) ->
  In (path_join path fname, q) (all_packets M).
Proof.
  unfold all_packets. intros Hin Hc. apply in_flat_map in Hin. destruct Hin as [t [Ht Hin]].
  apply in_flat_map. exists t. split; [exact Ht|].
  apply (under_closed (psize t) _ t path p); [lia|exact Hin|exact Hc].
Qed.

Lemma find_packet_in ps n q : find_packet ps n = Some q -> In q ps /\ p_name q = n.
Proof.
  induction ps as [|p r IH]; cbn [find_packet]; [discriminate|].
  destruct (String.eqb_spec (p_name p) n) as [E|E].
  - intros H; inversion H; subst. split; [left; reflexivity|reflexivity].
  - intros H. destruct (IH H). split; [right; assumption|assumption].
Qed.

Lemma lookup_in_all M n q : lookup_packet M n = Some q -> In (n, q) (all_packets M).
Proof.
  unfold lookup_packet. intros H. apply find_packet_in in H. destruct H as [Hin Hn]. subst n.
  unfold all_packets. apply in_flat_map. exists q. split; [exact Hin|apply in_self].
Qed.

Lemma inline_child_of_field fs fname pn rf q la rp :
  In (mkField fname (AObj true pn rf (Some q)) la rp) fs -> In (fname, q) (inline_children fs).
Proof.
  induction fs as [|f fs IH]; [intros []|]. intros [H|H].
  - subst f. cbn [inline_children]. left. reflexivity.
  - specialize (IH H). destruct f as [fn a la' rp'].
    destruct a as [| | | | |iner pn' rf' inl| |]; try exact IH.
    destruct iner; [|exact IH]. destruct inl; [|exact IH]. right. exact IH.
Qed.

(* association lists with distinct keys *)
Lemma assoc_map_in {A B} (g : string -> A -> B) (l : list (string * A)) k a :
  NoDup (map fst l) -> In (k, a) l ->
  assoc (map (fun '(k, a) => (k, g k a)) l) k = Some (g k a).
Proof.
  induction l as [|[k' a'] l IH]; [intros _ []|].
  cbn [map fst]. intros Hnd Hin. inversion Hnd as [|x xs Hnotin Hnd']; subst.
  cbn [assoc]. destruct (String.eqb_spec k k') as [E|E].
  - subst k'. destruct Hin as [Hin|Hin].
    + inversion Hin; subst. reflexivity.
    + exfalso. apply Hnotin. apply (in_map fst) in Hin. exact Hin.
  - destruct Hin as [Hin|Hin]; [inversion Hin; congruence|]. apply IH; assumption.
Qed.
