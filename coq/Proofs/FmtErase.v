(* The parser does not look at the line or column of a token.
   PROVED:  parse_erase : parse (map et ts) = option_map e_pt (parse ts)
   (et / e_pt: line and column set to 0, Fmt/FmtDefs.v), by one commutation lemma per rule
   of the parser model. *)
From FP Require Import FmtDefs.
Open Scope string_scope.

Definition est (s : pst) : pst := mkSt (eo (st_prev s)) (map ek (st_rest s)).

Definition omap {A : Type} (f : A -> A) (o : option (A * pst)) : option (A * pst) :=
  match o with
  | Some (x, s') => Some (f x, est s')
  | None => None
  end.

Lemma la_est k s : la k (est s) = la k s.
Proof.
  unfold la, est. cbn [st_rest]. generalize (st_rest s). induction k as [|k IH]; intros [|t r]; cbn [map nth_error]; try reflexivity.
  apply IH.
Qed.

Lemma expect_est ty s : expect ty (est s) = omap ek (expect ty s).
Proof.
  unfold expect, est. cbn [st_rest]. destruct (st_rest s) as [|t r]; cbn [map]; [reflexivity|].
  cbn [ek p_type]. destruct (Nat.eqb (p_type t) ty && negb (Nat.eqb ty T_EOF)); reflexivity.
Qed.

Lemma accept_est ty s : accept ty (est s) = (eo (fst (accept ty s)), est (snd (accept ty s))).
Proof.
  unfold accept. rewrite expect_est. destruct (expect ty s) as [[k s1]|]; reflexivity.
Qed.

Lemma span_of_est s0 s1 : span_of (est s0) (est s1) = esp (span_of s0 s1).
Proof.
  unfold span_of, esp. cbn [sp_start sp_stop]. f_equal.
  - unfold lt1, est. cbn [st_rest]. destruct (st_rest s0); reflexivity.
  - unfold stop_of, est. cbn [st_prev]. destruct (st_prev s1); reflexivity.
Qed.

Lemma many_est {A : Type} (e : A -> A) fuel first (p : pst -> option (A * pst)) :
  (forall s, p (est s) = omap e (p s)) -> forall s, many fuel first p (est s) = omap (map e) (many fuel first p s).
Proof.
  intro Hp. induction fuel as [|f IH]; intro s; cbn [many]; [reflexivity|].
  rewrite la_est. destruct (mem (la 0 s) first); [|reflexivity].
  rewrite Hp. destruct (p s) as [[x s1]|]; cbn [omap]; [|reflexivity].
  rewrite IH. destruct (many f first p s1) as [[xs s2]|]; reflexivity.
Qed.

Lemma many1_est {A : Type} (e : A -> A) fuel first (p : pst -> option (A * pst)) :
  (forall s, p (est s) = omap e (p s)) -> forall s, many1 fuel first p (est s) = omap (map e) (many1 fuel first p s).
Proof.
  intros Hp s. unfold many1. rewrite Hp. destruct (p s) as [[x s1]|]; cbn [omap]; [|reflexivity].
  rewrite (many_est e fuel first p Hp). destruct (many fuel first p s1) as [[xs s2]|]; reflexivity.
Qed.

Create HintDb est discriminated.

(* one step: push est inwards / case on the next call or test, which is the same on both sides *)
Ltac est_step :=
  first
    [ rewrite la_est
    | rewrite expect_est
    | rewrite span_of_est
    | progress autorewrite with est
    | match goal with
      | |- context [accept ?ty (est ?s)] => rewrite (accept_est ty s); destruct (accept ty s) as [? ?]; cbn [fst snd]
      end
    | match goal with
      | |- context [match omap ?f ?c with _ => _ end] => destruct c as [[? ?]|]; cbn [omap]
      end
    | match goal with
      | |- context [if ?b then _ else _] => destruct b
      end
    | reflexivity ].
Ltac est_tac := repeat est_step.

Lemma r_basic_type_est s : r_basic_type (est s) = omap e_basic_type (r_basic_type s).
Proof. unfold r_basic_type. est_tac. Qed.
Lemma r_fixed_string_est s : r_fixed_string (est s) = omap e_fixed_string (r_fixed_string s).
Proof. unfold r_fixed_string. est_tac. Qed.
Lemma r_dynamic_string_est s : r_dynamic_string (est s) = omap e_dynamic_string (r_dynamic_string s).
Proof. unfold r_dynamic_string. est_tac. Qed.
#[export] Hint Rewrite r_basic_type_est r_fixed_string_est r_dynamic_string_est : est.

Lemma r_type_est s : r_type (est s) = omap e_type (r_type s).
Proof. unfold r_type. est_tac. Qed.
#[export] Hint Rewrite r_type_est : est.

Lemma r_opt_type_est s : r_opt_type (est s) = omap (option_map e_type) (r_opt_type s).
Proof. unfold r_opt_type. est_tac. Qed.
Lemma r_value_est s : r_value (est s) = omap e_value (r_value s).
Proof. unfold r_value. est_tac. Qed.
Lemma r_calculated_from_est s : r_calculated_from (est s) = omap e_calculated_from (r_calculated_from s).
Proof. unfold r_calculated_from. est_tac. Qed.
Lemma r_length_of_est s : r_length_of (est s) = omap e_length_of (r_length_of s).
Proof. unfold r_length_of. est_tac. Qed.
Lemma r_padding_attr_est s : r_padding_attr (est s) = omap e_padding_attr (r_padding_attr s).
Proof. unfold r_padding_attr. est_tac. Qed.
Lemma r_tag_attr_est s : r_tag_attr (est s) = omap e_tag_attr (r_tag_attr s).
Proof. unfold r_tag_attr. est_tac. Qed.
#[export] Hint Rewrite r_opt_type_est r_value_est r_calculated_from_est r_length_of_est r_padding_attr_est r_tag_attr_est : est.

Lemma r_field_attribute_est s : r_field_attribute (est s) = omap e_field_attribute (r_field_attribute s).
Proof. unfold r_field_attribute. est_tac. Qed.
Lemma r_meta_decl_est s : r_meta_decl (est s) = omap e_meta_decl (r_meta_decl s).
Proof. unfold r_meta_decl. est_tac. Qed.
Lemma r_ref_meta_decl_est s : r_ref_meta_decl (est s) = omap e_ref_meta_decl (r_ref_meta_decl s).
Proof. unfold r_ref_meta_decl. est_tac. Qed.
Lemma r_length_field_decl_est s : r_length_field_decl (est s) = omap e_length_field_decl (r_length_field_decl s).
Proof. unfold r_length_field_decl. est_tac. Qed.
Lemma r_checksum_field_decl_est s : r_checksum_field_decl (est s) = omap e_checksum_field_decl (r_checksum_field_decl s).
Proof. unfold r_checksum_field_decl. est_tac. Qed.
#[export] Hint Rewrite r_field_attribute_est r_meta_decl_est r_ref_meta_decl_est r_length_field_decl_est r_checksum_field_decl_est : est.

Lemma r_list_item_est s : r_list_item (est s) = omap ek (r_list_item s).
Proof. unfold r_list_item. est_tac. Qed.
#[export] Hint Rewrite r_list_item_est : est.
Lemma r_list_more_est s : r_list_more (est s) = omap e_pair (r_list_more s).
Proof. unfold r_list_more. est_tac. Qed.

Lemma r_key_list_est fuel s : r_key_list fuel (est s) = omap e_key_list (r_key_list fuel s).
Proof.
  unfold r_key_list. rewrite expect_est. destruct (expect T_LBRACK s) as [[o s1]|]; cbn [omap]; [|reflexivity].
  rewrite r_list_item_est. destruct (r_list_item s1) as [[i s2]|]; cbn [omap]; [|reflexivity].
  rewrite (many_est e_pair fuel [T_COMMA] r_list_more r_list_more_est).
  destruct (many fuel [T_COMMA] r_list_more s2) as [[r s3]|]; cbn [omap]; [|reflexivity]. est_tac.
Qed.
#[export] Hint Rewrite r_key_list_est : est.

Lemma r_match_pair_est fuel s : r_match_pair fuel (est s) = omap e_match_pair (r_match_pair fuel s).
Proof. unfold r_match_pair. est_tac. Qed.

Lemma r_match_field_decl_est fuel s : r_match_field_decl fuel (est s) = omap e_match_field_decl (r_match_field_decl fuel s).
Proof.
  unfold r_match_field_decl.
  repeat (rewrite expect_est; match goal with |- context [match omap ?f ?c with _ => _ end] => destruct c as [[? ?]|]; cbn [omap]; [|reflexivity] end).
  rewrite (many1_est e_match_pair fuel match_pair_first (r_match_pair fuel) (r_match_pair_est fuel)).
  match goal with |- context [match omap ?f ?c with _ => _ end] => destruct c as [[? ?]|]; cbn [omap]; [|reflexivity] end.
  est_tac.
Qed.
#[export] Hint Rewrite r_match_field_decl_est : est.

Lemma type_len_est k s : type_len k (est s) = type_len k s.
Proof. unfold type_len. rewrite !la_est. reflexivity. Qed.

Lemma predict_fd_est s : predict_fd (est s) = predict_fd s.
Proof. unfold predict_fd. rewrite type_len_est. rewrite !la_est. destruct (type_len 0 s); [rewrite !la_est|]; reflexivity. Qed.

Lemma r_field_def_est fuel : forall s, r_field_def fuel (est s) = omap e_field_def (r_field_def fuel s).
Proof.
  induction fuel as [|f IH]; intro s; cbn [r_field_def]; [reflexivity|].
  rewrite predict_fd_est.
  pose proof (many1_est e_field_def f field_def_first (r_field_def f) IH) as Hmany.
  destruct (predict_fd s) as [[|[|[|[|[|[|[|n]]]]]]]|]; try reflexivity.
  - (* 1: nested object *)
    rewrite (accept_est T_REPEAT s). destruct (accept T_REPEAT s) as [r s1]. cbn [fst snd].
    rewrite expect_est. destruct (expect T_IDENTIFIER s1) as [[nm s2]|]; cbn [omap]; [|reflexivity].
    rewrite expect_est. destruct (expect T_LBRACE s2) as [[o s3]|]; cbn [omap]; [|reflexivity].
    rewrite Hmany. destruct (many1 f field_def_first (r_field_def f) s3) as [[fs s4]|]; cbn [omap]; [|reflexivity].
    rewrite expect_est. destruct (expect T_RBRACE s4) as [[c s5]|]; cbn [omap]; [|reflexivity].
    rewrite expect_est. destruct (expect T_COMMA s5) as [[m s6]|]; cbn [omap]; [|reflexivity].
    rewrite !span_of_est. reflexivity.
  - est_tac.
  - est_tac.
  - est_tac.
  - est_tac.
  - est_tac.
Qed.

Lemma r_field_with_attr_est fuel s : r_field_with_attr fuel (est s) = omap e_field_with_attr (r_field_with_attr fuel s).
Proof.
  unfold r_field_with_attr.
  rewrite (many_est e_field_attribute fuel attr_first r_field_attribute r_field_attribute_est).
  destruct (many fuel attr_first r_field_attribute s) as [[attrs s1]|]; cbn [omap]; [|reflexivity].
  rewrite r_field_def_est. destruct (r_field_def fuel s1) as [[d s2]|]; cbn [omap]; [|reflexivity].
  rewrite span_of_est. reflexivity.
Qed.

Lemma r_packet_def_est fuel s : r_packet_def fuel (est s) = omap e_packet_def (r_packet_def fuel s).
Proof.
  unfold r_packet_def.
  rewrite (accept_est T_ROOT s). destruct (accept T_ROOT s) as [r s1]. cbn [fst snd].
  repeat (rewrite expect_est; match goal with |- context [match omap ?f ?c with _ => _ end] => destruct c as [[? ?]|]; cbn [omap]; [|reflexivity] end).
  rewrite (many_est e_field_with_attr fuel field_with_attr_first (r_field_with_attr fuel) (r_field_with_attr_est fuel)).
  match goal with |- context [match omap ?f ?c with _ => _ end] => destruct c as [[? ?]|]; cbn [omap]; [|reflexivity] end.
  est_tac.
Qed.

Lemma r_meta_item_est s : r_meta_item (est s) = omap e_meta_item (r_meta_item s).
Proof. unfold r_meta_item. est_tac. Qed.

Lemma r_meta_def_est fuel s : r_meta_def fuel (est s) = omap e_meta_def (r_meta_def fuel s).
Proof.
  unfold r_meta_def.
  repeat (rewrite expect_est; match goal with |- context [match omap ?f ?c with _ => _ end] => destruct c as [[? ?]|]; cbn [omap]; [|reflexivity] end).
  rewrite (many_est e_meta_item fuel meta_item_first r_meta_item r_meta_item_est).
  match goal with |- context [match omap ?f ?c with _ => _ end] => destruct c as [[? ?]|]; cbn [omap]; [|reflexivity] end.
  est_tac.
Qed.

Lemma r_option_decl_est s : r_option_decl (est s) = omap e_option_decl (r_option_decl s).
Proof. unfold r_option_decl. est_tac. Qed.

Lemma r_option_def_est fuel s : r_option_def fuel (est s) = omap e_option_def (r_option_def fuel s).
Proof.
  unfold r_option_def.
  repeat (rewrite expect_est; match goal with |- context [match omap ?f ?c with _ => _ end] => destruct c as [[? ?]|]; cbn [omap]; [|reflexivity] end).
  rewrite (many_est e_option_decl fuel [T_IDENTIFIER] r_option_decl r_option_decl_est).
  match goal with |- context [match omap ?f ?c with _ => _ end] => destruct c as [[? ?]|]; cbn [omap]; [|reflexivity] end.
  est_tac.
Qed.

Lemma r_definition_est fuel s : r_definition fuel (est s) = omap e_definition (r_definition fuel s).
Proof.
  unfold r_definition. rewrite la_est.
  destruct (mem (la 0 s) [T_ROOT; T_PACKET]).
  - rewrite r_packet_def_est. destruct (r_packet_def fuel s) as [[d s1]|]; reflexivity.
  - destruct (Nat.eqb (la 0 s) T_METADATA).
    + rewrite r_meta_def_est. destruct (r_meta_def fuel s) as [[d s1]|]; reflexivity.
    + destruct (Nat.eqb (la 0 s) T_OPTIONS); [|reflexivity].
      rewrite r_option_def_est. destruct (r_option_def fuel s) as [[d s1]|]; reflexivity.
Qed.

Lemma r_packet_est fuel s : r_packet fuel (est s) = omap e_pt (r_packet fuel s).
Proof.
  unfold r_packet.
  rewrite (many_est e_definition fuel definition_first (r_definition fuel) (r_definition_est fuel)).
  destruct (many fuel definition_first (r_definition fuel) s) as [[ds s1]|]; cbn [omap]; [|reflexivity].
  unfold e_pt. cbn [pk_start pk_stop pk_defs]. f_equal. f_equal.
  unfold lt1, est. cbn [st_rest]. destruct (st_rest s); reflexivity.
Qed.

Lemma parse_ptoks_erase ps : parse_ptoks (map ek ps) = option_map e_pt (parse_ptoks ps).
Proof.
  unfold parse_ptoks. rewrite map_length.
  change (mkSt None (map ek ps)) with (est (mkSt None ps)). rewrite r_packet_est.
  destruct (r_packet (S (length ps)) (mkSt None ps)) as [[t s1]|]; cbn [omap]; [|reflexivity].
  unfold est. cbn [st_rest]. destruct (st_rest s1) as [|e [|e2 r2]]; cbn [map]; try reflexivity.
  cbn [ek p_type]. destruct (Nat.eqb (p_type e) T_EOF); reflexivity.
Qed.

Lemma index_from_erase ts : forall i, index_from i (map et ts) = map ek (index_from i ts).
Proof.
  induction ts as [|t r IH]; intro i; [reflexivity|]. cbn [map index_from et hidden type text line col].
  rewrite IH. destruct (hidden t); reflexivity.
Qed.

Theorem parse_erase ts : parse (map et ts) = option_map e_pt (parse ts).
Proof. unfold parse. rewrite index_from_erase. apply parse_ptoks_erase. Qed.
