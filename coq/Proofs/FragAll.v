(* The language fragment theorems put together: on its fragment every generator model's
   encoder / decoder implements the wire specification for all messages; corollaries across
   languages. *)
From FP Require Import Validate Validated DecSame Typed RefDec Frag FragCommon FragGo FragPy FragCpp FragRust FragJava.
Open Scope list_scope.

Theorem frag_enc_validates l M : frag_enc_of l M = true -> validate_enc M (gen_of l M) = true.
Proof.
  destruct l; cbn [frag_enc_of gen_of].
  - apply go_frag_enc_validates.
  - apply py_frag_enc_validates.
  - apply cpp_frag_enc_validates.
  - apply rust_frag_enc_validates.
  - apply java_frag_enc_validates.
Qed.

Theorem frag_dec_validates l M : frag_dec_of l M = true -> validate_dec M (gen_of l M) = true.
Proof.
  destruct l; cbn [frag_dec_of gen_of].
  - apply go_frag_dec_validates.
  - apply py_frag_dec_validates.
  - apply cpp_frag_dec_validates.
  - apply rust_frag_dec_validates.
  - apply java_frag_dec_validates.
Qed.

Theorem frag_dec_validates_full l M : frag_dec_of l M = true -> validate_dec_full M (gen_of l M) = true.
Proof.
  destruct l; cbn [frag_dec_of gen_of].
  - apply go_frag_dec_validates_full.
  - apply py_frag_dec_validates_full.
  - apply cpp_frag_dec_validates_full.
  - apply rust_frag_dec_validates_full.
  - apply java_frag_dec_validates_full.
Qed.

(* every decoder fragment includes the agreement of length widths *)
Theorem frag_dec_lenw l M : frag_dec_of l M = true -> lenw_ok M = true.
Proof.
  intros H. pose proof (frag_dec_validates_full l M H) as Hf. unfold validate_dec_full in Hf.
  apply andb_prop in Hf. exact (proj2 Hf).
Qed.

Theorem frag_enc_correct l cs M :
  frag_enc_of l M = true ->
  forall fuel path p v buf b,
    In (path, p) (all_packets M) ->
    lay_packet cs M fuel p v buf = Some b ->
    sem_enc cs (gen_of l M) fuel path v buf = Some b.
Proof. intros H. exact (validated_enc_correct cs M _ (frag_enc_validates l M H)). Qed.

Theorem frag_dec_correct l cs M :
  frag_dec_of l M = true ->
  forall fuel path p v pre out,
    In (path, p) (all_packets M) -> typed M fuel p v = true ->
    lay_packet cs M fuel p v pre = Some out ->
    exists msg v',
      out = pre ++ msg /\
      (forall rest, sem_dec (gen_of l M) fuel path (msg ++ rest) = DOk (v', rest)) /\
      ueq cs M fuel p v v' /\
      lay_packet cs M fuel p v' pre = Some out.
Proof. intros H. exact (validated_dec_correct cs M _ (frag_dec_validates_full l M H)). Qed.

(* ---- per language (the statements of Props/C01_langs.v, C02_langs.v) ---- *)
Definition go_frag_enc_correct := frag_enc_correct LGo.
Definition py_frag_enc_correct := frag_enc_correct LPy.
Definition cpp_frag_enc_correct := frag_enc_correct LCpp.
Definition rust_frag_enc_correct := frag_enc_correct LRust.
Definition java_frag_enc_correct := frag_enc_correct LJava.
Definition go_frag_dec_correct := frag_dec_correct LGo.
Definition py_frag_dec_correct := frag_dec_correct LPy.
Definition cpp_frag_dec_correct := frag_dec_correct LCpp.
Definition rust_frag_dec_correct := frag_dec_correct LRust.
Definition java_frag_dec_correct := frag_dec_correct LJava.

(* ---- across languages ---- *)

Theorem frag_encoders_agree cs M l1 l2 :
  frag_enc_of l1 M = true -> frag_enc_of l2 M = true ->
  forall fuel path p v buf b,
    In (path, p) (all_packets M) ->
    lay_packet cs M fuel p v buf = Some b ->
    sem_enc cs (gen_of l1 M) fuel path v buf = Some b /\ sem_enc cs (gen_of l2 M) fuel path v buf = Some b.
Proof.
  intros H1 H2 fuel path p v buf b Hin Hl.
  split; [apply (frag_enc_correct l1 cs M H1 fuel path p)|apply (frag_enc_correct l2 cs M H2 fuel path p)]; assumption.
Qed.

Theorem frag_decoders_agree M l1 l2 :
  frag_dec_of l1 M = true -> frag_dec_of l2 M = true ->
  forall fuel name rd, sem_dec (gen_of l1 M) fuel name rd = sem_dec (gen_of l2 M) fuel name rd.
Proof.
  intros H1 H2. apply (validated_decoders_agree M); apply frag_dec_validates; assumption.
Qed.

Theorem frag_cross_decode cs M l1 l2 :
  frag_enc_of l1 M = true -> frag_dec_of l2 M = true ->
  forall fuel path p v b,
    In (path, p) (all_packets M) -> typed M fuel p v = true ->
    sem_enc cs (gen_of l1 M) fuel path v [] = Some b -> lay_packet cs M fuel p v [] <> None ->
    exists v', (forall rest, sem_dec (gen_of l2 M) fuel path (b ++ rest) = DOk (v', rest)) /\ ueq cs M fuel p v v'.
Proof.
  intros H1 H2 fuel path p v b Hin Ht He Hl.
  destruct (lay_packet cs M fuel p v []) as [out|] eqn:E; [|contradiction].
  pose proof (frag_enc_correct l1 cs M H1 fuel path p v [] out Hin E) as He'.
  rewrite He in He'. inversion He'; subst out.
  destruct (frag_dec_correct l2 cs M H2 fuel path p v [] b Hin Ht E) as [msg [v' [Ho [Hd [Hu _]]]]].
  cbn [app] in Ho. subst msg. exists v'. split; assumption.
Qed.
