(* The formatter on comment-free input.
   PROVED:
     pure_visit_packet : no_hidden ts -> ok_pt (length ts) t = true ->
                         visit_packet ts t sn = Ok (nc_packet t, sn)
       on a token list without comments the model computes the pure function nc_* of the
       tree (Fmt/FmtDefs.v): no state, no token list;
     fmt_pt_comment_free : ... -> fmt_pt_res ts t = Ok (nc_pt t)
     nc_pt_erase : nc_pt (e_pt t) = nc_pt t
       nc_* does not look at the line or column of any token. *)
From FP Require Import FmtDefs FmtSafe.
From Coq Require Import Lia.
Open Scope string_scope.

(* ------------------------------------------------------------------ strings *)
Lemma append_nil_r (s : string) : s ++ "" = s.
Proof. induction s as [|c r IH]; cbn [append]; [reflexivity|]. rewrite IH. reflexivity. Qed.

Lemma append_assoc (a b c : string) : (a ++ b) ++ c = a ++ (b ++ c).
Proof. induction a as [|x r IH]; cbn [append]; [reflexivity|]. rewrite IH. reflexivity. Qed.

(* ------------------------------------------------------------------ pure computations *)
Definition pure_eq (m : M string) (v : string) : Prop := forall sn, m sn = Ok (v, sn).

Lemma pure_ret v : pure_eq (ret v) v.
Proof. intro sn. reflexivity. Qed.

Lemma pure_bind (m : M string) (f : string -> M string) a b :
  pure_eq m a -> pure_eq (f a) b -> pure_eq (bind m f) b.
Proof. intros Hm Hf sn. unfold bind. rewrite Hm. apply Hf. Qed.

Lemma pure_ext (m : M string) v v' : pure_eq m v -> v = v' -> pure_eq m v'.
Proof. intros H E. subst. exact H. Qed.

(* ------------------------------------------------------------------ no hidden tokens *)
Definition no_hidden (ts : list tok) : Prop := Forall (fun t => hidden t = false) ts.
Definition nh_item (it : nat * tok) : Prop := hidden (snd it) = false.

Lemma take_hidden_nil l : Forall nh_item l -> take_hidden l = [].
Proof.
  intro H. destruct l as [|[i t] r]; [reflexivity|]. inversion H as [|x l' Hx Hl]; subst.
  unfold nh_item in Hx. cbn [snd] in Hx. cbn [take_hidden]. rewrite Hx. reflexivity.
Qed.

Lemma number_from_nh ts : forall i, no_hidden ts -> Forall nh_item (number_from i ts).
Proof.
  induction ts as [|t r IH]; intros i H; cbn [number_from]; [constructor|].
  inversion H; subst. constructor; [assumption|apply IH; assumption].
Qed.

Lemma Forall_firstn' {A : Type} (P : A -> Prop) l : forall n, Forall P l -> Forall P (firstn n l).
Proof.
  induction l as [|x r IH]; intros n H; destruct n; cbn [firstn]; try constructor; inversion H; subst; [assumption|].
  apply IH. assumption.
Qed.

Lemma Forall_skipn' {A : Type} (P : A -> Prop) l : forall n, Forall P l -> Forall P (skipn n l).
Proof.
  induction l as [|x r IH]; intros n H; destruct n; cbn [skipn]; try assumption. inversion H; subst. apply IH. assumption.
Qed.

Lemma Forall_rev' {A : Type} (P : A -> Prop) (l : list A) : Forall P l -> Forall P (rev l).
Proof.
  intro H. apply Forall_forall. intros x Hx. apply in_rev in Hx. revert x Hx. apply Forall_forall. exact H.
Qed.

Lemma pure_hidden_left ts k : no_hidden ts -> p_idx k < length ts -> pure_eq (get_hidden_left ts (Some k)) "".
Proof.
  intros Hn Hk sn. unfold get_hidden_left, hidden_left.
  destruct (Nat.ltb_spec (p_idx k) (length ts)) as [_|Hge]; [|lia].
  rewrite take_hidden_nil; [reflexivity|]. apply Forall_rev'. apply Forall_firstn'. apply number_from_nh. exact Hn.
Qed.

Lemma pure_hidden_right ts k : no_hidden ts -> p_idx k < length ts -> pure_eq (get_hidden_right ts (Some k)) "".
Proof.
  intros Hn Hk sn. unfold get_hidden_right, hidden_right.
  destruct (Nat.ltb_spec (p_idx k) (length ts)) as [_|Hge]; [|lia].
  rewrite take_hidden_nil; [reflexivity|]. apply Forall_skipn'. apply number_from_nh. exact Hn.
Qed.

Lemma pure_hidden_right_nil ts : pure_eq (get_hidden_right ts None) "".
Proof. intro sn. reflexivity. Qed.

Lemma pure_hidden_right_all ts k : no_hidden ts -> p_idx k < length ts -> pure_eq (get_hidden_right_all ts (Some k)) "".
Proof.
  intros Hn Hk sn. unfold get_hidden_right_all, hidden_right.
  destruct (Nat.ltb_spec (p_idx k) (length ts)) as [_|Hge]; [|lia].
  rewrite take_hidden_nil; [reflexivity|]. apply Forall_skipn'. apply number_from_nh. exact Hn.
Qed.

Lemma pure_hidden_right_all_nil ts : pure_eq (get_hidden_right_all ts None) "".
Proof. intro sn. reflexivity. Qed.

Lemma pure_hidden_before_close ts k : no_hidden ts -> p_idx k < length ts -> pure_eq (get_hidden_before_close ts (Some k)) "".
Proof.
  intros Hn Hk. unfold get_hidden_before_close. eapply pure_bind; [apply pure_hidden_left; assumption|]. apply pure_ret.
Qed.

(* ------------------------------------------------------------------ visit = nc *)
Lemma pure_guarded site o (pre : string) :
  pure_eq (if non_nil o then (do x <- deref site o; ret (pre ++ x)) else ret EmptyString) (opt_text pre o).
Proof. destruct o as [k|]; intro sn; reflexivity. Qed.

Lemma pure_guarded_ret site o :
  pure_eq (if non_nil o then deref site o else ret EmptyString) (opt_text EmptyString o).
Proof. destruct o as [k|]; intro sn; reflexivity. Qed.

Lemma pure_visit_padding_attr a : pure_eq (visit_padding_attr a) (nc_padding_attr a).
Proof.
  unfold visit_padding_attr. eapply pure_bind; [apply pure_guarded_ret|]. apply pure_ret.
Qed.

Lemma pure_visit_field_attribute a : pure_eq (visit_field_attribute a) (nc_field_attribute a).
Proof. destruct a; cbn [visit_field_attribute nc_field_attribute]; try apply pure_ret. apply pure_visit_padding_attr. Qed.

Lemma pure_visit_field_attributes ts l :
  no_hidden ts -> forallb (fun a => span_ok (length ts) (fa_span a)) l = true ->
  pure_eq (visit_field_attributes ts l) (nc_field_attributes l).
Proof.
  intro Hn. induction l as [|a r IH]; cbn [visit_field_attributes nc_field_attributes forallb]; intro H; [apply pure_ret|].
  apply andb_true_iff in H. destruct H as [Ha Hr]. apply span_ok_lt in Ha. destruct Ha as [H1 _].
  eapply pure_bind; [apply pure_hidden_left; assumption|].
  eapply pure_bind; [apply pure_visit_field_attribute|]. eapply pure_bind; [apply IH; exact Hr|]. apply pure_ret.
Qed.

Lemma pure_visit_length_field_decl d : pure_eq (visit_length_field_decl d) (nc_length_field_decl d).
Proof. unfold visit_length_field_decl. eapply pure_bind; [apply pure_guarded|]. apply pure_ret. Qed.

Lemma pure_visit_checksum_field_decl d : pure_eq (visit_checksum_field_decl d) (nc_checksum_field_decl d).
Proof. unfold visit_checksum_field_decl. eapply pure_bind; [apply pure_guarded|]. apply pure_ret. Qed.

Lemma pure_visit_meta_decl d : pure_eq (visit_meta_decl d) (nc_meta_decl d).
Proof. unfold visit_meta_decl. eapply pure_bind; [apply pure_guarded_ret|]. apply pure_ret. Qed.

Lemma pure_visit_ref_meta_decl d : pure_eq (visit_ref_meta_decl d) (nc_ref_meta_decl d).
Proof. unfold visit_ref_meta_decl. eapply pure_bind; [apply pure_guarded|]. apply pure_ret. Qed.

Lemma comment_line_empty :
  (if string_dec (trim_right_nl "") "" then "" else add_indent4ln (trim_right_nl "")) = "".
Proof. reflexivity. Qed.

Lemma pure_visit_match_pair ts p :
  no_hidden ts -> ok_match_pair (length ts) p = true -> pure_eq (visit_match_pair ts p) (nc_match_pair p).
Proof.
  intros Hn H. unfold ok_match_pair in H. apply andb_true_iff in H. destruct H as [H _].
  apply span_ok_lt in H. destruct H as [H1 H2]. unfold visit_match_pair.
  eapply pure_ext.
  - eapply pure_bind; [apply pure_hidden_left; assumption|].
    eapply pure_bind; [apply pure_hidden_right; assumption|]. apply pure_ret.
  - cbv zeta. rewrite !comment_line_empty. rewrite append_nil_r. reflexivity.
Qed.

Lemma pure_visit_match_pairs ts ps :
  no_hidden ts -> forallb (ok_match_pair (length ts)) ps = true -> pure_eq (visit_match_pairs ts ps) (nc_match_pairs ps).
Proof.
  intro Hn. induction ps as [|p r IH]; cbn [visit_match_pairs nc_match_pairs forallb]; intro H; [apply pure_ret|].
  apply andb_true_iff in H. destruct H as [Hp Hr].
  eapply pure_bind; [apply pure_visit_match_pair; assumption|]. eapply pure_bind; [apply IH; exact Hr|]. apply pure_ret.
Qed.

Lemma pure_visit_match_field_decl ts d :
  no_hidden ts -> ok_match_decl (length ts) d = true ->
  pure_eq (visit_match_field_decl ts d) (nc_match_field_decl d).
Proof.
  unfold ok_match_decl. intros Hn H. apply andb_true_iff in H. destruct H as [Hsp H]. apply span_ok_lt in Hsp. destruct Hsp as [_ H2].
  unfold visit_match_field_decl. eapply pure_bind; [apply pure_visit_match_pairs; assumption|].
  eapply pure_bind; [apply pure_hidden_before_close; assumption|]. apply pure_ret.
Qed.

Lemma nc_field_def_iner sp rep sp' name open fields close comma :
  nc_field_def (InerObjectField sp rep (InerObjectDecl sp' name open fields close) comma) =
  (kw_if rep "repeat " ++ p_text name ++ " " ++ "{" ++ nl) ++ nc_field_defs fields ++ "},".
Proof.
  assert (H : forall fs,
             (fix go (fs : list field_def) : string :=
                match fs with
                | [] => EmptyString
                | x :: r => add_indent4ln (nc_field_def x) ++ go r
                end) fs = nc_field_defs fs).
  { induction fs as [|f r IH]; [reflexivity|]. cbn [nc_field_defs]. rewrite <- IH. reflexivity. }
  cbn [nc_field_def]. rewrite H. reflexivity.
Qed.

Lemma pure_object_field rep ftype fname doc :
  pure_eq
    (let field0 := (if non_nil rep then "repeat " else EmptyString) ++ p_text ftype in
     do field1 <- (if non_nil fname then
                     do x <- deref "VisitFieldDefinition: ObjectField fname" fname; ret (field0 ++ " " ++ x)
                   else ret field0);
     do field2 <- (if non_nil doc then
                     do x <- deref "VisitFieldDefinition: ObjectField STRING_LITERAL" doc; ret (field1 ++ " " ++ x)
                   else ret field1);
     ret (field2 ++ ","))
    (nc_object_field rep ftype fname doc).
Proof. destruct fname as [k1|]; destruct doc as [k2|]; intro sn; reflexivity. Qed.

Lemma pure_visit_field_def ts f :
  no_hidden ts -> ok_field_def (length ts) f = true -> pure_eq (visit_field_def ts f) (nc_field_def f).
Proof.
  intro Hn.
  induction f as [sp rep sp' name open fields close comma IH|sp rep d|sp rep ft fn doc comma|sp d|sp d|sp d comma]
    using field_def_ind'; intro H; rewrite visit_field_def_eq; cbn [ok_field_def] in H;
    apply andb_true_iff in H; destruct H as [Hsp Hin]; apply span_ok_lt in Hsp; destruct Hsp as [H1 H2];
    (eapply pure_ext;
     [eapply pure_bind; [apply pure_hidden_left; assumption|];
      eapply pure_bind; [|eapply pure_bind; [apply pure_hidden_right; assumption|apply pure_ret]]
     |]); cbn [field_body].
  - apply andb_true_iff in Hin. destruct Hin as [Hisp Hin]. apply span_ok_lt in Hisp. destruct Hisp as [_ Hc].
    rewrite visit_iner_object_field_eq.
    eapply pure_bind; [|eapply pure_bind; [apply pure_hidden_before_close; assumption|apply pure_ret]].
    instantiate (1 := nc_field_defs fields).
    clear H1 H2 Hc. induction fields as [|f r IHr]; cbn [visit_field_defs nc_field_defs]; [apply pure_ret|].
    cbn [forallb] in Hin. apply andb_true_iff in Hin. destruct Hin as [Hf Hr].
    inversion IH as [|x l Hx Hl]; subst.
    eapply pure_bind; [apply Hx; exact Hf|]. eapply pure_bind; [apply IHr; assumption|]. apply pure_ret.
  - rewrite nc_field_def_iner. cbn [append]. rewrite append_nil_r. reflexivity.
  - eapply pure_bind; [apply pure_visit_meta_decl|]. apply pure_ret.
  - cbn [append]. rewrite append_nil_r. reflexivity.
  - apply pure_object_field.
  - cbn [append]. rewrite append_nil_r. reflexivity.
  - apply pure_visit_length_field_decl.
  - cbn [append]. rewrite append_nil_r. reflexivity.
  - apply pure_visit_checksum_field_decl.
  - cbn [append]. rewrite append_nil_r. reflexivity.
  - eapply pure_bind; [apply pure_visit_match_field_decl; assumption|]. apply pure_ret.
  - cbn [append]. rewrite append_nil_r. reflexivity.
Qed.

Lemma pure_visit_field_with_attr ts f :
  no_hidden ts -> ok_field_with_attr (length ts) f = true -> pure_eq (visit_field_with_attr ts f) (nc_field_with_attr f).
Proof.
  unfold ok_field_with_attr. intros Hn H. apply andb_true_iff in H. destruct H as [Ha H].
  unfold visit_field_with_attr. eapply pure_bind; [apply pure_visit_field_attributes; assumption|].
  eapply pure_bind; [apply pure_visit_field_def; assumption|]. apply pure_ret.
Qed.

Lemma pure_visit_fields_with_attr ts fs :
  no_hidden ts -> forallb (ok_field_with_attr (length ts)) fs = true ->
  pure_eq (visit_fields_with_attr ts fs) (nc_fields_with_attr fs).
Proof.
  intro Hn. induction fs as [|f r IH]; cbn [visit_fields_with_attr nc_fields_with_attr forallb]; intro H; [apply pure_ret|].
  apply andb_true_iff in H. destruct H as [Hf Hr].
  eapply pure_bind; [apply pure_visit_field_with_attr; assumption|]. eapply pure_bind; [apply IH; exact Hr|]. apply pure_ret.
Qed.

Lemma pure_visit_packet_def ts d :
  no_hidden ts -> ok_packet_def (length ts) d = true -> pure_eq (visit_packet_def ts d) (nc_packet_def d).
Proof.
  unfold ok_packet_def. intros Hn H. apply andb_true_iff in H. destruct H as [Hsp Hf]. apply span_ok_lt in Hsp. destruct Hsp as [H1 H2].
  unfold visit_packet_def. eapply pure_bind; [apply pure_hidden_left; assumption|].
  eapply pure_bind; [apply pure_visit_fields_with_attr; assumption|].
  eapply pure_bind; [apply pure_hidden_before_close; assumption|].
  eapply pure_bind; [apply pure_hidden_right; assumption|]. apply pure_ret.
Qed.

Lemma pure_visit_option_decl ts d :
  no_hidden ts -> ok_option_decl (length ts) d = true -> pure_eq (visit_option_decl ts d) (nc_option_decl d).
Proof.
  unfold ok_option_decl. intros Hn H. apply span_ok_lt in H. destruct H as [H1 H2]. unfold visit_option_decl.
  eapply pure_ext.
  - eapply pure_bind; [apply pure_hidden_left; assumption|].
    eapply pure_bind; [apply pure_hidden_right; assumption|]. apply pure_ret.
  - cbn [append]. rewrite append_nil_r. reflexivity.
Qed.

Lemma pure_visit_option_decls ts ds :
  no_hidden ts -> forallb (ok_option_decl (length ts)) ds = true -> pure_eq (visit_option_decls ts ds) (nc_option_decls ds).
Proof.
  intro Hn. induction ds as [|d r IH]; cbn [visit_option_decls nc_option_decls forallb]; intro H; [apply pure_ret|].
  apply andb_true_iff in H. destruct H as [Hd Hr].
  eapply pure_bind; [apply pure_visit_option_decl; assumption|]. eapply pure_bind; [apply IH; exact Hr|]. apply pure_ret.
Qed.

Lemma pure_visit_option_def ts d :
  no_hidden ts -> ok_option_def (length ts) d = true -> pure_eq (visit_option_def ts d) (nc_option_def d).
Proof.
  unfold ok_option_def. intros Hn H. apply andb_true_iff in H. destruct H as [Hsp Hd]. apply span_ok_lt in Hsp. destruct Hsp as [H1 H2].
  unfold visit_option_def. eapply pure_bind; [apply pure_hidden_left; assumption|].
  eapply pure_bind; [apply pure_visit_option_decls; assumption|].
  eapply pure_bind; [apply pure_hidden_before_close; assumption|].
  eapply pure_bind; [apply pure_hidden_right; assumption|]. apply pure_ret.
Qed.

Lemma pure_visit_meta_items ts items :
  no_hidden ts -> forallb (fun i => span_ok (length ts) (meta_item_span i)) items = true ->
  pure_eq (visit_meta_items ts items) (nc_meta_items items).
Proof.
  intro Hn. induction items as [|i r IH]; cbn [visit_meta_items nc_meta_items forallb]; intro H; [apply pure_ret|].
  apply andb_true_iff in H. destruct H as [Hi Hr]. apply span_ok_lt in Hi. destruct Hi as [H1 H2].
  eapply pure_ext.
  - eapply pure_bind; [apply pure_hidden_left; assumption|].
    apply pure_bind with (a := nc_meta_item i);
      [destruct i; cbn [nc_meta_item]; [apply pure_visit_meta_decl|apply pure_visit_ref_meta_decl]|].
    eapply pure_bind; [apply pure_hidden_right; assumption|].
    eapply pure_bind; [apply IH; exact Hr|]. apply pure_ret.
  - cbn [append]. rewrite append_nil_r. reflexivity.
Qed.

Lemma pure_visit_meta_def ts d :
  no_hidden ts -> ok_meta_def (length ts) d = true -> pure_eq (visit_meta_def ts d) (nc_meta_def d).
Proof.
  unfold ok_meta_def. intros Hn H. apply andb_true_iff in H. destruct H as [Hsp Hi]. apply span_ok_lt in Hsp. destruct Hsp as [H1 H2].
  unfold visit_meta_def. eapply pure_bind; [apply pure_hidden_left; assumption|].
  eapply pure_bind; [apply pure_visit_meta_items; assumption|].
  eapply pure_bind; [apply pure_hidden_before_close; assumption|].
  eapply pure_bind; [apply pure_hidden_right; assumption|]. apply pure_ret.
Qed.

Lemma pure_visit_definitions ts ds :
  no_hidden ts -> forallb (ok_definition (length ts)) ds = true -> pure_eq (visit_definitions ts ds) (nc_definitions ds).
Proof.
  intro Hn. induction ds as [|d r IH]; cbn [visit_definitions nc_definitions forallb]; intro H; [apply pure_ret|].
  apply andb_true_iff in H. destruct H as [Hd Hr].
  apply pure_bind with (a := nc_definition d); [|eapply pure_bind; [apply IH; exact Hr|apply pure_ret]].
  destruct d as [x|x|x]; cbn [ok_definition nc_definition] in *;
    [apply pure_visit_packet_def; assumption|apply pure_visit_meta_def; assumption|apply pure_visit_option_def; assumption].
Qed.

Theorem pure_visit_packet ts t :
  no_hidden ts -> ok_pt (length ts) t = true -> pure_eq (visit_packet ts t) (nc_packet t).
Proof.
  unfold ok_pt. intros Hn H. apply andb_true_iff in H. destruct H as [H Hd]. apply andb_true_iff in H. destruct H as [H1 H2].
  unfold visit_packet. eapply pure_ext.
  - eapply pure_bind; [apply pure_hidden_left; [assumption|apply inr_lt; exact H1]|].
    eapply pure_bind; [apply pure_visit_definitions; assumption|].
    destruct (pk_stop t) as [k|].
    + eapply pure_bind; [apply pure_hidden_right; [assumption|apply inr_lt; exact H2]|].
      eapply pure_bind; [apply pure_hidden_right_all; [assumption|apply inr_lt; exact H2]|]. apply pure_ret.
    + eapply pure_bind; [apply pure_hidden_right_nil|]. eapply pure_bind; [apply pure_hidden_right_all_nil|]. apply pure_ret.
  - cbn [append]. rewrite !append_nil_r. reflexivity.
Qed.

Theorem fmt_pt_comment_free ts t :
  no_hidden ts -> ok_pt (length ts) t = true -> fmt_pt_res ts t = Ok (nc_pt t).
Proof.
  intros Hn H. unfold fmt_pt_res. rewrite (pure_visit_packet ts t Hn H []). reflexivity.
Qed.

(* ------------------------------------------------------------------ nc does not see positions *)
Lemma type_text_erase t : type_text (e_type t) = type_text t.
Proof. destruct t; reflexivity. Qed.

Lemma value_text_erase v : value_text (e_value v) = value_text v.
Proof. destruct v as [sp t| | | | |]; try reflexivity. apply (type_text_erase t). Qed.

Lemma opt_text_erase pre o : opt_text pre (eo o) = opt_text pre o.
Proof. destruct o; reflexivity. Qed.

Lemma kw_if_erase o s : kw_if (eo o) s = kw_if o s.
Proof. destruct o; reflexivity. Qed.

Lemma opt_type_text_erase o : opt_type_text (option_map e_type o) = opt_type_text o.
Proof. destruct o as [t|]; [|reflexivity]. cbn [option_map opt_type_text]. rewrite type_text_erase. reflexivity. Qed.

Lemma nc_field_attribute_erase a : nc_field_attribute (e_field_attribute a) = nc_field_attribute a.
Proof.
  destruct a as [sp x|sp x|sp x|sp x]; try reflexivity.
  cbn [e_field_attribute nc_field_attribute]. unfold nc_padding_attr. cbn [e_padding_attr pa_attr pa_padding ek p_text].
  rewrite opt_text_erase. reflexivity.
Qed.

Lemma nc_field_attributes_erase l : nc_field_attributes (map e_field_attribute l) = nc_field_attributes l.
Proof.
  induction l as [|a r IH]; [reflexivity|]. cbn [map nc_field_attributes]. rewrite nc_field_attribute_erase, IH. reflexivity.
Qed.

Lemma nc_length_field_decl_erase d : nc_length_field_decl (e_length_field_decl d) = nc_length_field_decl d.
Proof.
  unfold nc_length_field_decl. cbn [e_length_field_decl lf_type lf_name lf_length_of lf_doc e_length_of lo_from ek p_text].
  rewrite opt_type_text_erase, opt_text_erase. reflexivity.
Qed.

Lemma nc_checksum_field_decl_erase d : nc_checksum_field_decl (e_checksum_field_decl d) = nc_checksum_field_decl d.
Proof.
  unfold nc_checksum_field_decl.
  cbn [e_checksum_field_decl ck_type ck_name ck_calculated_from ck_doc e_calculated_from cf_from ek p_text].
  rewrite opt_type_text_erase, opt_text_erase. reflexivity.
Qed.

Lemma nc_meta_decl_erase d : nc_meta_decl (e_meta_decl d) = nc_meta_decl d.
Proof.
  unfold nc_meta_decl. cbn [e_meta_decl md_type md_name md_doc ek p_text]. rewrite type_text_erase, opt_text_erase. reflexivity.
Qed.

Lemma nc_ref_meta_decl_erase d : nc_ref_meta_decl (e_ref_meta_decl d) = nc_ref_meta_decl d.
Proof.
  unfold nc_ref_meta_decl. cbn [e_ref_meta_decl rm_typ rm_name rm_doc ek p_text]. rewrite opt_text_erase. reflexivity.
Qed.

Lemma key_items_text_erase l : map p_text (key_items (e_key_list l)) = map p_text (key_items l).
Proof.
  unfold key_items, list_items. cbn [e_key_list li_first li_rest].
  destruct l as [sp o f rest c]. cbn [li_first li_rest].
  assert (H : forall r, map p_text (filter is_item (map snd (map e_pair r))) = map p_text (filter is_item (map snd r))).
  { induction r as [|[a b] r IH]; [reflexivity|]. cbn [map filter snd e_pair fst].
    change (is_item (ek b)) with (is_item b). destruct (is_item b); cbn [map p_text ek]; rewrite IH; reflexivity. }
  cbn [filter]. change (is_item (ek f)) with (is_item f). destruct (is_item f); cbn [map ek p_text]; rewrite H; reflexivity.
Qed.

Lemma match_key_text_erase k : match_key_text (e_match_key k) = match_key_text k.
Proof.
  destruct k as [t|t|l]; try reflexivity. cbn [e_match_key match_key_text]. rewrite key_items_text_erase. reflexivity.
Qed.

Lemma nc_match_pair_erase p : nc_match_pair (e_match_pair p) = nc_match_pair p.
Proof.
  unfold nc_match_pair. cbn [e_match_pair mp_key mp_ident ek p_text]. rewrite match_key_text_erase. reflexivity.
Qed.

Lemma nc_match_pairs_erase ps : nc_match_pairs (map e_match_pair ps) = nc_match_pairs ps.
Proof. induction ps as [|p r IH]; [reflexivity|]. cbn [map nc_match_pairs]. rewrite nc_match_pair_erase, IH. reflexivity. Qed.

Lemma nc_match_field_decl_erase d : nc_match_field_decl (e_match_field_decl d) = nc_match_field_decl d.
Proof.
  unfold nc_match_field_decl. cbn [e_match_field_decl mf_key mf_name mf_pairs ek p_text]. rewrite nc_match_pairs_erase. reflexivity.
Qed.

Lemma nc_object_field_erase rep ft fn doc : nc_object_field (eo rep) (ek ft) (eo fn) (eo doc) = nc_object_field rep ft fn doc.
Proof. destruct rep; destruct fn; destruct doc; reflexivity. Qed.

Lemma nc_field_def_erase f : nc_field_def (e_field_def f) = nc_field_def f.
Proof.
  induction f as [sp rep sp' name open fields close comma IH|sp rep d|sp rep ft fn doc comma|sp d|sp d|sp d comma]
    using field_def_ind'.
  - cbn [e_field_def]. rewrite !nc_field_def_iner. rewrite kw_if_erase. cbn [ek p_text]. f_equal. f_equal.
    induction fields as [|f r IHr]; [reflexivity|]. inversion IH as [|x l Hx Hl]; subst.
    cbn [map nc_field_defs]. rewrite Hx, (IHr Hl). reflexivity.
  - cbn [e_field_def nc_field_def]. rewrite kw_if_erase, nc_meta_decl_erase. reflexivity.
  - cbn [e_field_def nc_field_def]. apply nc_object_field_erase.
  - cbn [e_field_def nc_field_def]. apply nc_length_field_decl_erase.
  - cbn [e_field_def nc_field_def]. apply nc_checksum_field_decl_erase.
  - cbn [e_field_def nc_field_def]. rewrite nc_match_field_decl_erase. reflexivity.
Qed.

Lemma nc_field_with_attr_erase f : nc_field_with_attr (e_field_with_attr f) = nc_field_with_attr f.
Proof.
  unfold nc_field_with_attr. cbn [e_field_with_attr fw_attrs fw_def]. rewrite nc_field_attributes_erase, nc_field_def_erase. reflexivity.
Qed.

Lemma nc_fields_with_attr_erase fs : nc_fields_with_attr (map e_field_with_attr fs) = nc_fields_with_attr fs.
Proof.
  induction fs as [|f r IH]; [reflexivity|]. cbn [map nc_fields_with_attr]. rewrite nc_field_with_attr_erase, IH. reflexivity.
Qed.

Lemma nc_packet_def_erase d : nc_packet_def (e_packet_def d) = nc_packet_def d.
Proof.
  unfold nc_packet_def. cbn [e_packet_def pd_root pd_name pd_fields ek p_text].
  rewrite kw_if_erase, nc_fields_with_attr_erase. reflexivity.
Qed.

Lemma nc_option_decl_erase d : nc_option_decl (e_option_decl d) = nc_option_decl d.
Proof.
  unfold nc_option_decl. cbn [e_option_decl od_name od_value od_semi ek p_text]. rewrite value_text_erase, kw_if_erase. reflexivity.
Qed.

Lemma nc_option_decls_erase ds : nc_option_decls (map e_option_decl ds) = nc_option_decls ds.
Proof. induction ds as [|d r IH]; [reflexivity|]. cbn [map nc_option_decls]. rewrite nc_option_decl_erase, IH. reflexivity. Qed.

Lemma nc_option_def_erase d : nc_option_def (e_option_def d) = nc_option_def d.
Proof. unfold nc_option_def. cbn [e_option_def op_decls]. rewrite nc_option_decls_erase. reflexivity. Qed.

Lemma nc_meta_items_erase items : nc_meta_items (map e_meta_item items) = nc_meta_items items.
Proof.
  induction items as [|i r IH]; [reflexivity|]. cbn [map nc_meta_items]. rewrite IH.
  destruct i as [d|d]; cbn [e_meta_item nc_meta_item]; [rewrite nc_meta_decl_erase|rewrite nc_ref_meta_decl_erase]; reflexivity.
Qed.

Lemma nc_meta_def_erase d : nc_meta_def (e_meta_def d) = nc_meta_def d.
Proof. unfold nc_meta_def. cbn [e_meta_def me_name me_items ek p_text]. rewrite nc_meta_items_erase. reflexivity. Qed.

Lemma nc_definition_erase d : nc_definition (e_definition d) = nc_definition d.
Proof.
  destruct d as [x|x|x]; cbn [e_definition nc_definition];
    [apply nc_packet_def_erase|apply nc_meta_def_erase|apply nc_option_def_erase].
Qed.

Lemma nc_definitions_erase ds : nc_definitions (map e_definition ds) = nc_definitions ds.
Proof.
  induction ds as [|d r IH]; [reflexivity|]. cbn [map nc_definitions]. rewrite nc_definition_erase, IH.
  destruct r; reflexivity.
Qed.

Theorem nc_pt_erase t : nc_pt (e_pt t) = nc_pt t.
Proof. unfold nc_pt, nc_packet. cbn [e_pt pk_defs]. rewrite nc_definitions_erase. reflexivity. Qed.
