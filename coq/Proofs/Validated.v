(* Soundness of the validator (encoders): a validated program writes, for every packet,
   message, buffer prefix and fuel, exactly the bytes of the wire specification. *)
From FP Require Import Validate EqvSoundEnc RefEnc.
Open Scope list_scope.

Lemma existsb_eqb_in x l : existsb (String.eqb x) l = true <-> In x l.
Proof.
  rewrite existsb_exists. split.
  - intros [y [Hin He]]. apply String.eqb_eq in He. subst. exact Hin.
  - intros H. exists x. split; [exact H|apply String.eqb_refl].
Qed.

Lemma nodupb_NoDup l : nodupb l = true -> NoDup l.
Proof.
  induction l as [|x r IH]; cbn [nodupb]; intros H; [constructor|].
  apply andb_prop in H. destruct H as [Hx Hr]. constructor; [|apply IH; exact Hr].
  intros Hin. apply existsb_eqb_in in Hin. rewrite Hin in Hx. discriminate.
Qed.

Theorem validated_enc_correct cs M O :
  validate_enc M O = true ->
  forall fuel path p v buf b,
    In (path, p) (all_packets M) ->
    lay_packet cs M fuel p v buf = Some b ->
    sem_enc cs O fuel path v buf = Some b.
Proof.
  unfold validate_enc, paths_ok. intros H. apply andb_prop in H. destruct H as [Hp He].
  intros fuel path p v buf b Hin Hl.
  rewrite (enc_prog_eqv_sound cs _ _ He).
  apply (ref_enc_correct cs M (mk_of O) (nodupb_NoDup _ Hp) fuel path p); assumption.
Qed.

(* ---- decoders ---- *)
From FP Require Import EqvSoundDec RefDec Typed.

Definition validate_dec_full (M : bmodel) (O : prog) : bool := andb (validate_dec M O) (lenw_ok M).

Theorem validated_dec_correct cs M O :
  validate_dec_full M O = true ->
  forall fuel path p v pre out,
    In (path, p) (all_packets M) -> typed M fuel p v = true ->
    lay_packet cs M fuel p v pre = Some out ->
    exists msg v',
      out = pre ++ msg /\
      (forall rest, sem_dec O fuel path (msg ++ rest) = DOk (v', rest)) /\
      ueq cs M fuel p v v' /\
      lay_packet cs M fuel p v' pre = Some out.
Proof.
  unfold validate_dec_full, validate_dec, paths_ok. intros H.
  apply andb_prop in H. destruct H as [H Hlw]. apply andb_prop in H. destruct H as [Hp He].
  intros fuel path p v pre out Hin Ht Hlay.
  destruct (ref_dec_correct cs M (mk_of O) (nodupb_NoDup _ Hp) Hlw fuel path p v pre out Hin Ht Hlay)
    as [msg [v' [Ho [Hd [Hu Hre]]]]].
  exists msg, v'. split; [exact Ho|]. split; [|split; assumption].
  intros rest. rewrite (dec_prog_eqv_sound _ _ He). apply Hd.
Qed.
