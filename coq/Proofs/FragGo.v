(* Go: on the fragment go_frag_enc / go_frag_dec (Gen/Frag.v) the generator model's output
   is accepted by the validator - for ALL models. *)
From FP Require Import Validate Frag BytesLemmas Paths RefEnc RefDec Validated FragCommon.
From Coq Require Import Lia.
Open Scope nat_scope.
Open Scope list_scope.

Ltac cond1 H := apply conds_ok_cons in H; destruct H as [H _].

Section GoPacket.
  Variable M : bmodel.
  Variable mk : string -> packet -> nat.
  Variable path : string.
  Variable p : packet.
  Hypothesis Hmk : mk path p = go_pkt_mark M p.
  Let n := length (p_fields p).

  Lemma go_lc_index_lt t : is_some (index_where (fun n' => String.eqb (lcamel M n') (lcamel M t)) (p_fields p) 0) = true ->
    FP.Go.lc_index M p t < n.
  Proof.
    unfold FP.Go.lc_index. destruct (index_where _ (p_fields p) 0) as [i|] eqn:E; [|discriminate].
    intros _. apply index_where_lt in E. unfold n. lia.
  Qed.

  Lemma go_enc_field_ok i f :
    i < n -> conds_ok (go_enc_conds M path p i f) = true ->
    steps_ok n (go_enc_step M path p i f) (ref_enc_field M mk path p i f) = true.
  Proof.
    intros Hi H. destruct f as [fn a la rp].
    unfold go_enc_conds in H. unfold go_enc_step, ref_enc_field. cbn [f_rep f_attr f_len] in *.
    destruct rp.
    - (* repeated *)
      unfold go_enc_list, ref_elem. cbn [f_attr].
      destruct a as [t|len fp| |tg lt|alg t|iner pn rf inl|k ka pairs|]; try (cond1 H; discriminate H).
      + cond1 H. apply numeric_inv in H. destruct H as [w Hw].
        unfold go_scalar. rewrite (wof_basic _ _ _ _ _ Hw), (scalar_width_numeric _ _ Hw). cbn [opt_w].
        apply se_elem; [reflexivity|]. apply eqv_list. apply eqv_int.
      + cond1 H. apply se_elem; [reflexivity|]. apply eqv_list. apply eqv_fixed.
        apply pad_ok_eqb; [exact norm_go_good|exact H].
      + apply se_elem; [reflexivity|]. apply eqv_list. apply eqv_str.
      + cond1 H. unfold obj_ok, ref_obj_path in *.
        destruct (obj_path path _) as [ty|]; [|discriminate].
        apply se_elem; [reflexivity|]. apply eqv_list. apply eqv_obj.
    - unfold go_enc_field. cbn [f_len f_attr].
      assert (Hplain :
        conds_ok (match a with
          | ABasic t => [("numeric_scalar", numeric t)]
          | ALen (Some t) lt =>
              [("numeric_scalar", numeric lt);
               ("len_target_resolves",
                is_some (index_where (fun n' => String.eqb (lcamel M n') (lcamel M t)) (p_fields p) 0));
               ("len_mark_shared", Nat.eqb (FP.Go.lc_index M p t) (go_pkt_mark M p))]
          | ALen None _ => [("len_target_named", false)]
          | ACheck _ t => [("numeric_scalar", numeric t)]
          | AFixed _ fp => [("pad_literal", pad_ok M fp)]
          | ADyn => []
          | AObj _ _ _ _ => [("object_resolves", obj_ok path (mkField fn a la false))]
          | AMatch _ _ _ => []
          | ANil => [("attr_present", false)]
          end)%string = true ->
        steps_ok n
          match a with
          | ALen (Some t) _ => [(FP.Go.lc_index M p t, EMarkZero (FP.Go.lc_index M p t) (opt_w (go_scalar (mkField fn a la false))) (le_of M))]
          | _ => [(i, match a with
                      | ABasic _ => match go_scalar (mkField fn a la false) with Some w => EInt w (le_of M) | None => ENone "omitted" end
                      | ALen _ _ => ENone "unresolved"
                      | ACheck alg _ => ECheck alg (opt_w (go_scalar (mkField fn a la false))) (le_of M)
                      | AFixed n0 _ => EFixed n0 (go_pad M a)
                      | ADyn => EStr (cfg_str_w M) (le_of M) (le_of M)
                      | AObj _ _ _ _ => match obj_path path (mkField fn a la false) with Some ty => EObj ty | None => ENone "unresolved" end
                      | AMatch _ _ _ => EDyn
                      | ANil => ENone "marker"
                      end)]
          end
          match a with
          | ALen _ t => [(i, EMarkZero (mk path p) (opt_w (ty_width (get_basic_type t))) (le_of M))]
          | ACheck alg t => [(i, ECheck alg (opt_w (ty_width (get_basic_type t))) (le_of M))]
          | _ => [(i, ref_elem M path (mkField fn a la false))]
          end = true).
      { clear H. intros H. unfold ref_elem. cbn [f_attr].
        destruct a as [t|len fp| |tg lt|alg t|iner pn rf inl|k ka pairs|]; try (cond1 H; discriminate H).
        - cond1 H. apply numeric_inv in H. destruct H as [w Hw].
          unfold go_scalar. rewrite (wof_basic _ _ _ _ _ Hw), (scalar_width_numeric _ _ Hw). cbn [opt_w].
          apply se_elem; [reflexivity|apply eqv_int].
        - cond1 H. apply se_elem; [reflexivity|]. apply eqv_fixed. apply pad_ok_eqb; [exact norm_go_good|exact H].
        - apply se_elem; [reflexivity|apply eqv_str].
        - destruct tg as [t|]; [|cond1 H; discriminate H].
          apply conds_ok_cons in H. destruct H as [H1 H]. apply conds_ok_cons in H. destruct H as [H2 H]. cond1 H.
          apply numeric_inv in H1. destruct H1 as [w Hw].
          unfold go_scalar. rewrite (wof_len _ _ _ _ _ _ Hw), Hw. cbn [opt_w].
          apply Nat.eqb_eq in H. rewrite Hmk, <- H.
          apply se_mark; [apply go_lc_index_lt; exact H2|exact Hi|apply order_eqb_refl].
        - cond1 H. apply numeric_inv in H. destruct H as [w Hw].
          unfold go_scalar. rewrite (wof_check _ _ _ _ _ _ Hw), Hw. cbn [opt_w].
          apply se_check. apply order_eqb_refl.
        - cond1 H. unfold obj_ok, ref_obj_path in *.
          destruct (obj_path path _) as [ty|]; [|discriminate].
          apply se_elem; [reflexivity|apply eqv_obj].
        - apply se_elem; reflexivity. }
      destruct la.
      + apply Hplain in H. destruct a as [t|len fp| |[tg|] lt|alg t|iner pn rf inl|k ka pairs|]; exact H.
      + (* length-of target *)
        clear Hplain.
        apply conds_ok_cons in H. destruct H as [H1 H]. apply conds_ok_cons in H. destruct H as [H2 H].
        apply conds_ok_cons in H. destruct H as [H3 H]. apply conds_ok_cons in H. destruct H as [H4 H]. cond1 H.
        assert (Hlw : match len_field_index p with
                      | Some li => match nth_error (p_fields p) li with
                                   | Some lf => opt_w (go_scalar lf)
                                   | None => 0
                                   end
                      | None => 0
                      end = opt_w (lenf_w p)).
        { unfold lenf_w, len_field, go_scalar. destruct (len_field_index p) as [li|]; [|reflexivity].
          destruct (nth_error (p_fields p) li); reflexivity. }
        rewrite Hlw. unfold ref_len_w, len_w_agree in *.
        destruct (lenf_w p) as [w|]; [|discriminate]. destruct (len_width p) as [w'|]; [|discriminate].
        apply Nat.eqb_eq in H3. subst w'. cbn [opt_w].
        destruct (len_field_index p) as [li|]; [|discriminate]. rewrite H2.
        cbn [f_name] in H. apply Nat.eqb_eq in H. rewrite Hmk, <- H.
        assert (Hcw : orb (Nat.eqb w w) (andb (Nat.leb w w) (Nat.leb w w)) = true) by (rewrite Nat.eqb_refl; reflexivity).
        unfold ref_elem. cbn [f_attr].
        destruct a as [t|len fp| |tg lt|alg t|iner pn rf inl|k ka pairs|]; try discriminate H1.
        * unfold obj_ok, ref_obj_path in *. destruct (obj_path path _) as [ty|]; [|discriminate].
          apply se_target; [exact Hi|exact Hi|apply eqv_obj|apply order_eqb_refl|exact Hcw|exact H4].
        * apply se_target; [exact Hi|exact Hi|reflexivity|apply order_eqb_refl|exact Hcw|exact H4].
      + apply Hplain in H. destruct a as [t|len fp| |[tg|] lt|alg t|iner pn rf inl|k ka pairs|]; exact H.
  Qed.
End GoPacket.

Lemma go_first_mark M path p i f r :
  first_mark (go_enc_step M path p i f ++ r) = match go_field_mark M p f with Some m => m | None => first_mark r end.
Proof.
  destruct f as [fn a la rp]. unfold go_enc_step, go_field_mark, go_enc_list, go_enc_field. cbn [f_rep f_attr f_len].
  destruct rp.
  - destruct a as [t|len fp| |tg lt|alg t|iner pn rf inl|k ka pairs|]; cbn [app first_mark]; try reflexivity.
    + destruct (go_scalar _); reflexivity.
    + destruct (obj_path path _); reflexivity.
  - destruct la; destruct a as [t|len fp| |[tg|] lt|alg t|iner pn rf inl|k ka pairs|]; cbn [app first_mark]; try reflexivity;
      try (destruct (go_scalar _); reflexivity); try (destruct (obj_path path _); reflexivity).
Qed.

Lemma go_packet_enc M mk path p :
  mk path p = first_mark (ir_enc (go_ir M path p)) ->
  conds_ok (fields_conds (go_enc_conds M) path p) = true ->
  ir_members (go_ir M path p) = length (p_fields p) /\
  steps_ok (length (p_fields p)) (ir_enc (go_ir M path p)) (ir_enc (ref_ir M mk path p)) = true.
Proof.
  intros Hmk H. split; [reflexivity|].
  unfold go_ir, ref_ir in *. cbn [ir_enc] in *.
  rewrite (first_mark_flat (go_enc_step M path p) (go_field_mark M p)) in Hmk by (intros; apply go_first_mark).
  fold (go_pkt_mark M p) in Hmk.
  apply steps_ok_flat. intros [i f] Hin.
  destruct (number_in _ _ _ _ Hin) as [Hi _].
  apply go_enc_field_ok; [exact Hmk|lia|].
  exact (fields_conds_in _ _ _ _ _ H Hin).
Qed.

Lemma gen_go_gprog M : gen_go M = gprog (string * packet) (fun x => x) (fun x => go_ir M (fst x) (snd x)) (all_packets M).
Proof. unfold gen_go, gprog. apply map_ext. intros [path p]. reflexivity. Qed.

Theorem go_frag_enc_validates M : go_frag_enc M = true -> validate_enc M (gen_go M) = true.
Proof.
  unfold go_frag_enc, go_enc_all. intros H. apply conds_ok_cons in H. destruct H as [Hp H].
  rewrite gen_go_gprog. apply generic_validate_enc; [symmetry; apply map_id|exact Hp|].
  intros [path p] mk Hin Hmk. cbn [fst snd] in *.
  apply go_packet_enc; [exact Hmk|].
  exact (packets_conds_in M _ path p H Hin).
Qed.

(* ------------------------------------------------------------ decoder *)

Lemma onat_eqb_inv a b : onat_eqb a b = true -> exists k, a = Some k /\ b = Some k.
Proof.
  destruct a as [x|], b as [y|]; cbn [onat_eqb]; try discriminate.
  intros H. apply Nat.eqb_eq in H. subst. exists y. split; reflexivity.
Qed.

Lemma go_dec_field_ok M path p i f :
  conds_ok (go_dec_conds M path p i f) = true ->
  dsteps_ok [(i, go_dec_step M path p f)] (ref_dec_field M path p i f) = true.
Proof.
  intros H. destruct f as [fn a la rp].
  unfold go_dec_conds in H. unfold go_dec_step, ref_dec_field. cbn [f_rep f_attr f_len] in *.
  destruct rp.
  - unfold go_dec_list, ref_delem. cbn [f_attr].
    destruct a as [t|len fp| |tg lt|alg t|iner pn rf inl|k ka pairs|]; try (cond1 H; discriminate H).
    + cond1 H. apply numeric_inv in H. destruct H as [w Hw].
      unfold go_scalar. rewrite (wof_basic _ _ _ _ _ Hw), (scalar_width_numeric _ _ Hw). cbn [opt_w].
      apply dse. apply deqv_list. apply deqv_int.
    + cond1 H. apply dse. apply deqv_list. apply deqv_fixed. apply pad_ok_eqb; [exact norm_go_good|exact H].
    + apply dse. apply deqv_list. apply deqv_str.
    + apply conds_ok_cons in H. destruct H as [H1 H]. cond1 H.
      unfold obj_ok, ref_obj_path in *.
      destruct (field_get_type _) as [t|]; [|discriminate].
      destruct (obj_path path _) as [ty|]; [|discriminate]. rewrite H.
      apply dse. apply deqv_list. apply deqv_obj.
  - unfold go_dec_field, ref_delem. cbn [f_attr].
    destruct a as [t|len fp| |tg lt|alg t|iner pn rf inl|[k|] ka pairs|]; try (cond1 H; discriminate H).
    + cond1 H. apply numeric_inv in H. destruct H as [w Hw].
      unfold go_scalar. rewrite (wof_basic _ _ _ _ _ Hw), (scalar_width_numeric _ _ Hw). cbn [opt_w].
      apply dse. apply deqv_int.
    + cond1 H. apply dse. apply deqv_fixed. apply pad_ok_eqb; [exact norm_go_good|exact H].
    + apply dse. apply deqv_str.
    + cond1 H. apply numeric_inv in H. destruct H as [w Hw].
      unfold go_scalar. rewrite (wof_len _ _ _ _ _ _ Hw), Hw. cbn [opt_w].
      apply dse. apply deqv_int.
    + cond1 H. apply numeric_inv in H. destruct H as [w Hw].
      unfold go_scalar. rewrite (wof_check _ _ _ _ _ _ Hw), Hw. cbn [opt_w].
      apply dse. apply deqv_int.
    + apply conds_ok_cons in H. destruct H as [H1 H]. cond1 H.
      unfold obj_ok, ref_obj_path in *. cbn [f_name] in *.
      destruct (field_get_type _) as [t|]; [|discriminate].
      destruct (obj_path path _) as [ty|]; [|discriminate]. rewrite H.
      apply dse. apply deqv_obj.
    + apply conds_ok_cons in H. destruct H as [H1 H]. apply conds_ok_cons in H. destruct H as [H2 H]. cond1 H.
      apply onat_eqb_inv in H1. destruct H1 as [ki [E1 E2]]. rewrite E1, E2.
      apply tbl_eqb_eq in H2. rewrite H2. unfold pairs_tbl in *.
      apply dse. apply deqv_dispatch. rewrite H. apply orb_true_r.
Qed.

Lemma go_packet_dec M mk path p :
  conds_ok (fields_conds (go_dec_conds M) path p) = true ->
  ir_members (go_ir M path p) = length (p_fields p) /\
  dsteps_ok (ir_dec (go_ir M path p)) (ir_dec (ref_ir M mk path p)) = true.
Proof.
  intros H. split; [reflexivity|].
  unfold go_ir, ref_ir. cbn [ir_dec]. rewrite map_as_flat_map.
  apply dsteps_ok_flat. intros [i f] Hin.
  apply go_dec_field_ok. exact (fields_conds_in _ _ _ _ _ H Hin).
Qed.

Theorem go_frag_dec_validates M : go_frag_dec M = true -> validate_dec M (gen_go M) = true.
Proof.
  unfold go_frag_dec, go_dec_all. intros H. apply conds_ok_cons in H. destruct H as [Hp H].
  apply conds_ok_cons in H. destruct H as [_ H].
  rewrite gen_go_gprog. apply generic_validate_dec; [symmetry; apply map_id|exact Hp|].
  intros [path p] Hin. cbn [fst snd] in *.
  apply go_packet_dec. exact (packets_conds_in M _ path p H Hin).
Qed.

Theorem go_frag_dec_validates_full M : go_frag_dec M = true -> validate_dec_full M (gen_go M) = true.
Proof.
  intros H. unfold validate_dec_full. rewrite (go_frag_dec_validates M H). cbn [andb].
  unfold go_frag_dec, go_dec_all in H. apply conds_ok_cons in H. destruct H as [_ H].
  apply conds_ok_cons in H. destruct H as [H _]. rewrite <- frag_lenw_ok_eq. exact H.
Qed.
