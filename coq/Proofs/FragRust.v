(* Rust: on the fragment rust_frag_enc / rust_frag_dec (Gen/Frag.v) the generator model's
   output is accepted by the validator - for ALL models. *)
From FP Require Import Validate Frag BytesLemmas Paths RefEnc RefDec Validated FragCommon.
From Coq Require Import Lia.
Open Scope nat_scope.
Open Scope list_scope.

Ltac cond1 H := apply conds_ok_cons in H; destruct H as [H _].
Ltac cond2 H H1 := apply conds_ok_cons in H; destruct H as [H1 H].
Ltac get_num Hc w Hw := cond1 Hc; apply numeric_inv in Hc; destruct Hc as [w Hw].

Lemma rs_w_numeric x w : ty_width x = Some w -> rs_w x = w.
Proof. intros H. unfold rs_w. rewrite H. reflexivity. Qed.

Lemma rs_enc_scalar_numeric M x w : ty_width x = Some w ->
  exists l, rs_enc_scalar M x = Some (EInt w l) /\ order_eqb w l (le_of M) = true.
Proof.
  intros H. pose proof (ty_width_cases x w H) as Hc. cbn [In] in Hc.
  repeat (destruct Hc as [Hc|Hc];
          [subst x; cbn in H; inversion H; try subst w; eexists; split; [reflexivity|first [apply order_eqb_refl|unfold order_eqb; apply orb_true_r]]|]).
  destruct Hc.
Qed.

Lemma rs_dec_scalar_numeric M x w : ty_width x = Some w ->
  exists l, rs_dec_scalar M x = Some (DInt w l) /\ order_eqb w l (le_of M) = true.
Proof.
  intros H. pose proof (ty_width_cases x w H) as Hc. cbn [In] in Hc.
  repeat (destruct Hc as [Hc|Hc];
          [subst x; cbn in H; inversion H; try subst w; eexists; split; [reflexivity|first [apply order_eqb_refl|unfold order_eqb; apply orb_true_r]]|]).
  destruct Hc.
Qed.

Lemma numeric_not_char x w : ty_width x = Some w -> String.eqb x "char" = false.
Proof. intros H. exact (proj2 (proj2 (numeric_norm x w H))). Qed.

Lemma char_list_order M : orb (negb (le_of M)) (Nat.leb (cfg_list_w M) 1) = true ->
  order_eqb (cfg_list_w M) false (le_of M) = true.
Proof. unfold order_eqb. destruct (le_of M); cbn [negb orb Bool.eqb]; intros H; [exact H|reflexivity]. Qed.

Lemma order_eqb_one a b : order_eqb 1 a b = true.
Proof. unfold order_eqb. apply orb_true_r. Qed.

Section RustPacket.
  Variable M : bmodel.
  Variable mk : string -> packet -> nat.
  Variable top : packet.
  Variable path : string.
  Variable p : packet.
  Hypothesis Hmk : mk path p = rs_pkt_mark M p.
  Let n := length (p_fields p).

  Lemma rs_enc_field_ok i f :
    i < n -> conds_ok (rs_enc_conds M top path p i f) = true ->
    steps_ok n (rs_enc_step M top p i f) (ref_enc_field M mk path p i f) = true.
  Proof.
    intros Hi H. unfold rs_enc_conds in H. apply conds_ok_app in H. destruct H as [Hc H].
    unfold rs_common_conds in Hc. cond2 Hc Hsn. apply Nat.eqb_eq in Hsn.
    destruct f as [fn a la rp].
    unfold rs_enc_step, ref_enc_field. cbv zeta. rewrite Hsn. cbn [f_rep f_attr f_len f_name] in *.
    unfold ref_elem. cbn [f_attr].
    destruct a as [t|len fp| |tg lt|alg t|iner pn rf inl|k ka pairs|]; destruct rp;
      try (cond1 Hc; discriminate Hc).
    - (* repeat scalar *)
      cond2 Hc Hs. cond1 Hc. apply orb_prop in Hs. destruct Hs as [Hs|Hs].
      + apply numeric_inv in Hs. destruct Hs as [w Hw].
        rewrite (fgt_basic _ _ _ _ _ Hw). unfold rs_enc_list. rewrite (fgt_basic _ _ _ _ _ Hw). cbn [f_attr].
        rewrite (numeric_not_char _ _ Hw), (rs_w_numeric _ _ Hw), (scalar_width_numeric _ _ Hw). cbn [opt_w].
        apply se_elem; [reflexivity|]. apply eqv_list. apply eqv_int.
      + apply String.eqb_eq in Hs. subst t. rewrite String.eqb_refl in Hc. apply char_list_order in Hc.
        change (field_get_type (mkField fn (ABasic "char") la true)) with (Some "char"%string). cbv iota.
        unfold rs_enc_list. change (field_get_type (mkField fn (ABasic "char") la true)) with (Some "char"%string).
        cbn [f_attr]. change (String.eqb "char" "char") with true. cbv iota.
        change (scalar_width (get_basic_type "char")) with (Some 1). cbn [opt_w].
        apply se_elem; [reflexivity|]. apply eqv_list_o; [exact Hc|]. apply eqv_int_o. apply order_eqb_one.
    - (* scalar *)
      cond1 Hc. apply orb_prop in Hc. destruct Hc as [Hs|Hs].
      + apply numeric_inv in Hs. destruct Hs as [w Hw].
        rewrite (fgt_basic _ _ _ _ _ Hw), (scalar_width_numeric _ _ Hw). cbn [opt_w].
        destruct (rs_enc_scalar_numeric M _ w Hw) as [l [Es Eo]]. rewrite Es.
        destruct la; try (cond1 H; discriminate H); (apply se_elem; [reflexivity|]); apply eqv_int_o; exact Eo.
      + apply String.eqb_eq in Hs. subst t.
        change (field_get_type (mkField fn (ABasic "char") la false)) with (Some "char"%string). cbv iota.
        change (rs_enc_scalar M "char") with (Some (EInt 1 false)). cbv iota.
        change (scalar_width (get_basic_type "char")) with (Some 1). cbn [opt_w].
        destruct la; try (cond1 H; discriminate H); (apply se_elem; [reflexivity|]); apply eqv_int_o; apply order_eqb_one.
    - cond1 Hc. unfold field_get_type, rs_enc_list. cbn [f_attr]. unfold field_get_type. cbn [f_attr].
      apply se_elem; [reflexivity|]. apply eqv_list. apply eqv_fixed. apply pad_ok_eqb; [exact norm_rust_good|exact Hc].
    - cond1 Hc. unfold field_get_type. cbn [f_attr].
      destruct la; try (cond1 H; discriminate H); (apply se_elem; [reflexivity|]); apply eqv_fixed;
        (apply pad_ok_eqb; [exact norm_rust_good|exact Hc]).
    - unfold field_get_type, rs_enc_list. cbn [f_attr]. unfold field_get_type. cbn [f_attr].
      apply se_elem; [reflexivity|]. apply eqv_list. apply eqv_str.
    - unfold field_get_type. cbn [f_attr].
      destruct la; try (cond1 H; discriminate H); (apply se_elem; [reflexivity|]); apply eqv_str.
    - (* length field *)
      get_num Hc w Hw. rewrite (fgt_len _ _ _ _ _ _ Hw), (rs_w_numeric _ _ Hw), Hw. cbn [opt_w].
      cond1 H. apply Nat.eqb_eq in H. rewrite Hsn in H. rewrite Hmk, <- H.
      apply se_mark; [exact Hi|exact Hi|apply order_eqb_refl].
    - (* checksum *)
      get_num Hc w Hw. rewrite (fgt_check _ _ _ _ _ _ Hw), (rs_w_numeric _ _ Hw), Hw. cbn [opt_w].
      cond1 H. rewrite Hw in H. apply se_check. unfold order_eqb.
      destruct (le_of M); [cbn [negb orb] in H; rewrite H; apply orb_true_r|reflexivity].
    - (* repeat object *)
      cond2 Hc H1. cond1 Hc. apply andb_prop in H1. destruct H1 as [Hg Ho].
      unfold obj_ok, ref_obj_path, rs_enc_list in *.
      destruct (field_get_type _) as [t|]; [|discriminate Hg]. cbn [f_attr].
      destruct (obj_path path _) as [ty|]; [|discriminate Ho].
      apply String.eqb_eq in Hc. rewrite Hc.
      apply se_elem; [reflexivity|]. apply eqv_list. apply eqv_obj.
    - (* object *)
      cond2 Hc H1. cond1 Hc. apply andb_prop in H1. destruct H1 as [Hg Ho].
      unfold obj_ok, ref_obj_path in *.
      destruct (field_get_type _) as [t|]; [|discriminate Hg].
      destruct (obj_path path _) as [ty|]; [|discriminate Ho].
      apply String.eqb_eq in Hc. rewrite Hc.
      destruct la; try (cond1 H; discriminate H); (apply se_elem; [reflexivity|]); apply eqv_obj.
    - (* match *)
      change (field_get_type (mkField fn (AMatch k ka pairs) la false)) with (Some "match"%string).
      cbv iota. cond2 H He. rewrite He.
      destruct la; try (apply se_elem; reflexivity).
      cond2 H H1. cond2 H H2. cond1 H.
      destruct (p_lenf p) as [ln|]; [|discriminate H].
      unfold len_w_agree, ref_len_w, lenf_w, len_field, width_of_field in *.
      destruct (len_field_index p) as [li|]; [|destruct (len_width p); discriminate H2].
      destruct (nth_error (p_fields p) li) as [lf|]; [|destruct (len_width p); discriminate H2].
      destruct (field_get_type lf) as [lt|]; [|destruct (len_width p); discriminate H2].
      destruct (len_width p) as [w'|]; [|discriminate H2].
      destruct (ty_width lt) as [w|] eqn:Ew; [|discriminate H2]. apply Nat.eqb_eq in H2. subst w'. cbn [opt_w].
      rewrite (rs_w_numeric _ _ Ew), H1. apply Nat.eqb_eq in H. rewrite Hmk, <- H.
      apply se_target; [exact Hi|exact Hi|reflexivity|apply order_eqb_refl| |apply Nat.leb_refl].
      rewrite Nat.eqb_refl. reflexivity.
  Qed.
End RustPacket.

Lemma fgt_len_some fn tg lt la rp : exists t, field_get_type (mkField fn (ALen tg lt) la rp) = Some t.
Proof.
  unfold field_get_type. cbn [f_attr attr_get_type]. cbv zeta.
  destruct (orb _ _); eexists; reflexivity.
Qed.

Lemma rs_first_mark M top p i f r :
  first_mark (rs_enc_step M top p i f ++ r) = match rs_field_mark M p f with Some m => m | None => first_mark r end.
Proof.
  destruct f as [fn a la rp]. unfold rs_enc_step, rs_field_mark. cbv zeta. cbn [f_rep f_attr f_len f_name].
  destruct a as [t|len fp| |tg lt|alg t|iner pn rf inl|k ka pairs|]; try reflexivity.
  4: { destruct (fgt_len_some fn tg lt la rp) as [t Et]. rewrite Et. reflexivity. }
  all: destruct (field_get_type _) as [t'|]; [|reflexivity].
  all: try (destruct rp; [unfold rs_enc_list; destruct (field_get_type _); cbn [f_attr]; try reflexivity; destruct (String.eqb _ "char"); reflexivity|]).
  all: try reflexivity.
  - destruct (rs_enc_scalar M t') as [s|] eqn:Es; [|reflexivity].
    unfold rs_enc_scalar in Es.
    repeat match type of Es with
           | (if ?c then _ else _) = _ => destruct c; [inversion Es; reflexivity|]
           end. discriminate Es.
  - destruct la; try (destruct (rs_enum_declared _ _); reflexivity).
    destruct (p_lenf p); [|reflexivity]. destruct (len_field_index p); [|reflexivity].
    destruct (nth_error (p_fields p) _) as [lf|]; [|reflexivity]. destruct (field_get_type lf); reflexivity.
Qed.

Lemma rs_dec_field_ok M top path p i f :
  conds_ok (rs_dec_conds M top path p i f) = true ->
  dsteps_ok (rs_dec_step M top p f) (ref_dec_field M path p i f) = true.
Proof.
  intros H. unfold rs_dec_conds in H. apply conds_ok_app in H. destruct H as [Hc H].
  unfold rs_common_conds in Hc. cond2 Hc Hsn. apply Nat.eqb_eq in Hsn.
  destruct f as [fn a la rp].
  unfold rs_dec_step, ref_dec_field. cbv zeta. rewrite Hsn. cbn [f_rep f_attr f_len f_name] in *.
  unfold ref_delem. cbn [f_attr].
  destruct a as [t|len fp| |tg lt|alg t|iner pn rf inl|[k|] ka pairs|]; destruct rp;
    try (cond1 Hc; discriminate Hc); try (cond1 H; discriminate H).
  - cond2 Hc Hs. cond1 Hc. apply orb_prop in Hs. destruct Hs as [Hs|Hs].
    + apply numeric_inv in Hs. destruct Hs as [w Hw].
      rewrite (fgt_basic _ _ _ _ _ Hw). unfold rs_dec_list. rewrite (fgt_basic _ _ _ _ _ Hw). cbn [f_attr].
      rewrite (numeric_not_char _ _ Hw), (rs_w_numeric _ _ Hw), (scalar_width_numeric _ _ Hw). cbn [opt_w].
      apply dse. apply deqv_list. apply deqv_int.
    + apply String.eqb_eq in Hs. subst t. rewrite String.eqb_refl in Hc. apply char_list_order in Hc.
      change (field_get_type (mkField fn (ABasic "char") la true)) with (Some "char"%string). cbv iota.
      unfold rs_dec_list. change (field_get_type (mkField fn (ABasic "char") la true)) with (Some "char"%string).
      cbn [f_attr]. change (String.eqb "char" "char") with true. cbv iota.
      change (scalar_width (get_basic_type "char")) with (Some 1). cbn [opt_w].
      apply dse. apply deqv_list_o; [exact Hc|]. apply deqv_int_o. apply order_eqb_one.
  - cond1 Hc. apply orb_prop in Hc. destruct Hc as [Hs|Hs].
    + apply numeric_inv in Hs. destruct Hs as [w Hw].
      rewrite (fgt_basic _ _ _ _ _ Hw), (scalar_width_numeric _ _ Hw). cbn [opt_w].
      destruct (rs_dec_scalar_numeric M _ w Hw) as [l [Es Eo]]. rewrite Es.
      apply dse. apply deqv_int_o. exact Eo.
    + apply String.eqb_eq in Hs. subst t.
      change (field_get_type (mkField fn (ABasic "char") la false)) with (Some "char"%string). cbv iota.
      change (rs_dec_scalar M "char") with (Some (DInt 1 false)). cbv iota.
      change (scalar_width (get_basic_type "char")) with (Some 1). cbn [opt_w].
      apply dse. apply deqv_int_o. apply order_eqb_one.
  - cond1 Hc. unfold field_get_type, rs_dec_list. cbn [f_attr]. unfold field_get_type. cbn [f_attr].
    apply dse. apply deqv_list. apply deqv_fixed. apply pad_ok_eqb; [exact norm_rust_good|exact Hc].
  - cond1 Hc. unfold field_get_type. cbn [f_attr].
    apply dse. apply deqv_fixed. apply pad_ok_eqb; [exact norm_rust_good|exact Hc].
  - unfold field_get_type, rs_dec_list. cbn [f_attr]. unfold field_get_type. cbn [f_attr].
    apply dse. apply deqv_list. apply deqv_str.
  - unfold field_get_type. cbn [f_attr]. apply dse. apply deqv_str.
  - get_num Hc w Hw. rewrite (fgt_len _ _ _ _ _ _ Hw), Hw. cbn [opt_w].
    destruct (rs_dec_scalar_numeric M _ w Hw) as [l [Es Eo]]. rewrite Es.
    apply dse. apply deqv_int_o. exact Eo.
  - get_num Hc w Hw. rewrite (fgt_check _ _ _ _ _ _ Hw), Hw. cbn [opt_w].
    destruct (rs_dec_scalar_numeric M _ w Hw) as [l [Es Eo]]. rewrite Es.
    apply dse. apply deqv_int_o. exact Eo.
  - cond2 Hc H1. cond1 Hc. apply andb_prop in H1. destruct H1 as [Hg Ho].
    unfold obj_ok, ref_obj_path, rs_dec_list in *.
    destruct (field_get_type _) as [t|]; [|discriminate Hg]. cbn [f_attr].
    destruct (obj_path path _) as [ty|]; [|discriminate Ho].
    apply String.eqb_eq in Hc. rewrite Hc.
    apply dse. apply deqv_list. apply deqv_obj.
  - cond2 Hc H1. cond1 Hc. apply andb_prop in H1. destruct H1 as [Hg Ho].
    unfold obj_ok, ref_obj_path in *.
    destruct (field_get_type _) as [t|]; [|discriminate Hg].
    destruct (obj_path path _) as [ty|]; [|discriminate Ho].
    apply String.eqb_eq in Hc. rewrite Hc.
    apply dse. apply deqv_obj.
  - change (field_get_type (mkField fn (AMatch (Some k) ka pairs) la false)) with (Some "match"%string).
    cbv iota. cond2 H H0. cond2 H He. cond2 H H1. cond1 H.
    destruct pairs as [|mp pairs]; [discriminate H0|].
    rewrite He.
    destruct (index_where (String.eqb k) (p_fields p) 0) as [ki|]; [|discriminate H1].
    apply Nat.eqb_eq in H1. rewrite H1. apply tbl_eqb_eq in H. rewrite H. unfold pairs_tbl.
    apply dse. apply deqv_dispatch. reflexivity.
Qed.

Lemma rs_packet_enc M mk top path p :
  mk path p = first_mark (ir_enc (rs_ir M top p)) ->
  conds_ok (fields_conds (rs_enc_conds M top) path p) = true ->
  ir_members (rs_ir M top p) = length (p_fields p) /\
  steps_ok (length (p_fields p)) (ir_enc (rs_ir M top p)) (ir_enc (ref_ir M mk path p)) = true.
Proof.
  intros Hmk H. split; [reflexivity|].
  unfold rs_ir, ref_ir in *. cbn [ir_enc] in *. rewrite rust_number_eq in *.
  rewrite (first_mark_flat (rs_enc_step M top p) (rs_field_mark M p)) in Hmk by (intros; apply rs_first_mark).
  fold (rs_pkt_mark M p) in Hmk.
  apply steps_ok_flat. intros [i f] Hin.
  destruct (number_in _ _ _ _ Hin) as [Hi _].
  apply rs_enc_field_ok; [exact Hmk|lia|].
  exact (fields_conds_in _ _ _ _ _ H Hin).
Qed.

Lemma rs_packet_dec M mk top path p :
  conds_ok (fields_conds (rs_dec_conds M top) path p) = true ->
  ir_members (rs_ir M top p) = length (p_fields p) /\
  dsteps_ok (ir_dec (rs_ir M top p)) (ir_dec (ref_ir M mk path p)) = true.
Proof.
  intros H. split; [reflexivity|].
  unfold rs_ir, ref_ir. cbn [ir_dec]. rewrite rust_number_eq.
  apply (dsteps_ok_flat (fun x : nat * field => let '(_, f) := x in rs_dec_step M top p f)). intros [i f] Hin.
  apply rs_dec_field_ok. exact (fields_conds_in _ _ _ _ _ H Hin).
Qed.

Lemma rs_tree_eq path p : rs_tree path p = packets_under path p.
Proof. reflexivity. Qed.

Definition rs_proj (x : packet * (string * packet)) : string * packet := snd x.
Definition rs_gir M (x : packet * (string * packet)) : pkt_ir := rs_ir M (fst x) (snd (snd x)).

Lemma rust_units_all M : all_packets M = map rs_proj (rust_units M).
Proof.
  unfold all_packets, rust_units. rewrite map_flat_map. apply flat_map_ext_in'. intros top _.
  rewrite map_map. cbn [rs_proj snd]. symmetry. apply map_id.
Qed.

Lemma gen_rust_gprog M : gen_rust M = gprog _ rs_proj (rs_gir M) (rust_units M).
Proof.
  unfold gen_rust, gprog, rust_units. rewrite map_flat_map. apply flat_map_ext_in'. intros top _.
  rewrite map_map, rs_tree_eq. apply map_ext. intros [path q]. reflexivity.
Qed.

Lemma rust_packets_conds_in M c x :
  conds_ok (rust_packets_conds M c) = true -> In x (rust_units M) -> conds_ok (c (fst x) (fst (snd x)) (snd (snd x))) = true.
Proof.
  intros H Hin. unfold rust_packets_conds in H.
  exact (conds_ok_flat_map _ _ H x Hin).
Qed.

Theorem rust_frag_enc_validates M : rust_frag_enc M = true -> validate_enc M (gen_rust M) = true.
Proof.
  unfold rust_frag_enc, rust_enc_all. intros H. cond2 H Hp.
  rewrite gen_rust_gprog. apply generic_validate_enc; [apply rust_units_all|exact Hp|].
  intros [top [path p]] mk Hin Hmk. cbn [rs_proj rs_gir fst snd] in *.
  apply rs_packet_enc; [exact Hmk|].
  exact (rust_packets_conds_in M _ _ H Hin).
Qed.

Theorem rust_frag_dec_validates M : rust_frag_dec M = true -> validate_dec M (gen_rust M) = true.
Proof.
  unfold rust_frag_dec, rust_dec_all. intros H. cond2 H Hp. cond2 H Hl.
  rewrite gen_rust_gprog. apply generic_validate_dec; [apply rust_units_all|exact Hp|].
  intros [top [path p]] Hin. cbn [rs_proj rs_gir fst snd] in *.
  apply rs_packet_dec. exact (rust_packets_conds_in M _ _ H Hin).
Qed.

Theorem rust_frag_dec_validates_full M : rust_frag_dec M = true -> validate_dec_full M (gen_rust M) = true.
Proof.
  intros H. unfold validate_dec_full. rewrite (rust_frag_dec_validates M H). cbn [andb].
  unfold rust_frag_dec, rust_dec_all in H. cond2 H Hp. cond2 H Hl. rewrite <- frag_lenw_ok_eq. exact Hl.
Qed.
