(* Lemmas shared by the language fragment theorems (Proofs/Frag<L>.v). *)
From FP Require Import Validate Frag BytesLemmas Paths RefEnc EqvSoundDec RefDec Validated.
From Coq Require Import Lia.
Open Scope nat_scope.
Open Scope list_scope.

(* ------------------------------------------------------------ conditions *)

Lemma conds_ok_app a b : conds_ok (a ++ b) = true <-> conds_ok a = true /\ conds_ok b = true.
Proof. unfold conds_ok. rewrite forallb_app. apply andb_true_iff. Qed.

Lemma conds_ok_cons n b r : conds_ok ((n, b) :: r) = true <-> b = true /\ conds_ok r = true.
Proof. unfold conds_ok. cbn [forallb snd]. apply andb_true_iff. Qed.

Lemma conds_ok_flat_map {A} (f : A -> conds) l :
  conds_ok (flat_map f l) = true -> forall x, In x l -> conds_ok (f x) = true.
Proof.
  induction l as [|y l IH]; cbn [flat_map]; intros H x Hin; [destruct Hin|].
  apply conds_ok_app in H. destruct H as [Hy Hl].
  destruct Hin as [E|Hin]; [subst; exact Hy|apply IH; assumption].
Qed.

Lemma packets_conds_in M c path p :
  conds_ok (packets_conds M c) = true -> In (path, p) (all_packets M) -> conds_ok (c path p) = true.
Proof.
  intros H Hin. unfold packets_conds in H.
  exact (conds_ok_flat_map (fun '(path, p) => c path p) _ H (path, p) Hin).
Qed.

Lemma fields_conds_in c path p i f :
  conds_ok (fields_conds c path p) = true -> In (i, f) (FP.Common.number 0 (p_fields p)) -> conds_ok (c path p i f) = true.
Proof.
  intros H Hin. unfold fields_conds in H.
  exact (conds_ok_flat_map (fun '(i, f) => c path p i f) _ H (i, f) Hin).
Qed.

(* ------------------------------------------------------------ lists *)

Lemma number_in {A} (l : list A) : forall k i x, In (i, x) (FP.Common.number k l) -> (k <= i < k + length l)%nat /\ In x l.
Proof.
  induction l as [|y l IH]; cbn [FP.Common.number]; intros k i x Hin; [destruct Hin|].
  destruct Hin as [E|Hin].
  - inversion E; subst. cbn [length]. split; [lia|left; reflexivity].
  - destruct (IH _ _ _ Hin) as [Hr Hx]. cbn [length]. split; [lia|right; exact Hx].
Qed.

Lemma rust_number_eq {A} (l : list A) : forall k, FP.Rust.number k l = FP.Common.number k l.
Proof. induction l as [|y l IH]; intros k; cbn; [reflexivity|rewrite IH; reflexivity]. Qed.
Lemma java_number_eq {A} (l : list A) : forall k, FP.Java.number k l = FP.Common.number k l.
Proof. induction l as [|y l IH]; intros k; cbn; [reflexivity|rewrite IH; reflexivity]. Qed.
Lemma py_number_eq {A} (l : list A) : forall k, py_number k l = FP.Common.number k l.
Proof. induction l as [|y l IH]; intros k; cbn; [reflexivity|rewrite IH; reflexivity]. Qed.
Lemma cpp_number_eq {A} (l : list A) : forall k, cpp_number k l = FP.Common.number k l.
Proof. induction l as [|y l IH]; intros k; cbn; [reflexivity|rewrite IH; reflexivity]. Qed.

Lemma forall2b_app {A} (f : A -> A -> bool) a b : forall a' b',
  forall2b f a b = true -> forall2b f a' b' = true -> forall2b f (a ++ a') (b ++ b') = true.
Proof.
  revert b. induction a as [|x a IH]; intros [|y b] a' b' H H'; cbn [forall2b app] in *; try discriminate; [exact H'|].
  apply andb_prop in H. destruct H as [Hx Hr]. rewrite Hx. cbn [andb]. apply IH; assumption.
Qed.

Lemma forall2b_map_same {A B} (f : B -> B -> bool) (g h : A -> B) l :
  (forall x, In x l -> f (g x) (h x) = true) -> forall2b f (map g l) (map h l) = true.
Proof.
  induction l as [|x l IH]; intros H; cbn [map forall2b]; [reflexivity|].
  rewrite (H x (or_introl eq_refl)). cbn [andb]. apply IH. intros y Hy. apply H. right. exact Hy.
Qed.

Lemma map_flat_map {A B C} (f : B -> C) (g : A -> list B) l :
  map f (flat_map g l) = flat_map (fun a => map f (g a)) l.
Proof. induction l as [|x l IH]; cbn [flat_map map]; [reflexivity|]. rewrite map_app, IH. reflexivity. Qed.

Lemma flat_map_ext_in' {A B} (f g : A -> list B) l :
  (forall x, In x l -> f x = g x) -> flat_map f l = flat_map g l.
Proof.
  induction l as [|x l IH]; intros H; cbn [flat_map]; [reflexivity|].
  rewrite (H x (or_introl eq_refl)), IH; [reflexivity|]. intros y Hy. apply H. right. exact Hy.
Qed.

Lemma map_as_flat_map {A B} (f : A -> B) l : map f l = flat_map (fun x => [f x]) l.
Proof. induction l as [|x l IH]; cbn [flat_map map app]; [reflexivity|]. rewrite IH. reflexivity. Qed.

(* ------------------------------------------------------------ encoders: packet level *)

Definition noop_free (l : list (nat * estep)) : bool := forallb (fun x => negb (is_noop (snd x))) l.

(* what the per-field lemmas establish *)
Definition steps_ok (n : nat) (a b : list (nat * estep)) : bool :=
  andb (forall2b (step_eqvb n) a b) (andb (noop_free a) (noop_free b)).

Lemma strip_noops_free n l : noop_free l = true -> strip_noops n l = Some l.
Proof.
  induction l as [|[i s] l IH]; cbn [noop_free forallb strip_noops snd]; intros H; [reflexivity|].
  apply andb_prop in H. destruct H as [Hs Hl]. fold (noop_free l) in Hl. rewrite (IH Hl).
  destruct (is_noop s); [discriminate|reflexivity].
Qed.

Lemma noop_free_app a b : noop_free (a ++ b) = andb (noop_free a) (noop_free b).
Proof. apply forallb_app. Qed.

Lemma steps_ok_flat {A} n (g r : A -> list (nat * estep)) l :
  (forall x, In x l -> steps_ok n (g x) (r x) = true) ->
  steps_ok n (flat_map g l) (flat_map r l) = true.
Proof.
  induction l as [|x l IH]; intros H; [reflexivity|]. cbn [flat_map].
  pose proof (H x (or_introl eq_refl)) as Hx.
  assert (Hl : steps_ok n (flat_map g l) (flat_map r l) = true) by (apply IH; intros y Hy; apply H; right; exact Hy).
  unfold steps_ok in *. apply andb_prop in Hx. destruct Hx as [Hx1 Hx2]. apply andb_prop in Hx2. destruct Hx2 as [Hx2 Hx3].
  apply andb_prop in Hl. destruct Hl as [Hl1 Hl2]. apply andb_prop in Hl2. destruct Hl2 as [Hl2 Hl3].
  rewrite (forall2b_app _ _ _ _ _ Hx1 Hl1), !noop_free_app, Hx2, Hx3, Hl2, Hl3. reflexivity.
Qed.

Lemma steps_ok_enc_eqvb n a b : steps_ok n a b = true -> enc_eqvb n a b = true.
Proof.
  unfold steps_ok, enc_eqvb. intros H. apply andb_prop in H. destruct H as [H1 H2]. apply andb_prop in H2. destruct H2 as [H2 H3].
  rewrite (strip_noops_free n a H2), (strip_noops_free n b H3). exact H1.
Qed.

(* the mark of a packet's first placeholder *)
Lemma first_mark_flat (g : nat -> field -> list (nat * estep)) (fm : field -> option nat) fs :
  (forall i f r, first_mark (g i f ++ r) = match fm f with Some m => m | None => first_mark r end) ->
  forall k, first_mark (flat_map (fun '(i, f) => g i f) (FP.Common.number k fs)) = first_some fm fs.
Proof.
  intros H. induction fs as [|f fs IH]; intros k; cbn [FP.Common.number flat_map first_some]; [reflexivity|].
  rewrite H. rewrite IH. reflexivity.
Qed.

(* ------------------------------------------------------------ decoders: packet level *)

Definition dnoop_free (l : list (nat * dstep)) : bool := forallb (fun x => negb (d_noop (snd x))) l.

Definition dsteps_ok (a b : list (nat * dstep)) : bool :=
  andb (forall2b dstep_eqvb a b) (andb (dnoop_free a) (dnoop_free b)).

Lemma dsteps_ok_flat {A} (g r : A -> list (nat * dstep)) l :
  (forall x, In x l -> dsteps_ok (g x) (r x) = true) ->
  dsteps_ok (flat_map g l) (flat_map r l) = true.
Proof.
  induction l as [|x l IH]; intros H; [reflexivity|]. cbn [flat_map].
  pose proof (H x (or_introl eq_refl)) as Hx.
  assert (Hl : dsteps_ok (flat_map g l) (flat_map r l) = true) by (apply IH; intros y Hy; apply H; right; exact Hy).
  unfold dsteps_ok, dnoop_free in *. apply andb_prop in Hx. destruct Hx as [Hx1 Hx2]. apply andb_prop in Hx2. destruct Hx2 as [Hx2 Hx3].
  apply andb_prop in Hl. destruct Hl as [Hl1 Hl2]. apply andb_prop in Hl2. destruct Hl2 as [Hl2 Hl3].
  rewrite (forall2b_app _ _ _ _ _ Hx1 Hl1), !forallb_app, Hx2, Hx3, Hl2, Hl3. reflexivity.
Qed.

Lemma dsteps_ok_dec_eqvb a b : dsteps_ok a b = true -> dec_eqvb a b = true.
Proof.
  unfold dsteps_ok, dnoop_free, dec_eqvb. intros H. apply andb_prop in H. destruct H as [H1 H2]. apply andb_prop in H2. destruct H2 as [H2 H3].
  rewrite H1, H2, H3. reflexivity.
Qed.

(* ------------------------------------------------------------ program level *)

Lemma find_ir_map_nodup {X} (key : X -> string) (g : X -> pkt_ir) (L : list X) x :
  NoDup (map key L) -> In x L -> find_ir (map (fun x => (key x, g x)) L) (key x) = Some (g x).
Proof.
  induction L as [|y L IH]; intros Hnd Hin; [destruct Hin|].
  cbn [map] in Hnd. inversion Hnd as [|k ks Hnotin Hnd']; subst.
  cbn [map find_ir]. destruct (String.eqb_spec (key y) (key x)) as [E|E].
  - destruct Hin as [Hin|Hin]; [subst; reflexivity|].
    exfalso. apply Hnotin. rewrite E. apply in_map. exact Hin.
  - destruct Hin as [Hin|Hin]; [subst; congruence|]. apply IH; assumption.
Qed.

Section Generic.
  Variable M : bmodel.
  Variable X : Type.
  Variable proj : X -> string * packet.
  Variable gir : X -> pkt_ir.
  Variable L : list X.
  Hypothesis HL : all_packets M = map proj L.

  Definition gprog : prog := map (fun x => (fst (proj x), gir x)) L.

  Lemma mk_of_gprog x :
    paths_ok M = true -> In x L -> mk_of gprog (fst (proj x)) (snd (proj x)) = first_mark (ir_enc (gir x)).
  Proof.
    intros Hp Hin. unfold mk_of, gprog.
    rewrite (find_ir_map_nodup (fun x => fst (proj x)) gir L x); [reflexivity| |exact Hin].
    unfold paths_ok in Hp. apply nodupb_NoDup in Hp. rewrite HL, map_map in Hp. exact Hp.
  Qed.

  Theorem generic_validate_enc :
    paths_ok M = true ->
    (forall x mk, In x L -> mk (fst (proj x)) (snd (proj x)) = first_mark (ir_enc (gir x)) ->
       ir_members (gir x) = length (p_fields (snd (proj x))) /\
       steps_ok (length (p_fields (snd (proj x)))) (ir_enc (gir x))
                (ir_enc (ref_ir M mk (fst (proj x)) (snd (proj x)))) = true) ->
    validate_enc M gprog = true.
  Proof.
    intros Hp H. unfold validate_enc. rewrite Hp. cbn [andb].
    unfold enc_prog_eqvb, ref_prog. rewrite HL, map_map. unfold gprog.
    apply forall2b_map_same. intros x Hin.
    destruct (H x (mk_of gprog) Hin (mk_of_gprog x Hp Hin)) as [Hm He].
    destruct (proj x) as [path p] eqn:Epx. cbn [fst snd] in *.
    unfold pkt_eqvb. cbn [fst snd]. rewrite String.eqb_refl. cbn [andb].
    rewrite Hm. cbn [ref_ir ir_members]. rewrite Nat.eqb_refl. cbn [andb].
    apply steps_ok_enc_eqvb. exact He.
  Qed.

  Theorem generic_validate_dec :
    paths_ok M = true ->
    (forall x, In x L ->
       ir_members (gir x) = length (p_fields (snd (proj x))) /\
       dsteps_ok (ir_dec (gir x)) (ir_dec (ref_ir M (mk_of gprog) (fst (proj x)) (snd (proj x)))) = true) ->
    validate_dec M gprog = true.
  Proof.
    intros Hp H. unfold validate_dec. rewrite Hp. cbn [andb].
    unfold dec_prog_eqvb, ref_prog. rewrite HL, map_map. unfold gprog.
    apply forall2b_map_same. intros x Hin.
    destruct (H x Hin) as [Hm He].
    destruct (proj x) as [path p] eqn:Epx. cbn [fst snd] in *.
    unfold pkt_eqvb. cbn [fst snd]. rewrite String.eqb_refl. cbn [andb].
    rewrite Hm. cbn [ref_ir ir_members]. rewrite Nat.eqb_refl. cbn [andb].
    apply dsteps_ok_dec_eqvb. exact He.
  Qed.
End Generic.

Lemma frag_lenw_ok_eq M : frag_lenw_ok M = lenw_ok M.
Proof. reflexivity. Qed.

(* ------------------------------------------------------------ the packet tree walk *)

Section Trav.
  Variable A : Type.
  Variable g : string -> packet -> A.

  Fixpoint trav (path : string) (p : packet) {struct p} : list (string * A) :=
    match p with
    | mkPacket _ _ _ fs _ =>
        (fix inl (fs : list field) : list (string * A) :=
           match fs with
           | [] => []
           | mkField fname (AObj true _ _ (Some q)) _ _ :: r => trav (path_join path fname) q ++ inl r
           | _ :: r => inl r
           end) fs ++ [(path, g path p)]
    end.

  Lemma trav_unfold path p :
    trav path p =
    flat_map (fun '(fname, q) => trav (path_join path fname) q) (inline_children (p_fields p)) ++ [(path, g path p)].
  Proof.
    destruct p as [n r l fs mfs]. cbn [trav p_fields]. f_equal.
    induction fs as [|f fs IH]; [reflexivity|].
    destruct f as [fn a la rp].
    destruct a as [| | | | |iner pn rf inl| |]; try exact IH.
    destruct iner; [|exact IH]. destruct inl as [q|]; [|exact IH].
    cbn [inline_children flat_map]. f_equal. exact IH.
  Qed.

  Lemma trav_map : forall k path p, psize p <= k ->
    trav path p = map (fun '(pa, q) => (pa, g pa q)) (packets_under path p).
  Proof.
    induction k as [|k IH]; intros path p Hk; [destruct p; cbn [psize] in Hk; lia|].
    rewrite trav_unfold, packets_under_unfold, map_app. cbn [map]. f_equal.
    rewrite map_flat_map. apply flat_map_ext_in'. intros [fname q] Hin.
    apply IH. pose proof (psize_child p fname q Hin). lia.
  Qed.

  Lemma trav_all (ps : list packet) :
    flat_map (fun p => trav (p_name p) p) ps =
    map (fun '(pa, q) => (pa, g pa q)) (flat_map (fun p => packets_under (p_name p) p) ps).
  Proof.
    rewrite map_flat_map. apply flat_map_ext_in'. intros p _. apply (trav_map (psize p)). lia.
  Qed.
End Trav.

(* ------------------------------------------------------------ scalar types *)

Lemma ty_width_cases x w : ty_width x = Some w ->
  In x ["u8"; "i8"; "u16"; "i16"; "u32"; "i32"; "f32"; "u64"; "i64"; "f64"]%string.
Proof.
  unfold ty_width.
  repeat match goal with
         | |- context [String.eqb x ?s] => destruct (String.eqb_spec x s) as [E|E]; [subst x; intros _; cbn; tauto|clear E]
         end.
  cbn. discriminate.
Qed.

(* on a normalised numeric name, Field.GetType's second switch is the identity *)
Lemma numeric_norm x w : ty_width x = Some w ->
  get_basic_type x = x /\
  orb (String.eqb (to_lower x) "string") (String.eqb (to_lower x) "char[]") = false /\
  String.eqb x "char" = false.
Proof.
  intros H. pose proof (ty_width_cases x w H) as Hc. cbn [In] in Hc.
  repeat (destruct Hc as [Hc|Hc]; [subst x; vm_compute; repeat split; reflexivity|]). destruct Hc.
Qed.

Lemma numeric_inv t : numeric t = true -> exists w, ty_width (get_basic_type t) = Some w.
Proof. unfold numeric. destruct (ty_width (get_basic_type t)) as [w|]; [intros _; exists w; reflexivity|discriminate]. Qed.

Lemma scalar_width_numeric t w : ty_width (get_basic_type t) = Some w -> scalar_width (get_basic_type t) = Some w.
Proof.
  intros H. unfold scalar_width. destruct (numeric_norm _ _ H) as [_ [_ Hc]]. rewrite Hc. exact H.
Qed.

(* Field.GetType of a scalar / length / checksum field with a numeric type *)
Lemma fgt_scalar t w : ty_width (get_basic_type t) = Some w ->
  (let t' := get_basic_type (get_basic_type t) in
   let l := to_lower (get_basic_type t) in
   if orb (String.eqb l "string") (String.eqb l "char[]") then Some "string"%string else Some t') = Some (get_basic_type t).
Proof.
  intros H. destruct (numeric_norm _ _ H) as [Hn [Hs _]]. cbv zeta. rewrite Hs, Hn. reflexivity.
Qed.

Lemma fgt_basic n t la rp w : ty_width (get_basic_type t) = Some w ->
  field_get_type (mkField n (ABasic t) la rp) = Some (get_basic_type t).
Proof. intros H. unfold field_get_type. cbn [f_attr attr_get_type]. apply (fgt_scalar t w H). Qed.
Lemma fgt_len n tg t la rp w : ty_width (get_basic_type t) = Some w ->
  field_get_type (mkField n (ALen tg t) la rp) = Some (get_basic_type t).
Proof. intros H. unfold field_get_type. cbn [f_attr attr_get_type]. apply (fgt_scalar t w H). Qed.
Lemma fgt_check n alg t la rp w : ty_width (get_basic_type t) = Some w ->
  field_get_type (mkField n (ACheck alg t) la rp) = Some (get_basic_type t).
Proof. intros H. unfold field_get_type. cbn [f_attr attr_get_type]. apply (fgt_scalar t w H). Qed.

Lemma wof_basic n t la rp w : ty_width (get_basic_type t) = Some w -> width_of_field (mkField n (ABasic t) la rp) = Some w.
Proof. intros H. unfold width_of_field. rewrite (fgt_basic _ _ _ _ _ H). exact H. Qed.
Lemma wof_len n tg t la rp w : ty_width (get_basic_type t) = Some w -> width_of_field (mkField n (ALen tg t) la rp) = Some w.
Proof. intros H. unfold width_of_field. rewrite (fgt_len _ _ _ _ _ _ H). exact H. Qed.
Lemma wof_check n alg t la rp w : ty_width (get_basic_type t) = Some w -> width_of_field (mkField n (ACheck alg t) la rp) = Some w.
Proof. intros H. unfold width_of_field. rewrite (fgt_check _ _ _ _ _ _ H). exact H. Qed.

(* ------------------------------------------------------------ pad characters *)

Lemma quoted_char_inv s c : quoted_char s = Some c -> s = String "'" (String c (String "'" EmptyString)).
Proof.
  unfold quoted_char. destruct s as [|a [|c' [|b [|]]]]; try discriminate.
  destruct (Ascii.eqb_spec a "'"%char) as [Ea|Ea]; [|discriminate].
  destruct (Ascii.eqb_spec b "'"%char) as [Eb|Eb]; [|discriminate].
  cbn [andb]. intros H. inversion H. subst. reflexivity.
Qed.

Lemma lit_byte_q c : c <> "\"%char -> lit_byte (String "'" (String c (String "'" EmptyString))) = Some (N_of_ascii c).
Proof. intros H. destruct c as [[] [] [] [] [] [] [] []]; try reflexivity. congruence. Qed.

Lemma pad_byte_of_q c : pad_byte_of (String "'" (String c (String "'" EmptyString))) = Some (N_of_ascii c).
Proof. reflexivity. Qed.

(* what a GetPadding normaliser has to satisfy *)
Definition norm_good (norm : string -> string) : Prop :=
  forall c, c <> "\"%char -> lit_byte (norm (String "'" (String c (String "'" EmptyString)))) = Some (N_of_ascii c).

Lemma q_neq_long c a b d e r :
  String.eqb (String "'" (String c (String "'" EmptyString))) (String a (String b (String d (String e r)))) = false.
Proof.
  apply String.eqb_neq. intros H. inversion H.
Qed.

Lemma norm_go_good : norm_good norm_go.
Proof.
  intros c Hc. unfold norm_go, str_in. cbn [existsb].
  destruct (Ascii.eqb_spec c nul_char) as [E|E]; [subst c; reflexivity|].
  replace (String.eqb (String "'" (String c (String "'" EmptyString))) nul_raw) with false.
  - unfold nul_x00. rewrite q_neq_long. cbn [orb]. apply lit_byte_q. exact Hc.
  - symmetry. apply String.eqb_neq. unfold nul_raw. intros H. inversion H. contradiction.
Qed.

Lemma norm_java_good : norm_good norm_java.
Proof.
  intros c Hc. unfold norm_java, str_in. cbn [existsb].
  destruct (Ascii.eqb_spec c nul_char) as [E|E]; [subst c; reflexivity|].
  replace (String.eqb (String "'" (String c (String "'" EmptyString))) nul_raw) with false.
  - unfold nul_x00. rewrite q_neq_long. cbn [orb]. apply lit_byte_q. exact Hc.
  - symmetry. apply String.eqb_neq. unfold nul_raw. intros H. inversion H. contradiction.
Qed.

Lemma norm_rust_good : norm_good norm_rust.
Proof.
  intros c Hc. unfold norm_rust, str_in. cbn [existsb].
  destruct (Ascii.eqb_spec c nul_char) as [E|E]; [subst c; reflexivity|].
  replace (String.eqb (String "'" (String c (String "'" EmptyString))) nul_raw) with false.
  - unfold nul_x00, nul_u0000. rewrite !q_neq_long. cbn [orb]. apply lit_byte_q. exact Hc.
  - symmetry. apply String.eqb_neq. unfold nul_raw. intros H. inversion H. contradiction.
Qed.

Lemma pad_ok_eqb norm M n fp :
  norm_good norm -> pad_ok M fp = true -> pad_eqb (padarg_of norm M (AFixed n fp)) (ref_pad M fp) = true.
Proof.
  intros Hn H. unfold pad_ok in H. unfold pad_eqb.
  assert (Hsel : padarg_of norm M (AFixed n fp) =
                 match sel_pad M fp with
                 | None => None
                 | Some p => let c := norm (pad_char p) in
                             if pad_is_default c (pad_left p) then None else Some (c, pad_left p)
                 end).
  { unfold padarg_of, sel_pad. destruct fp; reflexivity. }
  rewrite Hsel.
  assert (Heff : eff_pad M fp = match sel_pad M fp with
                                | Some p => match pad_byte_of (pad_char p) with Some b => Some (b, pad_left p) | None => None end
                                | None => Some (32%N, false)
                                end) by reflexivity.
  destruct (sel_pad M fp) as [p|].
  - unfold pad_lit_ok in H. destruct (quoted_char (pad_char p)) as [c|] eqn:Eq; [|discriminate].
    apply quoted_char_inv in Eq.
    assert (Hc : c <> "\"%char) by (intros E; subst c; discriminate).
    rewrite Eq in *. rewrite pad_byte_of_q in Heff.
    rewrite (ref_pad_of M fp _ _ Heff).
    cbv zeta. destruct (pad_is_default _ _) eqn:Ed.
    + unfold pad_is_default in Ed. apply andb_prop in Ed. destruct Ed as [Ed1 Ed2].
      apply String.eqb_eq in Ed1. pose proof (Hn c Hc) as Hl. rewrite Ed1 in Hl.
      change (lit_byte "' '") with (Some 32%N) in Hl. inversion Hl as [Hl']. cbn [pad_of]. try rewrite <- Hl'. rewrite N.eqb_refl.
      destruct (pad_left p); [discriminate|]. reflexivity.
    + cbn [pad_of]. rewrite (Hn c Hc). rewrite N.eqb_refl, Bool.eqb_reflx. reflexivity.
  - rewrite (ref_pad_of M fp _ _ Heff). reflexivity.
Qed.

(* ------------------------------------------------------------ step equivalences *)

Lemma order_eqb_refl w a : order_eqb w a a = true.
Proof. unfold order_eqb. rewrite Bool.eqb_reflx. reflexivity. Qed.

(* a byte order that is dropped for one-byte values (Python, C++: the i8/u8 methods) *)
Lemma order_eqb_1 w le : order_eqb w (andb le (negb (Nat.eqb w 1))) le = true.
Proof.
  unfold order_eqb. destruct le; cbn [andb]; [|reflexivity].
  destruct (Nat.eqb_spec w 1) as [E|E]; [subst; reflexivity|reflexivity].
Qed.

Lemma eqv_int w le : elem_eqvb (EInt w le) (EInt w le) = true.
Proof. cbn [elem_eqvb]. rewrite Nat.eqb_refl, order_eqb_refl. reflexivity. Qed.
Lemma eqv_int_o w l le : order_eqb w l le = true -> elem_eqvb (EInt w l) (EInt w le) = true.
Proof. intros H. cbn [elem_eqvb]. rewrite Nat.eqb_refl, H. reflexivity. Qed.
Lemma eqv_str w le a b : elem_eqvb (EStr w le a) (EStr w le b) = true.
Proof. cbn [elem_eqvb]. rewrite Nat.eqb_refl, order_eqb_refl. reflexivity. Qed.
Lemma eqv_str_o w l le a b : order_eqb w l le = true -> elem_eqvb (EStr w l a) (EStr w le b) = true.
Proof. intros H. cbn [elem_eqvb]. rewrite Nat.eqb_refl, H. reflexivity. Qed.
Lemma eqv_fixed n p q : pad_eqb p q = true -> elem_eqvb (EFixed n p) (EFixed n q) = true.
Proof. intros H. cbn [elem_eqvb]. rewrite Nat.eqb_refl, H. reflexivity. Qed.
Lemma eqv_obj ty : elem_eqvb (EObj ty) (EObj ty) = true.
Proof. cbn [elem_eqvb]. apply String.eqb_refl. Qed.
Lemma eqv_list w le a b s t : elem_eqvb s t = true -> elem_eqvb (EList w le a s) (EList w le b t) = true.
Proof. intros H. cbn [elem_eqvb]. rewrite Nat.eqb_refl, order_eqb_refl, H. reflexivity. Qed.
Lemma eqv_list_o w l le a b s t : order_eqb w l le = true -> elem_eqvb s t = true -> elem_eqvb (EList w l a s) (EList w le b t) = true.
Proof. intros Ho H. cbn [elem_eqvb]. rewrite Nat.eqb_refl, Ho, H. reflexivity. Qed.

Definition is_elem (s : estep) : bool :=
  match s with EInt _ _ | EFixed _ _ | EStr _ _ _ | EList _ _ _ _ | EObj _ | EDyn => true | _ => false end.

Lemma se_elem n i s t : is_elem s = true -> elem_eqvb s t = true -> steps_ok n [(i, s)] [(i, t)] = true.
Proof.
  intros Hs He. unfold steps_ok, noop_free.
  destruct s; try discriminate Hs; destruct t; try discriminate He;
    cbn [forall2b step_eqvb forallb snd is_noop negb andb]; rewrite Nat.eqb_refl, He; reflexivity.
Qed.

Lemma se_check n i alg w l le : order_eqb w l le = true -> steps_ok n [(i, ECheck alg w l)] [(i, ECheck alg w le)] = true.
Proof.
  intros H. unfold steps_ok, noop_free. cbn [forall2b step_eqvb forallb snd is_noop negb andb].
  rewrite !Nat.eqb_refl, String.eqb_refl, H. reflexivity.
Qed.

Lemma se_mark n i j m w l le : i < n -> j < n -> order_eqb w l le = true ->
  steps_ok n [(i, EMarkZero m w l)] [(j, EMarkZero m w le)] = true.
Proof.
  intros Hi Hj H. unfold steps_ok, noop_free. cbn [forall2b step_eqvb forallb snd is_noop negb andb].
  rewrite !Nat.eqb_refl, H. apply Nat.ltb_lt in Hi. apply Nat.ltb_lt in Hj. rewrite Hi, Hj. reflexivity.
Qed.

(* the span + back-patch pair of a length-of target *)
Lemma se_target n i j m s t w l le cw sl :
  i < n -> j < n -> elem_eqvb s t = true -> order_eqb w l le = true ->
  orb (Nat.eqb cw w) (andb (Nat.leb w cw) (Nat.leb w w)) = true -> slice_ok sl w = true ->
  steps_ok n [(i, ESpan s i); (j, EPatch m i w l cw sl)] [(i, ESpan t i); (i, EPatch m i w le w None)] = true.
Proof.
  intros Hi Hj He Ho Hc Hs. unfold steps_ok, noop_free.
  cbn [forall2b step_eqvb forallb snd is_noop negb andb slice_ok].
  rewrite !Nat.eqb_refl, He, Ho, Hc, Hs. apply Nat.ltb_lt in Hi. apply Nat.ltb_lt in Hj. rewrite Hi, Hj. reflexivity.
Qed.

Lemma index_where_lt pred fs : forall k i, index_where pred fs k = Some i -> k <= i < k + length fs.
Proof.
  induction fs as [|f fs IH]; cbn [index_where]; intros k i H; [discriminate|].
  destruct (pred (f_name f)).
  - inversion H; subst. cbn [length]. lia.
  - apply IH in H. cbn [length]. lia.
Qed.

Lemma first_mark_app_nomark a r : forallb (fun x => match snd x with EMarkZero _ _ _ => false | _ => true end) a = true ->
  first_mark (a ++ r) = first_mark r.
Proof.
  induction a as [|[i s] a IH]; cbn [forallb app first_mark snd]; intros H; [reflexivity|].
  apply andb_prop in H. destruct H as [Hs Ha]. destruct s; try discriminate Hs; apply IH; exact Ha.
Qed.

(* ------------------------------------------------------------ decoder step equivalences *)

Lemma dse i s t : delem_eqvb s t = true -> dsteps_ok [(i, s)] [(i, t)] = true.
Proof.
  intros H. unfold dsteps_ok, dnoop_free, dstep_eqvb. cbn [forall2b forallb fst snd].
  rewrite Nat.eqb_refl, H.
  destruct s; try discriminate H; destruct t; try discriminate H; reflexivity.
Qed.

Lemma deqv_int w le : delem_eqvb (DInt w le) (DInt w le) = true.
Proof. cbn [delem_eqvb]. rewrite Nat.eqb_refl, order_eqb_refl. reflexivity. Qed.
Lemma deqv_int_o w l le : order_eqb w l le = true -> delem_eqvb (DInt w l) (DInt w le) = true.
Proof. intros H. cbn [delem_eqvb]. rewrite Nat.eqb_refl, H. reflexivity. Qed.
Lemma deqv_str w le sg : delem_eqvb (DStr w le sg) (DStr w le sg) = true.
Proof. cbn [delem_eqvb]. rewrite Nat.eqb_refl, order_eqb_refl, Bool.eqb_reflx. reflexivity. Qed.
Lemma deqv_str_o w l le sg : order_eqb w l le = true -> delem_eqvb (DStr w l sg) (DStr w le sg) = true.
Proof. intros H. cbn [delem_eqvb]. rewrite Nat.eqb_refl, H, Bool.eqb_reflx. reflexivity. Qed.
Lemma deqv_fixed n p q : pad_eqb p q = true -> delem_eqvb (DFixed n p) (DFixed n q) = true.
Proof. intros H. cbn [delem_eqvb]. rewrite Nat.eqb_refl, H. reflexivity. Qed.
Lemma deqv_obj ty : delem_eqvb (DObj ty) (DObj ty) = true.
Proof. cbn [delem_eqvb]. apply String.eqb_refl. Qed.
Lemma deqv_list w le sg s t : delem_eqvb s t = true -> delem_eqvb (DList w le sg s) (DList w le sg t) = true.
Proof. intros H. cbn [delem_eqvb]. rewrite Nat.eqb_refl, order_eqb_refl, Bool.eqb_reflx, H. reflexivity. Qed.
Lemma deqv_list_o w l le sg s t : order_eqb w l le = true -> delem_eqvb s t = true -> delem_eqvb (DList w l sg s) (DList w le sg t) = true.
Proof. intros Ho H. cbn [delem_eqvb]. rewrite Nat.eqb_refl, Ho, Bool.eqb_reflx, H. reflexivity. Qed.

Lemma tbl_eqb_eq t t' : tbl_eqb t t' = true -> t = t'.
Proof. apply table_eqb_eq. Qed.
Lemma tbl_eqb_refl t : tbl_eqb t t = true.
Proof.
  unfold tbl_eqb. induction t as [|[k v] t IH]; cbn [forall2b fst snd]; [reflexivity|].
  rewrite !String.eqb_refl, IH. reflexivity.
Qed.

Lemma deqv_dispatch t fw fw' k ue : orb (Bool.eqb fw fw') (keys_distinct t) = true ->
  delem_eqvb (DDispatch t fw k ue) (DDispatch t fw' k ue) = true.
Proof.
  intros H. cbn [delem_eqvb]. fold (tbl_eqb t t). rewrite tbl_eqb_refl, H, Nat.eqb_refl, Bool.eqb_reflx. reflexivity.
Qed.
