(* The ANTLR lexer of the packet DSL (PacketDslLexer, generated from
   grammar/PacketDsl.g4), as a maximal-munch scanner over runes.
   Model only: no proofs here.

   What ANTLR does (antlr4-go v4.13.0, lexer.go / lexer_atn_simulator.go), and what the
   model keeps of it:
   - NextToken: at the current position, run all lexer rules of the mode in parallel
     (execATN), remember the LAST accept state (the longest match), and when no rule can
     go on, fall back to it (failOrAccept).  Among the rules that accept at that
     length, the one defined first wins (the accept state predicts the first config in
     rule order).  Order = token type number: T__0..T__17, then CHAR .. WS.
   - If there is no accept state at all, the lexer raises LexerNoViableAltException,
     the listener gets a 'token recognition error', and Recover drops the characters
     scanned so far PLUS ONE MORE (the one the automaton got stuck on; e.g. the two runes @x are
     dropped as a whole).  The production set-up (parseWithListener) attaches the
     SyntaxErrorListener to the lexer, so one such error makes the text a syntax error:
     the model does not imitate the recovery and answers None at the first error.
   - An EOF inside a token (an unterminated STRING or STRING_LITERAL, a lone quote) is the same error.
   - LexerATNSimulator.Consume: only '\n' starts a new line (line+1, column 0); every
     other rune, '\r' and '\t' included, advances the column by one.  Lines start at 1,
     columns at 0.  A token carries the line/column of its first rune.
   - WS is skipped (no token, no index), LINE_COMMENT goes to the hidden channel.
   - At the end NextToken emits the EOF token at the final line/column; the model
     appends it to the list (type T_EOF = 0, text <EOF>), because the token stream
     numbers it, rule contexts can start at it (empty [packet]) and the visitor reads
     the lexer's final column (GetTokenSource().GetCharPositionInLine()). *)
From FP Require Export Tokens.
Open Scope N_scope.

(* a rule matcher: the length (in runes) of the longest prefix of the input that the
   rule matches, None if it matches no prefix.  No rule matches the empty string. *)
Definition matcher := list rune -> option nat.

Fixpoint prefix_len (l s : list rune) (n : nat) : option nat :=
  match l with
  | [] => Some n
  | c :: l' => match s with
               | [] => None
               | d :: s' => if c =? d then prefix_len l' s' (S n) else None
               end
  end.

(* a literal *)
Definition m_lit (str : string) : matcher := fun s => prefix_len (runes_of_ascii str) s 0.

(* alternatives of one rule: the longer match *)
Definition m_or (a b : matcher) : matcher := fun s =>
  match a s, b s with
  | Some x, Some y => Some (Nat.max x y)
  | Some x, None => Some x
  | None, o => o
  end.

Definition is_digit (c : rune) : bool := (48 <=? c) && (c <=? 57).
Definition is_id_start (c : rune) : bool :=
  ((97 <=? c) && (c <=? 122)) || ((65 <=? c) && (c <=? 90)) || (c =? 95).
Definition is_id_char (c : rune) : bool := is_id_start c || is_digit c.
Definition is_ws (c : rune) : bool := (c =? 32) || (c =? 9) || (c =? 13) || (c =? 10).
Definition is_eol (c : rune) : bool := (c =? 13) || (c =? 10).

Fixpoint count_while (p : rune -> bool) (s : list rune) (n : nat) : nat :=
  match s with
  | [] => n
  | c :: r => if p c then count_while p r (S n) else n
  end.

(* DIGITS: [0-9]+ *)
Definition m_digits : matcher := fun s =>
  match count_while is_digit s 0 with O => None | n => Some n end.

(* IDENTIFIER: [a-zA-Z_][a-zA-Z_0-9]* *)
Definition m_identifier : matcher := fun s =>
  match s with
  | c :: r => if is_id_start c then Some (count_while is_id_char r 1) else None
  | [] => None
  end.

(* STRING: DQ ( ~[DQ \\ \r \n] | '\\' . )* DQ        (DQ = the double quote, rune 34)
   After the opening quote: a quote closes; a backslash takes the next rune whatever it
   is (also a quote, a backslash, a line break); \r and \n are not allowed bare; EOF
   before the closing quote is no match. *)
Fixpoint string_body (s : list rune) (n : nat) : option nat :=
  match s with
  | [] => None
  | c :: r =>
      if c =? 34 then Some (S n)
      else if c =? 92 then
        match r with
        | [] => None
        | _ :: r' => string_body r' (S (S n))
        end
      else if is_eol c then None
      else string_body r (S n)
  end.

Definition m_string : matcher := fun s =>
  match s with
  | c :: r => if c =? 34 then string_body r 1 else None
  | [] => None
  end.

(* PADDING_ATTR: '@' ('left' | 'right') 'Pad' *)
Definition m_padding_attr : matcher := m_or (m_lit "@leftPad") (m_lit "@rightPad").

(* PADDING_CHAR: '\'' ('0' | ' ' | '\\x00') '\''    (the third is the 4 runes \x00) *)
Definition m_runes (l : list rune) : matcher := fun s => prefix_len l s 0.
Definition m_padding_char : matcher :=
  m_or (m_runes [39; 48; 39]) (m_or (m_runes [39; 32; 39]) (m_runes [39; 92; 120; 48; 48; 39])).

(* STRING_LITERAL: '`' (~'`' | '\r' | '\n')* '`' : everything up to the next backquote *)
Fixpoint backquote_body (s : list rune) (n : nat) : option nat :=
  match s with
  | [] => None
  | c :: r => if c =? 96 then Some (S n) else backquote_body r (S n)
  end.

Definition m_string_literal : matcher := fun s =>
  match s with
  | c :: r => if c =? 96 then backquote_body r 1 else None
  | [] => None
  end.

(* LINE_COMMENT: '//' ~[\r\n]* *)
Definition m_line_comment : matcher := fun s =>
  match s with
  | 47 :: 47 :: r => Some (count_while (fun c => negb (is_eol c)) r 2)
  | _ => None
  end.

(* WS: [ \t\r\n]+ *)
Definition m_ws : matcher := fun s =>
  match count_while is_ws s 0 with O => None | n => Some n end.

(* the 45 rules, in ANTLR's order *)
Definition rules : list (nat * matcher) :=
  [ (T_OPTIONS, m_lit "options"); (T_LBRACE, m_lit "{"); (T_RBRACE, m_lit "}"); (T_EQ, m_lit "=");
    (T_CALCFROM, m_lit "@calculatedFrom("); (T_RPAREN, m_lit ")"); (T_LENGTHOF, m_lit "@lengthOf(");
    (T_LPAREN, m_lit "("); (T_TAG, m_lit "@tag("); (T_TRUE, m_lit "true"); (T_FALSE, m_lit "false");
    (T_CHARLB, m_lit "char["); (T_RBRACK, m_lit "]"); (T_ZCHARLB, m_lit "zchar["); (T_STRINGKW, m_lit "string");
    (T_CHARARR, m_lit "char[]"); (T_AS, m_lit "as"); (T_LBRACK, m_lit "[");
    (T_CHAR, m_lit "char");
    (T_UINT8, m_or (m_lit "uint8") (m_lit "u8"));
    (T_UINT16, m_or (m_lit "uint16") (m_lit "u16"));
    (T_UINT32, m_or (m_lit "uint32") (m_lit "u32"));
    (T_UINT64, m_or (m_lit "uint64") (m_lit "u64"));
    (T_INT8, m_or (m_lit "int8") (m_lit "i8"));
    (T_INT16, m_or (m_lit "int16") (m_lit "i16"));
    (T_INT32, m_or (m_lit "int32") (m_lit "i32"));
    (T_INT64, m_or (m_lit "int64") (m_lit "i64"));
    (T_FLOAT32, m_or (m_lit "float32") (m_lit "f32"));
    (T_FLOAT64, m_or (m_lit "float64") (m_lit "f64"));
    (T_DIGITS, m_digits);
    (T_STRING, m_string);
    (T_PADDING_ATTR, m_padding_attr);
    (T_PADDING_CHAR, m_padding_char);
    (T_ROOT, m_lit "root"); (T_PACKET, m_lit "packet"); (T_REPEAT, m_lit "repeat");
    (T_METADATA, m_lit "MetaData"); (T_MATCH, m_lit "match");
    (T_COLON, m_lit ":"); (T_COMMA, m_lit ","); (T_SEMICOLON, m_lit ";");
    (T_IDENTIFIER, m_identifier);
    (T_STRING_LITERAL, m_string_literal);
    (T_LINE_COMMENT, m_line_comment);
    (T_WS, m_ws) ]%nat.

(* longest match, the first rule winning among equals: a later rule replaces the best
   one so far only with a strictly longer match *)
Fixpoint best_match (rs : list (nat * matcher)) (s : list rune) (best : option (nat * nat))
  : option (nat * nat) :=
  match rs with
  | [] => best
  | (ty, m) :: rs' =>
      let best' :=
        match m s with
        | None => best
        | Some n => match best with
                    | Some (_, bn) => if Nat.ltb bn n then Some (ty, n) else best
                    | None => Some (ty, n)
                    end
        end in
      best_match rs' s best'
  end.

(* LexerATNSimulator.Consume over the runes of a token *)
Fixpoint advance (s : list rune) (ln cl : nat) : nat * nat :=
  match s with
  | [] => (ln, cl)
  | c :: r => if c =? 10 then advance r (S ln) O else advance r ln (S cl)
  end.

Definition eof_tok (ln cl : nat) : tok := mkTok T_EOF eof_text ln cl false.

(* [rs]: the rules (always [rules]; a parameter so that statements about the loop do not have to
   look into the 45 rules) *)
Fixpoint lex_go (rs : list (nat * matcher)) (fuel : nat) (s : list rune) (ln cl : nat) (acc : list tok)
  : option (list tok) :=
  match fuel with
  | O => None
  | S f =>
      match s with
      | [] => Some (rev (eof_tok ln cl :: acc))
      | _ =>
          match best_match rs s None with
          | None => None                      (* token recognition error *)
          | Some (_, O) => None               (* impossible: no rule matches the empty string *)
          | Some (ty, n) =>
              let txt := firstn n s in
              let rest := skipn n s in
              let '(ln', cl') := advance txt ln cl in
              if Nat.eqb ty T_WS then lex_go rs f rest ln' cl' acc
              else lex_go rs f rest ln' cl'
                     (mkTok ty (string_of_runes txt) ln cl (Nat.eqb ty T_LINE_COMMENT) :: acc)
          end
      end
  end.

(* All tokens of the text in stream order (hidden ones included, the EOF token last);
   None iff the real lexer reports at least one token recognition error. *)
Definition lex (s : list rune) : option (list tok) := lex_go rules (S (length s)) s 1%nat 0%nat [].

(* the tokens without the EOF token: what a loop 'NextToken until EOF' collects *)
Definition lex_no_eof (s : list rune) : option (list tok) :=
  match lex s with
  | Some ts => Some (removelast ts)
  | None => None
  end.

(* the final position of the lexer (line, column) = position of the EOF token *)
Definition lex_end (s : list rune) : option (nat * nat) :=
  match lex s with
  | Some ts => let e := last ts (eof_tok 1 0) in Some (line e, col e)
  | None => None
  end.

Close Scope N_scope.
