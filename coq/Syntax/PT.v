(* Parse trees of the packet DSL: one type per parser rule of grammar/PacketDsl.g4,
   one constructor per alternative.  Model only: no proofs here.  See PT.md.

   Conventions (the same everywhere):
   - every terminal of the rule is kept, in the order of the grammar, as a [ptok];
   - an optional element  x?  is an [option], a repetition  x*  or  x+  a [list]
     (x+ is never [] in a tree that [parse] returns);
   - every rule node carries its [span]: sp_start = ctx.GetStart() (LT(1) when the rule
     was entered) and sp_stop = ctx.GetStop() (LT(-1) when it was left).  Every rule
     except [packet] consumes at least one token, so both exist and are the first and
     the last terminal of the node; [packet] may be empty: its start is then the EOF
     token and its stop is nil;
   - records are used for rules with one alternative, inductive types for rules with
     several; the labels of the grammar (ftype=, fname=, name=, from=, typ=, padding=,
     matchKey=, matchName=) are the field names. *)
From FP Require Export Tokens.

(* A token as the tree sees it (antlr.Token): GetTokenType, GetText, GetLine, GetColumn,
   GetTokenIndex.  p_idx is the index in the FULL token stream: hidden tokens are
   numbered too (that is what GetHiddenTokensToLeft/Right(idx) work on); WS is skipped
   by the lexer and has no index. *)
Record ptok := mkPtok { p_type : nat; p_text : string; p_line : nat; p_col : nat; p_idx : nat }.

Record span := mkSpan { sp_start : ptok; sp_stop : ptok }.

(* basicType: CHAR | UINT8 | ... | FLOAT64      (p_type of bt_tok tells which) *)
Record basic_type := mkBasicType { bt_span : span; bt_tok : ptok }.

(* fixedString: 'char[' DIGITS ']' | 'zchar[' DIGITS ']'     (one context class;
   p_type of fs_open is T_CHARLB or T_ZCHARLB) *)
Record fixed_string := mkFixedString { fs_span : span; fs_open : ptok; fs_digits : ptok; fs_close : ptok }.

(* dynamicString: 'string' | 'char[]' *)
Record dynamic_string := mkDynamicString { ds_span : span; ds_tok : ptok }.

(* type: basicType | fixedString | dynamicString *)
Inductive type_ :=
| TyBasic (sp : span) (b : basic_type)
| TyFixed (sp : span) (f : fixed_string)
| TyDynamic (sp : span) (d : dynamic_string).

(* value: type | STRING | DIGITS | PADDING_CHAR | 'true' | 'false' *)
Inductive value :=
| VType (sp : span) (t : type_)
| VString (sp : span) (t : ptok)
| VDigits (sp : span) (t : ptok)
| VPaddingChar (sp : span) (t : ptok)
| VTrue (sp : span) (t : ptok)
| VFalse (sp : span) (t : ptok).

(* calculatedFromAttribute: '@calculatedFrom(' from=STRING ')' *)
Record calculated_from := mkCalculatedFrom { cf_span : span; cf_open : ptok; cf_from : ptok; cf_close : ptok }.

(* lengthOfAttribute: '@lengthOf(' from=IDENTIFIER ')' *)
Record length_of := mkLengthOf { lo_span : span; lo_open : ptok; lo_from : ptok; lo_close : ptok }.

(* paddingAttribute: PADDING_ATTR '(' padding=PADDING_CHAR? ')' *)
Record padding_attr := mkPaddingAttr { pa_span : span; pa_attr : ptok; pa_open : ptok; pa_padding : option ptok; pa_close : ptok }.

(* tagAttribute: '@tag(' DIGITS ')' *)
Record tag_attr := mkTagAttr { ta_span : span; ta_open : ptok; ta_digits : ptok; ta_close : ptok }.

(* fieldAttribute: lengthOfAttribute | calculatedFromAttribute | tagAttribute | paddingAttribute *)
Inductive field_attribute :=
| FALengthOf (sp : span) (a : length_of)
| FACalculatedFrom (sp : span) (a : calculated_from)
| FATag (sp : span) (a : tag_attr)
| FAPadding (sp : span) (a : padding_attr).

(* metaDataDeclaration: type name=IDENTIFIER STRING_LITERAL? COMMA *)
Record meta_decl := mkMetaDecl { md_span : span; md_type : type_; md_name : ptok; md_doc : option ptok; md_comma : ptok }.

(* refMetaDataDeclaration: typ=IDENTIFIER name=IDENTIFIER STRING_LITERAL? COMMA *)
Record ref_meta_decl := mkRefMetaDecl { rm_span : span; rm_typ : ptok; rm_name : ptok; rm_doc : option ptok; rm_comma : ptok }.

(* lengthFieldDeclaration: type? name=IDENTIFIER lengthOfAttribute STRING_LITERAL? COMMA *)
Record length_field_decl := mkLengthFieldDecl
  { lf_span : span; lf_type : option type_; lf_name : ptok; lf_length_of : length_of; lf_doc : option ptok; lf_comma : ptok }.

(* checkSumFieldDeclaration: type? name=IDENTIFIER calculatedFromAttribute STRING_LITERAL? COMMA *)
Record checksum_field_decl := mkChecksumFieldDecl
  { ck_span : span; ck_type : option type_; ck_name : ptok; ck_calculated_from : calculated_from; ck_doc : option ptok; ck_comma : ptok }.

(* list: '[' (DIGITS | STRING) (COMMA (DIGITS | STRING))* ']'
   li_first and the items of li_rest are DIGITS or STRING tokens (p_type tells);
   AllDIGITS()/AllSTRING() are the items filtered by type, in order. *)
Record key_list := mkKeyList { li_span : span; li_open : ptok; li_first : ptok; li_rest : list (ptok * ptok); li_close : ptok }.

(* the key of a matchPair: DIGITS | STRING | list *)
Inductive match_key :=
| MKDigits (t : ptok)
| MKString (t : ptok)
| MKList (l : key_list).

(* matchPair: (DIGITS | STRING | list) COLON IDENTIFIER COMMA? *)
Record match_pair := mkMatchPair { mp_span : span; mp_key : match_key; mp_colon : ptok; mp_ident : ptok; mp_comma : option ptok }.

(* matchFieldDeclaration:
   MATCH matchKey=IDENTIFIER 'as' matchName=IDENTIFIER '{' matchPair+ '}' *)
Record match_field_decl := mkMatchFieldDecl
  { mf_span : span; mf_match : ptok; mf_key : ptok; mf_as : ptok; mf_name : ptok; mf_open : ptok;
    mf_pairs : list match_pair; mf_close : ptok }.

(* fieldDefinition (six labelled alternatives, one context class each) and
   inerObjectDeclaration: IDENTIFIER ('{' fieldDefinition+ '}') *)
Inductive field_def :=
| InerObjectField (sp : span) (rep : option ptok) (decl : iner_object_decl) (comma : ptok)
      (* REPEAT? inerObjectDeclaration COMMA *)
| MetaField (sp : span) (rep : option ptok) (decl : meta_decl)
      (* REPEAT? metaDataDeclaration *)
| ObjectField (sp : span) (rep : option ptok) (ftype : ptok) (fname : option ptok) (doc : option ptok) (comma : ptok)
      (* REPEAT? ftype=IDENTIFIER (fname=IDENTIFIER)? STRING_LITERAL? COMMA *)
| LengthField (sp : span) (decl : length_field_decl)
| CheckSumField (sp : span) (decl : checksum_field_decl)
| MatchField (sp : span) (decl : match_field_decl) (comma : ptok)
      (* matchFieldDeclaration COMMA *)
with iner_object_decl :=
| InerObjectDecl (sp : span) (name : ptok) (open : ptok) (fields : list field_def) (close : ptok).

(* fieldDefinitionWithAttribute: fieldAttribute* fieldDefinition *)
Record field_with_attr := mkFieldWithAttr { fw_span : span; fw_attrs : list field_attribute; fw_def : field_def }.

(* packetDefinition: ROOT? PACKET IDENTIFIER '{' fieldDefinitionWithAttribute* '}' *)
Record packet_def := mkPacketDef
  { pd_span : span; pd_root : option ptok; pd_packet : ptok; pd_name : ptok; pd_open : ptok;
    pd_fields : list field_with_attr; pd_close : ptok }.

(* an element of the body of metaDataDefinition *)
Inductive meta_item :=
| MIDecl (d : meta_decl)
| MIRef (d : ref_meta_decl).

(* metaDataDefinition: METADATA IDENTIFIER '{' (metaDataDeclaration | refMetaDataDeclaration)* '}' *)
Record meta_def := mkMetaDef
  { me_span : span; me_kw : ptok; me_name : ptok; me_open : ptok; me_items : list meta_item; me_close : ptok }.

(* optionDeclaration: IDENTIFIER '=' value SEMICOLON? *)
Record option_decl := mkOptionDecl { od_span : span; od_name : ptok; od_eq : ptok; od_value : value; od_semi : option ptok }.

(* optionDefinition: 'options' '{' optionDeclaration* '}' *)
Record option_def := mkOptionDef { op_span : span; op_kw : ptok; op_open : ptok; op_decls : list option_decl; op_close : ptok }.

(* a child of the start rule *)
Inductive definition :=
| DPacket (d : packet_def)
| DMeta (d : meta_def)
| DOption (d : option_def).

(* packet: (packetDefinition | metaDataDefinition | optionDefinition)*     (no EOF!)
   pk_start: the first default-channel token, or the EOF token when there is none;
   pk_stop: the last default-channel token, None (Go: nil) when there is none. *)
Record pt := mkPacket { pk_start : ptok; pk_stop : option ptok; pk_defs : list definition }.

(* the span accessors that the visitor and the formatter use on the recursive types *)
Definition fd_span (f : field_def) : span :=
  match f with
  | InerObjectField sp _ _ _ | MetaField sp _ _ | ObjectField sp _ _ _ _ _
  | LengthField sp _ | CheckSumField sp _ | MatchField sp _ _ => sp
  end.
Definition io_span (d : iner_object_decl) : span := match d with InerObjectDecl sp _ _ _ _ => sp end.
Definition ty_span (t : type_) : span := match t with TyBasic sp _ | TyFixed sp _ | TyDynamic sp _ => sp end.
Definition va_span (v : value) : span :=
  match v with VType sp _ | VString sp _ | VDigits sp _ | VPaddingChar sp _ | VTrue sp _ | VFalse sp _ => sp end.
Definition fa_span (a : field_attribute) : span :=
  match a with FALengthOf sp _ | FACalculatedFrom sp _ | FATag sp _ | FAPadding sp _ => sp end.
