(* Canonical text form of token lists and parse trees; harness/tree.py prints the same
   form from the dumps of the real lexer/parser, and the two are compared as strings.
   Model only: no proofs here.

   Every printer takes the text that follows (an accumulator), so printing is linear.

     token (lexer)   <type,line,col,h|d,"text">          h = hidden channel, d = default
     token (tree)    <type,idx,line,col,"text">
     text            bytes 32..126 as they are, except the double quote and the backslash;
                     every other byte and those two as \xHH (two lower-case hex digits)
     span            @start..stop                         (two tree tokens)
     option          -  for None, the element itself for Some
     list            [e1 e2 ...]
     rule node       (Name span child child ...)          children in grammar order
     packet          (packet start stop-or-- [defs])
     results         ERR for None, otherwise the value *)
From FP Require Export PT.
Open Scope string_scope.

Fixpoint show_nat_aux (fuel n : nat) (acc : string) : string :=
  let d := String (ascii_of_nat (48 + Nat.modulo n 10)) acc in
  match fuel with
  | O => d
  | S f => match Nat.div n 10 with O => d | q => show_nat_aux f q d end
  end.
Definition sh_nat (n : nat) (acc : string) : string := show_nat_aux n n acc.

Definition hex_digit (n : nat) : ascii :=
  ascii_of_nat (if Nat.ltb n 10 then 48 + n else 87 + n).

Fixpoint sh_escaped (s : string) (acc : string) : string :=
  match s with
  | EmptyString => acc
  | String c r =>
      let n := nat_of_ascii c in
      if Nat.leb 32 n && Nat.leb n 126 && negb (Nat.eqb n 34) && negb (Nat.eqb n 92)
      then String c (sh_escaped r acc)
      else String "\" (String "x" (String (hex_digit (Nat.div n 16)) (String (hex_digit (Nat.modulo n 16)) (sh_escaped r acc))))
  end.

Definition sh_text (s : string) (acc : string) : string :=
  String """" (sh_escaped s (String """" acc)).

Definition sh_tok (t : tok) (acc : string) : string :=
  "<" ++ sh_nat (type t) ("," ++ sh_nat (line t) ("," ++ sh_nat (col t)
      ("," ++ (if hidden t then "h" else "d") ++ "," ++ sh_text (text t) (">" ++ acc)))).

Fixpoint sh_list {A : Type} (f : A -> string -> string) (l : list A) (acc : string) : string :=
  match l with
  | [] => acc
  | [x] => f x acc
  | x :: r => f x (" " ++ sh_list f r acc)
  end.

Definition sh_brack {A : Type} (f : A -> string -> string) (l : list A) (acc : string) : string :=
  "[" ++ sh_list f l ("]" ++ acc).

Definition sh_opt {A : Type} (f : A -> string -> string) (o : option A) (acc : string) : string :=
  match o with
  | None => "-" ++ acc
  | Some x => f x acc
  end.

Definition show_toks (r : option (list tok)) : string :=
  match r with
  | None => "ERR"
  | Some ts => sh_brack sh_tok ts ""
  end.

Definition sh_ptok (t : ptok) (acc : string) : string :=
  "<" ++ sh_nat (p_type t) ("," ++ sh_nat (p_idx t) ("," ++ sh_nat (p_line t) ("," ++ sh_nat (p_col t)
      ("," ++ sh_text (p_text t) (">" ++ acc))))).

Definition sh_span (s : span) (acc : string) : string :=
  "@" ++ sh_ptok (sp_start s) (".." ++ sh_ptok (sp_stop s) acc).

(* (Name span rest *)
Definition sh_node (name : string) (sp : span) (rest : string) : string :=
  "(" ++ name ++ " " ++ sh_span sp (" " ++ rest).

Definition sp_ (f : string -> string) (acc : string) : string := f (" " ++ acc).

Definition sh_basic_type (b : basic_type) acc := sh_node "basicType" (bt_span b) (sh_ptok (bt_tok b) (")" ++ acc)).
Definition sh_fixed_string (f : fixed_string) acc :=
  sh_node "fixedString" (fs_span f) (sp_ (sh_ptok (fs_open f)) (sp_ (sh_ptok (fs_digits f)) (sh_ptok (fs_close f) (")" ++ acc)))).
Definition sh_dynamic_string (d : dynamic_string) acc := sh_node "dynamicString" (ds_span d) (sh_ptok (ds_tok d) (")" ++ acc)).

Definition sh_type (t : type_) acc :=
  match t with
  | TyBasic sp b => sh_node "type" sp (sh_basic_type b (")" ++ acc))
  | TyFixed sp f => sh_node "type" sp (sh_fixed_string f (")" ++ acc))
  | TyDynamic sp d => sh_node "type" sp (sh_dynamic_string d (")" ++ acc))
  end.

Definition sh_value (v : value) acc :=
  match v with
  | VType sp t => sh_node "value.type" sp (sh_type t (")" ++ acc))
  | VString sp t => sh_node "value.string" sp (sh_ptok t (")" ++ acc))
  | VDigits sp t => sh_node "value.digits" sp (sh_ptok t (")" ++ acc))
  | VPaddingChar sp t => sh_node "value.paddingChar" sp (sh_ptok t (")" ++ acc))
  | VTrue sp t => sh_node "value.true" sp (sh_ptok t (")" ++ acc))
  | VFalse sp t => sh_node "value.false" sp (sh_ptok t (")" ++ acc))
  end.

Definition sh_calculated_from (a : calculated_from) acc :=
  sh_node "calculatedFromAttribute" (cf_span a)
    (sp_ (sh_ptok (cf_open a)) (sp_ (sh_ptok (cf_from a)) (sh_ptok (cf_close a) (")" ++ acc)))).
Definition sh_length_of (a : length_of) acc :=
  sh_node "lengthOfAttribute" (lo_span a)
    (sp_ (sh_ptok (lo_open a)) (sp_ (sh_ptok (lo_from a)) (sh_ptok (lo_close a) (")" ++ acc)))).
Definition sh_padding_attr (a : padding_attr) acc :=
  sh_node "paddingAttribute" (pa_span a)
    (sp_ (sh_ptok (pa_attr a)) (sp_ (sh_ptok (pa_open a)) (sp_ (sh_opt sh_ptok (pa_padding a)) (sh_ptok (pa_close a) (")" ++ acc))))).
Definition sh_tag_attr (a : tag_attr) acc :=
  sh_node "tagAttribute" (ta_span a)
    (sp_ (sh_ptok (ta_open a)) (sp_ (sh_ptok (ta_digits a)) (sh_ptok (ta_close a) (")" ++ acc)))).

Definition sh_field_attribute (a : field_attribute) acc :=
  match a with
  | FALengthOf sp x => sh_node "fieldAttribute" sp (sh_length_of x (")" ++ acc))
  | FACalculatedFrom sp x => sh_node "fieldAttribute" sp (sh_calculated_from x (")" ++ acc))
  | FATag sp x => sh_node "fieldAttribute" sp (sh_tag_attr x (")" ++ acc))
  | FAPadding sp x => sh_node "fieldAttribute" sp (sh_padding_attr x (")" ++ acc))
  end.

Definition sh_meta_decl (d : meta_decl) acc :=
  sh_node "metaDataDeclaration" (md_span d)
    (sp_ (sh_type (md_type d)) (sp_ (sh_ptok (md_name d)) (sp_ (sh_opt sh_ptok (md_doc d)) (sh_ptok (md_comma d) (")" ++ acc))))).
Definition sh_ref_meta_decl (d : ref_meta_decl) acc :=
  sh_node "refMetaDataDeclaration" (rm_span d)
    (sp_ (sh_ptok (rm_typ d)) (sp_ (sh_ptok (rm_name d)) (sp_ (sh_opt sh_ptok (rm_doc d)) (sh_ptok (rm_comma d) (")" ++ acc))))).
Definition sh_length_field_decl (d : length_field_decl) acc :=
  sh_node "lengthFieldDeclaration" (lf_span d)
    (sp_ (sh_opt sh_type (lf_type d)) (sp_ (sh_ptok (lf_name d)) (sp_ (sh_length_of (lf_length_of d))
      (sp_ (sh_opt sh_ptok (lf_doc d)) (sh_ptok (lf_comma d) (")" ++ acc)))))).
Definition sh_checksum_field_decl (d : checksum_field_decl) acc :=
  sh_node "checkSumFieldDeclaration" (ck_span d)
    (sp_ (sh_opt sh_type (ck_type d)) (sp_ (sh_ptok (ck_name d)) (sp_ (sh_calculated_from (ck_calculated_from d))
      (sp_ (sh_opt sh_ptok (ck_doc d)) (sh_ptok (ck_comma d) (")" ++ acc)))))).

Definition sh_comma_item (p : ptok * ptok) acc := sp_ (sh_ptok (fst p)) (sh_ptok (snd p) acc).
Definition sh_key_list (l : key_list) acc :=
  sh_node "list" (li_span l)
    (sp_ (sh_ptok (li_open l)) (sp_ (sh_ptok (li_first l)) (sp_ (sh_brack sh_comma_item (li_rest l)) (sh_ptok (li_close l) (")" ++ acc))))).
Definition sh_match_key (k : match_key) acc :=
  match k with
  | MKDigits t => sh_ptok t acc
  | MKString t => sh_ptok t acc
  | MKList l => sh_key_list l acc
  end.
Definition sh_match_pair (p : match_pair) acc :=
  sh_node "matchPair" (mp_span p)
    (sp_ (sh_match_key (mp_key p)) (sp_ (sh_ptok (mp_colon p)) (sp_ (sh_ptok (mp_ident p)) (sh_opt sh_ptok (mp_comma p) (")" ++ acc))))).
Definition sh_match_field_decl (d : match_field_decl) acc :=
  sh_node "matchFieldDeclaration" (mf_span d)
    (sp_ (sh_ptok (mf_match d)) (sp_ (sh_ptok (mf_key d)) (sp_ (sh_ptok (mf_as d)) (sp_ (sh_ptok (mf_name d))
      (sp_ (sh_ptok (mf_open d)) (sp_ (sh_brack sh_match_pair (mf_pairs d)) (sh_ptok (mf_close d) (")" ++ acc)))))))).

Fixpoint sh_field_def (f : field_def) (acc : string) : string :=
  match f with
  | InerObjectField sp r d m =>
      sh_node "fieldDefinition.InerObjectField" sp
        (sp_ (sh_opt sh_ptok r) (sp_ (sh_iner_object_decl d) (sh_ptok m (")" ++ acc))))
  | MetaField sp r d =>
      sh_node "fieldDefinition.MetaField" sp (sp_ (sh_opt sh_ptok r) (sh_meta_decl d (")" ++ acc)))
  | ObjectField sp r ft fn d m =>
      sh_node "fieldDefinition.ObjectField" sp
        (sp_ (sh_opt sh_ptok r) (sp_ (sh_ptok ft) (sp_ (sh_opt sh_ptok fn) (sp_ (sh_opt sh_ptok d) (sh_ptok m (")" ++ acc))))))
  | LengthField sp d => sh_node "fieldDefinition.LengthField" sp (sh_length_field_decl d (")" ++ acc))
  | CheckSumField sp d => sh_node "fieldDefinition.CheckSumField" sp (sh_checksum_field_decl d (")" ++ acc))
  | MatchField sp d m => sh_node "fieldDefinition.MatchField" sp (sp_ (sh_match_field_decl d) (sh_ptok m (")" ++ acc)))
  end
with sh_iner_object_decl (d : iner_object_decl) (acc : string) : string :=
  match d with
  | InerObjectDecl sp n o fs c =>
      sh_node "inerObjectDeclaration" sp
        (sp_ (sh_ptok n) (sp_ (sh_ptok o)
           (sp_ (fun a => "[" ++ (fix go (l : list field_def) (a : string) : string :=
                                    match l with
                                    | [] => a
                                    | [x] => sh_field_def x a
                                    | x :: r => sh_field_def x (" " ++ go r a)
                                    end) fs ("]" ++ a))
              (sh_ptok c (")" ++ acc)))))
  end.

Definition sh_field_with_attr (f : field_with_attr) acc :=
  sh_node "fieldDefinitionWithAttribute" (fw_span f)
    (sp_ (sh_brack sh_field_attribute (fw_attrs f)) (sh_field_def (fw_def f) (")" ++ acc))).

Definition sh_packet_def (d : packet_def) acc :=
  sh_node "packetDefinition" (pd_span d)
    (sp_ (sh_opt sh_ptok (pd_root d)) (sp_ (sh_ptok (pd_packet d)) (sp_ (sh_ptok (pd_name d)) (sp_ (sh_ptok (pd_open d))
      (sp_ (sh_brack sh_field_with_attr (pd_fields d)) (sh_ptok (pd_close d) (")" ++ acc))))))).

Definition sh_meta_item (i : meta_item) acc :=
  match i with
  | MIDecl d => sh_meta_decl d acc
  | MIRef d => sh_ref_meta_decl d acc
  end.
Definition sh_meta_def (d : meta_def) acc :=
  sh_node "metaDataDefinition" (me_span d)
    (sp_ (sh_ptok (me_kw d)) (sp_ (sh_ptok (me_name d)) (sp_ (sh_ptok (me_open d))
      (sp_ (sh_brack sh_meta_item (me_items d)) (sh_ptok (me_close d) (")" ++ acc)))))).

Definition sh_option_decl (d : option_decl) acc :=
  sh_node "optionDeclaration" (od_span d)
    (sp_ (sh_ptok (od_name d)) (sp_ (sh_ptok (od_eq d)) (sp_ (sh_value (od_value d)) (sh_opt sh_ptok (od_semi d) (")" ++ acc))))).
Definition sh_option_def (d : option_def) acc :=
  sh_node "optionDefinition" (op_span d)
    (sp_ (sh_ptok (op_kw d)) (sp_ (sh_ptok (op_open d)) (sp_ (sh_brack sh_option_decl (op_decls d)) (sh_ptok (op_close d) (")" ++ acc))))).

Definition sh_definition (d : definition) acc :=
  match d with
  | DPacket x => sh_packet_def x acc
  | DMeta x => sh_meta_def x acc
  | DOption x => sh_option_def x acc
  end.

Definition sh_pt (t : pt) acc :=
  "(packet " ++ sh_ptok (pk_start t) (" " ++ sh_opt sh_ptok (pk_stop t) (" " ++ sh_brack sh_definition (pk_defs t) (")" ++ acc))).

Definition show_pt (r : option pt) : string :=
  match r with
  | None => "ERR"
  | Some t => sh_pt t ""
  end.
