(* A digest of a (long) string, for the correspondence harness only (no model uses it):
   coqc is slow at reading and at printing long string literals (tens of microseconds per
   character), so harness/syntax.py compares digests of the canonical texts first and lets
   coqc print the full text only for the cases whose digests differ.
   digest s = "length:h1:h2": two polynomial hashes over the bytes in 63-bit machine
   arithmetic (Uint63, wrapping multiplication), multipliers 1000003 and 31415927.
   No proofs here. *)
From Coq Require Import String Ascii List Uint63.
Open Scope uint63_scope.

Definition int_of_ascii (c : ascii) : int :=
  let b (x : bool) (w : int) := if x then w else 0 in
  match c with
  | Ascii b0 b1 b2 b3 b4 b5 b6 b7 =>
      b b0 1 + b b1 2 + b b2 4 + b b3 8 + b b4 16 + b b5 32 + b b6 64 + b b7 128
  end.

Fixpoint digest_go (s : string) (n h1 h2 : int) : int * int * int :=
  match s with
  | EmptyString => (n, h1, h2)
  | String c r =>
      let b := int_of_ascii c + 1 in
      digest_go r (n + 1) (h1 * 1000003 + b) (h2 * 31415927 + b)
  end.

Definition digit (n : int) : ascii :=
  let d := n mod 10 in
  if d =? 0 then "0" else if d =? 1 then "1" else if d =? 2 then "2" else if d =? 3 then "3"
  else if d =? 4 then "4" else if d =? 5 then "5" else if d =? 6 then "6" else if d =? 7 then "7"
  else if d =? 8 then "8" else "9".

Fixpoint sh_int_aux (fuel : nat) (n : int) (acc : string) : string :=
  let d := String (digit n) acc in
  match fuel with
  | O => d
  | S f => if n / 10 =? 0 then d else sh_int_aux f (n / 10) d
  end.
Definition sh_int (n : int) (acc : string) : string := sh_int_aux 30 n acc.

Definition digest (s : string) : string :=
  let '(n, h1, h2) := digest_go s 0 7 11 in
  sh_int n (String ":" (sh_int h1 (String ":" (sh_int h2 EmptyString)))).
