(* The ANTLR parser of the packet DSL (PacketDslParser, start rule [packet]) as a
   predictive recursive-descent parser, rule by rule after the generated code
   /repo/internal/grammar/packetdsl_parser.go.  Model only: no proofs here.

   [parse] answers None iff the production set-up (parseWithListener in
   /repo/internal/parser/common.go) collects at least one syntax error from the PARSER:
   - every mismatch is an error: the DefaultErrorStrategy may repair the input (single
     token deletion/insertion, Sync's consumeUntil) and go on, but it always reports
     first, so the repaired trees are never looked at and the model stops at the first
     mismatch;
   - all decisions of the grammar are LL(1) token-set tests in the generated code,
     except the choice of the alternative of fieldDefinition (decision 12), which is
     made by AdaptivePredict: [predict_fd] below does what ALL( * ) does on this grammar
     (the alternatives are pairwise distinguishable within the rule, there is no
     ambiguity and no dependence on the caller): walk the lookahead until one
     alternative is left (predict it, even if it will fail later) or none (NoViableAlt);
   - the start rule has no EOF: its loop simply ends at the first token that cannot
     start a definition (Sync accepts it: the follow set of the loop contains epsilon
     because the rule can end there).  parseWithListener then reports "unexpected input"
     unless that token is EOF; hence the final test in [parse_ptoks].

   The token list is the one [lex] returns: all tokens, hidden ones included, the EOF
   token last.  The token stream numbers all of them (p_idx) and the parser sees the
   default-channel ones only. *)
From FP Require Export PT.

Definition dummy_ptok : ptok := mkPtok 0 EmptyString 0 0 0.

(* CommonTokenStream: index = position in the full list, the parser skips channel != 0 *)
Fixpoint index_from (i : nat) (ts : list tok) : list ptok :=
  match ts with
  | [] => []
  | t :: r =>
      if hidden t then index_from (S i) r
      else mkPtok (type t) (text t) (line t) (col t) i :: index_from (S i) r
  end.

(* parser state: LT(-1) (None before the first token) and the tokens from LT(1) on *)
Record pst := mkSt { st_prev : option ptok; st_rest : list ptok }.

(* the type of LT(k+1); beyond the end it is EOF, as LA does *)
Definition la (k : nat) (s : pst) : nat :=
  match nth_error (st_rest s) k with
  | Some t => p_type t
  | None => T_EOF
  end.

Definition lt1 (s : pst) : ptok := hd dummy_ptok (st_rest s).
Definition stop_of (s : pst) : ptok := match st_prev s with Some t => t | None => dummy_ptok end.
(* EnterRule at s0 (start = LT(1)), ExitRule at s1 (stop = LT(-1)) *)
Definition span_of (s0 s1 : pst) : span := mkSpan (lt1 s0) (stop_of s1).

(* Match(ty): EOF is never matched by a rule of this grammar *)
Definition expect (ty : nat) (s : pst) : option (ptok * pst) :=
  match st_rest s with
  | t :: r =>
      if Nat.eqb (p_type t) ty && negb (Nat.eqb ty T_EOF) then Some (t, mkSt (Some t) r) else None
  | [] => None
  end.

(* "if _la == ty { Match(ty) }" *)
Definition accept (ty : nat) (s : pst) : option ptok * pst :=
  match expect ty s with
  | Some (t, s') => (Some t, s')
  | None => (None, s)
  end.

Notation "'let*' p ':=' e 'in' f" :=
  (match e with Some p => f | None => None end)
  (at level 200, p pattern, e at level 200, f at level 200, right associativity).

Definition mem (n : nat) (l : list nat) : bool := existsb (Nat.eqb n) l.

Section Loops.
  Context {A : Type}.
  (* "for la in FIRST { p }": each round of [p] consumes at least one token, so a fuel of
     1 + the number of remaining tokens is never exhausted *)
  Fixpoint many (fuel : nat) (first : list nat) (p : pst -> option (A * pst)) (s : pst)
    : option (list A * pst) :=
    match fuel with
    | O => None
    | S f =>
        if mem (la 0 s) first then
          let* (x, s1) := p s in
          let* (xs, s2) := many f first p s1 in
          Some (x :: xs, s2)
        else Some ([], s)
    end.

  (* "for ok := true; ok; ok = la in FIRST { p }" *)
  Definition many1 (fuel : nat) (first : list nat) (p : pst -> option (A * pst)) (s : pst)
    : option (list A * pst) :=
    let* (x, s1) := p s in
    let* (xs, s2) := many fuel first p s1 in
    Some (x :: xs, s2).
End Loops.

(* ------------------------------------------------------------------ token sets *)
Definition basic_types : list nat :=
  [T_CHAR; T_UINT8; T_UINT16; T_UINT32; T_UINT64; T_INT8; T_INT16; T_INT32; T_INT64; T_FLOAT32; T_FLOAT64].
Definition type_first : list nat := [T_CHARLB; T_ZCHARLB; T_STRINGKW; T_CHARARR] ++ basic_types.
Definition attr_first : list nat := [T_CALCFROM; T_LENGTHOF; T_TAG; T_PADDING_ATTR].
Definition field_def_first : list nat := type_first ++ [T_REPEAT; T_MATCH; T_IDENTIFIER].
Definition field_with_attr_first : list nat := attr_first ++ field_def_first.
Definition meta_item_first : list nat := type_first ++ [T_IDENTIFIER].
Definition match_pair_first : list nat := [T_LBRACK; T_DIGITS; T_STRING].
Definition definition_first : list nat := [T_OPTIONS; T_ROOT; T_PACKET; T_METADATA].

(* ------------------------------------------------------------------ types, values *)
Definition r_basic_type (s0 : pst) : option (basic_type * pst) :=
  if mem (la 0 s0) basic_types then
    let* (t, s1) := expect (la 0 s0) s0 in
    Some (mkBasicType (span_of s0 s1) t, s1)
  else None.

Definition r_fixed_string (s0 : pst) : option (fixed_string * pst) :=
  if mem (la 0 s0) [T_CHARLB; T_ZCHARLB] then
    let* (o, s1) := expect (la 0 s0) s0 in
    let* (d, s2) := expect T_DIGITS s1 in
    let* (c, s3) := expect T_RBRACK s2 in
    Some (mkFixedString (span_of s0 s3) o d c, s3)
  else None.

Definition r_dynamic_string (s0 : pst) : option (dynamic_string * pst) :=
  if mem (la 0 s0) [T_STRINGKW; T_CHARARR] then
    let* (t, s1) := expect (la 0 s0) s0 in
    Some (mkDynamicString (span_of s0 s1) t, s1)
  else None.

Definition r_type (s0 : pst) : option (type_ * pst) :=
  let t := la 0 s0 in
  if mem t basic_types then
    let* (b, s1) := r_basic_type s0 in Some (TyBasic (span_of s0 s1) b, s1)
  else if mem t [T_CHARLB; T_ZCHARLB] then
    let* (f, s1) := r_fixed_string s0 in Some (TyFixed (span_of s0 s1) f, s1)
  else if mem t [T_STRINGKW; T_CHARARR] then
    let* (d, s1) := r_dynamic_string s0 in Some (TyDynamic (span_of s0 s1) d, s1)
  else None.

Definition r_opt_type (s0 : pst) : option (option type_ * pst) :=
  if mem (la 0 s0) type_first then
    let* (t, s1) := r_type s0 in Some (Some t, s1)
  else Some (None, s0).

Definition r_value (s0 : pst) : option (value * pst) :=
  let t := la 0 s0 in
  if mem t type_first then
    let* (ty, s1) := r_type s0 in Some (VType (span_of s0 s1) ty, s1)
  else if Nat.eqb t T_STRING then
    let* (k, s1) := expect T_STRING s0 in Some (VString (span_of s0 s1) k, s1)
  else if Nat.eqb t T_DIGITS then
    let* (k, s1) := expect T_DIGITS s0 in Some (VDigits (span_of s0 s1) k, s1)
  else if Nat.eqb t T_PADDING_CHAR then
    let* (k, s1) := expect T_PADDING_CHAR s0 in Some (VPaddingChar (span_of s0 s1) k, s1)
  else if Nat.eqb t T_TRUE then
    let* (k, s1) := expect T_TRUE s0 in Some (VTrue (span_of s0 s1) k, s1)
  else if Nat.eqb t T_FALSE then
    let* (k, s1) := expect T_FALSE s0 in Some (VFalse (span_of s0 s1) k, s1)
  else None.

(* ------------------------------------------------------------------ attributes *)
Definition r_calculated_from (s0 : pst) : option (calculated_from * pst) :=
  let* (o, s1) := expect T_CALCFROM s0 in
  let* (f, s2) := expect T_STRING s1 in
  let* (c, s3) := expect T_RPAREN s2 in
  Some (mkCalculatedFrom (span_of s0 s3) o f c, s3).

Definition r_length_of (s0 : pst) : option (length_of * pst) :=
  let* (o, s1) := expect T_LENGTHOF s0 in
  let* (f, s2) := expect T_IDENTIFIER s1 in
  let* (c, s3) := expect T_RPAREN s2 in
  Some (mkLengthOf (span_of s0 s3) o f c, s3).

Definition r_padding_attr (s0 : pst) : option (padding_attr * pst) :=
  let* (a, s1) := expect T_PADDING_ATTR s0 in
  let* (o, s2) := expect T_LPAREN s1 in
  let '(p, s3) := accept T_PADDING_CHAR s2 in
  let* (c, s4) := expect T_RPAREN s3 in
  Some (mkPaddingAttr (span_of s0 s4) a o p c, s4).

Definition r_tag_attr (s0 : pst) : option (tag_attr * pst) :=
  let* (o, s1) := expect T_TAG s0 in
  let* (d, s2) := expect T_DIGITS s1 in
  let* (c, s3) := expect T_RPAREN s2 in
  Some (mkTagAttr (span_of s0 s3) o d c, s3).

Definition r_field_attribute (s0 : pst) : option (field_attribute * pst) :=
  let t := la 0 s0 in
  if Nat.eqb t T_LENGTHOF then
    let* (a, s1) := r_length_of s0 in Some (FALengthOf (span_of s0 s1) a, s1)
  else if Nat.eqb t T_CALCFROM then
    let* (a, s1) := r_calculated_from s0 in Some (FACalculatedFrom (span_of s0 s1) a, s1)
  else if Nat.eqb t T_TAG then
    let* (a, s1) := r_tag_attr s0 in Some (FATag (span_of s0 s1) a, s1)
  else if Nat.eqb t T_PADDING_ATTR then
    let* (a, s1) := r_padding_attr s0 in Some (FAPadding (span_of s0 s1) a, s1)
  else None.

(* ------------------------------------------------------------------ declarations *)
Definition r_meta_decl (s0 : pst) : option (meta_decl * pst) :=
  let* (ty, s1) := r_type s0 in
  let* (n, s2) := expect T_IDENTIFIER s1 in
  let '(d, s3) := accept T_STRING_LITERAL s2 in
  let* (c, s4) := expect T_COMMA s3 in
  Some (mkMetaDecl (span_of s0 s4) ty n d c, s4).

Definition r_ref_meta_decl (s0 : pst) : option (ref_meta_decl * pst) :=
  let* (ty, s1) := expect T_IDENTIFIER s0 in
  let* (n, s2) := expect T_IDENTIFIER s1 in
  let '(d, s3) := accept T_STRING_LITERAL s2 in
  let* (c, s4) := expect T_COMMA s3 in
  Some (mkRefMetaDecl (span_of s0 s4) ty n d c, s4).

Definition r_length_field_decl (s0 : pst) : option (length_field_decl * pst) :=
  let* (ty, s1) := r_opt_type s0 in
  let* (n, s2) := expect T_IDENTIFIER s1 in
  let* (a, s3) := r_length_of s2 in
  let '(d, s4) := accept T_STRING_LITERAL s3 in
  let* (c, s5) := expect T_COMMA s4 in
  Some (mkLengthFieldDecl (span_of s0 s5) ty n a d c, s5).

Definition r_checksum_field_decl (s0 : pst) : option (checksum_field_decl * pst) :=
  let* (ty, s1) := r_opt_type s0 in
  let* (n, s2) := expect T_IDENTIFIER s1 in
  let* (a, s3) := r_calculated_from s2 in
  let '(d, s4) := accept T_STRING_LITERAL s3 in
  let* (c, s5) := expect T_COMMA s4 in
  Some (mkChecksumFieldDecl (span_of s0 s5) ty n a d c, s5).

(* ------------------------------------------------------------------ match *)
Definition r_list_item (s0 : pst) : option (ptok * pst) :=
  if mem (la 0 s0) [T_DIGITS; T_STRING] then expect (la 0 s0) s0 else None.

Definition r_list_more (s0 : pst) : option ((ptok * ptok) * pst) :=
  let* (c, s1) := expect T_COMMA s0 in
  let* (i, s2) := r_list_item s1 in
  Some ((c, i), s2).

Definition r_key_list (fuel : nat) (s0 : pst) : option (key_list * pst) :=
  let* (o, s1) := expect T_LBRACK s0 in
  let* (i, s2) := r_list_item s1 in
  let* (r, s3) := many fuel [T_COMMA] r_list_more s2 in
  let* (c, s4) := expect T_RBRACK s3 in
  Some (mkKeyList (span_of s0 s4) o i r c, s4).

Definition r_match_pair (fuel : nat) (s0 : pst) : option (match_pair * pst) :=
  let t := la 0 s0 in
  let* (k, s1) :=
    (if Nat.eqb t T_DIGITS then let* (d, s1) := expect T_DIGITS s0 in Some (MKDigits d, s1)
     else if Nat.eqb t T_STRING then let* (d, s1) := expect T_STRING s0 in Some (MKString d, s1)
     else if Nat.eqb t T_LBRACK then let* (l, s1) := r_key_list fuel s0 in Some (MKList l, s1)
     else None) in
  let* (c, s2) := expect T_COLON s1 in
  let* (i, s3) := expect T_IDENTIFIER s2 in
  let '(m, s4) := accept T_COMMA s3 in
  Some (mkMatchPair (span_of s0 s4) k c i m, s4).

Definition r_match_field_decl (fuel : nat) (s0 : pst) : option (match_field_decl * pst) :=
  let* (m, s1) := expect T_MATCH s0 in
  let* (k, s2) := expect T_IDENTIFIER s1 in
  let* (a, s3) := expect T_AS s2 in
  let* (n, s4) := expect T_IDENTIFIER s3 in
  let* (o, s5) := expect T_LBRACE s4 in
  let* (ps, s6) := many1 fuel match_pair_first (r_match_pair fuel) s5 in
  let* (c, s7) := expect T_RBRACE s6 in
  Some (mkMatchFieldDecl (span_of s0 s7) m k a n o ps c, s7).

(* ------------------------------------------------------------------ fieldDefinition *)
(* Decision 12 (AdaptivePredict).  After an optional REPEAT:
     alt 1  IDENTIFIER '{'                               (REPEAT allowed)
     alt 2  type IDENTIFIER (STRING_LITERAL | COMMA)     (REPEAT allowed)
     alt 3  IDENTIFIER (IDENTIFIER | STRING_LITERAL | COMMA)   (REPEAT allowed)
     alt 4  type? IDENTIFIER '@lengthOf('                (no REPEAT)
     alt 5  type? IDENTIFIER '@calculatedFrom('          (no REPEAT)
     alt 6  MATCH                                        (no REPEAT)
   The walk stops as soon as one alternative is left: after REPEAT a type start leaves
   alt 2 alone, and it is predicted without looking further. *)
Definition type_len (k : nat) (s : pst) : option nat :=
  let t := la k s in
  if mem t basic_types || mem t [T_STRINGKW; T_CHARARR] then Some 1
  else if mem t [T_CHARLB; T_ZCHARLB] then
    if Nat.eqb (la (k + 1) s) T_DIGITS && Nat.eqb (la (k + 2) s) T_RBRACK then Some 3 else None
  else None.

Definition predict_fd (s : pst) : option nat :=
  if Nat.eqb (la 0 s) T_REPEAT then
    let t := la 1 s in
    if Nat.eqb t T_IDENTIFIER then
      let u := la 2 s in
      if Nat.eqb u T_LBRACE then Some 1
      else if mem u [T_IDENTIFIER; T_STRING_LITERAL; T_COMMA] then Some 3
      else None
    else if mem t type_first then Some 2
    else None
  else
    let t := la 0 s in
    if Nat.eqb t T_MATCH then Some 6
    else if Nat.eqb t T_IDENTIFIER then
      let u := la 1 s in
      if Nat.eqb u T_LBRACE then Some 1
      else if Nat.eqb u T_LENGTHOF then Some 4
      else if Nat.eqb u T_CALCFROM then Some 5
      else if mem u [T_IDENTIFIER; T_STRING_LITERAL; T_COMMA] then Some 3
      else None
    else
      match type_len 0 s with
      | Some n =>
          if Nat.eqb (la n s) T_IDENTIFIER then
            let u := la (n + 1) s in
            if mem u [T_STRING_LITERAL; T_COMMA] then Some 2
            else if Nat.eqb u T_LENGTHOF then Some 4
            else if Nat.eqb u T_CALCFROM then Some 5
            else None
          else None
      | None => None
      end.

Fixpoint r_field_def (fuel : nat) (s0 : pst) : option (field_def * pst) :=
  match fuel with
  | O => None
  | S f =>
      match predict_fd s0 with
      | Some 1 =>
          let '(r, s1) := accept T_REPEAT s0 in
          (* inerObjectDeclaration: IDENTIFIER ('{' fieldDefinition+ '}') *)
          let* (n, s2) := expect T_IDENTIFIER s1 in
          let* (o, s3) := expect T_LBRACE s2 in
          let* (fs, s4) := many1 f field_def_first (r_field_def f) s3 in
          let* (c, s5) := expect T_RBRACE s4 in
          let d := InerObjectDecl (span_of s1 s5) n o fs c in
          let* (m, s6) := expect T_COMMA s5 in
          Some (InerObjectField (span_of s0 s6) r d m, s6)
      | Some 2 =>
          let '(r, s1) := accept T_REPEAT s0 in
          let* (d, s2) := r_meta_decl s1 in
          Some (MetaField (span_of s0 s2) r d, s2)
      | Some 3 =>
          let '(r, s1) := accept T_REPEAT s0 in
          let* (ft, s2) := expect T_IDENTIFIER s1 in
          let '(fn, s3) := accept T_IDENTIFIER s2 in
          let '(d, s4) := accept T_STRING_LITERAL s3 in
          let* (m, s5) := expect T_COMMA s4 in
          Some (ObjectField (span_of s0 s5) r ft fn d m, s5)
      | Some 4 =>
          let* (d, s1) := r_length_field_decl s0 in
          Some (LengthField (span_of s0 s1) d, s1)
      | Some 5 =>
          let* (d, s1) := r_checksum_field_decl s0 in
          Some (CheckSumField (span_of s0 s1) d, s1)
      | Some 6 =>
          let* (d, s1) := r_match_field_decl f s0 in
          let* (m, s2) := expect T_COMMA s1 in
          Some (MatchField (span_of s0 s2) d m, s2)
      | _ => None
      end
  end.

(* fieldDefinitionWithAttribute: fieldAttribute* fieldDefinition *)
Definition r_field_with_attr (fuel : nat) (s0 : pst) : option (field_with_attr * pst) :=
  let* (attrs, s1) := many fuel attr_first r_field_attribute s0 in
  let* (d, s2) := r_field_def fuel s1 in
  Some (mkFieldWithAttr (span_of s0 s2) attrs d, s2).

(* ------------------------------------------------------------------ definitions *)
Definition r_packet_def (fuel : nat) (s0 : pst) : option (packet_def * pst) :=
  let '(r, s1) := accept T_ROOT s0 in
  let* (k, s2) := expect T_PACKET s1 in
  let* (n, s3) := expect T_IDENTIFIER s2 in
  let* (o, s4) := expect T_LBRACE s3 in
  let* (fs, s5) := many fuel field_with_attr_first (r_field_with_attr fuel) s4 in
  let* (c, s6) := expect T_RBRACE s5 in
  Some (mkPacketDef (span_of s0 s6) r k n o fs c, s6).

Definition r_meta_item (s0 : pst) : option (meta_item * pst) :=
  if Nat.eqb (la 0 s0) T_IDENTIFIER then
    let* (d, s1) := r_ref_meta_decl s0 in Some (MIRef d, s1)
  else
    let* (d, s1) := r_meta_decl s0 in Some (MIDecl d, s1).

Definition r_meta_def (fuel : nat) (s0 : pst) : option (meta_def * pst) :=
  let* (k, s1) := expect T_METADATA s0 in
  let* (n, s2) := expect T_IDENTIFIER s1 in
  let* (o, s3) := expect T_LBRACE s2 in
  let* (items, s4) := many fuel meta_item_first r_meta_item s3 in
  let* (c, s5) := expect T_RBRACE s4 in
  Some (mkMetaDef (span_of s0 s5) k n o items c, s5).

Definition r_option_decl (s0 : pst) : option (option_decl * pst) :=
  let* (n, s1) := expect T_IDENTIFIER s0 in
  let* (e, s2) := expect T_EQ s1 in
  let* (v, s3) := r_value s2 in
  let '(m, s4) := accept T_SEMICOLON s3 in
  Some (mkOptionDecl (span_of s0 s4) n e v m, s4).

Definition r_option_def (fuel : nat) (s0 : pst) : option (option_def * pst) :=
  let* (k, s1) := expect T_OPTIONS s0 in
  let* (o, s2) := expect T_LBRACE s1 in
  let* (ds, s3) := many fuel [T_IDENTIFIER] r_option_decl s2 in
  let* (c, s4) := expect T_RBRACE s3 in
  Some (mkOptionDef (span_of s0 s4) k o ds c, s4).

Definition r_definition (fuel : nat) (s0 : pst) : option (definition * pst) :=
  let t := la 0 s0 in
  if mem t [T_ROOT; T_PACKET] then
    let* (d, s1) := r_packet_def fuel s0 in Some (DPacket d, s1)
  else if Nat.eqb t T_METADATA then
    let* (d, s1) := r_meta_def fuel s0 in Some (DMeta d, s1)
  else if Nat.eqb t T_OPTIONS then
    let* (d, s1) := r_option_def fuel s0 in Some (DOption d, s1)
  else None.

(* the start rule, then parseWithListener's test that nothing but EOF is left *)
Definition r_packet (fuel : nat) (s0 : pst) : option (pt * pst) :=
  let* (ds, s1) := many fuel definition_first (r_definition fuel) s0 in
  Some (mkPacket (lt1 s0) (st_prev s1) ds, s1).

(* parseWithListener: after the start rule, LT(1) must be EOF ("unexpected input" otherwise).
   The EOF token is the last of the stream and no rule ever consumes it, so "LT(1) is EOF" is
   "exactly the EOF token is left"; a list that does not end with its only EOF token is not a
   token stream and gets None as well. *)
Definition parse_ptoks (ps : list ptok) : option pt :=
  let* (t, s1) := r_packet (S (length ps)) (mkSt None ps) in
  match st_rest s1 with
  | [e] => if Nat.eqb (p_type e) T_EOF then Some t else None
  | _ => None
  end.

(* [ts]: all tokens in stream order, hidden ones included, the EOF token last *)
Definition parse (ts : list tok) : option pt := parse_ptoks (index_from 0 ts).
