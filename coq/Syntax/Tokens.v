(* Tokens of the packet DSL (grammar/PacketDsl.g4) as the ANTLR lexer produces them.
   Model only: no proofs here.

   The token type numbers are those of /repo/internal/grammar/PacketDsl.tokens.  The
   implicit literal tokens T__0..T__17 come first (1..18): ANTLR defines them before
   the named lexer rules, and that order is the tie-break of the lexer.

   INPUT.  antlr.NewInputStream converts the Go string with []rune(data): the lexer
   works on RUNES (Unicode code points, an invalid UTF-8 byte becomes U+FFFD), columns
   count runes and the classes ~[...] and '.' match one rune.  The model therefore takes
   the text as a [list rune] (rune = N); the Python harness does the Go decoding
   (harness/tree.py go_runes) and passes the rune list.  Token TEXTS are Go strings
   again (string(runes[start:stop+1])), i.e. the UTF-8 encoding of the runes: [text] is
   a Coq string of bytes. *)
From Coq Require Export String Ascii NArith Bool Arith List.
Export ListNotations.

Definition rune := N.

(* line: 1-based; col: 0-based, in runes; hidden: channel(HIDDEN), i.e. LINE_COMMENT *)
Record tok := mkTok { type : nat; text : string; line : nat; col : nat; hidden : bool }.

(* implicit literal tokens *)
Definition T_OPTIONS := 1%nat.      (* 'options' *)
Definition T_LBRACE := 2%nat.       (* '{' *)
Definition T_RBRACE := 3%nat.       (* '}' *)
Definition T_EQ := 4%nat.           (* '=' *)
Definition T_CALCFROM := 5%nat.     (* '@calculatedFrom(' *)
Definition T_RPAREN := 6%nat.       (* ')' *)
Definition T_LENGTHOF := 7%nat.     (* '@lengthOf(' *)
Definition T_LPAREN := 8%nat.       (* '(' *)
Definition T_TAG := 9%nat.          (* '@tag(' *)
Definition T_TRUE := 10%nat.        (* 'true' *)
Definition T_FALSE := 11%nat.       (* 'false' *)
Definition T_CHARLB := 12%nat.      (* 'char[' *)
Definition T_RBRACK := 13%nat.      (* ']' *)
Definition T_ZCHARLB := 14%nat.     (* 'zchar[' *)
Definition T_STRINGKW := 15%nat.    (* 'string' *)
Definition T_CHARARR := 16%nat.     (* 'char[]' *)
Definition T_AS := 17%nat.          (* 'as' *)
Definition T_LBRACK := 18%nat.      (* '[' *)
(* named lexer rules *)
Definition T_CHAR := 19%nat.
Definition T_UINT8 := 20%nat.
Definition T_UINT16 := 21%nat.
Definition T_UINT32 := 22%nat.
Definition T_UINT64 := 23%nat.
Definition T_INT8 := 24%nat.
Definition T_INT16 := 25%nat.
Definition T_INT32 := 26%nat.
Definition T_INT64 := 27%nat.
Definition T_FLOAT32 := 28%nat.
Definition T_FLOAT64 := 29%nat.
Definition T_DIGITS := 30%nat.
Definition T_STRING := 31%nat.
Definition T_PADDING_ATTR := 32%nat.
Definition T_PADDING_CHAR := 33%nat.
Definition T_ROOT := 34%nat.
Definition T_PACKET := 35%nat.
Definition T_REPEAT := 36%nat.
Definition T_METADATA := 37%nat.
Definition T_MATCH := 38%nat.
Definition T_COLON := 39%nat.
Definition T_COMMA := 40%nat.
Definition T_SEMICOLON := 41%nat.
Definition T_IDENTIFIER := 42%nat.
Definition T_STRING_LITERAL := 43%nat.
Definition T_LINE_COMMENT := 44%nat.
Definition T_WS := 45%nat.

(* The end-of-file token.  ANTLR's type is -1; [type] is a nat, so the model uses 0
   (ANTLR's TokenInvalidType, which no real token ever has).  Its text is "<EOF>" as
   GetText() of the real EOF token. *)
Definition T_EOF := 0%nat.
Definition eof_text : string := "<EOF>"%string.

(* ---- Go's string(rune...) : UTF-8 encoding; surrogates and values above U+10FFFF
   are encoded as U+FFFD (they cannot come out of []rune(string) anyway). *)
Open Scope N_scope.

Definition utf8_rune (r : rune) : list N :=
  if r <? 128 then [r]
  else if r <? 2048 then [192 + r / 64; 128 + r mod 64]
  else if ((55296 <=? r) && (r <=? 57343)) || (1114111 <? r) then [239; 191; 189]
  else if r <? 65536 then [224 + r / 4096; 128 + (r / 64) mod 64; 128 + r mod 64]
  else [240 + r / 262144; 128 + (r / 4096) mod 64; 128 + (r / 64) mod 64; 128 + r mod 64].

Fixpoint string_of_bytes (l : list N) : string :=
  match l with
  | [] => EmptyString
  | b :: r => String (ascii_of_N b) (string_of_bytes r)
  end.

Fixpoint string_of_runes (l : list rune) : string :=
  match l with
  | [] => EmptyString
  | r :: rest => append (string_of_bytes (utf8_rune r)) (string_of_runes rest)
  end.

(* the runes of an ASCII-only Coq string (used for the literals of the grammar and by
   the harness for texts that are pure ASCII) *)
Fixpoint runes_of_ascii (s : string) : list rune :=
  match s with
  | EmptyString => []
  | String c r => N_of_ascii c :: runes_of_ascii r
  end.

Close Scope N_scope.
