(* The terminals of a parse tree in order.  Model only: no proofs here (see
   Proofs/Syntax.v: parse ts = Some t -> flatten t = the default-channel token texts of ts).

   [toks_pt t] is the list of the tree's terminals (as tree tokens), [flatten t] their
   texts: ctx.GetText() of the root, cut into tokens.  [text_of ks] is GetText() itself
   (the texts concatenated without separators), e.g. [text_of (toks_type t)] is what the
   visitor gets from ctx.Type_().GetText(). *)
From FP Require Export PT.

Definition o2l {A : Type} (o : option A) : list A := match o with Some x => [x] | None => [] end.

Definition toks_basic_type (b : basic_type) : list ptok := [bt_tok b].
Definition toks_fixed_string (f : fixed_string) : list ptok := [fs_open f; fs_digits f; fs_close f].
Definition toks_dynamic_string (d : dynamic_string) : list ptok := [ds_tok d].

Definition toks_type (t : type_) : list ptok :=
  match t with
  | TyBasic _ b => toks_basic_type b
  | TyFixed _ f => toks_fixed_string f
  | TyDynamic _ d => toks_dynamic_string d
  end.

Definition toks_value (v : value) : list ptok :=
  match v with
  | VType _ t => toks_type t
  | VString _ t | VDigits _ t | VPaddingChar _ t | VTrue _ t | VFalse _ t => [t]
  end.

Definition toks_calculated_from (a : calculated_from) : list ptok := [cf_open a; cf_from a; cf_close a].
Definition toks_length_of (a : length_of) : list ptok := [lo_open a; lo_from a; lo_close a].
Definition toks_padding_attr (a : padding_attr) : list ptok :=
  [pa_attr a; pa_open a] ++ o2l (pa_padding a) ++ [pa_close a].
Definition toks_tag_attr (a : tag_attr) : list ptok := [ta_open a; ta_digits a; ta_close a].

Definition toks_field_attribute (a : field_attribute) : list ptok :=
  match a with
  | FALengthOf _ x => toks_length_of x
  | FACalculatedFrom _ x => toks_calculated_from x
  | FATag _ x => toks_tag_attr x
  | FAPadding _ x => toks_padding_attr x
  end.

Definition toks_meta_decl (d : meta_decl) : list ptok :=
  toks_type (md_type d) ++ [md_name d] ++ o2l (md_doc d) ++ [md_comma d].
Definition toks_ref_meta_decl (d : ref_meta_decl) : list ptok :=
  [rm_typ d; rm_name d] ++ o2l (rm_doc d) ++ [rm_comma d].
Definition toks_opt_type (o : option type_) : list ptok :=
  match o with Some t => toks_type t | None => [] end.
Definition toks_length_field_decl (d : length_field_decl) : list ptok :=
  toks_opt_type (lf_type d) ++ [lf_name d] ++ toks_length_of (lf_length_of d) ++ o2l (lf_doc d) ++ [lf_comma d].
Definition toks_checksum_field_decl (d : checksum_field_decl) : list ptok :=
  toks_opt_type (ck_type d) ++ [ck_name d] ++ toks_calculated_from (ck_calculated_from d) ++ o2l (ck_doc d) ++ [ck_comma d].

Definition toks_comma_item (p : ptok * ptok) : list ptok := [fst p; snd p].
Definition toks_key_list (l : key_list) : list ptok :=
  [li_open l; li_first l] ++ flat_map toks_comma_item (li_rest l) ++ [li_close l].
Definition toks_match_key (k : match_key) : list ptok :=
  match k with
  | MKDigits t | MKString t => [t]
  | MKList l => toks_key_list l
  end.
Definition toks_match_pair (p : match_pair) : list ptok :=
  toks_match_key (mp_key p) ++ [mp_colon p; mp_ident p] ++ o2l (mp_comma p).
Definition toks_match_field_decl (d : match_field_decl) : list ptok :=
  [mf_match d; mf_key d; mf_as d; mf_name d; mf_open d] ++ flat_map toks_match_pair (mf_pairs d) ++ [mf_close d].

Fixpoint toks_field_def (f : field_def) : list ptok :=
  match f with
  | InerObjectField _ r d m => o2l r ++ toks_iner_object_decl d ++ [m]
  | MetaField _ r d => o2l r ++ toks_meta_decl d
  | ObjectField _ r ft fn d m => o2l r ++ [ft] ++ o2l fn ++ o2l d ++ [m]
  | LengthField _ d => toks_length_field_decl d
  | CheckSumField _ d => toks_checksum_field_decl d
  | MatchField _ d m => toks_match_field_decl d ++ [m]
  end
with toks_iner_object_decl (d : iner_object_decl) : list ptok :=
  match d with
  | InerObjectDecl _ n o fs c => [n; o] ++ flat_map toks_field_def fs ++ [c]
  end.

Definition toks_field_with_attr (f : field_with_attr) : list ptok :=
  flat_map toks_field_attribute (fw_attrs f) ++ toks_field_def (fw_def f).

Definition toks_packet_def (d : packet_def) : list ptok :=
  o2l (pd_root d) ++ [pd_packet d; pd_name d; pd_open d] ++ flat_map toks_field_with_attr (pd_fields d) ++ [pd_close d].

Definition toks_meta_item (i : meta_item) : list ptok :=
  match i with
  | MIDecl d => toks_meta_decl d
  | MIRef d => toks_ref_meta_decl d
  end.
Definition toks_meta_def (d : meta_def) : list ptok :=
  [me_kw d; me_name d; me_open d] ++ flat_map toks_meta_item (me_items d) ++ [me_close d].

Definition toks_option_decl (d : option_decl) : list ptok :=
  [od_name d; od_eq d] ++ toks_value (od_value d) ++ o2l (od_semi d).
Definition toks_option_def (d : option_def) : list ptok :=
  [op_kw d; op_open d] ++ flat_map toks_option_decl (op_decls d) ++ [op_close d].

Definition toks_definition (d : definition) : list ptok :=
  match d with
  | DPacket x => toks_packet_def x
  | DMeta x => toks_meta_def x
  | DOption x => toks_option_def x
  end.

Definition toks_pt (t : pt) : list ptok := flat_map toks_definition (pk_defs t).

(* the default-channel token texts of the tree, in order *)
Definition flatten (t : pt) : list string := map p_text (toks_pt t).

(* GetText() of a node whose terminals are [ks] *)
Definition text_of (ks : list ptok) : string := fold_right (fun k acc => append (p_text k) acc) EmptyString ks.
