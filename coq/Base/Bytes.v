(* Bytes and fixed-width integers on the wire.  Model only: no proofs here. *)
From Coq Require Export String Ascii NArith Bool Arith List.
Export ListNotations.
Open Scope N_scope.

Definition byte := N.

(* the [w] low-order bytes of [n], most significant first *)
Fixpoint enc_be (w : nat) (n : N) : list byte :=
  match w with
  | O => []
  | S w' => enc_be w' (n / 256) ++ [n mod 256]
  end.

Definition enc_int (w : nat) (le : bool) (n : N) : list byte :=
  if le then rev (enc_be w n) else enc_be w n.

Fixpoint dec_be (acc : N) (l : list byte) : N :=
  match l with
  | [] => acc
  | b :: r => dec_be (acc * 256 + b) r
  end.

Definition dec_int (w : nat) (le : bool) (bs : list byte) : option (N * list byte) :=
  if Nat.ltb (length bs) w then None
  else let h := firstn w bs in
       Some (dec_be 0 (if le then rev h else h), skipn w bs).

Definition pow256 (w : nat) : N := 2 ^ (8 * N.of_nat w).

(* replace [length new] bytes of [buf] starting at [pos] *)
Definition patch_at (buf : list byte) (pos : nat) (new : list byte) : list byte :=
  firstn pos buf ++ new ++ skipn (pos + length new) buf.

Fixpoint repeat_byte (b : byte) (k : nat) : list byte :=
  match k with O => [] | S k' => b :: repeat_byte b k' end.

(* fixed strings: [s] padded to exactly [n] bytes with [c] on the left or on the right *)
Definition pad_to (n : nat) (c : byte) (lft : bool) (s : list byte) : list byte :=
  let fill := repeat_byte c (n - length s) in
  if lft then fill ++ s else s ++ fill.

Fixpoint drop_while_eq (c : byte) (s : list byte) : list byte :=
  match s with
  | [] => []
  | b :: r => if N.eqb b c then drop_while_eq c r else s
  end.

Definition trim_pad (c : byte) (lft : bool) (s : list byte) : list byte :=
  if lft then drop_while_eq c s else rev (drop_while_eq c (rev s)).

Definition all_bytes (l : list byte) : bool := forallb (fun b => N.ltb b 256) l.
