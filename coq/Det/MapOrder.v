(* Go map iteration order as an explicit oracle (C13), and generators over a shared model
   (C14).  Model and the general lemmas; the regenerated site tables are in Gen/Sites.v. *)
From Coq Require Import String List Bool Permutation Sorted Lia.
Import ListNotations.
Open Scope string_scope.

(* ---------------------------------------------------------------- C13 *)

(* A `for k, v := range m` over a Go map visits the entries in an arbitrary order: the loop is
   modelled as a fold over ANY permutation of the entries. *)

Section KeyedInsert.
  (* body: out[key e] = val e  (the Generate loops of the Go, Rust and Java generators) *)
  Variables E V : Type.
  Variable key : E -> string.
  Variable val : E -> V.

  Definition fmap := string -> option V.
  Definition upd (m : fmap) (k : string) (v : V) : fmap := fun k' => if String.eqb k' k then Some v else m k'.
  Definition insert_all (l : list E) (m : fmap) : fmap := fold_left (fun m e => upd m (key e) (val e)) l m.

  Lemma upd_comm m k1 v1 k2 v2 k : k1 <> k2 -> upd (upd m k1 v1) k2 v2 k = upd (upd m k2 v2) k1 v1 k.
  Proof.
    intros H. unfold upd. destruct (String.eqb_spec k k2), (String.eqb_spec k k1); try reflexivity. congruence.
  Qed.

  Lemma insert_all_ext l : forall m m', (forall k, m k = m' k) -> forall k, insert_all l m k = insert_all l m' k.
  Proof.
    induction l as [|e l IH]; intros m m' H k; cbn [insert_all fold_left]; [apply H|].
    apply IH. intros k'. unfold upd. destruct (String.eqb k' (key e)); [reflexivity|apply H].
  Qed.

  (* with pairwise distinct keys the resulting map does not depend on the iteration order *)
  Theorem keyed_insert_order_independent l1 l2 :
    Permutation l1 l2 -> NoDup (map key l1) -> forall m k, insert_all l1 m k = insert_all l2 m k.
  Proof.
    intros Hp. induction Hp as [|x l l' Hp IH|x y l|l l' l'' Hp1 IH1 Hp2 IH2]; intros Hnd m k.
    - reflexivity.
    - cbn [insert_all fold_left]. apply IH. cbn [map] in Hnd. inversion Hnd; assumption.
    - cbn [insert_all fold_left]. apply insert_all_ext. intros k'. apply upd_comm.
      cbn [map] in Hnd. inversion Hnd as [|a b Hnotin _]; subst. intros Heq. apply Hnotin. left. symmetry. exact Heq.
    - rewrite IH1 by exact Hnd. apply IH2. eapply Permutation_NoDup; [apply Permutation_map; exact Hp1|exact Hnd].
  Qed.
End KeyedInsert.

Section CollectThenSort.
  (* body: keys = append(keys, k); afterwards sort.Strings(keys) and a loop over the sorted
     slice (generateLibCode, the Python/C++ factory loops, AddOption) *)
  Variable leb : string -> string -> bool.                 (* the order sort.Strings uses *)
  Hypothesis leb_total : forall a b, leb a b = true \/ leb b a = true.
  Hypothesis leb_antisym : forall a b, leb a b = true -> leb b a = true -> a = b.
  Hypothesis leb_trans : forall a b c, leb a b = true -> leb b c = true -> leb a c = true.

  Fixpoint insert (x : string) (l : list string) : list string :=
    match l with
    | [] => [x]
    | y :: r => if leb x y then x :: l else y :: insert x r
    end.
  Definition sort (l : list string) : list string := fold_right insert [] l.

  Definition le_all (x : string) (l : list string) : Prop := forall y, In y l -> leb x y = true.
  Inductive sorted : list string -> Prop :=
  | sorted_nil : sorted []
  | sorted_cons x l : le_all x l -> sorted l -> sorted (x :: l).

  Lemma insert_in x l y : In y (insert x l) <-> y = x \/ In y l.
  Proof.
    induction l as [|z l IH]; cbn [insert In]; [intuition|].
    destruct (leb x z); cbn [In]; [intuition|]. rewrite IH. intuition.
  Qed.

  Lemma insert_sorted x l : sorted l -> sorted (insert x l).
  Proof.
    intros H. induction H as [|z l Hz Hs IH]; cbn [insert]; [constructor; [intros y []|constructor]|].
    destruct (leb x z) eqn:E.
    - constructor; [|constructor; assumption]. intros y [Hy|Hy]; [subst; exact E|eapply leb_trans; [exact E|apply Hz; exact Hy]].
    - constructor; [|exact IH]. intros y Hy. apply insert_in in Hy. destruct Hy as [Hy|Hy]; [|apply Hz; exact Hy].
      subst y. destruct (leb_total x z) as [H|H]; [congruence|exact H].
  Qed.

  Lemma sort_sorted l : sorted (sort l).
  Proof. induction l as [|x l IH]; cbn [sort fold_right]; [constructor|apply insert_sorted; exact IH]. Qed.

  Lemma insert_perm x l : Permutation (x :: l) (insert x l).
  Proof.
    induction l as [|y l IH]; cbn [insert]; [reflexivity|]. destruct (leb x y); [reflexivity|].
    eapply perm_trans; [apply perm_swap|]. apply perm_skip. exact IH.
  Qed.

  Lemma sort_perm l : Permutation l (sort l).
  Proof.
    induction l as [|x l IH]; cbn [sort fold_right]; [reflexivity|].
    eapply perm_trans; [apply perm_skip; exact IH|apply insert_perm].
  Qed.

  Lemma sorted_perm_eq l1 : forall l2, sorted l1 -> sorted l2 -> Permutation l1 l2 -> l1 = l2.
  Proof.
    induction l1 as [|x l1 IH]; intros l2 H1 H2 Hp.
    - apply Permutation_nil in Hp. subst. reflexivity.
    - destruct l2 as [|y l2]; [apply Permutation_sym, Permutation_nil in Hp; discriminate|].
      inversion H1 as [|? ? Hx Hs1]; subst. inversion H2 as [|? ? Hy Hs2]; subst.
      assert (Hxy : x = y).
      { assert (Hin1 : In x (y :: l2)) by (eapply Permutation_in; [exact Hp|left; reflexivity]).
        assert (Hin2 : In y (x :: l1)) by (eapply Permutation_in; [apply Permutation_sym; exact Hp|left; reflexivity]).
        destruct Hin1 as [E|Hin1]; [congruence|]. destruct Hin2 as [E|Hin2]; [congruence|].
        apply leb_antisym; [apply Hx; exact Hin2|apply Hy; exact Hin1]. }
      subst y. f_equal. apply IH; [assumption|assumption|]. eapply Permutation_cons_inv. exact Hp.
  Qed.

  (* the sorted key list, and so the text emitted from it, does not depend on the iteration order *)
  Theorem collect_then_sort_order_independent l1 l2 : Permutation l1 l2 -> sort l1 = sort l2.
  Proof.
    intros Hp. apply sorted_perm_eq; [apply sort_sorted|apply sort_sorted|].
    eapply perm_trans; [apply Permutation_sym, sort_perm|]. eapply perm_trans; [exact Hp|apply sort_perm].
  Qed.
End CollectThenSort.

(* what a map-range site may look like *)
Definition site := (string * string * string)%type.        (* file, function, kind *)
Definition site_kind (s : site) : string := snd s.
Definition site_func (s : site) : string := snd (fst s).

(* effects other than keyed inserts / collect-then-sort: allowed only where the effect order is
   not part of the generated files (WriteCodeToFile writes each map entry to its own path) *)
Definition effect_allowlist : list string := ["WriteCodeToFile"].

Definition site_ok (s : site) : bool :=
  orb (orb (String.eqb (site_kind s) "keyed-insert") (String.eqb (site_kind s) "collect-then-sort"))
      (andb (String.eqb (site_kind s) "effects") (existsb (String.eqb (site_func s)) effect_allowlist)).

(* ---------------------------------------------------------------- C14 *)

Section Generators.
  (* a generator run: the files it returns and the model it leaves behind *)
  Variables Model Lang Files : Type.
  Variable run : Lang -> Model -> Files * Model.
  Hypothesis pure : forall L M, snd (run L M) = M.          (* generating never alters the model *)

  (* running a sequence of generators over one shared model *)
  Fixpoint run_all (ls : list Lang) (M : Model) : list (Lang * Files) * Model :=
    match ls with
    | [] => ([], M)
    | L :: r => let '(f, M') := run L M in let '(out, M'') := run_all r M' in ((L, f) :: out, M'')
    end.

  Lemma run_all_model ls M : snd (run_all ls M) = M.
  Proof.
    revert M. induction ls as [|L r IH]; intros M; cbn [run_all]; [reflexivity|].
    destruct (run L M) as [f M'] eqn:E. specialize (IH M'). destruct (run_all r M') as [out M'']. cbn [snd] in *.
    pose proof (pure L M) as Hp. rewrite E in Hp. cbn [snd] in Hp. congruence.
  Qed.

  (* whichever generators ran before and in whatever order, a generator returns what it
     returns when run alone on the parsed model *)
  Theorem generators_independent ls M L f :
    In (L, f) (fst (run_all ls M)) -> f = fst (run L M).
  Proof.
    revert M. induction ls as [|L' r IH]; intros M; cbn [run_all]; [intros []|].
    destruct (run L' M) as [f' M'] eqn:E. destruct (run_all r M') as [out M''] eqn:Er. cbn [fst].
    intros [H|H].
    - inversion H; subst. rewrite E. reflexivity.
    - pose proof (pure L' M) as Hp. rewrite E in Hp. cbn [snd] in Hp. subst M'.
      apply IH. rewrite Er. exact H.
  Qed.
End Generators.
