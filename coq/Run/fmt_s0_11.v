From FP Require Import Lexer Parser ShowPT Digest Formatter.
From Coq Require Import String List NArith.
Import ListNotations.
Open Scope string_scope.
Set Printing Width 100000000.
Set Printing Depth 100000000.
Definition show_fres (r : fres) : string :=
  match r with
  | FOk s => "OK:" ++ sh_escaped s ""
  | FErr s => "ERR:" ++ sh_escaped s ""
  | FPanic p => "PANIC:" ++ p
  end.
Definition check (rs : list rune) : string := digest (show_fres (format_res rs)).
Definition full (rs : list rune) : string := show_fres (format_res rs).
Eval vm_compute in ("<<<M1354>>>" ++ check (runes_of_ascii "// top
options // c0
{
    // c1
StringPrefixLenType = u16 ; // c5
ArrayPrefixLenType
    // c6
= // c7a
  // c7b
u32 ;
    // c9
FixedStringPadFromLeft
    // c10
= // c11
true // c12a
  // c12b
; FixedStringPadChar = // c15a
  // c15b
'0' // c16a
  // c16b
;
    // c17
} packet Cancel // c20
{ // c21a
  // c21b
} // c22a
  // c22b
packet
    // c23
Party { }
    // c26
packet // c27a
  // c27b
Logon // c28
{ } packet
    // c31
Ack // c32
{ // c33a
  // c33b
} // c34
packet // c35a
  // c35b
Logout // c36
{ // c37a
  // c37b
repeat // c38
InSym87
    // c39
{ // c40a
  // c40b
InClordid94 // c41
{
    // c42
string // c43a
  // c43b
clOrdID ,
    // c45
} ,
    // c47
string // c48a
  // c48b
Px // c49
, i16 // c51a
  // c51b
Qty
    // c52
, // c53
repeat
    // c54
InCount71 { repeat // c57a
  // c57b
Cancel
    // c58
,
    // c59
uint16 // c60
Tail
    // c61
,
    // c62
char[
    // c63
2 // c64a
  // c64b
] // c65
x , // c67a
  // c67b
repeat
    // c68
string // c69
Ref // c70a
  // c70b
, // c71
} , Cancel , // c75a
  // c75b
}
    // c76
, }
    // c78
root // c79
packet // c80a
  // c80b
Order // c81a
  // c81b
{ // c82
repeat // c83a
  // c83b
string
    // c84
tag7
    // c85
, @leftPad // c87
( // c88a
  // c88b
' ' ) // c90
char[ 3 ]
    // c93
Px
    // c94
, // c95a
  // c95b
u8
    // c96
Qty ,
    // c98
match Qty as // c101a
  // c101b
Body { [ // c104a
  // c104b
28 // c105a
  // c105b
, // c106
62 // c107
] // c108
:
    // c109
Logon
    // c110
, // c111a
  // c111b
148 // c112
: // c113a
  // c113b
Ack
    // c114
, // c115a
  // c115b
88
    // c116
: Party // c118a
  // c118b
, // c119
184 // c120a
  // c120b
: Cancel // c122a
  // c122b
, // c123
} // c124
, // c125a
  // c125b
u16
    // c126
Note // c127
@calculatedFrom( ""CRC32"" // c129
) // c130
, // c131
} ")).
Eval vm_compute in ("<<<M386>>>" ++ check (runes_of_ascii "options {
    StringPrefixLenType = u16;
    ArrayPrefixLenType = u16;
}

packet SampleBinary {
    uint16 MsgType `" ++ [28040; 24687; 31867; 22411]%N ++ runes_of_ascii "`,
    u16 BodyLenght @lengthOf(Body) `" ++ [28040; 24687; 20307; 38271; 24230]%N ++ runes_of_ascii "`,
    match MsgType as Body {
        1 : Logon,
        2 : Logout,
        3 : Heartbeat,
        4 : RiskControlRequest,
        5 : RiskControlResponse,
    },
    @calculatedFrom(""CRC32"")
    u32 Ckecksum `" ++ [26657; 39564; 21644]%N ++ runes_of_ascii "`,
}

packet Logon {
    @leftPad('0')
    char[10] UserName `" ++ [29992; 25143; 21517]%N ++ runes_of_ascii "`,
    string Password `" ++ [23494; 30721]%N ++ runes_of_ascii "`,
    uint64 ClientId `" ++ [23458; 25143; 31471]%N ++ runes_of_ascii "ID`,
    u16 HeartbeatInterval `" ++ [24515; 36339; 38388; 38548]%N ++ runes_of_ascii "`,
}

packet Logout {
    @rightPad('0')
    char[10] UserName `" ++ [29992; 25143; 21517]%N ++ runes_of_ascii "`,
    uint64 ClientId `" ++ [23458; 25143; 31471]%N ++ runes_of_ascii "ID`,
}

packet Heartbeat {
}

packet RiskControlRequest {
    string UniqueOrderId `" ++ [21807; 19968; 35746; 21333; 21495]%N ++ runes_of_ascii "`,
    char[16] ClOrdID `" ++ [23458; 25143; 35746; 21333; 21495]%N ++ runes_of_ascii "`,
    char[3] MarketID `" ++ [24066; 22330]%N ++ runes_of_ascii "id`,
    char[12] SecurityID `" ++ [35777; 21048; 20195; 30721]%N ++ runes_of_ascii "`,
    char Side `" ++ [20080; 21334; 26041; 21521]%N ++ runes_of_ascii "`,
    char OrderType `" ++ [35746; 21333; 31867; 22411]%N ++ runes_of_ascii "`,
    u64 Price `" ++ [20215; 26684]%N ++ runes_of_ascii "`,
    u32 Qty `" ++ [25968; 37327]%N ++ runes_of_ascii "`,
    repeat string ExtraInfo `" ++ [38468; 21152; 20449; 24687]%N ++ runes_of_ascii "`,
    repeat SubOrder {
        char[16] ClOrdID `" ++ [23376; 35746; 21333; 21495]%N ++ runes_of_ascii "`,
        u64 Price `" ++ [23376; 35746; 21333; 20215; 26684]%N ++ runes_of_ascii "`,
        u32 Qty `" ++ [23376; 35746; 21333; 25968; 37327]%N ++ runes_of_ascii "`,
    },
}

packet RiskControlResponse {
    string UniqueOrderId `" ++ [21807; 19968; 35746; 21333; 21495]%N ++ runes_of_ascii "`,
    i32 Status `" ++ [29366; 24577]%N ++ runes_of_ascii "`,
    string Msg `" ++ [32467; 26524; 20449; 24687]%N ++ runes_of_ascii "`,
    repeat Detail,
}

packet Detail {
    string RuleName `" ++ [35268; 21017; 21517; 31216]%N ++ runes_of_ascii "`,
    u16 Code `" ++ [21407; 22240; 20195; 30721]%N ++ runes_of_ascii "`,
}")).
Eval vm_compute in ("<<<M96>>>" ++ check (runes_of_ascii "packet  int//x
{
// " ++ [128512]%N ++ runes_of_ascii " emoji
//	t
} packet Z9_ {
    @tag(  1
) @tag(00 ) zchar[ 0 ] trueish `// not a comment`
, Header @lengthOf(
repeatCount ) // `tick` ""quote"" 'q'
,charz float`crlf
line` , match
lengthOf as	u
    // c
    { // `tick` ""quote"" 'q'
65535  :
    msg_type
,""1""
:
    // " ++ [27880; 37322]%N ++ runes_of_ascii "
    x
    ,
""a\""b"" : packetx , 10:
msg_type """ ++ [128512]%N ++ runes_of_ascii """ :
calculatedFrom [
7 ,0	]
    // c
    : // " ++ [128512]%N ++ runes_of_ascii " emoji
u128 , }, string i8i8`{ , }` , } packet// @lengthOf(
a1{ } root packet roots {
    @lengthOf(
    // " ++ [128512]%N ++ runes_of_ascii " emoji
    u )
f64 Logon,@lengthOf(
_x	) As
    @calculatedFrom(""\n"" ) , @leftPad
// packet A { u8 x, }
// " ++ [27880; 37322]%N ++ runes_of_ascii "
(  )repeatCount
@calculatedFrom( ""{,}""
)
`tab	here`
    // trailing space 
    , @tag(
    //x
    42)char[
1
    ]T
    `a\`
,int64
_x// packet A { u8 x, }
, zchar[	4294967296
    ]
i64_ @lengthOf(  tag
    //	t
    )
    `
`
    , @calculatedFrom(""a\""b""
    //x
    ) u8 len`it's` , @leftPad
(
) metadata@lengthOf(tag
    ) `{ , }` ,@leftPad// packet A { u8 x, }
( ' '
) MetaDataX  {
    repeat char[]	rootA
    ,
    // c
    } ,i8 body ,}
")).
Eval vm_compute in ("<<<M17>>>" ++ check (runes_of_ascii "
MetaData
    x{ len
    crc , float
    // " ++ [128512]%N ++ runes_of_ascii " emoji
    asx, i32 uint8x`line1
line2` ,u16
tag
// `tick` ""quote"" 'q'
//x
`it's` , As string_
    ,
}
packet metadata {@lengthOf(zchar )// c
i64_ @calculatedFrom(
""\" ++ [233]%N ++ runes_of_ascii """	) , //x
@leftPad
    ( '\x00' ) zchar[ 10
] zchar
    ,
    lengthOf //x
string_ ,int @lengthOf( pack
    ),
    zchar[ 00 ]
    Foo , @lengthOf( packetx )
    @leftPad (
'\x00'// " ++ [27880; 37322]%N ++ runes_of_ascii "
) @calculatedFrom(
    // @lengthOf(
    ""x y"" )uint16
len@calculatedFrom( """" )
`two words` , int8
    metadata @lengthOf( Foo )`two words`	, // @lengthOf(
}options
{ }
packet
pack{
// `tick` ""quote"" 'q'
//
f64
    o , T BodyLength  ,
    repeat
    uint8 chars  `" ++ [233]%N ++ runes_of_ascii "`
    ,repeat
    // c
    Logon
u
    // " ++ [128512]%N ++ runes_of_ascii " emoji
    ,@tag(
    0123456789 )
char[] repeatCount @lengthOf(// " ++ [27880; 37322]%N ++ runes_of_ascii "
_x )
    // c
    `
` ,//
@tag(
// packet A { u8 x, }
/// triple
7 )  repeatCount @calculatedFrom(""packet"" ) `{ , }` , }")).
Eval vm_compute in ("<<<M371>>>" ++ check (runes_of_ascii "root
    packet
packetx
    {
    @tag( 0) char[00 ] Z9_
    ,
    // a // b
    falsey
    // c
    { match
    x as options1 { [//	t
42 ,
    007 ]:
    uint8x } , uint8 falsey `crlf
line` , }
, f64 Pad
, @tag(7  ) string Logon// " ++ [27880; 37322]%N ++ runes_of_ascii "
`a\`, @lengthOf(
lengthOf//	t
) char[
3
    ]
// " ++ [27880; 37322]%N ++ runes_of_ascii "
//
calculatedFrom @calculatedFrom(
""" ++ [28040; 24687]%N ++ runes_of_ascii """
)
, char[]
    T , //x
@tag(
42 ) @leftPad ( )
    char[]trueish
@calculatedFrom(""`tick`"" ) ,match
    // `tick` ""quote"" 'q'
    uint8x as pack { [
    ""abc"",
    ""1"" ,""packet""
,
// `tick` ""quote"" 'q'
// `tick` ""quote"" 'q'
1,
    ""a\""b""]: As	, """ ++ [28040; 24687]%N ++ runes_of_ascii """ :
    trueish ,} ,
}
packet/// triple
charz
{
    repeat
Z9_ { Pad  {match len as string_{
    // a // b
    4294967296
    : msg_type , [""// no comment""
    ] :u
    ,
} ,} , zchar[
    65535
] As  @lengthOf(//x
string_
)
,
} ,
    }")).
Eval vm_compute in ("<<<M90>>>" ++ check (runes_of_ascii "root packet lengthOf
{ // a // b
match i64_  as options1{	""// no comment"":
    // packet A { u8 x, }
    f32a
    // @lengthOf(
    , 65535 :
    falsey, } ,  @tag(
0
)  char[]
    body
@lengthOf(  lengthOf ) ,	u64 string_ `it's`,@lengthOf( string_ // packet A { u8 x, }
)crc {repeat
zchar[ 3
] u	,	pack // packet A { u8 x, }
`a\`// trailing space 
,char[] crc `` , } //x
,int16 // packet A { u8 x, }
metadata `line1
line2`, }root	packet //	t
leftPad
{ repeat	zchar[
4294967296 //x
] MetaDataX
    ,@tag( 10 // `tick` ""quote"" 'q'
) match  tag as falsey
{ 7:
    BodyLength
, 0 : i64_ ,} , repeat char[ 255
    // @lengthOf(
    ] A
,
char[ 7]
trueish @calculatedFrom(	""a\\"" ) `two words`
// " ++ [128512]%N ++ runes_of_ascii " emoji
//	t
, i16
Logon, }
")).
Eval vm_compute in ("<<<M243>>>" ++ check (runes_of_ascii "// a // b
packet stringy { @tag( 3 ) // trailing space 
i64
    len
,@calculatedFrom( ""1""  ) char[
0 ]
x @lengthOf(Foo )
,@calculatedFrom( """" )
body
// c
// " ++ [128512]%N ++ runes_of_ascii " emoji
@lengthOf(
calculatedFrom )`line1
line2`
    , @calculatedFrom( ""it's"" // " ++ [128512]%N ++ runes_of_ascii " emoji
)// packet A { u8 x, }
match falsey
    // packet A { u8 x, }
    as u8x {[
""" ++ [128512]%N ++ runes_of_ascii """
    , // a // b
42 , 1 ,10 ]
: Header , } ,
// trailing space 
// `tick` ""quote"" 'q'
} MetaData// " ++ [128512]%N ++ runes_of_ascii " emoji
stringy{ f32a
    u128 `{ , }` , char[ // a // b
10 ]u128	, chars _x , zchar[ 65535 // trailing space 
]/// triple
falsey
    `{ , }`
    , _x i64_
, int32
Packet
`crlf
line` , } MetaData lengthOf
{
    }
// trailing space 
")).
Eval vm_compute in ("<<<M1118>>>" ++ check (runes_of_ascii "MetaData Packet
    // c1
{ // c2
} packet // c4a
  // c4b
charz // c5a
  // c5b
{ // c6a
  // c6b
Foo // c7
asx `it's` ,
    // c10
@lengthOf( // c11
T )
    // c13
@calculatedFrom(
    // c14
"""" // c15
)
    // c16
@calculatedFrom(
    // c17
""x y"" // c18
) // c19a
  // c19b
zchar[ 007 // c21
] repeatCount @lengthOf(
    // c24
int // c25
)
    // c26
`a\`
    // c27
, // c28a
  // c28b
i8
    // c29
string_ // c30a
  // c30b
, // c31
repeat // c32
options1 // c33
Pad
    // c34
, } // c36a
  // c36b
root packet
    // c38
Packet { int8 // c41
float `doc` // c43
, // c44
}
    // c45
")).
Eval vm_compute in ("<<<M65>>>" ++ check (runes_of_ascii "packet leftPad {
match A as x {""`tick`""
    : MetaDataX //
, [""it's""
,""\n"" ,
""" ++ [28040; 24687]%N ++ runes_of_ascii """ ] :
string_ , 0123456789 : o ,
[
""{,}"", ""x y"" ]
:uint8x	} , char[3	] msg_type// " ++ [128512]%N ++ runes_of_ascii " emoji
@lengthOf( u
//	t
// " ++ [27880; 37322]%N ++ runes_of_ascii "
)`two words` ,
    // c
    repeat
    int
// packet A { u8 x, }
// @lengthOf(
Foo ,
@rightPad
(
    )
@rightPad
( ' ' )
    Foo charz`{ , }`, }
MetaData A {
zchar[
0 ]A `{ , }`
    , float32 a1
    //
    ,
    char[]  pack , /// triple
string body `" ++ [233]%N ++ runes_of_ascii "` , string chars `doc` , int _x`two words`
,} options { Z9_ =
    uint16 ; }")).
Eval vm_compute in ("<<<M328>>>" ++ check (runes_of_ascii "
packet
Logon { repeatCount { BodyLength
    `crlf
line`, }
    , zchar a1 `u8 x,`  ,
match Foo as Foo { ""\n"" :i8i8,[
""abc""
    , // trailing space 
""CRC32"" ]
/// triple
// " ++ [128512]%N ++ runes_of_ascii " emoji
: // @lengthOf(
crc
    [ 3 ,
//
// " ++ [128512]%N ++ runes_of_ascii " emoji
""x y"", 42 , ""`tick`""
, 1 , ""a\""b"",
    ""CRC32"" , 255 ]:repeatCount , [// " ++ [128512]%N ++ runes_of_ascii " emoji
1
// a // b
// " ++ [27880; 37322]%N ++ runes_of_ascii "
,007 ,
""\n"",007 , 7 , ""// no comment"" ,
255 ] :
    uint8x 00
: f32a , } ,
    // a // b
    uint16 Pad @lengthOf( uint8x)// packet A { u8 x, }
`doc`  ,
}")).
Eval vm_compute in ("<<<M1372>>>" ++ check (runes_of_ascii "options {
    LittleEndian = true;
    StringPrefixLenType = u64;
    ArrayPrefixLenType = u16;
    FixedStringPadFromLeft = false;
    FixedStringPadChar = ' ';
}
packet Logon {
    zchar[5] Side2,
}
root packet Logout {
    repeat i64 Tail,
    Logon,
    repeat i16 OrderId,
    char[] venue,
    uint64 x,
    repeat i16 count,
    u8 Flags,
    match Flags as Body {
        25 : Logon,
    },
    u16 Qty @calculatedFrom(""CRC32""),
}
")).
Eval vm_compute in ("<<<M1271>>>" ++ check (runes_of_ascii "options { // c1a
  // c1b
LittleEndian
    // c2
= // c3
true // c4
; } // c6a
  // c6b
packet B { u8 // c10a
  // c10b
a
    // c11
, // c12a
  // c12b
string // c13
s // c14
, } // c16
root // c17a
  // c17b
packet
    // c18
P // c19
{ u16 // c21
L @lengthOf( B ) // c25a
  // c25b
, // c26a
  // c26b
B // c27a
  // c27b
,
    // c28
u8
    // c29
t // c30
, // c31
} // c32a
  // c32b
")).
Eval vm_compute in ("<<<M1878>>>" ++ check (runes_of_ascii "// top
packet A {
    // c2
    u8 a,
}// c6a

// c6b
packet B {
    u16 b,
    // c12
}

// c13
root packet P {
    // c17a
    // c17b
    u8 K1,// c20
    u8 K2,// c23a
    // c23b
    match K1 as M1 {
        // c28a
        // c28b
        1 : A,
        // c32a
        // c32b
    },
    match K2 as M2 {
        1 : B,
    },
    // c45
}// c46")).
Eval vm_compute in ("<<<M377>>>" ++ check (runes_of_ascii "packet crc {match  trueish
    as
len {
42 : uint8x,// " ++ [128512]%N ++ runes_of_ascii " emoji
""1"" :asx ,	3
: body [ ""1"" , 0123456789]: u ""packet"" : o , } , } MetaData tag
{
    string
o `line1
line2`
,
char[] //
Header `{ , }`// c
,  uint8x Z9_, } MetaData
tag
{ i8 len , }
    options //x
{
// `tick` ""quote"" 'q'
/// triple
x= 10;
}
")).
Eval vm_compute in ("<<<M1712>>>" ++ check (runes_of_ascii "
options{	LittleEndian=
true

; 
}  packet Logon	{u8  x
    ,
    string
user
,  }	packet
Logout

    {

    u16
reason ,
	}packet
	Empty { }

root
packet

Frame 
{ u16

    MsgType , u8
	BodyLen  @lengthOf(
Body
    ) ,	u8	flags

,  Logon

Body 
,
u32 trailer ,  }")).
Eval vm_compute in ("<<<M1780>>>" ++ check (runes_of_ascii "packet As {
    @tag(42)
    repeat Logon uint8x ``,
    repeat int32 x_y_z,
    char[7] pack,
    repeat string crc `// not a comment`,
    @calculatedFrom(""`tick`"")
    @tag(1)
    match chars as MetaDataX {
        4294967296 : T,
    },
}")).
Eval vm_compute in ("<<<M358>>>" ++ check (runes_of_ascii "
packet matchKey	{ // @lengthOf(
@lengthOf(
a1 ) string_
T`" ++ [28040; 24687; 31867; 22411]%N ++ runes_of_ascii "`, //
} packet body {f32 _x  , packetx @lengthOf(
options1 ) // packet A { u8 x, }
`` , @leftPad ( ' ') i16 crc ,@calculatedFrom(
""" ++ [128512]%N ++ runes_of_ascii """
)	Pad
, } //")).
Eval vm_compute in ("<<<M121>>>" ++ check (runes_of_ascii "packet u128 { @calculatedFrom(  ""a	b"" ) // packet A { u8 x, }
@leftPad( ' '
) //	t
@lengthOf(
Header // packet A { u8 x, }
) char[10
    ] crc@lengthOf(
len ) , } MetaData i8i8 { }
")).
Eval vm_compute in ("<<<M1683>>>" ++ check (runes_of_ascii "root packet _x {
    uint32 trueish @calculatedFrom(""1"") `crlf
    line`,
}

//
packet Header {
    repeat u64 stringy `// not a comment`,
    float32 msg_type,
}")).
Eval vm_compute in ("<<<M1546>>>" ++ check (runes_of_ascii "packet A {
    Inner {
        match k as n {
            [
                1, 22, 007, 4, 5,
                66, 7, 8
            ] : B,
        },
    },
}")).
Eval vm_compute in ("<<<M651>>>" ++ check (runes_of_ascii "// @lengthOf(
packet i8i8 { u128 o , }
options { MetaDataX MetaDataX = true;
    BodyLength =""packet"" x_y_z= 007
crc //x
= ""abc"" ;
    msg_type =
i16 }")).
Eval vm_compute in ("<<<M539>>>" ++ check (runes_of_ascii "packet uint8x
{ match pack
    as msg_type	{
    0123456789 :	float
}
,
} p" ++ [8232]%N ++ runes_of_ascii "acket //	t
a1
    { } options {packetx
    = '\x00'	; u128= ""a	b""  ; }
")).
Eval vm_compute in ("<<<M492>>>" ++ check (runes_of_ascii "packet uint8x
{ match pack
    as msg_type	{
    0123456789 :	float
}
,
} packet //	t
a1
    { } options {=
    packetx '\x00'	; u128= ""a	b""  ; }
")).
Eval vm_compute in ("<<<M702>>>" ++ check (runes_of_ascii "// @lengthOf(
packet i8i8 { u128 o , }
options { MetaDataX = true;
    BodyLength =""packet"" x_y_z= 007
crc //x
= ""abc"" ""abc"" ;
    msg_type =
i16 }")).
Eval vm_compute in ("<<<M670>>>" ++ check (runes_of_ascii "// @lengthOf(
packet i8i8 { u128 o , }
options { MetaDataX = true;
    BodyLength =""packet"" x_y_z= 007
crc //x
= ""abc"" ;
    msg_type = =
i16 }")).
Eval vm_compute in ("<<<M679>>>" ++ check (runes_of_ascii "// @lengthOf(
packet { i8i8 u128 o , }
options { MetaDataX = true;
    BodyLength =""packet"" x_y_z= 007
crc //x
= ""abc"" ;
    msg_type =
i16 }")).
Eval vm_compute in ("<<<M98>>>" ++ check (runes_of_ascii "
packet stringy {
}
MetaData u8x	{ zchar[ 65535
    // a // b
    ] Pad ,stringy string_
`u8 x,` ,	u8 lengthOf`
` , char[ 255
] pack , } 	 ")).
Eval vm_compute in ("<<<M1270>>>" ++ check (runes_of_ascii "options {
    LittleEndian = true;
}
packet B {
    u8 a,
    string s,
}
root packet P {
    u16 L @lengthOf(B),
    B,
    u8 t,
}
")).
Eval vm_compute in ("<<<M1539>>>" ++ check (runes_of_ascii "packet A {
    match k as n {
        [
            1, 22, ""c c"", 4, 5,
            ""f""
        ] : B,
        2 : C,
    },
}")).
Eval vm_compute in ("<<<M1699>>>" ++ check (runes_of_ascii "packet
A{match k
as n
{
    [ 1 ,	22
,007, 4,	5
, 66, 
7

    ,
	8,
9 , 10,
	11
    ]
	: B
,
	2:

C}

    ,

}
")).
Eval vm_compute in ("<<<M1172>>>" ++ check (runes_of_ascii "MetaData leftPad { chars MetaDataX , } packet repeatCount { char[ 255 ] uint8x `" ++ [233]%N ++ runes_of_ascii "`
// c
, } MetaData pack { As Foo , }")).
Eval vm_compute in ("<<<M302>>>" ++ check (runes_of_ascii "packet string_{@lengthOf(	float ) // @lengthOf(
BodyLength { match uint8x as i64_ { 0123456789
: As
    , } , } , }")).
Eval vm_compute in ("<<<M919>>>" ++ check (runes_of_ascii "packet A {
    u16 len @lengthOf(body) `a
b`,
    u32 crc @calculatedFrom(""CRC32"") `a
b`,
    string body,
}")).
Eval vm_compute in ("<<<M912>>>" ++ check (runes_of_ascii "packet A {
  match k as n {
    [1, 22, ""c c"", 4, 5, ""f"", 7, 8, ""i"", 10, 11, ""l""] : B,
    2 : C
  },
}")).
Eval vm_compute in ("<<<M885>>>" ++ check (runes_of_ascii "packet A {
  match k as n {
    [""a"", 22, ""c c"", 4, ""e"", 66, ""g"", 8, ""i"", 10] : B
    2 : C
  },
}")).
Eval vm_compute in ("<<<M605>>>" ++ check (runes_of_ascii "
packet
    asx {match u128 as lengthOf
{
//	t
// `tick` ""quote"" 'q'
255 : repeat ,
    } ,	}")).
Eval vm_compute in ("<<<M598>>>" ++ check (runes_of_ascii "
packet
    asx {match u128 as lengthOf
{
//	t
// `tick` ""quote"" 'q'
255 : : x ,
    } ,	}")).
Eval vm_compute in ("<<<M569>>>" ++ check (runes_of_ascii "
packet
    asx {u128 match as lengthOf
{
//	t
// `tick` ""quote"" 'q'
255 : x ,
    } ,	}")).
Eval vm_compute in ("<<<M625>>>" ++ check (runes_of_ascii "
packet
    asx {match u128 as lengthOf
{
//	t
// `tick` ""quote"" 'q'
255 : x ,
    } ,")).
Eval vm_compute in ("<<<M861>>>" ++ check (runes_of_ascii "packet A {
  match k as n {
    [1, 22, ""c c"", 4, 5, ""f"", 7, 8] : B
    2 : C
  },
}")).
Eval vm_compute in ("<<<M831>>>" ++ check (runes_of_ascii "packet A {
  match k as n {
    [1, ""bb"", 007, ""d"", 5, ""f""] : B
    2 : C
  },
}")).
Eval vm_compute in ("<<<M1525>>>" ++ check (runes_of_ascii "root packet P {
    u16 a,
    u32 Sum @calculatedFrom(""CR\
        C32""),
}")).
Eval vm_compute in ("<<<M1605>>>" ++ check (runes_of_ascii "

  packet	body { i32 
f32a
`{ , }`
	,

    }

options { 	 // c

  }
")).
Eval vm_compute in ("<<<M792>>>" ++ check (runes_of_ascii "packet A {
  match k as n {
    [1, ""bb"", 007] : B
    2 : C
  },
}")).
Eval vm_compute in ("<<<M444>>>" ++ check (runes_of_ascii "packet uint8x
{ match pack
    as msg_type	{
    0123456789 :")).
Eval vm_compute in ("<<<M1646>>>" ++ check (runes_of_ascii "packet
body{	i32  f32a 
`{ , }`
,	} options  {
	// c
  }")).
Eval vm_compute in ("<<<M786>>>" ++ check (runes_of_ascii "packet A { Inner { match k as n { [1,22] : B, }, }, }")).
Eval vm_compute in ("<<<M1889>>>" ++ check (runes_of_ascii "MetaData M {
    u8 x `x
    `,
    T t `x
    `,
}")).
Eval vm_compute in ("<<<M1286>>>" ++ check (runes_of_ascii "

  root
    packet P{ 
string
	s

    , }
")).
Eval vm_compute in ("<<<M337>>>" ++ check (runes_of_ascii "//	t
options
// c
// " ++ [128512]%N ++ runes_of_ascii " emoji
{
    } // c")).
Eval vm_compute in ("<<<M1434>>>" ++ check (runes_of_ascii "options {
a
=""\
""  ;
	b = ""\
""
}
")).
Eval vm_compute in ("<<<M1517>>>" ++ check (runes_of_ascii "root
	packet A{  u8
	x	`
`
,
}

")).
Eval vm_compute in ("<<<M1028>>>" ++ check (runes_of_ascii "packet A {
 u8 x `d" ++ [8287]%N ++ runes_of_ascii "`, // c" ++ [8287]%N ++ runes_of_ascii "
}")).
Eval vm_compute in ("<<<M1796>>>" ++ check (runes_of_ascii "
packet
	A
{ u8 x `x
`  , }")).
Eval vm_compute in ("<<<M1727>>>" ++ check (runes_of_ascii "root packet falsey {
}")).
Eval vm_compute in ("<<<M1532>>>" ++ check (runes_of_ascii "packet MetaDataX {
}")).
Eval vm_compute in ("<<<M987>>>" ++ check (runes_of_ascii "// c" ++ [160]%N ++ runes_of_ascii "
packet A {
}")).
Eval vm_compute in ("<<<M1232>>>" ++ check (runes_of_ascii "packet x { } // c
")).
Eval vm_compute in ("<<<M1602>>>" ++ check (runes_of_ascii "packet x {
}
// c")).
Eval vm_compute in ("<<<M255>>>" ++ check (runes_of_ascii " /// triple")).
Eval vm_compute in ("<<<M1045>>>" ++ check (runes_of_ascii "// c" ++ [8203]%N)).
