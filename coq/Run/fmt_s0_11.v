From FP Require Import Lexer Parser ShowPT Digest Formatter.
From Coq Require Import String List NArith.
Import ListNotations.
Open Scope string_scope.
Set Printing Width 100000000.
Set Printing Depth 100000000.
Definition show_fres (r : fres) : string :=
  match r with
  | FOk s => "OK:" ++ sh_escaped s ""
  | FErr s => "ERR:" ++ sh_escaped s ""
  | FPanic p => "PANIC:" ++ p
  end.
Definition check (rs : list rune) : string := digest (show_fres (format_res rs)).
Definition full (rs : list rune) : string := show_fres (format_res rs).
Eval vm_compute in ("<<<M266>>>" ++ check (runes_of_ascii "packet metadata { repeat f64 // " ++ [128512]%N ++ runes_of_ascii " emoji
Foo , repeat
Logon
    f32a`
` , @calculatedFrom( ""1"" ) repeat
    uint8 // trailing space 
calculatedFrom `u8 x,`
, char[]
    packetx , // packet A { u8 x, }
@calculatedFrom(
""abc"" ) Pad
@lengthOf(msg_type  )`line1
line2` ,
@rightPad
(
' ' )
tag`" ++ [233]%N ++ runes_of_ascii "` ,@tag( 10
    /// triple
    )u8x
@calculatedFrom( ""CRC32"" ),match
// trailing space 
// trailing space 
metadata
as msg_type
//
// " ++ [27880; 37322]%N ++ runes_of_ascii "
{[
""\n"" //x
, 0123456789// c
] : options1
,
    ""\n""
    :
    float ,},} packet
// " ++ [128512]%N ++ runes_of_ascii " emoji
// " ++ [128512]%N ++ runes_of_ascii " emoji
MetaDataX {string string_ `doc`
,
@rightPad
    (
    '0' ) zchar[
// " ++ [128512]%N ++ runes_of_ascii " emoji
// `tick` ""quote"" 'q'
00 ]
zchar `a\`
,} options {leftPad = 0 float = 4294967296 ;
}// `tick` ""quote"" 'q'
root packet body{ @calculatedFrom( ""1"" ) @lengthOf( int ) match float as Z9_  {
// packet A { u8 x, }
// trailing space 
42
: x
""packet"" :// `tick` ""quote"" 'q'
matchKey	, """ ++ [28040; 24687]%N ++ runes_of_ascii """
/// triple
// packet A { u8 x, }
: o ,	255 :	float }
, @tag( 0123456789 ) match	calculatedFrom as // @lengthOf(
trueish { [ ""packet"" , ""`tick`"" //x
,	""" ++ [233]%N ++ runes_of_ascii "t" ++ [233]%N ++ runes_of_ascii """ ] : MetaDataX 4294967296 :trueish
, 3 :
// trailing space 
// packet A { u8 x, }
i64_ , 0123456789 :
f32a , [ 7, //	t
10	,	""CRC32"" ,	""x y"" , ""\n""
    // `tick` ""quote"" 'q'
    , ""CRC32""
    , ""`tick`""
    ]// `tick` ""quote"" 'q'
: body , }, char[ 1//
]Foo // " ++ [128512]%N ++ runes_of_ascii " emoji
, @rightPad( ' ' ) @calculatedFrom( // " ++ [27880; 37322]%N ++ runes_of_ascii "
""a	b""
) repeat string_ { repeat Logon // @lengthOf(
,	Z9_	i8i8 ,match Z9_ as
    A {[ 42
    ] :Logon , [ ""CRC32"" , 1 , ""a\""b"" , 4294967296 , 0, ""\" ++ [233]%N ++ runes_of_ascii """ ] : roots ""a\""b"" : MetaDataX , 255
: _x
,
    65535
    :
    rootA , }	,match _x as Foo {[ 255
    , """ ++ [28040; 24687]%N ++ runes_of_ascii """ ,// packet A { u8 x, }
""CRC32"" ,
    // c
    """ ++ [233]%N ++ runes_of_ascii "t" ++ [233]%N ++ runes_of_ascii """ ,
    ""abc"" ] : len""a\\""
: Pad  0
: falsey,3 :	u128
    ,
} ,// a // b
} , repeat // packet A { u8 x, }
options1 int `{ , }`
// packet A { u8 x, }
//
,
}")).
Eval vm_compute in ("<<<M257>>>" ++ check (runes_of_ascii "options
{
BodyLength
=3 ;// " ++ [128512]%N ++ runes_of_ascii " emoji
T = ""packet""
// @lengthOf(
// trailing space 
;
// c
// trailing space 
crc = true ;
falsey= '\x00'/// triple
;
} root packet A
    {@leftPad (
'0' )	char[
65535 ] Header  `" ++ [233]%N ++ runes_of_ascii "` ,
@rightPad( '0' ) //
a1 @lengthOf( msg_type ) , @lengthOf( rootA )
    match
_x as //x
stringy {""CRC32"" : chars, 3// `tick` ""quote"" 'q'
:float , 255	:	asx // `tick` ""quote"" 'q'
, 10  : tag ,//
} ,
    @calculatedFrom(
    """ ++ [128512]%N ++ runes_of_ascii """	) u32 u8x`crlf
line` , repeat char[]	asx `a\` , @rightPad ( '0'	)match f32a  as Packet
    { [ 255 , ""CRC32"" , 007
, ""1"",""packet"" , 00 ,
    4294967296 ]	: calculatedFrom , ""packet"" :
    falsey, ""a\""b"": body , 7// a // b
: Packet // " ++ [128512]%N ++ runes_of_ascii " emoji
0123456789 :	i64_ ,
    // a // b
    [4294967296 , 0123456789 ]  : // `tick` ""quote"" 'q'
options1	} ,crc /// triple
@lengthOf(	Foo
    )
    ,
@calculatedFrom( ""{,}"")@lengthOf(metadata ) @lengthOf( i8i8
)int64 options1 @calculatedFrom(""CRC32"" )
    `line1
line2` , // @lengthOf(
} packet a1 // `tick` ""quote"" 'q'
{ match lengthOf//
as x_y_z
{ ""it's"" :matchKey
//
// @lengthOf(
, 10 :
Packet , [ //x
""abc""
    ]// a // b
: A 10 //x
: metadata
    ,
    } ,
}MetaData
    body { char string_, char[]
x, len Pad , string
    leftPad , } // trailing space ")).
Eval vm_compute in ("<<<M1825>>>" ++ check (runes_of_ascii "root packet crc {
    @lengthOf(As)
    @calculatedFrom(""\" ++ [233]%N ++ runes_of_ascii """)
    zchar[4294967296] MetaDataX `doc`,/// triple
    rootA @calculatedFrom(""it's""),
    @tag(65535)
    @tag(7)
    @tag(00)
    len @lengthOf(A) `two words`,
    // trailing space 
    // " ++ [128512]%N ++ runes_of_ascii " emoji
    string rootA @lengthOf(pack),
    // " ++ [128512]%N ++ runes_of_ascii " emoji
    // trailing space 
    repeat zchar,
    @calculatedFrom(""abc"")
    @leftPad('\x00')
    @rightPad()
    match x_y_z as Z9_ {
        ""it's"" : Logon,
        ""x y"" : Packet,
        ""abc"" : trueish,
        4294967296 : repeatCount,
        """ ++ [128512]%N ++ runes_of_ascii """ : x_y_z,
    },
    char[10] stringy `it's`,
    @leftPad('\x00')
    rootA @lengthOf(i64_),
}

MetaData falsey {
    Packet repeatCount `tab	here`,
}

MetaData string_ {
    float64 roots `line1
    line2`,
    char As `
    `,
    zchar[65535] falsey `a\`,
    A T,
    _x metadata,
}

packet _x {
    zchar[255] string_ @lengthOf(u128) `{ , }`,
}

root packet Packet {
    repeat lengthOf,
}")).
Eval vm_compute in ("<<<M1770>>>" ++ check (runes_of_ascii "packet int {
}

packet Z9_ {
    @tag(1)
    @tag(00)
    zchar[0] trueish `// not a comment`,
    Header @lengthOf(repeatCount),
    charz float `crlf
        line`,
    match lengthOf as u {
        // `tick` ""quote"" 'q'
        65535 : msg_type,
        ""1"" : x,
        ""a\""b"" : packetx,
        10 : msg_type,
        """ ++ [128512]%N ++ runes_of_ascii """ : calculatedFrom,
        [7, 0] : u128,
    },
    string i8i8 `{ , }`,
}

packet a1 {
}

root packet roots {
    @lengthOf(u)
    f64 Logon,
    @lengthOf(_x)
    As @calculatedFrom(""\n""),
    @leftPad()
    repeatCount @calculatedFrom(""{,}"") `tab	here`,
    @tag(42)
    char[1] T `a\`,
    int64 _x,
    zchar[4294967296] i64_ @lengthOf(tag) `
        `,
    @calculatedFrom(""a\""b"")
    u8 len `it's`,
    @leftPad()
    metadata @lengthOf(tag) `{ , }`,
    @leftPad(' ')
    MetaDataX {
        repeat char[] rootA,
    },
    i8 body,
}")).
Eval vm_compute in ("<<<M228>>>" ++ check (runes_of_ascii "packet
//
// " ++ [27880; 37322]%N ++ runes_of_ascii "
BodyLength  {
repeat
    // @lengthOf(
    zchar[	255]tag `crlf
line` , } MetaData BodyLength	{
char[ 65535] //	t
packetx `" ++ [28040; 24687; 31867; 22411]%N ++ runes_of_ascii "` , } options
    {
    metadata =3; // trailing space 
} packet Packet
{ o { uint16	Logon
    , } , @leftPad (  )char[ 0123456789 ]
a1 `" ++ [28040; 24687; 31867; 22411]%N ++ runes_of_ascii "` // a // b
,
    repeat string
lengthOf
    `{ , }`	,stringy crc
,@rightPad (
' ' ) u32	MetaDataX
    ,
@rightPad('0' ) tag	{repeat f64 tag `u8 x,`
, }
    //	t
    , char[
    00 ] uint8x `` , match leftPad  as Header {""" ++ [233]%N ++ runes_of_ascii "t" ++ [233]%N ++ runes_of_ascii """  : Foo
, [	""\" ++ [233]%N ++ runes_of_ascii """
, 007
,00 , 10, ""\" ++ [233]%N ++ runes_of_ascii """ ]: crc
, [ 1 ,007 , ""a\\""
    ,
""packet""
    ]: //	t
len // packet A { u8 x, }
, 10 : MetaDataX
//x
// " ++ [128512]%N ++ runes_of_ascii " emoji
,  }
//	t
/// triple
, } packet
    i64_{
@rightPad	('\x00'
)
@leftPad(
) i8 body@calculatedFrom(""" ++ [233]%N ++ runes_of_ascii "t" ++ [233]%N ++ runes_of_ascii """) `it's` , }
// @lengthOf(
")).
Eval vm_compute in ("<<<M1346>>>" ++ check (runes_of_ascii "options
{ StringPrefixLenType	= u16	;	ArrayPrefixLenType =
u32; FixedStringPadFromLeft = 
true;  FixedStringPadChar 
=	'0'
    ;

    } packet Cancel{
    }

packet
Party
{

    } packet	Logon { } packet 
Ack
{ }
packet 
Logout
{ repeat
InSym87 {InClordid94

{ string clOrdID	,
    } 
, 
string
    Px , i16  Qty,	repeat  InCount71	{repeat
    Cancel 
,
uint16	Tail
, char[
	2

]
x
    ,repeat string Ref

,

}

, Cancel
	,
}
    , } 
root
    packet
    Order  {
    repeat
string 
tag7 
,

@leftPad

( ' ' ) char[3  ]
	Px
	, u8	Qty ,
    match  Qty

    as
Body
    {
	[ 
28

    ,	62 ]
    : 
Logon

    ,148 : Ack, 88:Party	, 184
: 
Cancel	, }
    , u16	Note@calculatedFrom(
	""CRC32"" )

,  }
")).
Eval vm_compute in ("<<<M1548>>>" ++ check (runes_of_ascii "
MetaData	u128
    {

    zchar[ 3 ]  matchKey `crlf
line`	//
,} // packet A { u8 x, }

options  {  //x
}root
	packet rootA{
@calculatedFrom(
	""{,}""
	)

    repeat
u16

len,
repeat

body
    ,  i8i8

    @lengthOf( 
packetx)
    ,
	metadata
int
	`line1
line2`, uint8x `two words` 	 // c
  ,int16//
x_y_z 
,repeatCount

    ,

Logon 
{
repeat// trailing space 
  i8 Packet
	`line1
line2`

,

    }

,
	}

    options{  // " ++ [128512]%N ++ runes_of_ascii " emoji
lengthOf 
        //
// trailing space 
	=
	' ' ;	i64_

= 
""{,}""
	; msg_type=
	'0'
	; u
	= 
        // packet A { u8 x, }
// " ++ [27880; 37322]%N ++ runes_of_ascii "
i32	; _x=

    ""abc""
	// packet A { u8 x, }
  ; }
")).
Eval vm_compute in ("<<<M1116>>>" ++ check (runes_of_ascii "// top
MetaData // c0
Packet // c1
{ // c2
} // c3
packet // c4
charz // c5
{ // c6
Foo // c7
asx // c8
`it's` // c9
, // c10
@lengthOf( // c11
T // c12
) // c13
@calculatedFrom( // c14
"""" // c15
) // c16
@calculatedFrom( // c17
""x y"" // c18
) // c19
zchar[ // c20
007 // c21
] // c22
repeatCount // c23
@lengthOf( // c24
int // c25
) // c26
`a\` // c27
, // c28
i8 // c29
string_ // c30
, // c31
repeat // c32
options1 // c33
Pad // c34
, // c35
} // c36
root // c37
packet // c38
Packet // c39
{ // c40
int8 // c41
float // c42
`doc` // c43
, // c44
} // c45
")).
Eval vm_compute in ("<<<M1714>>>" ++ check (runes_of_ascii "// top
packet A {
    // c2
    u8 a,// c5
}// c6a

// c6b
packet B {
    // c9
    u16 b,
}// c13a

// c13b
packet C {
    // c16
    u32 c,// c19a
}

// c20
root packet M {
    u16 Kc,
    // c27
    u16 Kb,// c30
    u16 Ka,
    match Kc as X {
        // c38
        9 : A,
        10 : B,
    },
    match Kb as Y {
        2 : C,
        // c57
        1 : A,
    },// c63a
    // c63b
    match Ka as Z {
        // c68
        1 : B,
    },// c74
    A,// c76
    B,
    // c78
    C,// c80
}")).
Eval vm_compute in ("<<<M48>>>" ++ check (runes_of_ascii "root	packet Logon { @calculatedFrom( """" ) @lengthOf( int ) @tag( 3
) match _x
as // a // b
i64_ { 10:asx
// `tick` ""quote"" 'q'
/// triple
""" ++ [128512]%N ++ runes_of_ascii """ : crc ,[ 0
,
007
] : float  ,// trailing space 
}
    , repeat //	t
uint16
leftPad  ,
    }
    // " ++ [27880; 37322]%N ++ runes_of_ascii "
    packet charz
{  } MetaData
int {
//
// trailing space 
zchar[ 4294967296 ]matchKey
,
asx rootA
    `doc`
, Foo string_ `// not a comment`
,
    char[]u8x , // `tick` ""quote"" 'q'
roots
float , }
")).
Eval vm_compute in ("<<<M1750>>>" ++ check (runes_of_ascii "
options
{  u	= 
7
    // " ++ [27880; 37322]%N ++ runes_of_ascii "
    roots
=
zchar[ 
65535	]

msg_type  =

""" ++ [233]%N ++ runes_of_ascii "t" ++ [233]%N ++ runes_of_ascii """
; x=false
    }MetaData string_ { char[ 	 // trailing space 
    42
        //x
// " ++ [128512]%N ++ runes_of_ascii " emoji

	]

i8i8
    `" ++ [28040; 24687; 31867; 22411]%N ++ runes_of_ascii "`

,
u8

x_y_z,  packetx
    lengthOf
`` 
    // " ++ [27880; 37322]%N ++ runes_of_ascii "

, T 
Header

`line1
line2`  ,
    char[] 	 // " ++ [27880; 37322]%N ++ runes_of_ascii "
  u8x `two words`
,  }
	packet float  //x

	{
calculatedFrom

, @rightPad
	(	'0' )
	char[3 ]

    u128, }

")).
Eval vm_compute in ("<<<M1629>>>" ++ check (runes_of_ascii "
packet BodyLength {
	repeatCount  // packet A { u8 x, }
  `// not a comment`
,@lengthOf( 
lengthOf 
)

@tag(

65535

    )	@rightPad( 

// @lengthOf(
//	t
    '0' )	/// triple
u8 Logon
,}
packet
	chars
{o 
msg_type 
,
    @tag(

    10
    )zchar[
    65535
]f32a, 
repeat char[]i64_
`
` ,
}  root
packet
    f32a	{	@tag(
255)

    repeat  u8	stringy  , }
")).
Eval vm_compute in ("<<<M1465>>>" ++ check (runes_of_ascii "// top
MetaData Packet {
}

// c3
packet charz {
    // c6
    Foo asx `it's`,
    @lengthOf(T)
    @calculatedFrom("""")
    @calculatedFrom(""x y"")
    // c19
    zchar[007] repeatCount @lengthOf(int) `a\`,
    // c28
    i8 string_,
    // c31
    repeat options1 Pad,
}

// c36
root packet Packet {
    // c40
    int8 float `doc`,
}")).
Eval vm_compute in ("<<<M57>>>" ++ check (runes_of_ascii "packet	tag { }
packet falsey
    { string charz @lengthOf(
    zchar ) ,
string // trailing space 
u @calculatedFrom( """ ++ [233]%N ++ runes_of_ascii "t" ++ [233]%N ++ runes_of_ascii """	) `// not a comment`
, @leftPad( '0' )
char[] leftPad @calculatedFrom(
    ""a	b"")`// not a comment` , @calculatedFrom(
    ""`tick`"" )
    @lengthOf(roots
) repeat MetaDataX
, }

")).
Eval vm_compute in ("<<<M130>>>" ++ check (runes_of_ascii "packet zchar { @lengthOf( a1
// " ++ [128512]%N ++ runes_of_ascii " emoji
//	t
) i64_ @lengthOf( Header )
`" ++ [28040; 24687; 31867; 22411]%N ++ runes_of_ascii "`, charz`" ++ [233]%N ++ runes_of_ascii "` , char[007] i64_ , tag  { u16  matchKey // " ++ [27880; 37322]%N ++ runes_of_ascii "
,match Pad as lengthOf { [""CRC32"" ,	""abc""
] : Packet
,	}
, }
    , } MetaData body {char[
    10 ]u128
    `doc`
    ,
/// triple
//x
} //x")).
Eval vm_compute in ("<<<M1448>>>" ++ check (runes_of_ascii "root packet trueish {
    char[] MetaDataX,
    @leftPad('0')
    match float as crc {
        0123456789 : chars,
        ""{,}"" : i8i8,
    },
    f32a f32a `tab	here`,// " ++ [128512]%N ++ runes_of_ascii " emoji
    @lengthOf(Foo)
    Packet @calculatedFrom(""" ++ [28040; 24687]%N ++ runes_of_ascii """) `it's`,
}")).
Eval vm_compute in ("<<<M1303>>>" ++ check (runes_of_ascii "// top
packet
    // c0
order_item // c1
{ u8 // c3
a // c4a
  // c4b
, // c5
} root // c7
packet
    // c8
new_order
    // c9
{ // c10
order_item
    // c11
,
    // c12
u8 // c13a
  // c13b
x ,
    // c15
} ")).
Eval vm_compute in ("<<<M309>>>" ++ check (runes_of_ascii "packet
    // `tick` ""quote"" 'q'
    _x {//
repeat zchar[ 1 ] metadata
    ,@leftPad
    ( ' ' ) @lengthOf( T )@lengthOf(
Z9_ )
    char[] As// @lengthOf(
,string f32a  , }
")).
Eval vm_compute in ("<<<M1672>>>" ++ check (runes_of_ascii "

  MetaData  leftPad 
{

chars
	MetaDataX
,
}packet  repeatCount

    {char[

    255 ]	uint8x	`" ++ [233]%N ++ runes_of_ascii "` ,	}
    MetaData  pack
    {
As

    Foo
	,  // c
  }
")).
Eval vm_compute in ("<<<M443>>>" ++ check (runes_of_ascii "packet uint8x
{ match pack
    as msg_type	{
    0123456789 :	@lengthOf(
}
,
} packet //	t
a1
    { } options {packetx
    = '\x00'	; u128= ""a	b""  ; }
")).
Eval vm_compute in ("<<<M446>>>" ++ check (runes_of_ascii "packet uint8x
{ match pack
    as msg_type	{
    0123456789 :	float
} }
,
} packet //	t
a1
    { } options {packetx
    = '\x00'	; u128= ""a	b""  ; }
")).
Eval vm_compute in ("<<<M550>>>" ++ check (runes_of_ascii "packet uint8x
{ match pack
    as msg_type	{
    0123456789 :	caf" ++ [233]%N ++ runes_of_ascii "_1
}
,
} packet //	t
a1
    { } options {packetx
    = '\x00'	; u128= ""a	b""  ; }
")).
Eval vm_compute in ("<<<M517>>>" ++ check (runes_of_ascii "packet uint8x
{ match pack
    as msg_type	{
    0123456789 :	float
}
,
} packet //	t
a1
    { } options {packetx
    = '\x00'	; u128""a	b"" =  ; }
")).
Eval vm_compute in ("<<<M666>>>" ++ check (runes_of_ascii "// @lengthOf(
packet i8i8 { u128 u128 o , }
options { MetaDataX = true;
    BodyLength =""packet"" x_y_z= 007
crc //x
= ""abc"" ;
    msg_type =
i16 }")).
Eval vm_compute in ("<<<M684>>>" ++ check (runes_of_ascii "// @lengthOf(
packet i8i8 { u128 o , }
options { MetaDataX = true;
    BodyLength =""packet"" x_y_z= 007
crc //x
= ""abc"" ;
    msg_type =
i16 } }")).
Eval vm_compute in ("<<<M681>>>" ++ check (runes_of_ascii "// @lengthOf(
packet i8i8 { u128 o , }
options { MetaDataX = true;
    BodyLength =""packet"" x_y_z= 007
crc //x
= ""abc"" ;
    msg_type i16
= }")).
Eval vm_compute in ("<<<M71>>>" ++ check (runes_of_ascii "root packet MetaDataX
{repeat u8x len `" ++ [28040; 24687; 31867; 22411]%N ++ runes_of_ascii "`,
As { u8x
, } , int f32a
`" ++ [233]%N ++ runes_of_ascii "`, @lengthOf( float ) Z9_
// @lengthOf(
// trailing space 
`a\` , }")).
Eval vm_compute in ("<<<M1298>>>" ++ check (runes_of_ascii "packet
A
{ 
u8 a,
}

packet
    B {

u16  b
,} 
root	packet	P
{ u8
K

,

    match	K

as M	{1
    :
A,

1	: 
B 
, }
,

    }

")).
Eval vm_compute in ("<<<M1761>>>" ++ check (runes_of_ascii "MetaData leftPad {
    chars MetaDataX,
}

packet repeatCount {
    char[255] uint8x `" ++ [233]%N ++ runes_of_ascii "`,
}// c

MetaData pack {
    As Foo,
}")).
Eval vm_compute in ("<<<M1141>>>" ++ check (runes_of_ascii "// c
MetaData leftPad { chars MetaDataX , } packet repeatCount { char[ 255 ] uint8x `" ++ [233]%N ++ runes_of_ascii "` , } MetaData pack { As Foo , }")).
Eval vm_compute in ("<<<M1174>>>" ++ check (runes_of_ascii "MetaData leftPad { chars MetaDataX , } packet repeatCount { char[ 255 ] uint8x `" ++ [233]%N ++ runes_of_ascii "` ,
// c
} MetaData pack { As Foo , }")).
Eval vm_compute in ("<<<M346>>>" ++ check (runes_of_ascii "MetaData chars {
x_y_z
/// triple
/// triple
x
    `line1
line2` ,_x A`// not a comment`,	} // `tick` ""quote"" 'q'")).
Eval vm_compute in ("<<<M955>>>" ++ check (runes_of_ascii "packet A {
    u16 len @lengthOf(body) `
x`,
    u32 crc @calculatedFrom(""CRC32"") `
x`,
    string body,
}")).
Eval vm_compute in ("<<<M868>>>" ++ check (runes_of_ascii "packet A {
  match k as n {
    [""a"", ""bb"", ""c c"", ""d"", ""e"", ""f"", ""g"", ""h"", ""i""] : B
    2 : C
  },
}")).
Eval vm_compute in ("<<<M1411>>>" ++ check (runes_of_ascii "
packet A{  Inner {
u8

x
`a
b`,
	Deep

    {  u8
y `a
b`

    ,

    }
	,

    }
	, }

")).
Eval vm_compute in ("<<<M630>>>" ++ check (runes_of_ascii "
packet
    a@tagsx {match u128 as lengthOf
{
//	t
// `tick` ""quote"" 'q'
255 : x ,
    } ,	}")).
Eval vm_compute in ("<<<M1474>>>" ++ check (runes_of_ascii "packet A {
    match k as n {
        [22, 4, ""a"", ""c c"", ""e""] : B,
        2 : C,
    },
}")).
Eval vm_compute in ("<<<M849>>>" ++ check (runes_of_ascii "packet A {
  match k as n {
    [""a"", ""bb"", 007, ""d"", ""e"", 66, ""g""] : B,
    2 : C
  },
}")).
Eval vm_compute in ("<<<M592>>>" ++ check (runes_of_ascii "
packet
    asx {match u128 as lengthOf
{
//	t
// `tick` ""quote"" 'q'
 : x ,
    } ,	}")).
Eval vm_compute in ("<<<M647>>>" ++ check (runes_of_ascii "// @lengthOf(
packet i8i8 { u128 o , }
options { MetaDataX = true;
    BodyLength =")).
Eval vm_compute in ("<<<M916>>>" ++ check (runes_of_ascii "packet A { Inner { match k as n { [1,22,007,4,5,66,7,8,9,10,11,12] : B, }, }, }")).
Eval vm_compute in ("<<<M166>>>" ++ check (runes_of_ascii "packet calculatedFrom {repeat // packet A { u8 x, }
string Foo`{ , }`	, }
")).
Eval vm_compute in ("<<<M790>>>" ++ check (runes_of_ascii "packet A {
  match k as n {
    [""a"", ""bb"", ""c c""] : B
    2 : C
  },
}")).
Eval vm_compute in ("<<<M792>>>" ++ check (runes_of_ascii "packet A {
  match k as n {
    [1, ""bb"", 007] : B
    2 : C
  },
}")).
Eval vm_compute in ("<<<M1751>>>" ++ check (runes_of_ascii "options {
    asx = ""1""//	t
    Pad = 0
    stringy = '\x00';
}")).
Eval vm_compute in ("<<<M775>>>" ++ check (runes_of_ascii "packet A {
  match k as n {
    [""a""] : B,
    2 : C
  },
}")).
Eval vm_compute in ("<<<M786>>>" ++ check (runes_of_ascii "packet A { Inner { match k as n { [1,22] : B, }, }, }")).
Eval vm_compute in ("<<<M1216>>>" ++ check (runes_of_ascii "packet body { i32 f32a `{ , }` , } options
// c
{ }")).
Eval vm_compute in ("<<<M1125>>>" ++ check (runes_of_ascii "// top
MetaData // c0
u // c1
{ // c2
} // c3
")).
Eval vm_compute in ("<<<M940>>>" ++ check (runes_of_ascii "root packet A {
    u8 x `a
    b
  c`,
}")).
Eval vm_compute in ("<<<M200>>>" ++ check (runes_of_ascii "options {
options1 =
    ' ' ;
}

")).
Eval vm_compute in ("<<<M934>>>" ++ check (runes_of_ascii "root packet A {
    u8 x `
`,
}")).
Eval vm_compute in ("<<<M759>>>" ++ check (runes_of_ascii "= u64 ; u32 MetaData packet {")).
Eval vm_compute in ("<<<M1784>>>" ++ check (runes_of_ascii "

  packet falsey  {  }

")).
Eval vm_compute in ("<<<M295>>>" ++ check (runes_of_ascii "root  packet
u128 { }")).
Eval vm_compute in ("<<<M1128>>>" ++ check (runes_of_ascii "// c
MetaData u { }")).
Eval vm_compute in ("<<<M1026>>>" ++ check (runes_of_ascii "packet A {
}
// c" ++ [8287]%N)).
Eval vm_compute in ("<<<M1004>>>" ++ check (runes_of_ascii "packet A {
}// c" ++ [8202]%N)).
Eval vm_compute in ("<<<M1072>>>" ++ check (runes_of_ascii "

  packet A {}")).
Eval vm_compute in ("<<<M980>>>" ++ check (runes_of_ascii "// c" ++ [12288]%N)).
Eval vm_compute in ("<<<M725>>>" ++ check (runes_of_ascii " ")).
