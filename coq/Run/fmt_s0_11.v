From FP Require Import Lexer Parser ShowPT Digest Formatter.
From Coq Require Import String List NArith.
Import ListNotations.
Open Scope string_scope.
Set Printing Width 100000000.
Set Printing Depth 100000000.
Definition show_fres (r : fres) : string :=
  match r with
  | FOk s => "OK:" ++ sh_escaped s ""
  | FErr s => "ERR:" ++ sh_escaped s ""
  | FPanic p => "PANIC:" ++ p
  end.
Definition check (rs : list rune) : string := digest (show_fres (format_res rs)).
Definition full (rs : list rune) : string := show_fres (format_res rs).
Eval vm_compute in ("<<<M1619>>>" ++ check (runes_of_ascii "// top
options {
    // c1
    LittleEndian = true;// c5
    StringPrefixLenType = u16;
    // c9
    ArrayPrefixLenType = u8;// c13
    FixedStringPadChar = ' ';// c17
}// c18a

// c18b
packet Ack {
    @leftPad(
        // c23
    ' ' )
    // c25
    char[5] lastPx,
    zchar[4] count,// c35a
    // c35b
    repeat InVenue30 {
        char[9] Side2,
        char[12] venue,// c48
    },
    // c50
}// c51a

// c51b
packet Order {
    // c54a
    // c54b
    int16 Note,// c57a
    // c57b
    repeat InAcct28 {
        // c60
        InSym3 {
            // c62
            Ack,
            // c64
            char[4] lastPx,
            char[1] venue,// c74
            f32 Ref,// c77
        },
        repeat InTag729 {
            // c82
            char[3] Side2,
            // c87
            uint64 Acct,// c90a
            // c90b
            char[] price,
            zchar[9] Note,
            // c98
            zchar[9] venue,
            // c103
        },
        char[] count,// c108a
        // c108b
        Ack,
        // c110
        char[] Px,// c113
    },// c115a
    // c115b
    u8 f1,
    // c118
    Ack,// c120a
    // c120b
}// c121a

// c121b
packet Fill {
    zchar[7] x,// c129a
    // c129b
    Order,// c131a
    // c131b
    @leftPad(
        // c133
    ' ' // c134
    )
    char[9] venue,
    // c140
    string count,
    char[] Flags,// c146a
    // c146b
}// c147

packet Logon {
    // c150
}// c151a

// c151b
packet Reject {
    Order,
    // c156
    char[] sym,// c159a
    // c159b
}// c160

root packet Quote {
    string price,
    // c167
    i64 Flags,// c170a
    // c170b
    repeat Fill,// c173
    zchar[9] x,// c178
    f32 lastPx,// c181a
    // c181b
    repeat Ack,
    // c184
}
// c185")).
Eval vm_compute in ("<<<M1471>>>" ++ check (runes_of_ascii "root packet u8x {
    // trailing space 
    repeat u64 Pad,
    i64_ @calculatedFrom(""x y"") `100% of %d`,
    @calculatedFrom(""a	b"")
    @lengthOf(Header)
    @lengthOf(zchar)
    i32 A @lengthOf(falsey),
    repeat zchar[10] f32a `
        `,
    repeat f64 rootA `line1
        line2`,// packet A { u8 x, }
    match string_ as o {
        65535 : options1,
        // a // b
        // " ++ [128512]%N ++ runes_of_ascii " emoji
        ""// no comment"" : packetx,
        ""\" ++ [233]%N ++ runes_of_ascii """ : lengthOf,
        65535 : BodyLength,
        ""packet"" : a1,
    },
    @tag(4294967296)
    @tag(7)
    @rightPad(	'\x00'
            )
    repeat uint64 i8i8,
    char[42] string_ `// not a comment`,
}

MetaData pack {
    x o `two words`,
    x As,
    uint64 BodyLength `// not a comment`,
    x a1 ``,
    T int `it's`,
}

MetaData falsey {
    Header BodyLength ``,
}

root packet trueish {
    i16 trueish @calculatedFrom(""`tick`"") `line1
        line2`,
    f64 As,
    string T @lengthOf(pack) `100% of %d`,
    @lengthOf(matchKey)
    repeat char[00] lengthOf `line1
        line2`,
    zchar[3] _x @calculatedFrom(""`tick`""),
    // " ++ [27880; 37322]%N ++ runes_of_ascii "
    // trailing space 
    @tag(00)
    //	t
    zchar[4294967296] msg_type,
    repeat body,
    Logon,
    @tag(1)
    @calculatedFrom(""packet"")
    zchar[3] Z9_,
}")).
Eval vm_compute in ("<<<M1501>>>" ++ check (runes_of_ascii "root packet Logon {
    calculatedFrom calculatedFrom `it's`,
}

packet calculatedFrom {
    @rightPad( )
    string u @calculatedFrom(""packet""),
    @leftPad('\x00')
    @tag(1)
    @tag(3)
    Packet {
        string_ pack,
        As @calculatedFrom(""a\""b"") `doc`,
        repeat msg_type metadata,
        // trailing space 
        //x
    },
    _x `" ++ [233]%N ++ runes_of_ascii "`,
    zchar[3] MetaDataX,
    repeat string asx `say ""hi""`,
    @lengthOf(trueish)
    @lengthOf(uint8x)
    @rightPad(
        // " ++ [128512]%N ++ runes_of_ascii " emoji
        //
        )
    char[0123456789] T `" ++ [28040; 24687; 31867; 22411]%N ++ runes_of_ascii "`,
}/// triple

packet x {
    @rightPad( )
    @calculatedFrom(""it's"")
    @tag(42)
    packetx falsey,
    char[1] body,
    @calculatedFrom(""" ++ [28040; 24687]%N ++ runes_of_ascii """)
    tag @calculatedFrom(""\" ++ [233]%N ++ runes_of_ascii """),
    Packet `100% of %d`,
    //x
    @tag(255)
    float32 body @calculatedFrom(""abc""),
    char f32a,
    @lengthOf(u)
    repeat int32 a1,
    @tag(4294967296)
    f32 o @calculatedFrom(""\n"") `tab	here`,
    char[] calculatedFrom `two words`,
    calculatedFrom @lengthOf(matchKey),
}")).
Eval vm_compute in ("<<<M1927>>>" ++ check (runes_of_ascii "options {
    LittleEndian
	=
    false 
;
StringPrefixLenType
    = 
u16  ;  ArrayPrefixLenType

    =
u8
    ;  FixedStringPadChar=
	'0' 
; }
packet Leg
	{

    zchar[ 1 ]Ref  ,  repeat
    string 
count,
repeat
InMsgkind21
    { 
repeat char[
2
]price,uint64
sym  ,zchar[ 
9 ] msgKind  ,  }
	,

zchar[

    5  ] Note
    ,

    } 
packet Ack
{ u16
seqNo ,  repeat char[ 1 
]	Acct

,
    @leftPad

    (  ' '

)
    char[4 
] msgKind,  repeat
InTag747 {	Leg,  }
,	repeat 
string
Tail ,

Leg

,	}
	packet Trade 
{
    u64 clOrdID
, repeat

    InLastpx24{char[10 
]
	Note

    ,
char[ 3	]

Qty	,
	repeat  char[
    2 ]
	Side2
	,Ack	, 
repeat
InX47
{ 
Ack , 
}  ,
}
    ,

    } root packet
Heartbeat
{

repeat u64  Acct

,	string
lastPx
,

u8 Side2
,
    match
Side2
as	Body

{

    2 
:

    Trade,
	157:

    Ack ,46: Leg ,}

,

u32
sym	@calculatedFrom( 
""CRC32""	) ,
}
")).
Eval vm_compute in ("<<<M260>>>" ++ check (runes_of_ascii "
packet
pack { char[] falsey ,  @lengthOf(
zchar) @rightPad	(
)
    float
    roots,	@calculatedFrom(""// no comment""
    ) i64 u8x ,
@lengthOf(
lengthOf)@leftPad	(
    )
    @tag(
    4294967296	) Packet, match uint8x as Foo // `tick` ""quote"" 'q'
{
    ""abc""
: string_ , } ,
Logon{repeat//
char[ 65535 ]matchKey `100% of %d`
,
zchar[
    0123456789] leftPad @calculatedFrom( ""// no comment"" ) ,string // packet A { u8 x, }
len, }, // @lengthOf(
u64 body  @lengthOf( string_ )
    ,
    // c
    Z9_
charz `tab	here` ,
    //x
    }MetaData u
    { lengthOf chars `" ++ [28040; 24687; 31867; 22411]%N ++ runes_of_ascii "` ,  char[ // 50% %s
007 ] options1`100% of %d`, body u8x , float32/// triple
body
`u8 x,` , } packet //	t
T // c
{}
    packet
    i8i8
{
    string
    packetx, tag
falsey,} 	 ")).
Eval vm_compute in ("<<<M1753>>>" ++ check (runes_of_ascii "// top
    packet // c0a
    // c0b
  	u128 

// c1
{// c2a
	  // c2b
u8
    // c3
  a
,

// c5
}	// c6a
    // c6b
root	// c7a
	// c7b
    packet // c8a

	// c8b
      Msg // c9

{ 	 // c10a
// c10b
  u8 
  // c11
    k 	 // c12a
// c12b
	,  u24// c14a
    // c14b

	{  // c15
	u8	// c16a

	// c16b
  Hi 

// c17
      ,u16 	 // c19
Lo
	,// c21
}, 	 // c23a
  // c23b
  repeat 
	    // c24
  	i24
// c25
    {// c26
		u32  
      // c27

q 
// c28
  , 	 // c29

}	// c30
,	// c31
u128	// c32
  ,// c33
  	u16  // c34a
    // c34b
	float32x
    ,	// c36
  string// c37a
		// c37b
s // c38a
	// c38b
  	,	// c39a
  // c39b
    }// c40a
	// c40b
")).
Eval vm_compute in ("<<<M25>>>" ++ check (runes_of_ascii "
packet float// @lengthOf(
{
}
root packet Foo
    { @calculatedFrom(
""\" ++ [233]%N ++ runes_of_ascii """ )char[ 7] u128
    ,
@calculatedFrom(	""1"") repeat
    char[3] u `100% of %d`,  u128
    // " ++ [27880; 37322]%N ++ runes_of_ascii "
    ,
@tag( 3 ) char[
3 ] rootA
`two words` //x
, @leftPad() metadata  @lengthOf( //x
leftPad) ,
string
    // 50% %s
    i8i8@calculatedFrom(""{,}""
)
,repeat int32 T , @calculatedFrom(
""abc""
    )@lengthOf( options1
)	@lengthOf(options1 ) match
    T// " ++ [27880; 37322]%N ++ runes_of_ascii "
as body// a // b
{
    ""{,}""
// `tick` ""quote"" 'q'
//	t
:
// packet A { u8 x, }
//
stringy
    , } ,@lengthOf( Packet ) leftPad
`tab	here`,  } 	 ")).
Eval vm_compute in ("<<<M185>>>" ++ check (runes_of_ascii "packet metadata { Header// @lengthOf(
u128 ,
} packet zchar{/// triple
@tag(
4294967296 ) @lengthOf( a1 ) i8
_x `crlf
line`, @lengthOf( _x
) match
    x_y_z as
    Packet
    {0 : leftPad, 65535 : tag 00 :leftPad,  ""a\\"" : Packet ,  10 :
    o,  [ ""CRC32""
    ]
    :
    float // " ++ [128512]%N ++ runes_of_ascii " emoji
,
}
    , match stringy
as calculatedFrom {""`tick`"" :rootA  , ""`tick`"" : asx
// packet A { u8 x, }
/// triple
,3 :
u128 ,
} ,@lengthOf(
msg_type
)
@tag(
10 )// 50% %s
repeatCount@lengthOf(string_
    ) `a\` , }
")).
Eval vm_compute in ("<<<M1372>>>" ++ check (runes_of_ascii "options {
    LittleEndian = true;
    ArrayPrefixLenType = u32;
    FixedStringPadChar = ' ';
}
packet Order {
    char[5] seqNo,
    uint8 Px,
}
packet Logon {
    @rightPad('\x00') char[8] Flags,
    zchar[3] count,
    repeat Order,
}
root packet Party {
    repeat Logon,
    repeat char[1] x,
    u32 price,
    u32 Side2 @lengthOf(Body),
    match price as Body {
        49 : Order,
        196 : Logon,
    },
    u32 f1 @calculatedFrom(""CR\
C32""),
}
")).
Eval vm_compute in ("<<<M186>>>" ++ check (runes_of_ascii "// @lengthOf(
packet  Pad{
    string_ @calculatedFrom( """ ++ [128512]%N ++ runes_of_ascii """ ),
//	t
// c
char[ 255
] metadata@calculatedFrom( ""1"" )
// trailing space 
// 50% %s
`line1
line2` ,	@rightPad (
'0'
)
    @lengthOf(metadata ) @tag(
007 ) repeat char[0
]MetaDataX, uint8x, @tag(
0 ) f32 uint8x
@lengthOf( roots
    ), repeat Packet
//x
// " ++ [27880; 37322]%N ++ runes_of_ascii "
,MetaDataX `line1
line2`,
@lengthOf(int )string len`// not a comment`  , char[ 3 // c
]
    Pad, // " ++ [27880; 37322]%N ++ runes_of_ascii "
}
")).
Eval vm_compute in ("<<<M1456>>>" ++ check (runes_of_ascii "packet u8x {
    // trailing space 
    repeat roots {
        zchar[42] u @lengthOf(i64_) `line1
                line2`,
        f64 Packet ``,
        zchar[4294967296] msg_type,
    },
}

root packet rootA {
    @calculatedFrom(""// no comment"")
    @calculatedFrom(""" ++ [233]%N ++ runes_of_ascii "t" ++ [233]%N ++ runes_of_ascii """)
    match body as Foo {
        10 : a1,
    },
    @tag(42)
    @calculatedFrom(""1"")
    repeat int64 float `u8 x,`,
}")).
Eval vm_compute in ("<<<M1270>>>" ++ check (runes_of_ascii "// top
packet
    // c0
B // c1a
  // c1b
{ u8 // c3a
  // c3b
a // c4a
  // c4b
,
    // c5
} // c6a
  // c6b
root packet
    // c8
P
    // c9
{ u8 K // c12
, // c13
u8
    // c14
L
    // c15
@lengthOf( Body ) , match // c20a
  // c20b
K // c21a
  // c21b
as
    // c22
Body // c23
{ 1 // c25
: // c26a
  // c26b
B , // c28a
  // c28b
}
    // c29
, } ")).
Eval vm_compute in ("<<<M1720>>>" ++ check (runes_of_ascii "packet u {
    match x_y_z as leftPad {
        0123456789 : x_y_z,
    },
    @rightPad()
    u64 trueish,
    repeat u64 trueish `line1
        line2`,
    @rightPad( )
    // a // b
    char[255] _x `// not a comment`,
    zchar[7] leftPad,
    match chars as lengthOf {
        1 : o,
        42 : chars,
    },
}")).
Eval vm_compute in ("<<<M340>>>" ++ check (runes_of_ascii "packet o {
    float64  zchar
@lengthOf(trueish ) // `tick` ""quote"" 'q'
, } packet packetx
    {  } root	packet trueish { char[1 ]Z9_ @lengthOf( body
    ) , @lengthOf(chars
)
    msg_type i64_ , u16
Logon ,
int64 Packet
    // `tick` ""quote"" 'q'
    , // packet A { u8 x, }
}
")).
Eval vm_compute in ("<<<M55>>>" ++ check (runes_of_ascii "MetaData // @lengthOf(
calculatedFrom { /// triple
matchKey packetx
    , float32 u128 ,// `tick` ""quote"" 'q'
}
    MetaData uint8x { //	t
zchar[ 65535
]As
    `` ,char[ 255] T
`doc` ,zchar[// " ++ [128512]%N ++ runes_of_ascii " emoji
255] int  , float64 i64_ //
`tab	here` ,char[]  len , }
")).
Eval vm_compute in ("<<<M482>>>" ++ check (runes_of_ascii "packet
    asx { @calculatedFrom(
""""  ) @tag( 255 )repeat
// packet A { u8 x, }
// trailing space 
int16 u8x
,
@tag(
    //
    007 )
    @tag( 0
    /// triple
    ) @tag( @tag( 1) u
    @lengthOf( T ),
// `tick` ""quote"" 'q'
//x
} // " ++ [128512]%N ++ runes_of_ascii " emoji")).
Eval vm_compute in ("<<<M497>>>" ++ check (runes_of_ascii "packet
    asx { @calculatedFrom(
""""  ) @tag( 255 )repeat
// packet A { u8 x, }
// trailing space 
int16 u8x
,
@tag(
    //
    007 )
    @tag( 0
    /// triple
    ) @tag( 1) u u
    @lengthOf( T ),
// `tick` ""quote"" 'q'
//x
} // " ++ [128512]%N ++ runes_of_ascii " emoji")).
Eval vm_compute in ("<<<M433>>>" ++ check (runes_of_ascii "packet
    asx { @calculatedFrom(
""""  ) @tag( 255 )int16
// packet A { u8 x, }
// trailing space 
repeat u8x
,
@tag(
    //
    007 )
    @tag( 0
    /// triple
    ) @tag( 1) u
    @lengthOf( T ),
// `tick` ""quote"" 'q'
//x
} // " ++ [128512]%N ++ runes_of_ascii " emoji")).
Eval vm_compute in ("<<<M446>>>" ++ check (runes_of_ascii "packet
    asx { @calculatedFrom(
""""  ) @tag( 255 )repeat
// packet A { u8 x, }
// trailing space 
int16 u8x

@tag(
    //
    007 )
    @tag( 0
    /// triple
    ) @tag( 1) u
    @lengthOf( T ),
// `tick` ""quote"" 'q'
//x
} // " ++ [128512]%N ++ runes_of_ascii " emoji")).
Eval vm_compute in ("<<<M336>>>" ++ check (runes_of_ascii "// c
options {As
='0'// 50% %s
;
float =
    //
    char[]	u =
    ""a\""b"" ; msg_type = u32 ;	falsey = 7 ;/// triple
}
    // a // b
    packet x_y_z { T// " ++ [27880; 37322]%N ++ runes_of_ascii "
``, } packet
    pack{ @leftPad ( ) rootA float , } // packet A { u8 x, }")).
Eval vm_compute in ("<<<M1258>>>" ++ check (runes_of_ascii "// top
options // c0
{ // c1a
  // c1b
LittleEndian = // c3
true ; } // c6a
  // c6b
root // c7a
  // c7b
packet
    // c8
P {
    // c10
repeat char
    // c12
cs ,
    // c14
u8 x // c16a
  // c16b
,
    // c17
} ")).
Eval vm_compute in ("<<<M1429>>>" ++ check (runes_of_ascii "packet
crc{
repeat
	Foo A,@lengthOf(

uint8x

) string 
matchKey@lengthOf( stringy

    )
    `a\`

    ,  
      // c
	}

    MetaData	chars

    {

leftPad 
	    //	t
crc `" ++ [233]%N ++ runes_of_ascii "` ,	}

")).
Eval vm_compute in ("<<<M87>>>" ++ check (runes_of_ascii "
options { lengthOf = """ ++ [233]%N ++ runes_of_ascii "t" ++ [233]%N ++ runes_of_ascii """options1
=
    u32
    // packet A { u8 x, }
    ; Pad=// @lengthOf(
'0'
BodyLength
    = 00
}
    packet
x
{ @rightPad( '0' ) string
    Header ,}
")).
Eval vm_compute in ("<<<M684>>>" ++ check (runes_of_ascii "MetaData u
    { } MetaData o
{ float uint8x
`100% of %d` ,repeatCount u8x, string_ leftPad
, i32
    Foo , int64 x `two words` , calculatedFrom
stringy `a\` repeat
}
")).
Eval vm_compute in ("<<<M662>>>" ++ check (runes_of_ascii "MetaData u
    { } MetaData o
{ float uint8x
`100% of %d` ,repeatCount u8x, string_ leftPad
, i32
    Foo , int64 x `two words` , , calculatedFrom
stringy `a\` ,
}
")).
Eval vm_compute in ("<<<M583>>>" ++ check (runes_of_ascii "MetaData u
    { } MetaData o
{ uint8x float
`100% of %d` ,repeatCount u8x, string_ leftPad
, i32
    Foo , int64 x `two words` , calculatedFrom
stringy `a\` ,
}
")).
Eval vm_compute in ("<<<M596>>>" ++ check (runes_of_ascii "MetaData u
    { } MetaData o
{ float uint8x
`100% of %d` repeatCount u8x, string_ leftPad
, i32
    Foo , int64 x `two words` , calculatedFrom
stringy `a\` ,
}
")).
Eval vm_compute in ("<<<M646>>>" ++ check (runes_of_ascii "MetaData u
    { } MetaData o
{ float uint8x
`100% of %d` ,repeatCount u8x, string_ leftPad
, i32
    Foo ,  x `two words` , calculatedFrom
stringy `a\` ,
}
")).
Eval vm_compute in ("<<<M1467>>>" ++ check (runes_of_ascii "  options

{ } 
options
{  MetaDataX

    = char	;}

    MetaData	Pad
{i8

metadata
    ,
    string
	stringy  ,	// c
int8

    As
`{ , }` 
,  }

")).
Eval vm_compute in ("<<<M1255>>>" ++ check (runes_of_ascii "// top
root
    // c0
packet P // c2
{ // c3
repeat // c4a
  // c4b
char
    // c5
cs ,
    // c7
u8 // c8
x // c9
, // c10
} // c11a
  // c11b
")).
Eval vm_compute in ("<<<M465>>>" ++ check (runes_of_ascii "packet
    asx { @calculatedFrom(
""""  ) @tag( 255 )repeat
// packet A { u8 x, }
// trailing space 
int16 u8x
,
@tag(
    //
    007")).
Eval vm_compute in ("<<<M1730>>>" ++ check (runes_of_ascii "packet A {
    u16 len @lengthOf(body) `a
    
    b`,
    u32 crc @calculatedFrom(""CRC32"") `a
    
    b`,
    string body,
}")).
Eval vm_compute in ("<<<M1705>>>" ++ check (runes_of_ascii "// top
root packet P {
    // c3
    hdr {
        // c5
        u8 a,
    },
    // c10
    u8 x,// c13a
    // c13b
}")).
Eval vm_compute in ("<<<M1209>>>" ++ check (runes_of_ascii "options { } options // c
{ MetaDataX = char ; } MetaData Pad { i8 metadata , string stringy , int8 As `{ , }` , }")).
Eval vm_compute in ("<<<M1241>>>" ++ check (runes_of_ascii "options { } options { MetaDataX = char ; } MetaData Pad { i8 metadata , string stringy , int8 // c
As `{ , }` , }")).
Eval vm_compute in ("<<<M909>>>" ++ check (runes_of_ascii "packet A {
  match k as n {
    [""a"", 22, ""c c"", 4, ""e"", 66, ""g"", 8, ""i"", 10, ""k"", 12] : B
    2 : C
  },
}")).
Eval vm_compute in ("<<<M1523>>>" ++ check (runes_of_ascii "
// top
	options
	// c0
	{ 
	// c1
  A

// c2
		=
// c3
""// no comment""
    // c4
	  }
// c5
")).
Eval vm_compute in ("<<<M883>>>" ++ check (runes_of_ascii "packet A {
  match k as n {
    [""a"", 22, ""c c"", 4, ""e"", 66, ""g"", 8, ""i"", 10] : B
    2 : C
  },
}")).
Eval vm_compute in ("<<<M884>>>" ++ check (runes_of_ascii "packet A {
  match k as n {
    [1, 22, ""c c"", 4, 5, ""f"", 7, 8, ""i"", 10] : B,
    2 : C
  },
}")).
Eval vm_compute in ("<<<M1532>>>" ++ check (runes_of_ascii "

  packet A{	// a
  @tag(

    1)  u8 x , // b

	// c
  @tag(
2	)
u8

    y , 
} ")).
Eval vm_compute in ("<<<M1728>>>" ++ check (runes_of_ascii "

  packet A { @tag(1

    ) 	 // a
  	@leftPad
	(
'0' ) 	 // b
  char[ 4	]	x 
,}

")).
Eval vm_compute in ("<<<M845>>>" ++ check (runes_of_ascii "packet A {
  match k as n {
    [1, 22, ""c c"", 4, 5, ""f"", 7] : B,
    2 : C
  },
}")).
Eval vm_compute in ("<<<M838>>>" ++ check (runes_of_ascii "packet A {
  match k as n {
    [1, 22, 007, 4, 5, 66, 7] : B
    2 : C
  },
}")).
Eval vm_compute in ("<<<M1763>>>" ++ check (runes_of_ascii "

  packet
    A
	{ 
B
b

`
`
    ,	B  `
`, repeat
    B
    bs

`
` , } ")).
Eval vm_compute in ("<<<M791>>>" ++ check (runes_of_ascii "packet A {
  match k as n {
    [""a"", 22, ""c c""] : B,
    2 : C
  },
}")).
Eval vm_compute in ("<<<M940>>>" ++ check (runes_of_ascii "packet A {
    B b `a

b`,
    B `a

b`,
    repeat B bs `a

b`,
}")).
Eval vm_compute in ("<<<M1256>>>" ++ check (runes_of_ascii "

  root packet
P

    {
repeat

char 
cs , 
u8
	x  ,

}

")).
Eval vm_compute in ("<<<M1107>>>" ++ check (runes_of_ascii "packet A { @tag(1) // a
 @leftPad('0') // b
 char[4] x, }")).
Eval vm_compute in ("<<<M1606>>>" ++ check (runes_of_ascii "MetaData
    M
{ u8 
x`a
b`
, 
T  t `a
b` , }
")).
Eval vm_compute in ("<<<M919>>>" ++ check (runes_of_ascii "MetaData M {
    u8 x `a
b`,
    T t `a
b`,
}")).
Eval vm_compute in ("<<<M420>>>" ++ check (runes_of_ascii "packet
    asx { @calculatedFrom(
""""  )")).
Eval vm_compute in ("<<<M933>>>" ++ check (runes_of_ascii "packet A {
    u8 x `a
    b
  c`,
}")).
Eval vm_compute in ("<<<M926>>>" ++ check (runes_of_ascii "root packet A {
    u8 x `a
b`,
}")).
Eval vm_compute in ("<<<M1894>>>" ++ check (runes_of_ascii "packet A {
    u8 x `
    x`,
}")).
Eval vm_compute in ("<<<M761>>>" ++ check (runes_of_ascii """\" ++ [233]%N ++ runes_of_ascii """ as char MetaData char[]")).
Eval vm_compute in ("<<<M756>>>" ++ check (runes_of_ascii "*P%lQ*-j/'2~6mR?IfmeZN9s")).
Eval vm_compute in ("<<<M66>>>" ++ check (runes_of_ascii "MetaData metadata { }")).
Eval vm_compute in ("<<<M1006>>>" ++ check (runes_of_ascii "// c" ++ [160]%N ++ runes_of_ascii "
packet A {
}")).
Eval vm_compute in ("<<<M1173>>>" ++ check (runes_of_ascii "packet x { } // c
")).
Eval vm_compute in ("<<<M154>>>" ++ check (runes_of_ascii "packet  i64_ { }")).
Eval vm_compute in ("<<<M555>>>" ++ check (runes_of_ascii "MetaData")).
Eval vm_compute in ("<<<M115>>>" ++ check (runes_of_ascii "

")).
