From FP Require Import Lexer Parser ShowPT Digest Formatter.
From Coq Require Import String List NArith.
Import ListNotations.
Open Scope string_scope.
Set Printing Width 100000000.
Set Printing Depth 100000000.
Definition show_fres (r : fres) : string :=
  match r with
  | FOk s => "OK:" ++ sh_escaped s ""
  | FErr s => "ERR:" ++ sh_escaped s ""
  | FPanic p => "PANIC:" ++ p
  end.
Definition check (rs : list rune) : string := digest (show_fres (format_res rs)).
Definition full (rs : list rune) : string := show_fres (format_res rs).
Eval vm_compute in ("<<<M266>>>" ++ check (runes_of_ascii "packet metadata { repeat f64 // " ++ [128512]%N ++ runes_of_ascii " emoji
Foo , repeat
Logon
    f32a`
` , @calculatedFrom( ""1"" ) repeat
    uint8 // trailing space 
calculatedFrom `u8 x,`
, char[]
    packetx , // packet A { u8 x, }
@calculatedFrom(
""abc"" ) Pad
@lengthOf(msg_type  )`line1
line2` ,
@rightPad
(
' ' )
tag`" ++ [233]%N ++ runes_of_ascii "` ,@tag( 10
    /// triple
    )u8x
@calculatedFrom( ""CRC32"" ),match
// trailing space 
// trailing space 
metadata
as msg_type
//
// " ++ [27880; 37322]%N ++ runes_of_ascii "
{[
""\n"" //x
, 0123456789// c
] : options1
,
    ""\n""
    :
    float ,},} packet
// " ++ [128512]%N ++ runes_of_ascii " emoji
// " ++ [128512]%N ++ runes_of_ascii " emoji
MetaDataX {string string_ `doc`
,
@rightPad
    (
    '0' ) zchar[
// " ++ [128512]%N ++ runes_of_ascii " emoji
// `tick` ""quote"" 'q'
00 ]
zchar `a\`
,} options {leftPad = 0 float = 4294967296 ;
}// `tick` ""quote"" 'q'
root packet body{ @calculatedFrom( ""1"" ) @lengthOf( int ) match float as Z9_  {
// packet A { u8 x, }
// trailing space 
42
: x
""packet"" :// `tick` ""quote"" 'q'
matchKey	, """ ++ [28040; 24687]%N ++ runes_of_ascii """
/// triple
// packet A { u8 x, }
: o ,	255 :	float }
, @tag( 0123456789 ) match	calculatedFrom as // @lengthOf(
trueish { [ ""packet"" , ""`tick`"" //x
,	""" ++ [233]%N ++ runes_of_ascii "t" ++ [233]%N ++ runes_of_ascii """ ] : MetaDataX 4294967296 :trueish
, 3 :
// trailing space 
// packet A { u8 x, }
i64_ , 0123456789 :
f32a , [ 7, //	t
10	,	""CRC32"" ,	""x y"" , ""\n""
    // `tick` ""quote"" 'q'
    , ""CRC32""
    , ""`tick`""
    ]// `tick` ""quote"" 'q'
: body , }, char[ 1//
]Foo // " ++ [128512]%N ++ runes_of_ascii " emoji
, @rightPad( ' ' ) @calculatedFrom( // " ++ [27880; 37322]%N ++ runes_of_ascii "
""a	b""
) repeat string_ { repeat Logon // @lengthOf(
,	Z9_	i8i8 ,match Z9_ as
    A {[ 42
    ] :Logon , [ ""CRC32"" , 1 , ""a\""b"" , 4294967296 , 0, ""\" ++ [233]%N ++ runes_of_ascii """ ] : roots ""a\""b"" : MetaDataX , 255
: _x
,
    65535
    :
    rootA , }	,match _x as Foo {[ 255
    , """ ++ [28040; 24687]%N ++ runes_of_ascii """ ,// packet A { u8 x, }
""CRC32"" ,
    // c
    """ ++ [233]%N ++ runes_of_ascii "t" ++ [233]%N ++ runes_of_ascii """ ,
    ""abc"" ] : len""a\\""
: Pad  0
: falsey,3 :	u128
    ,
} ,// a // b
} , repeat // packet A { u8 x, }
options1 int `{ , }`
// packet A { u8 x, }
//
,
}")).
Eval vm_compute in ("<<<M383>>>" ++ check (runes_of_ascii "options {
	StringPrefixLenType = u16;
	ArrayPrefixLenType = u16;
}

packet SampleBinary {
    uint16 MsgType `" ++ [28040; 24687; 31867; 22411]%N ++ runes_of_ascii "`,
    u16 BodyLenght @lengthOf(Body) `" ++ [28040; 24687; 20307; 38271; 24230]%N ++ runes_of_ascii "`,
    match MsgType as Body {
        1 : Logon,
        2 : Logout,
        3 : Heartbeat,
        4 : RiskControlRequest,
        5 : RiskControlResponse,
    },
        @calculatedFrom(""CRC32"")
    u32 Ckecksum `" ++ [26657; 39564; 21644]%N ++ runes_of_ascii "`,
}

packet Logon {
     @leftPad('0')
    char[10] UserName `" ++ [29992; 25143; 21517]%N ++ runes_of_ascii "`,
    string Password `" ++ [23494; 30721]%N ++ runes_of_ascii "`,
    uint64 ClientId `" ++ [23458; 25143; 31471]%N ++ runes_of_ascii "ID`,
    u16 HeartbeatInterval `" ++ [24515; 36339; 38388; 38548]%N ++ runes_of_ascii "`,
}

packet Logout {
      @rightPad('0')
    char[10] UserName `" ++ [29992; 25143; 21517]%N ++ runes_of_ascii "`,
    uint64 ClientId `" ++ [23458; 25143; 31471]%N ++ runes_of_ascii "ID`,
}

packet Heartbeat {
}

packet RiskControlRequest {
    string UniqueOrderId `" ++ [21807; 19968; 35746; 21333; 21495]%N ++ runes_of_ascii "`,
    char[16] ClOrdID `" ++ [23458; 25143; 35746; 21333; 21495]%N ++ runes_of_ascii "`,
    char[3] MarketID `" ++ [24066; 22330]%N ++ runes_of_ascii "id`,
    char[12] SecurityID `" ++ [35777; 21048; 20195; 30721]%N ++ runes_of_ascii "`,
    char Side `" ++ [20080; 21334; 26041; 21521]%N ++ runes_of_ascii "`,
    char OrderType `" ++ [35746; 21333; 31867; 22411]%N ++ runes_of_ascii "`,
    u64 Price `" ++ [20215; 26684]%N ++ runes_of_ascii "`,
    u32 Qty `" ++ [25968; 37327]%N ++ runes_of_ascii "`,
    repeat string ExtraInfo `" ++ [38468; 21152; 20449; 24687]%N ++ runes_of_ascii "`,
    repeat SubOrder {
    		char[16] ClOrdID `" ++ [23376; 35746; 21333; 21495]%N ++ runes_of_ascii "`,
    		u64 Price `" ++ [23376; 35746; 21333; 20215; 26684]%N ++ runes_of_ascii "`,
    		u32 Qty `" ++ [23376; 35746; 21333; 25968; 37327]%N ++ runes_of_ascii "`,
    	},
}

packet RiskControlResponse {
    string UniqueOrderId `" ++ [21807; 19968; 35746; 21333; 21495]%N ++ runes_of_ascii "`,
    i32 Status `" ++ [29366; 24577]%N ++ runes_of_ascii "`,
    string Msg `" ++ [32467; 26524; 20449; 24687]%N ++ runes_of_ascii "`,
    repeat Detail,
}

packet Detail {
    string RuleName `" ++ [35268; 21017; 21517; 31216]%N ++ runes_of_ascii "`,
    u16 Code `" ++ [21407; 22240; 20195; 30721]%N ++ runes_of_ascii "`,
}")).
Eval vm_compute in ("<<<M149>>>" ++ check (runes_of_ascii "// trailing space 
packet
    charz {	@calculatedFrom( ""1""
)match x
as tag
    {	[
7 , // @lengthOf(
0
, 65535	,
    // `tick` ""quote"" 'q'
    ""it's""/// triple
,0
    ,
""x y"", 255 ] :tag  , [ ""1"" // a // b
, //	t
3  , 007, // " ++ [27880; 37322]%N ++ runes_of_ascii "
255 ,  ""x y""
    // @lengthOf(
    ] :pack ,[""" ++ [233]%N ++ runes_of_ascii "t" ++ [233]%N ++ runes_of_ascii """	, 7  , 10  , 3
, 0
    , ""a\""b"" ] :
    // packet A { u8 x, }
    leftPad, [ 65535
    // " ++ [27880; 37322]%N ++ runes_of_ascii "
    ,
""x y""]
: chars [ ""\n"" ,65535 , ""a\\""
] :
A	, ""\n"" :
    lengthOf , } ,
match string_
    as	i8i8 { 7 :msg_type , // c
""abc"" :
tag ,""a\""b"" :metadata, 255
    : matchKey	,
    [""CRC32"" ,""1""
// " ++ [27880; 37322]%N ++ runes_of_ascii "
// " ++ [128512]%N ++ runes_of_ascii " emoji
, 007 , ""packet"" ,""a\\"" /// triple
,	""a\""b""
    // " ++ [128512]%N ++ runes_of_ascii " emoji
    , 007 , 4294967296 ] : lengthOf , }
,uint16
pack , string Pad@lengthOf( o ) `say ""hi""` ,repeat i8 body
    ,
@lengthOf( //x
crc ) float64 body `// not a comment`
, repeat rootA { int16 x_y_z `tab	here` ,
falsey @calculatedFrom( ""{,}"" ), trueish @lengthOf(
crc) `{ , }` , }
, match Pad as
Header
{
    4294967296: Header,""\n"" :msg_type,""a	b"" :
    x_y_z
    , }
,
    //	t
    Logon
, } 	 ")).
Eval vm_compute in ("<<<M289>>>" ++ check (runes_of_ascii "options  {
// " ++ [27880; 37322]%N ++ runes_of_ascii "
//x
float // packet A { u8 x, }
=char[]
    // @lengthOf(
    ; Header = false
//
/// triple
}
    // `tick` ""quote"" 'q'
    options {	x =char[] ; }	MetaData i64_{f64 As
    /// triple
    `
` , repeatCount MetaDataX
// `tick` ""quote"" 'q'
// `tick` ""quote"" 'q'
,
repeatCount u128 //x
,	metadata msg_type `tab	here`
    ,
    }
packet  options1
    {
    repeat char[0123456789] T  , @tag(  65535
)
    //x
    @calculatedFrom( ""CRC32""
) @calculatedFrom( """ ++ [28040; 24687]%N ++ runes_of_ascii """ ) repeat string
Logon
    ,	@lengthOf( u128 )
stringy  {string_ x ,
} , @tag( // " ++ [27880; 37322]%N ++ runes_of_ascii "
10) u64 tag @lengthOf(roots), Foo	@lengthOf(
Foo
)`// not a comment` ,
string pack `a\` , match A
    as charz {
[ 3 ] : x ,} ,@tag(42 ) f64 msg_type @lengthOf(
trueish )
,match	pack /// triple
as
options1 { """ ++ [28040; 24687]%N ++ runes_of_ascii """ : // packet A { u8 x, }
string_ ,	[ 65535, 7 ,
""a\""b""
    , 7]//	t
: f32a 4294967296: o ,  }	,
    char[] falsey ,
} // " ++ [128512]%N ++ runes_of_ascii " emoji")).
Eval vm_compute in ("<<<M168>>>" ++ check (runes_of_ascii "options
//x
// @lengthOf(
{
    Foo =""// no comment""
/// triple
//	t
; }
packet float {
} packet
    len { @lengthOf(
    _x ) stringy{
    metadata	@calculatedFrom( ""a\\"" )
, } ,
//x
//
}	packet asx {
@tag( 0 ) repeat float64
A`say ""hi""` ,
//
// trailing space 
i16 int
    `say ""hi""` , @calculatedFrom( """ ++ [128512]%N ++ runes_of_ascii """) lengthOf Header `two words` ,
f32a
    zchar , @rightPad
    ( '0'
)repeat string_
    // packet A { u8 x, }
    chars ``  , @tag( 4294967296)
    @calculatedFrom( ""a	b"" )repeat
    msg_type,  @leftPad( ) repeat f64 _x ,	repeat As { Logon @lengthOf(
calculatedFrom) `two words` ,
    repeat u64 o `u8 x,`	, } , @calculatedFrom(
""packet"" ) repeat // @lengthOf(
uint8 u ,} packet
uint8x{@leftPad ( '0'
    )
//	t
//x
zchar[
// packet A { u8 x, }
// " ++ [27880; 37322]%N ++ runes_of_ascii "
255
    ]	metadata `a\`
    ,//
} // `tick` ""quote"" 'q'")).
Eval vm_compute in ("<<<M90>>>" ++ check (runes_of_ascii "root packet lengthOf
{ // a // b
match i64_  as options1{	""// no comment"":
    // packet A { u8 x, }
    f32a
    // @lengthOf(
    , 65535 :
    falsey, } ,  @tag(
0
)  char[]
    body
@lengthOf(  lengthOf ) ,	u64 string_ `it's`,@lengthOf( string_ // packet A { u8 x, }
)crc {repeat
zchar[ 3
] u	,	pack // packet A { u8 x, }
`a\`// trailing space 
,char[] crc `` , } //x
,int16 // packet A { u8 x, }
metadata `line1
line2`, }root	packet //	t
leftPad
{ repeat	zchar[
4294967296 //x
] MetaDataX
    ,@tag( 10 // `tick` ""quote"" 'q'
) match  tag as falsey
{ 7:
    BodyLength
, 0 : i64_ ,} , repeat char[ 255
    // @lengthOf(
    ] A
,
char[ 7]
trueish @calculatedFrom(	""a\\"" ) `two words`
// " ++ [128512]%N ++ runes_of_ascii " emoji
//	t
, i16
Logon, }
")).
Eval vm_compute in ("<<<M6>>>" ++ check (runes_of_ascii "// `tick` ""quote"" 'q'
packet As
{ @rightPad ( '0' ) stringy
@lengthOf( calculatedFrom),	@tag( 10	) string uint8x `
` ,	match body // packet A { u8 x, }
as uint8x {
    ""it's"" :  rootA , [ 00 ] : leftPad
    ,
42 :	MetaDataX , ""a	b"" :  calculatedFrom
    255
:trueish	} , repeat	i64 Logon `tab	here` , } options {crc
= '\x00' ;}
packet x { @calculatedFrom(
""a\\""
    )
@tag( 42
) @leftPad	( '0' // c
) match o	as /// triple
x_y_z {// packet A { u8 x, }
[ """ ++ [128512]%N ++ runes_of_ascii """// trailing space 
, ""x y"" , // c
0123456789 ,""CRC32"" ,
//	t
// packet A { u8 x, }
""it's""
, 007
, 3, 007 // @lengthOf(
] :	Packet // c
[	255, ""x y""
    ] :x_y_z
    ,
} , }
// trailing space 
")).
Eval vm_compute in ("<<<M131>>>" ++ check (runes_of_ascii "
root
packet
u8x{ char
// trailing space 
// @lengthOf(
i64_ ,repeat char[1
] Z9_ , @tag(
//x
// " ++ [128512]%N ++ runes_of_ascii " emoji
42
) repeat Logon MetaDataX , @leftPad
    //
    ( )
    Foo
@lengthOf( As
    ) // " ++ [128512]%N ++ runes_of_ascii " emoji
, match u128	as //	t
calculatedFrom {// " ++ [128512]%N ++ runes_of_ascii " emoji
4294967296:
BodyLength,
    3:  A , //
[ 4294967296//
, ""packet""] : o	, 65535 : roots } ,
repeat Pad { uint64 x @calculatedFrom( """ ++ [128512]%N ++ runes_of_ascii """
    ) , a1 @lengthOf( As)
    `line1
line2` ,	repeat string_{repeat uint32 _x	, f32
MetaDataX `it's`
    //	t
    , u64 As  @lengthOf( crc ) , } ,
    roots , }, zchar[  00] // @lengthOf(
u128, }
//	t
")).
Eval vm_compute in ("<<<M1887>>>" ++ check (runes_of_ascii "  // top
	  options 
    // c0
  {
// c1
      f32a

    // c2

= 
    // c3
	  0
    // c4
  } 
// c5
packet
        // c6

trueish

// c7
{ 
  // c8
	}
	// c9
	MetaData 
	    // c10

  _x
// c11

{ 
  // c12
    char[ 
// c13
	0123456789
        // c14
  ] 
    // c15

zchar
	// c16
  , 
    // c17
  string  
      // c18
crc 

    // c19
  	, 
        // c20

	char[
    // c21
      1 
  // c22
	  ] 
	    // c23
options1
    // c24
,  
  // c25
	uint8 

// c26
  repeatCount
// c27
,
	// c28
	} 
  // c29")).
Eval vm_compute in ("<<<M294>>>" ++ check (runes_of_ascii "options { rootA = 4294967296 ; falsey = ""a\""b""
;
As =
// @lengthOf(
/// triple
""""
;packetx
    = ""packet"" i8i8 =true ;
} // `tick` ""quote"" 'q'
packet x  { repeat zchar
rootA , char[]
    pack  `// not a comment`
,@tag( 00 )
@tag( 0123456789)
u @calculatedFrom( ""packet"" )`u8 x,` , Header{
    zchar[ 00
    ] body
,
    a1	@calculatedFrom( // " ++ [128512]%N ++ runes_of_ascii " emoji
""it's"" )
`" ++ [233]%N ++ runes_of_ascii "`, }, } // " ++ [27880; 37322]%N ++ runes_of_ascii "
MetaData
    A // a // b
{zchar /// triple
matchKey
    `` , int64 metadata ,char[] _x //	t
, }
")).
Eval vm_compute in ("<<<M1622>>>" ++ check (runes_of_ascii "MetaData pack {
    int16 rootA `{ , }`,
    //	t
    int16 x,// " ++ [27880; 37322]%N ++ runes_of_ascii "
    u32 msg_type,
}

packet i64_ {
    // trailing space 
    @leftPad('0')
    @rightPad('\x00')
    @lengthOf(options1)
    string body @lengthOf(asx) `" ++ [233]%N ++ runes_of_ascii "`,
}

options {
    msg_type = 00;
}

MetaData stringy {
    zchar MetaDataX `line1
    line2`,
    char[255] len `it's`,
    f32 pack,
    uint16 Foo `it's`,
    int16 i64_ `two words`,
    // `tick` ""quote"" 'q'
}")).
Eval vm_compute in ("<<<M1627>>>" ++ check (runes_of_ascii "// top
    	packet 

// c0
B

    // c1

{	// c2
	u8  
  // c3
      a 	 // c4
  , string  // c6
	s 
	    // c7
,}
	root	// c10
    	packet 
    // c11
  P  // c12a
  // c12b
	{
	    // c13
	u16 
	    // c14
  L	// c15a
  	// c15b
	@lengthOf(
B 
      // c17
  ) 

// c18
  ,
        // c19
    B  
      // c20
  ,
u8	// c22a
    // c22b

t
    // c23
		, 	 // c24
	}
")).
Eval vm_compute in ("<<<M1234>>>" ++ check (runes_of_ascii "// top
options // c0
{ // c1
f32a // c2
= // c3
0 // c4
} // c5
packet // c6
trueish // c7
{ // c8
} // c9
MetaData // c10
_x // c11
{ // c12
char[ // c13
0123456789 // c14
] // c15
zchar // c16
, // c17
string // c18
crc // c19
, // c20
char[ // c21
1 // c22
] // c23
options1 // c24
, // c25
uint8 // c26
repeatCount // c27
, // c28
} // c29
")).
Eval vm_compute in ("<<<M57>>>" ++ check (runes_of_ascii "packet	tag { }
packet falsey
    { string charz @lengthOf(
    zchar ) ,
string // trailing space 
u @calculatedFrom( """ ++ [233]%N ++ runes_of_ascii "t" ++ [233]%N ++ runes_of_ascii """	) `// not a comment`
, @leftPad( '0' )
char[] leftPad @calculatedFrom(
    ""a	b"")`// not a comment` , @calculatedFrom(
    ""`tick`"" )
    @lengthOf(roots
) repeat MetaDataX
, }

")).
Eval vm_compute in ("<<<M1580>>>" ++ check (runes_of_ascii "options {
    LittleEndian = false;
    StringPrefixLenType = u16;
}

packet Heartbeat {
    @rightPad('0')
    char[7] seqNo,
    uint64 Tail,
    i16 Flags,
    u16 msgKind,
}

root packet Reject {
    zchar[3] tag7,
    repeat Heartbeat,
    repeat string clOrdID,
}")).
Eval vm_compute in ("<<<M97>>>" ++ check (runes_of_ascii "packet
i8i8 { repeat char[	00 ] Pad
    `a\` ,
@leftPad
    (
'\x00') string	a1@lengthOf(tag )``, float64
    u128 @calculatedFrom( ""1""
)  ,	@lengthOf( x
    )
    u128 @lengthOf( tag )
`" ++ [28040; 24687; 31867; 22411]%N ++ runes_of_ascii "` , int64 u ,
A//x
T
    `say ""hi""`
, }
")).
Eval vm_compute in ("<<<M367>>>" ++ check (runes_of_ascii "
packet roots  { @calculatedFrom( ""a\\"" ) @lengthOf( packetx  ) match repeatCount
as body { 007:
    lengthOf ,
    00
    :// `tick` ""quote"" 'q'
zchar,} ,
char[] chars
`say ""hi""`,}
MetaData packetx
    {}
")).
Eval vm_compute in ("<<<M1295>>>" ++ check (runes_of_ascii "packet
    A{ 
u8 a,
}packet
B

{u16
	b

    , } root
packet 
P

    {  u8
    K1
, u8

K2 
,match K1
	as	M1
{
1
    :

A,

    } ,	match

K2
as M2  {
1:B ,
    }
    ,}
")).
Eval vm_compute in ("<<<M283>>>" ++ check (runes_of_ascii "
root packet /// triple
u8x {}options { o =	zchar[ 1 ]
    Packet
    // trailing space 
    =u32 ; uint8x =""a\\"";
    /// triple
    u8x
=0
;
    crc =""\n"" ; }")).
Eval vm_compute in ("<<<M443>>>" ++ check (runes_of_ascii "packet uint8x
{ match pack
    as msg_type	{
    0123456789 :	@lengthOf(
}
,
} packet //	t
a1
    { } options {packetx
    = '\x00'	; u128= ""a	b""  ; }
")).
Eval vm_compute in ("<<<M471>>>" ++ check (runes_of_ascii "packet uint8x
{ match pack
    as msg_type	{
    0123456789 :	float
}
,
} packet //	t
a1
    { { } options {packetx
    = '\x00'	; u128= ""a	b""  ; }
")).
Eval vm_compute in ("<<<M397>>>" ++ check (runes_of_ascii "packet {
uint8x match pack
    as msg_type	{
    0123456789 :	float
}
,
} packet //	t
a1
    { } options {packetx
    = '\x00'	; u128= ""a	b""  ; }
")).
Eval vm_compute in ("<<<M1241>>>" ++ check (runes_of_ascii "// top
root
    // c0
packet // c1
P // c2a
  // c2b
{ // c3
char
    // c4
c // c5a
  // c5b
, // c6a
  // c6b
u8
    // c7
x // c8
, // c9
} // c10
")).
Eval vm_compute in ("<<<M408>>>" ++ check (runes_of_ascii "packet uint8x
{ i8 pack
    as msg_type	{
    0123456789 :	float
}
,
} packet //	t
a1
    { } options {packetx
    = '\x00'	; u128= ""a	b""  ; }
")).
Eval vm_compute in ("<<<M391>>>" ++ check (runes_of_ascii " uint8x
{ match pack
    as msg_type	{
    0123456789 :	float
}
,
} packet //	t
a1
    { } options {packetx
    = '\x00'	; u128= ""a	b""  ; }
")).
Eval vm_compute in ("<<<M1288>>>" ++ check (runes_of_ascii "// top
root
    // c0
packet P
    // c2
{ // c3a
  // c3b
repeat // c4
string // c5
ss , // c7
repeat u16 ns ,
    // c11
} // c12a
  // c12b
")).
Eval vm_compute in ("<<<M61>>>" ++ check (runes_of_ascii "packet
    i64_ { }
MetaData uint8x {Packet tag , u8	repeatCount
, x_y_z
_x `" ++ [233]%N ++ runes_of_ascii "`
    , zchar[
    42
    ]
    crc
`a\` ,
} options	{ }")).
Eval vm_compute in ("<<<M1470>>>" ++ check (runes_of_ascii "packet A {
    u8 a,
}

packet B {
    u16 b,
}

root packet P {
    u8 K,
    match K as M {
        1 : A,
        1 : B,
    },
}")).
Eval vm_compute in ("<<<M1830>>>" ++ check (runes_of_ascii "packet A {
    match k as n {
        [
            1, 22, 007, 4, 5,
            66
        ] : B,
        2 : C,
    },
}")).
Eval vm_compute in ("<<<M1146>>>" ++ check (runes_of_ascii "MetaData leftPad
// c
{ chars MetaDataX , } packet repeatCount { char[ 255 ] uint8x `" ++ [233]%N ++ runes_of_ascii "` , } MetaData pack { As Foo , }")).
Eval vm_compute in ("<<<M1178>>>" ++ check (runes_of_ascii "MetaData leftPad { chars MetaDataX , } packet repeatCount { char[ 255 ] uint8x `" ++ [233]%N ++ runes_of_ascii "` , } MetaData
// c
pack { As Foo , }")).
Eval vm_compute in ("<<<M961>>>" ++ check (runes_of_ascii "packet A {
    u16 len @lengthOf(body) `tab
	x`,
    u32 crc @calculatedFrom(""CRC32"") `tab
	x`,
    string body,
}")).
Eval vm_compute in ("<<<M881>>>" ++ check (runes_of_ascii "packet A {
  match k as n {
    [""a"", ""bb"", ""c c"", ""d"", ""e"", ""f"", ""g"", ""h"", ""i"", ""j""] : B
    2 : C
  },
}")).
Eval vm_compute in ("<<<M868>>>" ++ check (runes_of_ascii "packet A {
  match k as n {
    [""a"", ""bb"", ""c c"", ""d"", ""e"", ""f"", ""g"", ""h"", ""i""] : B
    2 : C
  },
}")).
Eval vm_compute in ("<<<M900>>>" ++ check (runes_of_ascii "packet A {
  match k as n {
    [1, 22, ""c c"", 4, 5, ""f"", 7, 8, ""i"", 10, 11] : B
    2 : C
  },
}")).
Eval vm_compute in ("<<<M565>>>" ++ check (runes_of_ascii "
packet
    asx true match u128 as lengthOf
{
//	t
// `tick` ""quote"" 'q'
255 : x ,
    } ,	}")).
Eval vm_compute in ("<<<M645>>>" ++ check (runes_of_ascii "
packet
    asx {match u128 as lengthOf
{
//	t
// `tick` ""quote"" 'q'
255 : a" ++ [769]%N ++ runes_of_ascii "b ,
    } ,	}")).
Eval vm_compute in ("<<<M609>>>" ++ check (runes_of_ascii "
packet
    asx {match u128 as lengthOf
{
//	t
// `tick` ""quote"" 'q'
255 : x }
    , ,	}")).
Eval vm_compute in ("<<<M1636>>>" ++ check (runes_of_ascii "packet len {
    int64 a1 @lengthOf(x_y_z),
}

// c
// trailing space 
packet x_y_z {
}")).
Eval vm_compute in ("<<<M553>>>" ++ check (runes_of_ascii "

    asx {match u128 as lengthOf
{
//	t
// `tick` ""quote"" 'q'
255 : x ,
    } ,	}")).
Eval vm_compute in ("<<<M834>>>" ++ check (runes_of_ascii "packet A {
  match k as n {
    [1, 22, ""c c"", 4, 5, ""f""] : B,
    2 : C
  },
}")).
Eval vm_compute in ("<<<M818>>>" ++ check (runes_of_ascii "packet A {
  match k as n {
    [1, ""bb"", 007, ""d"", 5] : B
    2 : C
  },
}")).
Eval vm_compute in ("<<<M814>>>" ++ check (runes_of_ascii "packet A {
  match k as n {
    [1, 22, 007, 4, 5] : B
    2 : C
  },
}")).
Eval vm_compute in ("<<<M1755>>>" ++ check (runes_of_ascii "MetaData M {
    u8 x `tab
        	x`,
    T t `tab
        	x`,
}")).
Eval vm_compute in ("<<<M2>>>" ++ check (runes_of_ascii "root
// trailing space 
// " ++ [27880; 37322]%N ++ runes_of_ascii "
packet
u{  } // trailing space ")).
Eval vm_compute in ("<<<M1754>>>" ++ check (runes_of_ascii "

  root

    packet
    chars	{
i16
    leftPad	,  }
")).
Eval vm_compute in ("<<<M1078>>>" ++ check (runes_of_ascii "// a
MetaData M {} // b
// c
MetaData N {} // d
// e")).
Eval vm_compute in ("<<<M777>>>" ++ check (runes_of_ascii "packet A { Inner { match k as n { [1] : B, }, }, }")).
Eval vm_compute in ("<<<M1554>>>" ++ check (runes_of_ascii "options {
    a = ""\
    "";
    b = ""\
    ""
}")).
Eval vm_compute in ("<<<M933>>>" ++ check (runes_of_ascii "MetaData M {
    u8 x `
`,
    T t `
`,
}")).
Eval vm_compute in ("<<<M1669>>>" ++ check (runes_of_ascii "options
{ Foo
=
0123456789
	;
	}
")).
Eval vm_compute in ("<<<M1574>>>" ++ check (runes_of_ascii "packet A {
    u8 x `d" ++ [6158]%N ++ runes_of_ascii "`,// c" ++ [6158]%N ++ runes_of_ascii "
}")).
Eval vm_compute in ("<<<M1048>>>" ++ check (runes_of_ascii "packet A {
 u8 x `d" ++ [8203]%N ++ runes_of_ascii "`, // c" ++ [8203]%N ++ runes_of_ascii "
}")).
Eval vm_compute in ("<<<M929>>>" ++ check (runes_of_ascii "packet A {
    u8 x `
`,
}")).
Eval vm_compute in ("<<<M51>>>" ++ check (runes_of_ascii "options {} // " ++ [128512]%N ++ runes_of_ascii " emoji")).
Eval vm_compute in ("<<<M162>>>" ++ check (runes_of_ascii "
packet f32a  { }
")).
Eval vm_compute in ("<<<M1001>>>" ++ check (runes_of_ascii "packet A {
}
// c" ++ [8192]%N)).
Eval vm_compute in ("<<<M277>>>" ++ check (runes_of_ascii "MetaData i64_ { }")).
Eval vm_compute in ("<<<M310>>>" ++ check (runes_of_ascii "
MetaData A {}
")).
Eval vm_compute in ("<<<M241>>>" ++ check (runes_of_ascii "/// triple
")).
Eval vm_compute in ("<<<M1035>>>" ++ check (runes_of_ascii "// c" ++ [12]%N)).
