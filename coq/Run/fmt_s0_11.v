From FP Require Import Lexer Parser ShowPT Digest Formatter.
From Coq Require Import String List NArith.
Import ListNotations.
Open Scope string_scope.
Set Printing Width 100000000.
Set Printing Depth 100000000.
Definition show_fres (r : fres) : string :=
  match r with
  | FOk s => "OK:" ++ sh_escaped s ""
  | FErr s => "ERR:" ++ sh_escaped s ""
  | FPanic p => "PANIC:" ++ p
  end.
Definition check (rs : list rune) : string := digest (show_fres (format_res rs)).
Definition full (rs : list rune) : string := show_fres (format_res rs).
Eval vm_compute in ("<<<M1806>>>" ++ check (runes_of_ascii "
MetaData	chars{

int8 Z9_
	, float

    rootA 
`tab	here`	// @lengthOf(
    	, 
  //x
  	// @lengthOf(

	T
o 
`it's`
	,
    roots int, // c
		repeatCount
MetaDataX
,
    float32
	falsey 
`say ""hi""`

    , }  packet  msg_type{

repeat	f32
o	// `tick` ""quote"" 'q'
    , @tag( 0
)

    char[]

A
	,

repeat

char[] tag `say ""hi""` 
,
repeat char[	0

]	Z9_ 
,zchar[ 1
]
	lengthOf ,
i64 T

    ,	match
float 
as
leftPad
	{

007
    :

    len  /// triple
	,	""it's"" :len
,""it's"" 
: 	 // @lengthOf(
float	[  255,

00
,  ""abc""  , ""abc""

, 1
    ,""" ++ [28040; 24687]%N ++ runes_of_ascii """	// `tick` ""quote"" 'q'
    , 
""x y""
    ,	"""" // a // b
    ]
    : 
_x
	, """"	:
len

,
    ""\" ++ [233]%N ++ runes_of_ascii """	:  // a // b
	i64_ , //	t
    }

    , 
roots {
char[1 ] 	 // @lengthOf(
  Header @lengthOf( x_y_z )  ,  body u128

, // `tick` ""quote"" 'q'
	char[] 
float 
,  chars @lengthOf(
    x )`doc`

,
}
, 
crc `it's` 
// `tick` ""quote"" 'q'
	  , @calculatedFrom(

""" ++ [128512]%N ++ runes_of_ascii """ ) BodyLength
`" ++ [28040; 24687; 31867; 22411]%N ++ runes_of_ascii "` ,}
packet	u128

{lengthOf,

    pack @lengthOf( u8x // c
    )
	`// not a comment`  // " ++ [27880; 37322]%N ++ runes_of_ascii "

	,

@leftPad (
' ') 
float
	{
match
	asx as 
charz

    {

[ 
4294967296	,""""	, 255
    ,

42 
, ""1"" ] :u8x ""{,}""
	: Foo
42:

    leftPad  [	// trailing space 
255 , 
// " ++ [128512]%N ++ runes_of_ascii " emoji
    ""a\""b"", 
""it's""
	,4294967296
    ]
	: stringy ,

3 :
Header
    ,

    } 
,match o 	 // `tick` ""quote"" 'q'
	as
    Pad  
  // trailing space 
  	{
    3

: i64_  //x
    , } ,  repeat
string	msg_type,

match packetx// " ++ [27880; 37322]%N ++ runes_of_ascii "
  	as 
lengthOf
{ 
[ ""x y"" ,""""	]:
x_y_z 
	    // " ++ [27880; 37322]%N ++ runes_of_ascii "
  // c
  } ,
    }, i64

    float	,	repeat
	zchar[
    3
]	rootA `crlf
line`	,
    match  msg_type
	as

    len{
	""CRC32""

:
MetaDataX
    ,
	}	,f32

    A
    , char[
	0123456789
    ]
    chars // " ++ [27880; 37322]%N ++ runes_of_ascii "
      `{ , }`
,	/// triple
	@calculatedFrom( ""a\""b""
	)

    string  string_`" ++ [233]%N ++ runes_of_ascii "`	, 
}

")).
Eval vm_compute in ("<<<M385>>>" ++ check (runes_of_ascii "options {
    StringPrefixLenType = u16;
    ArrayPrefixLenType = u16;
}

packet SampleBinary {
    uint16 MsgType `" ++ [28040; 24687; 31867; 22411]%N ++ runes_of_ascii "`,
    u16 BodyLenght @lengthOf(Body) `" ++ [28040; 24687; 20307; 38271; 24230]%N ++ runes_of_ascii "`,
    match MsgType as Body {
        1 : Logon,
        2 : Logout,
        3 : Heartbeat,
        4 : RiskControlRequest,
        5 : RiskControlResponse,
    },
    @calculatedFrom(""CRC32"")
    u32 Ckecksum `" ++ [26657; 39564; 21644]%N ++ runes_of_ascii "`,
}

packet Logon {
    @leftPad('0')
    char[10] UserName `" ++ [29992; 25143; 21517]%N ++ runes_of_ascii "`,
    string Password `" ++ [23494; 30721]%N ++ runes_of_ascii "`,
    uint64 ClientId `" ++ [23458; 25143; 31471]%N ++ runes_of_ascii "ID`,
    u16 HeartbeatInterval `" ++ [24515; 36339; 38388; 38548]%N ++ runes_of_ascii "`,
}

packet Logout {
    @rightPad('0')
    char[10] UserName `" ++ [29992; 25143; 21517]%N ++ runes_of_ascii "`,
    uint64 ClientId `" ++ [23458; 25143; 31471]%N ++ runes_of_ascii "ID`,
}

packet Heartbeat {
}

packet RiskControlRequest {
    string UniqueOrderId `" ++ [21807; 19968; 35746; 21333; 21495]%N ++ runes_of_ascii "`,
    char[16] ClOrdID `" ++ [23458; 25143; 35746; 21333; 21495]%N ++ runes_of_ascii "`,
    char[3] MarketID `" ++ [24066; 22330]%N ++ runes_of_ascii "id`,
    char[12] SecurityID `" ++ [35777; 21048; 20195; 30721]%N ++ runes_of_ascii "`,
    char Side `" ++ [20080; 21334; 26041; 21521]%N ++ runes_of_ascii "`,
    char OrderType `" ++ [35746; 21333; 31867; 22411]%N ++ runes_of_ascii "`,
    u64 Price `" ++ [20215; 26684]%N ++ runes_of_ascii "`,
    u32 Qty `" ++ [25968; 37327]%N ++ runes_of_ascii "`,
    repeat string ExtraInfo `" ++ [38468; 21152; 20449; 24687]%N ++ runes_of_ascii "`,
    repeat SubOrder {
        char[16] ClOrdID `" ++ [23376; 35746; 21333; 21495]%N ++ runes_of_ascii "`,
        u64 Price `" ++ [23376; 35746; 21333; 20215; 26684]%N ++ runes_of_ascii "`,
        u32 Qty `" ++ [23376; 35746; 21333; 25968; 37327]%N ++ runes_of_ascii "`,
    },
}

packet RiskControlResponse {
    string UniqueOrderId `" ++ [21807; 19968; 35746; 21333; 21495]%N ++ runes_of_ascii "`,
    i32 Status `" ++ [29366; 24577]%N ++ runes_of_ascii "`,
    string Msg `" ++ [32467; 26524; 20449; 24687]%N ++ runes_of_ascii "`,
    repeat Detail,
}

packet Detail {
    string RuleName `" ++ [35268; 21017; 21517; 31216]%N ++ runes_of_ascii "`,
    u16 Code `" ++ [21407; 22240; 20195; 30721]%N ++ runes_of_ascii "`,
}")).
Eval vm_compute in ("<<<M129>>>" ++ check (runes_of_ascii "packet
MetaDataX { metadata trueish`" ++ [233]%N ++ runes_of_ascii "`
//x
//x
,// trailing space 
@calculatedFrom(""`tick`"" )uint8x
    // c
    @calculatedFrom(  """ ++ [128512]%N ++ runes_of_ascii """  ) `{ , }`
    , @calculatedFrom( ""a\""b"" ) // packet A { u8 x, }
match Packet as
    body { 3
    : repeatCount
,""x y""
    /// triple
    :lengthOf// `tick` ""quote"" 'q'
4294967296 :
    packetx
    , [ ""abc""
, ""// no comment""
    ,
""abc"" ,
""\n"" //	t
, ""1""
]: u128 [ 00 , 65535 ,""x y"" ,""{,}""  ]
: calculatedFrom ,
    7 :	i8i8  }, u8x ,match int as	matchKey{
[1 ,""CRC32""]
    // trailing space 
    :// @lengthOf(
asx,	}
    , @lengthOf( // " ++ [128512]%N ++ runes_of_ascii " emoji
a1) string x `it's` , repeat // @lengthOf(
char matchKey  ,
    // a // b
    @leftPad // trailing space 
( )@rightPad ( ) match
metadata	as  Packet { [ 65535  ] : Header , }, @tag( 255)
zchar[ 3 ] crc `u8 x,` ,} MetaData
    rootA // trailing space 
{
i8i8	Pad , int8
packetx `{ , }`
,
    int8 stringy,
    // `tick` ""quote"" 'q'
    body _x  , body o , }")).
Eval vm_compute in ("<<<M1934>>>" ++ check (runes_of_ascii "packet pack {
    @lengthOf(Foo)
    asx @lengthOf(_x),
    u8 x_y_z `two words`,
    repeat zchar[0] roots `
        `,
    lengthOf @calculatedFrom(""abc""),
    @tag(3)
    @rightPad(' ')
    @calculatedFrom(""1"")
    repeat uint64 i64_ `say ""hi""`,
    @tag(007)
    match roots as float {
        ""a	b"" : lengthOf,
        [
            1, ""\n"", ""a\""b"", ""\" ++ [233]%N ++ runes_of_ascii """, ""1"",
            42
        ] : msg_type,
        """ ++ [128512]%N ++ runes_of_ascii """ : Foo,
    },
    T {
        match Header as trueish {
            [
                0, 3, ""{,}"", ""1"", 00,
                0123456789, ""// no comment""
            ] : As,
        },
    },
    repeat char[10] o `
        `,
    @calculatedFrom(""`tick`"")
    repeat crc {
        repeatCount o,
        u8x As,
    },
}

packet pack {
    @calculatedFrom(""" ++ [233]%N ++ runes_of_ascii "t" ++ [233]%N ++ runes_of_ascii """)
    u32 f32a,
}

MetaData float {
    u32 options1,
}

packet f32a {
}")).
Eval vm_compute in ("<<<M330>>>" ++ check (runes_of_ascii "root packet
As {
} MetaData Pad { string
    metadata  `// not a comment` ,
    }
packet metadata
    { string	charz
`a\` , @leftPad ( ' ' )pack@lengthOf(x_y_z ), @calculatedFrom( ""packet"")
match crc
    as chars { [ ""packet"" ,7 ]
    :  repeatCount }
, Pad @lengthOf( matchKey
    ),
@calculatedFrom( ""\n""
    )int64
    Z9_ @lengthOf(
    // a // b
    _x ),
@lengthOf(repeatCount// trailing space 
) repeat float
{ u128 @lengthOf( zchar) , u8 crc
, } ,
    int64 pack, u128
    `it's` , repeat
// a // b
// `tick` ""quote"" 'q'
i32 T , //	t
@tag(00 ) rootA  @lengthOf(
float
    )
,
} MetaData Header // @lengthOf(
{u32 u,	string A `crlf
line` ,
u16
    roots `a\` ,int16 chars , }
packet repeatCount { repeat char[
// trailing space 
//x
65535]
    x `line1
line2`
, }")).
Eval vm_compute in ("<<<M201>>>" ++ check (runes_of_ascii "packet charz
{ //	t
repeat i64_ ,trueish {
repeat _x
    ,	repeatCount, repeat u16
matchKey `
`
,
// " ++ [128512]%N ++ runes_of_ascii " emoji
// a // b
matchKey @calculatedFrom( ""a\""b"" )
`it's` ,}	,
@tag(
007 )@calculatedFrom(
    ""a\\"")	@tag(
    3 // @lengthOf(
)f32 f32a @lengthOf(asx ) `crlf
line` // packet A { u8 x, }
, repeat i8 string_
,
    @lengthOf(
    // @lengthOf(
    Logon  ) @lengthOf( x_y_z )
    @lengthOf(
zchar
    ) repeat char[ 65535	] Foo`" ++ [233]%N ++ runes_of_ascii "`,
@calculatedFrom(//
""abc""
) trueish @lengthOf( A )
// " ++ [27880; 37322]%N ++ runes_of_ascii "
// a // b
,char[ 0 ] float , Packet
    @calculatedFrom( ""a	b""
), } MetaData
    Pad { char[ 00 ] leftPad , u8 rootA `
`,
//
// " ++ [128512]%N ++ runes_of_ascii " emoji
int32
    a1	`say ""hi""`
    ,
Z9_ float , //x
i32 Pad ,
}")).
Eval vm_compute in ("<<<M87>>>" ++ check (runes_of_ascii "root packet matchKey{ match	Foo as Z9_ {// c
[ ""x y"" , ""1"" ,
    007
, 7 ]: pack,
""`tick`"" :
u128 ,""a	b"" :msg_type,[
//
//
00 ,	65535
] : a1, ""it's"" :Foo
    , // " ++ [128512]%N ++ runes_of_ascii " emoji
[ //x
""""
] : u, } ,
} packet calculatedFrom // c
{msg_type {
    T @calculatedFrom( ""\n"" ) ,float64 i8i8, As`
`, u32 rootA @lengthOf(
// c
// `tick` ""quote"" 'q'
float
) ,}
, }
    packet
    // " ++ [27880; 37322]%N ++ runes_of_ascii "
    x_y_z
{@tag( //x
0 ) i64_
    // " ++ [27880; 37322]%N ++ runes_of_ascii "
    @lengthOf(
    //
    MetaDataX
) ,	}packet A { @calculatedFrom( ""a\\"" )@calculatedFrom(""abc"" ) _x
u	`say ""hi""` ,
    } options
    // `tick` ""quote"" 'q'
    { // trailing space 
metadata = ""a\\"" ; // a // b
}")).
Eval vm_compute in ("<<<M1846>>>" ++ check (runes_of_ascii "packet
    tag  {

    string

matchKey
`line1
line2`

    ,
@tag(
    0) // c
		@calculatedFrom(
""1"") @calculatedFrom(// " ++ [128512]%N ++ runes_of_ascii " emoji
	""a\""b""

    )
    float64 matchKey ,  } options{  crc=
true

msg_type 

//	t
      =
true;}
	packet
o  { match roots 
as 
calculatedFrom	{ ""// no comment""
// packet A { u8 x, }
    	:
msg_type ,""{,}"":
u128 ,[
    65535 ,
	0123456789 ] /// triple
    :body 
,	// " ++ [128512]%N ++ runes_of_ascii " emoji
    },

@rightPad (	' '
    )	repeat 
string_ i64_	,

@lengthOf(
lengthOf  )  @tag(	255  // packet A { u8 x, }
    )@tag(00
)  char[]stringy ,
    }
")).
Eval vm_compute in ("<<<M1119>>>" ++ check (runes_of_ascii "// top
root // c0
packet // c1
_x // c2
{ // c3
match // c4
Foo // c5
as // c6
Z9_ // c7
{ // c8
""a	b"" // c9
: // c10
Pad // c11
, // c12
} // c13
, // c14
repeat // c15
x // c16
`line1
line2` // c17
, // c18
@rightPad // c19
( // c20
' ' // c21
) // c22
@calculatedFrom( // c23
""a\\"" // c24
) // c25
metadata // c26
MetaDataX // c27
, // c28
@tag( // c29
0 // c30
) // c31
Logon // c32
int // c33
`` // c34
, // c35
} // c36
options // c37
{ // c38
T // c39
= // c40
'\x00' // c41
} // c42
")).
Eval vm_compute in ("<<<M1619>>>" ++ check (runes_of_ascii "
MetaData

    T{

    a1 Packet, // " ++ [128512]%N ++ runes_of_ascii " emoji
	uint8x 
        // @lengthOf(
//x
  Pad
    `" ++ [233]%N ++ runes_of_ascii "`  ,a1 
// " ++ [27880; 37322]%N ++ runes_of_ascii "
  	MetaDataX
, zchar[
	00]
metadata
    `u8 x,`	,

Pad  // trailing space 
	x

`
`
,
	i8

u8x,
}
options

{

As

= false	;
    }

    root packet
	options1
{ @calculatedFrom(
""// no comment""	)
@lengthOf(_x	)@tag( 007  )
repeat  
  // trailing space 
    // @lengthOf(
    f32 i8i8	`" ++ [233]%N ++ runes_of_ascii "` 
,@rightPad(' ' 	 // " ++ [27880; 37322]%N ++ runes_of_ascii "
  )

    repeat  Pad
	, }")).
Eval vm_compute in ("<<<M349>>>" ++ check (runes_of_ascii "root
packet body {
    @lengthOf(
int
// @lengthOf(
//x
)string tag
    ,	Pad BodyLength , Z9_ {
    /// triple
    u `` , zchar[ 7] u ,
},uint64 calculatedFrom, }packet
msg_type {match f32a// " ++ [128512]%N ++ runes_of_ascii " emoji
as pack
    { ""// no comment"" : trueish
, }
    // trailing space 
    , @calculatedFrom( // @lengthOf(
""abc""
)
    @leftPad (
' ') @calculatedFrom( """" //x
) // c
matchKey T ,// `tick` ""quote"" 'q'
}
")).
Eval vm_compute in ("<<<M1670>>>" ++ check (runes_of_ascii "packet a1 {
    char[] charz @calculatedFrom(""" ++ [28040; 24687]%N ++ runes_of_ascii """),
    uint8x `crlf
    line`,
    uint64 T `line1
    line2`,
    @leftPad('0')
    // a // b
    /// triple
    @calculatedFrom(""abc"")
    @tag(3)
    match int as len {
        0 : chars,
        [
            10, ""a\\"", 1, 0, 10,
            0
        ] : body,
        007 : rootA,
    },
    falsey options1,
}")).
Eval vm_compute in ("<<<M110>>>" ++ check (runes_of_ascii "root // trailing space 
packet
leftPad { T
@lengthOf(A
) `" ++ [233]%N ++ runes_of_ascii "`,
    Header
    @lengthOf( As ) // " ++ [27880; 37322]%N ++ runes_of_ascii "
,
string	calculatedFrom `{ , }`
, @tag( 1) // trailing space 
u16  x_y_z ,
@tag( 4294967296
) x_y_z metadata// " ++ [128512]%N ++ runes_of_ascii " emoji
,asx { asx `it's`
    ,} , char[ 65535 ]
As@lengthOf(
    Logon ) `a\`
,@lengthOf(
Z9_
    ) string
BodyLength ,
}")).
Eval vm_compute in ("<<<M79>>>" ++ check (runes_of_ascii "packet	Pad //
{ u32 i64_
@lengthOf(u8x) `tab	here` , T,
@tag(
1) @calculatedFrom(	""CRC32""
)
    @leftPad ()
    match stringy as lengthOf	{[ 255  ,	7
    ,
""CRC32""
,""a	b"" , """ ++ [233]%N ++ runes_of_ascii "t" ++ [233]%N ++ runes_of_ascii """ ,// c
""a\""b""
    , ""\n"" ]: falsey  , /// triple
} ,string i8i8// trailing space 
@calculatedFrom( """ ++ [128512]%N ++ runes_of_ascii """
    ) ,packetx, } // c")).
Eval vm_compute in ("<<<M222>>>" ++ check (runes_of_ascii "packet
body// @lengthOf(
{ @lengthOf(
T
    // " ++ [27880; 37322]%N ++ runes_of_ascii "
    ) @lengthOf(
int ) @leftPad ( '\x00')
asx//x
len
,
repeat	zchar[ 3] int `" ++ [28040; 24687; 31867; 22411]%N ++ runes_of_ascii "` ,@lengthOf(
    // @lengthOf(
    options1)match
    x
    as //x
leftPad // @lengthOf(
{
7
:
x_y_z , 65535:  u128 , 42 : x ,} , //
}")).
Eval vm_compute in ("<<<M234>>>" ++ check (runes_of_ascii "//	t
options{
    chars=true As= char[]
// trailing space 
// " ++ [128512]%N ++ runes_of_ascii " emoji
; /// triple
x_y_z	= 7; // " ++ [27880; 37322]%N ++ runes_of_ascii "
i8i8 = true packetx = /// triple
' ' } root packet	x_y_z {repeat
    char[
    42
    //x
    ] //	t
Pad,
    }
// packet A { u8 x, }
")).
Eval vm_compute in ("<<<M367>>>" ++ check (runes_of_ascii "
packet roots  { @calculatedFrom( ""a\\"" ) @lengthOf( packetx  ) match repeatCount
as body { 007:
    lengthOf ,
    00
    :// `tick` ""quote"" 'q'
zchar,} ,
char[] chars
`say ""hi""`,}
MetaData packetx
    {}
")).
Eval vm_compute in ("<<<M1295>>>" ++ check (runes_of_ascii "packet
    A{ 
u8 a,
}packet
B

{u16
	b

    , } root
packet 
P

    {  u8
    K1
, u8

K2 
,match K1
	as	M1
{
1
    :

A,

    } ,	match

K2
as M2  {
1:B ,
    }
    ,}
")).
Eval vm_compute in ("<<<M1827>>>" ++ check (runes_of_ascii "root packet _x {
    uint32 trueish @calculatedFrom(""1"") `crlf
    line`,
}

//
packet Header {
    repeat u64 stringy `// not a comment`,
    float32 msg_type,
}")).
Eval vm_compute in ("<<<M441>>>" ++ check (runes_of_ascii "packet uint8x
{ match pack
    as msg_type	{
    0123456789 :	float float
}
,
} packet //	t
a1
    { } options {packetx
    = '\x00'	; u128= ""a	b""  ; }
")).
Eval vm_compute in ("<<<M436>>>" ++ check (runes_of_ascii "packet uint8x
{ match pack
    as msg_type	{
    0123456789 : :	float
}
,
} packet //	t
a1
    { } options {packetx
    = '\x00'	; u128= ""a	b""  ; }
")).
Eval vm_compute in ("<<<M1475>>>" ++ check (runes_of_ascii "

  // top

packet // c0
  body // c1
{ // c2
i32	// c3
  f32a  // c4
    	`{ , }`  // c5
,  // c6
  }	// c7
options  // c8
  {	// c9
  } // c10
")).
Eval vm_compute in ("<<<M522>>>" ++ check (runes_of_ascii "packet uint8x
{ match pack
    as msg_type	{
    0123456789 :	float
}
,
} packet //	t
a1
    { } options {packetx
    = '\x00'	; u128= ;  ""a	b"" }
")).
Eval vm_compute in ("<<<M700>>>" ++ check (runes_of_ascii "// @lengthOf(
packet i8i8 { u128 o , }
options { MetaDataX = true true;
    BodyLength =""packet"" x_y_z= 007
crc //x
= ""abc"" ;
    msg_type =
i16 }")).
Eval vm_compute in ("<<<M696>>>" ++ check (runes_of_ascii "// @lengthOf(
packet i8i8 { u128 o , } }
options { MetaDataX = true;
    BodyLength =""packet"" x_y_z= 007
crc //x
= ""abc"" ;
    msg_type =
i16 }")).
Eval vm_compute in ("<<<M721>>>" ++ check (runes_of_ascii "// @lengthOf(
packet i8i8 { u128 o , }
options { MetaDataX = true;
    BodyLength =""packet"" x_y_z= 007
crc //x
= ""abc"" msg_type
    ; =
i16 }")).
Eval vm_compute in ("<<<M1263>>>" ++ check (runes_of_ascii "
packet B {u8 
a ,
}  root	packet P
{

    u8
K, 
u64	L
@lengthOf(

Body
)	, match
    K
as

    Body
{ 1

    : 
B

,
}	, }

")).
Eval vm_compute in ("<<<M1266>>>" ++ check (runes_of_ascii "  packet B
    {
u8 a
	,
    } 
root  packet

P {
u8
    K  ,
	match
    K as Body

{
1

:  B,
}  ,
	u16	L@lengthOf(	Body

) ,
	}
")).
Eval vm_compute in ("<<<M1699>>>" ++ check (runes_of_ascii "root packet lengthOf {
    @leftPad(' ')
    repeat char MetaDataX,
}

MetaData Pad {
    msg_type rootA `// not a comment`,
}")).
Eval vm_compute in ("<<<M970>>>" ++ check (runes_of_ascii "packet A {
    match k as n {
        ""x\
y"" : B,
        [""x\
y"", 1] : C,
        [1,2,3,4,5,""x\
y""] : D,
    },
}")).
Eval vm_compute in ("<<<M1173>>>" ++ check (runes_of_ascii "MetaData leftPad { chars MetaDataX , } packet repeatCount { char[ 255 ] uint8x `" ++ [233]%N ++ runes_of_ascii "` , // c
} MetaData pack { As Foo , }")).
Eval vm_compute in ("<<<M346>>>" ++ check (runes_of_ascii "MetaData chars {
x_y_z
/// triple
/// triple
x
    `line1
line2` ,_x A`// not a comment`,	} // `tick` ""quote"" 'q'")).
Eval vm_compute in ("<<<M911>>>" ++ check (runes_of_ascii "packet A {
  match k as n {
    [""a"", 22, ""c c"", 4, ""e"", 66, ""g"", 8, ""i"", 10, ""k"", 12] : B
    2 : C
  },
}")).
Eval vm_compute in ("<<<M683>>>" ++ check (runes_of_ascii "// @lengthOf(
packet i8i8 { u128 o , }
options { MetaDataX = true;
    BodyLength =""packet"" x_y_z= 007")).
Eval vm_compute in ("<<<M854>>>" ++ check (runes_of_ascii "packet A {
  match k as n {
    [""a"", ""bb"", ""c c"", ""d"", ""e"", ""f"", ""g"", ""h""] : B,
    2 : C
  },
}")).
Eval vm_compute in ("<<<M886>>>" ++ check (runes_of_ascii "packet A {
  match k as n {
    [1, 22, ""c c"", 4, 5, ""f"", 7, 8, ""i"", 10] : B,
    2 : C
  },
}")).
Eval vm_compute in ("<<<M608>>>" ++ check (runes_of_ascii "
packet
    asx {match u128 as lengthOf
{
//	t
// `tick` ""quote"" 'q'
255 : x , ,
    } ,	}")).
Eval vm_compute in ("<<<M569>>>" ++ check (runes_of_ascii "
packet
    asx {u128 match as lengthOf
{
//	t
// `tick` ""quote"" 'q'
255 : x ,
    } ,	}")).
Eval vm_compute in ("<<<M1851>>>" ++ check (runes_of_ascii "packet A {
    match k as n {
        [""a"", ""bb"", 007, ""d""] : B,
        2 : C,
    },
}")).
Eval vm_compute in ("<<<M556>>>" ++ check (runes_of_ascii "
,
    asx {match u128 as lengthOf
{
//	t
// `tick` ""quote"" 'q'
255 : x ,
    } ,	}")).
Eval vm_compute in ("<<<M1305>>>" ++ check (runes_of_ascii "packet orderItem {
    u8 a,
}
root packet newOrder {
    orderItem,
    u8 x,
}
")).
Eval vm_compute in ("<<<M802>>>" ++ check (runes_of_ascii "packet A {
  match k as n {
    [""a"", ""bb"", ""c c"", ""d""] : B,
    2 : C
  },
}")).
Eval vm_compute in ("<<<M1553>>>" ++ check (runes_of_ascii "

  packet 
body	{i32

    f32a

`{ , }`
    ,} 

    // c
options {} ")).
Eval vm_compute in ("<<<M801>>>" ++ check (runes_of_ascii "packet A {
  match k as n {
    [1, 22, 007, 4] : B
    2 : C
  },
}")).
Eval vm_compute in ("<<<M534>>>" ++ check (runes_of_ascii "packet uint8x
{ match pack
    as msg_type	{
    0123456789 :	")).
Eval vm_compute in ("<<<M751>>>" ++ check (runes_of_ascii "options @calculatedFrom( repeat } [ @tag( uint32 char[] ] :")).
Eval vm_compute in ("<<<M1245>>>" ++ check (runes_of_ascii "root
    packet	P
{repeat

char 
cs  ,u8

    x ,} ")).
Eval vm_compute in ("<<<M1213>>>" ++ check (runes_of_ascii "packet body { i32 f32a `{ , }` , } // c
options { }")).
Eval vm_compute in ("<<<M7>>>" ++ check (runes_of_ascii "options {  metadata = ""a\\""// @lengthOf(
;}
")).
Eval vm_compute in ("<<<M940>>>" ++ check (runes_of_ascii "root packet A {
    u8 x `a
    b
  c`,
}")).
Eval vm_compute in ("<<<M1522>>>" ++ check (runes_of_ascii "options {
    T = '0';
    A = u8;
}")).
Eval vm_compute in ("<<<M952>>>" ++ check (runes_of_ascii "root packet A {
    u8 x `x
`,
}")).
Eval vm_compute in ("<<<M998>>>" ++ check (runes_of_ascii "packet A {
 u8 x `d" ++ [5760]%N ++ runes_of_ascii "`, // c" ++ [5760]%N ++ runes_of_ascii "
}")).
Eval vm_compute in ("<<<M947>>>" ++ check (runes_of_ascii "packet A {
    u8 x `x
`,
}")).
Eval vm_compute in ("<<<M1495>>>" ++ check (runes_of_ascii "  packet 
A	{	}// c" ++ [65279]%N ++ runes_of_ascii "
 
")).
Eval vm_compute in ("<<<M1721>>>" ++ check (runes_of_ascii "packet x {
    // c
}")).
Eval vm_compute in ("<<<M976>>>" ++ check (runes_of_ascii "packet A {
}
// c ")).
Eval vm_compute in ("<<<M1057>>>" ++ check (runes_of_ascii "// c" ++ [6158]%N ++ runes_of_ascii "
packet A {
}")).
Eval vm_compute in ("<<<M1227>>>" ++ check (runes_of_ascii "packet
// c
x { }")).
Eval vm_compute in ("<<<M3>>>" ++ check (runes_of_ascii "options {}

")).
Eval vm_compute in ("<<<M1015>>>" ++ check (runes_of_ascii "// c" ++ [8233]%N)).
Eval vm_compute in ("<<<M72>>>" ++ check (@nil rune)).
