From FP Require Import Lexer Parser ShowPT Digest Formatter.
From Coq Require Import String List NArith.
Import ListNotations.
Open Scope string_scope.
Set Printing Width 100000000.
Set Printing Depth 100000000.
Definition show_fres (r : fres) : string :=
  match r with
  | FOk s => "OK:" ++ sh_escaped s ""
  | FErr s => "ERR:" ++ sh_escaped s ""
  | FPanic p => "PANIC:" ++ p
  end.
Definition check (rs : list rune) : string := digest (show_fres (format_res rs)).
Definition full (rs : list rune) : string := show_fres (format_res rs).
Eval vm_compute in ("<<<M266>>>" ++ check (runes_of_ascii "packet metadata { repeat f64 // " ++ [128512]%N ++ runes_of_ascii " emoji
Foo , repeat
Logon
    f32a`
` , @calculatedFrom( ""1"" ) repeat
    uint8 // trailing space 
calculatedFrom `u8 x,`
, char[]
    packetx , // packet A { u8 x, }
@calculatedFrom(
""abc"" ) Pad
@lengthOf(msg_type  )`line1
line2` ,
@rightPad
(
' ' )
tag`" ++ [233]%N ++ runes_of_ascii "` ,@tag( 10
    /// triple
    )u8x
@calculatedFrom( ""CRC32"" ),match
// trailing space 
// trailing space 
metadata
as msg_type
//
// " ++ [27880; 37322]%N ++ runes_of_ascii "
{[
""\n"" //x
, 0123456789// c
] : options1
,
    ""\n""
    :
    float ,},} packet
// " ++ [128512]%N ++ runes_of_ascii " emoji
// " ++ [128512]%N ++ runes_of_ascii " emoji
MetaDataX {string string_ `doc`
,
@rightPad
    (
    '0' ) zchar[
// " ++ [128512]%N ++ runes_of_ascii " emoji
// `tick` ""quote"" 'q'
00 ]
zchar `a\`
,} options {leftPad = 0 float = 4294967296 ;
}// `tick` ""quote"" 'q'
root packet body{ @calculatedFrom( ""1"" ) @lengthOf( int ) match float as Z9_  {
// packet A { u8 x, }
// trailing space 
42
: x
""packet"" :// `tick` ""quote"" 'q'
matchKey	, """ ++ [28040; 24687]%N ++ runes_of_ascii """
/// triple
// packet A { u8 x, }
: o ,	255 :	float }
, @tag( 0123456789 ) match	calculatedFrom as // @lengthOf(
trueish { [ ""packet"" , ""`tick`"" //x
,	""" ++ [233]%N ++ runes_of_ascii "t" ++ [233]%N ++ runes_of_ascii """ ] : MetaDataX 4294967296 :trueish
, 3 :
// trailing space 
// packet A { u8 x, }
i64_ , 0123456789 :
f32a , [ 7, //	t
10	,	""CRC32"" ,	""x y"" , ""\n""
    // `tick` ""quote"" 'q'
    , ""CRC32""
    , ""`tick`""
    ]// `tick` ""quote"" 'q'
: body , }, char[ 1//
]Foo // " ++ [128512]%N ++ runes_of_ascii " emoji
, @rightPad( ' ' ) @calculatedFrom( // " ++ [27880; 37322]%N ++ runes_of_ascii "
""a	b""
) repeat string_ { repeat Logon // @lengthOf(
,	Z9_	i8i8 ,match Z9_ as
    A {[ 42
    ] :Logon , [ ""CRC32"" , 1 , ""a\""b"" , 4294967296 , 0, ""\" ++ [233]%N ++ runes_of_ascii """ ] : roots ""a\""b"" : MetaDataX , 255
: _x
,
    65535
    :
    rootA , }	,match _x as Foo {[ 255
    , """ ++ [28040; 24687]%N ++ runes_of_ascii """ ,// packet A { u8 x, }
""CRC32"" ,
    // c
    """ ++ [233]%N ++ runes_of_ascii "t" ++ [233]%N ++ runes_of_ascii """ ,
    ""abc"" ] : len""a\\""
: Pad  0
: falsey,3 :	u128
    ,
} ,// a // b
} , repeat // packet A { u8 x, }
options1 int `{ , }`
// packet A { u8 x, }
//
,
}")).
Eval vm_compute in ("<<<M382>>>" ++ check (runes_of_ascii "options {
	StringPrefixLenType = u16;
	ArrayPrefixLenType = u16;
}

packet SampleBinary {
    uint16 MsgType `" ++ [28040; 24687; 31867; 22411]%N ++ runes_of_ascii "`,
    u16 BodyLenght @lengthOf(Body) `" ++ [28040; 24687; 20307; 38271; 24230]%N ++ runes_of_ascii "`,
    match MsgType as Body {
        1 : Logon,
        2 : Logout,
        3 : Heartbeat,
        4 : RiskControlRequest,
        5 : RiskControlResponse,
    },
        @calculatedFrom(""CRC32"")
    u32 Ckecksum `" ++ [26657; 39564; 21644]%N ++ runes_of_ascii "`,
}

packet Logon {
     @leftPad('0')
    char[10] UserName `" ++ [29992; 25143; 21517]%N ++ runes_of_ascii "`,
    string Password `" ++ [23494; 30721]%N ++ runes_of_ascii "`,
    uint64 ClientId `" ++ [23458; 25143; 31471]%N ++ runes_of_ascii "ID`,
    u16 HeartbeatInterval `" ++ [24515; 36339; 38388; 38548]%N ++ runes_of_ascii "`,
}

packet Logout {
      @rightPad('0')
    char[10] UserName `" ++ [29992; 25143; 21517]%N ++ runes_of_ascii "`,
    uint64 ClientId `" ++ [23458; 25143; 31471]%N ++ runes_of_ascii "ID`,
}

packet Heartbeat {
}

packet RiskControlRequest {
    string UniqueOrderId `" ++ [21807; 19968; 35746; 21333; 21495]%N ++ runes_of_ascii "`,
    char[16] ClOrdID `" ++ [23458; 25143; 35746; 21333; 21495]%N ++ runes_of_ascii "`,
    char[3] MarketID `" ++ [24066; 22330]%N ++ runes_of_ascii "id`,
    char[12] SecurityID `" ++ [35777; 21048; 20195; 30721]%N ++ runes_of_ascii "`,
    char Side `" ++ [20080; 21334; 26041; 21521]%N ++ runes_of_ascii "`,
    char OrderType `" ++ [35746; 21333; 31867; 22411]%N ++ runes_of_ascii "`,
    u64 Price `" ++ [20215; 26684]%N ++ runes_of_ascii "`,
    u32 Qty `" ++ [25968; 37327]%N ++ runes_of_ascii "`,
    repeat string ExtraInfo `" ++ [38468; 21152; 20449; 24687]%N ++ runes_of_ascii "`,
    repeat SubOrder {
    		char[16] ClOrdID `" ++ [23376; 35746; 21333; 21495]%N ++ runes_of_ascii "`,
    		u64 Price `" ++ [23376; 35746; 21333; 20215; 26684]%N ++ runes_of_ascii "`,
    		u32 Qty `" ++ [23376; 35746; 21333; 25968; 37327]%N ++ runes_of_ascii "`,
    	},
}

packet RiskControlResponse {
    string UniqueOrderId `" ++ [21807; 19968; 35746; 21333; 21495]%N ++ runes_of_ascii "`,
    i32 Status `" ++ [29366; 24577]%N ++ runes_of_ascii "`,
    string Msg `" ++ [32467; 26524; 20449; 24687]%N ++ runes_of_ascii "`,
    repeat Detail,
}

packet Detail {
    string RuleName `" ++ [35268; 21017; 21517; 31216]%N ++ runes_of_ascii "`,
    u16 Code `" ++ [21407; 22240; 20195; 30721]%N ++ runes_of_ascii "`,
}")).
Eval vm_compute in ("<<<M1766>>>" ++ check (runes_of_ascii "root packet metadata {
    @lengthOf(options1)
    int32 zchar @calculatedFrom(""// no comment"") `
        `,
    repeat calculatedFrom `it's`,//
    match BodyLength as lengthOf {
        3 : leftPad,
    },
    repeat u128,
    char[10] chars,// @lengthOf(
    falsey @calculatedFrom(""x y"") `{ , }`,
    @tag(42)
    float64 i64_,
    u8x @calculatedFrom(""{,}"") `two words`,
    @lengthOf(T)
    char[255] pack `it's`,
    match MetaDataX as i64_ {
        //
        """ ++ [28040; 24687]%N ++ runes_of_ascii """ : Header,
        0 : x_y_z,
        3 : int,
        ""abc"" : u8x,
    },
}

packet i64_ {
    @rightPad()
    /// triple
    pack {
        match MetaDataX as trueish {
            1 : len,
            00 : falsey,
            """" : x,
        },
    },
    @tag(1)
    char[] int @lengthOf(metadata),
    a1 @lengthOf(calculatedFrom),
    @tag(7)
    tag @lengthOf(u),
    BodyLength @calculatedFrom(""it's"") `say ""hi""`,
    string msg_type,
}

MetaData Logon {
    BodyLength _x `it's`,
    int32 body,
}

root packet body {
}")).
Eval vm_compute in ("<<<M1368>>>" ++ check (runes_of_ascii "// top
options
    // c0
{ // c1
LittleEndian =
    // c3
true
    // c4
; // c5a
  // c5b
} // c6
packet // c7a
  // c7b
Logon // c8a
  // c8b
{ u8
    // c10
x // c11a
  // c11b
, // c12
} // c13a
  // c13b
packet // c14a
  // c14b
Logout // c15
{
    // c16
u16
    // c17
reason
    // c18
, // c19a
  // c19b
}
    // c20
root packet Frame { // c24
u16 // c25a
  // c25b
Kind // c26
, // c27a
  // c27b
u16
    // c28
Kind2 // c29a
  // c29b
, match Kind
    // c32
as // c33
Body // c34
{
    // c35
1 : // c37
Logon // c38a
  // c38b
,
    // c39
[ // c40
2 , // c42
3
    // c43
, // c44
4 ] :
    // c47
Logout
    // c48
, // c49
100
    // c50
:
    // c51
Logon // c52a
  // c52b
,
    // c53
} , match Kind2 // c57a
  // c57b
as
    // c58
Trailer // c59
{ // c60
0 // c61a
  // c61b
: // c62
Logout // c63a
  // c63b
,
    // c64
} // c65a
  // c65b
,
    // c66
} // c67
")).
Eval vm_compute in ("<<<M1377>>>" ++ check (runes_of_ascii "// top
options
    // c0
{
    // c1
LittleEndian = // c3a
  // c3b
true // c4a
  // c4b
; // c5
} // c6
packet // c7
Logon { // c9a
  // c9b
u8 x
    // c11
, }
    // c13
packet
    // c14
Logout // c15
{ u16
    // c17
reason // c18a
  // c18b
, // c19
} root // c21
packet
    // c22
Frame {
    // c24
i8 Kind // c26
, i8 // c28
Kind2 , // c30a
  // c30b
match // c31
Kind // c32a
  // c32b
as // c33
Body // c34a
  // c34b
{
    // c35
1
    // c36
: // c37a
  // c37b
Logon // c38
, // c39
[ 2 // c41a
  // c41b
, // c42a
  // c42b
3 , // c44
4 ] // c46
: // c47
Logout
    // c48
, // c49
100 // c50
: // c51
Logon , }
    // c54
, // c55
match Kind2 // c57
as // c58a
  // c58b
Trailer // c59a
  // c59b
{
    // c60
0
    // c61
:
    // c62
Logout , // c64
} // c65
, // c66a
  // c66b
} // c67a
  // c67b
")).
Eval vm_compute in ("<<<M1618>>>" ++ check (runes_of_ascii "// packet A { u8 x, }
root packet leftPad {
    @calculatedFrom(""`tick`"")
    @rightPad()
    // " ++ [128512]%N ++ runes_of_ascii " emoji
    string_ @lengthOf(tag) `a\`,
    i64 T `" ++ [233]%N ++ runes_of_ascii "`,//	t
}

packet Pad {
    @lengthOf(float)
    char[] x @calculatedFrom(""a\""b""),// trailing space 
    @tag(0)
    // " ++ [27880; 37322]%N ++ runes_of_ascii "
    repeatCount,
    repeat rootA {
        _x,
        zchar[3] roots `crlf
        line`,
    },
    /// triple
    // a // b
    match metadata as BodyLength {
        [
            10, 10, 4294967296, ""a\""b"", """",
            ""\n"", ""a\\""
        ] : u,
    },
    repeat i64_ Packet `" ++ [28040; 24687; 31867; 22411]%N ++ runes_of_ascii "`,
    @tag(65535)
    char[] float `it's`,
    char[7] x @calculatedFrom(""{,}""),
}

MetaData leftPad {
    body rootA `crlf
    line`,
    int64 msg_type `doc`,
}")).
Eval vm_compute in ("<<<M1120>>>" ++ check (runes_of_ascii "// top
root
    // c0
packet
    // c1
_x
    // c2
{
    // c3
match
    // c4
Foo
    // c5
as
    // c6
Z9_
    // c7
{
    // c8
""a	b""
    // c9
:
    // c10
Pad
    // c11
,
    // c12
}
    // c13
,
    // c14
repeat
    // c15
x
    // c16
`line1
line2`
    // c17
,
    // c18
@rightPad
    // c19
(
    // c20
' '
    // c21
)
    // c22
@calculatedFrom(
    // c23
""a\\""
    // c24
)
    // c25
metadata
    // c26
MetaDataX
    // c27
,
    // c28
@tag(
    // c29
0
    // c30
)
    // c31
Logon
    // c32
int
    // c33
``
    // c34
,
    // c35
}
    // c36
options
    // c37
{
    // c38
T
    // c39
=
    // c40
'\x00'
    // c41
}
    // c42
")).
Eval vm_compute in ("<<<M1118>>>" ++ check (runes_of_ascii "MetaData Packet
    // c1
{ // c2
} packet // c4a
  // c4b
charz // c5a
  // c5b
{ // c6a
  // c6b
Foo // c7
asx `it's` ,
    // c10
@lengthOf( // c11
T )
    // c13
@calculatedFrom(
    // c14
"""" // c15
)
    // c16
@calculatedFrom(
    // c17
""x y"" // c18
) // c19a
  // c19b
zchar[ 007 // c21
] repeatCount @lengthOf(
    // c24
int // c25
)
    // c26
`a\`
    // c27
, // c28a
  // c28b
i8
    // c29
string_ // c30a
  // c30b
, // c31
repeat // c32
options1 // c33
Pad
    // c34
, } // c36a
  // c36b
root packet
    // c38
Packet { int8 // c41
float `doc` // c43
, // c44
}
    // c45
")).
Eval vm_compute in ("<<<M64>>>" ++ check (runes_of_ascii "
MetaData //	t
body { T
    calculatedFrom, string f32a `line1
line2`, leftPad BodyLength
`tab	here` ,
}options {
}
MetaData
    options1	{
char[ 3 ] MetaDataX
// " ++ [128512]%N ++ runes_of_ascii " emoji
/// triple
`" ++ [28040; 24687; 31867; 22411]%N ++ runes_of_ascii "` ,  BodyLength x	`
`,u16 tag	`say ""hi""`, u8
float ,float32 As `
`
    ,
    i8i8 Z9_ `
`, } packet u { @tag( 42
) options1 // c
o `crlf
line` ,@calculatedFrom( ""`tick`""
// packet A { u8 x, }
// a // b
) repeat
    char[]	a1
    //x
    ,	} options
    { uint8x=
true
    A
= // `tick` ""quote"" 'q'
7 ; // packet A { u8 x, }
len=	""" ++ [128512]%N ++ runes_of_ascii """
    }")).
Eval vm_compute in ("<<<M1381>>>" ++ check (runes_of_ascii "packet tag {
    string matchKey `line1
    line2`,
    @tag(0)
    @calculatedFrom(""1"")
    @calculatedFrom(""a\""b"")
    float64 matchKey,
}

options {
    crc = true
    msg_type = true;
}

packet o {
    match roots as calculatedFrom {
        ""// no comment"" : msg_type,
        ""{,}"" : u128,
        [65535, 0123456789] : body,
        // " ++ [128512]%N ++ runes_of_ascii " emoji
    },
    @rightPad(' ')
    repeat string_ i64_,
    @lengthOf(lengthOf)
    @tag(255)
    @tag(00)
    char[] stringy,
}")).
Eval vm_compute in ("<<<M68>>>" ++ check (runes_of_ascii "
packet
    Header {  match roots  as packetx
// " ++ [27880; 37322]%N ++ runes_of_ascii "
//	t
{
    // `tick` ""quote"" 'q'
    [
""" ++ [28040; 24687]%N ++ runes_of_ascii """ ,
    0123456789 ]:packetx,
//
// c
4294967296
    : Logon ,	[ ""\n""
    ,""x y"" , // " ++ [128512]%N ++ runes_of_ascii " emoji
""packet"" , ""packet"" ] : i8i8 , 42 // `tick` ""quote"" 'q'
:Foo
    ,
}, //	t
@calculatedFrom( ""x y""	) f64 Logon ,} options
    {
    // " ++ [128512]%N ++ runes_of_ascii " emoji
    chars=
' '
    ; repeatCount =
""" ++ [233]%N ++ runes_of_ascii "t" ++ [233]%N ++ runes_of_ascii """ x	= ""\n"" ; calculatedFrom = ""`tick`"" //x
; }
")).
Eval vm_compute in ("<<<M1806>>>" ++ check (runes_of_ascii "root packet body {
    @lengthOf(int)
    string tag,
    Pad BodyLength,
    Z9_ {
        /// triple
        u ``,
        zchar[7] u,
    },
    uint64 calculatedFrom,
}

packet msg_type {
    match f32a as pack {
        ""// no comment"" : trueish,
    },
    @calculatedFrom(""abc"")
    @leftPad(' ')
    @calculatedFrom("""")
    // c
    matchKey T,// `tick` ""quote"" 'q'
}")).
Eval vm_compute in ("<<<M1538>>>" ++ check (runes_of_ascii "
root packet
int{

match

MetaDataX 
as
    charz {
    255 :  uint8x	,  65535

    :  // @lengthOf(
	u128 ""\" ++ [233]%N ++ runes_of_ascii """  :	o
    ,
0123456789 :_x""{,}""
:

matchKey
        // `tick` ""quote"" 'q'
  // `tick` ""quote"" 'q'

[4294967296

    ,
    """"
, 
10
	]	: charz ,

}
	,
	@lengthOf(
roots 
)	x	@calculatedFrom(
""\n""
    )
, 
i32

tag ,  }

")).
Eval vm_compute in ("<<<M57>>>" ++ check (runes_of_ascii "packet	tag { }
packet falsey
    { string charz @lengthOf(
    zchar ) ,
string // trailing space 
u @calculatedFrom( """ ++ [233]%N ++ runes_of_ascii "t" ++ [233]%N ++ runes_of_ascii """	) `// not a comment`
, @leftPad( '0' )
char[] leftPad @calculatedFrom(
    ""a	b"")`// not a comment` , @calculatedFrom(
    ""`tick`"" )
    @lengthOf(roots
) repeat MetaDataX
, }

")).
Eval vm_compute in ("<<<M130>>>" ++ check (runes_of_ascii "packet zchar { @lengthOf( a1
// " ++ [128512]%N ++ runes_of_ascii " emoji
//	t
) i64_ @lengthOf( Header )
`" ++ [28040; 24687; 31867; 22411]%N ++ runes_of_ascii "`, charz`" ++ [233]%N ++ runes_of_ascii "` , char[007] i64_ , tag  { u16  matchKey // " ++ [27880; 37322]%N ++ runes_of_ascii "
,match Pad as lengthOf { [""CRC32"" ,	""abc""
] : Packet
,	}
, }
    , } MetaData body {char[
    10 ]u128
    `doc`
    ,
/// triple
//x
} //x")).
Eval vm_compute in ("<<<M267>>>" ++ check (runes_of_ascii "packet trueish{
@leftPad (// @lengthOf(
'0'  ) @tag(  3/// triple
) @tag(
7 ) repeat
//x
// @lengthOf(
matchKey
{ u32 u,
}  , @lengthOf( chars
) @calculatedFrom(
""a	b"") @tag( 0123456789
    )zchar[255 ]Pad ,  } root
    packet u { }
")).
Eval vm_compute in ("<<<M367>>>" ++ check (runes_of_ascii "
packet roots  { @calculatedFrom( ""a\\"" ) @lengthOf( packetx  ) match repeatCount
as body { 007:
    lengthOf ,
    00
    :// `tick` ""quote"" 'q'
zchar,} ,
char[] chars
`say ""hi""`,}
MetaData packetx
    {}
")).
Eval vm_compute in ("<<<M1933>>>" ++ check (runes_of_ascii "packet

A{	match

    k  as
n
    {
	[ 
""a"" 
,
""bb""
, ""c c""
,  ""d""

    ,	""e"" ,
""f"",

""g"", ""h""

    ,  ""i""	,
	""j""
	, 
""k""
,

    ""l""  ]:

    B  2
    :
    C  }
,
}")).
Eval vm_compute in ("<<<M1603>>>" ++ check (runes_of_ascii "packet A {
    match k as n {
        [
            1, 22, 4, 5, 7,
            8, 10, 11, ""c c"", ""f"",
            ""i"", ""l""
        ] : B,
        2 : C,
    },
}")).
Eval vm_compute in ("<<<M443>>>" ++ check (runes_of_ascii "packet uint8x
{ match pack
    as msg_type	{
    0123456789 :	@lengthOf(
}
,
} packet //	t
a1
    { } options {packetx
    = '\x00'	; u128= ""a	b""  ; }
")).
Eval vm_compute in ("<<<M471>>>" ++ check (runes_of_ascii "packet uint8x
{ match pack
    as msg_type	{
    0123456789 :	float
}
,
} packet //	t
a1
    { { } options {packetx
    = '\x00'	; u128= ""a	b""  ; }
")).
Eval vm_compute in ("<<<M393>>>" ++ check (runes_of_ascii "uint8x packet
{ match pack
    as msg_type	{
    0123456789 :	float
}
,
} packet //	t
a1
    { } options {packetx
    = '\x00'	; u128= ""a	b""  ; }
")).
Eval vm_compute in ("<<<M673>>>" ++ check (runes_of_ascii "// @lengthOf(
packet i8i8 { u128 o , }
options { MetaDataX = true;
    BodyLength =""packet"" x_y_z float64 007
crc //x
= ""abc"" ;
    msg_type =
i16 }")).
Eval vm_compute in ("<<<M394>>>" ++ check (runes_of_ascii "u32 uint8x
{ match pack
    as msg_type	{
    0123456789 :	float
}
,
} packet //	t
a1
    { } options {packetx
    = '\x00'	; u128= ""a	b""  ; }
")).
Eval vm_compute in ("<<<M391>>>" ++ check (runes_of_ascii " uint8x
{ match pack
    as msg_type	{
    0123456789 :	float
}
,
} packet //	t
a1
    { } options {packetx
    = '\x00'	; u128= ""a	b""  ; }
")).
Eval vm_compute in ("<<<M721>>>" ++ check (runes_of_ascii "// @lengthOf(
packet i8i8 { u128 o , }
options { MetaDataX = true;
    BodyLength =""packet"" x_y_z= 007
crc //x
= ""abc"" msg_type
    ; =
i16 }")).
Eval vm_compute in ("<<<M61>>>" ++ check (runes_of_ascii "packet
    i64_ { }
MetaData uint8x {Packet tag , u8	repeatCount
, x_y_z
_x `" ++ [233]%N ++ runes_of_ascii "`
    , zchar[
    42
    ]
    crc
`a\` ,
} options	{ }")).
Eval vm_compute in ("<<<M144>>>" ++ check (runes_of_ascii "  MetaData falsey {o i8i8
,char[]
pack  ,
float32 lengthOf , len //x
BodyLength, BodyLength o
, stringy  u128	`crlf
line` , } 	 ")).
Eval vm_compute in ("<<<M1564>>>" ++ check (runes_of_ascii "packet B {
    u8 a,
}

root packet P {
    u8 K,
    match K as Body {
        1 : B,
    },
    u16 L @lengthOf(Body),
}")).
Eval vm_compute in ("<<<M1158>>>" ++ check (runes_of_ascii "MetaData leftPad { chars MetaDataX , } packet
// c
repeatCount { char[ 255 ] uint8x `" ++ [233]%N ++ runes_of_ascii "` , } MetaData pack { As Foo , }")).
Eval vm_compute in ("<<<M39>>>" ++ check (runes_of_ascii "options { o =
    '\x00' // " ++ [128512]%N ++ runes_of_ascii " emoji
; T = u32 ; msg_type
// `tick` ""quote"" 'q'
//
= ""a	b""  a1 = '\x00'
}
// " ++ [128512]%N ++ runes_of_ascii " emoji
")).
Eval vm_compute in ("<<<M1601>>>" ++ check (runes_of_ascii "

  packet A
    {match

    k  as  n { [
	1
,
22	,""c c"",

4
,
5
, ""f"" 
,

7
] : B
,
2

    : C
	}	,

}")).
Eval vm_compute in ("<<<M142>>>" ++ check (runes_of_ascii "packet
len
    // " ++ [128512]%N ++ runes_of_ascii " emoji
    { int64 a1	@lengthOf(x_y_z )	, }
// c
// trailing space 
packet x_y_z { }

")).
Eval vm_compute in ("<<<M1691>>>" ++ check (runes_of_ascii "
packet A

    {

    match

k

as n { [ 1 ,
    22

,007

,
    4
	,	5 
]  :
B

    2: C} ,}
")).
Eval vm_compute in ("<<<M590>>>" ++ check (runes_of_ascii "
packet
    asx {match u128 as lengthOf
MetaData
//	t
// `tick` ""quote"" 'q'
255 : x ,
    } ,	}")).
Eval vm_compute in ("<<<M1757>>>" ++ check (runes_of_ascii "packet

    A {
	match

    k

    as
	n  {
1: 
B  // a

// b
2

:
    C

    }
	, } ")).
Eval vm_compute in ("<<<M631>>>" ++ check (runes_of_ascii "
packet
    asx {match u128 as lengthOf
{
//	t
// `tick` ""quote"" 'q'
255 %: x ,
    } ,	}")).
Eval vm_compute in ("<<<M1546>>>" ++ check (runes_of_ascii "packet A {
    match k as n {
        [1, 007, 5, ""bb"", ""d""] : B,
        2 : C,
    },
}")).
Eval vm_compute in ("<<<M1289>>>" ++ check (runes_of_ascii "
root

    packet

P
{repeat	string
    ss
    ,  repeat
    u16
ns
    ,

    }
")).
Eval vm_compute in ("<<<M1511>>>" ++ check (runes_of_ascii "packet A {
    match k as n {
        [22, ""a"", ""c c""] : B,
        2 : C,
    },
}")).
Eval vm_compute in ("<<<M1252>>>" ++ check (runes_of_ascii "packet Inner {
    u8 a,
}
root packet P {
    repeat Inner items,
    u8 x,
}
")).
Eval vm_compute in ("<<<M1484>>>" ++ check (runes_of_ascii "  options
    { // " ++ [128512]%N ++ runes_of_ascii " emoji

Packet 
= // `tick` ""quote"" 'q'

	char[ 3 ] }

")).
Eval vm_compute in ("<<<M1821>>>" ++ check (runes_of_ascii "packet
	A{ B
    b `a

b` 
,  B

    `a

b`	,
repeat  B
	bs `a

b` , }")).
Eval vm_compute in ("<<<M1280>>>" ++ check (runes_of_ascii "root packet P {
    u16 a,
    u32 Sum @calculatedFrom(""CRC32""),
}
")).
Eval vm_compute in ("<<<M365>>>" ++ check (runes_of_ascii "MetaData x_y_z { i8i8 u8x , string	uint8x
    `crlf
line` , }")).
Eval vm_compute in ("<<<M1628>>>" ++ check (runes_of_ascii "MetaData M {
    u8 x `tab
    	x`,
    T t `tab
    	x`,
}")).
Eval vm_compute in ("<<<M1198>>>" ++ check (runes_of_ascii "
// c
packet body { i32 f32a `{ , }` , } options { }")).
Eval vm_compute in ("<<<M1085>>>" ++ check (runes_of_ascii "packet A { B { // a
 u8 x, // b
 } // c
 , // d
 }")).
Eval vm_compute in ("<<<M1600>>>" ++ check (runes_of_ascii "packet A 
{

u8
x	`d 	`
    ,  // c 	
  }
")).
Eval vm_compute in ("<<<M1782>>>" ++ check (runes_of_ascii "
options{

a
	= ""\
""
;
b
=
""\
"" 
}
")).
Eval vm_compute in ("<<<M132>>>" ++ check (runes_of_ascii "options
    { Foo = 0123456789
; }")).
Eval vm_compute in ("<<<M1814>>>" ++ check (runes_of_ascii "packet A {
    u8 x `
    x`,
}")).
Eval vm_compute in ("<<<M381>>>" ++ check (runes_of_ascii "options{
int
=char[] ; }
//
")).
Eval vm_compute in ("<<<M326>>>" ++ check (runes_of_ascii "  options{// a // b
}

")).
Eval vm_compute in ("<<<M1108>>>" ++ check (runes_of_ascii "MetaData tag
// c
{ }")).
Eval vm_compute in ("<<<M95>>>" ++ check (runes_of_ascii "
packet  Logon {}
")).
Eval vm_compute in ("<<<M1046>>>" ++ check (runes_of_ascii "packet A {
}
// c" ++ [8203]%N)).
Eval vm_compute in ("<<<M1044>>>" ++ check (runes_of_ascii "packet A {
}// c" ++ [8203]%N)).
Eval vm_compute in ("<<<M99>>>" ++ check (runes_of_ascii "
 // " ++ [128512]%N ++ runes_of_ascii " emoji")).
Eval vm_compute in ("<<<M980>>>" ++ check (runes_of_ascii "// c" ++ [12288]%N)).
Eval vm_compute in ("<<<M737>>>" ++ check ([1875; 65533]%N)).
