From FP Require Import Lexer Parser ShowPT Digest Formatter.
From Coq Require Import String List NArith.
Import ListNotations.
Open Scope string_scope.
Set Printing Width 100000000.
Set Printing Depth 100000000.
Definition show_fres (r : fres) : string :=
  match r with
  | FOk s => "OK:" ++ sh_escaped s ""
  | FErr s => "ERR:" ++ sh_escaped s ""
  | FPanic p => "PANIC:" ++ p
  end.
Definition check (rs : list rune) : string := digest (show_fres (format_res rs)).
Definition full (rs : list rune) : string := show_fres (format_res rs).
Eval vm_compute in ("<<<M1591>>>" ++ check (runes_of_ascii "packet A {
    roots {
        repeat char[00] matchKey `crlf
                line`,
    },// @lengthOf(
    @tag(3)
    char[255] x,
    @leftPad('\x00')
    repeat uint16 crc,
    match u as pack {
        [""x y"", 4294967296] : roots,
        [1, 0] : _x,
        ""packet"" : T,
        255 : BodyLength,
        ""a	b"" : uint8x,
    },
    @rightPad('\x00')
    u64 tag,
}

packet trueish {
    match i64_ as Packet {
        ""packet"" : body,
        65535 : Pad,
        10 : packetx,
        3 : pack,
        00 : Header,
        3 : As,
        // packet A { u8 x, }
    },
    @lengthOf(MetaDataX)
    i8 stringy ``,
    @calculatedFrom(""`tick`"")
    @leftPad(' ')
    // `tick` ""quote"" 'q'
    char[] calculatedFrom @calculatedFrom(""// no comment""),
}

MetaData calculatedFrom {
    pack As,
    f32a calculatedFrom,
    int16 chars `say ""hi""`,
    uint16 msg_type `{ , }`,
    i32 o,
}

packet chars {
    lengthOf MetaDataX,
    string len @lengthOf(uint8x),
    @tag(0123456789)
    match stringy as x {
        10 : lengthOf,
    },
    @tag(7)
    @rightPad()
    @tag(00)
    uint16 crc,
    int8 trueish @lengthOf(stringy),
    repeat i64_,
    zchar[7] T @calculatedFrom(""a\""b"") `two words`,
    // a // b
    @tag(007)
    zchar[65535] MetaDataX @lengthOf(len) `" ++ [233]%N ++ runes_of_ascii "`,
    char metadata @lengthOf(lengthOf),
}

root packet matchKey {
    @calculatedFrom(""" ++ [28040; 24687]%N ++ runes_of_ascii """)
    repeat char[007] stringy,
    string a1 `doc`,
    zchar[7] A,
    @lengthOf(options1)
    //
    zchar[00] Foo `two words`,
    @calculatedFrom(""1"")
    @leftPad(' ')
    @leftPad(' ')
    repeat u8 options1,
    uint8 i64_ `" ++ [233]%N ++ runes_of_ascii "`,
    @tag(10)
    @lengthOf(i8i8)
    @lengthOf(i64_)
    //x
    match A as packetx {
        10 : asx,
        [""\n"", 65535, ""{,}"", 007, ""CRC32""] : metadata,
        00 : o,
    },
}")).
Eval vm_compute in ("<<<M1692>>>" ++ check (runes_of_ascii "
options	{
    StringPrefixLenType=  u16
	;
ArrayPrefixLenType
    = 
u16 ;

}
	packet SampleBinary	{
	uint16
	MsgType

    `" ++ [28040; 24687; 31867; 22411]%N ++ runes_of_ascii "`	,  u16
BodyLenght @lengthOf(  Body) `" ++ [28040; 24687; 20307; 38271; 24230]%N ++ runes_of_ascii "`
,
	match
MsgType as

    Body

    { 
1
: Logon
, 2 :
	Logout,  3	:
Heartbeat, 
4 :RiskControlRequest, 5 :RiskControlResponse
	,
    } , @calculatedFrom(
""CRC32"" )
u32
Ckecksum  `" ++ [26657; 39564; 21644]%N ++ runes_of_ascii "`
,}	packet	Logon
{ @leftPad

('0' )

    char[  10]	UserName
`" ++ [29992; 25143; 21517]%N ++ runes_of_ascii "`  ,	string
	Password	`" ++ [23494; 30721]%N ++ runes_of_ascii "`
, 
uint64
    ClientId`" ++ [23458; 25143; 31471]%N ++ runes_of_ascii "ID`

,u16
    HeartbeatInterval
`" ++ [24515; 36339; 38388; 38548]%N ++ runes_of_ascii "`	, }

    packet
    Logout 
{ @rightPad
(
'0'	) char[

    10
	]
	UserName `" ++ [29992; 25143; 21517]%N ++ runes_of_ascii "`	,

uint64

    ClientId
`" ++ [23458; 25143; 31471]%N ++ runes_of_ascii "ID`  ,}

packet
Heartbeat  {

    }

    packet  RiskControlRequest  {
string
	UniqueOrderId`" ++ [21807; 19968; 35746; 21333; 21495]%N ++ runes_of_ascii "`
,char[
	16 
]

    ClOrdID`" ++ [23458; 25143; 35746; 21333; 21495]%N ++ runes_of_ascii "`  ,char[
	3 
]
MarketID

`" ++ [24066; 22330]%N ++ runes_of_ascii "id` ,

char[	12

] SecurityID
    `" ++ [35777; 21048; 20195; 30721]%N ++ runes_of_ascii "`,
	char
	Side `" ++ [20080; 21334; 26041; 21521]%N ++ runes_of_ascii "`	,
    char 
OrderType `" ++ [35746; 21333; 31867; 22411]%N ++ runes_of_ascii "`
	,
u64
	Price  `" ++ [20215; 26684]%N ++ runes_of_ascii "`
	, u32 
Qty `" ++ [25968; 37327]%N ++ runes_of_ascii "`

,
	repeat
    string

ExtraInfo
	`" ++ [38468; 21152; 20449; 24687]%N ++ runes_of_ascii "`

    ,
	repeat 
SubOrder{

char[ 16
    ] ClOrdID

    `" ++ [23376; 35746; 21333; 21495]%N ++ runes_of_ascii "`
	,  u64 Price `" ++ [23376; 35746; 21333; 20215; 26684]%N ++ runes_of_ascii "`  ,  u32
    Qty	`" ++ [23376; 35746; 21333; 25968; 37327]%N ++ runes_of_ascii "`
	, }
, }packet
RiskControlResponse  {
string
	UniqueOrderId

    `" ++ [21807; 19968; 35746; 21333; 21495]%N ++ runes_of_ascii "`
	,	i32
Status `" ++ [29366; 24577]%N ++ runes_of_ascii "` ,
string Msg  `" ++ [32467; 26524; 20449; 24687]%N ++ runes_of_ascii "`,
repeat	Detail  ,}packet
Detail { string

RuleName

`" ++ [35268; 21017; 21517; 31216]%N ++ runes_of_ascii "`

    ,u16	Code
	`" ++ [21407; 22240; 20195; 30721]%N ++ runes_of_ascii "` 
,
    } ")).
Eval vm_compute in ("<<<M383>>>" ++ check (runes_of_ascii "options {
	StringPrefixLenType = u16;
	ArrayPrefixLenType = u16;
}

packet SampleBinary {
	uint16 MsgType `" ++ [28040; 24687; 31867; 22411]%N ++ runes_of_ascii "`,
	u16 BodyLenght @lengthOf(Body) `" ++ [28040; 24687; 20307; 38271; 24230]%N ++ runes_of_ascii "`,
	match MsgType as Body {
		1 : Logon,
		2 : Logout,
		3 : Heartbeat,
		4 : RiskControlRequest,
		5 : RiskControlResponse,
	},
	@calculatedFrom(""CRC32"")
	u32 Ckecksum `" ++ [26657; 39564; 21644]%N ++ runes_of_ascii "`,
}

packet Logon {
	@leftPad('0')
	char[10] UserName `" ++ [29992; 25143; 21517]%N ++ runes_of_ascii "`,
	string Password `" ++ [23494; 30721]%N ++ runes_of_ascii "`,
	uint64 ClientId `" ++ [23458; 25143; 31471]%N ++ runes_of_ascii "ID`,
	u16 HeartbeatInterval `" ++ [24515; 36339; 38388; 38548]%N ++ runes_of_ascii "`,
}

packet Logout {
	@rightPad('0')
	char[10] UserName `" ++ [29992; 25143; 21517]%N ++ runes_of_ascii "`,
	uint64 ClientId `" ++ [23458; 25143; 31471]%N ++ runes_of_ascii "ID`,
}

packet Heartbeat {
}

packet RiskControlRequest {
	string UniqueOrderId `" ++ [21807; 19968; 35746; 21333; 21495]%N ++ runes_of_ascii "`,
	char[16] ClOrdID `" ++ [23458; 25143; 35746; 21333; 21495]%N ++ runes_of_ascii "`,
	char[3] MarketID `" ++ [24066; 22330]%N ++ runes_of_ascii "id`,
	char[12] SecurityID `" ++ [35777; 21048; 20195; 30721]%N ++ runes_of_ascii "`,
	char Side `" ++ [20080; 21334; 26041; 21521]%N ++ runes_of_ascii "`,
	char OrderType `" ++ [35746; 21333; 31867; 22411]%N ++ runes_of_ascii "`,
	u64 Price `" ++ [20215; 26684]%N ++ runes_of_ascii "`,
	u32 Qty `" ++ [25968; 37327]%N ++ runes_of_ascii "`,
	repeat string ExtraInfo `" ++ [38468; 21152; 20449; 24687]%N ++ runes_of_ascii "`,
	repeat SubOrder {
		char[16] ClOrdID `" ++ [23376; 35746; 21333; 21495]%N ++ runes_of_ascii "`,
		u64 Price `" ++ [23376; 35746; 21333; 20215; 26684]%N ++ runes_of_ascii "`,
		u32 Qty `" ++ [23376; 35746; 21333; 25968; 37327]%N ++ runes_of_ascii "`,
	},
}

packet RiskControlResponse {
	string UniqueOrderId `" ++ [21807; 19968; 35746; 21333; 21495]%N ++ runes_of_ascii "`,
	i32 Status `" ++ [29366; 24577]%N ++ runes_of_ascii "`,
	string Msg `" ++ [32467; 26524; 20449; 24687]%N ++ runes_of_ascii "`,
	repeat Detail,
}

packet Detail {
	string RuleName `" ++ [35268; 21017; 21517; 31216]%N ++ runes_of_ascii "`,
	u16 Code `" ++ [21407; 22240; 20195; 30721]%N ++ runes_of_ascii "`,
}")).
Eval vm_compute in ("<<<M145>>>" ++ check (runes_of_ascii "options
{ }
root packet tag{ @calculatedFrom(
    // @lengthOf(
    ""packet"" ) u128 @lengthOf(zchar
) ,
    } packet _x { @calculatedFrom( ""a\\"" )//
@rightPad (	' ' ) As , zchar// c
@calculatedFrom( """ ++ [233]%N ++ runes_of_ascii "t" ++ [233]%N ++ runes_of_ascii """ ) `tab	here` // trailing space 
, @tag(007 ) @lengthOf( //	t
zchar ) // packet A { u8 x, }
string crc
,string u128
    // c
    @calculatedFrom(
    ""packet""
//
// `tick` ""quote"" 'q'
)// c
,
    repeat uint64 asx, @lengthOf( zchar) lengthOf
{
string
trueish `// not a comment`
    , }	,
// trailing space 
// `tick` ""quote"" 'q'
@tag(0) u128 { repeat f64 /// triple
crc
``
, char[
3 ] Foo`crlf
line` , repeat
//x
// @lengthOf(
float uint8x
,
char[
10 ] msg_type
`u8 x,`, }// packet A { u8 x, }
,
uint64	string_,
packetx matchKey
, // 50% %s
@leftPad
    (' ' ) repeat zchar[ // @lengthOf(
255  ]
    Z9_,} MetaData crc {calculatedFrom
body `// not a comment`
    ,i64_
i8i8 , o options1  `u8 x,` , char[
10 ] pack , }
// a // b
")).
Eval vm_compute in ("<<<M1699>>>" ++ check (runes_of_ascii "
options
    {
_x =

    '0' 
    // a // b

// packet A { u8 x, }
	;
    Logon

=
false 
} packet
A
    { } packet //
  Logon
{ 
@leftPad(
	' '
)
    repeat
	repeatCount
	{

stringy

    @lengthOf( 
  // " ++ [27880; 37322]%N ++ runes_of_ascii "
// trailing space 

	len // @lengthOf(
)	`say ""hi""` ,

repeat metadata
`u8 x,`

,  match
	x	as 
int
    {[""`tick`"" , 7

] // trailing space 
		:

    BodyLength,  255 :packetx
42	// " ++ [128512]%N ++ runes_of_ascii " emoji
    :
    _x,	}

, } ,
@rightPad ('0'
	) @leftPad ( ' ' )
@tag(	65535
    )
Header

    `{ , }`

    , int16  // trailing space 
  stringy @lengthOf( // " ++ [128512]%N ++ runes_of_ascii " emoji
	  calculatedFrom

)

    , repeat  MetaDataX
{ 
x_y_z 
, repeat 	 //
calculatedFrom o

    `doc`
	,string_
    repeatCount 
,
rootA

{
repeatCount  @calculatedFrom( ""\" ++ [233]%N ++ runes_of_ascii """) `tab	here` ,
}  ,	}
, } ")).
Eval vm_compute in ("<<<M132>>>" ++ check (runes_of_ascii "// @lengthOf(
packet x_y_z { float32 T
    @lengthOf( int)// c
, @tag( //	t
255 ) @calculatedFrom( ""\n"")
    lengthOf { repeat Packet repeatCount
    ,} , char[ 0]body
`two words`  ,
o// a // b
`a\`
    , @tag(1) repeat	Foo lengthOf//	t
,
repeat lengthOf {
    string_ @lengthOf(
// packet A { u8 x, }
// trailing space 
x_y_z
    // " ++ [128512]%N ++ runes_of_ascii " emoji
    )
    , repeat asx {
    int16 float
    @calculatedFrom( ""CRC32"" ) ,
} ,//
i8 leftPad@calculatedFrom(""\n""
)
`// not a comment`	,} , char[
    00 ]u ,	match a1 as roots
// `tick` ""quote"" 'q'
// `tick` ""quote"" 'q'
{//
[ """ ++ [28040; 24687]%N ++ runes_of_ascii """ ,""// no comment""	, /// triple
""1"",	0 ] // a // b
: calculatedFrom
,  } , } options  { metadata =char[] }
")).
Eval vm_compute in ("<<<M274>>>" ++ check (runes_of_ascii "packet x_y_z {
    @tag(1 ) string	u
@calculatedFrom(
""`tick`"" ) ,
} packet	chars { char[ 00 ]
    crc `two words`
, @lengthOf( calculatedFrom ) uint64 _x`
`
    // " ++ [27880; 37322]%N ++ runes_of_ascii "
    , match Logon
as falsey
{[	""`tick`"" , ""\n"" ,
007 //	t
, 007
, 1, 3
    , ""it's""]
: options1  , [42 , """ ++ [28040; 24687]%N ++ runes_of_ascii """ ] : msg_type
, 007
    : string_ , } ,// 50% %s
repeatCount lengthOf, @tag( 007
    )
    Pad , } packet
A	{	@calculatedFrom( ""CRC32"" ) @lengthOf( zchar ) repeatCount {
zchar[
0 ] stringy `two words` ,	} //
, i16 falsey
,match A // @lengthOf(
as tag
{ 3 :i64_ , [0123456789  ]
    : chars
, 7 :  options1 ,} , }")).
Eval vm_compute in ("<<<M51>>>" ++ check (runes_of_ascii "options {lengthOf // " ++ [128512]%N ++ runes_of_ascii " emoji
=// `tick` ""quote"" 'q'
true ; string_ =
    ""a\\"" ;}
root packet zchar
{string_ // " ++ [27880; 37322]%N ++ runes_of_ascii "
{ match
//
//x
x as string_{
    //	t
    0: zchar  ,
} ,
    }
    ,	@calculatedFrom(	""CRC32"" ) @tag( 42
) repeat
char[
    4294967296 ] u `say ""hi""` ,
    // 50% %s
    @tag( 3 )  @leftPad ( ' ' ) @tag( // `tick` ""quote"" 'q'
42	) match Header
as A { 42 : Logon ,  } ,
@tag(
4294967296
)i64_ `doc` ,} root packet
x_y_z { @calculatedFrom( ""// no comment"" ) @leftPad ( ) @lengthOf( int)//	t
u8x `" ++ [28040; 24687; 31867; 22411]%N ++ runes_of_ascii "`
    ,
    }
")).
Eval vm_compute in ("<<<M1796>>>" ++ check (runes_of_ascii "// top

	packet 	 // c0
      B 	 // c1
      {  
      // c2
  u8	a	// c4

  ,
    // c5
    } // c6a
    // c6b
	root 
  // c7
  packet  // c8a
	// c8b
  P  // c9a
	// c9b
    {
	u8 K // c12a
  // c12b
, // c13
    u64 // c14a
  // c14b
    L	// c15

@lengthOf(	// c16
		Body	// c17
)  // c18
	, match// c20a
  // c20b
    K // c21
as	// c22
  Body
{  // c24a
    	// c24b
  1	// c25a

// c25b
      :  // c26
B
, // c28a
	// c28b
	}  ,	// c30a
    	// c30b
	}  // c31a
// c31b
")).
Eval vm_compute in ("<<<M322>>>" ++ check (runes_of_ascii "// `tick` ""quote"" 'q'
root packet uint8x {@leftPad	() matchKey@lengthOf(repeatCount ),
    // @lengthOf(
    @tag( 10 ) zchar[ 65535 ] u
    , char[]
x_y_z ,char[] /// triple
tag @calculatedFrom( ""a\""b"") ,
@tag(	65535)
@calculatedFrom(
""a	b"" // 50% %s
)
    @calculatedFrom( ""`tick`""
) body @lengthOf(
    falsey ) //	t
``, @calculatedFrom(	""" ++ [28040; 24687]%N ++ runes_of_ascii """
    // `tick` ""quote"" 'q'
    )  @calculatedFrom( ""a\""b"")
Pad , u16
matchKey
    /// triple
    , }")).
Eval vm_compute in ("<<<M1609>>>" ++ check (runes_of_ascii "  packet 
NewOrder{
u32
    qty
,} 
packet	Cancel
    {

u64

    id , }
packet 
Business

{
u8

Kind ,
    match Kind	as

Detail

{ 1
:
NewOrder
, 2
: 
Cancel , }
, } 
packet
    TcpFrame
{
u8
	T , match
T

as Body

    { 
1	:
	Business

    ,  } , }	packet

UdpFrame
{u8
U ,	match
U as Body{  1

    :

Business
    ,}
    , Business extra
,	}
root packet
    Wire {

TcpFrame

    , UdpFrame
,

    }
")).
Eval vm_compute in ("<<<M1662>>>" ++ check (runes_of_ascii "packet int {
    uint16 BodyLength,
    zchar[255] charz `100% of %d`,
    Logon @lengthOf(MetaDataX),
}

packet a1 {
    match pack as msg_type {
        10 : float,
        """ ++ [233]%N ++ runes_of_ascii "t" ++ [233]%N ++ runes_of_ascii """ : charz,
        4294967296 : Foo,
        """ ++ [233]%N ++ runes_of_ascii "t" ++ [233]%N ++ runes_of_ascii """ : u128,
    },
    repeat Pad {
        repeat Foo {
            uint64 Header,
            repeat roots rootA `say ""hi""`,
        },
    },
}

packet Header {
}")).
Eval vm_compute in ("<<<M1448>>>" ++ check (runes_of_ascii "packet string_ {
    @tag(4294967296)
    repeat u `crlf
    line`,
    repeat zchar[0] BodyLength,
    @tag(255)
    int `say ""hi""`,
    uint8x `u8 x,`,
    @leftPad(' ')
    string MetaDataX @lengthOf(options1),
    zchar[00] charz `" ++ [28040; 24687; 31867; 22411]%N ++ runes_of_ascii "`,
    @calculatedFrom(""" ++ [128512]%N ++ runes_of_ascii """)
    _x calculatedFrom,
    uint8 packetx `it's`,
    @leftPad()
    zchar[0] Foo `a\`,
}")).
Eval vm_compute in ("<<<M1442>>>" ++ check (runes_of_ascii "// top
MetaData x {
    // c2
    f32a Pad ``,// c6a
    // c6b
}

// c7
packet leftPad {
    // c10a
    // c10b
    repeat int64 crc,// c14a
    // c14b
    BodyLength {
        // c16
        uint8 pack `say ""hi""`,
        // c20
        lengthOf @lengthOf(asx) `" ++ [28040; 24687; 31867; 22411]%N ++ runes_of_ascii "`,
        // c26
    },// c28
}// c29a
// c29b")).
Eval vm_compute in ("<<<M1843>>>" ++ check (runes_of_ascii "root  packet

_x { 
uint32 	 //	t
	trueish
	@calculatedFrom(""1""
	)
    `tab	here` 
,
	}

    packet 
Header {	repeat
    u64  stringy `u8 x,`
,
float32

    msg_type, repeat
x_y_z  crc

`two words`

    ,

    zchar[// c
    007
    ]
Packet,
	string  asx
	`say ""hi""` 
, }

")).
Eval vm_compute in ("<<<M1723>>>" ++ check (runes_of_ascii "// top
options {
    // c1
    f32a = 0
    // c4
}

// c5
packet trueish {
    // c8
}

// c9
MetaData _x {
    // c12
    char[0123456789] zchar,
    // c17
    string crc,
    // c20
    char[1] options1,
    // c25
    uint8 repeatCount,
    // c28
}
// c29")).
Eval vm_compute in ("<<<M1880>>>" ++ check (runes_of_ascii "MetaData calculatedFrom {
    /// triple
    matchKey packetx,
    float32 u128,// `tick` ""quote"" 'q'
}

MetaData uint8x {
    //	t
    zchar[65535] As ``,
    char[255] T `doc`,
    zchar[255] int,
    float64 i64_ `tab	here`,
    char[] len,
}")).
Eval vm_compute in ("<<<M530>>>" ++ check (runes_of_ascii "packet
    ~ asx { @calculatedFrom(
""""  ) @tag( 255 )repeat
// packet A { u8 x, }
// trailing space 
int16 u8x
,
@tag(
    //
    007 )
    @tag( 0
    /// triple
    ) @tag( 1) u
    @lengthOf( T ),
// `tick` ""quote"" 'q'
//x
} // " ++ [128512]%N ++ runes_of_ascii " emoji")).
Eval vm_compute in ("<<<M454>>>" ++ check (runes_of_ascii "packet
    asx { @calculatedFrom(
""""  ) @tag( 255 )repeat
// packet A { u8 x, }
// trailing space 
int16 u8x
,
uint8
    //
    007 )
    @tag( 0
    /// triple
    ) @tag( 1) u
    @lengthOf( T ),
// `tick` ""quote"" 'q'
//x
} // " ++ [128512]%N ++ runes_of_ascii " emoji")).
Eval vm_compute in ("<<<M496>>>" ++ check (runes_of_ascii "packet
    asx { @calculatedFrom(
""""  ) @tag( 255 )repeat
// packet A { u8 x, }
// trailing space 
int16 u8x
,
@tag(
    //
    007 )
    @tag( 0
    /// triple
    ) @tag( 1) 
    @lengthOf( T ),
// `tick` ""quote"" 'q'
//x
} // " ++ [128512]%N ++ runes_of_ascii " emoji")).
Eval vm_compute in ("<<<M323>>>" ++ check (runes_of_ascii "
root
packet int{ @tag( 0) @tag( 007 )
@tag( 255
) match i8i8 as
//	t
// 50% %s
_x { ""\" ++ [233]%N ++ runes_of_ascii """ : //
i64_ 42 :
    asx , 0123456789:Logon 65535 // `tick` ""quote"" 'q'
:  calculatedFrom ,""" ++ [233]%N ++ runes_of_ascii "t" ++ [233]%N ++ runes_of_ascii """ // c
:u
    },
    /// triple
    }
")).
Eval vm_compute in ("<<<M1548>>>" ++ check (runes_of_ascii "MetaData trueish {
    string u,
    // @lengthOf(
    //x
    pack Pad `say ""hi""`,// a // b
    int32 tag,
    u8 asx,// 50% %s
    i32 len,
    int int `100% of %d`,
}

MetaData falsey {
}
// @lengthOf(")).
Eval vm_compute in ("<<<M1343>>>" ++ check (runes_of_ascii "packet u128 {
    u8 a,
}
root packet Msg {
    u8 k,
    u24 {
        u8 Hi,
        u16 Lo,
    },
    repeat i24 {
        u32 q,
    },
    u128,
    u16 float32x,
    string s,
}
")).
Eval vm_compute in ("<<<M567>>>" ++ check (runes_of_ascii "MetaData u
    { } MetaData MetaData o
{ float uint8x
`100% of %d` ,repeatCount u8x, string_ leftPad
, i32
    Foo , int64 x `two words` , calculatedFrom
stringy `a\` ,
}
")).
Eval vm_compute in ("<<<M688>>>" ++ check (runes_of_ascii "MetaData u
    { } MetaData o
{ float uint8x
`100% of %d` ,repeatCount u8x, string_ leftPad
, i32
    Foo , int64 x `two words` , calculatedFrom
stringy `a\` ,
char
")).
Eval vm_compute in ("<<<M695>>>" ++ check (runes_of_ascii "MetaData u
    { } MetaData o
{ float uint8x
`100% of %d` ,re~peatCount u8x, string_ leftPad
, i32
    Foo , int64 x `two words` , calculatedFrom
stringy `a\` ,
}
")).
Eval vm_compute in ("<<<M643>>>" ++ check (runes_of_ascii "MetaData u
    { } MetaData o
{ float uint8x
`100% of %d` ,repeatCount u8x, string_ leftPad
, i32
    Foo int64 , x `two words` , calculatedFrom
stringy `a\` ,
}
")).
Eval vm_compute in ("<<<M634>>>" ++ check (runes_of_ascii "MetaData u
    { } MetaData o
{ float uint8x
`100% of %d` ,repeatCount u8x, string_ leftPad
, =
    Foo , int64 x `two words` , calculatedFrom
stringy `a\` ,
}
")).
Eval vm_compute in ("<<<M352>>>" ++ check (runes_of_ascii "MetaData crc
    // " ++ [128512]%N ++ runes_of_ascii " emoji
    { packetx repeatCount  ,
    f32a As //x
`line1
line2`, crc len `line1
line2` , zchar[ 0123456789 ] uint8x , zchar[0 ]As, }
")).
Eval vm_compute in ("<<<M1556>>>" ++ check (runes_of_ascii "packet crc {
    repeat Foo A,
    @lengthOf(uint8x)
    string matchKey @lengthOf(stringy) `a\`,
    // c
}

MetaData chars {
    leftPad crc `" ++ [233]%N ++ runes_of_ascii "`,
}")).
Eval vm_compute in ("<<<M1797>>>" ++ check (runes_of_ascii "// top
packet Inner {
    // c2
    u8 a,
    // c5
}

// c6
root packet P {
    // c10a
    // c10b
    Inner ref_obj,
    u8 x,
}// c17")).
Eval vm_compute in ("<<<M1540>>>" ++ check (runes_of_ascii "

  options {
	}

options{	MetaDataX	=
char	;
}	MetaData	Pad {i8
	metadata

    , 
string stringy ,
	int8
As
	`{ , }` ,// c
}
")).
Eval vm_compute in ("<<<M1940>>>" ++ check (runes_of_ascii "packet B {
    u8 a,
}

root packet P {
    u8 K,
    match K as Body {
        1 : B,
    },
    u16 L @lengthOf(Body),
}")).
Eval vm_compute in ("<<<M1968>>>" ++ check (runes_of_ascii "packet A {
    u16 len @lengthOf(body) `x
    `,
    u32 crc @calculatedFrom(""CRC32"") `x
    `,
    string body,
}")).
Eval vm_compute in ("<<<M1232>>>" ++ check (runes_of_ascii "options { } options { MetaDataX = char ; } MetaData Pad { i8 metadata
// c
, string stringy , int8 As `{ , }` , }")).
Eval vm_compute in ("<<<M1901>>>" ++ check (runes_of_ascii "options {
    LittleEndian = true;
}

root packet P {
    u16 a,
    u32 Sum @calculatedFrom(""CR\
    C32""),
}")).
Eval vm_compute in ("<<<M373>>>" ++ check (runes_of_ascii "
MetaData //x
o {
i8
    lengthOf `two words` , msg_type MetaDataX ``
, /// triple
u32 int `a\` , }")).
Eval vm_compute in ("<<<M1280>>>" ++ check (runes_of_ascii "  packet 
B  {
u8 a  , string  s ,
} root packet P
	{	u16
L@lengthOf(

    B
),B 
,	u8

t

,

}")).
Eval vm_compute in ("<<<M869>>>" ++ check (runes_of_ascii "packet A {
  match k as n {
    [""a"", 22, ""c c"", 4, ""e"", 66, ""g"", 8, ""i""] : B,
    2 : C
  },
}")).
Eval vm_compute in ("<<<M249>>>" ++ check (runes_of_ascii "MetaData charz
{
    pack MetaDataX
    , falsey crc  , u32
    u `// not a comment`
,}
")).
Eval vm_compute in ("<<<M844>>>" ++ check (runes_of_ascii "packet A {
  match k as n {
    [""a"", 22, ""c c"", 4, ""e"", 66, ""g""] : B
    2 : C
  },
}")).
Eval vm_compute in ("<<<M527>>>" ++ check (runes_of_ascii "packet
    asx { @calculatedFrom(
""""  ) @tag( 255 )repeat
// packet A { u8 x, }
/")).
Eval vm_compute in ("<<<M1263>>>" ++ check (runes_of_ascii "packet Inner {
    u8 a,
}
root packet P {
    repeat Inner items,
    u8 x,
}
")).
Eval vm_compute in ("<<<M809>>>" ++ check (runes_of_ascii "packet A {
  match k as n {
    [""a"", ""bb"", 007, ""d""] : B
    2 : C
  },
}")).
Eval vm_compute in ("<<<M79>>>" ++ check (runes_of_ascii "root  packet Packet {
match
    f32a	as Foo// " ++ [27880; 37322]%N ++ runes_of_ascii "
{
1 :
    tag ,	} ,
}")).
Eval vm_compute in ("<<<M940>>>" ++ check (runes_of_ascii "packet A {
    B b `a

b`,
    B `a

b`,
    repeat B bs `a

b`,
}")).
Eval vm_compute in ("<<<M937>>>" ++ check (runes_of_ascii "MetaData M {
    u8 x `a
    b
  c`,
    T t `a
    b
  c`,
}")).
Eval vm_compute in ("<<<M1107>>>" ++ check (runes_of_ascii "packet A { @tag(1) // a
 @leftPad('0') // b
 char[4] x, }")).
Eval vm_compute in ("<<<M1098>>>" ++ check (runes_of_ascii "packet A { u8 x, } // a
// b
packet B {} // c
// d")).
Eval vm_compute in ("<<<M1573>>>" ++ check (runes_of_ascii "  MetaData  rootA

    {options1
a1 ,
	}

")).
Eval vm_compute in ("<<<M1704>>>" ++ check (runes_of_ascii "root packet P {
    char c,
    u8 x,
}")).
Eval vm_compute in ("<<<M1183>>>" ++ check (runes_of_ascii "options // c
{ A = ""// no comment"" }")).
Eval vm_compute in ("<<<M1109>>>" ++ check (runes_of_ascii "packet A { @tag( // a
 1 ) u8 x, }")).
Eval vm_compute in ("<<<M745>>>" ++ check (runes_of_ascii "as u8 char float64 u16 : uint64")).
Eval vm_compute in ("<<<M1457>>>" ++ check (runes_of_ascii "MetaData  tag
	{
	// c
		} ")).
Eval vm_compute in ("<<<M1926>>>" ++ check (runes_of_ascii "  // c" ++ [8239]%N ++ runes_of_ascii "
  packet A
{  }

")).
Eval vm_compute in ("<<<M1130>>>" ++ check (runes_of_ascii "MetaData tag { } // c
")).
Eval vm_compute in ("<<<M1005>>>" ++ check (runes_of_ascii "packet A {
}
// c" ++ [160]%N)).
Eval vm_compute in ("<<<M1166>>>" ++ check (runes_of_ascii "
// c
packet x { }")).
Eval vm_compute in ("<<<M1873>>>" ++ check (runes_of_ascii "packet x {
}
// c")).
Eval vm_compute in ("<<<M764>>>" ++ check (runes_of_ascii "Ldg$cJ:9=")).
Eval vm_compute in ("<<<M170>>>" ++ check (runes_of_ascii " 	 ")).
