From FP Require Import PT Flatten ShowPT Visitor VisitorShow Faults Spelling NoPanic.
From FP Require BModel.
From Coq Require Import String List NArith.
Import ListNotations.
Open Scope string_scope.
Set Printing Width 100000000.
Set Printing Depth 100000000.
Fixpoint bs (l : list nat) : string := match l with [] => EmptyString | n :: r => String (Ascii.ascii_of_nat n) (bs r) end.
Definition T_ (b : bool) : string := if b then "T" else "F".
Definition t52 : pt := (mkPacket (mkPtok 35 "packet" 1 0 0) (Some (mkPtok 3 "}" 1 75 30)) [(DPacket (mkPacketDef (mkSpan (mkPtok 35 "packet" 1 0 0) (mkPtok 3 "}" 1 17 6)) None (mkPtok 35 "packet" 1 0 0) (mkPtok 42 "B" 1 7 1) (mkPtok 2 "{" 1 9 2) [(mkFieldWithAttr (mkSpan (mkPtok 20 "u8" 1 11 3) (mkPtok 40 "," 1 15 5)) [] (MetaField (mkSpan (mkPtok 20 "u8" 1 11 3) (mkPtok 40 "," 1 15 5)) None (mkMetaDecl (mkSpan (mkPtok 20 "u8" 1 11 3) (mkPtok 40 "," 1 15 5)) (TyBasic (mkSpan (mkPtok 20 "u8" 1 11 3) (mkPtok 20 "u8" 1 11 3)) (mkBasicType (mkSpan (mkPtok 20 "u8" 1 11 3) (mkPtok 20 "u8" 1 11 3)) (mkPtok 20 "u8" 1 11 3))) (mkPtok 42 "x" 1 14 4) None (mkPtok 40 "," 1 15 5))))] (mkPtok 3 "}" 1 17 6))); (DPacket (mkPacketDef (mkSpan (mkPtok 34 "root" 1 19 7) (mkPtok 3 "}" 1 75 30)) (Some (mkPtok 34 "root" 1 19 7)) (mkPtok 35 "packet" 1 24 8) (mkPtok 42 "A" 1 31 9) (mkPtok 2 "{" 1 33 10) [(mkFieldWithAttr (mkSpan (mkPtok 20 "u8" 1 35 11) (mkPtok 40 "," 1 39 13)) [] (MetaField (mkSpan (mkPtok 20 "u8" 1 35 11) (mkPtok 40 "," 1 39 13)) None (mkMetaDecl (mkSpan (mkPtok 20 "u8" 1 35 11) (mkPtok 40 "," 1 39 13)) (TyBasic (mkSpan (mkPtok 20 "u8" 1 35 11) (mkPtok 20 "u8" 1 35 11)) (mkBasicType (mkSpan (mkPtok 20 "u8" 1 35 11) (mkPtok 20 "u8" 1 35 11)) (mkPtok 20 "u8" 1 35 11))) (mkPtok 42 "k" 1 38 12) None (mkPtok 40 "," 1 39 13)))); (mkFieldWithAttr (mkSpan (mkPtok 38 "match" 1 41 14) (mkPtok 40 "," 1 73 29)) [] (MatchField (mkSpan (mkPtok 38 "match" 1 41 14) (mkPtok 40 "," 1 73 29)) (mkMatchFieldDecl (mkSpan (mkPtok 38 "match" 1 41 14) (mkPtok 3 "}" 1 72 28)) (mkPtok 38 "match" 1 41 14) (mkPtok 42 "k" 1 47 15) (mkPtok 17 "as" 1 49 16) (mkPtok 42 "m" 1 52 17) (mkPtok 2 "{" 1 54 18) [(mkMatchPair (mkSpan (mkPtok 18 "[" 1 56 19) (mkPtok 42 "B" 1 70 27)) (MKList (mkKeyList (mkSpan (mkPtok 18 "[" 1 56 19) (mkPtok 13 "]" 1 66 25)) (mkPtok 18 "[" 1 56 19) (mkPtok 30 "1" 1 57 20) [((mkPtok 40 "," 1 58 21), (mkPtok 31 """a""" 1 60 22)); ((mkPtok 40 "," 1 63 23), (mkPtok 30 "2" 1 65 24))] (mkPtok 13 "]" 1 66 25))) (mkPtok 39 ":" 1 68 26) (mkPtok 42 "B" 1 70 27) None)] (mkPtok 3 "}" 1 72 28)) (mkPtok 40 "," 1 73 29)))] (mkPtok 3 "}" 1 75 30)))]).
Eval vm_compute in ("<<<W52_alias_short>>>" ++ sh_escaped (render (rw_alias_short t52)) "").
Eval vm_compute in ("<<<W52_alias_long>>>" ++ sh_escaped (render (rw_alias_long t52)) "").
Eval vm_compute in ("<<<W52_alias_long_opts>>>" ++ sh_escaped (render (rw_alias_long_opts t52)) "").
Eval vm_compute in ("<<<W52_zchar>>>" ++ sh_escaped (render (rw_zchar t52)) "").
Eval vm_compute in ("<<<W52_drop_default_pad>>>" ++ sh_escaped (render (rw_drop_default_pad t52)) "").
Eval vm_compute in ("<<<W52_add_default_pad>>>" ++ sh_escaped (render (rw_add_default_pad t52)) "").
Eval vm_compute in ("<<<W52_prefix_attr>>>" ++ sh_escaped (render (rw_prefix_attr t52)) "").
Eval vm_compute in ("<<<W52_default_options>>>" ++ sh_escaped (render (rw_default_options t52)) "").
Eval vm_compute in ("<<<W52_expand_keys>>>" ++ sh_escaped (render (rw_expand_keys t52)) "").
Eval vm_compute in ("<<<W52_inline_meta>>>" ++ sh_escaped (render (rw_inline_meta t52)) "").
Eval vm_compute in ("<<<W52_seps_all>>>" ++ sh_escaped (render (rw_seps_all t52)) "").
Eval vm_compute in ("<<<W52_seps_none>>>" ++ sh_escaped (render (rw_seps_none t52)) "").
Eval vm_compute in ("<<<W52_drop_docs>>>" ++ sh_escaped (render (rw_drop_docs t52)) "").
