From FP Require Import Lexer Parser ShowPT Digest Formatter.
From Coq Require Import String List NArith.
Import ListNotations.
Open Scope string_scope.
Set Printing Width 100000000.
Set Printing Depth 100000000.
Definition show_fres (r : fres) : string :=
  match r with
  | FOk s => "OK:" ++ sh_escaped s ""
  | FErr s => "ERR:" ++ sh_escaped s ""
  | FPanic p => "PANIC:" ++ p
  end.
Definition check (rs : list rune) : string := digest (show_fres (format_res rs)).
Definition full (rs : list rune) : string := show_fres (format_res rs).
Eval vm_compute in ("<<<M1131>>>" ++ check (runes_of_ascii "
root packet stringy
{ @tag(10 )  string
len ``
    // @lengthOf(
    ,  float64 i64_ ,@calculatedFrom(""abc"" )@leftPad (
'\x00' )
repeat
    char[
    3 // @lengthOf(
]
Header, msg_type metadata`two words`
    , leftPad
    body `crlf
line`
,
string_ ,
    stringy
    { repeat metadata  {  repeat
    // trailing space 
    lengthOf ,}
, // packet A { u8 x, }
}
    ,
@lengthOf(	stringy ) u128@calculatedFrom( """ ++ [28040; 24687]%N ++ runes_of_ascii """  ), @calculatedFrom( ""a	b"") match crc
    as a1 { 42
    :
    Header , 3	: tag [ ""CRC32"" , ""packet""
]: f32a // packet A { u8 x, }
[ """ ++ [28040; 24687]%N ++ runes_of_ascii """, ""abc"" ,
65535 ,""" ++ [128512]%N ++ runes_of_ascii """ , 10
] :
pack, }
,zchar[ 10 ] calculatedFrom
    @calculatedFrom( ""\" ++ [233]%N ++ runes_of_ascii """
// " ++ [27880; 37322]%N ++ runes_of_ascii "
// " ++ [27880; 37322]%N ++ runes_of_ascii "
) `
` , } root packet falsey
    { @calculatedFrom( """ ++ [128512]%N ++ runes_of_ascii """ )
@lengthOf( falsey )
int @calculatedFrom( ""{,}"") ,
repeat matchKey f32a`{ , }` ,
    float64
    crc `doc`	, @calculatedFrom(""" ++ [128512]%N ++ runes_of_ascii """ )  matchKey  @calculatedFrom( """" )`u8 x,` ,	A , // c
string Z9_ @lengthOf(x //	t
) `u8 x,`	, zchar  @lengthOf(
rootA
)
`// not a comment` ,	options1 @lengthOf( packetx )  `a\`, // " ++ [128512]%N ++ runes_of_ascii " emoji
@lengthOf(leftPad) repeat u32 //
A,
} packet	Pad { @calculatedFrom( ""a\\"")
    // trailing space 
    @tag(
    65535)	@lengthOf(
u128
    ) f64 x
    `u8 x,`,@lengthOf( x_y_z )string	stringy @lengthOf(
    string_ )	,metadata
{match body  as rootA { 0  : o
,255 : uint8x // @lengthOf(
, [10 ]	: crc ,007
:msg_type
} //x
,} , msg_type
    @lengthOf(msg_type
    )	, @leftPad ( '0' )lengthOf @lengthOf( //	t
As ) `// not a comment` //
, /// triple
repeat
    zchar[1
    ] rootA  `// not a comment`
, @tag(	10  )
@leftPad( ) @lengthOf( stringy ) repeat body { // a // b
i8i8	@calculatedFrom( ""a	b""/// triple
)
    ,
    // " ++ [128512]%N ++ runes_of_ascii " emoji
    _x, repeat u8 Packet,
    } , i32 Logon , } packet// 50% %s
calculatedFrom { float32 rootA
`say ""hi""`
, } root packet packetx{ @tag( 3 )
    asx ,len { tag { repeat zchar[  0123456789]stringy`` , }
    /// triple
    ,Z9_ `
`
, Foo , repeat u8x
`// not a comment`
, } ,int64
body
    // 50% %s
    @calculatedFrom( ""a\\"" ) `it's` ,}")).
Eval vm_compute in ("<<<M835>>>" ++ check (runes_of_ascii "// trailing space 
packet a1 {string BodyLength @lengthOf( leftPad ) ,	int8 u128 @calculatedFrom(""1"") `it's`
    ,
@calculatedFrom( ""CRC32"" // " ++ [128512]%N ++ runes_of_ascii " emoji
) @rightPad
( )	repeat Z9_
, @calculatedFrom(
""" ++ [128512]%N ++ runes_of_ascii """
) char[] metadata
@calculatedFrom( //x
""a\""b"" )
, repeat
    msg_type u128 , @tag(
    255)  @leftPad ( )@lengthOf( f32a) repeat
    // " ++ [128512]%N ++ runes_of_ascii " emoji
    o , repeat i8i8 { repeat f32a float `// not a comment` ,
repeat char[ 0123456789 ] pack`{ , }`,A  `" ++ [28040; 24687; 31867; 22411]%N ++ runes_of_ascii "` , } , lengthOf { i64
    // 50% %s
    Foo ,}, // trailing space 
pack lengthOf ,
    } packet repeatCount // trailing space 
{
T `// not a comment`, @tag(
    00 ) leftPad
Packet
`100% of %d` ,char[0123456789  ] charz
    @calculatedFrom(""a\""b"") ,@lengthOf(Header ) f32a	{u128 @calculatedFrom("""") `// not a comment` /// triple
,T@calculatedFrom( ""a\""b"" ) , int32 lengthOf	@lengthOf( msg_type // `tick` ""quote"" 'q'
) , Foo@calculatedFrom( ""a\""b""
    )	, }
,a1
    { i16 x @calculatedFrom( ""a\\"" ) `{ , }` , match i8i8 as packetx { 00
: // " ++ [128512]%N ++ runes_of_ascii " emoji
As ,
    //
    0 // `tick` ""quote"" 'q'
: packetx 3
: // trailing space 
A
,
} ,// 50% %s
packetx
Pad, },
@lengthOf(int
    )match leftPad as	tag
    //
    { ""1""
:
// c
//x
matchKey
    ,  } ,
    }
    // " ++ [128512]%N ++ runes_of_ascii " emoji
    options
    { Packet = false ;
chars
= 00	; uint8x
    =  false ;
o=
    00
; tag
= 7 ; } options { }
packet trueish { @calculatedFrom(""" ++ [128512]%N ++ runes_of_ascii """ ) options1 @calculatedFrom( /// triple
"""" ) `tab	here` ,
u16 calculatedFrom
@lengthOf( leftPad
) `" ++ [233]%N ++ runes_of_ascii "`,match x_y_z as tag{
    1 : trueish , } ,
    string
// c
// c
body @calculatedFrom(
    ""x y""// c
) , @calculatedFrom(
// @lengthOf(
//x
""{,}""
) char[ 1 ]Pad ,  Foo
    Z9_,
match  roots as asx //
{ 255 :i8i8
    }
,
    i16 repeatCount
    //
    , uint8 x , }
")).
Eval vm_compute in ("<<<M992>>>" ++ check (runes_of_ascii "packet u/// triple
{
@calculatedFrom( ""1"" ) match o as float{
""x y""	:
    u
    , }
    ,match packetx as
    f32a {
// a // b
// c
[ 4294967296 ,3] :
x , 10
: i8i8, """ ++ [233]%N ++ runes_of_ascii "t" ++ [233]%N ++ runes_of_ascii """ : _x [
    // `tick` ""quote"" 'q'
    ""a	b""
, """ ++ [28040; 24687]%N ++ runes_of_ascii """
    //	t
    ,
    ""1"",""a\\"" ,42 , 4294967296
    , ""a	b""] :
    Header ,//
65535 : i8i8 , 0123456789 :repeatCount ,
    }
    ,
repeat
stringy { //	t
char[	0
]
Logon	`100% of %d`, repeat i8i8
Packet `crlf
line`
    ,repeatCount {
    match asx
    as calculatedFrom { 0123456789
    : float ,
} ,
len {
    repeat x_y_z , uint16 metadata , }  , leftPad  @calculatedFrom( ""a\""b"" //
) , } , repeat i64
    BodyLength
,} , i8
options1 ,//x
options1 , @leftPad // trailing space 
(
    // c
    ' '
) @tag( 65535 ) @leftPad
    (
) BodyLength MetaDataX `" ++ [28040; 24687; 31867; 22411]%N ++ runes_of_ascii "`
// packet A { u8 x, }
//	t
,  f64 metadata// 50% %s
, string u @lengthOf(As //x
) ,
    // " ++ [128512]%N ++ runes_of_ascii " emoji
    }packet x_y_z {
len o
, match
string_
    as
    Foo
{
    //
    [ 255 , """ ++ [233]%N ++ runes_of_ascii "t" ++ [233]%N ++ runes_of_ascii """ , 255
    // " ++ [27880; 37322]%N ++ runes_of_ascii "
    , 007  ,
""a\""b"" ,
    // @lengthOf(
    ""abc""]
:a1 , ""CRC32"":
matchKey }	,//	t
@lengthOf(// " ++ [27880; 37322]%N ++ runes_of_ascii "
int
)//
@calculatedFrom(""1"" ) @calculatedFrom( ""it's""
) char[
0 ]
    matchKey @calculatedFrom( ""`tick`""
) ,
match a1 as Z9_ { [ ""CRC32""
    , 65535 ] :  x[	0123456789 , """ ++ [233]%N ++ runes_of_ascii "t" ++ [233]%N ++ runes_of_ascii """
    ] :
// 50% %s
//	t
packetx ,""packet"" : // " ++ [27880; 37322]%N ++ runes_of_ascii "
msg_type// " ++ [128512]%N ++ runes_of_ascii " emoji
, 10: o , }
    ,@lengthOf( repeatCount ) f32
    As
    ,@tag( 3 )
string_ ,
    }")).
Eval vm_compute in ("<<<M826>>>" ++ check (runes_of_ascii "
options { BodyLength
    =7 ; len=string As =char[ 7 ] ;
    } options // c
{	} root packet zchar {
    @rightPad( ' '
)
    char[]zchar @calculatedFrom(
""a\\""
), zchar[/// triple
7
] i64_ , @lengthOf(  u8x )
    /// triple
    @lengthOf( i8i8)
body @lengthOf( body ) , roots{ match string_ as Z9_{""" ++ [128512]%N ++ runes_of_ascii """	: body  ,10 /// triple
:matchKey , 0123456789 :packetx
,[""packet"" ,  ""abc"" , ""CRC32"" ,  0 ,
1 , 0123456789 ] :Header, 65535
    //
    :
    lengthOf , }	, }
    ,
@calculatedFrom( """")match
float  as calculatedFrom
    {// 50% %s
""" ++ [128512]%N ++ runes_of_ascii """ :	Logon [ 3 , 65535	] :options1 , ""a\\""	:
    Foo } ,Logon//
,match o as calculatedFrom//
{
3 : uint8x }
, rootA repeatCount ,// c
options1  { f32
    // `tick` ""quote"" 'q'
    crc	,
    char[]MetaDataX , repeat
    // packet A { u8 x, }
    zchar[ 3 ] Header`line1
line2` , body {
    repeat Packet ,
Header
{char[] float @calculatedFrom( ""\" ++ [233]%N ++ runes_of_ascii """) `" ++ [233]%N ++ runes_of_ascii "`	,
match zchar as matchKey { [	""CRC32""
    ]: Foo ,
    // @lengthOf(
    """ ++ [233]%N ++ runes_of_ascii "t" ++ [233]%N ++ runes_of_ascii """ :	BodyLength , 0123456789 :crc ,""it's""
: stringy ,
    ""a\\"" :
    asx
,
} , u64 leftPad  @calculatedFrom(""`tick`"" ),
// 50% %s
// c
packetx , } ,
f64 crc , zchar[	65535]zchar
, } , // a // b
},
    @calculatedFrom( // `tick` ""quote"" 'q'
""// no comment"" ) u64 i8i8
, }
    // " ++ [27880; 37322]%N ++ runes_of_ascii "
    MetaData
    u128
    // c
    {
} 	 ")).
Eval vm_compute in ("<<<M450>>>" ++ check (runes_of_ascii "root packet float {@calculatedFrom( """ ++ [128512]%N ++ runes_of_ascii """ )float32  T , match T as
    // " ++ [27880; 37322]%N ++ runes_of_ascii "
    msg_type { 65535 :
body ""\" ++ [233]%N ++ runes_of_ascii """: body
    1
: u128 7:x, [ ""// no comment""]	: BodyLength
} , zchar[7 ]
As
@lengthOf( body ) `" ++ [28040; 24687; 31867; 22411]%N ++ runes_of_ascii "` // 50% %s
,match
u128 as // c
body  { 255 : stringy
,//	t
} , match rootA as// a // b
_x {
    // " ++ [128512]%N ++ runes_of_ascii " emoji
    ""{,}"" : crc, 42 // trailing space 
:
    // trailing space 
    T	,	} , body
    A
    `two words`,string matchKey  `{ , }`  , options1 Foo,repeat
    f32 o , string
rootA`" ++ [28040; 24687; 31867; 22411]%N ++ runes_of_ascii "`
,
    } options //x
{ u8x =
    string; //
Pad = true ; asx= ""a\""b""} root packet zchar { repeat//	t
options1{ char[ 42 ]trueish
@calculatedFrom( ""a\""b""
)
    ,	char[00
    ]  A@calculatedFrom( ""it's""
// a // b
// " ++ [128512]%N ++ runes_of_ascii " emoji
)
    , match
    falsey as
calculatedFrom
    // @lengthOf(
    {
    ""{,}""  :
    As[ ""// no comment"" ] : Pad , [
00 , ""1""
    // c
    ,
""packet"" , 00 , ""abc"" ]:chars	}, repeat  msg_type `
`
    ,
    // 50% %s
    } // packet A { u8 x, }
,@calculatedFrom( ""CRC32""	) repeat u64	u8x `line1
line2` ,
    @tag( 42 ) char[ 7 ] _x  `" ++ [233]%N ++ runes_of_ascii "`
, }options{
Foo
//	t
// packet A { u8 x, }
= false ;
} MetaData A
    {	zchar _x // 50% %s
, // `tick` ""quote"" 'q'
}
")).
Eval vm_compute in ("<<<M747>>>" ++ check (runes_of_ascii "packet  len
{ repeat // `tick` ""quote"" 'q'
Pad{match A as x
    /// triple
    {
[""1"" , 42 , 0123456789
    ,
""abc"" ,
""it's""// c
,
""" ++ [233]%N ++ runes_of_ascii "t" ++ [233]%N ++ runes_of_ascii """ ,
7 ,
// 50% %s
// @lengthOf(
10 ]  :calculatedFrom 0 : len } ,
    int8
string_ , // a // b
repeat repeatCount , } , f64	As
    ,zchar[	7
] x `" ++ [233]%N ++ runes_of_ascii "`
//	t
// @lengthOf(
,
@calculatedFrom(
    //x
    ""a\\"" ) Header{
//x
/// triple
repeat char[ 255 // c
]  metadata,	pack@lengthOf(
T) , }
, } packet T {	float64  u8x	`// not a comment`,
    match u128 as
roots // " ++ [128512]%N ++ runes_of_ascii " emoji
{
[ """ ++ [128512]%N ++ runes_of_ascii """ ]
: msg_type ,  ""\n"" : u8x
00  : crc } , u16 lengthOf
@calculatedFrom(
    """ ++ [233]%N ++ runes_of_ascii "t" ++ [233]%N ++ runes_of_ascii """)
    ,@tag( 1 )	zchar[
7 ] falsey
`doc`  ,char[]
    metadata	, Packet @calculatedFrom( ""`tick`"" ) , //	t
@tag( // c
42 ) A ,
// " ++ [128512]%N ++ runes_of_ascii " emoji
// packet A { u8 x, }
Packet
@calculatedFrom( ""{,}"") , }
options{ Pad
    = false
    T =
'\x00' // trailing space 
;asx = false; _x =""\" ++ [233]%N ++ runes_of_ascii """ ;} packet float {	uint8x{ repeatCount ,
u32 lengthOf@calculatedFrom(	""a	b""
    ) `" ++ [233]%N ++ runes_of_ascii "` ,
i16 u, } ,}
root packet Foo {match asx as Foo
{ [""" ++ [128512]%N ++ runes_of_ascii """ ,
""1""] :roots
    ,
    ""`tick`""
    :
    a1  , 0123456789 :string_ , } , }
")).
Eval vm_compute in ("<<<M4068>>>" ++ check (runes_of_ascii "packet T{ 
repeat 
string

options1
	,	@lengthOf( Packet
	)
@calculatedFrom(""" ++ [128512]%N ++ runes_of_ascii """

    )
    @lengthOf(
repeatCount	) 
u64
    asx 
,
    @leftPad
    ('\x00'
	)  x 

// c
  // a // b
{	// c
  	string 	 // trailing space 
	a1
`tab	here` ,
	repeat

pack Header
/// triple
	//x
  	, match 
packetx	as rootA 	 //
    {

    3 :chars ,
    }
,
}
	,falsey
    @lengthOf( matchKey
    )  `line1
line2`
	,

@calculatedFrom(
""`tick`"" 
)
@calculatedFrom(
""1""
)char[ 00 ]u128

@lengthOf( a1
)
	,
    @lengthOf(
    lengthOf
    // `tick` ""quote"" 'q'
    )@rightPad	( 
// packet A { u8 x, }
	'0' 	 /// triple
    )

@lengthOf(
u128
	)  rootA

    ,
} 
	    // " ++ [128512]%N ++ runes_of_ascii " emoji
    //	t
	options  {	}

packet 
u128  {

@tag(

    3) @tag(

255  )  @lengthOf( _x  ) char crc	`u8 x,`

, repeat	matchKey repeatCount,

    repeat T
    `crlf
line`  // trailing space 
	,

    char[]
trueish  `
` 
,	} 
options
    // 50% %s

  {

Packet
	=
true 
u128 	 /// triple
= '0';
    As = ""// no comment""
; o =	false
} 
options {} 
    /// triple
")).
Eval vm_compute in ("<<<M3596>>>" ++ check (runes_of_ascii "// `tick` ""quote"" 'q'
packet a1 {
    @calculatedFrom(""abc"")
    chars `" ++ [28040; 24687; 31867; 22411]%N ++ runes_of_ascii "`,
    match crc as metadata {
        65535 : trueish,
        ""\" ++ [233]%N ++ runes_of_ascii """ : charz,
        ""abc"" : MetaDataX,
        [
            ""packet"", ""// no comment"", 0, 00, ""// no comment"",
            ""{,}"", 00
        ] : i64_,
        """ ++ [233]%N ++ runes_of_ascii "t" ++ [233]%N ++ runes_of_ascii """ : f32a,
        [""" ++ [128512]%N ++ runes_of_ascii """, ""it's""] : Foo,
    },
    @rightPad(' ')
    repeat char[1] body `" ++ [28040; 24687; 31867; 22411]%N ++ runes_of_ascii "`,
    @calculatedFrom(""" ++ [233]%N ++ runes_of_ascii "t" ++ [233]%N ++ runes_of_ascii """)
    repeat options1 i64_,
    match roots as T {
        [0, ""x y""] : uint8x,
        """ ++ [128512]%N ++ runes_of_ascii """ : packetx,
        ""packet"" : uint8x,
        // packet A { u8 x, }
        ""a	b"" : lengthOf,
        4294967296 : repeatCount,
    },
    string options1 @calculatedFrom(""x y""),
    int,
    // c
    o @calculatedFrom(""packet"") `say ""hi""`,
    int a1,
    string_ {
        char[] Logon `say ""hi""`,
        repeat float32 trueish,
    },
}

options {
    BodyLength = '0';
    body = true;
    i8i8 = ""packet""
}

packet zchar {
    u16 Logon `a\`,
}

packet u128 {
}")).
Eval vm_compute in ("<<<M1165>>>" ++ check (runes_of_ascii "options { f32a	=
' ' } packet // " ++ [128512]%N ++ runes_of_ascii " emoji
metadata { @lengthOf(
a1	)
@calculatedFrom(  """ ++ [28040; 24687]%N ++ runes_of_ascii """) @rightPad ( '0' ) i64_ o `say ""hi""`
, Packet @calculatedFrom(""packet"")
,char[]
    tag
    , @calculatedFrom(
    // " ++ [128512]%N ++ runes_of_ascii " emoji
    ""a\""b"" ) match tag as BodyLength {
    ""CRC32"" :
asx ,10 : metadata ,
    }, @tag( 7 ) @tag(7
    ) @tag( 42
    )Header { i64 // " ++ [27880; 37322]%N ++ runes_of_ascii "
A //
`two words`
    , char[]Packet
    , } , @calculatedFrom( """ ++ [28040; 24687]%N ++ runes_of_ascii """ ) @calculatedFrom( ""x y"" ) @tag( 3 )char[] Packet `tab	here`, @rightPad( '0' ) Packet, repeat Pad {match packetx
    as charz
// `tick` ""quote"" 'q'
// c
{
//x
//
""a\""b"" :
packetx [00 ,
007 ,
    ""1""
    , ""it's""
,""it's"" ]	: Packet ,
    // " ++ [128512]%N ++ runes_of_ascii " emoji
    ""\" ++ [233]%N ++ runes_of_ascii """: // `tick` ""quote"" 'q'
repeatCount , [ """ ++ [233]%N ++ runes_of_ascii "t" ++ [233]%N ++ runes_of_ascii """	,
007 , 10 ]:
    // " ++ [128512]%N ++ runes_of_ascii " emoji
    charz
,  [ ""CRC32""  ] :roots ,}
    ,  } ,@lengthOf( float  ) uint8x	,
}
    // " ++ [128512]%N ++ runes_of_ascii " emoji
    options {
len
    = float64 ;
    Header = '0'; Foo = string; i64_ =
false ;}
")).
Eval vm_compute in ("<<<M3551>>>" ++ check (runes_of_ascii "options {
}

root packet float {
    // 50% %s
    @tag(3)
    repeat char[65535] Logon `" ++ [28040; 24687; 31867; 22411]%N ++ runes_of_ascii "`,
    int8 asx,
    uint64 matchKey,
    repeat zchar[0123456789] charz,
    @rightPad()
    match rootA as o {
        ""abc"" : Header,
        ""a	b"" : BodyLength,
        ""a	b"" : repeatCount,
        """ ++ [28040; 24687]%N ++ runes_of_ascii """ : _x,
    },
    @lengthOf(body)
    match u8x as u128 {
        0123456789 : lengthOf,
        ""abc"" : A,
        """" : Pad,
        42 : i8i8,
        ""a\""b"" : uint8x,
        4294967296 : u128,
    },
    @lengthOf(int)
    char[] matchKey,
    uint16 pack `two words`,// trailing space 
}

options {
    body = string;
    repeatCount = ""it's""
    BodyLength = i64
    Foo = ""packet"";
    lengthOf = u16
}

MetaData Pad {
    MetaDataX o `a\`,
    char u,
    zchar[255] o,
}// c

options {
    trueish = '0';
    rootA = int64;
    // trailing space 
    // " ++ [128512]%N ++ runes_of_ascii " emoji
    u = ""\n""
}")).
Eval vm_compute in ("<<<M1362>>>" ++ check (runes_of_ascii "root packet
    uint8x {
    } packet
uint8x {} options // " ++ [128512]%N ++ runes_of_ascii " emoji
{ Foo = ' ' u =
char[]
}
// c
// `tick` ""quote"" 'q'
packet charz { char[] zchar
`" ++ [233]%N ++ runes_of_ascii "`	, @calculatedFrom(
    ""x y"" )
string Logon , char[ 0
// 50% %s
//
] crc @lengthOf(  float)`" ++ [233]%N ++ runes_of_ascii "` // @lengthOf(
,// " ++ [27880; 37322]%N ++ runes_of_ascii "
} root packet Header{i8 // trailing space 
calculatedFrom
@lengthOf( u128 ) , @tag(
    //x
    65535 )
    repeat// `tick` ""quote"" 'q'
zchar[	4294967296 ] tag
//	t
//x
,@leftPad// " ++ [128512]%N ++ runes_of_ascii " emoji
( '\x00'// packet A { u8 x, }
) tag { match
    // c
    repeatCount
as charz{ 0123456789  :
asx , }
,
f32	string_/// triple
`
` //
,
}, uint32 matchKey, i32// c
leftPad	@calculatedFrom(""1"") `it's` , _x
{f32a @calculatedFrom(
""`tick`"") , char metadata
    `a\`
    , repeat uint16// a // b
float
    `" ++ [233]%N ++ runes_of_ascii "`// " ++ [128512]%N ++ runes_of_ascii " emoji
, } ,@lengthOf( A ) zchar[ 0123456789 ]
Header@lengthOf(o )`
` ,	}
")).
Eval vm_compute in ("<<<M3453>>>" ++ check (runes_of_ascii "options {
    LittleEndian = true;
    StringPrefixLenType = u32;
    ArrayPrefixLenType = u32;
    FixedStringPadChar = ' ';
}
packet Party {
    char[12] tag7,
    repeat InMsgkind99 {
        repeat i32 Side2,
        repeat char[6] Qty,
        zchar[6] Ref,
        zchar[8] Px,
        i64 msgKind,
        uint64 lastPx,
    },
}
root packet Trade {
    repeat InTag752 {
        Party,
        zchar[8] venue,
        repeat InFlags40 {
            zchar[6] sym,
        },
        repeat InCount33 {
            zchar[8] Qty,
            int64 venue,
            u64 Acct,
            u16 OrderId,
        },
        repeat InSeqno96 {
            repeat Party,
            f64 msgKind,
        },
        f32 Px,
    },
    u8 venue,
    match venue as Body {
        0 : Party,
    },
}
")).
Eval vm_compute in ("<<<M3836>>>" ++ check (runes_of_ascii "packet charz {
    // a // b
    @rightPad()
    @tag(007)
    @tag(255)
    repeat _x {
        crc @lengthOf(u) `doc`,
        u16 x,
    },
    match u128 as As {
        10 : x_y_z,
    },
    zchar[007] int @calculatedFrom(""" ++ [233]%N ++ runes_of_ascii "t" ++ [233]%N ++ runes_of_ascii """),
    match tag as float {
        // c
        [""" ++ [28040; 24687]%N ++ runes_of_ascii """, """ ++ [28040; 24687]%N ++ runes_of_ascii """] : leftPad,
        """ ++ [128512]%N ++ runes_of_ascii """ : repeatCount,
        10 : stringy,
        // " ++ [27880; 37322]%N ++ runes_of_ascii "
        ""\n"" : msg_type,
        1 : float,
        [""{,}""] : i64_,
    },
    @lengthOf(u128)
    @tag(007)
    match f32a as string_ {
        // `tick` ""quote"" 'q'
        0 : i8i8,
    },
    uint64 falsey,
}

MetaData Foo {
    u16 T,
    crc tag,
    A falsey `{ , }`,
}

packet float {
}

MetaData rootA {
    _x x,
    char[10] options1,
    pack x_y_z,
    char[] u128,
    uint32 Pad,
}")).
Eval vm_compute in ("<<<M4124>>>" ++ check (runes_of_ascii "root packet packetx {
    @calculatedFrom(""`tick`"")
    // packet A { u8 x, }
    //
    @tag(255)
    @calculatedFrom(""a	b"")
    repeat f64 stringy,
    repeat Z9_ repeatCount `" ++ [233]%N ++ runes_of_ascii "`,
    // trailing space 
    // packet A { u8 x, }
    repeat float64 int `100% of %d`,
    zchar[0123456789] MetaDataX @lengthOf(crc),// " ++ [128512]%N ++ runes_of_ascii " emoji
    trueish {
        Logon,
        i32 matchKey `doc`,
        f64 float `// not a comment`,// trailing space 
        i64 Z9_ @calculatedFrom(""// no comment""),
    },
    @lengthOf(BodyLength)
    repeat u128 {
        u128,
        falsey repeatCount,
    },
    match stringy as a1 {
        42 : BodyLength,
        [4294967296, 0123456789] : len,
        [""packet"", """ ++ [233]%N ++ runes_of_ascii "t" ++ [233]%N ++ runes_of_ascii """] : Pad,
        3 : stringy,
    },
}")).
Eval vm_compute in ("<<<M3333>>>" ++ check (runes_of_ascii "// top
options
    // c0
{
    // c1
msg_type
    // c2
=
    // c3
255
    // c4
o
    // c5
=
    // c6
'\x00'
    // c7
;
    // c8
x_y_z
    // c9
=
    // c10
""abc""
    // c11
;
    // c12
int
    // c13
=
    // c14
00
    // c15
;
    // c16
body
    // c17
=
    // c18
""\" ++ [233]%N ++ runes_of_ascii """
    // c19
;
    // c20
}
    // c21
MetaData
    // c22
BodyLength
    // c23
{
    // c24
repeatCount
    // c25
metadata
    // c26
`a\`
    // c27
,
    // c28
f64
    // c29
float
    // c30
`tab	here`
    // c31
,
    // c32
zchar[
    // c33
4294967296
    // c34
]
    // c35
metadata
    // c36
`" ++ [233]%N ++ runes_of_ascii "`
    // c37
,
    // c38
zchar[
    // c39
255
    // c40
]
    // c41
float
    // c42
,
    // c43
}
    // c44
")).
Eval vm_compute in ("<<<M1019>>>" ++ check (runes_of_ascii "MetaData float { string Packet,} options
    //	t
    {
asx //	t
=
""\n""
    } options { repeatCount= """"; _x =
    zchar[ 007 // packet A { u8 x, }
] ;uint8x =
    u64 }
packet options1{i8 Pad , uint32 roots @calculatedFrom( ""// no comment"") `doc`, char[] rootA , match crc
as
//
// c
u { 0 :chars
    , 42 :
    packetx
,
// @lengthOf(
// trailing space 
} ,
@tag(	0
) int8 u128,
string
    pack`u8 x,`, Header @calculatedFrom(
""1"" ) ,  @tag( 10
)
u
, i16
u128
    ,
    // trailing space 
    @calculatedFrom( ""\n"" ) //	t
@rightPad ( '0' ) repeat zchar  msg_type	`{ , }` ,
}MetaData
    i8i8// @lengthOf(
{u8
    leftPad `crlf
line`
// packet A { u8 x, }
//	t
, } 	 ")).
Eval vm_compute in ("<<<M3749>>>" ++ check (runes_of_ascii "

  MetaData
	Logon{
pack
roots
    `{ , }`
,
} 
packet 
x // `tick` ""quote"" 'q'
	{  } 
options{// packet A { u8 x, }

}

packet

    crc  
      //
	  // trailing space 
  { repeat u64	roots

    `say ""hi""`	,zchar[
	007  ]repeatCount @lengthOf(
trueish  // " ++ [128512]%N ++ runes_of_ascii " emoji
    	) 
,	@tag(
    0 
)	charz 
{

    A{
a1
falsey

,

    } , 
match As

    as
f32a
{
42
    :u8x,
} ,

Logon @calculatedFrom( 
""""	) 
`100% of %d`
    , 
} ,
falsey

@calculatedFrom(

    ""x y""
	),repeat
    char[	//
    65535
    // `tick` ""quote"" 'q'
  ]
    rootA`
`  ,

@calculatedFrom(""`tick`"" 
)  @calculatedFrom(  ""a	b""  )
    repeat	zchar  zchar  , 
}
")).
Eval vm_compute in ("<<<M4183>>>" ++ check (runes_of_ascii "packet	Header {repeat
i64

float	,  }
    packet
matchKey 
{@tag(
	00	)
match u8x  as 
pack
// " ++ [128512]%N ++ runes_of_ascii " emoji

{
    1

    : u 
""a\\""

    :string_,

    0 :
body  ,}  ,
	@calculatedFrom(
""// no comment""
	)
@rightPad (  '0')

    @tag( 
00 
)	// a // b
  int16  calculatedFrom
	@lengthOf(	//x

  pack

    )

    ,
    repeat
	char[] 
x_y_z	,

    } options	//	t
	  { 	 //	t
float
    = // " ++ [128512]%N ++ runes_of_ascii " emoji
char[]	roots
    // " ++ [27880; 37322]%N ++ runes_of_ascii "

// a // b
		=

    '0';u
	=	char
    Packet
=

    0123456789  // @lengthOf(
  ;
    u8x// " ++ [27880; 37322]%N ++ runes_of_ascii "
  	=""CRC32""

    ;
} root

    packet

    x{i16

T
    @lengthOf( 
f32a) `" ++ [28040; 24687; 31867; 22411]%N ++ runes_of_ascii "`  ,}

")).
Eval vm_compute in ("<<<M1059>>>" ++ check (runes_of_ascii "options
{
uint8x = u8 ;  i64_ =
""\n"" ; metadata=
false ; tag  = """ ++ [233]%N ++ runes_of_ascii "t" ++ [233]%N ++ runes_of_ascii """
; }
packet body { i32 Pad //
`crlf
line`
, @tag( 00
) f32a // `tick` ""quote"" 'q'
`
`	,repeat // @lengthOf(
crc	`u8 x,`	, repeat
chars
{ f32 BodyLength @lengthOf(
    body ) ,
} , char[ 255 ]Foo , @rightPad(
'\x00'
    ) @calculatedFrom( ""a\\"" ) repeat pack {
    u128 {
    T @calculatedFrom(
""1"") , int32
rootA, },a1 T
,
    char[
    4294967296 ]	Packet@lengthOf(
Header
)
    ,
    Pad
asx ,
}	, @lengthOf(//	t
u128// a // b
) int64 A
, } options	{charz= true ;
    Pad
    = ""it's""
    ; }MetaData As {} packet float{ // c
}
")).
Eval vm_compute in ("<<<M861>>>" ++ check (runes_of_ascii "packet len
    // @lengthOf(
    { tag { match
_x	as // packet A { u8 x, }
len { 255 : zchar ,
} , }  , @calculatedFrom(
""// no comment"" ) T@lengthOf(Z9_) ,repeat a1 { repeat string
    leftPad `" ++ [233]%N ++ runes_of_ascii "` ,
//	t
//x
char[]
matchKey @lengthOf(
    x_y_z )	`line1
line2` , // " ++ [128512]%N ++ runes_of_ascii " emoji
repeat char[0123456789	]
matchKey ,} ,i64 calculatedFrom	@calculatedFrom(
""\" ++ [233]%N ++ runes_of_ascii """ ) ,} packet BodyLength{ @calculatedFrom(""CRC32"" )
@lengthOf( i8i8 )f32a @calculatedFrom( ""abc"")
    ,	zchar[ // 50% %s
42] body@lengthOf( uint8x) `" ++ [28040; 24687; 31867; 22411]%N ++ runes_of_ascii "` ,
    float@lengthOf(trueish ) ,
repeat zchar[ 255 ] u8x	`it's` , //
}")).
Eval vm_compute in ("<<<M395>>>" ++ check (runes_of_ascii "root packet // 50% %s
Foo
{ }packet BodyLength { @tag(	007
) zchar[
4294967296 ] _x ,x_y_z, @tag( // @lengthOf(
3	)
@leftPad  ('0'  ) @calculatedFrom( // 50% %s
""packet"" ) i16
_x
    @lengthOf( BodyLength )
`u8 x,`, } // @lengthOf(
packet int {u64 i64_@calculatedFrom(""" ++ [28040; 24687]%N ++ runes_of_ascii """) ,
    @tag( //	t
10
) repeat
chars , }packet
    float  { @calculatedFrom(""it's""  ) char[]
    a1,Pad leftPad`// not a comment`, body	``  , Z9_@calculatedFrom( ""a\\""
// @lengthOf(
// " ++ [27880; 37322]%N ++ runes_of_ascii "
)
`tab	here`,@tag(4294967296
    ) int16 BodyLength @calculatedFrom(  ""{,}""
)`say ""hi""` ,
}
")).
Eval vm_compute in ("<<<M43>>>" ++ check (runes_of_ascii "
packet body{ @lengthOf(  zchar
)
f32
    i8i8 , uint8x zchar `u8 x,` ,/// triple
}packet pack
{ @lengthOf( u ) /// triple
char[]
    charz// a // b
@lengthOf(
    o) , f32a @calculatedFrom( ""packet"") ,@lengthOf( metadata
    )repeat int32 repeatCount
    ,@leftPad(
'\x00' ) char[] chars	@lengthOf( roots )
, @calculatedFrom(""\n"" ) matchKey
    //	t
    ,
    }
packet
u8x { @calculatedFrom( ""{,}"" )uint8 string_ @lengthOf( trueish ) , Header {  char[] lengthOf
`u8 x,` , }
    // " ++ [128512]%N ++ runes_of_ascii " emoji
    ,// 50% %s
i16 u `say ""hi""`	, }
// " ++ [27880; 37322]%N ++ runes_of_ascii "
")).
Eval vm_compute in ("<<<M906>>>" ++ check (runes_of_ascii "
root
packet
    chars
{ Logon
    @calculatedFrom(	""" ++ [128512]%N ++ runes_of_ascii """ // packet A { u8 x, }
), u64 asx @lengthOf(
    x ) , repeat trueish `" ++ [233]%N ++ runes_of_ascii "` // 50% %s
,// " ++ [128512]%N ++ runes_of_ascii " emoji
zchar[
    //
    007 ]body`it's` , repeat // `tick` ""quote"" 'q'
MetaDataX , chars// a // b
asx`// not a comment`
    , }
packet// trailing space 
i64_ { match rootA as tag { [1
]
:Pad
65535  : falsey
,  } , } MetaData x_y_z {
// @lengthOf(
/// triple
} // @lengthOf(
packet matchKey {
//
//	t
@calculatedFrom( ""\n"" ) f32 msg_type , zchar[ 10
]	chars , }")).
Eval vm_compute in ("<<<M3326>>>" ++ check (runes_of_ascii "// top
packet // c0
A // c1
{ // c2
match // c3
packetx // c4
as // c5
BodyLength // c6
{ // c7
007 // c8
: // c9
A // c10
""" ++ [28040; 24687]%N ++ runes_of_ascii """ // c11
: // c12
x_y_z // c13
, // c14
""" ++ [128512]%N ++ runes_of_ascii """ // c15
: // c16
crc // c17
[ // c18
""{,}"" // c19
, // c20
""\n"" // c21
, // c22
""" ++ [233]%N ++ runes_of_ascii "t" ++ [233]%N ++ runes_of_ascii """ // c23
, // c24
""x y"" // c25
, // c26
""a\""b"" // c27
] // c28
: // c29
stringy // c30
, // c31
} // c32
, // c33
} // c34
root // c35
packet // c36
i64_ // c37
{ // c38
repeat // c39
pack // c40
`100% of %d` // c41
, // c42
} // c43
")).
Eval vm_compute in ("<<<M4438>>>" ++ check (runes_of_ascii "  options
    {

    } packet
tag
	{ repeat
    string

    msg_type  , i64  float
    `it's`

    , @rightPad (

'0' 
)

@lengthOf(MetaDataX
) body
,  match 
Header	as leftPad {
42	:
    Header ,

    }
,@calculatedFrom(""" ++ [233]%N ++ runes_of_ascii "t" ++ [233]%N ++ runes_of_ascii """
    ) string matchKey, 
@rightPad

    (

'\x00'
	)

char[]
	matchKey @lengthOf(
    crc  ) `tab	here` 
,uint64 charz
``
    ,} packet u128
    { u64
    A

`tab	here`, }
root

packet i8i8{
    }  // `tick` ""quote"" 'q'
")).
Eval vm_compute in ("<<<M3374>>>" ++ check (runes_of_ascii "// top
packet
    // c0
B // c1a
  // c1b
{ u8 a // c4
,
    // c5
} root
    // c7
packet // c8
P // c9
{
    // c10
u8 // c11
K
    // c12
, u64
    // c14
L
    // c15
@lengthOf( // c16a
  // c16b
Body // c17
) // c18a
  // c18b
, // c19a
  // c19b
match
    // c20
K // c21a
  // c21b
as // c22
Body // c23a
  // c23b
{
    // c24
1 // c25a
  // c25b
: // c26
B // c27a
  // c27b
, // c28a
  // c28b
}
    // c29
,
    // c30
}
    // c31
")).
Eval vm_compute in ("<<<M3887>>>" ++ check (runes_of_ascii "packet int {
    // " ++ [128512]%N ++ runes_of_ascii " emoji
}

options {
    Z9_ = ' ';
    repeatCount = 0
    Header = zchar[007]
    i64_ = """ ++ [128512]%N ++ runes_of_ascii """;
}

root packet leftPad {
    roots,
}

root packet Foo {
    repeat MetaDataX u8x `crlf
    line`,
    @lengthOf(Header)
    zchar[65535] metadata `u8 x,`,
    @tag(65535)
    stringy {
        options1 @lengthOf(asx),
    },
    char[0] Packet `two words`,
    @lengthOf(u8x)
    int @lengthOf(Logon),
}")).
Eval vm_compute in ("<<<M3472>>>" ++ check (runes_of_ascii "options {
    LittleEndian = false;
    StringPrefixLenType = u16;
    ArrayPrefixLenType = u32;
    FixedStringPadChar = '0';
}
packet Leg {
    char[] OrderId,
    repeat InFlags49 {
        float32 Tail,
    },
}
root packet Heartbeat {
    char[] Px,
    f32 Side2,
    repeat Leg,
    char[] Flags,
    u32 Acct,
    u32 seqNo @lengthOf(Body),
    match Acct as Body {
        [165, 21] : Leg,
    },
}
")).
Eval vm_compute in ("<<<M1355>>>" ++ check (runes_of_ascii "packet
trueish { body
    { u64 leftPad , char[] u128 , } ,
    }MetaData string_{
i64_ Z9_ ,string
    A,stringy // packet A { u8 x, }
options1 `" ++ [28040; 24687; 31867; 22411]%N ++ runes_of_ascii "` ,// a // b
char[] stringy `crlf
line`  ,	int16 len //x
, f64// c
u128
``// c
,//
} MetaData
    string_
    { }packet
    // trailing space 
    matchKey
{  } options  {
// " ++ [27880; 37322]%N ++ runes_of_ascii "
// `tick` ""quote"" 'q'
roots =
    char[]  ; o = char[
10] }")).
Eval vm_compute in ("<<<M316>>>" ++ check (runes_of_ascii "packet
charz
{
    repeat As
{
    rootA @calculatedFrom(""" ++ [28040; 24687]%N ++ runes_of_ascii """)
`crlf
line`,
    zchar[ 0  ] // trailing space 
u8x
    , int@lengthOf(u8x // " ++ [128512]%N ++ runes_of_ascii " emoji
) ,
}
, @rightPad (	) uint32 a1@calculatedFrom(
    ""x y""	)
,
// " ++ [128512]%N ++ runes_of_ascii " emoji
// " ++ [128512]%N ++ runes_of_ascii " emoji
} packet Packet { @rightPad(
    '0' )repeat matchKey `it's` , }
    root
packet Packet
{	u32	f32a
@calculatedFrom(  ""a\\"" )
`u8 x,` , }
")).
Eval vm_compute in ("<<<M261>>>" ++ check (runes_of_ascii "MetaData
o
    {
// 50% %s
// " ++ [27880; 37322]%N ++ runes_of_ascii "
Foo _x, }
MetaData // 50% %s
trueish //	t
{ u8 crc
`" ++ [233]%N ++ runes_of_ascii "` ,u64 charz `" ++ [28040; 24687; 31867; 22411]%N ++ runes_of_ascii "` , //x
zchar[
    00	] // @lengthOf(
string_,	}	packet// c
metadata { @leftPad ( '\x00') u128@lengthOf( len ) , @lengthOf(
    u128 // a // b
)
    x , @lengthOf(
int
    ) zchar[3 ] Logon @lengthOf(
Logon )  `" ++ [233]%N ++ runes_of_ascii "`
    ,Pad
    roots ,	} // 50% %s")).
Eval vm_compute in ("<<<M3729>>>" ++ check (runes_of_ascii "  MetaData T	{  float32 pack

``

, i64_
    i64_`" ++ [233]%N ++ runes_of_ascii "` 
,Packet
    o

    , 

    //	t
	//
  	i64_ Logon	,
    As A  , //

} packet a1 { @tag(	/// triple
	0123456789
	)match
	lengthOf as As 	 // 50% %s
{ 
""a\\""  :repeatCount""" ++ [128512]%N ++ runes_of_ascii """	:

    x  [	65535 ,	42	]
    : roots ,

[ 
10  ,
	0
] :

lengthOf  // trailing space 
	  ,}

    ,
}
")).
Eval vm_compute in ("<<<M1111>>>" ++ check (runes_of_ascii "packet  rootA {}
    packet lengthOf /// triple
{
    @calculatedFrom(
""a\""b""
    )
    @leftPad (
'\x00' ) //
Logon {x@calculatedFrom(""a	b""
    ) , } , }
    // c
    packet //
Pad { // " ++ [27880; 37322]%N ++ runes_of_ascii "
@leftPad (
// @lengthOf(
/// triple
) @lengthOf( u128
) // @lengthOf(
@rightPad ( ' ') T @lengthOf( Foo )
    //	t
    `{ , }`, }
")).
Eval vm_compute in ("<<<M924>>>" ++ check (runes_of_ascii "packet
    // " ++ [128512]%N ++ runes_of_ascii " emoji
    Z9_ // c
{lengthOf{ char[] u128
,
    u32
o , }, } options
    {} MetaData len // c
{ char
//x
/// triple
Logon  ,	repeatCount lengthOf
    // a // b
    ,
Z9_ // `tick` ""quote"" 'q'
o ,  string MetaDataX `say ""hi""` , char[  1 //
]
    calculatedFrom
    `
` , u
//
/// triple
tag,
} //")).
Eval vm_compute in ("<<<M343>>>" ++ check (runes_of_ascii "// a // b
options {
    // `tick` ""quote"" 'q'
    metadata = i64 string_=uint16 _x = i8 calculatedFrom  =  ""1"" ; } options {
i8i8 =  uint32 ;tag = ""a\\"" ;
roots = char[7	] Logon
=  ""a\\""	; } MetaData repeatCount {
    // 50% %s
    MetaDataX falsey`// not a comment` ,// c
} // `tick` ""quote"" 'q'")).
Eval vm_compute in ("<<<M3475>>>" ++ check (runes_of_ascii "options {
    LittleEndian = true;
    StringPrefixLenType = u32;
    FixedStringPadFromLeft = false;
    FixedStringPadChar = '0';
}
packet Party {
    int16 Acct,
}
packet Quote {
}
root packet Order {
    string Side2,
    repeat string OrderId,
    repeat string venue,
    Quote,
}
")).
Eval vm_compute in ("<<<M325>>>" ++ check (runes_of_ascii "
packet charz { i64 MetaDataX `doc` // " ++ [27880; 37322]%N ++ runes_of_ascii "
, } options
{lengthOf = ' ' ; A = 3}// @lengthOf(
packet packetx { @lengthOf( Z9_) string
    // c
    x ,	} packet msg_type { }
//	t
//
packet As {
//	t
// packet A { u8 x, }
repeat Pad
{ f64
    o@calculatedFrom(
    ""a	b"" ),},}
")).
Eval vm_compute in ("<<<M743>>>" ++ check (runes_of_ascii "root packet  asx { @lengthOf( o ) @rightPad(
'0'
) uint32 len`it's`
    ,	} options
{f32a =
string ;
    rootA =
""\" ++ [233]%N ++ runes_of_ascii """ crc = '\x00' ;
} options { tag = zchar[
0123456789
] // packet A { u8 x, }
; metadata=
""CRC32"" ;	As  = """ ++ [233]%N ++ runes_of_ascii "t" ++ [233]%N ++ runes_of_ascii """ ; // c
string_
    = uint32 ;
    }
//x
")).
Eval vm_compute in ("<<<M1529>>>" ++ check (runes_of_ascii "// 50% %s
packet	a1
    Foo zchar[
// a // b
// 50% %s
007]
T `it's`
    ,@rightPad
    // a // b
    (
'\x00')
    o repeatCount , }  packet Logon {  }packet	Logon //x
{ repeat // " ++ [128512]%N ++ runes_of_ascii " emoji
uint16 u128
    //
    `a\`,
falsey
@calculatedFrom(""packet"" ) ,
    } 	 ")).
Eval vm_compute in ("<<<M1698>>>" ++ check (runes_of_ascii "// 50% %s
packet	a1
    { zchar[
// a // b
// 50% %s
007]
T `it's`
    ,@rightPad
    // a // b
    (
'\x00')
    o repeatCount , }  packet " ++ [127]%N ++ runes_of_ascii "Logon {  }packet	Logon //x
{ repeat // " ++ [128512]%N ++ runes_of_ascii " emoji
uint16 u128
    //
    `a\`,
falsey
@calculatedFrom(""packet"" ) ,
    } 	 ")).
Eval vm_compute in ("<<<M1643>>>" ++ check (runes_of_ascii "// 50% %s
packet	a1
    { zchar[
// a // b
// 50% %s
007]
T `it's`
    ,@rightPad
    // a // b
    (
'\x00')
    o repeatCount , }  packet Logon {  }packet	Logon //x
{ repeat // " ++ [128512]%N ++ runes_of_ascii " emoji
u128 uint16
    //
    `a\`,
falsey
@calculatedFrom(""packet"" ) ,
    } 	 ")).
Eval vm_compute in ("<<<M3944>>>" ++ check (runes_of_ascii "packet body {
    char[10] body,
    @lengthOf(rootA)
    @lengthOf(crc)
    @rightPad(' ')
    match uint8x as asx {
        ""x y"" : u8x,
        ""CRC32"" : float,
        0123456789 : int,
        0 : Foo,
        3 : asx,
        // packet A { u8 x, }
    },
}")).
Eval vm_compute in ("<<<M1564>>>" ++ check (runes_of_ascii "// 50% %s
packet	a1
    { zchar[
// a // b
// 50% %s
007]
T `it's`
    ,' '
    // a // b
    (
'\x00')
    o repeatCount , }  packet Logon {  }packet	Logon //x
{ repeat // " ++ [128512]%N ++ runes_of_ascii " emoji
uint16 u128
    //
    `a\`,
falsey
@calculatedFrom(""packet"" ) ,
    } 	 ")).
Eval vm_compute in ("<<<M1239>>>" ++ check (runes_of_ascii "
root packet BodyLength{ @lengthOf(  falsey ) body @lengthOf( x_y_z
) ,@calculatedFrom( ""{,}"" ) match len as Z9_
    { 65535
:	BodyLength }
,
@rightPad ( '0'
    )
    repeat charz
`" ++ [233]%N ++ runes_of_ascii "`
,
}
options {  x=""x y"" }
MetaData
repeatCount//x
{ // " ++ [27880; 37322]%N ++ runes_of_ascii "
}
")).
Eval vm_compute in ("<<<M3440>>>" ++ check (runes_of_ascii "

  packet
Logon {

string
user
	,

}root packet	Frame{	u8  K,	match
    K
    as

    Body {
1  : Logon , 
2 :Logout
,	}

    , Tail  ,
    }
    packet

    Logout
{
    u16  reason 
,}  packet
Tail
{

    u32

    crc, }

")).
Eval vm_compute in ("<<<M627>>>" ++ check (runes_of_ascii "options	{// a // b
} packet
    lengthOf { // trailing space 
u64 string_
    @lengthOf( MetaDataX )  , } MetaData
    _x{ char[]
leftPad `" ++ [233]%N ++ runes_of_ascii "`
, i64 a1
    , float32 A `{ , }` , i16 //	t
crc  , MetaDataX metadata `say ""hi""`,
    }
")).
Eval vm_compute in ("<<<M3753>>>" ++ check (runes_of_ascii "// `tick` ""quote"" 'q'
packet x {
    @calculatedFrom(""\n"")
    repeat calculatedFrom _x `{ , }`,
    char[] u128,
    stringy @calculatedFrom(""""),
    @lengthOf(x_y_z)
    @tag(42)
    @rightPad('0')
    char[] trueish,
}")).
Eval vm_compute in ("<<<M358>>>" ++ check (runes_of_ascii "packet x {@rightPad ( '\x00'  ) char[ 10 // a // b
]
_x ,
    u32 trueish
// c
// packet A { u8 x, }
@lengthOf( As) `a\` ,@calculatedFrom(
    // c
    ""\" ++ [233]%N ++ runes_of_ascii """ ) char
//
// a // b
rootA @calculatedFrom( ""\n"" ) ,
}
")).
Eval vm_compute in ("<<<M4089>>>" ++ check (runes_of_ascii "MetaData o {
    char[] Header `
    `,
    stringy trueish,
    Logon a1 `line1
    line2`,
}

root packet uint8x {
    @lengthOf(zchar)
    @tag(4294967296)
    @leftPad('\x00')
    repeat BodyLength,
}")).
Eval vm_compute in ("<<<M579>>>" ++ check (runes_of_ascii "packet tag { // @lengthOf(
match zchar as A { 0123456789 :
body
    ,	255 : Z9_
    3 :_x}, int16 pack
@lengthOf(x_y_z //
)
,	} MetaData  lengthOf { char[ 255  ] Header `" ++ [233]%N ++ runes_of_ascii "` //x
, // c
}
")).
Eval vm_compute in ("<<<M784>>>" ++ check (runes_of_ascii "MetaData uint8x { leftPad Pad
    `crlf
line` , char[3
    ]
    falsey , zchar[	0123456789
// trailing space 
// a // b
]
    // `tick` ""quote"" 'q'
    a1	, string float `{ , }` , }")).
Eval vm_compute in ("<<<M757>>>" ++ check (runes_of_ascii "// packet A { u8 x, }
MetaData repeatCount { // @lengthOf(
Z9_ int`a\`
    , } options {Pad=
' '
    ; /// triple
A =  ""\" ++ [233]%N ++ runes_of_ascii """
; As=
    uint64  ;//	t
}root packet
    f32a{}
")).
Eval vm_compute in ("<<<M3611>>>" ++ check (runes_of_ascii "packet A {
    match k as n {
        [
            ""a"", 22, ""c c"", 4, ""e"",
            66, ""g"", 8, ""i"", 10,
            ""k"", 12
        ] : B,
        2 : C,
    },
}")).
Eval vm_compute in ("<<<M4136>>>" ++ check (runes_of_ascii "packet 
A	{u8

    a	, }	packet
B{ 
u16
b,}root packet  P
	{
u8 K1 ,u8	K2
,
match
K1	as

    M1	{  1 :A	,
	} ,
match	K2	as  M2

    {
	1
	:

B
,
}
,}
")).
Eval vm_compute in ("<<<M748>>>" ++ check (runes_of_ascii "options
// " ++ [128512]%N ++ runes_of_ascii " emoji
//	t
{
//
// c
} MetaData
    /// triple
    float
{
zchar//	t
f32a
,
    } MetaData packetx { i64_
// @lengthOf(
//x
trueish`" ++ [233]%N ++ runes_of_ascii "` , }")).
Eval vm_compute in ("<<<M4383>>>" ++ check (runes_of_ascii "

  MetaData 
//	t
  	u8x 

//	t
{	u8x	packetx

`say ""hi""` 
,	// trailing space 

char[]
    options1 `100% of %d`
,	char[ 00
]
	i64_  `" ++ [28040; 24687; 31867; 22411]%N ++ runes_of_ascii "`

,

} ")).
Eval vm_compute in ("<<<M2101>>>" ++ check (runes_of_ascii "MetaData BodyLength
{ int8 Foo
, string
    MetaDataX , float zchar , ,pack options1
,asx string_, }
packet u8x {Foo@lengthOf(charz )
`" ++ [28040; 24687; 31867; 22411]%N ++ runes_of_ascii "`,  }
")).
Eval vm_compute in ("<<<M2195>>>" ++ check (runes_of_ascii "MetaData BodyLength
{ int8 Foo
, " ++ [233]%N ++ runes_of_ascii "string
    MetaDataX , float zchar ,pack options1
,asx string_, }
packet u8x {Foo@lengthOf(charz )
`" ++ [28040; 24687; 31867; 22411]%N ++ runes_of_ascii "`,  }
")).
Eval vm_compute in ("<<<M2127>>>" ++ check (runes_of_ascii "MetaData BodyLength
{ int8 Foo
, string
    MetaDataX , float zchar ,pack options1
,asx ,string_ }
packet u8x {Foo@lengthOf(charz )
`" ++ [28040; 24687; 31867; 22411]%N ++ runes_of_ascii "`,  }
")).
Eval vm_compute in ("<<<M2150>>>" ++ check (runes_of_ascii "MetaData BodyLength
{ int8 Foo
, string
    MetaDataX , float zchar ,pack options1
,asx string_, }
packet u8x Foo@lengthOf(charz )
`" ++ [28040; 24687; 31867; 22411]%N ++ runes_of_ascii "`,  }
")).
Eval vm_compute in ("<<<M1989>>>" ++ check (runes_of_ascii "
packet leftPad {
@leftPad( '0')
u32
i64_ `100% of %d` ,repeat// 50% %s
`u8 x,` chars
    ,
} MetaData
    f32a
{ // packet A { u8 x, }
}")).
Eval vm_compute in ("<<<M2316>>>" ++ check (runes_of_ascii "options
    {
x_y_z// " ++ [27880; 37322]%N ++ runes_of_ascii "
= 10 ; }
packet body {
    @calculatedFrom(
// trailing space 
// " ++ [27880; 37322]%N ++ runes_of_ascii "
""1""
)	match T as Foo
    {
255 :T char[ }
,}")).
Eval vm_compute in ("<<<M1997>>>" ++ check (runes_of_ascii "
packet leftPad {
@leftPad( '0')
u32
i64_ `100% of %d` ,repeat// 50% %s
i8 chars
    , ,
} MetaData
    f32a
{ // packet A { u8 x, }
}")).
Eval vm_compute in ("<<<M3541>>>" ++ check (runes_of_ascii "packet A {
    match k as n {
        [
            ""a"", 22, ""c c"", 4, ""e"",
            66, ""g"", 8
        ] : B,
        2 : C,
    },
}")).
Eval vm_compute in ("<<<M1939>>>" ++ check (runes_of_ascii "
packet leftPad [
@leftPad( '0')
u32
i64_ `100% of %d` ,repeat// 50% %s
i8 chars
    ,
} MetaData
    f32a
{ // packet A { u8 x, }
}")).
Eval vm_compute in ("<<<M2250>>>" ++ check (runes_of_ascii "options
    {
x_y_z// " ++ [27880; 37322]%N ++ runes_of_ascii "
= 10 ; }
packet { body
    @calculatedFrom(
// trailing space 
// " ++ [27880; 37322]%N ++ runes_of_ascii "
""1""
)	match T as Foo
    {
255 :T , }
,}")).
Eval vm_compute in ("<<<M2021>>>" ++ check (runes_of_ascii "
packet leftPad {
@leftPad( '0')
u32
i64_ `100% of %d` ,repeat// 50% %s
i8 chars
    ,
} MetaData
    f32a
{ // packet A { u8 x, }
")).
Eval vm_compute in ("<<<M2050>>>" ++ check (runes_of_ascii "MetaData 
{ int8 Foo
, string
    MetaDataX , float zchar ,pack options1
,asx string_, }
packet u8x {Foo@lengthOf(charz )
`" ++ [28040; 24687; 31867; 22411]%N ++ runes_of_ascii "`,  }
")).
Eval vm_compute in ("<<<M2322>>>" ++ check (runes_of_ascii "options
    {
x_y_z// " ++ [27880; 37322]%N ++ runes_of_ascii "
= 10 ; }
packet body {
    @calculatedFrom(
// trailing space 
// " ++ [27880; 37322]%N ++ runes_of_ascii "
""1""
)	match T as Foo
    {
255 :T ,")).
Eval vm_compute in ("<<<M2317>>>" ++ check (runes_of_ascii "options
    {
x_y_z// " ++ [27880; 37322]%N ++ runes_of_ascii "
= 10 ; }
packet body {
    @calculatedFrom(
// trailing space 
// " ++ [27880; 37322]%N ++ runes_of_ascii "
""1""
)	match T as Foo
    {
255 :T")).
Eval vm_compute in ("<<<M1312>>>" ++ check (runes_of_ascii "  options
{ Logon // @lengthOf(
=
u16 roots =
'\x00'
//
//
;o
= ""abc"" ; }packet
    A { // `tick` ""quote"" 'q'
Z9_ charz	, }")).
Eval vm_compute in ("<<<M3705>>>" ++ check (runes_of_ascii "root packet f32a {
}

MetaData tag {
}

//	t
packet i8i8 {
    @lengthOf(options1)
    zchar[1] BodyLength @lengthOf(u),
}")).
Eval vm_compute in ("<<<M4337>>>" ++ check (runes_of_ascii "options {
    options1 = float64
    leftPad = true;
    MetaDataX = char[00];
    roots = false
}

packet string_ {
}")).
Eval vm_compute in ("<<<M1924>>>" ++ check (runes_of_ascii "packet a" ++ [769]%N ++ runes_of_ascii "b {
    roots `it's`
// trailing space 
//x
, char[ 42
    ]  A, // " ++ [27880; 37322]%N ++ runes_of_ascii "
f64
repeatCount
    `crlf
line`
,}")).
Eval vm_compute in ("<<<M1836>>>" ++ check (runes_of_ascii "packet [ {
    roots `it's`
// trailing space 
//x
, char[ 42
    ]  A, // " ++ [27880; 37322]%N ++ runes_of_ascii "
f64
repeatCount
    `crlf
line`
,}")).
Eval vm_compute in ("<<<M3637>>>" ++ check (runes_of_ascii "

  //
options{
// @lengthOf(
// a // b

  i64_=""a	b"";  //x
  	BodyLength
    = ' '
; lengthOf =f64  ;
    }

")).
Eval vm_compute in ("<<<M2989>>>" ++ check (runes_of_ascii "packet A {
  match k as n {
    [""a"", ""bb"", ""c c"", ""d"", ""e"", ""f"", ""g"", ""h"", ""i"", ""j"", ""k""] : B
    2 : C
  },
}")).
Eval vm_compute in ("<<<M3014>>>" ++ check (runes_of_ascii "packet A {
    u16 len @lengthOf(body) `a
b`,
    u32 crc @calculatedFrom(""CRC32"") `a
b`,
    string body,
}")).
Eval vm_compute in ("<<<M3514>>>" ++ check (runes_of_ascii "
// 50% %s
    	options 
    // c
    {

    f32a
=
    '\x00'
	;
	lengthOf
=

    ' ' ;

    }

")).
Eval vm_compute in ("<<<M2983>>>" ++ check (runes_of_ascii "packet A {
  match k as n {
    [""a"", ""bb"", 007, ""d"", ""e"", 66, ""g"", ""h"", 9, ""j""] : B,
    2 : C
  },
}")).
Eval vm_compute in ("<<<M3518>>>" ++ check (runes_of_ascii "options
{ 
lengthOf
    =//x
		i16
BodyLength 
=
	0
;
    pack=
false

    ; A=
char[
3

]  }")).
Eval vm_compute in ("<<<M2971>>>" ++ check (runes_of_ascii "packet A {
  match k as n {
    [""a"", ""bb"", 007, ""d"", ""e"", 66, ""g"", ""h"", 9] : B
    2 : C
  },
}")).
Eval vm_compute in ("<<<M2957>>>" ++ check (runes_of_ascii "packet A {
  match k as n {
    [""a"", ""bb"", 007, ""d"", ""e"", 66, ""g"", ""h""] : B,
    2 : C
  },
}")).
Eval vm_compute in ("<<<M1418>>>" ++ check (runes_of_ascii "packet
T T
{ match repeatCount as	calculatedFrom
{ [65535 ]	: As	,
} ,}
// trailing space 
")).
Eval vm_compute in ("<<<M1506>>>" ++ check (runes_of_ascii "packet
T
{ match repeatCount as	calculatedFrom
{ [65535 ]	: @As	,
} ,}
// trailing space 
")).
Eval vm_compute in ("<<<M1465>>>" ++ check (runes_of_ascii "packet
T
{ match repeatCount as	calculatedFrom
{ [65535 :	: As	,
} ,}
// trailing space 
")).
Eval vm_compute in ("<<<M1487>>>" ++ check (runes_of_ascii "packet
T
{ match repeatCount as	calculatedFrom
{ [65535 ]	: As	,
} }
// trailing space 
")).
Eval vm_compute in ("<<<M1778>>>" ++ check (runes_of_ascii "options{  lengthOf =//x
i16;
    BodyLength = 0 ; pack
= false 007
    A = char[ 3 ] }")).
Eval vm_compute in ("<<<M1824>>>" ++ check (runes_of_ascii "options{  lengthOf =//x
i16;
    BodyLength = 0 # ; pack
= false;
    A = char[ 3 ] }")).
Eval vm_compute in ("<<<M955>>>" ++ check (runes_of_ascii "
options {metadata = 3 u8x
    =
    false repeatCount=
    i64 ;
Z9_
    = false}")).
Eval vm_compute in ("<<<M4361>>>" ++ check (runes_of_ascii "packet A {
    B b `
        x`,
    B `
        x`,
    repeat B bs `
        x`,
}")).
Eval vm_compute in ("<<<M2927>>>" ++ check (runes_of_ascii "packet A {
  match k as n {
    [""a"", 22, ""c c"", 4, ""e"", 66] : B,
    2 : C
  },
}")).
Eval vm_compute in ("<<<M3385>>>" ++ check (runes_of_ascii "options {
    FixedStringPadFromLeft = true;
}
root packet P {
    char[4] z,
}
")).
Eval vm_compute in ("<<<M3256>>>" ++ check (runes_of_ascii "MetaData Foo { zchar[ 0 ]
// c
matchKey , } options { lengthOf = i32 u = 00 ; }")).
Eval vm_compute in ("<<<M2914>>>" ++ check (runes_of_ascii "packet A {
  match k as n {
    [""a"", 22, ""c c"", 4, ""e""] : B,
    2 : C
  },
}")).
Eval vm_compute in ("<<<M452>>>" ++ check (runes_of_ascii "packet  i8i8	{ repeat
    // " ++ [128512]%N ++ runes_of_ascii " emoji
    char //x
int ,
    // " ++ [27880; 37322]%N ++ runes_of_ascii "
    } 	 ")).
Eval vm_compute in ("<<<M496>>>" ++ check (runes_of_ascii "packet
    A
    { repeat zchar[
    // @lengthOf(
    65535] rootA , }
")).
Eval vm_compute in ("<<<M378>>>" ++ check (runes_of_ascii "
root packet _x{  f32a @calculatedFrom(	""{,}""
    ) `line1
line2` , }
")).
Eval vm_compute in ("<<<M2886>>>" ++ check (runes_of_ascii "packet A {
  match k as n {
    [1, ""bb"", 007] : B,
    2 : C
  },
}")).
Eval vm_compute in ("<<<M2882>>>" ++ check (runes_of_ascii "packet A {
  match k as n {
    [1, 22, 007] : B,
    2 : C
  },
}")).
Eval vm_compute in ("<<<M3595>>>" ++ check (runes_of_ascii "packet 	 // " ++ [27880; 37322]%N ++ runes_of_ascii "

BodyLength	{  f64
body 
@lengthOf(

o  )
    ,}
")).
Eval vm_compute in ("<<<M302>>>" ++ check (runes_of_ascii "packet
u8x { //
}root // " ++ [128512]%N ++ runes_of_ascii " emoji
packet // a // b
As	{ } 	 ")).
Eval vm_compute in ("<<<M3312>>>" ++ check (runes_of_ascii "packet u8x { } MetaData crc { char[ 4294967296 ] Foo
// c
, }")).
Eval vm_compute in ("<<<M3399>>>" ++ check (runes_of_ascii "root packet P {
    repeat string ss,
    repeat u16 ns,
}
")).
Eval vm_compute in ("<<<M3213>>>" ++ check (runes_of_ascii "packet A {
    match k as n {
        1 : B,// c
    },
}")).
Eval vm_compute in ("<<<M4194>>>" ++ check (runes_of_ascii "options {
    a = ""\
        "";
    b = ""\
        ""
}")).
Eval vm_compute in ("<<<M515>>>" ++ check (runes_of_ascii "packet
packetx {  char[
7	] BodyLength`it's` , }
")).
Eval vm_compute in ("<<<M3355>>>" ++ check (runes_of_ascii "root packet P {
    repeat char cs,
    u8 x,
}
")).
Eval vm_compute in ("<<<M929>>>" ++ check (runes_of_ascii "root packet BodyLength{ string
MetaDataX,
}")).
Eval vm_compute in ("<<<M2569>>>" ++ check (runes_of_ascii "packet A { repeat match k as n { 1 : B }, }")).
Eval vm_compute in ("<<<M2728>>>" ++ check (runes_of_ascii "as [ , MetaData @tag( false as packet f32")).
Eval vm_compute in ("<<<M4074>>>" ++ check (runes_of_ascii "
packet
    A

    { } 
    // c" ++ [8232]%N ++ runes_of_ascii "
 
")).
Eval vm_compute in ("<<<M487>>>" ++ check (runes_of_ascii "packet
stringy
    {
} packet
rootA{}
")).
Eval vm_compute in ("<<<M2590>>>" ++ check (runes_of_ascii "packet A { zchar[3] x @lengthOf(y), }")).
Eval vm_compute in ("<<<M3197>>>" ++ check (runes_of_ascii "options { a = 1; // a
 b = 2 // b
 }")).
Eval vm_compute in ("<<<M1138>>>" ++ check (runes_of_ascii "options
{ }
// packet A { u8 x, }
")).
Eval vm_compute in ("<<<M3975>>>" ++ check (runes_of_ascii "  packet
A
    {
	u8	x`%%d%!`	, }")).
Eval vm_compute in ("<<<M392>>>" ++ check (runes_of_ascii "// c
MetaData tag{char[] u , }
")).
Eval vm_compute in ("<<<M3072>>>" ++ check (runes_of_ascii "packet A {
    u8 x `%%d%!`,
}")).
Eval vm_compute in ("<<<M3350>>>" ++ check (runes_of_ascii "options { u8x = false } // c
")).
Eval vm_compute in ("<<<M3919>>>" ++ check (runes_of_ascii "packet A

    { }  // c" ++ [6158]%N ++ runes_of_ascii "
")).
Eval vm_compute in ("<<<M2454>>>" ++ check (runes_of_ascii "int8 int16 int32 int64 int")).
Eval vm_compute in ("<<<M685>>>" ++ check (runes_of_ascii "MetaData  metadata { }
")).
Eval vm_compute in ("<<<M2772>>>" ++ check (runes_of_ascii "`say ""hi""` uint8 ] char")).
Eval vm_compute in ("<<<M2582>>>" ++ check (runes_of_ascii "packet A { x y `d`, }")).
Eval vm_compute in ("<<<M354>>>" ++ check (runes_of_ascii " // trailing space ")).
Eval vm_compute in ("<<<M643>>>" ++ check (runes_of_ascii "packet matchKey{ }")).
Eval vm_compute in ("<<<M3147>>>" ++ check (runes_of_ascii "packet A {
}
// c" ++ [11]%N)).
Eval vm_compute in ("<<<M2704>>>" ++ check (runes_of_ascii "[ as 42 i32 int16")).
Eval vm_compute in ("<<<M2648>>>" ++ check (runes_of_ascii "root options { }")).
Eval vm_compute in ("<<<M2637>>>" ++ check (runes_of_ascii "packet A { } }")).
Eval vm_compute in ("<<<M2790>>>" ++ check (runes_of_ascii "u_;=}S0o.59_")).
Eval vm_compute in ("<<<M2490>>>" ++ check (runes_of_ascii "@leftPadx")).
Eval vm_compute in ("<<<M2469>>>" ++ check (runes_of_ascii "packets")).
Eval vm_compute in ("<<<M3156>>>" ++ check (runes_of_ascii "// c 	")).
Eval vm_compute in ("<<<M3096>>>" ++ check (runes_of_ascii "// c" ++ [12288]%N)).
Eval vm_compute in ("<<<M2534>>>" ++ check (runes_of_ascii "0x10")).
Eval vm_compute in ("<<<M2539>>>" ++ check (runes_of_ascii "a-b")).
Eval vm_compute in ("<<<M2555>>>" ++ check (runes_of_ascii "	a")).
