From FP Require Import Lexer Parser ShowPT Digest Formatter.
From Coq Require Import String List NArith.
Import ListNotations.
Open Scope string_scope.
Set Printing Width 100000000.
Set Printing Depth 100000000.
Definition show_fres (r : fres) : string :=
  match r with
  | FOk s => "OK:" ++ sh_escaped s ""
  | FErr s => "ERR:" ++ sh_escaped s ""
  | FPanic p => "PANIC:" ++ p
  end.
Definition check (rs : list rune) : string := digest (show_fres (format_res rs)).
Definition full (rs : list rune) : string := show_fres (format_res rs).
Eval vm_compute in ("<<<M4087>>>" ++ check (runes_of_ascii "  MetaData 
float {
lengthOf u128
    `tab	here`,
u
    x ,

    metadata	crc`line1
line2`
	,} 
root
    packet //

  trueish
{ @leftPad
(
'0')repeat
	zchar[10

]lengthOf  `u8 x,`,@leftPad
// " ++ [27880; 37322]%N ++ runes_of_ascii "

  // trailing space 
		( '\x00' )
zchar[  255
    ]
    tag 
  // a // b

// @lengthOf(
	, 
@leftPad

( 
)
u128

    trueish , chars	@lengthOf( 
i64_ )

    `it's` 	 //	t
  , @tag( 10	) zchar[007

    ]

    asx,

char[1 
]	zchar ,
    // `tick` ""quote"" 'q'
  // trailing space 
@tag(
7
        // packet A { u8 x, }
	)
@calculatedFrom( ""packet""

)match

    f32a
    as	uint8x
    {
00

    :
	Header

    ,007  // trailing space 
	:charz
    ,

    [ 255 ,""" ++ [233]%N ++ runes_of_ascii "t" ++ [233]%N ++ runes_of_ascii """
    ]: 
rootA 
        // `tick` ""quote"" 'q'
  ""it's"":

    lengthOf , ""x y""

:
pack//x
,
	""" ++ [28040; 24687]%N ++ runes_of_ascii """ 
: _x,
}
    , repeat

    Header	{

char[7] i8i8	,
	char

    msg_type  @lengthOf( pack 
)
	`line1
line2`,
	// packet A { u8 x, }
    // a // b
    uint8
crc@lengthOf( zchar
    )
`line1
line2`
,

}  ,
}
packet Foo{} packet 	 // @lengthOf(
  Foo { zchar[ 0123456789	]packetx @calculatedFrom( ""packet""  // packet A { u8 x, }
	) `doc`

, 
zchar
	@calculatedFrom(  ""\n""	//	t
	)  `
` ,	@leftPad 
(
'\x00')
    @tag(// trailing space 
	65535

) char[
	0

/// triple
  	// c

	]
metadata
@calculatedFrom(  ""a\""b"" )
	,
repeat

    lengthOf {

    lengthOf`" ++ [233]%N ++ runes_of_ascii "` 
    // `tick` ""quote"" 'q'
, }

,As 
,

    }packet BodyLength{  //x
  	@calculatedFrom(
""a\""b"") @lengthOf( x) 
@tag( 00  ) Packet 
zchar ``
	,@tag(
	0123456789
	) repeat
    char[255

    ]
x`it's` 
,	// a // b
  u  
  // " ++ [128512]%N ++ runes_of_ascii " emoji
// c
  	{
    match
BodyLength
as 
// packet A { u8 x, }
    // `tick` ""quote"" 'q'
	tag
	{ 3  :matchKey
    ,}  ,}
,
	@tag(  0123456789

    )
	// " ++ [128512]%N ++ runes_of_ascii " emoji
	char asx
`line1
line2` ,
@lengthOf( 
chars
)
	@calculatedFrom(""a	b"" )
f64
    len ,match
int

    as	//x
    	BodyLength
{
1 :

Header ,[
    0	]	: // c

  tag """ ++ [28040; 24687]%N ++ runes_of_ascii """
:

    asx ,	} ,  @leftPad  (' ' )
	metadata 
`crlf
line` , 

// `tick` ""quote"" 'q'

// trailing space 
len

    @lengthOf( metadata
	) , zchar[

    65535	] A
	@lengthOf(// c

	trueish  )
, @leftPad ( '0' )  repeatCount

Z9_

`" ++ [233]%N ++ runes_of_ascii "` ,
}")).
Eval vm_compute in ("<<<M4317>>>" ++ check (runes_of_ascii "MetaData float {
    lengthOf u128 `tab	here`,
    u x,
    metadata crc `line1
    line2`,
}

root packet trueish {
    @leftPad('0')
    repeat zchar[10] lengthOf `u8 x,`,
    @leftPad('\x00')
    zchar[255] tag,
    @leftPad()
    u128 trueish,
    chars @lengthOf(i64_) `it's`,
    @tag(10)
    zchar[007] asx,
    char[1] zchar,
    @tag(7)
    @calculatedFrom(""packet"")
    match f32a as uint8x {
        00 : Header,
        007 : charz,
        [255, """ ++ [233]%N ++ runes_of_ascii "t" ++ [233]%N ++ runes_of_ascii """] : rootA,
        // `tick` ""quote"" 'q'
        ""it's"" : lengthOf,
        ""x y"" : pack,
        """ ++ [28040; 24687]%N ++ runes_of_ascii """ : _x,
    },
    repeat Header {
        char[7] i8i8,
        char msg_type @lengthOf(pack) `line1
        line2`,
        // packet A { u8 x, }
        // a // b
        uint8 crc @lengthOf(zchar) `line1
        line2`,
    },
}

packet Foo {
}

packet Foo {
    zchar[0123456789] packetx @calculatedFrom(""packet"") `doc`,
    zchar @calculatedFrom(""\n"") `
    `,
    @leftPad('\x00')
    @tag(65535)
    char[0] metadata @calculatedFrom(""a\""b""),
    repeat lengthOf {
        lengthOf `" ++ [233]%N ++ runes_of_ascii "`,
    },
    As,
}

packet BodyLength {
    @calculatedFrom(""a\""b"")
    @lengthOf(x)
    @tag(00)
    Packet zchar ``,
    @tag(0123456789)
    repeat char[255] x `it's`,// a // b
    u {
        match BodyLength as tag {
            3 : matchKey,
        },
    },
    @tag(0123456789)
    // " ++ [128512]%N ++ runes_of_ascii " emoji
    char asx `line1
    line2`,
    @lengthOf(chars)
    @calculatedFrom(""a	b"")
    f64 len,
    match int as BodyLength {
        1 : Header,
        [0] : tag,
        """ ++ [28040; 24687]%N ++ runes_of_ascii """ : asx,
    },
    @leftPad(' ')
    metadata `crlf
    line`,
    // `tick` ""quote"" 'q'
    // trailing space 
    len @lengthOf(metadata),
    zchar[65535] A @lengthOf(trueish),
    @leftPad('0')
    repeatCount Z9_ `" ++ [233]%N ++ runes_of_ascii "`,
}")).
Eval vm_compute in ("<<<M3755>>>" ++ check (runes_of_ascii "root packet Logon {
    char[7] calculatedFrom @calculatedFrom(""// no comment"") `two words`,
    uint16 MetaDataX `u8 x,`,
    string a1 @lengthOf(Logon),
    @tag(0)
    @lengthOf(u8x)
    @calculatedFrom(""it's"")
    string zchar `doc`,
    @lengthOf(x_y_z)
    // trailing space 
    trueish {
        Z9_ {
            match float as lengthOf {
                00 : _x,
            },
            repeat x_y_z {
                u8x uint8x,
            },
            char[007] x_y_z,
        },
        Z9_ `" ++ [28040; 24687; 31867; 22411]%N ++ runes_of_ascii "`,
    },
    f32a {
        repeat zchar[0123456789] A,
        repeat i64 stringy,
        leftPad `crlf
                line`,
    },
}

packet u128 {
    match _x as MetaDataX {
        [42, ""x y""] : A,
    },
    @lengthOf(charz)
    charz {
        match x_y_z as f32a {
            [007, 10, 42, 0123456789, """ ++ [233]%N ++ runes_of_ascii "t" ++ [233]%N ++ runes_of_ascii """] : x_y_z,
            // @lengthOf(
            7 : u128,
            ""// no comment"" : repeatCount,
            ""a\\"" : int,
            ""x y"" : u128,
        },
    },
    i16 chars @lengthOf(zchar) `u8 x,`,
}

packet u {
    repeat u options1,/// triple
    @calculatedFrom(""CRC32"")
    float32 u128 @lengthOf(u8x) `{ , }`,
    @leftPad('\x00')
    i8 crc `say ""hi""`,
}

packet calculatedFrom {
}

packet pack {
    zchar[65535] calculatedFrom,
    len {
        stringy @lengthOf(body),
    },
    @lengthOf(x_y_z)
    uint8x @lengthOf(tag),
    @calculatedFrom(""x y"")
    zchar[65535] tag @calculatedFrom(""a\\"") `" ++ [28040; 24687; 31867; 22411]%N ++ runes_of_ascii "`,
    i64 uint8x,
    @lengthOf(int)
    u8 Pad @lengthOf(o) `{ , }`,
}")).
Eval vm_compute in ("<<<M3711>>>" ++ check (runes_of_ascii "packet asx {
    Logon {
        body @calculatedFrom(""it's""),// @lengthOf(
        char[3] MetaDataX,
        string leftPad `crlf
                line`,
        u128 @calculatedFrom(""packet""),
    },
}//x

packet x_y_z {
    len {
        match leftPad as rootA {
            [
                007, 0123456789, ""a\\"", ""\" ++ [233]%N ++ runes_of_ascii """, ""`tick`"",
                ""{,}""
            ] : falsey,
            4294967296 : matchKey,
        },
        int32 Z9_,
        a1 {
            x_y_z,
            repeat _x `doc`,
            char[] falsey @lengthOf(u128) `doc`,
        },
        match Foo as stringy {
            7 : asx,
            ""x y"" : calculatedFrom,
        },
    },
    @lengthOf(i64_)
    @rightPad('\x00')
    @tag(42)
    char[] repeatCount,
    match Z9_ as int {
        [255, 7, ""a	b"", ""abc""] : asx,
        ""1"" : chars,
        [00, 4294967296, ""a	b""] : leftPad,
        [
            65535, 0, 007, 255, 3,
            ""abc"", ""it's"", ""x y""
        ] : leftPad,
        [4294967296] : u,
        // " ++ [128512]%N ++ runes_of_ascii " emoji
        // " ++ [128512]%N ++ runes_of_ascii " emoji
        0123456789 : a1,
    },
    x_y_z u8x,
    asx {
        repeat Header float `crlf
                line`,
        rootA charz `a\`,
    },
    @calculatedFrom(""CRC32"")
    string string_,
    @tag(65535)
    @rightPad('\x00')
    u8x a1 `{ , }`,
}

options {
    // c
    float = 007
}

root packet metadata {
}")).
Eval vm_compute in ("<<<M174>>>" ++ check (runes_of_ascii "root
packet charz {// a // b
@rightPad
    //	t
    (
) @lengthOf(
    Pad ) @rightPad ( ' '
) MetaDataX @lengthOf( BodyLength
) `" ++ [28040; 24687; 31867; 22411]%N ++ runes_of_ascii "`
,
    repeatCount /// triple
A
`
`,	@tag(
    4294967296) // trailing space 
metadata u8x ,
    @calculatedFrom( ""packet"" ) repeat Pad // @lengthOf(
`say ""hi""`
,  } root packet// trailing space 
rootA {// " ++ [27880; 37322]%N ++ runes_of_ascii "
rootA	{ string trueish ,
}
    ,
} MetaData
lengthOf {
    } packet _x { repeat msg_type { char[ 65535 ]
crc ,	lengthOf
    {
    Packet ,
    // c
    string_
    @calculatedFrom(""a\""b""),
f32 rootA//
,
}	,
// " ++ [27880; 37322]%N ++ runes_of_ascii "
// `tick` ""quote"" 'q'
} ,i16 int  , @lengthOf( matchKey) //	t
i8i8 int `two words` ,
// packet A { u8 x, }
// @lengthOf(
repeat Logon{
repeat
    //	t
    uint8	f32a ,
    a1
    //
    { repeat char[1
] Foo , }  , uint8x
// @lengthOf(
// packet A { u8 x, }
{ char[ 4294967296 ]
T `{ , }`
, u32
    repeatCount `" ++ [28040; 24687; 31867; 22411]%N ++ runes_of_ascii "`
    // c
    ,} , }
    ,
repeat MetaDataX
, char[ 4294967296 ] i8i8//
@lengthOf( _x ) ,}
packet falsey {
    tag
{ char[ // " ++ [27880; 37322]%N ++ runes_of_ascii "
00
    // `tick` ""quote"" 'q'
    ] int@lengthOf( u128
    ) ,
}
,roots body ,u16 stringy
// trailing space 
// @lengthOf(
@lengthOf( Pad ) `line1
line2` ,
stringy
@lengthOf(  chars ) ,uint8 lengthOf
`" ++ [233]%N ++ runes_of_ascii "` ,
    // " ++ [128512]%N ++ runes_of_ascii " emoji
    }")).
Eval vm_compute in ("<<<M4017>>>" ++ check (runes_of_ascii "root packet a1 {
    uint64 body,
    @lengthOf(rootA)
    char[1] zchar,
    BodyLength,
    string_,
    char[] float @lengthOf(lengthOf),//
    uint32 asx `" ++ [28040; 24687; 31867; 22411]%N ++ runes_of_ascii "`,
    char[] uint8x @calculatedFrom(""abc""),
    @tag(255)
    @calculatedFrom(""a\\"")
    zchar[3] options1,
}

packet charz {
    @rightPad(' ')
    matchKey @lengthOf(u) `u8 x,`,
    @lengthOf(len)
    @lengthOf(falsey)
    u @calculatedFrom(""a\\""),
    match i8i8 as Packet {
        [""a	b""] : roots,
        ""abc"" : trueish,
        [65535, ""a\\""] : asx,
        0123456789 : a1,
        1 : i64_,
    },
    match len as Header {
        [
            0, 0123456789, 7, 0, ""\n"",
            ""a\\""
        ] : o,
        ""x y"" : crc,
        [3, ""\" ++ [233]%N ++ runes_of_ascii """] : lengthOf,
        [10, ""x y""] : u8x,
        1 : Packet,
        007 : Z9_,
    },
    @calculatedFrom(""packet"")
    @tag(65535)
    repeat Pad rootA,
    @tag(4294967296)
    @lengthOf(stringy)
    crc @lengthOf(uint8x) `" ++ [28040; 24687; 31867; 22411]%N ++ runes_of_ascii "`,
}

MetaData u8x {
    len calculatedFrom,
    u16 asx,
}

MetaData Logon {
    u16 chars ``,
    A matchKey `a\`,
    char[007] Header,
    len uint8x,
    A Packet `line1
        line2`,
    string trueish `u8 x,`,
}")).
Eval vm_compute in ("<<<M4121>>>" ++ check (runes_of_ascii "  // @lengthOf(
    	packet

options1{

    @lengthOf(i8i8

) i64_

    int`{ , }`

,
	char[] 
int
    ,zchar[
    00
//	t
    // packet A { u8 x, }
  ]	len
	, } packet
u128
{

@tag( 3  //	t
  	) @calculatedFrom(
    //
	  // @lengthOf(

""// no comment"")  options1 	 // packet A { u8 x, }

{int16 	 //x
    calculatedFrom
    @calculatedFrom(

""" ++ [28040; 24687]%N ++ runes_of_ascii """) , chars  @lengthOf(

calculatedFrom  )
    ,

crc {  o @calculatedFrom(""" ++ [233]%N ++ runes_of_ascii "t" ++ [233]%N ++ runes_of_ascii """

    )  , float

    u8x
,  repeat metadata
    uint8x
, 
} ,} 
, float64 options1

    ,  @leftPad (
    )
    @lengthOf(

Foo
)
	@calculatedFrom(
	""packet"" )

//	t
      // c

char[ 
1// c
	]
	i8i8@calculatedFrom(
""abc""	)
`{ , }`
	, @leftPad  (
    '0'
	) 
T	{	int32
i8i8`u8 x,`
	    //
  ,  match  Z9_
    as
    string_
    {	[7,  10 
,65535 ,0
,	42, 255 ,	""\" ++ [233]%N ++ runes_of_ascii """ 
  // packet A { u8 x, }
	, ""`tick`"" ] 
:
	Foo
,""" ++ [233]%N ++ runes_of_ascii "t" ++ [233]%N ++ runes_of_ascii """ :

u8x

[
255
	, """"  ,
0 , 
"""" ,
    """ ++ [233]%N ++ runes_of_ascii "t" ++ [233]%N ++ runes_of_ascii """ , 255

    , 4294967296 ,00

    ]

:
i64_	,
10

:
    Foo }
	,
    // trailing space 
		pack
    @calculatedFrom(
	""`tick`"" )

    ,

}
	,
    a1 	 //	t
	`say ""hi""`

    ,  }")).
Eval vm_compute in ("<<<M153>>>" ++ check (runes_of_ascii "options
// packet A { u8 x, }
/// triple
{	}MetaData	zchar// @lengthOf(
{
    A i64_
`crlf
line` , char[]string_ `
` , Packet
stringy `a\` , // `tick` ""quote"" 'q'
char[ 1] i8i8 // @lengthOf(
,float32
options1 `{ , }` ,} packet
    a1{@lengthOf( o ) //x
o { calculatedFrom @calculatedFrom(
    //x
    ""a\\""
) , } , @lengthOf(
a1) repeat i8i8
    stringy ,int8	pack , @lengthOf( u8x
    ) string
packetx @calculatedFrom( ""`tick`"" ) `` , @lengthOf( Header ) @tag( 0123456789 ) @calculatedFrom(
""CRC32"" ) repeat BodyLength `two words` , @lengthOf( T)  zchar[ 1//
] repeatCount@lengthOf( o	) ,
    match // " ++ [128512]%N ++ runes_of_ascii " emoji
As as options1 { ""1"":
    o, ""a\\"": crc
,[ 0123456789, ""a	b"" // `tick` ""quote"" 'q'
, """ ++ [128512]%N ++ runes_of_ascii """ ,	65535
, """ ++ [128512]%N ++ runes_of_ascii """
    // `tick` ""quote"" 'q'
    ,  ""1""	,
00 ] : x , [ ""abc""	,
""\n""
, 4294967296 ,
10 ,
    //x
    0123456789
,	42 , """ ++ [128512]%N ++ runes_of_ascii """, 3 ] :
    // " ++ [128512]%N ++ runes_of_ascii " emoji
    msg_type } , match
u8x as
lengthOf
    { [""x y"" , ""{,}""// a // b
] :	asx // `tick` ""quote"" 'q'
4294967296  : chars,
    ""CRC32"" : a1 ""a	b"" :metadata ,  7 : zchar  , }
, }")).
Eval vm_compute in ("<<<M3896>>>" ++ check (runes_of_ascii "MetaData A 
  //
// " ++ [128512]%N ++ runes_of_ascii " emoji
	  {

    u8x	A	/// triple

`` ,
int16 
roots	`// not a comment`

    ,	u128 u
	,
	int options1
    `" ++ [28040; 24687; 31867; 22411]%N ++ runes_of_ascii "`,

    i16

repeatCount,i8 
roots , // `tick` ""quote"" 'q'
	} root packet	matchKey{ lengthOf /// triple
{

    i64_

@lengthOf(
	msg_type  ) ,  } ,}
options
    {

    x = char[]
}  // trailing space 

packet As
{ i64_`crlf
line`,	// c
      rootA 
Z9_
    ,

string 
Pad

    @calculatedFrom(""// no comment""
    )
    `say ""hi""` , @rightPad
('\x00') @calculatedFrom(""{,}"" )// `tick` ""quote"" 'q'
  @calculatedFrom(
""CRC32"" ) falsey
`doc`
, match
Logon as 
tag 
{  3  :	f32a ,

    ""abc"": o
,	255 :A
""abc""  : leftPad
	, },
	@calculatedFrom(
	""" ++ [233]%N ++ runes_of_ascii "t" ++ [233]%N ++ runes_of_ascii """
	) repeat  u32 _x `{ , }` ,

repeat stringy
`a\`	,
        // @lengthOf(
  // " ++ [128512]%N ++ runes_of_ascii " emoji
	  len// packet A { u8 x, }
	  @lengthOf(  Header
	)
//
  // " ++ [27880; 37322]%N ++ runes_of_ascii "
`" ++ [28040; 24687; 31867; 22411]%N ++ runes_of_ascii "`
,

    i32

len@lengthOf(

repeatCount )

    `line1
line2`,  @tag( 

//x
    // a // b
42 	 //x

)BodyLength , 
} ")).
Eval vm_compute in ("<<<M3885>>>" ++ check (runes_of_ascii "//x
packet u8x {
    @lengthOf(As)
    repeat char[4294967296] int `{ , }`,
    repeat int8 len `two words`,
}

root packet tag {
}

root packet rootA {
    o @calculatedFrom(""""),
    leftPad i64_ `it's`,// " ++ [27880; 37322]%N ++ runes_of_ascii "
    @tag(7)
    float,
    int32 x_y_z,
    repeat roots {
        zchar[10] a1,
        f32a options1 `crlf
        line`,
        match _x as zchar {
            1 : u8x,
            ""// no comment"" : float,
            [4294967296, 10, 1, """ ++ [233]%N ++ runes_of_ascii "t" ++ [233]%N ++ runes_of_ascii """, """ ++ [28040; 24687]%N ++ runes_of_ascii """] : u128,
            [42, ""\" ++ [233]%N ++ runes_of_ascii """] : stringy,
            [1, ""\n""] : falsey,
        },
        string charz @calculatedFrom(""""),
    },
    char[] options1 `
    `,
    //	t
    /// triple
    u8x {
        repeat msg_type matchKey `u8 x,`,
    },
    A @lengthOf(pack),
    i64 stringy,
}

packet i8i8 {
    i64_ u128,
    @lengthOf(u8x)
    repeat float64 f32a,
    @calculatedFrom(""`tick`"")
    pack `" ++ [233]%N ++ runes_of_ascii "`,
    uint64 Z9_ @calculatedFrom("""") `tab	here`,
}")).
Eval vm_compute in ("<<<M4550>>>" ++ check (runes_of_ascii "root

packet

calculatedFrom

    {  /// triple
    @calculatedFrom( // packet A { u8 x, }

""{,}"")	match asx
	as i8i8 {""CRC32""

:	f32a,
""// no comment""  :
    Packet, 	 // trailing space 
},
    repeat zchar[

7 
]

len , //

	match	options1 	 // c

as
	string_  {
""" ++ [128512]%N ++ runes_of_ascii """
    :metadata
,	[

    ""\n"" 
// `tick` ""quote"" 'q'
	//

,
""CRC32""
, ""a\""b""]

:
	    // " ++ [128512]%N ++ runes_of_ascii " emoji
  // " ++ [128512]%N ++ runes_of_ascii " emoji
    x_y_z // " ++ [27880; 37322]%N ++ runes_of_ascii "
	,42
:
string_
},@lengthOf(

msg_type
	)string Pad  
  // trailing space 
      // @lengthOf(

	`tab	here`	,	f32a ,	match
    Logon

    as  stringy {007 
: 
metadata	,
	[ 255
, 10 
]
:  matchKey
,

    [10,""1""

    ,	""`tick`"" ,0  ]
    :roots,255

// @lengthOf(
// c

:

o ,
[ 1

    ]:

    msg_type  ,0123456789
:falsey }
    ,  }
root
    packet  crc 
{
}

options { falsey =

false
    ;  len

=	""\" ++ [233]%N ++ runes_of_ascii """ 	 // " ++ [27880; 37322]%N ++ runes_of_ascii "
      ;A  = ""a	b""	lengthOf	=  ""1""
} ")).
Eval vm_compute in ("<<<M759>>>" ++ check (runes_of_ascii "packet x {
    u16
    msg_type @lengthOf(BodyLength ) ,// trailing space 
@calculatedFrom(  """ ++ [28040; 24687]%N ++ runes_of_ascii """ ) repeat Header { char[
    0123456789 ] // " ++ [128512]%N ++ runes_of_ascii " emoji
repeatCount ,zchar[ 7] i64_
@calculatedFrom(
""" ++ [28040; 24687]%N ++ runes_of_ascii """ ) , repeat T zchar`tab	here`,
    } , uint8
    body`doc`, repeat char[]i8i8 ,
uint32 f32a@calculatedFrom(
""`tick`""
// packet A { u8 x, }
// packet A { u8 x, }
) ,
@rightPad ( ' ' ) match
rootA as matchKey{
42:
lengthOf
    // `tick` ""quote"" 'q'
    ""// no comment"" : Z9_ , [""a\\"" , /// triple
1]:
    // @lengthOf(
    len
, 10
:trueish,
    }
    ,
    f64 Logon
@lengthOf( T ) //
`crlf
line` , match
/// triple
// @lengthOf(
float	as i8i8 { ""\n"": i64_ , } ,
@lengthOf( u8x)// trailing space 
@leftPad
('\x00'
    ) char[  007] body	`it's` , @leftPad (
'0' )
    string crc @calculatedFrom( ""a\\"" ) `" ++ [28040; 24687; 31867; 22411]%N ++ runes_of_ascii "`  , }
")).
Eval vm_compute in ("<<<M1296>>>" ++ check (runes_of_ascii "packet
    body { @tag(255 ) int @lengthOf( matchKey
    ) `tab	here` ,
}
    packet Z9_ { @lengthOf( As
)
    repeat _x
lengthOf ,	@tag( 0123456789
    ) repeat
uint8x ,int64  stringy@calculatedFrom(
    ""{,}"" )`crlf
line`
, //x
@lengthOf(	i8i8)@tag( 4294967296	) @rightPad ( // c
'0' // `tick` ""quote"" 'q'
) char[
    // c
    3]
int , } packet roots { } root
packet body { match f32a as  u8x{//x
""\" ++ [233]%N ++ runes_of_ascii """ //x
:	chars, } , @tag(255 )
@tag( 00) trueish
Header, @tag( //x
1)
match
A
    as falsey { [""a\""b"" ]: i64_ ,// trailing space 
[ 7 ,""packet"" , ""{,}""
, 4294967296 , 007] :u128 , 0
:
string_ , 007 : x
    , 1 :As ,
    }
    , @lengthOf(
    options1 ) repeat u16  Header
`` ,string trueish
, // " ++ [128512]%N ++ runes_of_ascii " emoji
@lengthOf( len ) x repeatCount
    `crlf
line` ,
    }
")).
Eval vm_compute in ("<<<M870>>>" ++ check (runes_of_ascii "packet As { //	t
char[ 4294967296
    ] o
    @calculatedFrom(
    ""// no comment"" ) , @calculatedFrom( ""\" ++ [233]%N ++ runes_of_ascii """
)Foo{ pack@lengthOf( uint8x  ) , } ,@calculatedFrom( ""it's"") @lengthOf( Pad ) //
@calculatedFrom( """ ++ [128512]%N ++ runes_of_ascii """ )
    repeat
zchar[ 42 ]BodyLength ,
match body  as
T
{
    255 //x
: msg_type
// @lengthOf(
// @lengthOf(
, 4294967296 : metadata
    , [ ""{,}"" , 4294967296
] :f32a
    7  : options1
,
    10 :
    float , [
    ""abc"" ,  ""abc""
, 0
    //x
    ] : u ,
}  , repeat
    //	t
    int64 o `
`  , i8i8
    `// not a comment` , } packet x { }  packet falsey	{
    repeat char
    Logon	, }packet
    _x
    {
@calculatedFrom( ""a\""b"")@tag( 7
// trailing space 
// a // b
) @calculatedFrom( ""a\\"" ) metadata
    // " ++ [128512]%N ++ runes_of_ascii " emoji
    , }
")).
Eval vm_compute in ("<<<M4169>>>" ++ check (runes_of_ascii "
options
    { 
}	root packet 
a1 {@tag( 00)

    Logon , @calculatedFrom(""{,}""

    )
    repeatCount
    // a // b
// packet A { u8 x, }
	  {
repeat 
float i64_,match u8x 	 // trailing space 
	as leftPad 

    // `tick` ""quote"" 'q'

  { 3
    :
	u128 ,
    1: i8i8
//	t
  // " ++ [128512]%N ++ runes_of_ascii " emoji

,

42
	:
	u128
,

""" ++ [233]%N ++ runes_of_ascii "t" ++ [233]%N ++ runes_of_ascii """
:  msg_type

    ,

[

    1 , 
42]
:

A

,  }
	, repeat
i64
	metadata

    ,

},
	match
len 
as  Z9_ 
{
	255 
:

o
    ,
	0123456789
	:	Pad	,  //
[7,  ""{,}""  , 	 // trailing space 
	  ""abc""

    , 
007 
] 
: chars

,
	3: // packet A { u8 x, }
    	packetx 00
:  //
o  , 	 /// triple

  }
	,

zchar[ 0123456789] 
i64_
@lengthOf(
chars ),float32	trueish  `" ++ [28040; 24687; 31867; 22411]%N ++ runes_of_ascii "` ,}")).
Eval vm_compute in ("<<<M3922>>>" ++ check (runes_of_ascii "root packet A {
    @tag(42)
    match Logon as rootA {
        0123456789 : int,
    },
    repeat char[] uint8x `crlf
        line`,
    int {
        // `tick` ""quote"" 'q'
        //
        repeat f64 Packet,
        uint8x @calculatedFrom(""1""),
        string x `it's`,
    },
    @lengthOf(Foo)
    @calculatedFrom(""a	b"")
    @lengthOf(body)
    metadata {
        match pack as matchKey {
            ""x y"" : falsey,
            ""it's"" : Header,
        },
        body {
            char[] len,/// triple
        },
    },
    char[0123456789] T @calculatedFrom(""`tick`""),
}

options {
    len = ' '
}

MetaData As {
    f64 As,
    char[0123456789] x,
}")).
Eval vm_compute in ("<<<M299>>>" ++ check (runes_of_ascii "packet
As {
char[ 42	]//
chars
@calculatedFrom(
""a\""b"" ) `it's` ,f32a falsey // trailing space 
`// not a comment` , // " ++ [128512]%N ++ runes_of_ascii " emoji
string
trueish
`" ++ [28040; 24687; 31867; 22411]%N ++ runes_of_ascii "` ,
@lengthOf(  metadata )@tag(65535 ) @calculatedFrom( ""`tick`"" ) repeat Logon { x_y_z@lengthOf(lengthOf ),uint32  u
, i64_ @calculatedFrom( ""CRC32""
    )
`a\` , asx @calculatedFrom( """" ) `u8 x,` ,	} ,
u16
    _x `` , repeat string_
//
// `tick` ""quote"" 'q'
, options1 f32a , @calculatedFrom(""\n""// a // b
) Packet @lengthOf( zchar
    ) , }// `tick` ""quote"" 'q'
options { // a // b
} packet a1 { @tag( 0123456789)u8
    uint8x	`{ , }` ,
    u32// " ++ [27880; 37322]%N ++ runes_of_ascii "
x_y_z `say ""hi""`
, }
")).
Eval vm_compute in ("<<<M938>>>" ++ check (runes_of_ascii "options {	o/// triple
= '0'
; } packet // @lengthOf(
u128	{
// @lengthOf(
// `tick` ""quote"" 'q'
@calculatedFrom(""{,}"" )
uint16
pack
@calculatedFrom( """ ++ [233]%N ++ runes_of_ascii "t" ++ [233]%N ++ runes_of_ascii """)
, }
packet
A { //x
u8 chars@lengthOf( BodyLength )
    ,
    lengthOf @calculatedFrom(//x
""// no comment""
    ) , x_y_z{ string
    Pad  `" ++ [233]%N ++ runes_of_ascii "` ,
    // " ++ [27880; 37322]%N ++ runes_of_ascii "
    len{ zchar[ 0123456789 ]
T
    ,
    match // a // b
u128 as	metadata  { 3 : u128 , ""\n"" :x [ """ ++ [233]%N ++ runes_of_ascii "t" ++ [233]%N ++ runes_of_ascii """,
//
// " ++ [27880; 37322]%N ++ runes_of_ascii "
""packet""
    ] : // @lengthOf(
tag 10
: options1 , ""abc""
    : // trailing space 
u ,	},} ,tag
@calculatedFrom(
    // packet A { u8 x, }
    """" )
`it's`	, } , } // " ++ [27880; 37322]%N)).
Eval vm_compute in ("<<<M4394>>>" ++ check (runes_of_ascii "options {
    LittleEndian = false;
    ArrayPrefixLenType = u8;
    FixedStringPadChar = '0';
}

packet Order {
    InNote94 {
        f32 f1,
        f64 Side2,
        repeat InTail47 {
            char[] seqNo,
            char[] Tail,
            char[] lastPx,
        },
    },
    zchar[7] f1,
    u8 Side2,
}

root packet Reject {
    repeat char[4] Flags,
    InPrice63 {
        InSeqno41 {
            repeat i8 OrderId,
            repeat i32 clOrdID,
            char[9] tag7,
            char[] lastPx,
        },
        Order,
        uint8 Side2,
    },
}")).
Eval vm_compute in ("<<<M614>>>" ++ check (runes_of_ascii "root packet
packetx
    {	string_  leftPad ,
// " ++ [27880; 37322]%N ++ runes_of_ascii "
//x
} root
    packet  o
{x metadata `it's`, uint8
metadata , i32
    trueish, i64_ @calculatedFrom( ""`tick`"") ,// packet A { u8 x, }
match matchKey  as
repeatCount {[ //x
""`tick`""
]
: Pad , 10
    :
    // `tick` ""quote"" 'q'
    charz ,  7 : msg_type// c
}
, float64 body
    @calculatedFrom( ""it's"") ,x_y_z @lengthOf(Header /// triple
),body @calculatedFrom(
    """ ++ [28040; 24687]%N ++ runes_of_ascii """
    )`{ , }` ,
} options{ } // " ++ [128512]%N ++ runes_of_ascii " emoji
options{ Z9_/// triple
=
    true;Z9_ = false leftPad = //x
' 'As =char[] ;	}")).
Eval vm_compute in ("<<<M3206>>>" ++ check (runes_of_ascii "// top
options
    // c0
{
    // c1
charz
    // c2
=
    // c3
f64
    // c4
;
    // c5
metadata
    // c6
=
    // c7
7
    // c8
;
    // c9
}
    // c10
options
    // c11
{
    // c12
u128
    // c13
=
    // c14
10
    // c15
options1
    // c16
=
    // c17
true
    // c18
;
    // c19
zchar
    // c20
=
    // c21
uint16
    // c22
;
    // c23
lengthOf
    // c24
=
    // c25
true
    // c26
;
    // c27
}
    // c28
options
    // c29
{
    // c30
len
    // c31
=
    // c32
1
    // c33
}
    // c34
")).
Eval vm_compute in ("<<<M4510>>>" ++ check (runes_of_ascii "MetaData a1 {
    _x asx,
}

MetaData Packet {
    BodyLength int,
}

root packet x {
    @leftPad(' ')
    f64 repeatCount @lengthOf(x) `line1
    line2`,
    @rightPad('\x00')
    match i8i8 as pack {
        [
            10, 10, 1, 7, """ ++ [128512]%N ++ runes_of_ascii """,
            ""a	b""
        ] : leftPad,
        [
            255, 10, 0, 1, """ ++ [233]%N ++ runes_of_ascii "t" ++ [233]%N ++ runes_of_ascii """,
            ""x y""
        ] : A,
        """ ++ [28040; 24687]%N ++ runes_of_ascii """ : u,
        00 : charz,
        // a // b
        """ ++ [28040; 24687]%N ++ runes_of_ascii """ : len,
        0 : As,
    },
    f32 x `" ++ [233]%N ++ runes_of_ascii "`,
}

MetaData x {
}")).
Eval vm_compute in ("<<<M251>>>" ++ check (runes_of_ascii "options { tag
=
false// c
; charz =
char[
    //
    4294967296 ] ; float = ' '; u =// `tick` ""quote"" 'q'
zchar[ 255
    ] x//x
=
    ""a\""b""}
packet leftPad /// triple
{match
As as
    falsey{ [ 10
    ,0123456789, 007
,
""" ++ [28040; 24687]%N ++ runes_of_ascii """
// a // b
// trailing space 
, //	t
""packet""	, ""`tick`"", ""1"" ] :
calculatedFrom , } ,@calculatedFrom(
    ""it's""
) float64// c
x_y_z @lengthOf(  leftPad ) , trueish
@lengthOf(packetx)
    , }options
{ string_	=
    ""a\""b"" ;
_x = false }
")).
Eval vm_compute in ("<<<M964>>>" ++ check (runes_of_ascii "// c
root packet o{ @tag( 42
) a1
, }
options { asx
=char[ 0	]
/// triple
// `tick` ""quote"" 'q'
;
int =
    // c
    '\x00' ;_x	=
""it's""	packetx // a // b
= ""// no comment""  u8x = """ ++ [233]%N ++ runes_of_ascii "t" ++ [233]%N ++ runes_of_ascii """ } root// trailing space 
packet T { @lengthOf( float )match falsey
//	t
// trailing space 
as  matchKey {
""a\\""
: x_y_z
// a // b
// `tick` ""quote"" 'q'
,
    //x
    } //
, } options // a // b
{ zchar = 0// trailing space 
repeatCount= uint64
    ;// a // b
}")).
Eval vm_compute in ("<<<M554>>>" ++ check (runes_of_ascii "root packet A	{ // packet A { u8 x, }
char[]  msg_type
    `two words` , // a // b
@calculatedFrom( ""abc"" )
@leftPad
(
'\x00'
) @calculatedFrom(
    ""x y""
    ) repeat
//x
// @lengthOf(
int64 chars, zchar[ 1
] _x@calculatedFrom(	""1""
    ) `doc` ,
// c
//x
}packet stringy
{int8
calculatedFrom  @lengthOf(_x ) `line1
line2` , @tag( 42 ) char[ 10 ]//
Logon@lengthOf( roots ) `" ++ [233]%N ++ runes_of_ascii "`// " ++ [128512]%N ++ runes_of_ascii " emoji
, i32 //
options1  , i16 x_y_z ,
    } 	 ")).
Eval vm_compute in ("<<<M1301>>>" ++ check (runes_of_ascii "root	packet	u
{ uint8x
    // @lengthOf(
    falsey
, repeat char[ 0
    ]
o`u8 x,`  , @rightPad (
'\x00')
match leftPad
    as
    u { 7
:crc
, [""`tick`""
,0123456789
    ] :
Packet ,
    [ 42 ] : msg_type, 3 :
    tag ,
    } ,/// triple
@calculatedFrom(
""1"" )	char[ 1	] leftPad , } packet // " ++ [27880; 37322]%N ++ runes_of_ascii "
o{ char[] falsey ,
repeat
i8
//
// " ++ [128512]%N ++ runes_of_ascii " emoji
f32a `tab	here` ,
float64 pack @calculatedFrom(
    ""\" ++ [233]%N ++ runes_of_ascii """
    ) , }
")).
Eval vm_compute in ("<<<M1335>>>" ++ check (runes_of_ascii "packet //	t
metadata
    /// triple
    {
@calculatedFrom( ""a\\""
) // @lengthOf(
@rightPad // trailing space 
( '\x00' ) @rightPad (
// a // b
// " ++ [27880; 37322]%N ++ runes_of_ascii "
'\x00' ) repeat	x	, }
    MetaData
T { int32 lengthOf
// `tick` ""quote"" 'q'
// packet A { u8 x, }
, trueish T `` , rootA crc`a\`
    , Pad A `{ , }`
, }
    MetaData
    float { repeatCount
string_  `" ++ [233]%N ++ runes_of_ascii "` , }
    MetaData u128{ a1 BodyLength ,}
")).
Eval vm_compute in ("<<<M4400>>>" ++ check (runes_of_ascii "packet int // a // b

	{  match

pack

as  charz{
10:  // a // b
  i8i8
    ,  // @lengthOf(
10 
: 
MetaDataX

    ,  [ 42
]
:
    options1
	, },
	repeat	uint16

zchar
,
char[ 007 ] 
asx ,
	@lengthOf(	// " ++ [27880; 37322]%N ++ runes_of_ascii "
		As
	)  @calculatedFrom( ""1""  )

lengthOf@lengthOf(
BodyLength)	`tab	here` ,
    char[]T `// not a comment`	, // packet A { u8 x, }
@leftPad (

)	packetx
, }
")).
Eval vm_compute in ("<<<M1109>>>" ++ check (runes_of_ascii "options{ tag
    =10// @lengthOf(
u =00  stringy =	""`tick`"" ;} options { MetaDataX=
    1 } // packet A { u8 x, }
options{ lengthOf=
255 ; int =  ""// no comment"" ;	falsey// packet A { u8 x, }
= zchar[ 3
    ] ;
    // @lengthOf(
    } MetaData asx { }
MetaData a1{ int16 x_y_z , lengthOf matchKey ,	uint8 u128
, x packetx , i32 charz, repeatCount As , }")).
Eval vm_compute in ("<<<M4260>>>" ++ check (runes_of_ascii "options {
    FixedStringPadFromLeft = true;
    FixedStringPadChar = ' ';
}

packet Reject {
}

packet Fill {
    repeat i16 Tail,
}

root packet Trade {
    float64 Ref,
    Fill,
    u8 Note,
    u16 count @lengthOf(Body),
    match Note as Body {
        [98, 101] : Fill,
        34 : Reject,
    },
    u32 x @calculatedFrom(""CRC32""),
}")).
Eval vm_compute in ("<<<M347>>>" ++ check (runes_of_ascii "packet  f32a { }packet
metadata
{
@calculatedFrom(
""\" ++ [233]%N ++ runes_of_ascii """
) repeat _x { string
    // a // b
    falsey , } ,
@calculatedFrom( ""it's"" ) As leftPad `a\`
,	@calculatedFrom( ""abc""
) char[ //	t
0 ]roots	,  @tag(
    00 )match Pad as	roots
{ 10 :x_y_z , 00 :  len [ ""// no comment""	]// a // b
:  T }
    , a1 Header `" ++ [233]%N ++ runes_of_ascii "`
, // " ++ [27880; 37322]%N ++ runes_of_ascii "
}")).
Eval vm_compute in ("<<<M516>>>" ++ check (runes_of_ascii "root packet
u128	{} MetaData
u128 { int32
    chars , i8 pack // " ++ [27880; 37322]%N ++ runes_of_ascii "
, i8i8
options1
, /// triple
char[] matchKey,	string
    msg_type `doc` //
,  string charz ,
    }
    // `tick` ""quote"" 'q'
    packet
// " ++ [128512]%N ++ runes_of_ascii " emoji
// @lengthOf(
BodyLength	{@lengthOf(
    As ) repeat
    _x{ i64_
,
    } , repeat char[ 3 ] roots ,}")).
Eval vm_compute in ("<<<M1898>>>" ++ check (runes_of_ascii "MetaData
    u { }  options {
// c
// @lengthOf(
float = float32 ;rootA =false ; As =	int16 // `tick` ""quote"" 'q'
repeatCount
    // trailing space 
    =
    int16
; u8x =
    //	t
    '\x00' ; } options	{
    repeatCount
= 0
u128
    //
    = false ; i64_
// trailing space 
// `tick` ""quote"" 'q'
= '0' ; //	t
}
")).
Eval vm_compute in ("<<<M2061>>>" ++ check (runes_of_ascii "MetaData
    u { }  options {
// c
// @lengthOf(
float = int8 ;rootA =false ; As =	int16 // `tick` ""quote"" 'q'
repeatCount
    // trailing space 
    =
    int16
; u8x =
    //	t
    '\x00' ; ' } options	{
    repeatCount
= 0
u128
    //
    = false ; i64_
// trailing space 
// `tick` ""quote"" 'q'
= '0' ; //	t
}
")).
Eval vm_compute in ("<<<M1892>>>" ++ check (runes_of_ascii "MetaData
    u { }  options {
// c
// @lengthOf(
float int8 = ;rootA =false ; As =	int16 // `tick` ""quote"" 'q'
repeatCount
    // trailing space 
    =
    int16
; u8x =
    //	t
    '\x00' ; } options	{
    repeatCount
= 0
u128
    //
    = false ; i64_
// trailing space 
// `tick` ""quote"" 'q'
= '0' ; //	t
}
")).
Eval vm_compute in ("<<<M2042>>>" ++ check (runes_of_ascii "MetaData
    u { }  options {
// c
// @lengthOf(
float = int8 ;rootA =false ; As =	int16 // `tick` ""quote"" 'q'
repeatCount
    // trailing space 
    =
    int16
; u8x =
    //	t
    '\x00' ; } options	{
    repeatCount
= 0
u128
    //
    = false ; i64_
// trailing space 
// `tick` ""quote"" 'q'
= ; '0' //	t
}
")).
Eval vm_compute in ("<<<M1908>>>" ++ check (runes_of_ascii "MetaData
    u { }  options {
// c
// @lengthOf(
float = int8 ;f32 =false ; As =	int16 // `tick` ""quote"" 'q'
repeatCount
    // trailing space 
    =
    int16
; u8x =
    //	t
    '\x00' ; } options	{
    repeatCount
= 0
u128
    //
    = false ; i64_
// trailing space 
// `tick` ""quote"" 'q'
= '0' ; //	t
}
")).
Eval vm_compute in ("<<<M724>>>" ++ check (runes_of_ascii "// " ++ [128512]%N ++ runes_of_ascii " emoji
packet
    u { int `two words` ,
} packet
    Packet	{ repeat zchar Foo// @lengthOf(
,	} packet f32a // c
{ uint32
Packet`
`, @lengthOf(
    msg_type	) @calculatedFrom(
    ""it's"" )repeat
    repeatCount { repeat zchar[ 255 ] u8x ,repeat MetaDataX// c
`" ++ [28040; 24687; 31867; 22411]%N ++ runes_of_ascii "` , int64
    Pad `tab	here` ,} ,}
")).
Eval vm_compute in ("<<<M1281>>>" ++ check (runes_of_ascii "MetaData a1	{ //x
u8 u8x,}
options
    // " ++ [128512]%N ++ runes_of_ascii " emoji
    { float
='0'/// triple
;
    // @lengthOf(
    pack =
// packet A { u8 x, }
// @lengthOf(
string
    ; }
MetaData
packetx {
tag
Foo`
`,  uint8x asx , uint16
body	,
T x ,// packet A { u8 x, }
float a1 `
`
    , matchKey  crc
, }
// a // b
")).
Eval vm_compute in ("<<<M782>>>" ++ check (runes_of_ascii "root packet
    i8i8
{ i8 crc,
    // @lengthOf(
    @rightPad () uint64 u128`two words`
//
//	t
,//	t
uint64
_x	`{ , }` ,
// c
//x
} options {
As =""abc""leftPad
// " ++ [128512]%N ++ runes_of_ascii " emoji
/// triple
= ""CRC32""
charz =	char[ 65535 ] //	t
;x_y_z // trailing space 
= true ; }// @lengthOf(
options { }
")).
Eval vm_compute in ("<<<M32>>>" ++ check (runes_of_ascii "options	{
    // `tick` ""quote"" 'q'
    Foo
= zchar[
    1
]uint8x =""// no comment"" Pad
=
    //
    char[] ;
    A
= 4294967296
    a1 = ""`tick`"" ; } packet BodyLength  {
@calculatedFrom(
""packet"" ) roots `// not a comment`,@tag( 10 ) f32 uint8x/// triple
`" ++ [28040; 24687; 31867; 22411]%N ++ runes_of_ascii "`
,	}

")).
Eval vm_compute in ("<<<M1523>>>" ++ check (runes_of_ascii "packet
//	t
// trailing space 
_x {
// packet A { u8 x, }
// c
char[
3
    ] u8x @lengthOf( @lengthOf(
u8x ) , @calculatedFrom(""" ++ [128512]%N ++ runes_of_ascii """ // @lengthOf(
)
i16	Foo
@lengthOf(	string_
    )`doc`	, repeat	i64 metadata , @lengthOf( string_
) i8 // c
u  `line1
line2`	,
}
")).
Eval vm_compute in ("<<<M3619>>>" ++ check (runes_of_ascii "  options

{StringPrefixLenType	= u16
; FixedStringPadChar
    =' ' 
;
    }
packet Party{}
packet
Quote
{repeat
    Party 
,	repeat
	char[ 
2]
    f1

    ,	}  packet 
Logon 
{}

    root packet	Cancel 
{uint16 x

,

    zchar[  6

]
	f1 ,
    }")).
Eval vm_compute in ("<<<M1608>>>" ++ check (runes_of_ascii "packet
//	t
// trailing space 
_x {
// packet A { u8 x, }
// c
char[
3
    ] u8x @lengthOf(
u8x ) , @calculatedFrom(""" ++ [128512]%N ++ runes_of_ascii """ // @lengthOf(
)
i16	Foo
@lengthOf(	string_
    )`doc`	, repeat	i64 metadata , , @lengthOf( string_
) i8 // c
u  `line1
line2`	,
}
")).
Eval vm_compute in ("<<<M1499>>>" ++ check (runes_of_ascii "packet
//	t
// trailing space 
_x char[
// packet A { u8 x, }
// c
{
3
    ] u8x @lengthOf(
u8x ) , @calculatedFrom(""" ++ [128512]%N ++ runes_of_ascii """ // @lengthOf(
)
i16	Foo
@lengthOf(	string_
    )`doc`	, repeat	i64 metadata , @lengthOf( string_
) i8 // c
u  `line1
line2`	,
}
")).
Eval vm_compute in ("<<<M1644>>>" ++ check (runes_of_ascii "packet
//	t
// trailing space 
_x {
// packet A { u8 x, }
// c
char[
3
    ] u8x @lengthOf(
u8x ) , @calculatedFrom(""" ++ [128512]%N ++ runes_of_ascii """ // @lengthOf(
)
i16	Foo
@lengthOf(	string_
    )`doc`	, repeat	i64 metadata , @lengthOf( string_
) i8 // c
u  `line1
line2`	}
,
")).
Eval vm_compute in ("<<<M1527>>>" ++ check (runes_of_ascii "packet
//	t
// trailing space 
_x {
// packet A { u8 x, }
// c
char[
3
    ] u8x @lengthOf(
 ) , @calculatedFrom(""" ++ [128512]%N ++ runes_of_ascii """ // @lengthOf(
)
i16	Foo
@lengthOf(	string_
    )`doc`	, repeat	i64 metadata , @lengthOf( string_
) i8 // c
u  `line1
line2`	,
}
")).
Eval vm_compute in ("<<<M3691>>>" ++ check (runes_of_ascii "packet rootA {
    char[4294967296] rootA @calculatedFrom(""a	b"") `crlf
    line`,
    @calculatedFrom("""")
    // a // b
    // trailing space 
    pack @lengthOf(rootA) `
    `,
    @rightPad(' ')
    repeat stringy repeatCount `two words`,
}")).
Eval vm_compute in ("<<<M686>>>" ++ check (runes_of_ascii "packet
// a // b
// packet A { u8 x, }
matchKey { lengthOf	{ charz int
// " ++ [128512]%N ++ runes_of_ascii " emoji
// packet A { u8 x, }
,
match
uint8x as A
    // a // b
    {
    65535: rootA
, } ,	repeat char[]
    // a // b
    T, }
    , repeat charz  roots,	}
")).
Eval vm_compute in ("<<<M1206>>>" ++ check (runes_of_ascii "packet body { As
    @lengthOf(	string_ ) `two words`	, zchar[ 10 ] i8i8@calculatedFrom( ""`tick`""),
zchar[ 0 ]
    pack
@calculatedFrom(
""x y"" ) ,uint8 rootA @calculatedFrom( ""a\\""), i32
    msg_type ,
    u8 repeatCount ,}")).
Eval vm_compute in ("<<<M3537>>>" ++ check (runes_of_ascii "// top
packet // c0a
  // c0b
Inner // c1
{ // c2
u8 a // c4a
  // c4b
, // c5a
  // c5b
} root // c7a
  // c7b
packet
    // c8
P
    // c9
{ repeat Inner items // c13a
  // c13b
, // c14
u8 x
    // c16
, // c17
} ")).
Eval vm_compute in ("<<<M872>>>" ++ check (runes_of_ascii "
options
    // @lengthOf(
    {
    } root packet
    // c
    falsey {}MetaData _x {}
packet
// packet A { u8 x, }
// trailing space 
o
    // " ++ [128512]%N ++ runes_of_ascii " emoji
    {falsey , @tag(3
) // `tick` ""quote"" 'q'
uint8 Foo,}")).
Eval vm_compute in ("<<<M4417>>>" ++ check (runes_of_ascii "

  options

{ 
}  MetaData

    len

    {

crc

Foo	, char[]x_y_z
    `// not a comment`,
    }

options { a1 
=
""" ++ [128512]%N ++ runes_of_ascii """	;  _x = 0123456789  _x=
	true
	u8x=

    ""packet""
trueish 
= string// " ++ [27880; 37322]%N ++ runes_of_ascii "

; }	//
")).
Eval vm_compute in ("<<<M889>>>" ++ check (runes_of_ascii "MetaData T {
// c
//	t
trueish i64_ `" ++ [233]%N ++ runes_of_ascii "` // c
, f64 a1	`doc` ,int A, u32
crc `" ++ [28040; 24687; 31867; 22411]%N ++ runes_of_ascii "`, charz _x
/// triple
// trailing space 
,
    // trailing space 
    char[// packet A { u8 x, }
255 ] msg_type `" ++ [28040; 24687; 31867; 22411]%N ++ runes_of_ascii "` , }
")).
Eval vm_compute in ("<<<M1743>>>" ++ check (runes_of_ascii "options { trueish = ""`tick`"" ; string_= """ ++ [233]%N ++ runes_of_ascii "t" ++ [233]%N ++ runes_of_ascii """
    // c
    } root
    packet body { @calculatedFrom( stringy
""a	b"" ) `line1
line2` , }
packet Logon {
    @leftPad(
    ' ' ) //	t
u16 string_ `u8 x,` ,
}
")).
Eval vm_compute in ("<<<M1756>>>" ++ check (runes_of_ascii "options { trueish = ""`tick`"" ; string_= """ ++ [233]%N ++ runes_of_ascii "t" ++ [233]%N ++ runes_of_ascii """
    // c
    } root
    packet body { stringy @calculatedFrom(
""a	b""  `line1
line2` , }
packet Logon {
    @leftPad(
    ' ' ) //	t
u16 string_ `u8 x,` ,
}
")).
Eval vm_compute in ("<<<M193>>>" ++ check (runes_of_ascii "MetaData
    Header { }MetaData Logon {// trailing space 
int32 falsey ,// " ++ [27880; 37322]%N ++ runes_of_ascii "
packetx
_x ,
char[] Logon`two words`
,
    matchKey packetx ,
    u32 u // packet A { u8 x, }
,	i64 float `it's`
, }
")).
Eval vm_compute in ("<<<M1989>>>" ++ check (runes_of_ascii "MetaData
    u { }  options {
// c
// @lengthOf(
float = int8 ;rootA =false ; As =	int16 // `tick` ""quote"" 'q'
repeatCount
    // trailing space 
    =
    int16
; u8x =
    //	t
    '\x00' ; }")).
Eval vm_compute in ("<<<M1606>>>" ++ check (runes_of_ascii "packet
//	t
// trailing space 
_x {
// packet A { u8 x, }
// c
char[
3
    ] u8x @lengthOf(
u8x ) , @calculatedFrom(""" ++ [128512]%N ++ runes_of_ascii """ // @lengthOf(
)
i16	Foo
@lengthOf(	string_
    )`doc`	, repeat	i64")).
Eval vm_compute in ("<<<M4436>>>" ++ check (runes_of_ascii "  MetaData crc  // trailing space 

  { }
	options

    {  metadata
= 
10
; u
= 65535 repeatCount =

    char[  0123456789 // packet A { u8 x, }
] 
}

    MetaData	i8i8 {
}
")).
Eval vm_compute in ("<<<M3869>>>" ++ check (runes_of_ascii "options {
    options1 = 1;
}

options {
    A = 00
}

MetaData repeatCount {
    char[] u8x,
    char[] u128,
    body roots `" ++ [28040; 24687; 31867; 22411]%N ++ runes_of_ascii "`,
    msg_type As,
}

MetaData string_ {
}")).
Eval vm_compute in ("<<<M3728>>>" ++ check (runes_of_ascii "  packet Packet
	{ i8
MetaDataX 
,}
	root packet a1 {	rootA
@lengthOf(uint8x

    ), 
repeatCount
{char[]

    u

    ,
    u16 msg_type
	`a\`,
	} 
,

    } ")).
Eval vm_compute in ("<<<M2365>>>" ++ check (runes_of_ascii "// c
packet x { @lengthOf( metadata ) repeat lengthOf
,a1{
trueish trueish	,// c
repeat//	t
MetaDataX , } , zchar[
    42	] rootA // `tick` ""quote"" 'q'
,
    }
")).
Eval vm_compute in ("<<<M627>>>" ++ check (runes_of_ascii "//
MetaData calculatedFrom {
    char[ 42 ]
tag	,
    body tag ``
, int16 int , zchar[ 42 ] tag //	t
`doc`
, char[]matchKey , uint32 // " ++ [128512]%N ++ runes_of_ascii " emoji
Z9_,  } //	t")).
Eval vm_compute in ("<<<M548>>>" ++ check (runes_of_ascii "
packet
uint8x{
    @tag( 65535	)
char[
    //
    7 ] trueish
@lengthOf( options1)
    `{ , }` ,  } MetaData// @lengthOf(
rootA { } root
packet leftPad {}")).
Eval vm_compute in ("<<<M2419>>>" ++ check (runes_of_ascii "// c
packe#t x { @lengthOf( metadata ) repeat lengthOf
,a1{
trueish	,// c
repeat//	t
MetaDataX , } , zchar[
    42	] rootA // `tick` ""quote"" 'q'
,
    }
")).
Eval vm_compute in ("<<<M2398>>>" ++ check (runes_of_ascii "// c
packet x { @lengthOf( metadata ) repeat lengthOf
,a1{
trueish	,// c
repeat//	t
MetaDataX ; } , zchar[
    42	] rootA // `tick` ""quote"" 'q'
,
    }
")).
Eval vm_compute in ("<<<M699>>>" ++ check (runes_of_ascii "// `tick` ""quote"" 'q'
root packet u8x{match zchar as falsey
    { """ ++ [128512]%N ++ runes_of_ascii """:
    len	},}MetaData// c
rootA
{
    //
    char[
3 ] rootA , uint64
asx
    , }")).
Eval vm_compute in ("<<<M0>>>" ++ check (runes_of_ascii "
packet /// triple
uint8x	{@calculatedFrom(
""a	b"" )
//
// " ++ [128512]%N ++ runes_of_ascii " emoji
i32 charz
    ,
match //x
x	as
x {""a	b""  :
lengthOf,} , leftPad
    `{ , }` , } //x")).
Eval vm_compute in ("<<<M1795>>>" ++ check (runes_of_ascii "options { trueish = ""`tick`"" ; string_= """ ++ [233]%N ++ runes_of_ascii "t" ++ [233]%N ++ runes_of_ascii """
    // c
    } root
    packet body { stringy @calculatedFrom(
""a	b"" ) `line1
line2` , }
packet Logon {")).
Eval vm_compute in ("<<<M2124>>>" ++ check (runes_of_ascii "options{
_x
= true
} options
{ o	= /// triple

    ; chars
= ""\n"" } root packet	Pad
/// triple
// packet A { u8 x, }
{	chars
    // a // b
    ,}")).
Eval vm_compute in ("<<<M2316>>>" ++ check (runes_of_ascii "// c
packet x {  metadata ) repeat lengthOf
,a1{
trueish	,// c
repeat//	t
MetaDataX , } , zchar[
    42	] rootA // `tick` ""quote"" 'q'
,
    }
")).
Eval vm_compute in ("<<<M4041>>>" ++ check (runes_of_ascii "packet A {
    u16 len @lengthOf(body) `a
        b
      c`,
    u32 crc @calculatedFrom(""CRC32"") `a
        b
      c`,
    string body,
}")).
Eval vm_compute in ("<<<M1780>>>" ++ check (runes_of_ascii "options { trueish = ""`tick`"" ; string_= """ ++ [233]%N ++ runes_of_ascii "t" ++ [233]%N ++ runes_of_ascii """
    // c
    } root
    packet body { stringy @calculatedFrom(
""a	b"" ) `line1
line2` , }")).
Eval vm_compute in ("<<<M4243>>>" ++ check (runes_of_ascii "root packet matchKey {
    // c
    zchar[3] pack @calculatedFrom(""a	b"") `doc`,
}

options {
}

MetaData A {
    int8 msg_type,
}")).
Eval vm_compute in ("<<<M1064>>>" ++ check (runes_of_ascii "MetaData u
    // packet A { u8 x, }
    { packetx A
    , /// triple
zchar[ 10 ] Packet
    `" ++ [28040; 24687; 31867; 22411]%N ++ runes_of_ascii "`,
char[ 10 ]x
    ,
}
")).
Eval vm_compute in ("<<<M3545>>>" ++ check (runes_of_ascii "packet B {
    u8 a,
}
root packet P {
    u8 K,
    u64 L @lengthOf(Body),
    match K as Body {
        1 : B,
    },
}
")).
Eval vm_compute in ("<<<M3332>>>" ++ check (runes_of_ascii "root packet matchKey { zchar[ 3 ] pack @calculatedFrom( ""a	b"" ) // c
`doc` , } options { } MetaData A { int8 msg_type , }")).
Eval vm_compute in ("<<<M3951>>>" ++ check (runes_of_ascii "
options
    {

    x_y_z =""CRC32""; }
MetaData
	matchKey 
{ char[]u `u8 x,`
	,	// trailing space 
	}options{
    }

")).
Eval vm_compute in ("<<<M3948>>>" ++ check (runes_of_ascii "packet

a1 {

match/// triple
T as pack
{
	007 : 
Header 
,

    }
	, calculatedFrom,	} 
MetaData 
options1
	{ 
}
")).
Eval vm_compute in ("<<<M1447>>>" ++ check (runes_of_ascii "
packet
    falsey { Header@calculatedFrom(""packet""  ) , char[
    0123456789  packetx
    , } // `tick` ""quote"" 'q'")).
Eval vm_compute in ("<<<M943>>>" ++ check (runes_of_ascii "
options { msg_type
=
    42;
    metadata  =
""""
;matchKey
=
// packet A { u8 x, }
// `tick` ""quote"" 'q'
u8 }
")).
Eval vm_compute in ("<<<M1452>>>" ++ check (runes_of_ascii "
packet
    falsey { Header@calculatedFrom(""packet""  ) , char[
    0123456789 ] 
    , } // `tick` ""quote"" 'q'")).
Eval vm_compute in ("<<<M2329>>>" ++ check (runes_of_ascii "// c
packet x { @lengthOf( metadata ) repeat lengthOf
,a1{
trueish	,// c
repeat//	t
MetaDataX , } , zchar[")).
Eval vm_compute in ("<<<M4430>>>" ++ check (runes_of_ascii "// c
MetaData float {
    float64 charz `
        `,
}

root packet chars {
    @rightPad('0')
    Foo,
}")).
Eval vm_compute in ("<<<M1351>>>" ++ check (runes_of_ascii "options { options1 =
char[
00
]
    ; len=
""" ++ [128512]%N ++ runes_of_ascii """ ; a1
    =
    42
    Header =
' '}packet Foo { }

")).
Eval vm_compute in ("<<<M2969>>>" ++ check (runes_of_ascii "packet A {
  match k as n {
    [""a"", 22, ""c c"", 4, ""e"", 66, ""g"", 8, ""i"", 10] : B
    2 : C
  },
}")).
Eval vm_compute in ("<<<M3970>>>" ++ check (runes_of_ascii "options {
    crc = '0';
    _x = ""a\""b""
    trueish = char[1]
    charz = 00;
    As = ""a\""b""
}")).
Eval vm_compute in ("<<<M2219>>>" ++ check (runes_of_ascii "options
{ MetaData options { BodyLength= u16 Header= f64 ; u128 =
    true
    ; } // a // b")).
Eval vm_compute in ("<<<M3566>>>" ++ check (runes_of_ascii "

  root
packet

    P {

u16 a
,u32	Sum
	@calculatedFrom(

    ""CRC32""

    ) , 
} ")).
Eval vm_compute in ("<<<M3267>>>" ++ check (runes_of_ascii "// c
MetaData float { float64 charz `
` , } root packet chars { @rightPad ( '0' ) Foo , }")).
Eval vm_compute in ("<<<M3300>>>" ++ check (runes_of_ascii "MetaData float { float64 charz `
` , } root packet chars { @rightPad ( '0' )
// c
Foo , }")).
Eval vm_compute in ("<<<M3511>>>" ++ check (runes_of_ascii "packet chars { } packet MetaDataX { @tag( 42 ) i16 string_ , repeat // c
x `say ""hi""` , }")).
Eval vm_compute in ("<<<M275>>>" ++ check (runes_of_ascii "options {BodyLength=	""abc"" ;
int	=
""""
; chars
    = true	body
    =
// c
//
'\x00'
}
")).
Eval vm_compute in ("<<<M519>>>" ++ check (runes_of_ascii "options  { Logon =char[0];} packet chars {
u8 u  `u8 x,` ,	} options
{ metadata= 0	}
")).
Eval vm_compute in ("<<<M3218>>>" ++ check (runes_of_ascii "packet metadata {
// c
Logon { A `" ++ [28040; 24687; 31867; 22411]%N ++ runes_of_ascii "` , tag o , } , zchar len `// not a comment` , }")).
Eval vm_compute in ("<<<M3664>>>" ++ check (runes_of_ascii "
packet 
        // c
	x
    {
@rightPad
	() repeat

roots
    Logon
    `doc` ,}

")).
Eval vm_compute in ("<<<M3438>>>" ++ check (runes_of_ascii "packet o { repeat Logon
// c
uint8x , } options { asx = zchar[ 3 ] stringy = '\x00' }")).
Eval vm_compute in ("<<<M2259>>>" ++ check (runes_of_ascii "options
{ } options { BodyLength= u16 Header= ] ; u128 =
    true
    ; } // a // b")).
Eval vm_compute in ("<<<M369>>>" ++ check (runes_of_ascii "MetaData repeatCount
    {
    } options { // packet A { u8 x, }
}
// @lengthOf(
")).
Eval vm_compute in ("<<<M3415>>>" ++ check (runes_of_ascii "MetaData body { i64 pack `it's` , } packet stringy {
// c
int16 calculatedFrom , }")).
Eval vm_compute in ("<<<M3557>>>" ++ check (runes_of_ascii "options {
    FixedStringPadFromLeft = true;
}
root packet P {
    char[4] z,
}
")).
Eval vm_compute in ("<<<M2886>>>" ++ check (runes_of_ascii "packet A {
  match k as n {
    [""a"", ""bb"", ""c c"", ""d""] : B,
    2 : C
  },
}")).
Eval vm_compute in ("<<<M3767>>>" ++ check (runes_of_ascii "packet Inner {
    u8 a,
}

root packet P {
    Inner ref_obj,
    u8 x,
}")).
Eval vm_compute in ("<<<M4355>>>" ++ check (runes_of_ascii "packet len {
    @calculatedFrom(""it's"")
    calculatedFrom msg_type,
}")).
Eval vm_compute in ("<<<M2285>>>" ++ check (runes_of_ascii "options
{ } options { BodyLength= u16 Header= f64 ; u128 =
    true")).
Eval vm_compute in ("<<<M4289>>>" ++ check (runes_of_ascii "  // c
  packet

x  {
	@rightPad ( ) repeat roots Logon	`doc` , 
}")).
Eval vm_compute in ("<<<M1235>>>" ++ check (runes_of_ascii "options	{ falsey // " ++ [27880; 37322]%N ++ runes_of_ascii "
=
""\" ++ [233]%N ++ runes_of_ascii """	; lengthOf
=
0	;
    // c
    }
")).
Eval vm_compute in ("<<<M2909>>>" ++ check (runes_of_ascii "packet A { Inner { match k as n { [1,22,007,4,5] : B, }, }, }")).
Eval vm_compute in ("<<<M2720>>>" ++ check (runes_of_ascii "i8 root root 10 [ [ u32 } u8 zchar[ char packet char[] u64")).
Eval vm_compute in ("<<<M4186>>>" ++ check (runes_of_ascii "root packet P {
    hdr {
        u8 a,
    },
    u8 x,
}")).
Eval vm_compute in ("<<<M509>>>" ++ check (runes_of_ascii "root packet i64_ {tag
Pad, } root packet
    charz {
}")).
Eval vm_compute in ("<<<M650>>>" ++ check (runes_of_ascii "packet
    u128 {
repeat string
As`say ""hi""`, } 	 ")).
Eval vm_compute in ("<<<M3526>>>" ++ check (runes_of_ascii "

  root
packet P 
{
char
	c  ,
	u8

x
, 
}
")).
Eval vm_compute in ("<<<M4354>>>" ++ check (runes_of_ascii "  packet	// packet A { u8 x, }
  rootA  {
}
")).
Eval vm_compute in ("<<<M4588>>>" ++ check (runes_of_ascii "packet string_ {
    int64 calculatedFrom,
}")).
Eval vm_compute in ("<<<M1081>>>" ++ check (runes_of_ascii "packet // packet A { u8 x, }
rootA
{
}")).
Eval vm_compute in ("<<<M3199>>>" ++ check (runes_of_ascii "root packet u128 { chars `it's` // c
, }")).
Eval vm_compute in ("<<<M3936>>>" ++ check (runes_of_ascii "root packet u128 {
    chars `it's`,
}")).
Eval vm_compute in ("<<<M3771>>>" ++ check (runes_of_ascii "root packet A {
}

root packet B {
}")).
Eval vm_compute in ("<<<M1038>>>" ++ check (runes_of_ascii "root packet Logon
    //
    { }

")).
Eval vm_compute in ("<<<M2828>>>" ++ check (runes_of_ascii "@calculatedFrom( x_y_z { """" @tag(")).
Eval vm_compute in ("<<<M1202>>>" ++ check (runes_of_ascii "options
{ lengthOf = false ; }
")).
Eval vm_compute in ("<<<M3097>>>" ++ check (runes_of_ascii "packet A {
 u8 x `d" ++ [8232]%N ++ runes_of_ascii "`, // c" ++ [8232]%N ++ runes_of_ascii "
}")).
Eval vm_compute in ("<<<M2651>>>" ++ check (runes_of_ascii "MetaData M { @tag(1) u8 x, }")).
Eval vm_compute in ("<<<M917>>>" ++ check (runes_of_ascii "
options {	i8i8 = ""a\\"" }")).
Eval vm_compute in ("<<<M3255>>>" ++ check (runes_of_ascii "root
// c
packet pack { }")).
Eval vm_compute in ("<<<M2577>>>" ++ check (runes_of_ascii "packet A { x `d` `e`, }")).
Eval vm_compute in ("<<<M3148>>>" ++ check (runes_of_ascii "packet A {
}// a// b")).
Eval vm_compute in ("<<<M803>>>" ++ check (runes_of_ascii "MetaData
zchar{ }
")).
Eval vm_compute in ("<<<M3883>>>" ++ check (runes_of_ascii "packet msg_type {
}")).
Eval vm_compute in ("<<<M3100>>>" ++ check (runes_of_ascii "packet A {
}
// c" ++ [8233]%N)).
Eval vm_compute in ("<<<M2635>>>" ++ check (runes_of_ascii "packet A { } // c")).
Eval vm_compute in ("<<<M1874>>>" ++ check (runes_of_ascii "MetaData
    u {")).
Eval vm_compute in ("<<<M3693>>>" ++ check (runes_of_ascii "MetaData o {
}")).
Eval vm_compute in ("<<<M436>>>" ++ check (runes_of_ascii " /// triple")).
Eval vm_compute in ("<<<M2835>>>" ++ check (runes_of_ascii "char[ i64")).
Eval vm_compute in ("<<<M2492>>>" ++ check (runes_of_ascii "@tag(1)")).
Eval vm_compute in ("<<<M2338>>>" ++ check (runes_of_ascii "// c
")).
Eval vm_compute in ("<<<M3109>>>" ++ check (runes_of_ascii "// c" ++ [8287]%N)).
Eval vm_compute in ("<<<M2682>>>" ++ check (runes_of_ascii "
	 ")).
Eval vm_compute in ("<<<M2550>>>" ++ check (runes_of_ascii "a" ++ [12]%N ++ runes_of_ascii "b")).
Eval vm_compute in ("<<<M2737>>>" ++ check (runes_of_ascii "*F")).
