From FP Require Import Lexer Parser ShowPT Digest Formatter.
From Coq Require Import String List NArith.
Import ListNotations.
Open Scope string_scope.
Set Printing Width 100000000.
Set Printing Depth 100000000.
Definition show_fres (r : fres) : string :=
  match r with
  | FOk s => "OK:" ++ sh_escaped s ""
  | FErr s => "ERR:" ++ sh_escaped s ""
  | FPanic p => "PANIC:" ++ p
  end.
Definition check (rs : list rune) : string := digest (show_fres (format_res rs)).
Definition full (rs : list rune) : string := show_fres (format_res rs).
Eval vm_compute in ("<<<M2059>>>" ++ check (runes_of_ascii "  root 
packet  Logon
	{ zchar[

65535
	]uint8x ,
@leftPad( 
) 
repeat  f32
    Packet
,
@leftPad  ( 
' ' 
//x
    //	t
  )

match i8i8
    as

body // a // b
  {
	65535 : MetaDataX 
, 
007
    :
	Packet
}
,  @calculatedFrom( ""packet""

)
    uint8x 
,  Foo@lengthOf(
	asx
    //	t
  )  ,

    i64 int

, //
@leftPad

    (
' '
    )

repeat
rootA{int32
zchar, match 
stringy as
	MetaDataX

    {
	[ """ ++ [28040; 24687]%N ++ runes_of_ascii """,
	10
	,
	42	,
""a\""b"" ,

    42 
, 7]:
    msg_type
,[42 ]
	:

    stringy	, ""a\\""
    : 
Header
255
    :
	calculatedFrom 
        //	t
, 
    // a // b
		/// triple
[	007// " ++ [27880; 37322]%N ++ runes_of_ascii "

  ] :
/// triple
    	//x
	MetaDataX
,	""a\""b"" 

    //	t
://
    	stringy 	 // " ++ [128512]%N ++ runes_of_ascii " emoji
	  ,
}
    ,	char[ 007
]
int@lengthOf(o) `" ++ [233]%N ++ runes_of_ascii "`  // `tick` ""quote"" 'q'
	, 
    // trailing space 
		//x
  } , @leftPad
	(
	    //

// @lengthOf(
)
@lengthOf(

    metadata
) match asx	as
leftPad
	{

    ""x y""	:
    matchKey// packet A { u8 x, }
	}  // " ++ [27880; 37322]%N ++ runes_of_ascii "

	,
	repeat leftPad
`say ""hi""`
    , char[ //	t
	65535 	 // c

] // a // b
  Packet 
,	}

root packet // a // b

x_y_z

{
	match
	uint8x
as

    As {

[ 
0123456789  ]:
    T
    65535  :
    x_y_z""\n""
    //

:
    u
,

4294967296 :

Packet
	[
    65535
    ]: T
    , 
255	:

uint8x	}
,
int32
Packet
`tab	here`,
@calculatedFrom(  """" ) 
@calculatedFrom(""a\\""	)

u64 repeatCount  @calculatedFrom(
"""" 
)

,	Header
zchar  `doc`
,  match
	_x
as

metadata	// " ++ [128512]%N ++ runes_of_ascii " emoji
	{

[255
    ,  ""1""
    ] :  Logon
[ 
""" ++ [233]%N ++ runes_of_ascii "t" ++ [233]%N ++ runes_of_ascii """  , 
00
    ,65535 
,

    7, 42
,

00

] :
packetx, 4294967296	:  stringy
        //	t
  	,
}

, char[ 00

    ]tag`doc`
    ,@lengthOf(  int
)

    string  u ,  @tag(007 ) int16 
stringy , float64 crc
,	@calculatedFrom(""x y""
)
repeat 
u16	f32a,} 
options { u128

= 
""CRC32""

    options1
	=// packet A { u8 x, }
  false 
u8x
=  ""`tick`"";

    }

")).
Eval vm_compute in ("<<<M266>>>" ++ check (runes_of_ascii "packet asx { Logon{ body
@calculatedFrom( // trailing space 
""it's"" ) , // @lengthOf(
char[ 3] MetaDataX , string
    leftPad `crlf
line` , u128@calculatedFrom( ""packet""
    ),} , } //x
packet
x_y_z
    // packet A { u8 x, }
    { len {
    match leftPad// c
as
rootA {[007 // trailing space 
, ""a\\"" , 0123456789,
    ""\" ++ [233]%N ++ runes_of_ascii """ , ""`tick`"" , ""{,}""
    ] : falsey , 4294967296:	matchKey
, // packet A { u8 x, }
}
    , int32 //	t
Z9_ // " ++ [27880; 37322]%N ++ runes_of_ascii "
,a1
{
    x_y_z ,
    repeat	_x `doc` , char[]falsey
    @lengthOf(u128) `doc` ,
    }/// triple
,match Foo as
stringy {7 : asx // " ++ [128512]%N ++ runes_of_ascii " emoji
, ""x y""	:
    calculatedFrom
, }
    , }, @lengthOf(i64_ ) @rightPad ( /// triple
'\x00'// @lengthOf(
)@tag( 42 )  char[]
repeatCount ,
match	Z9_ //x
as  int {[//x
""a	b"" ,	""abc""
    , 255 , 7 // " ++ [128512]%N ++ runes_of_ascii " emoji
] :asx
""1"" : chars , [ ""a	b"", 00 ,4294967296 ] :
leftPad , [
65535
, //x
0 , //	t
""abc"" // a // b
, ""it's"", 007 ,
    ""x y"" ,
    255,3 ]  :
leftPad
    , [
    //x
    4294967296]: u
,
// " ++ [128512]%N ++ runes_of_ascii " emoji
// " ++ [128512]%N ++ runes_of_ascii " emoji
0123456789 :a1  } ,
x_y_z  u8x ,  asx{ repeat
Header float `crlf
line`
    , rootA
charz// " ++ [128512]%N ++ runes_of_ascii " emoji
`a\` , } , @calculatedFrom(""CRC32"" ) string string_
,  @tag(
65535 )  @rightPad ( '\x00' ) u8x	a1 `{ , }` , } options { // c
float = // " ++ [27880; 37322]%N ++ runes_of_ascii "
007 }
root // c
packet
metadata {
}
")).
Eval vm_compute in ("<<<M1966>>>" ++ check (runes_of_ascii "root packet x_y_z {
    match Z9_ as u {
        255 : pack,
        255 : u128,
        007 : float,
        ""\n"" : options1,
        [""" ++ [28040; 24687]%N ++ runes_of_ascii """, 1] : Z9_,
        """ ++ [28040; 24687]%N ++ runes_of_ascii """ : chars,
    },
    u8 _x @calculatedFrom(""" ++ [28040; 24687]%N ++ runes_of_ascii """) `say ""hi""`,
    @tag(3)
    match a1 as msg_type {
        [""\n"", 255, 0] : crc,
    },
}

root packet o {
    match tag as _x {
        007 : x,
        10 : charz,
        ""{,}"" : body,
        """ ++ [233]%N ++ runes_of_ascii "t" ++ [233]%N ++ runes_of_ascii """ : len,
        """ ++ [128512]%N ++ runes_of_ascii """ : u,
    },
    u64 u @calculatedFrom(""x y"") `it's`,
    @lengthOf(trueish)
    repeat uint8 u8x `" ++ [28040; 24687; 31867; 22411]%N ++ runes_of_ascii "`,
    @calculatedFrom(""\n"")
    @rightPad()
    @leftPad('\x00')
    repeat uint32 float,
    @lengthOf(A)
    @tag(0123456789)
    @rightPad(' ')
    zchar[10] o,
    uint8x @calculatedFrom(""a\\"") `
        `,
    body,
    repeat char[10] string_ `tab	here`,
}

root packet roots {
}

packet u {
    @calculatedFrom(""" ++ [128512]%N ++ runes_of_ascii """)
    f64 Logon @calculatedFrom(""1"") `a\`,
    int16 trueish `line1
        line2`,//
    zchar[0123456789] BodyLength `two words`,
    float32 i8i8 @lengthOf(metadata) `// not a comment`,
    i32 leftPad,
}")).
Eval vm_compute in ("<<<M1516>>>" ++ check (runes_of_ascii "// top
packet // c0a
  // c0b
P1 // c1
{ u8 a // c4
, // c5a
  // c5b
} packet // c7a
  // c7b
P2 // c8a
  // c8b
{ // c9
P1 // c10
, // c11a
  // c11b
}
    // c12
packet
    // c13
P3 // c14a
  // c14b
{ // c15
P2 // c16a
  // c16b
,
    // c17
P1
    // c18
, // c19
} // c20a
  // c20b
packet // c21a
  // c21b
P4 {
    // c23
repeat // c24a
  // c24b
P3
    // c25
,
    // c26
P2 // c27
,
    // c28
}
    // c29
root
    // c30
packet // c31a
  // c31b
P5 // c32
{ // c33a
  // c33b
P4 // c34a
  // c34b
, // c35a
  // c35b
P3 // c36
, // c37
P1 // c38
, // c39
u8 // c40
K , match // c43a
  // c43b
K // c44a
  // c44b
as
    // c45
Body // c46a
  // c46b
{ // c47a
  // c47b
4
    // c48
: // c49
P4 // c50
, // c51a
  // c51b
3 // c52a
  // c52b
: // c53a
  // c53b
P3 // c54a
  // c54b
, // c55a
  // c55b
2
    // c56
:
    // c57
P2 // c58
, 1
    // c60
: // c61
P1
    // c62
, // c63
} , }
    // c66
")).
Eval vm_compute in ("<<<M1621>>>" ++ check (runes_of_ascii "packet A {
    @lengthOf(lengthOf)
    int16 packetx @calculatedFrom(""1""),
    repeat u64 Packet `
        `,
    match trueish as roots {
        3 : A,
        ""x y"" : BodyLength,
        42 : Foo,
    },
}

packet As {
    msg_type @lengthOf(u),
}

root packet zchar {
    i8i8 i8i8 `
        `,
    zchar {
        int8 Foo `a\`,
    },
    f32 pack @lengthOf(crc),
    @calculatedFrom(""{,}"")
    // " ++ [27880; 37322]%N ++ runes_of_ascii "
    match crc as roots {
        65535 : int,
        ""packet"" : float,
        00 : zchar,
        [""x y""] : options1,
        ""it's"" : x,
    },
    @lengthOf(Packet)
    match x as As {
        //	t
        0 : lengthOf,
        //	t
        3 : pack,
        ""it's"" : x_y_z,
        ""a\""b"" : metadata,
    },
    uint16 i8i8,
}// a // b")).
Eval vm_compute in ("<<<M1893>>>" ++ check (runes_of_ascii "// top
    packet
	// c0
Logon 	 // c1
	{
string // c3

user
,// c5
      }

    root  // c7
packet// c8
	Frame {
    u8
    K// c12
	,
    // c13
  match 
// c14
K  // c15a
	// c15b
	as
    // c16
  	Body	// c17

{  // c18a
    // c18b
  1: 
        // c20

Logon 	 // c21a
    // c21b
    ,// c22
    2 // c23
	  :

Logout 
// c25
    , 	 // c26
    } // c27a
	// c27b
      , 	 // c28a
// c28b
Tail // c29a
  // c29b
	,  // c30
	}

    packet  
  // c32

  Logout  // c33
{	// c34a
	// c34b

	u16 
        // c35

	reason	// c36
    , // c37a
// c37b
  }	packet Tail // c40
  {
	// c41
    u32	// c42
		crc 

// c43
,}
")).
Eval vm_compute in ("<<<M1528>>>" ++ check (runes_of_ascii "// top
packet // c0
u128 // c1a
  // c1b
{ u8 // c3
a // c4a
  // c4b
,
    // c5
} // c6a
  // c6b
root // c7a
  // c7b
packet // c8a
  // c8b
Msg // c9
{ // c10a
  // c10b
u8 // c11a
  // c11b
k // c12a
  // c12b
,
    // c13
u24 // c14
{ u8 // c16a
  // c16b
Hi
    // c17
, // c18
u16 Lo
    // c20
,
    // c21
}
    // c22
, // c23
repeat
    // c24
i24
    // c25
{ // c26a
  // c26b
u32 // c27
q // c28a
  // c28b
, // c29
} , // c31
u128
    // c32
, // c33a
  // c33b
u16
    // c34
float32x
    // c35
, string // c37a
  // c37b
s // c38
, }
    // c40
")).
Eval vm_compute in ("<<<M334>>>" ++ check (runes_of_ascii "
packet a1
    /// triple
    { uint8 As ,// `tick` ""quote"" 'q'
char[ 1] chars
    @lengthOf(
    msg_type )  , repeat char[ 1 ] x_y_z `two words`
    //x
    , // c
@tag(00
)
int32
i8i8
    , u64 trueish ,
    // @lengthOf(
    @lengthOf(
    body )int16 float @lengthOf( tag )
    , // " ++ [128512]%N ++ runes_of_ascii " emoji
x // trailing space 
@calculatedFrom( ""`tick`""	) ,
} MetaData x_y_z
    {	char[
10
    ]chars,Z9_ pack`
`  ,  string As
, //x
len
    int ,A Z9_  , }	options { o = 0123456789 ; _x	= ' '
;
}")).
Eval vm_compute in ("<<<M43>>>" ++ check (runes_of_ascii "
packet A
{ repeat lengthOf {
len ,
    } , @tag(// trailing space 
42	) match Header
    as falsey
{ [
""" ++ [128512]%N ++ runes_of_ascii """//
, ""\n"", 4294967296 ]
    : Packet
1 :	falsey,
""\" ++ [233]%N ++ runes_of_ascii """ // " ++ [128512]%N ++ runes_of_ascii " emoji
:
    charz } , zchar[255
]
// packet A { u8 x, }
// trailing space 
rootA , repeat  char[ 10 ]// `tick` ""quote"" 'q'
f32a
// trailing space 
//x
,@calculatedFrom(  ""// no comment"") char[ 00 ]trueish@calculatedFrom(
    // " ++ [27880; 37322]%N ++ runes_of_ascii "
    ""a\""b"" )`line1
line2` ,}")).
Eval vm_compute in ("<<<M1434>>>" ++ check (runes_of_ascii "// top
packet
    // c0
float // c1a
  // c1b
{ // c2a
  // c2b
repeat // c3
i8i8 MetaDataX // c5
`it's` // c6
, rootA // c8
, // c9a
  // c9b
repeat // c10
int8 // c11
int // c12
, match // c14
repeatCount // c15
as // c16a
  // c16b
x_y_z {
    // c18
""{,}"" // c19a
  // c19b
: // c20
Logon // c21
, // c22a
  // c22b
} // c23
, // c24a
  // c24b
} // c25a
  // c25b
")).
Eval vm_compute in ("<<<M1730>>>" ++ check (runes_of_ascii "packet string_ {
    @lengthOf(int)
    BodyLength u8x,
    i64_ `tab	here`,
    char[3] string_,
    repeat leftPad `" ++ [28040; 24687; 31867; 22411]%N ++ runes_of_ascii "`,
    repeat int32 BodyLength `u8 x,`,// `tick` ""quote"" 'q'
    @tag(4294967296)
    BodyLength `crlf
        line`,
    msg_type Packet `" ++ [233]%N ++ runes_of_ascii "`,
    float32 string_ @calculatedFrom(""""),
    asx int `it's`,
}")).
Eval vm_compute in ("<<<M2090>>>" ++ check (runes_of_ascii "// top
MetaData	// c0a
    // c0b
float // c1
      {
        // c2

  float64	// c3
  charz  // c4a
  // c4b

`
`
        // c5
    , 

    // c6
  } root	// c8

	packet// c9a
	// c9b
	chars
    // c10
  	{@rightPad ( '0'  // c14
    	) 
// c15
Foo
    // c16
    ,
        // c17
}
")).
Eval vm_compute in ("<<<M519>>>" ++ check (runes_of_ascii "root packet tag { }  packet MetaDataX{char[ char[007	]
// c
/// triple
asx  @calculatedFrom( ""a\""b""
) `say ""hi""`// " ++ [27880; 37322]%N ++ runes_of_ascii "
,  @tag(4294967296 )
    char[1//x
] packetx @calculatedFrom(""a\""b""
    ) ,
// " ++ [128512]%N ++ runes_of_ascii " emoji
// a // b
@calculatedFrom(""" ++ [233]%N ++ runes_of_ascii "t" ++ [233]%N ++ runes_of_ascii """  ) repeat pack // " ++ [27880; 37322]%N ++ runes_of_ascii "
,
    } // c")).
Eval vm_compute in ("<<<M529>>>" ++ check (runes_of_ascii "root packet tag { }  packet MetaDataX{char[007	] ]
// c
/// triple
asx  @calculatedFrom( ""a\""b""
) `say ""hi""`// " ++ [27880; 37322]%N ++ runes_of_ascii "
,  @tag(4294967296 )
    char[1//x
] packetx @calculatedFrom(""a\""b""
    ) ,
// " ++ [128512]%N ++ runes_of_ascii " emoji
// a // b
@calculatedFrom(""" ++ [233]%N ++ runes_of_ascii "t" ++ [233]%N ++ runes_of_ascii """  ) repeat pack // " ++ [27880; 37322]%N ++ runes_of_ascii "
,
    } // c")).
Eval vm_compute in ("<<<M664>>>" ++ check (runes_of_ascii "root packet tag { }  packet MetaDataX{char[007	]
// c
/// triple
asx  @calculatedFrom( ""a\""b""
) `say ""hi""`// " ++ [27880; 37322]%N ++ runes_of_ascii "
,  @tag(4294967296 )
   ~ char[1//x
] packetx @calculatedFrom(""a\""b""
    ) ,
// " ++ [128512]%N ++ runes_of_ascii " emoji
// a // b
@calculatedFrom(""" ++ [233]%N ++ runes_of_ascii "t" ++ [233]%N ++ runes_of_ascii """  ) repeat pack // " ++ [27880; 37322]%N ++ runes_of_ascii "
,
    } // c")).
Eval vm_compute in ("<<<M615>>>" ++ check (runes_of_ascii "root packet tag { }  packet MetaDataX{char[007	]
// c
/// triple
asx  @calculatedFrom( ""a\""b""
) `say ""hi""`// " ++ [27880; 37322]%N ++ runes_of_ascii "
,  @tag(4294967296 )
    char[1//x
] packetx @calculatedFrom(""a\""b""
    ) @calculatedFrom(
// " ++ [128512]%N ++ runes_of_ascii " emoji
// a // b
,""" ++ [233]%N ++ runes_of_ascii "t" ++ [233]%N ++ runes_of_ascii """  ) repeat pack // " ++ [27880; 37322]%N ++ runes_of_ascii "
,
    } // c")).
Eval vm_compute in ("<<<M228>>>" ++ check (runes_of_ascii "
packet
Z9_  { } packet T
{
repeat
    charz {match float as // " ++ [128512]%N ++ runes_of_ascii " emoji
stringy {00 : f32a [ 00
    //x
    , 00 ,""a\\""
// packet A { u8 x, }
// a // b
, 0 ,	7, 0 ] : As , } ,//	t
uint32 asx ,
//
/// triple
repeat u8x {
    repeat
//x
//
u8 string_ ,
} , } , }
")).
Eval vm_compute in ("<<<M568>>>" ++ check (runes_of_ascii "root packet tag { }  packet MetaDataX{char[007	]
// c
/// triple
asx  @calculatedFrom( ""a\""b""
) `say ""hi""`// " ++ [27880; 37322]%N ++ runes_of_ascii "
,  @tag( )
    char[1//x
] packetx @calculatedFrom(""a\""b""
    ) ,
// " ++ [128512]%N ++ runes_of_ascii " emoji
// a // b
@calculatedFrom(""" ++ [233]%N ++ runes_of_ascii "t" ++ [233]%N ++ runes_of_ascii """  ) repeat pack // " ++ [27880; 37322]%N ++ runes_of_ascii "
,
    } // c")).
Eval vm_compute in ("<<<M1915>>>" ++ check (runes_of_ascii "root packet tag {
}

packet MetaDataX {
    char[007] asx @calculatedFrom(""a\""b"") `say ""hi""`,
    @tag(4294967296)
    char[1] packetx @calculatedFrom(""a\""b""),
    // " ++ [128512]%N ++ runes_of_ascii " emoji
    // a // b
    @calculatedFrom(""" ++ [233]%N ++ runes_of_ascii "t" ++ [233]%N ++ runes_of_ascii """)
    pack,
}// c")).
Eval vm_compute in ("<<<M2026>>>" ++ check (runes_of_ascii "// top
packet B {
    u8 a,
}

// c6
root packet P {
    // c10
    u8 K,
    // c13
    u8 L @lengthOf(Body),
    // c19
    match K as Body {
        // c24
        1 : B,
        // c28
    },// c30
}
// c31")).
Eval vm_compute in ("<<<M1637>>>" ++ check (runes_of_ascii "

  packet 
        // `tick` ""quote"" 'q'
    crc
// packet A { u8 x, }
		//	t
    { u32
a1  ,  
  // trailing space 
roots
	charz	//
`two words`,
}MetaData int
	{ }/// triple@leftpad
")).
Eval vm_compute in ("<<<M2133>>>" ++ check (runes_of_ascii "  // top
  packet// c0
    x// c1
    { 	 // c2
  @rightPad	// c3

	( 	 // c4
    )  // c5

  repeat// c6
  	roots  // c7

	Logon  // c8
  `doc`  // c9
  ,  // c10
  } // c11
")).
Eval vm_compute in ("<<<M430>>>" ++ check (runes_of_ascii "packet
    // `tick` ""quote"" 'q'
    crc
// packet A { u8 x, }
//	t
{
u32 a1 ,
    // trailing space 
    roots
charz //
`two words`, ,	}
    MetaData int {
} /// triple")).
Eval vm_compute in ("<<<M391>>>" ++ check (runes_of_ascii "packet
    // `tick` ""quote"" 'q'
    {
// packet A { u8 x, }
//	t
crc
u32 a1 ,
    // trailing space 
    roots
charz //
`two words`,	}
    MetaData int {
} /// triple")).
Eval vm_compute in ("<<<M409>>>" ++ check (runes_of_ascii "packet
    // `tick` ""quote"" 'q'
    crc
// packet A { u8 x, }
//	t
{
u32 a1 
    // trailing space 
    roots
charz //
`two words`,	}
    MetaData int {
} /// triple")).
Eval vm_compute in ("<<<M339>>>" ++ check (runes_of_ascii "//
packet
int {@leftPad (
    '\x00' ) MetaDataX @lengthOf( u128 ) ,u
    a1 `doc` ,
    @calculatedFrom(
    ""a\""b"") i16 repeatCount // @lengthOf(
`tab	here`
, }")).
Eval vm_compute in ("<<<M2114>>>" ++ check (runes_of_ascii "
packet	A {

    match 
k  as  n
{

[1

,
    ""bb"" , 007,
	""d"" 
,
    5
,
    ""f"" ,7 ,	""h""	,
9 ,""j""

,
    11
, ""l""
	]: B

,
    2
	: C  }

    ,
} ")).
Eval vm_compute in ("<<<M1599>>>" ++ check (runes_of_ascii "packet A {
    match k as n {
        [
            ""a"", 22, ""c c"", 4, ""e"",
            66, ""g"", 8, ""i"", 10
        ] : B,
        2 : C,
    },
}")).
Eval vm_compute in ("<<<M707>>>" ++ check (runes_of_ascii "root packet len // trailing space 
{
// " ++ [27880; 37322]%N ++ runes_of_ascii "
//	t
char[10
] metadata	@lengthOf( o ) `crlf
line`,
    @rightPad
( ' '
) string
    Header")).
Eval vm_compute in ("<<<M1473>>>" ++ check (runes_of_ascii "
options{
	LittleEndian  =
true
; 
}
    root  packet P  { u16
	a
,

    u32
    Sum

    @calculatedFrom(

""CRC32"" 
) , }
")).
Eval vm_compute in ("<<<M1229>>>" ++ check (runes_of_ascii "root packet matchKey { // c
zchar[ 3 ] pack @calculatedFrom( ""a	b"" ) `doc` , } options { } MetaData A { int8 msg_type , }")).
Eval vm_compute in ("<<<M1261>>>" ++ check (runes_of_ascii "root packet matchKey { zchar[ 3 ] pack @calculatedFrom( ""a	b"" ) `doc` , } options { } MetaData A { // c
int8 msg_type , }")).
Eval vm_compute in ("<<<M902>>>" ++ check (runes_of_ascii "packet A {
  match k as n {
    [""a"", ""bb"", ""c c"", ""d"", ""e"", ""f"", ""g"", ""h"", ""i"", ""j"", ""k"", ""l""] : B
    2 : C
  },
}")).
Eval vm_compute in ("<<<M910>>>" ++ check (runes_of_ascii "packet A {
  match k as n {
    [""a"", ""bb"", 007, ""d"", ""e"", 66, ""g"", ""h"", 9, ""j"", ""k"", 12] : B
    2 : C
  },
}")).
Eval vm_compute in ("<<<M1674>>>" ++ check (runes_of_ascii "
MetaData

    body	{ i64
	pack

    `it's`
,
} 	 // c
  packet	stringy  {	int16 calculatedFrom 
, } ")).
Eval vm_compute in ("<<<M939>>>" ++ check (runes_of_ascii "packet A {
    Inner {
        u8 x `a

b`,
        Deep {
            u8 y `a

b`,
        },
    },
}")).
Eval vm_compute in ("<<<M1822>>>" ++ check (runes_of_ascii "MetaData asx {
    chars f32a,
    string T,
}

options {
    zchar = 10
    // " ++ [27880; 37322]%N ++ runes_of_ascii "
    crc = true
}")).
Eval vm_compute in ("<<<M1633>>>" ++ check (runes_of_ascii "packet
o	{repeat 
Logon
    uint8x ,	} 
options	{asx =
zchar[ 3
	]
stringy 
=
// c
'\x00'}

")).
Eval vm_compute in ("<<<M1477>>>" ++ check (runes_of_ascii "

  root
packet

    P {

u16 a
,u32	Sum
	@calculatedFrom(

    ""CRC32""

    ) , 
} ")).
Eval vm_compute in ("<<<M1188>>>" ++ check (runes_of_ascii "MetaData float { float64 charz // c
`
` , } root packet chars { @rightPad ( '0' ) Foo , }")).
Eval vm_compute in ("<<<M1399>>>" ++ check (runes_of_ascii "packet chars
// c
{ } packet MetaDataX { @tag( 42 ) i16 string_ , repeat x `say ""hi""` , }")).
Eval vm_compute in ("<<<M1729>>>" ++ check (runes_of_ascii "packet A

    { Inner
{	match
k  as	n {
[
1 , 22 ,

    007
    ] :B, }, }

,

}
")).
Eval vm_compute in ("<<<M1129>>>" ++ check (runes_of_ascii "packet metadata {
// c
Logon { A `" ++ [28040; 24687; 31867; 22411]%N ++ runes_of_ascii "` , tag o , } , zchar len `// not a comment` , }")).
Eval vm_compute in ("<<<M1630>>>" ++ check (runes_of_ascii "  MetaData
    repeatCount {

}
options  {  // packet A { u8 x, }

	} 

// @lengthOf(")).
Eval vm_compute in ("<<<M1366>>>" ++ check (runes_of_ascii "packet o { repeat Logon uint8x , } options { asx = zchar[ 3 // c
] stringy = '\x00' }")).
Eval vm_compute in ("<<<M1304>>>" ++ check (runes_of_ascii "
// c
MetaData body { i64 pack `it's` , } packet stringy { int16 calculatedFrom , }")).
Eval vm_compute in ("<<<M1327>>>" ++ check (runes_of_ascii "MetaData body { i64 pack `it's` , } packet stringy { int16 // c
calculatedFrom , }")).
Eval vm_compute in ("<<<M967>>>" ++ check (runes_of_ascii "packet A {
    u32 crc @calculatedFrom(""\
""),
    @calculatedFrom(""\
"") u8 y,
}")).
Eval vm_compute in ("<<<M408>>>" ++ check (runes_of_ascii "packet
    // `tick` ""quote"" 'q'
    crc
// packet A { u8 x, }
//	t
{
u32")).
Eval vm_compute in ("<<<M403>>>" ++ check (runes_of_ascii "packet
    // `tick` ""quote"" 'q'
    crc
// packet A { u8 x, }
//	t
{")).
Eval vm_compute in ("<<<M1487>>>" ++ check (runes_of_ascii "  root
packet

P {u8
s_u8
    ,repeat u8 r_u8 ,u16
b_len
,  }
")).
Eval vm_compute in ("<<<M943>>>" ++ check (runes_of_ascii "packet A {
    B b `x
`,
    B `x
`,
    repeat B bs `x
`,
}")).
Eval vm_compute in ("<<<M1287>>>" ++ check (runes_of_ascii "packet x { @rightPad ( )
// c
repeat roots Logon `doc` , }")).
Eval vm_compute in ("<<<M1973>>>" ++ check (runes_of_ascii "root packet

u128
        // c
    {chars`it's` , }

")).
Eval vm_compute in ("<<<M1725>>>" ++ check (runes_of_ascii "packet
A

    {u8 x
`d" ++ [65279]%N ++ runes_of_ascii "`
    , 	 // c" ++ [65279]%N ++ runes_of_ascii "

	}

")).
Eval vm_compute in ("<<<M960>>>" ++ check (runes_of_ascii "options {
    a = ""x\
y"";
    b = ""x\
y""
}")).
Eval vm_compute in ("<<<M1666>>>" ++ check (runes_of_ascii "
options
	{
	asx
	=
    '0'
;

    }
")).
Eval vm_compute in ("<<<M1087>>>" ++ check (runes_of_ascii "root // a
 packet // b
 A // c
 { }")).
Eval vm_compute in ("<<<M954>>>" ++ check (runes_of_ascii "packet A {
    u8 x `tab
	x`,
}")).
Eval vm_compute in ("<<<M654>>>" ++ check (runes_of_ascii "root packet tag { }  packet ")).
Eval vm_compute in ("<<<M1169>>>" ++ check (runes_of_ascii "root packet pack // c
{ }")).
Eval vm_compute in ("<<<M1037>>>" ++ check (runes_of_ascii "// c 	
packet A {
}")).
Eval vm_compute in ("<<<M1012>>>" ++ check (runes_of_ascii "// c" ++ [8233]%N ++ runes_of_ascii "
packet A {
}")).
Eval vm_compute in ("<<<M1014>>>" ++ check (runes_of_ascii "packet A {
}// c" ++ [8239]%N)).
Eval vm_compute in ("<<<M728>>>" ++ check (runes_of_ascii "// a
// b
")).
Eval vm_compute in ("<<<M1020>>>" ++ check (runes_of_ascii "// c" ++ [8287]%N)).
