From FP Require Import Lexer Parser ShowPT Digest Formatter.
From Coq Require Import String List NArith.
Import ListNotations.
Open Scope string_scope.
Set Printing Width 100000000.
Set Printing Depth 100000000.
Definition show_fres (r : fres) : string :=
  match r with
  | FOk s => "OK:" ++ sh_escaped s ""
  | FErr s => "ERR:" ++ sh_escaped s ""
  | FPanic p => "PANIC:" ++ p
  end.
Definition check (rs : list rune) : string := digest (show_fres (format_res rs)).
Definition full (rs : list rune) : string := show_fres (format_res rs).
Eval vm_compute in ("<<<M980>>>" ++ check (runes_of_ascii "packet
trueish {
Packet{u8x
    // " ++ [128512]%N ++ runes_of_ascii " emoji
    { match Packet as f32a//	t
{ [255  ,255, 1 ] :calculatedFrom ,
    // packet A { u8 x, }
    ""// no comment""  : a1// c
,  10
    :
Foo
    //
    , ""\" ++ [233]%N ++ runes_of_ascii """ :
//
// packet A { u8 x, }
repeatCount , ""abc"" :MetaDataX
    , 00:u128}
, repeat o //x
roots
`tab	here` , // @lengthOf(
int16 packetx`" ++ [28040; 24687; 31867; 22411]%N ++ runes_of_ascii "` ,
}, } ,crc @lengthOf(i8i8 )	``
,
repeat uint8 body ,@leftPad	( '\x00' ) string packetx@calculatedFrom(	""packet""
) , f64
int
    `line1
line2`
, } packet crc {	i32 u128 `line1
line2`  , @tag( 42 )lengthOf {
    leftPad@lengthOf(
    repeatCount
    ) , u16 _x ,match rootA as// `tick` ""quote"" 'q'
msg_type
    { [ """"
    ] : Z9_ 0
/// triple
// `tick` ""quote"" 'q'
: tag ""\" ++ [233]%N ++ runes_of_ascii """	: As,""1"" :Logon //	t
,00	: A 3:BodyLength ,	} , } ,	@tag( 1 )int8
Pad
, zchar[ 65535
    // `tick` ""quote"" 'q'
    ]
asx // trailing space 
,
}
options
{trueish
    // trailing space 
    =	false ; } packet Packet	{ @calculatedFrom( ""abc"" ) u {repeat Logon {
char[] msg_type @calculatedFrom(
    // packet A { u8 x, }
    ""a\""b""
    )	`// not a comment`, }, repeat char[ // a // b
00]
rootA , }
    ,
// " ++ [128512]%N ++ runes_of_ascii " emoji
//
@calculatedFrom(""abc"" )string
    float,
match Foo as Z9_{ [	0 , ""packet"" // packet A { u8 x, }
, ""a	b"" , 007 , 4294967296 , ""\n"" ]
    :trueish
,
[ 65535, """ ++ [28040; 24687]%N ++ runes_of_ascii """] : u8x 65535:roots
    // a // b
    [""CRC32""]: falsey ,  00
// `tick` ""quote"" 'q'
// `tick` ""quote"" 'q'
: roots
,} , @rightPad (	' ' // packet A { u8 x, }
)
    x_y_z @calculatedFrom(
""\" ++ [233]%N ++ runes_of_ascii """ )
, }packet matchKey {// c
@tag( 7	) leftPad
@calculatedFrom(""\" ++ [233]%N ++ runes_of_ascii """ )
`" ++ [233]%N ++ runes_of_ascii "`  ,  @tag(
    007 ) uint8
leftPad
, int {i16 x``
, match
    len
    as
    f32a {""it's"":calculatedFrom	,  [ 0
] : lengthOf
, 7 // @lengthOf(
: // packet A { u8 x, }
x_y_z
, ""a\""b"" : float
    // c
    ,1
    :Pad,  } , } , o {
    // @lengthOf(
    u8x
    metadata`tab	here` , asx
    {
    match // trailing space 
int
    // c
    as
    /// triple
    x_y_z
/// triple
// packet A { u8 x, }
{ ""a	b"" :  falsey}
    ,	}
, repeat int16 As  `crlf
line`// c
, }
    // " ++ [27880; 37322]%N ++ runes_of_ascii "
    , i32 i64_  `" ++ [233]%N ++ runes_of_ascii "`
//	t
/// triple
,T , }
// c
")).
Eval vm_compute in ("<<<M4498>>>" ++ check (runes_of_ascii "// " ++ [27880; 37322]%N ++ runes_of_ascii "
options {
    zchar = ""x y"";
    options1 = u16;
}

packet Pad {
    Z9_ @calculatedFrom("""") `
    `,
    @tag(42)
    //
    @tag(00)
    @lengthOf(zchar)
    match _x as metadata {
        007 : As,
        ""`tick`"" : lengthOf,
        255 : lengthOf,
        ""a	b"" : Packet,
        255 : a1,
        // c
        [
            00, 0, 10, ""a\\"", ""it's"",
            10, 7
        ] : Foo,
    },
    match Header as o {
        [255] : zchar,
        0123456789 : leftPad,
        [007, 3] : leftPad,
        // c
        0 : packetx,
    },
}

MetaData Pad {
    // packet A { u8 x, }
}

packet T {
    // " ++ [27880; 37322]%N ++ runes_of_ascii "
    charz @lengthOf(asx) ``,
}

packet matchKey {
    @tag(3)
    @calculatedFrom(""a	b"")
    @calculatedFrom("""")
    pack rootA,
    repeat leftPad ``,
    repeat uint32 Foo `u8 x,`,
    @calculatedFrom(""" ++ [233]%N ++ runes_of_ascii "t" ++ [233]%N ++ runes_of_ascii """)
    repeat char[65535] u,
    @lengthOf(_x)
    @lengthOf(u8x)
    repeat zchar[0123456789] x,
    match i64_ as falsey {
        // trailing space 
        255 : f32a,
        ""{,}"" : x,
        ""\" ++ [233]%N ++ runes_of_ascii """ : matchKey,
        [
            """", ""{,}"", 10, """ ++ [128512]%N ++ runes_of_ascii """, ""a	b"",
            0, ""1"", 65535
        ] : len,
        ""\" ++ [233]%N ++ runes_of_ascii """ : T,
        [
            ""CRC32"", 1, ""// no comment"", 007, 1,
            ""`tick`"", """ ++ [128512]%N ++ runes_of_ascii """
        ] : a1,
    },
    match x as As {
        ""a	b"" : o,
        007 : MetaDataX,
        [""a	b""] : falsey,
        ""// no comment"" : Z9_,
        ""packet"" : _x,
    },
    repeat rootA {
        uint8 MetaDataX @calculatedFrom(""abc""),
        match int as asx {
            [10, 10, ""`tick`"", 00, 4294967296] : o,
            ""CRC32"" : string_,
            [0] : roots,
            65535 : _x,
            ""it's"" : Pad,
            4294967296 : Pad,
        },
        u16 chars `line1
        line2`,//x
    },
}")).
Eval vm_compute in ("<<<M4242>>>" ++ check (runes_of_ascii "MetaData leftPad {
    Header falsey,
}

packet x_y_z {
    @calculatedFrom(""`tick`"")
    @rightPad('\x00')
    match matchKey as As {
        [""CRC32"", ""\n""] : Logon,
        [007, """ ++ [28040; 24687]%N ++ runes_of_ascii """, """ ++ [28040; 24687]%N ++ runes_of_ascii """, """ ++ [128512]%N ++ runes_of_ascii """, 0123456789] : x,
        [1] : i8i8,
        ""`tick`"" : u8x,
    },
    int64 _x `tab	here`,
    @rightPad()
    char[255] uint8x `a\`,
    string string_,
    repeat int16 packetx,// " ++ [27880; 37322]%N ++ runes_of_ascii "
    @rightPad(' ')
    string string_,
    i16 asx @lengthOf(int) `// not a comment`,
    float32 uint8x,
    i8 i64_ @calculatedFrom(""\n""),
}

packet T {
    string_ @lengthOf(A) `{ , }`,
    @calculatedFrom("""")
    match Pad as u {
        [""1"", ""1""] : body,
        [0123456789, ""a\\"", """ ++ [128512]%N ++ runes_of_ascii """, ""it's"", ""it's""] : lengthOf,
        """ ++ [128512]%N ++ runes_of_ascii """ : A,
        [0123456789, 3] : rootA,
        4294967296 : rootA,
    },
    string metadata @lengthOf(A),
    @lengthOf(msg_type)
    @rightPad(' ')
    @rightPad()
    f64 u128 @lengthOf(rootA) `{ , }`,
}

packet int {
    @tag(255)
    @rightPad(' ')
    repeat char[10] u128,
    @calculatedFrom(""\" ++ [233]%N ++ runes_of_ascii """)
    char[007] calculatedFrom,
    @rightPad('\x00')
    repeat zchar[007] i8i8,
    @calculatedFrom(""// no comment"")
    char[] x_y_z,
    zchar[0123456789] msg_type @calculatedFrom(""a\""b""),
    u8 f32a @lengthOf(rootA) `crlf
        line`,
    zchar[7] msg_type @lengthOf(Header) `// not a comment`,
    char[42] roots `" ++ [233]%N ++ runes_of_ascii "`,
    @lengthOf(stringy)
    @lengthOf(As)
    // trailing space 
    // " ++ [128512]%N ++ runes_of_ascii " emoji
    zchar[7] msg_type `{ , }`,
}

root packet u {
    // c
    repeat uint64 As,
}")).
Eval vm_compute in ("<<<M641>>>" ++ check (runes_of_ascii "options { T=""it's"" ; // trailing space 
Z9_  =""\" ++ [233]%N ++ runes_of_ascii """
int = '\x00'u8x  =	""`tick`""crc
=""packet"" ;	} root // packet A { u8 x, }
packet string_ { match charz
//x
// c
as u { // " ++ [128512]%N ++ runes_of_ascii " emoji
0123456789 :
    zchar , 42
    // packet A { u8 x, }
    :rootA ,  007:
//	t
// packet A { u8 x, }
crc , """ ++ [28040; 24687]%N ++ runes_of_ascii """ : Foo[
007	, ""x y"" ] :int , // " ++ [27880; 37322]%N ++ runes_of_ascii "
}
,
    @tag(  7
// a // b
// @lengthOf(
) repeat
// `tick` ""quote"" 'q'
//
metadata, string len // a // b
@lengthOf( o ) `crlf
line` , repeat int32 falsey `
`
// a // b
// " ++ [27880; 37322]%N ++ runes_of_ascii "
, @leftPad( )
x
    @calculatedFrom(
    ""// no comment"" )`// not a comment`
,uint16 rootA , @lengthOf( a1// `tick` ""quote"" 'q'
) char calculatedFrom , @tag( /// triple
3 ) zchar[ 65535 ]	body ,}
packet Logon // `tick` ""quote"" 'q'
{ @leftPad (/// triple
)@tag( 7 )
char
u128 `say ""hi""` ,
@tag( 10 ) char[42  ]
    roots , } root // " ++ [27880; 37322]%N ++ runes_of_ascii "
packet	i64_ {
    repeat
    _x { repeat
    // @lengthOf(
    MetaDataX o //x
, } , u128 { asx { u8 a1  ,
repeat	As, // a // b
}	,} ,
    int16 Foo ,
    u64
asx `
` , u8x @lengthOf( crc ) //	t
, @calculatedFrom(
    // `tick` ""quote"" 'q'
    ""CRC32"" ) @lengthOf(body	) @tag( 7 ) falsey
//x
// a // b
body
`{ , }` ,	MetaDataX { trueish
MetaDataX`tab	here` , char[ 3 ] i8i8
@calculatedFrom(""" ++ [128512]%N ++ runes_of_ascii """  )
`" ++ [233]%N ++ runes_of_ascii "`, },
}options { _x
=false
    _x
    =// c
char[
    0123456789 ]	repeatCount
=
    ' '_x = ""packet"";
}

")).
Eval vm_compute in ("<<<M3644>>>" ++ check (runes_of_ascii "// top
options
    // c0
{ // c1a
  // c1b
LittleEndian // c2
= // c3
false // c4a
  // c4b
;
    // c5
ArrayPrefixLenType // c6a
  // c6b
= u8 ; // c9
FixedStringPadChar
    // c10
= // c11
'0'
    // c12
; // c13a
  // c13b
}
    // c14
packet // c15
Order // c16a
  // c16b
{ InNote94 // c18
{ // c19
f32 // c20
f1
    // c21
,
    // c22
f64 Side2 // c24
, // c25
repeat // c26a
  // c26b
InTail47 // c27a
  // c27b
{ // c28a
  // c28b
char[] // c29a
  // c29b
seqNo , // c31
char[] Tail , // c34a
  // c34b
char[] // c35
lastPx
    // c36
,
    // c37
} , } // c40a
  // c40b
,
    // c41
zchar[ 7 // c43
] f1 // c45
, // c46
u8 // c47a
  // c47b
Side2 , // c49
} // c50a
  // c50b
root packet // c52
Reject // c53a
  // c53b
{
    // c54
repeat // c55a
  // c55b
char[ // c56a
  // c56b
4
    // c57
] // c58
Flags
    // c59
, // c60
InPrice63 { InSeqno41 { repeat // c65a
  // c65b
i8 OrderId
    // c67
, repeat // c69a
  // c69b
i32 // c70a
  // c70b
clOrdID
    // c71
, char[ // c73
9
    // c74
] tag7 // c76
, // c77a
  // c77b
char[] // c78a
  // c78b
lastPx // c79a
  // c79b
, // c80
} // c81
, // c82a
  // c82b
Order , // c84a
  // c84b
uint8 Side2
    // c86
, // c87a
  // c87b
} ,
    // c89
}
    // c90
")).
Eval vm_compute in ("<<<M350>>>" ++ check (runes_of_ascii "packet
matchKey
    {	zchar[ 3
    ]
// `tick` ""quote"" 'q'
// packet A { u8 x, }
A,msg_type
`a\` , MetaDataX As  , @lengthOf(
    Z9_ )repeat
    f32 _x ,
    @lengthOf(Pad ) uint32 //	t
Logon
    , // a // b
@tag( 4294967296 ) T	`doc` ,
len  ,
body { repeat
    o { match i8i8 as	body{ 65535
:lengthOf,
[ ""\n"" ] : i64_ 3
: asx , [
""packet""
,
    /// triple
    007	,
""{,}""  , ""// no comment""
] : repeatCount ,[ ""// no comment"",
    7
    ,	""\" ++ [233]%N ++ runes_of_ascii """, 0123456789 //
, ""a\""b"" ] : roots
} ,
match repeatCount as As
{ """"
    /// triple
    : //	t
o ,
    }
, } , zchar[ 0 ]BodyLength `` ,
    lengthOf,}, i16 Z9_ , } packet
    tag { @tag(
    // `tick` ""quote"" 'q'
    1 ) repeat float i8i8`" ++ [28040; 24687; 31867; 22411]%N ++ runes_of_ascii "` // `tick` ""quote"" 'q'
,  @rightPad ( )@lengthOf( _x) @rightPad ( // c
'0'
)
Packet, Foo /// triple
@lengthOf(
    u128
) `doc` ,
@tag( 007 ) // packet A { u8 x, }
string repeatCount , o {match leftPad as lengthOf {
[
    0123456789  ,
""1"" ] :
    x_y_z  , [ """ ++ [128512]%N ++ runes_of_ascii """] : i8i8
, [// @lengthOf(
""a\""b"" , ""a	b"" ]
: Foo , [ ""\" ++ [233]%N ++ runes_of_ascii """ ] : Pad,
    [ ""a	b"" , 42
//
//	t
, """ ++ [233]%N ++ runes_of_ascii "t" ++ [233]%N ++ runes_of_ascii """ ,	3 ,	""" ++ [28040; 24687]%N ++ runes_of_ascii """,
    00 ,
7 ]  : packetx ,
42
    //x
    : falsey,}
,},}packet body
{ }")).
Eval vm_compute in ("<<<M983>>>" ++ check (runes_of_ascii "packet Packet { MetaDataX	{
// " ++ [128512]%N ++ runes_of_ascii " emoji
// trailing space 
zchar[
    // @lengthOf(
    255 ] crc
    @calculatedFrom( ""`tick`"") `doc`
    , // c
},
u32 As`
`,
    @lengthOf(
chars) f64
leftPad	`// not a comment` ,
repeat char[ 3 ] len  `doc`
, match
u8x as
chars {4294967296: f32a
    , [
255, 4294967296 ]: string_ 0 :chars , // packet A { u8 x, }
""a\""b"" : options1 7
: falsey ,	} , @lengthOf( // c
len
// `tick` ""quote"" 'q'
// @lengthOf(
) repeat char[10
    // " ++ [27880; 37322]%N ++ runes_of_ascii "
    ]
Header `crlf
line`, // " ++ [27880; 37322]%N ++ runes_of_ascii "
rootA
asx
`two words` ,
}packet //x
Packet{ @tag(//
00 ) u16 asx
    ,	@calculatedFrom( ""a\""b"" ) charz @lengthOf( a1 )
, @lengthOf( asx)
    repeat string
    falsey
, u32 options1@lengthOf(
    packetx) `it's`//x
,} packet
metadata { int16 i8i8 ,
i32 tag
//x
//
`line1
line2` ,	@calculatedFrom( ""a\\""
//x
//	t
) // trailing space 
@lengthOf( repeatCount )
MetaDataX {
repeat
x_y_z,  }
,lengthOf tag `" ++ [233]%N ++ runes_of_ascii "`
    ,
    }
MetaData//	t
Foo
{
body chars
, char[] asx `// not a comment`,char u8x
//
// a // b
, x trueish `crlf
line`
, char[] options1
`u8 x,`
, }")).
Eval vm_compute in ("<<<M947>>>" ++ check (runes_of_ascii "packet chars {
    u8 _x@calculatedFrom(
    """ ++ [233]%N ++ runes_of_ascii "t" ++ [233]%N ++ runes_of_ascii """ )
, @lengthOf( stringy //
)
@calculatedFrom( ""a\""b"" ) repeat options1 {body uint8x
`doc` ,
a1 @lengthOf( f32a ) `tab	here` ,
repeat body // `tick` ""quote"" 'q'
{ float64 BodyLength
,
    } ,
    // @lengthOf(
    }  ,@lengthOf(
uint8x ) chars//	t
`crlf
line`
, @lengthOf( // c
crc
    // `tick` ""quote"" 'q'
    )@tag( 4294967296	)	char[] i8i8`tab	here` , char[]x
    `// not a comment` ,repeat string uint8x ,	@calculatedFrom( ""// no comment"" ) @calculatedFrom( ""it's""	)	i8 falsey , int @calculatedFrom( """ ++ [233]%N ++ runes_of_ascii "t" ++ [233]%N ++ runes_of_ascii """ )
,
    // " ++ [27880; 37322]%N ++ runes_of_ascii "
    match u128 as Foo {""" ++ [28040; 24687]%N ++ runes_of_ascii """ :trueish,	[ """ ++ [128512]%N ++ runes_of_ascii """//	t
, ""1"" // a // b
, 42 ,""" ++ [233]%N ++ runes_of_ascii "t" ++ [233]%N ++ runes_of_ascii """ ] // packet A { u8 x, }
:
Pad[0123456789 // packet A { u8 x, }
]:
    repeatCount
007
:calculatedFrom }
,
    // packet A { u8 x, }
    }options { trueish = 10; //x
Packet = true ; u128
= false ; charz	= 007 ;
    // " ++ [27880; 37322]%N ++ runes_of_ascii "
    } options  { Pad = ""`tick`""// packet A { u8 x, }
leftPad = true
// a // b
// " ++ [27880; 37322]%N ++ runes_of_ascii "
charz  = char[] ;	_x = //x
true }

")).
Eval vm_compute in ("<<<M4421>>>" ++ check (runes_of_ascii "packet uint8x {
    zchar[007] Header @calculatedFrom(""a	b""),
}

packet i64_ {
    @lengthOf(crc)
    /// triple
    string metadata `
        `,// trailing space 
    uint8x {
        repeat u16 string_,
    },// `tick` ""quote"" 'q'
    packetx {
        zchar[0123456789] calculatedFrom @calculatedFrom(""" ++ [28040; 24687]%N ++ runes_of_ascii """) `crlf
                line`,
        tag {
            zchar[007] tag @calculatedFrom(""1""),
            string u,
            repeat A T,
            roots @lengthOf(Logon),
            // `tick` ""quote"" 'q'
        },
        u8x ``,
        int64 metadata `tab	here`,
    },
}

packet rootA {
    @lengthOf(string_)
    Header A `doc`,
    match stringy as x {
        // c
        0123456789 : metadata,
        0 : rootA,
        42 : A,
        [00, ""abc""] : T,
        4294967296 : a1,
        // @lengthOf(
    },
    @rightPad('0')
    @tag(4294967296)
    @tag(00)
    char[] Foo @calculatedFrom(""1"") `crlf
        line`,
}")).
Eval vm_compute in ("<<<M3964>>>" ++ check (runes_of_ascii "MetaData u {
    metadata x_y_z,
    i8i8 len `it's`,
    zchar[42] options1 `{ , }`,
}

packet u {
    @calculatedFrom(""abc"")
    // c
    // " ++ [27880; 37322]%N ++ runes_of_ascii "
    char[0123456789] string_ @lengthOf(Logon) `a\`,
    string string_ @lengthOf(float),
    char[] crc `line1
    line2`,
    @lengthOf(metadata)
    u128 {
        char[] T,
    },
    f64 As @calculatedFrom(""// no comment""),
    repeat Z9_ chars `u8 x,`,
    @calculatedFrom(""packet"")
    repeat a1 tag,
}

packet A {
    @tag(7)
    @rightPad()
    @tag(0123456789)
    repeat crc {
        repeatCount As,
    },
    match pack as u {
        ""packet"" : Pad,
        ""1"" : u8x,
        007 : Packet,
        [""packet"", """ ++ [28040; 24687]%N ++ runes_of_ascii """] : BodyLength,
        ""1"" : asx,
    },
    match i64_ as Header {
        4294967296 : _x,
        007 : packetx,
        [007] : A,
        //	t
    },
    uint8 BodyLength,
    @lengthOf(i64_)
    u8 falsey,
}")).
Eval vm_compute in ("<<<M19>>>" ++ check (runes_of_ascii "packet
int // " ++ [27880; 37322]%N ++ runes_of_ascii "
{ repeat // @lengthOf(
MetaDataX // a // b
{ //	t
pack
    { repeat Pad	{ i8 MetaDataX
, repeat pack	trueish ,
u
    // trailing space 
    charz	`" ++ [233]%N ++ runes_of_ascii "` ,string
int
, }	, f64 Z9_
    ,
} ,
} // c
,	} packet trueish {
@lengthOf(
    u)uint8 metadata
    `" ++ [28040; 24687; 31867; 22411]%N ++ runes_of_ascii "` , match	uint8x
as roots
{ """ ++ [233]%N ++ runes_of_ascii "t" ++ [233]%N ++ runes_of_ascii """:
    Pad 0123456789
: msg_type// " ++ [27880; 37322]%N ++ runes_of_ascii "
[ ""1"" ,	0 ,10] //	t
:
pack,
[ ""it's"" ,  ""\" ++ [233]%N ++ runes_of_ascii """ ] :u8x
, [// " ++ [128512]%N ++ runes_of_ascii " emoji
0123456789 ] :
MetaDataX
    // packet A { u8 x, }
    , },zchar[	00 ] pack @lengthOf( string_ ),// packet A { u8 x, }
@tag( 4294967296 )
x_y_z string_ ,
    } options {A
    =true float  =	""" ++ [28040; 24687]%N ++ runes_of_ascii """ ; }
MetaData Header { zchar[//
7 // `tick` ""quote"" 'q'
]u128
, char[]
/// triple
// trailing space 
u , string_ metadata	,
uint32 f32a `u8 x,` , } options{// trailing space 
roots
    =
    true;
int =false ; string_=
"""" }")).
Eval vm_compute in ("<<<M1249>>>" ++ check (runes_of_ascii "packet x_y_z { @leftPad ()
    int8
//x
// trailing space 
x_y_z , @lengthOf( f32a ) repeat
// c
// trailing space 
char[ 7 // trailing space 
]len , int64 matchKey
    @calculatedFrom( // `tick` ""quote"" 'q'
""// no comment""
)
, @lengthOf(
roots )
@lengthOf(
MetaDataX	)
int32
Packet ,// a // b
@rightPad( ' ') i8i8
    // " ++ [128512]%N ++ runes_of_ascii " emoji
    { char Packet @lengthOf(
//x
//x
crc ) `" ++ [28040; 24687; 31867; 22411]%N ++ runes_of_ascii "`
,} ,@calculatedFrom( """" )repeat zchar[	255]
i64_ , @tag( 0123456789
) Logon // " ++ [27880; 37322]%N ++ runes_of_ascii "
, @lengthOf(  options1 )
    int32
Header // `tick` ""quote"" 'q'
,
@leftPad (
    )
int64 crc
    , @lengthOf(As )match  trueish as BodyLength { ""\" ++ [233]%N ++ runes_of_ascii """
// trailing space 
// @lengthOf(
: x 0123456789
:
/// triple
// trailing space 
stringy[ 255,	0 ,
    """ ++ [128512]%N ++ runes_of_ascii """ , ""packet""]
    : _x, ""packet"":
o, 42 :stringy , ""abc"" :
    Logon ,
}  ,}")).
Eval vm_compute in ("<<<M4551>>>" ++ check (runes_of_ascii "packet 
        //	t
  As
	{ @tag(
10 )
@lengthOf(

    chars)
    zchar 
{
	//x

	// `tick` ""quote"" 'q'
    metadata

    {
	Header
`it's`	,

    match

    body
	as
	i64_	// trailing space 
      { ""// no comment""	:
packetx
	, 
}/// triple
,
	match repeatCount

as 
asx{

    255
    :	Foo  , 3

:int, ""1""
    :chars 
, }
    ,
    uint32 
repeatCount  @lengthOf( 
// c
BodyLength 
) 
``, 
}
    , roots, 
repeat
    rootA	``
,

    char

MetaDataX  @lengthOf( crc	) 
,
}
, 
    // a // b
  _x

    {
match	As as
Foo// @lengthOf(
	{
1
:  
      // " ++ [27880; 37322]%N ++ runes_of_ascii "

	stringy
//x
//	t
	,

}
	, }
	, u8 
Foo,
	@calculatedFrom(

    """" )	BodyLength , 
char[007 ]
    Z9_@calculatedFrom(
""CRC32"" 
) ,
lengthOf
,i32  //x
f32a 
`{ , }`  ,
    } ")).
Eval vm_compute in ("<<<M1223>>>" ++ check (runes_of_ascii "packet
charz  { // @lengthOf(
} options
{
} packet float	{ metadata Logon ,
} packet
    body {
    @tag(
    42 // packet A { u8 x, }
) repeat tag i64_, /// triple
@lengthOf( string_  )	match chars as
    Z9_
    { [65535
// " ++ [27880; 37322]%N ++ runes_of_ascii "
//x
] :
o // `tick` ""quote"" 'q'
, [//	t
""{,}"" ,0123456789
    , ""packet""
// packet A { u8 x, }
//
, ""abc"" ,255 , """ ++ [233]%N ++ runes_of_ascii "t" ++ [233]%N ++ runes_of_ascii """
    ,
// packet A { u8 x, }
//x
""x y"" , 3 ]: pack
    , ""abc""
:
matchKey
    , [ 0123456789 , 1 ] : chars
    // c
    1 :int ,  """ ++ [233]%N ++ runes_of_ascii "t" ++ [233]%N ++ runes_of_ascii """ : i64_ , }
, match Pad as trueish { ""a	b"" : pack
    , }
,	@calculatedFrom( """ ++ [28040; 24687]%N ++ runes_of_ascii """
)
repeat u128 x
    ,
    string A
,
lengthOf
{
BodyLength T  ,int16 A @lengthOf(
i8i8
)//x
, // " ++ [27880; 37322]%N ++ runes_of_ascii "
} ,options1 chars  `line1
line2` ,
}
")).
Eval vm_compute in ("<<<M88>>>" ++ check (runes_of_ascii "// trailing space 
packet tag {
    @rightPad
    // @lengthOf(
    ( '0' )
    u128 ,
@lengthOf(MetaDataX
    )
    // c
    leftPad, // packet A { u8 x, }
@tag( 1
    )calculatedFrom
    @lengthOf( Logon )  , }
packet string_	{ } packet u128 {char[	0 // packet A { u8 x, }
]
chars `say ""hi""`
,
int , @leftPad ( '0'
// @lengthOf(
//x
)T { repeat zchar[ 255]
int
,zchar  stringy	, }
    ,repeat zchar{ match leftPad as packetx
{ [
""`tick`""
    ] :
    lengthOf //x
,  [  7,""" ++ [128512]%N ++ runes_of_ascii """
    ,
00 , ""x y"" , ""packet"" ] :
    stringy // @lengthOf(
, [
42 ,""\n""
, ""it's"" ,// " ++ [128512]%N ++ runes_of_ascii " emoji
65535, 1	]
: msg_type ""packet"" :	a1 ,} , u16 int
,
repeat x_y_z float,
repeat//x
u64 A `a\` ,
} , }
")).
Eval vm_compute in ("<<<M1042>>>" ++ check (runes_of_ascii "packet Foo { @leftPad
( '\x00'  )
    chars {repeat char[]
tag	`// not a comment` ,repeat u8  T
,repeat Foo
BodyLength`it's`,
zchar
    { u repeatCount  `" ++ [233]%N ++ runes_of_ascii "` , Header //	t
, repeat i64 u128 , repeat  charz{ char[] //x
leftPad,
    zchar[ // a // b
42 ] // a // b
lengthOf
`{ , }`
    , } ,} , }
    , @calculatedFrom( ""it's"" )
Pad
{i16 f32a ,
repeat char[ 10] x `{ , }` ,
    match metadata
as
o {	""" ++ [128512]%N ++ runes_of_ascii """ : metadata , 1
: rootA , } , } ,
packetx `{ , }`, } packet
falsey { }options {MetaDataX // " ++ [128512]%N ++ runes_of_ascii " emoji
= zchar[ 10
    //x
    ] ;  string_
    = '0'	;
i8i8=
// `tick` ""quote"" 'q'
//x
true _x  = char[ //	t
0123456789  ]
    }
// a // b
")).
Eval vm_compute in ("<<<M1255>>>" ++ check (runes_of_ascii "MetaData MetaDataX { string pack ``  , u32
    falsey	,
char[//	t
65535 ] chars, u64	int ,// c
}
options
{ i8i8= true	;
float =
' '
    ;
}	packet Foo {// a // b
@lengthOf( i64_ )
repeat
    calculatedFrom{
    match // a // b
repeatCount as stringy {
255 :
    msg_type  ,65535	: // a // b
roots ""a\""b""  : repeatCount ,[
    ""packet"" ,
""1""]
:
    o
    """ ++ [28040; 24687]%N ++ runes_of_ascii """:zchar ""CRC32"" :A ,}, int64 chars @calculatedFrom( ""a\""b"" )// packet A { u8 x, }
`say ""hi""`
, packetx @lengthOf(
x_y_z ) ,
    // `tick` ""quote"" 'q'
    }, stringy @calculatedFrom( """ ++ [28040; 24687]%N ++ runes_of_ascii """) `u8 x,`
, zchar[	007 ] chars,zchar[ 1
]f32a `" ++ [28040; 24687; 31867; 22411]%N ++ runes_of_ascii "`
    , }")).
Eval vm_compute in ("<<<M279>>>" ++ check (runes_of_ascii "
MetaData matchKey { i16
lengthOf, int16
    asx `it's`
    ,
    chars metadata `
` , char[ 00 ] u128 ,// " ++ [128512]%N ++ runes_of_ascii " emoji
zchar[ 007 ] falsey
,  uint64 packetx
, }
    packet string_
    {
}root
packet stringy{u64 packetx	@lengthOf( falsey // @lengthOf(
) `crlf
line` , falsey options1
    , repeat char[] calculatedFrom , @rightPad ( '\x00' )
i64 // c
charz
    @lengthOf(
    x_y_z )
    `u8 x,`,
// @lengthOf(
//x
@lengthOf( rootA )char[] BodyLength `it's`
, msg_type@calculatedFrom( // trailing space 
""packet"") ,
    // " ++ [27880; 37322]%N ++ runes_of_ascii "
    lengthOf {zchar[
65535	]tag
`
`
    , }
    , } 	 ")).
Eval vm_compute in ("<<<M1359>>>" ++ check (runes_of_ascii "packet  Foo {
@calculatedFrom(
""`tick`"" ) @rightPad
    ( ' ' )
/// triple
//x
repeat float { repeatCount
    , /// triple
zchar[ 0123456789
    ]rootA
@calculatedFrom(	""{,}"")
, match
// c
// a // b
matchKey
as T { ""\n"" :o
//
// `tick` ""quote"" 'q'
00 : tag [3 // trailing space 
, 65535
    // trailing space 
    ] : body,	}	,
} ,
@rightPad
    // @lengthOf(
    (
    ' ' ) @leftPad
('0' ) string packetx @calculatedFrom(""x y"" )
    ,  @lengthOf( charz ) string i64_ `crlf
line`, @rightPad  ('0' ) repeat string calculatedFrom `tab	here`,}
")).
Eval vm_compute in ("<<<M1036>>>" ++ check (runes_of_ascii "packet
    packetx
{@calculatedFrom( ""packet""
)
    // " ++ [27880; 37322]%N ++ runes_of_ascii "
    @calculatedFrom( ""// no comment"" ) @leftPad /// triple
(	'0') //	t
Z9_ T
, leftPad uint8x ,@tag( 4294967296
    //
    ) leftPad //
{ roots { char options1 , }, match Pad
    as int{ [
10 ]
    :roots//	t
,
[	""CRC32"" , ""1"" , 3  ,7
    ,// " ++ [27880; 37322]%N ++ runes_of_ascii "
0
, 0,
    /// triple
    ""CRC32"" , 7
// `tick` ""quote"" 'q'
// a // b
]	:Packet
,	1
    : tag ,1:
    matchKey [	42]:
_x }
, repeat	tag
// packet A { u8 x, }
// " ++ [128512]%N ++ runes_of_ascii " emoji
{ metadata `" ++ [233]%N ++ runes_of_ascii "`
,  }, //	t
u
    `a\` , } ,  }
")).
Eval vm_compute in ("<<<M503>>>" ++ check (runes_of_ascii "options {tag =	false
    ;  } root packet MetaDataX {repeat a1 { // packet A { u8 x, }
match options1 as _x { [ ""1""
    ] :
    //	t
    leftPad
, """" :Z9_ ,  ""a	b"" :leftPad ,
/// triple
// " ++ [128512]%N ++ runes_of_ascii " emoji
},
} , o , // @lengthOf(
@lengthOf( x ) calculatedFrom { repeat charz ,char[ 0123456789 ]
Pad , } , } // a // b
MetaData roots
{ }
packet
// `tick` ""quote"" 'q'
//	t
T {
match metadata // " ++ [128512]%N ++ runes_of_ascii " emoji
as BodyLength {
    0 : Packet ,
""" ++ [233]%N ++ runes_of_ascii "t" ++ [233]%N ++ runes_of_ascii """
: f32a, //x
""// no comment""
: float ,
// packet A { u8 x, }
//	t
}, }
")).
Eval vm_compute in ("<<<M472>>>" ++ check (runes_of_ascii "MetaData a1{ f64
    int
    , i32
o	`two words` ,
char[3	] lengthOf
    , zchar[ 7
] Header , u32 x_y_z , char[3 ] matchKey
    ,
    }packet falsey{@lengthOf(
    i8i8 ) match MetaDataX	as calculatedFrom  { 00
:
float  , // " ++ [27880; 37322]%N ++ runes_of_ascii "
7 // " ++ [128512]%N ++ runes_of_ascii " emoji
: MetaDataX
,""" ++ [28040; 24687]%N ++ runes_of_ascii """ :
    options1 , [ ""a\\"" // packet A { u8 x, }
]: charz	,
},match T
    // trailing space 
    as Z9_ { [
    ""it's"" ] : falsey //
,
255	:Foo , ""a\\""
    : Header , }, }
    MetaData
    lengthOf { As rootA `doc` , }
")).
Eval vm_compute in ("<<<M508>>>" ++ check (runes_of_ascii "packet Pad {
roots
    int , @lengthOf(string_	) repeat char[] x, @calculatedFrom( ""CRC32""
) u16 A	@lengthOf(  string_ ) `line1
line2` , i32 zchar
// `tick` ""quote"" 'q'
// " ++ [27880; 37322]%N ++ runes_of_ascii "
`say ""hi""`,match roots as i64_ /// triple
{
[ 4294967296,  ""abc"", ""x y"",// packet A { u8 x, }
""a	b"" ,
""a	b""] : Z9_ [ //x
""// no comment"" , ""\n"" , 42 ,
1 , ""\" ++ [233]%N ++ runes_of_ascii """
,1 , 7
    , 3
]:  Header  ,[ //x
""" ++ [128512]%N ++ runes_of_ascii """ , ""\" ++ [233]%N ++ runes_of_ascii """ ,
""\" ++ [233]%N ++ runes_of_ascii """
,00
    ,
    """ ++ [233]%N ++ runes_of_ascii "t" ++ [233]%N ++ runes_of_ascii """
, 1
, 00 ,	3 ] :	A , }, char[ 10
] a1
    ,	}

")).
Eval vm_compute in ("<<<M4596>>>" ++ check (runes_of_ascii "packet a1 {
    uint8 As,// `tick` ""quote"" 'q'
    char[1] chars @lengthOf(msg_type),
    repeat char[1] x_y_z `two words`,// c
    @tag(00)
    int32 i8i8,
    u64 trueish,
    // @lengthOf(
    @lengthOf(body)
    int16 float @lengthOf(tag),// " ++ [128512]%N ++ runes_of_ascii " emoji
    x @calculatedFrom(""`tick`""),
}

MetaData x_y_z {
    char[10] chars,
    Z9_ pack `
    `,
    string As,//x
    len int,
    A Z9_,
}

options {
    o = 0123456789;
    _x = ' ';
}")).
Eval vm_compute in ("<<<M180>>>" ++ check (runes_of_ascii "  packet repeatCount {
@rightPad (' ' )
char[42]	Header @calculatedFrom( ""a\\"" )
    ,
// packet A { u8 x, }
// packet A { u8 x, }
@tag( 10 ) i64 options1@calculatedFrom( ""x y"" )
,  Packet{ i64 lengthOf@calculatedFrom( ""abc""
)
    // " ++ [128512]%N ++ runes_of_ascii " emoji
    , repeat zchar[
00 ] i64_`u8 x,`
    , } ,
    string tag , string
    o `" ++ [233]%N ++ runes_of_ascii "`
/// triple
// " ++ [128512]%N ++ runes_of_ascii " emoji
, repeat char[  42] a1 `doc`,
string leftPad @calculatedFrom(""a\\"" ), } 	 ")).
Eval vm_compute in ("<<<M373>>>" ++ check (runes_of_ascii "options { x =3
    matchKey= ""a\""b"" // @lengthOf(
leftPad	= ""packet"" ; T = zchar[ 65535 ]; } MetaData
    MetaDataX {} MetaData // " ++ [128512]%N ++ runes_of_ascii " emoji
repeatCount {u8x Pad	, }
    packet
T{ @tag( 42  ) repeat MetaDataX `{ , }`
    // a // b
    , // @lengthOf(
float32 x@lengthOf( u8x  )
`
`
    ,int16 matchKey @calculatedFrom( ""\n""	) `two words` , }packet packetx
{_x
@calculatedFrom( ""a\""b""
)`a\`	,
} // a // b")).
Eval vm_compute in ("<<<M574>>>" ++ check (runes_of_ascii "packet trueish { @tag( 65535	) //
char[  7] rootA // " ++ [128512]%N ++ runes_of_ascii " emoji
`{ , }`,repeat _x// @lengthOf(
{ _x	T ,
    },lengthOf @lengthOf( crc	) ,  metadata trueish `tab	here`,	@rightPad
()	u16 packetx
`u8 x,` , repeat
leftPad
,  @lengthOf( u8x
) repeat
int32 MetaDataX `a\` , //	t
@tag(42  )
    repeat
lengthOf, @lengthOf( x )@calculatedFrom(""1""
) zchar[ 65535
    ] lengthOf`u8 x,` ,
    }")).
Eval vm_compute in ("<<<M4503>>>" ++ check (runes_of_ascii "// " ++ [128512]%N ++ runes_of_ascii " emoji

packet 
u
	{ int  `two words`,
	}
packet	Packet

{  repeat

    zchar

    Foo  // @lengthOf(
  , }  packet f32a	// c
  {
    uint32

Packet`
`

    ,
@lengthOf(  msg_type
)
    @calculatedFrom(
""it's""	)  repeat repeatCount

    {
	repeat

    zchar[

255]  u8x
	,

repeat
MetaDataX 	 // c
	`" ++ [28040; 24687; 31867; 22411]%N ++ runes_of_ascii "`  , int64
Pad	`tab	here`
,

    } ,

    }

")).
Eval vm_compute in ("<<<M525>>>" ++ check (runes_of_ascii "packet pack// @lengthOf(
{ repeat
As// " ++ [27880; 37322]%N ++ runes_of_ascii "
{ char[65535  ] u128 // a // b
@lengthOf( a1 )
`tab	here` ,i8 rootA `crlf
line`
,
    match //x
i8i8 as
    zchar { [""1""]
: tag ,""a	b"":
u8x
    ""a\""b""
: calculatedFrom, } , match leftPad //	t
as
    Pad
{
// `tick` ""quote"" 'q'
// trailing space 
65535 : options1
},}	,u32 crc
    , zchar[ 00]
roots, }

")).
Eval vm_compute in ("<<<M4030>>>" ++ check (runes_of_ascii "root  packet

    roots
{

    @tag( 7 // `tick` ""quote"" 'q'
)int64

    A

,	} 

//
  //
    	packet u128 
// a // b
	{  msg_type
Pad
`line1
line2`,
} 
options{ crc  =""\" ++ [233]%N ++ runes_of_ascii """
    ;}	root packet

_x

{ @lengthOf(
pack 	 // " ++ [27880; 37322]%N ++ runes_of_ascii "
  )	i16
MetaDataX, calculatedFrom{ packetx @lengthOf(

BodyLength)

    `{ , }` ,
}	// a // b
  , 
} ")).
Eval vm_compute in ("<<<M1221>>>" ++ check (runes_of_ascii "// trailing space 
packet // " ++ [27880; 37322]%N ++ runes_of_ascii "
pack {
    @lengthOf( Pad )	char[]msg_type,
}	options
    {
// " ++ [128512]%N ++ runes_of_ascii " emoji
// " ++ [128512]%N ++ runes_of_ascii " emoji
chars =int32 ;//
chars
    =	""CRC32"" }packet f32a
{
    @calculatedFrom( ""a\""b""
    ) zchar
    @lengthOf( o ) ,int32	o
    , repeat
int64 // packet A { u8 x, }
zchar
    // " ++ [128512]%N ++ runes_of_ascii " emoji
    `" ++ [28040; 24687; 31867; 22411]%N ++ runes_of_ascii "`,} /// triple")).
Eval vm_compute in ("<<<M338>>>" ++ check (runes_of_ascii "root packet // `tick` ""quote"" 'q'
roots{@rightPad (// trailing space 
'0'
)char[255 ] T`line1
line2`
,}packet msg_type {	Logon { f64 x_y_z`` ,
    },	i8 pack @lengthOf( stringy )
, @tag(
    4294967296)char[] msg_type ,
stringy // a // b
{ match x as
    roots { 1 :
options1 ,
    ""it's"" : BodyLength , }, } , }
")).
Eval vm_compute in ("<<<M1981>>>" ++ check (runes_of_ascii "MetaData
    u { }  options {
// c
// @lengthOf(
float = int8 ;rootA =false ; As =	int16 // `tick` ""quote"" 'q'
repeatCount
    // trailing space 
    =
    int16
; u8x =
    //	t
    '\x00' ; } } options	{
    repeatCount
= 0
u128
    //
    = false ; i64_
// trailing space 
// `tick` ""quote"" 'q'
= '0' ; //	t
}
")).
Eval vm_compute in ("<<<M752>>>" ++ check (runes_of_ascii "packet o {@leftPad () repeat pack { zchar[ 0123456789 ] o`say ""hi""`  ,
} ,  }
    packet T { match T as
pack
{65535 :
// " ++ [27880; 37322]%N ++ runes_of_ascii "
//x
roots
    // " ++ [27880; 37322]%N ++ runes_of_ascii "
    ,} , matchKey Logon	, match f32a  as
    x { 3 :
    i8i8  ,	1 : a1,
    // " ++ [128512]%N ++ runes_of_ascii " emoji
    """ ++ [128512]%N ++ runes_of_ascii """
:	o, 7 :
BodyLength // c
,	}
, repeat i32 u128 , // trailing space 
}
")).
Eval vm_compute in ("<<<M1982>>>" ++ check (runes_of_ascii "MetaData
    u { }  options {
// c
// @lengthOf(
float = int8 ;rootA =false ; As =	int16 // `tick` ""quote"" 'q'
repeatCount
    // trailing space 
    =
    int16
; u8x =
    //	t
    '\x00' ; options }	{
    repeatCount
= 0
u128
    //
    = false ; i64_
// trailing space 
// `tick` ""quote"" 'q'
= '0' ; //	t
}
")).
Eval vm_compute in ("<<<M1975>>>" ++ check (runes_of_ascii "MetaData
    u { }  options {
// c
// @lengthOf(
float = int8 ;rootA =false ; As =	int16 // `tick` ""quote"" 'q'
repeatCount
    // trailing space 
    =
    int16
; u8x =
    //	t
    '\x00'  } options	{
    repeatCount
= 0
u128
    //
    = false ; i64_
// trailing space 
// `tick` ""quote"" 'q'
= '0' ; //	t
}
")).
Eval vm_compute in ("<<<M1935>>>" ++ check (runes_of_ascii "MetaData
    u { }  options {
// c
// @lengthOf(
float = int8 ;rootA =false ; As =	 // `tick` ""quote"" 'q'
repeatCount
    // trailing space 
    =
    int16
; u8x =
    //	t
    '\x00' ; } options	{
    repeatCount
= 0
u128
    //
    = false ; i64_
// trailing space 
// `tick` ""quote"" 'q'
= '0' ; //	t
}
")).
Eval vm_compute in ("<<<M1292>>>" ++ check (runes_of_ascii "//	t
packet crc { } MetaData len  { stringy	body `line1
line2`	, u16 crc , //
zchar[007 ] Z9_ , Header T,
} packet stringy //	t
{	@lengthOf( u8x )match A as
// @lengthOf(
/// triple
BodyLength
    {
""{,}"" : o // " ++ [128512]%N ++ runes_of_ascii " emoji
} ,repeat
    //
    zchar[
255 ]packetx , A `" ++ [233]%N ++ runes_of_ascii "` , BodyLength	msg_type
    ,	}
")).
Eval vm_compute in ("<<<M3857>>>" ++ check (runes_of_ascii "  packet 
	//	t
    	// trailing space 
    _x
	{ 
  // packet A { u8 x, }
      // c
    char[

3 ]u8x
    @lengthOf(  u8x )
, @calculatedFrom( """ ++ [128512]%N ++ runes_of_ascii """// @lengthOf(
	  )i16  Foo 
@lengthOf(
string_)

`doc` 
,  i64 metadata	, @lengthOf(string_

    )
    i8  // c
      u`line1
line2`  , }
")).
Eval vm_compute in ("<<<M4324>>>" ++ check (runes_of_ascii "MetaData
rootA
{

} packet 
BodyLength 
{  repeat

    int32  falsey
`a\`	,i64

    rootA

    @lengthOf(
falsey

    )
    ,
}
    root
	packet x
{ u64

A

    `" ++ [233]%N ++ runes_of_ascii "` ,

    }
	packet 	 // @lengthOf(
BodyLength

{  } 
        //x
    options
	{ A =

    ""\n"" ;
}
")).
Eval vm_compute in ("<<<M292>>>" ++ check (runes_of_ascii "options { asx = ""{,}"" } packet len{repeat	float
    As, char[] Packet ,
i8 body @lengthOf( T
) //
,
}// @lengthOf(
packet
    Pad {uint32
u8x // packet A { u8 x, }
, /// triple
@tag( 4294967296 ) @tag(65535)
@rightPad(
    )rootA
    trueish `{ , }`
    ,
    } 	 ")).
Eval vm_compute in ("<<<M1573>>>" ++ check (runes_of_ascii "packet
//	t
// trailing space 
_x {
// packet A { u8 x, }
// c
char[
3
    ] u8x @lengthOf(
u8x ) , @calculatedFrom(""" ++ [128512]%N ++ runes_of_ascii """ // @lengthOf(
)
i16	Foo
@lengthOf(	string_ string_
    )`doc`	, repeat	i64 metadata , @lengthOf( string_
) i8 // c
u  `line1
line2`	,
}
")).
Eval vm_compute in ("<<<M562>>>" ++ check (runes_of_ascii "root packet a1
{ repeat
    /// triple
    zchar[
    42 ] x_y_z
,@tag( 65535 )@tag(
    // c
    7
    )// " ++ [128512]%N ++ runes_of_ascii " emoji
@lengthOf( // c
A	)	string
//
// " ++ [27880; 37322]%N ++ runes_of_ascii "
calculatedFrom ,
    string
    uint8x
    ,
    } MetaData
    // trailing space 
    MetaDataX
{
}")).
Eval vm_compute in ("<<<M67>>>" ++ check (runes_of_ascii "packet lengthOf {// c
} root packet
asx { u32 Z9_
`say ""hi""` ,
@tag( 007
    )match
    u8x as Logon {
    [ ""abc""	]: tag,0123456789 : tag,  """ ++ [233]%N ++ runes_of_ascii "t" ++ [233]%N ++ runes_of_ascii """ : int
    ,
""`tick`"" : options1 , } ,@leftPad
( )  repeat
string  tag
    ,falsey `// not a comment` ,
}
")).
Eval vm_compute in ("<<<M1549>>>" ++ check (runes_of_ascii "packet
//	t
// trailing space 
_x {
// packet A { u8 x, }
// c
char[
3
    ] u8x @lengthOf(
u8x ) , @calculatedFrom() // @lengthOf(
""" ++ [128512]%N ++ runes_of_ascii """
i16	Foo
@lengthOf(	string_
    )`doc`	, repeat	i64 metadata , @lengthOf( string_
) i8 // c
u  `line1
line2`	,
}
")).
Eval vm_compute in ("<<<M1537>>>" ++ check (runes_of_ascii "packet
//	t
// trailing space 
_x {
// packet A { u8 x, }
// c
char[
3
    ] u8x @lengthOf(
u8x )  @calculatedFrom(""" ++ [128512]%N ++ runes_of_ascii """ // @lengthOf(
)
i16	Foo
@lengthOf(	string_
    )`doc`	, repeat	i64 metadata , @lengthOf( string_
) i8 // c
u  `line1
line2`	,
}
")).
Eval vm_compute in ("<<<M1582>>>" ++ check (runes_of_ascii "packet
//	t
// trailing space 
_x {
// packet A { u8 x, }
// c
char[
3
    ] u8x @lengthOf(
u8x ) , @calculatedFrom(""" ++ [128512]%N ++ runes_of_ascii """ // @lengthOf(
)
i16	Foo
@lengthOf(	string_
    )	, repeat	i64 metadata , @lengthOf( string_
) i8 // c
u  `line1
line2`	,
}
")).
Eval vm_compute in ("<<<M4186>>>" ++ check (runes_of_ascii "MetaData u {
}

options {
    // c
    // @lengthOf(
    float = int8;
    rootA = false;
    As = int16// `tick` ""quote"" 'q'
    repeatCount = int16;
    u8x = '\x00'
}

options {
    repeatCount = 0
    u128 = false;
    i64_ = '0';//	t
}")).
Eval vm_compute in ("<<<M2019>>>" ++ check (runes_of_ascii "MetaData
    u { }  options {
// c
// @lengthOf(
float = int8 ;rootA =false ; As =	int16 // `tick` ""quote"" 'q'
repeatCount
    // trailing space 
    =
    int16
; u8x =
    //	t
    '\x00' ; } options	{
    repeatCount
= 0
u128")).
Eval vm_compute in ("<<<M1332>>>" ++ check (runes_of_ascii "// packet A { u8 x, }
MetaData chars	{  Header  u128  ,
BodyLength
u8x//	t
`two words` // " ++ [128512]%N ++ runes_of_ascii " emoji
, uint8x
Header// packet A { u8 x, }
`say ""hi""` ,
rootA //x
A // c
`{ , }` , char[ 00 ]	leftPad
, i64 // a // b
As , }
")).
Eval vm_compute in ("<<<M3264>>>" ++ check (runes_of_ascii "// top
MetaData // c0
float // c1
{ // c2
float64 // c3
charz // c4
`
` // c5
, // c6
} // c7
root // c8
packet // c9
chars // c10
{ // c11
@rightPad // c12
( // c13
'0' // c14
) // c15
Foo // c16
, // c17
} // c18
")).
Eval vm_compute in ("<<<M4562>>>" ++ check (runes_of_ascii "
options

    {
	}

MetaData
	len
	{crc

Foo

, char[] x_y_z`// not a comment`
, }
options{
a1  =
""" ++ [128512]%N ++ runes_of_ascii """

    ;
    _x =
	0123456789
    _x =

    true u8x 
= ""packet""	trueish

    = string // " ++ [27880; 37322]%N ++ runes_of_ascii "
  ; } //
")).
Eval vm_compute in ("<<<M117>>>" ++ check (runes_of_ascii "root packet // packet A { u8 x, }
f32a
{ @lengthOf( int )char[]
    //x
    o, a1 @lengthOf( packetx
) // " ++ [27880; 37322]%N ++ runes_of_ascii "
`u8 x,`
/// triple
/// triple
,
// " ++ [128512]%N ++ runes_of_ascii " emoji
// @lengthOf(
@calculatedFrom( ""1""
)u8
Header ,
    }")).
Eval vm_compute in ("<<<M889>>>" ++ check (runes_of_ascii "MetaData T {
// c
//	t
trueish i64_ `" ++ [233]%N ++ runes_of_ascii "` // c
, f64 a1	`doc` ,int A, u32
crc `" ++ [28040; 24687; 31867; 22411]%N ++ runes_of_ascii "`, charz _x
/// triple
// trailing space 
,
    // trailing space 
    char[// packet A { u8 x, }
255 ] msg_type `" ++ [28040; 24687; 31867; 22411]%N ++ runes_of_ascii "` , }
")).
Eval vm_compute in ("<<<M1743>>>" ++ check (runes_of_ascii "options { trueish = ""`tick`"" ; string_= """ ++ [233]%N ++ runes_of_ascii "t" ++ [233]%N ++ runes_of_ascii """
    // c
    } root
    packet body { @calculatedFrom( stringy
""a	b"" ) `line1
line2` , }
packet Logon {
    @leftPad(
    ' ' ) //	t
u16 string_ `u8 x,` ,
}
")).
Eval vm_compute in ("<<<M1744>>>" ++ check (runes_of_ascii "options { trueish = ""`tick`"" ; string_= """ ++ [233]%N ++ runes_of_ascii "t" ++ [233]%N ++ runes_of_ascii """
    // c
    } root
    packet body { repeat @calculatedFrom(
""a	b"" ) `line1
line2` , }
packet Logon {
    @leftPad(
    ' ' ) //	t
u16 string_ `u8 x,` ,
}
")).
Eval vm_compute in ("<<<M4521>>>" ++ check (runes_of_ascii "

  MetaData x_y_z { string
msg_type`" ++ [233]%N ++ runes_of_ascii "`
	,
}

    packet	chars{

repeat

i32 metadata
    `say ""hi""`

,@leftPad (
	) @tag( 0123456789 )
repeat zchar[ 

    // a // b
	007]
	//x
		lengthOf , }
")).
Eval vm_compute in ("<<<M326>>>" ++ check (runes_of_ascii "// @lengthOf(
root packet
MetaDataX{
    repeat
i16
packetx, @tag( 007 )
x
    @lengthOf(
_x
)
,
@calculatedFrom(  """ ++ [28040; 24687]%N ++ runes_of_ascii """ ) repeat
Pad ,	@lengthOf(
falsey) @tag( 00 ) @tag( 3
    )string i8i8,}")).
Eval vm_compute in ("<<<M1746>>>" ++ check (runes_of_ascii "options { trueish = ""`tick`"" ; string_= """ ++ [233]%N ++ runes_of_ascii "t" ++ [233]%N ++ runes_of_ascii """
    // c
    } root
    packet body { stringy 
""a	b"" ) `line1
line2` , }
packet Logon {
    @leftPad(
    ' ' ) //	t
u16 string_ `u8 x,` ,
}
")).
Eval vm_compute in ("<<<M372>>>" ++ check (runes_of_ascii "MetaData // " ++ [128512]%N ++ runes_of_ascii " emoji
chars { int64 metadata	,
char[00] stringy
//
// c
,
    f64 Foo ,} options {	} options {As = char[ 4294967296
]A =
""x y""options1=	float32 Logon =  '\x00' ;	}
")).
Eval vm_compute in ("<<<M1107>>>" ++ check (runes_of_ascii "MetaData
// `tick` ""quote"" 'q'
/// triple
matchKey// " ++ [27880; 37322]%N ++ runes_of_ascii "
{  char[ //x
255
] Pad`it's`
, u8
x_y_z //
, i64_ packetx// a // b
`tab	here` // " ++ [128512]%N ++ runes_of_ascii " emoji
,trueish
zchar`it's` , }

")).
Eval vm_compute in ("<<<M4033>>>" ++ check (runes_of_ascii "
MetaData tag
{  char[ 
3 
	    // trailing space 
  ]	u8x ,
	packetx
a1
	,
    } 	 // packet A { u8 x, }
    MetaData chars 
{
    i16 uint8x 
`tab	here`
    ,  }

")).
Eval vm_compute in ("<<<M3556>>>" ++ check (runes_of_ascii "
options {
	LittleEndian

    =true ;}  packet
    B
	{u8
	a
,string

    s  , }
root

    packet

    P
	{ u16
L@lengthOf(
B )

    , B , u8 t  , 
}")).
Eval vm_compute in ("<<<M234>>>" ++ check (runes_of_ascii "options
{ f32a= zchar[3
//
// c
]
// " ++ [128512]%N ++ runes_of_ascii " emoji
//	t
}	packet falsey
{
Z9_ ,body
    @calculatedFrom( //
""\n""
// packet A { u8 x, }
// c
)
    ,} options { }
")).
Eval vm_compute in ("<<<M4012>>>" ++ check (runes_of_ascii "packet A {
    match k as n {
        [
            1, 22, ""c c"", 4, 5,
            ""f"", 7, 8, ""i"", 10,
            11
        ] : B,
        2 : C,
    },
}")).
Eval vm_compute in ("<<<M2342>>>" ++ check (runes_of_ascii "// c
packet x { @lengthOf( metadata ) repeat lengthOf
,a1${
trueish	,// c
repeat//	t
MetaDataX , } , zchar[
    42	] rootA // `tick` ""quote"" 'q'
,
    }
")).
Eval vm_compute in ("<<<M2334>>>" ++ check (runes_of_ascii "// c
packet x { @lengthOf( metadata ) repeat lengthOf
,a1{
trueish	,// c
repeat//	t
MetaDataX , } , zchar[
    42	] , // `tick` ""quote"" 'q'
rootA
    }
")).
Eval vm_compute in ("<<<M2396>>>" ++ check (runes_of_ascii "// c
packet  { @lengthOf( metadata ) repeat lengthOf
,a1{
trueish	,// c
repeat//	t
MetaDataX , } , zchar[
    42	] rootA // `tick` ""quote"" 'q'
,
    }
")).
Eval vm_compute in ("<<<M2176>>>" ++ check (runes_of_ascii "options{
_x
= true
} options
{ o	= /// triple
false
    ; chars
= ""\n"" } root packet	Pad
/// triple
// packet A { u8 x, }
{	,
    // a // b
    chars}")).
Eval vm_compute in ("<<<M4579>>>" ++ check (runes_of_ascii "options {
    matchKey = 10
}

MetaData options1 {
    matchKey o `doc`,
    rootA tag,
    uint32 _x `line1
    line2`,
    char[] chars `say ""hi""`,
}")).
Eval vm_compute in ("<<<M2357>>>" ++ check (runes_of_ascii "// c
 x { @lengthOf( metadata ) repeat lengthOf
,a1{
trueish	,// c
repeat//	t
MetaDataX , } , zchar[
    42	] rootA // `tick` ""quote"" 'q'
,
    }
")).
Eval vm_compute in ("<<<M2104>>>" ++ check (runes_of_ascii "options{
_x
= true
} 
{ o	= /// triple
false
    ; chars
= ""\n"" } root packet	Pad
/// triple
// packet A { u8 x, }
{	chars
    // a // b
    ,}")).
Eval vm_compute in ("<<<M3550>>>" ++ check (runes_of_ascii "packet
	B {

    u8

a ,}  root  packet  P
	{
    u8
    K, 
match
    K

    as	Body

{

1
: B	,
	},

u16
    L

@lengthOf(

Body)
	,}
")).
Eval vm_compute in ("<<<M796>>>" ++ check (runes_of_ascii "//
MetaData  u{uint64	string_
`doc` ,A metadata`u8 x,`
, string Logon `u8 x,` , float64 float ,
    char[] T
`crlf
line` , u8 Logon, }
")).
Eval vm_compute in ("<<<M647>>>" ++ check (runes_of_ascii "MetaData a1 { x_y_z crc `say ""hi""` , uint16 i8i8 `// not a comment`
, char[] u `{ , }`
, Pad Header
, u32
    packetx `{ , }` , }
")).
Eval vm_compute in ("<<<M1471>>>" ++ check (runes_of_ascii "
packet
    falsey { Header@calculatedFrom(""packet""  ) , char[
    0123456789 ] @leftpadpacketx
    , } // `tick` ""quote"" 'q'")).
Eval vm_compute in ("<<<M1154>>>" ++ check (runes_of_ascii "packet MetaDataX
{repeat tag
    i64_
,@calculatedFrom(
    ""packet"")
    // trailing space 
    Packet	`tab	here`
    , }")).
Eval vm_compute in ("<<<M3326>>>" ++ check (runes_of_ascii "root packet matchKey { zchar[ 3 ] pack // c
@calculatedFrom( ""a	b"" ) `doc` , } options { } MetaData A { int8 msg_type , }")).
Eval vm_compute in ("<<<M3542>>>" ++ check (runes_of_ascii "packet B {
    u8 a,
}
root packet P {
    u8 K,
    u8 L @lengthOf(Body),
    match K as Body {
        1 : B,
    },
}
")).
Eval vm_compute in ("<<<M1479>>>" ++ check (runes_of_ascii "
packet
    falsey { Header@calculatedFrom(""packet""  ) " ++ [0]%N ++ runes_of_ascii ", char[
    0123456789 ] packetx
    , } // `tick` ""quote"" 'q'")).
Eval vm_compute in ("<<<M2990>>>" ++ check (runes_of_ascii "packet A {
  match k as n {
    [""a"", ""bb"", ""c c"", ""d"", ""e"", ""f"", ""g"", ""h"", ""i"", ""j"", ""k"", ""l""] : B,
    2 : C
  },
}")).
Eval vm_compute in ("<<<M3045>>>" ++ check (runes_of_ascii "packet A {
    u16 len @lengthOf(body) `tab
	x`,
    u32 crc @calculatedFrom(""CRC32"") `tab
	x`,
    string body,
}")).
Eval vm_compute in ("<<<M257>>>" ++ check (runes_of_ascii "options
{ u // a // b
=42 x_y_z
    =' ' ;msg_type =
    true ; u
=10 ;  } options { zchar =
uint8
;  } // c")).
Eval vm_compute in ("<<<M406>>>" ++ check (runes_of_ascii "options	{ roots = ""CRC32""zchar
= string; f32a
=string ; pack
    =
""x y"" }options {
    // @lengthOf(
    }")).
Eval vm_compute in ("<<<M3692>>>" ++ check (runes_of_ascii "packet metadata {
    Logon {
        A `" ++ [28040; 24687; 31867; 22411]%N ++ runes_of_ascii "`,
        tag o,
    },
    zchar len `// not a comment`,
}")).
Eval vm_compute in ("<<<M3770>>>" ++ check (runes_of_ascii "packet chars {
    // c
}

packet MetaDataX {
    @tag(42)
    i16 string_,
    repeat x `say ""hi""`,
}")).
Eval vm_compute in ("<<<M3993>>>" ++ check (runes_of_ascii "MetaData float {
    float64 charz `
        `,
}

root packet chars {
    @rightPad('0')
    Foo,
}")).
Eval vm_compute in ("<<<M2959>>>" ++ check (runes_of_ascii "packet A {
  match k as n {
    [""a"", ""bb"", 007, ""d"", ""e"", 66, ""g"", ""h"", 9] : B,
    2 : C
  },
}")).
Eval vm_compute in ("<<<M1095>>>" ++ check (runes_of_ascii "// @lengthOf(
MetaData Logon	{	char[]
//	t
// " ++ [27880; 37322]%N ++ runes_of_ascii "
Foo // c
, T
roots , char[65535 ] Z9_ ,
}
")).
Eval vm_compute in ("<<<M378>>>" ++ check (runes_of_ascii "packet
len
    /// triple
    { @tag(1
) zchar[1 ] Foo
@lengthOf( Foo )
,T zchar
``
, }

")).
Eval vm_compute in ("<<<M2173>>>" ++ check (runes_of_ascii "options{
_x
= true
} options
{ o	= /// triple
false
    ; chars
= ""\n"" } root packet	Pad")).
Eval vm_compute in ("<<<M3274>>>" ++ check (runes_of_ascii "MetaData float {
// c
float64 charz `
` , } root packet chars { @rightPad ( '0' ) Foo , }")).
Eval vm_compute in ("<<<M3485>>>" ++ check (runes_of_ascii "packet // c
chars { } packet MetaDataX { @tag( 42 ) i16 string_ , repeat x `say ""hi""` , }")).
Eval vm_compute in ("<<<M3517>>>" ++ check (runes_of_ascii "packet chars { } packet MetaDataX { @tag( 42 ) i16 string_ , repeat x `say ""hi""` , // c
}")).
Eval vm_compute in ("<<<M2238>>>" ++ check (runes_of_ascii "options
{ } options { BodyLength u16 = Header= f64 ; u128 =
    true
    ; } // a // b")).
Eval vm_compute in ("<<<M1379>>>" ++ check (runes_of_ascii "packet metadata {
    @lengthOf(  Header) // " ++ [27880; 37322]%N ++ runes_of_ascii "
float32
options1
    `line1
line2`
,}")).
Eval vm_compute in ("<<<M3225>>>" ++ check (runes_of_ascii "packet metadata { Logon { A `" ++ [28040; 24687; 31867; 22411]%N ++ runes_of_ascii "` // c
, tag o , } , zchar len `// not a comment` , }")).
Eval vm_compute in ("<<<M2226>>>" ++ check (runes_of_ascii "options
{ } options  BodyLength= u16 Header= f64 ; u128 =
    true
    ; } // a // b")).
Eval vm_compute in ("<<<M3448>>>" ++ check (runes_of_ascii "packet o { repeat Logon uint8x , } options {
// c
asx = zchar[ 3 ] stringy = '\x00' }")).
Eval vm_compute in ("<<<M4256>>>" ++ check (runes_of_ascii "MetaData body {
    i64 pack `it's`,
}

packet stringy {
    int16 calculatedFrom,
}")).
Eval vm_compute in ("<<<M2931>>>" ++ check (runes_of_ascii "packet A {
  match k as n {
    [1, 22, ""c c"", 4, 5, ""f"", 7] : B,
    2 : C
  },
}")).
Eval vm_compute in ("<<<M3591>>>" ++ check (runes_of_ascii "packet orderItem  {u8
    a ,}  root packet 
newOrder
	{ orderItem , u8	x
    ,}
")).
Eval vm_compute in ("<<<M3557>>>" ++ check (runes_of_ascii "options {
    FixedStringPadFromLeft = true;
}
root packet P {
    char[4] z,
}
")).
Eval vm_compute in ("<<<M4287>>>" ++ check (runes_of_ascii "  // " ++ [27880; 37322]%N ++ runes_of_ascii "
options
	{  u8x 
=
    zchar[	0 ]  ; 
len
=' '; leftPad  =
	false;} ")).
Eval vm_compute in ("<<<M3883>>>" ++ check (runes_of_ascii "packet A {
    match k as n {
        [1, 22] : B,
        2 : C,
    },
}")).
Eval vm_compute in ("<<<M4535>>>" ++ check (runes_of_ascii "
packet  A
{ B

b `tab
	x` ,
B
    `tab
	x`, repeat
B	bs `tab
	x`
	,
} ")).
Eval vm_compute in ("<<<M4605>>>" ++ check (runes_of_ascii "packet  x {
	@rightPad
	( )repeat// c
	roots	Logon `doc`
,

    }")).
Eval vm_compute in ("<<<M3026>>>" ++ check (runes_of_ascii "packet A {
    B b `a

b`,
    B `a

b`,
    repeat B bs `a

b`,
}")).
Eval vm_compute in ("<<<M1177>>>" ++ check (runes_of_ascii "packet // @lengthOf(
o{ }options
{Logon /// triple
=
    00 }
")).
Eval vm_compute in ("<<<M1904>>>" ++ check (runes_of_ascii "MetaData
    u { }  options {
// c
// @lengthOf(
float = int8")).
Eval vm_compute in ("<<<M3923>>>" ++ check (runes_of_ascii "packet float {
}

MetaData As {
    char[] trueish,
}
// " ++ [27880; 37322]%N)).
Eval vm_compute in ("<<<M3382>>>" ++ check (runes_of_ascii "packet x { @rightPad ( ) repeat roots Logon
// c
`doc` , }")).
Eval vm_compute in ("<<<M3945>>>" ++ check (runes_of_ascii "packet falsey {
    @tag(1)
    repeat zchar[00] tag,
}")).
Eval vm_compute in ("<<<M45>>>" ++ check (runes_of_ascii "
MetaData int	{ string f32a//	t
`two words`
, } //")).
Eval vm_compute in ("<<<M3526>>>" ++ check (runes_of_ascii "

  root
packet P 
{
char
	c  ,
	u8

x
, 
}
")).
Eval vm_compute in ("<<<M4174>>>" ++ check (runes_of_ascii "options {
    a = 1;
}

options {
    a = 1;
}")).
Eval vm_compute in ("<<<M737>>>" ++ check (runes_of_ascii "  MetaData
options1{ float _x `{ , }`
, }")).
Eval vm_compute in ("<<<M3024>>>" ++ check (runes_of_ascii "root packet A {
    u8 x `a
    b
  c`,
}")).
Eval vm_compute in ("<<<M3828>>>" ++ check (runes_of_ascii "root packet A {
    u8 x `x
        `,
}")).
Eval vm_compute in ("<<<M757>>>" ++ check (runes_of_ascii "MetaData Pad { crc x_y_z`{ , }`,
} 	 ")).
Eval vm_compute in ("<<<M4541>>>" ++ check (runes_of_ascii "
packet

    o
	{ 
}  // " ++ [128512]%N ++ runes_of_ascii " emoji
")).
Eval vm_compute in ("<<<M2614>>>" ++ check (runes_of_ascii "packet A { match k as { 1 : B }, }")).
Eval vm_compute in ("<<<M1027>>>" ++ check (runes_of_ascii "options
    {Header = '\x00';
}")).
Eval vm_compute in ("<<<M3043>>>" ++ check (runes_of_ascii "packet A {
    u8 x `tab
	x`,
}")).
Eval vm_compute in ("<<<M3132>>>" ++ check (runes_of_ascii "packet A {
 u8 x `d" ++ [8203]%N ++ runes_of_ascii "`, // c" ++ [8203]%N ++ runes_of_ascii "
}")).
Eval vm_compute in ("<<<M3683>>>" ++ check (runes_of_ascii "

  // c 	
    packet 
A	{ }")).
Eval vm_compute in ("<<<M1184>>>" ++ check (runes_of_ascii "
MetaData matchKey
    {	}")).
Eval vm_compute in ("<<<M3256>>>" ++ check (runes_of_ascii "root packet // c
pack { }")).
Eval vm_compute in ("<<<M1175>>>" ++ check (runes_of_ascii "options { u = string }
")).
Eval vm_compute in ("<<<M2575>>>" ++ check (runes_of_ascii "packet A { x y `d`, }")).
Eval vm_compute in ("<<<M3729>>>" ++ check (runes_of_ascii "MetaData leftPad {
}")).
Eval vm_compute in ("<<<M3472>>>" ++ check (runes_of_ascii "MetaData // c
o { }")).
Eval vm_compute in ("<<<M3095>>>" ++ check (runes_of_ascii "packet A {
}
// c" ++ [8232]%N)).
Eval vm_compute in ("<<<M2633>>>" ++ check (runes_of_ascii "packet A { } root")).
Eval vm_compute in ("<<<M1874>>>" ++ check (runes_of_ascii "MetaData
    u {")).
Eval vm_compute in ("<<<M4073>>>" ++ check (runes_of_ascii "MetaData o {
}")).
Eval vm_compute in ("<<<M409>>>" ++ check (runes_of_ascii "// " ++ [128512]%N ++ runes_of_ascii " emoji
")).
Eval vm_compute in ("<<<M1864>>>" ++ check (runes_of_ascii "MetaData")).
Eval vm_compute in ("<<<M991>>>" ++ check (runes_of_ascii " // " ++ [27880; 37322]%N)).
Eval vm_compute in ("<<<M2450>>>" ++ check (runes_of_ascii "true1")).
Eval vm_compute in ("<<<M470>>>" ++ check (runes_of_ascii "//

")).
Eval vm_compute in ("<<<M2438>>>" ++ check (runes_of_ascii "u8x")).
Eval vm_compute in ("<<<M2846>>>" ++ check (runes_of_ascii "[ ;")).
Eval vm_compute in ("<<<M2519>>>" ++ check (runes_of_ascii "`")).
