From FP Require Import Show Oracle Go Py Cpp Rust Java.
From Coq Require Import String List NArith.
Import ListNotations.
Open Scope string_scope.
Set Printing Width 100000000.
Set Printing Depth 100000000.
Fixpoint bs (l : list N) : string := match l with [] => EmptyString | n :: r => String (Ascii.ascii_of_N n) (bs r) end.
From FP Require Import Validate RefDec.
Open Scope string_scope.
Definition pyx_hexd (n : N) : string := String (Ascii.ascii_of_N (if N.ltb n 10 then 48 + n else 87 + n)) EmptyString.
Fixpoint pyx_hex (l : list byte) : string :=
  match l with [] => "" | b :: r => pyx_hexd (N.div b 16) ++ pyx_hexd (N.modulo b 16) ++ pyx_hex r end.
Definition pyx_ob (o : option (list byte)) : string := match o with Some b => "S" ++ pyx_hex b | None => "N" end.
(* printing long strings is what costs time in coqc: bytes equal to the specification's are printed as "=" *)
Definition pyx_rel (ref : option (list byte)) (o : option (list byte)) : string :=
  match ref, o with
  | Some a, Some b => if list_eqb a b then "=" else "S" ++ pyx_hex b
  | _, _ => pyx_ob o
  end.
Definition pyx_junk : list byte := [171; 205; 239]%N.
(* the harness's model of the emitted decoder on the specification's bytes followed by junk:
   ok.<bytes consumed>.<decoded = original up to computed members>.<re-encoding> | err | crash *)
Definition pyx_dec (reg : bool) (M : bmodel) (P : prog) (path : string) (p : packet) (v : value) (b : list byte) : string :=
  match sem_dec P fuel0 path (b ++ pyx_junk) with
  | DOk (v', rest') =>
      "ok." ++ show_nat (length b + length pyx_junk - length rest') ++ "."
      ++ show_bool (value_eqb (blank M fuel0 p v) (blank M fuel0 p v')) ++ "."
      ++ pyx_rel (Some b) (sem_enc (cs_test reg) P fuel0 path v' [])
  | DErr => "err"
  | DCrash => "crash"
  end.
(* specification bytes / model's encoding / model's decoding *)
Definition pyx_row (reg : bool) (M : bmodel) (P : prog) (path : string) (v : value) : string :=
  match packet_at M path with
  | None => "N/" ++ pyx_ob (sem_enc (cs_test reg) P fuel0 path v []) ++ "/-"
  | Some p =>
      let spec := layout (cs_test reg) M fuel0 p v in
      pyx_ob spec ++ "/" ++ pyx_rel spec (sem_enc (cs_test reg) P fuel0 path v []) ++ "/"
      ++ match spec with Some b => pyx_dec reg M P path p v b | None => "-" end
  end.
Definition pyx_both (M : bmodel) (P : prog) (path : string) (v : value) : string :=
  let a := pyx_row true M P path v in
  let b := pyx_row false M P path v in
  a ++ "#" ++ (if String.eqb a b then "=" else b).
Definition M_prog_c1 : bmodel := (mkModel (mkCfg "u16" "u16" "" "" "" false (Some (mkPad "' '" false))) [(mkPacket "Logon" false None [(mkField "x" (ABasic "u8") LNone false); (mkField "user" ADyn LNone false)] []); (mkPacket "Logout" false None [(mkField "reason" (ABasic "u16") LNone false)] []); (mkPacket "Empty" false None [] []); (mkPacket "Frame" true (Some "BodyLen") [(mkField "MsgType" (ABasic "u16") LNone false); (mkField "BodyLen" (ALen (Some "Body") "u32") LLenOf false); (mkField "flags" (ABasic "u8") LNone false); (mkField "Body" (AMatch (Some "MsgType") (Some (ABasic "u16")) [(mkPair "1" "Logon"); (mkPair "2" "Logout"); (mkPair "3" "Empty")]) LTarget false); (mkField "trailer" (ABasic "u32") LNone false)] [("MsgType", [(mkPair "1" "Logon"); (mkPair "2" "Logout"); (mkPair "3" "Empty")])])] ["Empty"; "Frame"; "Logon"; "Logout"] (Some "Frame") [("Body", ("Body", "body", "body")); ("BodyLen", ("BodyLen", "bodyLen", "body_len")); ("Empty", ("Empty", "empty", "empty")); ("Frame", ("Frame", "frame", "frame")); ("Logon", ("Logon", "logon", "logon")); ("Logout", ("Logout", "logout", "logout")); ("MsgType", ("MsgType", "msgType", "msg_type")); ("byte", ("Byte", "byte", "byte")); ("char", ("Char", "char", "char")); ("double", ("Double", "double", "double")); ("f32", ("F32", "f32", "f_32")); ("f64", ("F64", "f64", "f_64")); ("flags", ("Flags", "flags", "flags")); ("float", ("Float", "float", "float")); ("float32", ("Float32", "float32", "float_32")); ("float64", ("Float64", "float64", "float_64")); ("i16", ("I16", "i16", "i_16")); ("i32", ("I32", "i32", "i_32")); ("i64", ("I64", "i64", "i_64")); ("i8", ("I8", "i8", "i_8")); ("int", ("Int", "int", "int")); ("int16", ("Int16", "int16", "int_16")); ("int32", ("Int32", "int32", "int_32")); ("int64", ("Int64", "int64", "int_64")); ("int8", ("Int8", "int8", "int_8")); ("long", ("Long", "long", "long")); ("match", ("Match", "match", "match")); ("object", ("Object", "object", "object")); ("reason", ("Reason", "reason", "reason")); ("short", ("Short", "short", "short")); ("string", ("String", "string", "string")); ("trailer", ("Trailer", "trailer", "trailer")); ("u16", ("U16", "u16", "u_16")); ("u32", ("U32", "u32", "u_32")); ("u64", ("U64", "u64", "u_64")); ("u8", ("U8", "u8", "u_8")); ("uint16", ("Uint16", "uint16", "uint_16")); ("uint32", ("Uint32", "uint32", "uint_32")); ("uint64", ("Uint64", "uint64", "uint_64")); ("uint8", ("Uint8", "uint8", "uint_8")); ("user", ("User", "user", "user")); ("x", ("X", "x", "x"))]).
Definition O_prog_c1 : prog := [("Logon", mkPkt 2%nat [(0%nat, (EInt 1%nat false)); (1%nat, (EStr 2%nat false false))] [(0%nat, (DInt 1%nat false)); (1%nat, (DStr 2%nat false false))]); ("Logout", mkPkt 1%nat [(0%nat, (EInt 2%nat false))] [(0%nat, (DInt 2%nat false))]); ("Empty", mkPkt 0%nat [] []); ("Frame", mkPkt 5%nat [(0%nat, (EInt 2%nat false)); (1%nat, (EMarkZero 1%nat 4%nat false)); (999%nat, (ENone "junk")); (2%nat, (EInt 1%nat false)); (3%nat, EDyn); (999%nat, (ENone "junk")); (999%nat, (ENone "junk")); (999%nat, (EPatch 1%nat 999%nat 4%nat false 4%nat None)); (4%nat, (EInt 4%nat false))] [(0%nat, (DInt 2%nat false)); (1%nat, (DInt 4%nat false)); (2%nat, (DInt 1%nat false)); (3%nat, (DDispatch [("1", "Logon"); ("2", "Logout"); ("3", "Empty")] false 0%nat true)); (4%nat, (DInt 4%nat false))])].
Definition M_prog_c1_v10 : value := (VObj []).
Eval vm_compute in ("<<<prog|10>>>" ++ pyx_both M_prog_c1 O_prog_c1 "Empty" M_prog_c1_v10).
Definition M_prog_c1_v11 : value := (VObj []).
Eval vm_compute in ("<<<prog|11>>>" ++ pyx_both M_prog_c1 O_prog_c1 "Empty" M_prog_c1_v11).
Definition M_prog_c1_v12 : value := (VObj [(VInt 1); (VInt 0); (VInt 0); (VDyn "Logon" (VObj [(VInt 0); (VStr [])])); (VInt 0)]).
Eval vm_compute in ("<<<prog|12>>>" ++ pyx_both M_prog_c1 O_prog_c1 "Frame" M_prog_c1_v12).
Definition M_prog_c1_v13 : value := (VObj [(VInt 1); (VInt 2147483648); (VInt 128); (VDyn "Logon" (VObj [(VInt 128); (VStr [104;101;108;108;111])])); (VInt 2147483648)]).
Eval vm_compute in ("<<<prog|13>>>" ++ pyx_both M_prog_c1 O_prog_c1 "Frame" M_prog_c1_v13).
Definition M_prog_c1_v14 : value := (VObj [(VInt 1); (VInt 4294967295); (VInt 255); (VDyn "Logon" (VObj [(VInt 255); (VStr [120;120;120;120;120;120;120;120;120;120;120;120;120;120;120;120;120;120;120;120;120;120;120;120;120;120;120;120;120;120;120;120;120;120;120;120;120;120;120;120;120;120;120;120;120;120;120;120;120;120;120;120;120;120;120;120;120;120;120;120;120;120;120;120;120;120;120;120;120;120;120;120;120;120;120;120;120;120;120;120;120;120;120;120;120;120;120;120;120;120;120;120;120;120;120;120;120;120;120;120;120;120;120;120;120;120;120;120;120;120;120;120;120;120;120;120;120;120;120;120;120;120;120;120;120;120;120;120;120;120])])); (VInt 4294967295)]).
Eval vm_compute in ("<<<prog|14>>>" ++ pyx_both M_prog_c1 O_prog_c1 "Frame" M_prog_c1_v14).
Definition M_prog_c1_v15 : value := (VObj [(VInt 1); (VInt 2195908194); (VInt 207); (VDyn "Logon" (VObj [(VInt 155); (VStr [104;195;169;108;108;111;32;119;195;182;114;108;100;32;226;130;172])])); (VInt 4156669319)]).
Eval vm_compute in ("<<<prog|15>>>" ++ pyx_both M_prog_c1 O_prog_c1 "Frame" M_prog_c1_v15).
Definition M_prog_c1_v16 : value := (VObj [(VInt 2); (VInt 2147483648); (VInt 128); (VDyn "Logout" (VObj [(VInt 32768)])); (VInt 2147483648)]).
Eval vm_compute in ("<<<prog|16>>>" ++ pyx_both M_prog_c1 O_prog_c1 "Frame" M_prog_c1_v16).
Definition M_prog_c1_v17 : value := (VObj [(VInt 3); (VInt 2147483648); (VInt 128); (VDyn "Empty" (VObj [])); (VInt 2147483648)]).
Eval vm_compute in ("<<<prog|17>>>" ++ pyx_both M_prog_c1 O_prog_c1 "Frame" M_prog_c1_v17).
