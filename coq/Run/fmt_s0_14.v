From FP Require Import Lexer Parser ShowPT Digest Formatter.
From Coq Require Import String List NArith.
Import ListNotations.
Open Scope string_scope.
Set Printing Width 100000000.
Set Printing Depth 100000000.
Definition show_fres (r : fres) : string :=
  match r with
  | FOk s => "OK:" ++ sh_escaped s ""
  | FErr s => "ERR:" ++ sh_escaped s ""
  | FPanic p => "PANIC:" ++ p
  end.
Definition check (rs : list rune) : string := digest (show_fres (format_res rs)).
Definition full (rs : list rune) : string := show_fres (format_res rs).
Eval vm_compute in ("<<<M1574>>>" ++ check (runes_of_ascii "

  packet //	t

packetx
	{  }
	root	packet
repeatCount
	    // trailing space 
  // 50% %s
    {  int16 rootA	@lengthOf( 	 // " ++ [27880; 37322]%N ++ runes_of_ascii "
    len

) 
`` 

    // " ++ [128512]%N ++ runes_of_ascii " emoji
    // trailing space 
  	, i32 A	@calculatedFrom( ""a\\""

    )

,
i16  asx  @calculatedFrom(

    ""x y""
), repeat

char[]

    x 
,
} 
root

    packet lengthOf	//x
	  {  @leftPad(
'0'
    ) @calculatedFrom( ""\" ++ [233]%N ++ runes_of_ascii """

    ) @lengthOf(	// @lengthOf(

Z9_)

repeat
	char[]As , @rightPad	(	' '	// @lengthOf(
  )	repeat 
zchar 
,

    match
	a1
	as  pack

{ 
[  3

    ]
	:
	lengthOf,

    [ 007 ,
    ""x y""

]
    :A
	, }

, 
repeat chars

    {

    char[
4294967296
] 	 //

  body,

body@lengthOf(
	pack
	)
	,

    string  Z9_  , }
, @leftPad ( ' '	)  zchar[ 	 // packet A { u8 x, }
    	255

    ]

    Header

    ,

@tag( 
0
//	t
	// 50% %s

  )repeat
    char[ 00
] 
	// " ++ [27880; 37322]%N ++ runes_of_ascii "
    	roots
	,  match
crc  as
    body {
""`tick`"" :  //	t
    a1
} 
,	@tag( 
1 )

    char[]
rootA @calculatedFrom(

""" ++ [233]%N ++ runes_of_ascii "t" ++ [233]%N ++ runes_of_ascii """
// `tick` ""quote"" 'q'
    //
  )	// a // b
  , } packet
pack 
{match

    Packet

as	/// triple
    repeatCount { 
    //x
""a	b""	:
pack	, }
    ,

packetx  packetx

,  //	t
	  match
// c
  	o as Packet {	// a // b
    	0123456789  :lengthOf
,  // `tick` ""quote"" 'q'
	""CRC32"" :i64_
,

    1

    : asx
,
""\" ++ [233]%N ++ runes_of_ascii """ : 
  // packet A { u8 x, }

	o 
,
""a	b""
    :
u128 , ""// no comment""
	: Packet

    ,  
      // `tick` ""quote"" 'q'
  	}  ,
@leftPad( '0')@calculatedFrom(  """ ++ [128512]%N ++ runes_of_ascii """ )

A
	@calculatedFrom(
    ""{,}"" )`u8 x,` 
,

@tag( 
255 ) float32
    MetaDataX
    ,char[] u128 
@lengthOf(
    zchar
)
	,match	x  as
	_x {  00
:
    A , }  ,

//	t
}")).
Eval vm_compute in ("<<<M381>>>" ++ check (runes_of_ascii "options {
    StringPrefixLenType = u16;
    ArrayPrefixLenType = u16;
}

packet SampleBinary {
    uint16 MsgType `" ++ [28040; 24687; 31867; 22411]%N ++ runes_of_ascii "`,
    u16 BodyLenght @lengthOf(Body) `" ++ [28040; 24687; 20307; 38271; 24230]%N ++ runes_of_ascii "`,
    match MsgType as Body {
        1 : Logon,
        2 : Logout,
        3 : Heartbeat,
        4 : RiskControlRequest,
        5 : RiskControlResponse,
    },
    @calculatedFrom(""CRC32"")
    u32 Ckecksum `" ++ [26657; 39564; 21644]%N ++ runes_of_ascii "`,
}

packet Logon {
    @leftPad('0')
    char[10] UserName `" ++ [29992; 25143; 21517]%N ++ runes_of_ascii "`,
    string Password `" ++ [23494; 30721]%N ++ runes_of_ascii "`,
    uint64 ClientId `" ++ [23458; 25143; 31471]%N ++ runes_of_ascii "ID`,
    u16 HeartbeatInterval `" ++ [24515; 36339; 38388; 38548]%N ++ runes_of_ascii "`,
}

packet Logout {
    @rightPad('0')
    char[10] UserName `" ++ [29992; 25143; 21517]%N ++ runes_of_ascii "`,
    uint64 ClientId `" ++ [23458; 25143; 31471]%N ++ runes_of_ascii "ID`,
}

packet Heartbeat {
}

packet RiskControlRequest {
    string UniqueOrderId `" ++ [21807; 19968; 35746; 21333; 21495]%N ++ runes_of_ascii "`,
    char[16] ClOrdID `" ++ [23458; 25143; 35746; 21333; 21495]%N ++ runes_of_ascii "`,
    char[3] MarketID `" ++ [24066; 22330]%N ++ runes_of_ascii "id`,
    char[12] SecurityID `" ++ [35777; 21048; 20195; 30721]%N ++ runes_of_ascii "`,
    char Side `" ++ [20080; 21334; 26041; 21521]%N ++ runes_of_ascii "`,
    char OrderType `" ++ [35746; 21333; 31867; 22411]%N ++ runes_of_ascii "`,
    u64 Price `" ++ [20215; 26684]%N ++ runes_of_ascii "`,
    u32 Qty `" ++ [25968; 37327]%N ++ runes_of_ascii "`,
    repeat string ExtraInfo `" ++ [38468; 21152; 20449; 24687]%N ++ runes_of_ascii "`,
    repeat SubOrder {
        char[16] ClOrdID `" ++ [23376; 35746; 21333; 21495]%N ++ runes_of_ascii "`,
        u64 Price `" ++ [23376; 35746; 21333; 20215; 26684]%N ++ runes_of_ascii "`,
        u32 Qty `" ++ [23376; 35746; 21333; 25968; 37327]%N ++ runes_of_ascii "`,
    },
}

packet RiskControlResponse {
    string UniqueOrderId `" ++ [21807; 19968; 35746; 21333; 21495]%N ++ runes_of_ascii "`,
    i32 Status `" ++ [29366; 24577]%N ++ runes_of_ascii "`,
    string Msg `" ++ [32467; 26524; 20449; 24687]%N ++ runes_of_ascii "`,
    repeat Detail,
}

packet Detail {
    string RuleName `" ++ [35268; 21017; 21517; 31216]%N ++ runes_of_ascii "`,
    u16 Code `" ++ [21407; 22240; 20195; 30721]%N ++ runes_of_ascii "`,
}")).
Eval vm_compute in ("<<<M259>>>" ++ check (runes_of_ascii "root packet u8x {
    body@lengthOf( i64_ )
`` , @lengthOf(Foo )
//x
// `tick` ""quote"" 'q'
string_@lengthOf(	int ), @lengthOf(
rootA//	t
) @tag( 255 // c
)
    match Logon  as roots { 1 : x_y_z, } , }
    packet len {
@tag( 0123456789
)  @leftPad ( '\x00' ) i8i8 {
//x
// @lengthOf(
len `u8 x,` , } , @tag(
    0123456789// 50% %s
) u8x A, char[ 007 ]
    int
    , @leftPad (
'\x00')
float64 len
    `100% of %d`, }
    packet crc {
// `tick` ""quote"" 'q'
// `tick` ""quote"" 'q'
match
calculatedFrom as leftPad { [ // packet A { u8 x, }
""" ++ [233]%N ++ runes_of_ascii "t" ++ [233]%N ++ runes_of_ascii """ ]  :Foo ""1"" :
Packet , 1 : stringy [	4294967296
    // c
    ,
""a	b"" ]: leftPad, [ """ ++ [233]%N ++ runes_of_ascii "t" ++ [233]%N ++ runes_of_ascii """,
""""
,4294967296 , 0123456789 ,	4294967296  ,
    ""CRC32"" , 0123456789  ,"""" ] : rootA
} ,  @rightPad (
    ) roots {
As //x
, repeat
zchar[1 ]falsey, repeat char[] repeatCount, } //	t
, roots  `a\`, match
    charz
    as i8i8  {  [ ""\" ++ [233]%N ++ runes_of_ascii """, """ ++ [233]%N ++ runes_of_ascii "t" ++ [233]%N ++ runes_of_ascii """ ] :
// c
// @lengthOf(
o // @lengthOf(
, 42
    : matchKey ,
    00 : body,
""a\\""
    :
    rootA
,} ,
    }")).
Eval vm_compute in ("<<<M1509>>>" ++ check (runes_of_ascii "// top
	options	// c0

{
    // c1

	LittleEndian  // c2a
      // c2b
    = 
true // c4a
    // c4b
; // c5a
    // c5b
} packet  Sub

    {
    u8
    // c10
  a
	// c11
,

@calculatedFrom( ""CRC16"" // c14a
	  // c14b

)
// c15
    uint64  
      // c16
    SubSum
,// c18

  }root  // c20

packet 

// c21
Frame 

    // c22
	{  // c23
      u16 
MsgType// c25
	  , 	 // c26a
// c26b
      u16	// c27a
    // c27b
	BodyLen 
      // c28

	@lengthOf( 
// c29
  	Body  // c30a
  	// c30b
  )
// c31
, 
	// c32
	Sub // c33

	Body// c34a
// c34b
	,// c35a
      // c35b
	string // c36a

  // c36b
  note	// c37a
  // c37b
    ,  // c38a
// c38b
	@calculatedFrom( // c39a
// c39b
  ""CRC16"" // c40a
    // c40b

)  // c41
uint64	// c42a
		// c42b
  Checksum// c43a
// c43b
    ,
    // c44
u8	// c45a
	// c45b
    	tail  // c46a
// c46b
  ,  // c47a
	  // c47b
    } 
    // c48
")).
Eval vm_compute in ("<<<M1380>>>" ++ check (runes_of_ascii "options {
    ArrayPrefixLenType = u32;
    FixedStringPadFromLeft = false;
    FixedStringPadChar = '0';
}
packet Trade {
    repeat InVenue78 {
        u16 tag7,
        repeat InLastpx9 {
            u8 pad0,
        },
        int64 Tail,
        repeat InQty37 {
            char[2] OrderId,
            zchar[6] lastPx,
            int64 Qty,
        },
        uint8 Side2,
    },
}
packet Logon {
    repeat string venue,
    @rightPad('\x00') char[3] sym,
    zchar[9] count,
    zchar[7] f1,
    Trade,
}
packet Logout {
}
root packet Reject {
    int32 sym,
    u8 Px,
    u32 Tail @lengthOf(Body),
    match Px as Body {
        184 : Trade,
        173 : Logon,
        12 : Logout,
    },
    u32 tag7 @calculatedFrom(""CRC32""),
}
")).
Eval vm_compute in ("<<<M1742>>>" ++ check (runes_of_ascii "packet u128 {
    string a1,
    x,
    @calculatedFrom(""\n"")
    @tag(0)
    @tag(42)
    i8 Packet @calculatedFrom(""a	b"") `a\`,
    @calculatedFrom(""\n"")
    repeat string uint8x `{ , }`,
    char[] string_,
}

packet repeatCount {
    @leftPad( '\x00'
        )
    o @calculatedFrom(""abc"") `u8 x,`,
    char[1] repeatCount,
    char[] x,
    @tag(007)
    repeat i16 u8x `a\`,
    @lengthOf(u)
    repeat uint16 u128,
    repeat uint8 repeatCount,
    repeat stringy {
        char[10] options1,
        int `doc`,
    },
}

MetaData BodyLength {
    i64 x_y_z `" ++ [233]%N ++ runes_of_ascii "`,
    u64 x `
        `,
    asx asx,
    char[3] leftPad,
}

MetaData zchar {
}")).
Eval vm_compute in ("<<<M1136>>>" ++ check (runes_of_ascii "// top
packet
    // c0
_x
    // c1
{
    // c2
match
    // c3
Foo
    // c4
as
    // c5
Z9_
    // c6
{
    // c7
""a	b""
    // c8
:
    // c9
Pad
    // c10
,
    // c11
}
    // c12
,
    // c13
repeat
    // c14
x
    // c15
`// not a comment`
    // c16
,
    // c17
@rightPad
    // c18
(
    // c19
' '
    // c20
)
    // c21
@calculatedFrom(
    // c22
""a\\""
    // c23
)
    // c24
metadata
    // c25
MetaDataX
    // c26
,
    // c27
@tag(
    // c28
0
    // c29
)
    // c30
Logon
    // c31
int
    // c32
`two words`
    // c33
,
    // c34
}
    // c35
")).
Eval vm_compute in ("<<<M142>>>" ++ check (runes_of_ascii "packet Header{ uint16 As @calculatedFrom(
    ""CRC32"" )
,float
`doc`,char[	3
] crc , //x
repeat
u32
packetx , a1 @calculatedFrom(	""`tick`"") ,
repeat rootA
{
    u8x
`crlf
line`
, string x, }
    , roots { char[	65535
]len `100% of %d` // " ++ [27880; 37322]%N ++ runes_of_ascii "
,u32	x_y_z
,}
    // @lengthOf(
    ,
    a1 { match zchar
as
len  {
    ""a\""b"" : roots , }	,uint32
i64_ `// not a comment`
,
    repeat	x_y_z {
u@calculatedFrom("""") , Packet
    { char[ 00 ]
msg_type , } ,
} ,} ,options1 i8i8
, string calculatedFrom, }

")).
Eval vm_compute in ("<<<M1369>>>" ++ check (runes_of_ascii "options {
    LittleEndian = true;
    ArrayPrefixLenType = u32;
    FixedStringPadChar = ' ';
}
packet Order {
    char[5] seqNo,
    uint8 Px,
}
packet Logon {
    @rightPad('\x00') char[8] Flags,
    zchar[3] count,
    repeat Order,
}
root packet Party {
    repeat Logon,
    repeat char[1] x,
    u32 price,
    u32 Side2 @lengthOf(Body),
    match price as Body {
        49 : Order,
        196 : Logon,
    },
    u32 f1 @calculatedFrom(""CRC32""),
}
")).
Eval vm_compute in ("<<<M346>>>" ++ check (runes_of_ascii "MetaData body { //x
asx As , Foo calculatedFrom`` ,
    packetx
pack `{ , }`, // packet A { u8 x, }
u8x  falsey`say ""hi""` , float32
float
    `line1
line2`, char[] u
`it's`
, } packet
    // a // b
    asx{uint32 pack
@calculatedFrom(
    ""CRC32""
    ) `line1
line2` ,char[ 65535 /// triple
] roots // @lengthOf(
,Z9_
zchar // trailing space 
, repeat uint64 // 50% %s
float `line1
line2`
,
} root packet options1 { }
")).
Eval vm_compute in ("<<<M1489>>>" ++ check (runes_of_ascii "options 
{
Logon

    = '\x00'	; Foo
=  ""// no comment""  x = 
""a\""b""
    }packet rootA { @tag(007
    )	@calculatedFrom(
	""a\\"" ) // `tick` ""quote"" 'q'

  u
{

    match
o

    as	Foo { 255

:
asx , ""a\""b""
    :
	zchar 
, [

    ""a	b""
,

""{,}"" ,  10 ]: _x} ,	// a // b

char[ 42] As	`a\`

    ,  int32
i64_
@calculatedFrom(	""" ++ [28040; 24687]%N ++ runes_of_ascii """ )	// " ++ [27880; 37322]%N ++ runes_of_ascii "
  ,

    repeat chars  packetx, }  ,
} ")).
Eval vm_compute in ("<<<M168>>>" ++ check (runes_of_ascii "MetaData o//
{MetaDataX  As `crlf
line` ,string_	T , zchar[
1 ] Header , //	t
} packet packetx { // " ++ [128512]%N ++ runes_of_ascii " emoji
repeat //	t
char[ 10
// @lengthOf(
//
] crc
`a\` ,  @tag( 42 ) repeat char[]asx `// not a comment` , zchar[
// a // b
// " ++ [128512]%N ++ runes_of_ascii " emoji
007 ]
len @lengthOf( u )`a\` ,@leftPad ( '\x00' ) @tag(	3 )@calculatedFrom( ""a\""b"") char[ //x
10] As
`
`  , }
")).
Eval vm_compute in ("<<<M1329>>>" ++ check (runes_of_ascii "// top
packet
    // c0
FooBar // c1
{
    // c2
u8 // c3a
  // c3b
a
    // c4
, // c5
}
    // c6
packet // c7
foo_bar // c8a
  // c8b
{ // c9
u16 b // c11a
  // c11b
, // c12a
  // c12b
}
    // c13
root
    // c14
packet
    // c15
R // c16
{ FooBar // c18
, // c19a
  // c19b
foo_bar // c20
, // c21
} // c22
")).
Eval vm_compute in ("<<<M1560>>>" ++ check (runes_of_ascii "MetaData u {
    f64 roots,
    zchar trueish,
}

root packet Foo {
    packetx,
    repeat zchar[3] msg_type `
        `,
}

root packet Header {
    match u8x as options1 {
        4294967296 : metadata,
        // `tick` ""quote"" 'q'
        4294967296 : float,
    },//x
}")).
Eval vm_compute in ("<<<M210>>>" ++ check (runes_of_ascii "packet x  {/// triple
repeat// c
int ,}
root
packet
A
{i8i8 Packet,}
packet
    // `tick` ""quote"" 'q'
    pack {@lengthOf( msg_type
)
    // packet A { u8 x, }
    f32a As `it's`
, } root packet f32a
{ i64_
@lengthOf(// 50% %s
matchKey
)	`doc` ,
}
// " ++ [27880; 37322]%N ++ runes_of_ascii "
")).
Eval vm_compute in ("<<<M1885>>>" ++ check (runes_of_ascii "MetaData calculatedFrom {
    /// triple
    matchKey packetx,
    float32 u128,// `tick` ""quote"" 'q'
}

MetaData uint8x {
    //	t
    zchar[65535] As ``,
    char[255] T `doc`,
    zchar[255] int,
    float64 i64_ `tab	here`,
    char[] len,
}")).
Eval vm_compute in ("<<<M517>>>" ++ check (runes_of_ascii "packet
    asx { @calculatedFrom(
""""  ) @tag( 255 )repeat
// packet A { u8 x, }
// trailing space 
int16 u8x
,
@tag(
    //
    007 )
    @tag( 0
    /// triple
    ) @tag( 1) u
    @lengthOf( T ), ,
// `tick` ""quote"" 'q'
//x
} // " ++ [128512]%N ++ runes_of_ascii " emoji")).
Eval vm_compute in ("<<<M444>>>" ++ check (runes_of_ascii "packet
    asx { @calculatedFrom(
""""  ) @tag( 255 )repeat
// packet A { u8 x, }
// trailing space 
int16 f32
,
@tag(
    //
    007 )
    @tag( 0
    /// triple
    ) @tag( 1) u
    @lengthOf( T ),
// `tick` ""quote"" 'q'
//x
} // " ++ [128512]%N ++ runes_of_ascii " emoji")).
Eval vm_compute in ("<<<M476>>>" ++ check (runes_of_ascii "packet
    asx { @calculatedFrom(
""""  ) @tag( 255 )repeat
// packet A { u8 x, }
// trailing space 
int16 u8x
,
@tag(
    //
    007 )
    @tag( 0
    /// triple
     @tag( 1) u
    @lengthOf( T ),
// `tick` ""quote"" 'q'
//x
} // " ++ [128512]%N ++ runes_of_ascii " emoji")).
Eval vm_compute in ("<<<M1756>>>" ++ check (runes_of_ascii "packet x {
    /// triple
    repeat int,
}

root packet A {
    i8i8 Packet,
}

packet pack {
    @lengthOf(msg_type)
    // packet A { u8 x, }
    f32a As `it's`,
}

root packet f32a {
    i64_ @lengthOf(matchKey) `doc`,
}
// " ++ [27880; 37322]%N)).
Eval vm_compute in ("<<<M1654>>>" ++ check (runes_of_ascii "packet stringy {
    //x
    repeat char[0123456789] trueish,
    matchKey `100% of %d`,
}

options {
    x_y_z = false;// " ++ [128512]%N ++ runes_of_ascii " emoji
    Z9_ = 4294967296
    chars = ""packet"";
    Packet = ""it's"";// trailing space 
}")).
Eval vm_compute in ("<<<M1792>>>" ++ check (runes_of_ascii "
MetaData
Header 

    // " ++ [128512]%N ++ runes_of_ascii " emoji
	{  trueish	Pad

    ,} 
MetaData
	Z9_
{
    char[] metadata,  Header
A 
``	,
uint32 
packetx, 
int16 uint8x
, 
Header	// packet A { u8 x, }
leftPad , 
}
")).
Eval vm_compute in ("<<<M592>>>" ++ check (runes_of_ascii "MetaData u
    { } MetaData o
{ float uint8x
`100% of %d` `100% of %d` ,repeatCount u8x, string_ leftPad
, i32
    Foo , int64 x `two words` , calculatedFrom
stringy `a\` ,
}
")).
Eval vm_compute in ("<<<M607>>>" ++ check (runes_of_ascii "MetaData u
    { } MetaData o
{ float uint8x
`100% of %d` ,repeatCount u8x u8x, string_ leftPad
, i32
    Foo , int64 x `two words` , calculatedFrom
stringy `a\` ,
}
")).
Eval vm_compute in ("<<<M692>>>" ++ check (runes_of_ascii "MetaData u
    { } MetaData o
{ float " ++ [8232]%N ++ runes_of_ascii " uint8x
`100% of %d` ,repeatCount u8x, string_ leftPad
, i32
    Foo , int64 x `two words` , calculatedFrom
stringy `a\` ,
}
")).
Eval vm_compute in ("<<<M598>>>" ++ check (runes_of_ascii "MetaData u
    { } MetaData o
{ float uint8x
`100% of %d` repeatCount, u8x, string_ leftPad
, i32
    Foo , int64 x `two words` , calculatedFrom
stringy `a\` ,
}
")).
Eval vm_compute in ("<<<M626>>>" ++ check (runes_of_ascii "MetaData u
    { } MetaData o
{ float uint8x
`100% of %d` ,repeatCount u8x, string_ leftPad
 i32
    Foo , int64 x `two words` , calculatedFrom
stringy `a\` ,
}
")).
Eval vm_compute in ("<<<M366>>>" ++ check (runes_of_ascii "packet  T
    { @calculatedFrom( ""1"" /// triple
)@tag( 0
    ) crc {
int16 falsey
,/// triple
int64
i8i8 , }	,
    Header , trueish
, }
// packet A { u8 x, }
")).
Eval vm_compute in ("<<<M591>>>" ++ check (runes_of_ascii "MetaData u
    { } MetaData o
{ float uint8x
 ,repeatCount u8x, string_ leftPad
, i32
    Foo , int64 x `two words` , calculatedFrom
stringy `a\` ,
}
")).
Eval vm_compute in ("<<<M225>>>" ++ check (runes_of_ascii "options {  i8i8= uint8 pack =false T  = false ; msg_type
// `tick` ""quote"" 'q'
// c
= 0 falsey = char[ 42 ]// trailing space 
; }
// " ++ [128512]%N ++ runes_of_ascii " emoji
")).
Eval vm_compute in ("<<<M1702>>>" ++ check (runes_of_ascii "

  packet A
	{match k
as
	n

{ [1,""bb""  ,
	007
    , ""d"",

    5,

    ""f""
    ,  7,
    ""h""
, 9 ,  ""j"" 
]

:
	B	,2 :
C }
,

} ")).
Eval vm_compute in ("<<<M1781>>>" ++ check (runes_of_ascii "options {
}

options {
    MetaDataX = char;
}

MetaData Pad {
    i8 metadata,// c
    string stringy,
    int8 As `{ , }`,
}")).
Eval vm_compute in ("<<<M904>>>" ++ check (runes_of_ascii "packet A {
  match k as n {
    [""a"", ""bb"", ""c c"", ""d"", ""e"", ""f"", ""g"", ""h"", ""i"", ""j"", ""k"", ""l""] : B,
    2 : C
  },
}")).
Eval vm_compute in ("<<<M1212>>>" ++ check (runes_of_ascii "options { } options {
// c
MetaDataX = char ; } MetaData Pad { i8 metadata , string stringy , int8 As `{ , }` , }")).
Eval vm_compute in ("<<<M1244>>>" ++ check (runes_of_ascii "options { } options { MetaDataX = char ; } MetaData Pad { i8 metadata , string stringy , int8 As
// c
`{ , }` , }")).
Eval vm_compute in ("<<<M900>>>" ++ check (runes_of_ascii "packet A {
  match k as n {
    [""a"", ""bb"", 007, ""d"", ""e"", 66, ""g"", ""h"", 9, ""j"", ""k""] : B
    2 : C
  },
}")).
Eval vm_compute in ("<<<M886>>>" ++ check (runes_of_ascii "packet A {
  match k as n {
    [""a"", ""bb"", 007, ""d"", ""e"", 66, ""g"", ""h"", 9, ""j""] : B,
    2 : C
  },
}")).
Eval vm_compute in ("<<<M1625>>>" ++ check (runes_of_ascii "MetaData matchKey {
    i64 float `crlf
        line`,//	t
    leftPad asx,
    uint8x leftPad,
}")).
Eval vm_compute in ("<<<M1775>>>" ++ check (runes_of_ascii "
// top

root 
    // c0
	packet  
      // c1
  	a1 

// c2
    {
    // c3
}
    // c4
")).
Eval vm_compute in ("<<<M750>>>" ++ check (runes_of_ascii "a1 ""// no comment"" ' ' uint8 0 repeat char[ string MetaData ""`tick`"" uint64 00 char @tag(")).
Eval vm_compute in ("<<<M858>>>" ++ check (runes_of_ascii "packet A {
  match k as n {
    [1, 22, ""c c"", 4, 5, ""f"", 7, 8] : B,
    2 : C
  },
}")).
Eval vm_compute in ("<<<M1639>>>" ++ check (runes_of_ascii "

  packet  _x
{	}
    root
	packet 
leftPad {	} 
options{Pad
=

    string;}

")).
Eval vm_compute in ("<<<M800>>>" ++ check (runes_of_ascii "packet A {
  match k as n {
    [""a"", ""bb"", ""c c"", ""d""] : B,
    2 : C
  },
}")).
Eval vm_compute in ("<<<M1957>>>" ++ check (runes_of_ascii "
MetaData

u128
{

matchKey i64_
,
BodyLength 
T  , msg_type
body
	,
}
")).
Eval vm_compute in ("<<<M875>>>" ++ check (runes_of_ascii "packet A { Inner { match k as n { [1,22,007,4,5,66,7,8,9] : B, }, }, }")).
Eval vm_compute in ("<<<M1617>>>" ++ check (runes_of_ascii "root packet P {
    u16 a,
    u32 Sum @calculatedFrom(""CRC32""),
}")).
Eval vm_compute in ("<<<M946>>>" ++ check (runes_of_ascii "packet A {
    B b `x
`,
    B `x
`,
    repeat B bs `x
`,
}")).
Eval vm_compute in ("<<<M1648>>>" ++ check (runes_of_ascii "
MetaData
	M 
{
u8	x  `x
`
    ,
T	t

`x
`

    ,
	}
")).
Eval vm_compute in ("<<<M775>>>" ++ check (runes_of_ascii "packet A { Inner { match k as n { [1] : B, }, }, }")).
Eval vm_compute in ("<<<M1162>>>" ++ check (runes_of_ascii "// top
packet // c0
x // c1
{ // c2
} // c3
")).
Eval vm_compute in ("<<<M1439>>>" ++ check (runes_of_ascii "options {
    A = ""// no comment""
}
// c")).
Eval vm_compute in ("<<<M1100>>>" ++ check (runes_of_ascii "options { a = 1; // a
 b = 2 // b
 }")).
Eval vm_compute in ("<<<M1569>>>" ++ check (runes_of_ascii "  packet

    A
    {
}  // c" ++ [12288]%N ++ runes_of_ascii "
")).
Eval vm_compute in ("<<<M997>>>" ++ check (runes_of_ascii "packet A {
 u8 x `d `, // c 
}")).
Eval vm_compute in ("<<<M1525>>>" ++ check (runes_of_ascii "packet len {
    repeat A,
}")).
Eval vm_compute in ("<<<M1151>>>" ++ check (runes_of_ascii "root packet a1 { } // c
")).
Eval vm_compute in ("<<<M1122>>>" ++ check (runes_of_ascii "// c
MetaData tag { }")).
Eval vm_compute in ("<<<M1015>>>" ++ check (runes_of_ascii "packet A {
}
// c" ++ [5760]%N)).
Eval vm_compute in ("<<<M285>>>" ++ check (runes_of_ascii "packet rootA
{  }")).
Eval vm_compute in ("<<<M405>>>" ++ check (runes_of_ascii "packet
    asx {")).
Eval vm_compute in ("<<<M760>>>" ++ check (runes_of_ascii "V]kUb{")).
Eval vm_compute in ("<<<M39>>>" ++ check (runes_of_ascii "
")).
