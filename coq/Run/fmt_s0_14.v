From FP Require Import Lexer Parser ShowPT Digest Formatter.
From Coq Require Import String List NArith.
Import ListNotations.
Open Scope string_scope.
Set Printing Width 100000000.
Set Printing Depth 100000000.
Definition show_fres (r : fres) : string :=
  match r with
  | FOk s => "OK:" ++ sh_escaped s ""
  | FErr s => "ERR:" ++ sh_escaped s ""
  | FPanic p => "PANIC:" ++ p
  end.
Definition check (rs : list rune) : string := digest (show_fres (format_res rs)).
Definition full (rs : list rune) : string := show_fres (format_res rs).
Eval vm_compute in ("<<<M1793>>>" ++ check (runes_of_ascii "packet metadata {
    repeat f64 Foo,
    repeat Logon f32a `
        `,
    @calculatedFrom(""1"")
    repeat uint8 calculatedFrom `u8 x,`,
    char[] packetx,// packet A { u8 x, }
    @calculatedFrom(""abc"")
    Pad @lengthOf(msg_type) `line1
        line2`,
    @rightPad(' ')
    tag `" ++ [233]%N ++ runes_of_ascii "`,
    @tag(10)
    u8x @calculatedFrom(""CRC32""),
    match metadata as msg_type {
        [0123456789, ""\n""] : options1,
        ""\n"" : float,
    },
}

packet MetaDataX {
    string string_ `doc`,
    @rightPad('0')
    zchar[00] zchar `a\`,
}

options {
    leftPad = 0
    float = 4294967296;
}// `tick` ""quote"" 'q'

root packet body {
    @calculatedFrom(""1"")
    @lengthOf(int)
    match float as Z9_ {
        // packet A { u8 x, }
        // trailing space 
        42 : x,
        ""packet"" : matchKey,
        """ ++ [28040; 24687]%N ++ runes_of_ascii """ : o,
        255 : float,
    },
    @tag(0123456789)
    match calculatedFrom as trueish {
        [""packet"", ""`tick`"", """ ++ [233]%N ++ runes_of_ascii "t" ++ [233]%N ++ runes_of_ascii """] : MetaDataX,
        4294967296 : trueish,
        3 : i64_,
        0123456789 : f32a,
        [
            7, 10, ""CRC32"", ""x y"", ""\n"",
            ""CRC32"", ""`tick`""
        ] : body,
    },
    char[1] Foo,
    @rightPad(' ')
    @calculatedFrom(""a	b"")
    repeat string_ {
        repeat Logon,
        Z9_ i8i8,
        match Z9_ as A {
            [42] : Logon,
            [
                1, 4294967296, 0, ""CRC32"", ""a\""b"",
                ""\" ++ [233]%N ++ runes_of_ascii """
            ] : roots,
            ""a\""b"" : MetaDataX,
            255 : _x,
            65535 : rootA,
        },
        match _x as Foo {
            [255, """ ++ [28040; 24687]%N ++ runes_of_ascii """, ""CRC32"", """ ++ [233]%N ++ runes_of_ascii "t" ++ [233]%N ++ runes_of_ascii """, ""abc""] : len,
            ""a\\"" : Pad,
            0 : falsey,
            3 : u128,
        },// a // b
    },
    repeat options1 int `{ , }`,
}")).
Eval vm_compute in ("<<<M123>>>" ++ check (runes_of_ascii "
packet _x{  leftPad `it's`
    , match Logon as
    matchKey { ""packet"" :  stringy,3
: u
    ,//
""1"" : Pad }
,  float32 Z9_ @lengthOf( i8i8	)
    `" ++ [233]%N ++ runes_of_ascii "`
    // " ++ [27880; 37322]%N ++ runes_of_ascii "
    , @tag( 3 )match
    //	t
    As as Pad{
"""" : chars
, ""x y"" //
: i64_	,  } ,  @calculatedFrom(""it's"" // c
) @leftPad ( ' '
) zchar[ 0123456789	] falsey , match	A as packetx
{ [ 42]:
matchKey // c
, }// `tick` ""quote"" 'q'
,@leftPad
( ' ' )
    match x
    // c
    as a1 { ""packet"" //x
:
    a1 , 10 : pack""{,}"" :  u8x// a // b
, [ 007
,00// trailing space 
]
:trueish ,
    ""x y"" :pack //	t
,
""" ++ [233]%N ++ runes_of_ascii "t" ++ [233]%N ++ runes_of_ascii """
:
matchKey , } , @leftPad ( '0'
) uint8x u
    ,	zchar[
    3 // a // b
]
    //	t
    u ``
    , @rightPad (
    ' ') repeat _x
`` , } MetaData Foo
    {a1 Z9_ ,
options1 T ,u32 u8x
`crlf
line`, metadata falsey,lengthOf
x_y_z ,
    } packet calculatedFrom { @tag( 3 ) string A,
    match leftPad as a1	{//	t
0123456789: calculatedFrom , }
    ,
    match crc//
as
    body {
    00 : _x, } , o @calculatedFrom(	""x y"" )
//
// " ++ [128512]%N ++ runes_of_ascii " emoji
,  } packet T { }  packet Logon { @leftPad
(// @lengthOf(
'\x00' )
As @calculatedFrom(
""a	b"" ) `line1
line2`	, pack lengthOf // `tick` ""quote"" 'q'
, } // `tick` ""quote"" 'q'")).
Eval vm_compute in ("<<<M8>>>" ++ check (runes_of_ascii "// @lengthOf(
packet Pad { zchar[
    0 ]Header @calculatedFrom(
""a	b"" ) // " ++ [27880; 37322]%N ++ runes_of_ascii "
`say ""hi""` , @calculatedFrom(
    ""a\""b"" // a // b
)  body @lengthOf( body// `tick` ""quote"" 'q'
)`say ""hi""` , u16 stringy@lengthOf(
    // trailing space 
    trueish ) , @lengthOf( rootA) f64 Foo `say ""hi""` // c
,u16 Z9_ , x_y_z , }
    MetaData metadata { uint64 x , trueish chars//
,
    asx lengthOf `u8 x,`  ,
} options { body // a // b
=	""packet"" } root
    packet MetaDataX {zchar[
42	]
a1
,Packet x_y_z // " ++ [27880; 37322]%N ++ runes_of_ascii "
, u8 Foo
    `u8 x,` , u64
//	t
/// triple
tag, @tag( 1 //x
)  string x_y_z @calculatedFrom( ""x y"" ) ,f32 Logon	, _x ,charz // a // b
{
    rootA metadata `crlf
line`
    , Header @calculatedFrom( ""\" ++ [233]%N ++ runes_of_ascii """ ) `` ,
i64_`line1
line2`
    // @lengthOf(
    , } ,@lengthOf(
a1// `tick` ""quote"" 'q'
) string
As	`doc`
    , @tag(
1 ) match As
    as	trueish
    //	t
    {
    [ ""`tick`""
    // trailing space 
    ] :charz,  ""packet"": asx , 42  :
packetx, [ ""a\\"" ] :
u }
,
}
/// triple
")).
Eval vm_compute in ("<<<M1361>>>" ++ check (runes_of_ascii "options

{  FixedStringPadFromLeft
= true
	;
FixedStringPadChar = '0' ;}packet

Leg{ repeat InSym93
	{

zchar[
3
]
	Acct,
string
Side2 , i32 Flags
    ,f32
	Note ,i32 msgKind ,

    }	, f64
Note	, uint16	Px

    , }
packet
	Quote {zchar[2] 
OrderId	, 
}
	packet Ack{ repeat	string
lastPx 
, 
zchar[4 
]price , uint32 OrderId
	,	Quote,

    int8

    Acct

    ,

} packet	Fill

    {repeat
    Leg
    ,

    @rightPad

    (
	'0' 
)	char[

11 ]	Note , 
f64  Px ,

@rightPad  (	'\x00'

    )	char[  5
] Flags 
, 
zchar[
9]
x

    ,string 
msgKind ,
} root
    packet Order	{	Leg , repeat Ack 
,
@rightPad (
    '\x00')
char[
3  ] Side2,

    repeat
    char[ 
1
]

    seqNo

,	u16

    clOrdID
    ,
match
    clOrdID

as Body
	{ 198 
: Leg,

    23
:
	Quote
	, 13 
:
Ack ,159
:
	Fill
,
	}	,	u32	venue

@calculatedFrom( 
""CRC32"" 
)
    ,

}")).
Eval vm_compute in ("<<<M280>>>" ++ check (runes_of_ascii "packet	crc{@lengthOf( stringy// a // b
) @leftPad (
'0'
    ) @calculatedFrom(
""packet"" )
repeat char[
    // c
    3]  i64_ // a // b
, match
    options1	as o { 255 :msg_type
,
    ""\n"": MetaDataX , 42: msg_type """ ++ [128512]%N ++ runes_of_ascii """
    : lengthOf,""// no comment"" :falsey , }
/// triple
// trailing space 
, @leftPad( )
    @lengthOf( A
    ) @calculatedFrom( ""x y"" ) uint32// a // b
charz `doc`, len ,@calculatedFrom( ""// no comment"" ) match _x
    //x
    as i64_	{ 65535
    :
    // @lengthOf(
    u8x , } ,
char[]
    a1 // @lengthOf(
, Foo { u8x{ char[]
Logon
    `// not a comment`	,}, match metadata as u128 { // trailing space 
42 : u8x
, 65535 : f32a
    } //x
, asx// " ++ [128512]%N ++ runes_of_ascii " emoji
@lengthOf( matchKey  ) ,} , roots @calculatedFrom( // packet A { u8 x, }
""a\""b"" )
,	zchar[
7] int	, repeat pack	trueish ,
    }
")).
Eval vm_compute in ("<<<M1692>>>" ++ check (runes_of_ascii "root packet asx {
    // `tick` ""quote"" 'q'
    f32a,
    @calculatedFrom(""abc"")
    zchar[65535] metadata `
        `,
    @calculatedFrom(""CRC32"")
    Header `doc`,
    match f32a as msg_type {
        [""\n""] : charz,
        // @lengthOf(
        0123456789 : pack,
        //x
        [
            4294967296, ""packet"", """", ""`tick`"", ""CRC32"",
            ""\n"", ""it's"", ""it's""
        ] : charz,
        42 : leftPad,
        [
            255, 7, ""packet"", ""{,}"", ""\" ++ [233]%N ++ runes_of_ascii """,
            ""1"", ""1""
        ] : msg_type,
        [""" ++ [128512]%N ++ runes_of_ascii """] : i64_,
    },
}

packet body {
}

root packet i64_ {
    uint16 Header @calculatedFrom(""" ++ [233]%N ++ runes_of_ascii "t" ++ [233]%N ++ runes_of_ascii """) ``,
    float64 string_ @calculatedFrom(""`tick`""),
    repeat zchar[1] packetx `it's`,
}//	t")).
Eval vm_compute in ("<<<M216>>>" ++ check (runes_of_ascii "// " ++ [27880; 37322]%N ++ runes_of_ascii "
packet chars {match
charz
as
    // trailing space 
    A // trailing space 
{0123456789: rootA ,
    42
:
    x , ""1"" :Logon , 7 :u , ""\n"" : packetx , }, char[]MetaDataX
@calculatedFrom(""""
) `" ++ [233]%N ++ runes_of_ascii "`
    // trailing space 
    ,	@leftPad( ' ' )  char[] Foo,
    crc , f64 string_ , // " ++ [128512]%N ++ runes_of_ascii " emoji
char[]
packetx,i64 u8x@lengthOf(  stringy ) `// not a comment`, repeat zchar {
repeat
A _x , lengthOf	@lengthOf( u8x
) ,	match A as matchKey { 3 :Z9_ , ""// no comment"": As 00 //x
:
i64_ ,
// a // b
// " ++ [128512]%N ++ runes_of_ascii " emoji
""a\\""  :i64_ , [ ""`tick`""/// triple
] : T ,
    }
,
// a // b
// packet A { u8 x, }
uint32 T
`" ++ [28040; 24687; 31867; 22411]%N ++ runes_of_ascii "`
    , }
    , uint64
    /// triple
    charz
, }")).
Eval vm_compute in ("<<<M1392>>>" ++ check (runes_of_ascii "
options

    {LittleEndian
	=

false;

    ArrayPrefixLenType 
= 
u8 ;FixedStringPadFromLeft=	true
;  FixedStringPadChar
    ='0' ;
    }packet Heartbeat
    {

string
lastPx , uint8	Qty
	,  i64 Acct ,
    char[ 4]

    Ref, } packet  Fill { uint8 Ref, Heartbeat ,
	f32
OrderId	, repeat 
f32 x
, 
}

root

    packet Order{
zchar[ 
2
]

OrderId, zchar[	2]  Acct,	zchar[ 1
    ]
    Note ,

    zchar[ 
9
]

Qty,

string  price  ,string tag7 
,  u32
x,match x  as Body {
123
	:

    Fill , 112 : Heartbeat

, 
},

u32 
seqNo

@calculatedFrom(

    ""CRC32"" 
) ,
    }")).
Eval vm_compute in ("<<<M1736>>>" ++ check (runes_of_ascii "// top
packet A {
    // c2
    u8 a,// c5
}// c6a

// c6b
packet B {
    // c9
    u16 b,
}// c13a

// c13b
packet C {
    // c16
    u32 c,// c19a
}

// c20
root packet M {
    u16 Kc,
    // c27
    u16 Kb,// c30
    u16 Ka,
    match Kc as X {
        // c38
        9 : A,
        10 : B,
    },
    match Kb as Y {
        2 : C,
        // c57
        1 : A,
        // c61a
    },// c63a
    // c63b
    match Ka as Z {
        // c68
        1 : B,
        // c72
    },// c74
    A,// c76
    B,
    // c78
    C,// c80
}")).
Eval vm_compute in ("<<<M193>>>" ++ check (runes_of_ascii "
root packet lengthOf{
    char[ 3 ] Pad ,	@rightPad
    (  '0'
)
    crc `doc` ,i32 //x
uint8x
,	zchar { match Logon  as int { [ 0 , """ ++ [233]%N ++ runes_of_ascii "t" ++ [233]%N ++ runes_of_ascii """] :o , ""// no comment"" :len ,
} , asx
{
    //x
    char[	10 ]
u128 // a // b
@lengthOf(  x_y_z)`say ""hi""`, }
/// triple
//
, char[
1 ] A, u// c
chars
    `` , }, repeat matchKey
{ //x
string trueish@calculatedFrom(
    ""a	b""  )  , repeat
    // packet A { u8 x, }
    i8 msg_type `it's` ,	} , /// triple
}
packet float { }")).
Eval vm_compute in ("<<<M1193>>>" ++ check (runes_of_ascii "// top
MetaData
    // c0
uint8x // c1
{ char[]
    // c3
f32a // c4a
  // c4b
`// not a comment`
    // c5
, // c6a
  // c6b
float32 // c7
roots
    // c8
, // c9
char[ // c10a
  // c10b
7 // c11
] // c12
u8x // c13
, // c14a
  // c14b
zchar[
    // c15
10
    // c16
] // c17
f32a // c18
, // c19a
  // c19b
u64
    // c20
pack // c21a
  // c21b
, u16
    // c23
pack // c24a
  // c24b
,
    // c25
}
    // c26
")).
Eval vm_compute in ("<<<M1897>>>" ++ check (runes_of_ascii "
options
{  LittleEndian	=true ;  StringPrefixLenType

    =
u16
	; FixedStringPadChar
    =' ' ;
}

    packet  Logon { @leftPad
	(

'0'

    )
    char[ 
10]

tag7 ,

} root
packet Ack
	{
int32 
Px

    ,  uint16 count , 
string Qty
, 
string

    OrderId , string	Flags , u8

    x
    ,  match	x  as 
Body	{ [

    58
,169
]
	: Logon
    , } , 
}
")).
Eval vm_compute in ("<<<M178>>>" ++ check (runes_of_ascii "packet // c
As
{@tag( 42
    )
    repeat Logon	uint8x
// " ++ [128512]%N ++ runes_of_ascii " emoji
//
``, repeat int32
    x_y_z ,char[7 // trailing space 
]	pack , repeat string crc
/// triple
// c
`// not a comment`
, @calculatedFrom(
    ""`tick`""
    ) @tag( 1 )match
    // @lengthOf(
    chars as
MetaDataX { 4294967296 : // @lengthOf(
T ,
} /// triple
,
}
")).
Eval vm_compute in ("<<<M1376>>>" ++ check (runes_of_ascii "options {
    LittleEndian = true;
}
packet Logon {
    u8 x,
}
packet Logout {
    u16 reason,
}
root packet Frame {
    i8 Kind,
    i8 Kind2,
    match Kind as Body {
        1 : Logon,
        [2, 3, 4] : Logout,
        100 : Logon,
    },
    match Kind2 as Trailer {
        0 : Logout,
    },
}
")).
Eval vm_compute in ("<<<M1785>>>" ++ check (runes_of_ascii "packet repeatCount {
    @calculatedFrom(""abc"")
    zchar[0] MetaDataX `
        `,
    string_ @calculatedFrom(""1""),
    match string_ as msg_type {
        [65535, 7, 255, ""a	b""] : matchKey,
        10 : options1,
        3 : Logon,
    },
    // " ++ [27880; 37322]%N ++ runes_of_ascii "
    packetx `a\`,
}")).
Eval vm_compute in ("<<<M234>>>" ++ check (runes_of_ascii "//	t
options{
    chars=true As= char[]
// trailing space 
// " ++ [128512]%N ++ runes_of_ascii " emoji
; /// triple
x_y_z	= 7; // " ++ [27880; 37322]%N ++ runes_of_ascii "
i8i8 = true packetx = /// triple
' ' } root packet	x_y_z {repeat
    char[
    42
    //x
    ] //	t
Pad,
    }
// packet A { u8 x, }
")).
Eval vm_compute in ("<<<M249>>>" ++ check (runes_of_ascii "
packet
rootA {
} // trailing space 
packet f32a //	t
{ match
zchar as zchar
    {	65535 : f32a , 7 : charz// trailing space 
,
""{,}""
//	t
//x
: Header , 42
    :a1 // packet A { u8 x, }
, }
, }
")).
Eval vm_compute in ("<<<M309>>>" ++ check (runes_of_ascii "packet
    // `tick` ""quote"" 'q'
    _x {//
repeat zchar[ 1 ] metadata
    ,@leftPad
    ( ' ' ) @lengthOf( T )@lengthOf(
Z9_ )
    char[] As// @lengthOf(
,string f32a  , }
")).
Eval vm_compute in ("<<<M431>>>" ++ check (runes_of_ascii "packet uint8x
{ match pack
    as msg_type	{
    0123456789 0123456789 :	float
}
,
} packet //	t
a1
    { } options {packetx
    = '\x00'	; u128= ""a	b""  ; }
")).
Eval vm_compute in ("<<<M528>>>" ++ check (runes_of_ascii "packet uint8x
{ match pack
    as msg_type	{
    0123456789 :	float
}
,
} packet //	t
a1
    { } options {packetx
    = '\x00'	; u128= ""a	b""  packet }
")).
Eval vm_compute in ("<<<M488>>>" ++ check (runes_of_ascii "packet uint8x
{ match pack
    as msg_type	{
    0123456789 :	float
}
,
} packet //	t
a1
    { } options i8 packetx
    = '\x00'	; u128= ""a	b""  ; }
")).
Eval vm_compute in ("<<<M407>>>" ++ check (runes_of_ascii "packet uint8x
{ pack match
    as msg_type	{
    0123456789 :	float
}
,
} packet //	t
a1
    { } options {packetx
    = '\x00'	; u128= ""a	b""  ; }
")).
Eval vm_compute in ("<<<M1872>>>" ++ check (runes_of_ascii "  MetaData 
leftPad { 
chars  MetaDataX
,	}
packet repeatCount
    {

char[
255
	] 	 // c
uint8x 
`" ++ [233]%N ++ runes_of_ascii "`
    ,
}	MetaData  pack	{

    As
Foo , } ")).
Eval vm_compute in ("<<<M698>>>" ++ check (runes_of_ascii "// @lengthOf(
packet i8i8 { u128 o , }
options { MetaDataX = true;
    BodyLength =""packet"" x_y_z= 007
crc //x
= ""abc"" ;
    msg_type =
i16 i16 }")).
Eval vm_compute in ("<<<M500>>>" ++ check (runes_of_ascii "packet uint8x
{ match pack
    as msg_type	{
    0123456789 :	float
}
,
} packet //	t
a1
    { } options {packetx
    = 	; u128= ""a	b""  ; }
")).
Eval vm_compute in ("<<<M1883>>>" ++ check (runes_of_ascii "MetaData
	leftPad
    { chars MetaDataX
,
    }packet repeatCount
	{ char[
	// c
  255]

    uint8x 
`" ++ [233]%N ++ runes_of_ascii "`	, } MetaData
	pack

{	As

Foo 
, }
")).
Eval vm_compute in ("<<<M658>>>" ++ check (runes_of_ascii "// @lengthOf(
 i8i8 { u128 o , }
options { MetaDataX = true;
    BodyLength =""packet"" x_y_z= 007
crc //x
= ""abc"" ;
    msg_type =
i16 }")).
Eval vm_compute in ("<<<M1608>>>" ++ check (runes_of_ascii "MetaData leftPad {
    chars MetaDataX,
}

packet repeatCount {
    // c
    char[255] uint8x `" ++ [233]%N ++ runes_of_ascii "`,
}

MetaData pack {
    As Foo,
}")).
Eval vm_compute in ("<<<M1194>>>" ++ check (runes_of_ascii "// top
packet // c0
body // c1
{ // c2
i32 // c3
f32a // c4
`{ , }` // c5
, // c6
} // c7
options // c8
{ // c9
} // c10
")).
Eval vm_compute in ("<<<M1161>>>" ++ check (runes_of_ascii "MetaData leftPad { chars MetaDataX , } packet repeatCount { // c
char[ 255 ] uint8x `" ++ [233]%N ++ runes_of_ascii "` , } MetaData pack { As Foo , }")).
Eval vm_compute in ("<<<M906>>>" ++ check (runes_of_ascii "packet A {
  match k as n {
    [""a"", ""bb"", ""c c"", ""d"", ""e"", ""f"", ""g"", ""h"", ""i"", ""j"", ""k"", ""l""] : B,
    2 : C
  },
}")).
Eval vm_compute in ("<<<M925>>>" ++ check (runes_of_ascii "packet A {
    u16 len @lengthOf(body) `a
b`,
    u32 crc @calculatedFrom(""CRC32"") `a
b`,
    string body,
}")).
Eval vm_compute in ("<<<M1554>>>" ++ check (runes_of_ascii "packet u128 {
    @calculatedFrom(""x y"")
    @rightPad(' ')
    char[42] Header @calculatedFrom(""abc""),
}")).
Eval vm_compute in ("<<<M896>>>" ++ check (runes_of_ascii "packet A {
  match k as n {
    [1, ""bb"", 007, ""d"", 5, ""f"", 7, ""h"", 9, ""j"", 11] : B
    2 : C
  },
}")).
Eval vm_compute in ("<<<M883>>>" ++ check (runes_of_ascii "packet A {
  match k as n {
    [1, ""bb"", 007, ""d"", 5, ""f"", 7, ""h"", 9, ""j""] : B
    2 : C
  },
}")).
Eval vm_compute in ("<<<M580>>>" ++ check (runes_of_ascii "
packet
    asx {match u128 char[ lengthOf
{
//	t
// `tick` ""quote"" 'q'
255 : x ,
    } ,	}")).
Eval vm_compute in ("<<<M636>>>" ++ check (runes_of_ascii "
packet
    asx {match u128 as lengthOf
{
//	t
// `ti/ck` ""quote"" 'q'
255 : x ,
    } ,	}")).
Eval vm_compute in ("<<<M575>>>" ++ check (runes_of_ascii "
packet
    asx {match u64 as lengthOf
{
//	t
// `tick` ""quote"" 'q'
255 : x ,
    } ,	}")).
Eval vm_compute in ("<<<M570>>>" ++ check (runes_of_ascii "
packet
    asx {{ u128 as lengthOf
{
//	t
// `tick` ""quote"" 'q'
255 : x ,
    } ,	}")).
Eval vm_compute in ("<<<M815>>>" ++ check (runes_of_ascii "packet A {
  match k as n {
    [""a"", ""bb"", ""c c"", ""d"", ""e""] : B,
    2 : C
  },
}")).
Eval vm_compute in ("<<<M1886>>>" ++ check (runes_of_ascii "packet Inner {
    u8 a,
}

root packet P {
    repeat Inner items,
    u8 x,
}")).
Eval vm_compute in ("<<<M345>>>" ++ check (runes_of_ascii "
options
{ } // " ++ [128512]%N ++ runes_of_ascii " emoji
options { float // `tick` ""quote"" 'q'
=	65535 }
")).
Eval vm_compute in ("<<<M790>>>" ++ check (runes_of_ascii "packet A {
  match k as n {
    [""a"", ""bb"", ""c c""] : B
    2 : C
  },
}")).
Eval vm_compute in ("<<<M924>>>" ++ check (runes_of_ascii "packet A {
    B b `a
b`,
    B `a
b`,
    repeat B bs `a
b`,
}")).
Eval vm_compute in ("<<<M785>>>" ++ check (runes_of_ascii "packet A {
  match k as n {
    [""a"", 22] : B
    2 : C
  },
}")).
Eval vm_compute in ("<<<M1525>>>" ++ check (runes_of_ascii "root packet string_ {
    char[] matchKey,
}

packet x {
}")).
Eval vm_compute in ("<<<M1632>>>" ++ check (runes_of_ascii "root packet x {
    roots @calculatedFrom(""a\""b""),
}")).
Eval vm_compute in ("<<<M333>>>" ++ check (runes_of_ascii "  MetaData
x_y_z{ }	packet chars	{	} options {}
")).
Eval vm_compute in ("<<<M951>>>" ++ check (runes_of_ascii "MetaData M {
    u8 x `x
`,
    T t `x
`,
}")).
Eval vm_compute in ("<<<M1400>>>" ++ check (runes_of_ascii "root packet A {
    u8 x `
        `,
}")).
Eval vm_compute in ("<<<M928>>>" ++ check (runes_of_ascii "root packet A {
    u8 x `a
b`,
}")).
Eval vm_compute in ("<<<M276>>>" ++ check (runes_of_ascii "MetaData repeatCount { }
//	t
")).
Eval vm_compute in ("<<<M1647>>>" ++ check (runes_of_ascii "

  packet  A {
}// a
// b
")).
Eval vm_compute in ("<<<M1496>>>" ++ check (runes_of_ascii "MetaData
u

// c
	{ } ")).
Eval vm_compute in ("<<<M1724>>>" ++ check (runes_of_ascii "// top
MetaData u {
}")).
Eval vm_compute in ("<<<M278>>>" ++ check (runes_of_ascii "packet Packet { }
")).
Eval vm_compute in ("<<<M1052>>>" ++ check (runes_of_ascii "// c" ++ [65279]%N ++ runes_of_ascii "
packet A {
}")).
Eval vm_compute in ("<<<M1082>>>" ++ check (runes_of_ascii "options { // a
 }")).
Eval vm_compute in ("<<<M404>>>" ++ check (runes_of_ascii "packet uint8x")).
Eval vm_compute in ("<<<M995>>>" ++ check (runes_of_ascii "// c" ++ [5760]%N)).
Eval vm_compute in ("<<<M725>>>" ++ check (runes_of_ascii " ")).
