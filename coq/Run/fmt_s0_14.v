From FP Require Import Lexer Parser ShowPT Digest Formatter.
From Coq Require Import String List NArith.
Import ListNotations.
Open Scope string_scope.
Set Printing Width 100000000.
Set Printing Depth 100000000.
Definition show_fres (r : fres) : string :=
  match r with
  | FOk s => "OK:" ++ sh_escaped s ""
  | FErr s => "ERR:" ++ sh_escaped s ""
  | FPanic p => "PANIC:" ++ p
  end.
Definition check (rs : list rune) : string := digest (show_fres (format_res rs)).
Definition full (rs : list rune) : string := show_fres (format_res rs).
Eval vm_compute in ("<<<M1569>>>" ++ check (runes_of_ascii "packet metadata {
    repeat f64 Foo,
    repeat Logon f32a `
    `,
    @calculatedFrom(""1"")
    repeat uint8 calculatedFrom `u8 x,`,
    char[] packetx,// packet A { u8 x, }
    @calculatedFrom(""abc"")
    Pad @lengthOf(msg_type) `line1
    line2`,
    @rightPad(' ')
    tag `" ++ [233]%N ++ runes_of_ascii "`,
    @tag(10)
    u8x @calculatedFrom(""CRC32""),
    match metadata as msg_type {
        [""\n"", 0123456789] : options1,
        ""\n"" : float,
    },
}

packet MetaDataX {
    string string_ `doc`,
    @rightPad('0')
    zchar[00] zchar `a\`,
}

options {
    leftPad = 0
    float = 4294967296;
}// `tick` ""quote"" 'q'

root packet body {
    @calculatedFrom(""1"")
    @lengthOf(int)
    match float as Z9_ {
        // packet A { u8 x, }
        // trailing space 
        42 : x,
        ""packet"" : matchKey,
        """ ++ [28040; 24687]%N ++ runes_of_ascii """ : o,
        255 : float,
    },
    @tag(0123456789)
    match calculatedFrom as trueish {
        [""packet"", ""`tick`"", """ ++ [233]%N ++ runes_of_ascii "t" ++ [233]%N ++ runes_of_ascii """] : MetaDataX,
        4294967296 : trueish,
        3 : i64_,
        0123456789 : f32a,
        [
            7, 10, ""CRC32"", ""x y"", ""\n"",
            ""CRC32"", ""`tick`""
        ] : body,
    },
    char[1] Foo,
    @rightPad(' ')
    @calculatedFrom(""a	b"")
    repeat string_ {
        repeat Logon,
        Z9_ i8i8,
        match Z9_ as A {
            [42] : Logon,
            [
                ""CRC32"", 1, ""a\""b"", 4294967296, 0,
                ""\" ++ [233]%N ++ runes_of_ascii """
            ] : roots,
            ""a\""b"" : MetaDataX,
            255 : _x,
            65535 : rootA,
        },
        match _x as Foo {
            [255, """ ++ [28040; 24687]%N ++ runes_of_ascii """, ""CRC32"", """ ++ [233]%N ++ runes_of_ascii "t" ++ [233]%N ++ runes_of_ascii """, ""abc""] : len,
            ""a\\"" : Pad,
            0 : falsey,
            3 : u128,
        },// a // b
    },
    repeat options1 int `{ , }`,
}")).
Eval vm_compute in ("<<<M1918>>>" ++ check (runes_of_ascii "options {
    BodyLength = 3;// " ++ [128512]%N ++ runes_of_ascii " emoji
    T = ""packet"";
    // c
    // trailing space 
    crc = true;
    falsey = '\x00';
}

root packet A {
    @leftPad('0')
    char[65535] Header `" ++ [233]%N ++ runes_of_ascii "`,
    @rightPad('0')
    //
    a1 @lengthOf(msg_type),
    @lengthOf(rootA)
    match _x as stringy {
        ""CRC32"" : chars,
        3 : float,
        255 : asx,
        10 : tag,
        //
    },
    @calculatedFrom(""" ++ [128512]%N ++ runes_of_ascii """)
    u32 u8x `crlf
    line`,
    repeat char[] asx `a\`,
    @rightPad('0')
    match f32a as Packet {
        [
            255, ""CRC32"", 007, ""1"", ""packet"",
            00, 4294967296
        ] : calculatedFrom,
        ""packet"" : falsey,
        ""a\""b"" : body,
        7 : Packet,
        // " ++ [128512]%N ++ runes_of_ascii " emoji
        0123456789 : i64_,
        // a // b
        [4294967296, 0123456789] : options1,
    },
    crc @lengthOf(Foo),
    @calculatedFrom(""{,}"")
    @lengthOf(metadata)
    @lengthOf(i8i8)
    int64 options1 @calculatedFrom(""CRC32"") `line1
    line2`,// @lengthOf(
}

packet a1 {
    match lengthOf as x_y_z {
        ""it's"" : matchKey,
        10 : Packet,
        [""abc""] : A,
        10 : metadata,
    },
}

MetaData body {
    char string_,
    char[] x,
    len Pad,
    string leftPad,
}// trailing space ")).
Eval vm_compute in ("<<<M1343>>>" ++ check (runes_of_ascii "options
{
    FixedStringPadFromLeft= true;FixedStringPadChar
=
    '0'  ;
}
    packet

Leg{ InPrice0{
	repeat
string

    clOrdID ,
    int16
	msgKind ,
zchar[5
]

    Px,
} 
,
i16  f1

, repeat

    f64  Side2
,string
	Acct,

}
    packet  Cancel {

zchar[

4

]
clOrdID,	string 
seqNo  ,

    Leg , 
@leftPad
    (
    '0' 
)  char[
    11
    ]
    OrderId	, 
} 
packet
Quote{
    repeat
    char[4]

    sym,
	f64 
OrderId ,
    repeat

    Leg

    ,

repeat i64 
f1, int16 
Note ,  zchar[
3] 
count  ,  } 
root
packet
Ack{	@leftPad(
    ' ' 
)char[

    10
]sym,
    InPx60
	{
Cancel	,
repeat
char[
1
    ]  f1 ,

string
	Tail

    , repeat 
InNote55 {
int8

count, f64 f1 ,
    repeat
	Cancel,	} ,char[]tag7	,  repeat
	string	msgKind

    , }

    ,

    u8
lastPx
	,
	match lastPx
as  Body
	{152 :Quote ,
    173

:  Cancel
    , 4
: 
Leg ,

}

,u16 Ref @calculatedFrom(
    ""CRC32""
)
	,
	}
")).
Eval vm_compute in ("<<<M237>>>" ++ check (runes_of_ascii "root
    packet
    asx { // `tick` ""quote"" 'q'
f32a	,
@calculatedFrom(
""abc"") zchar[ 65535 ]	metadata `
` , @calculatedFrom(// " ++ [128512]%N ++ runes_of_ascii " emoji
""CRC32"" // `tick` ""quote"" 'q'
) Header `doc`
    // @lengthOf(
    , match
f32a as
msg_type
// @lengthOf(
//x
{ [ ""\n"" ] /// triple
:
charz// @lengthOf(
0123456789 :
pack
    // `tick` ""quote"" 'q'
    ,//x
[ ""packet"" , """",
    // @lengthOf(
    ""`tick`"" ,
    ""CRC32"" , ""\n"" ,
// `tick` ""quote"" 'q'
// trailing space 
""it's""//	t
,
""it's"", //
4294967296 ]
:
charz
42
    : leftPad , [
255 ,	7 , ""packet"" , // trailing space 
""{,}""
    , ""\" ++ [233]%N ++ runes_of_ascii """ ,""1""
    ,	""1""  ] : msg_type
,
    [ """ ++ [128512]%N ++ runes_of_ascii """
    ]:  i64_ } ,  }packet body { } root packet i64_
    { uint16  Header @calculatedFrom(
""" ++ [233]%N ++ runes_of_ascii "t" ++ [233]%N ++ runes_of_ascii """ )
    ``
    ,float64 string_@calculatedFrom( // a // b
""`tick`"") , repeat zchar[ // @lengthOf(
1] packetx`it's` ,
} //	t")).
Eval vm_compute in ("<<<M1853>>>" ++ check (runes_of_ascii "MetaData x {
    len crc,
    float asx,
    i32 uint8x `line1
        line2`,
    u16 tag `it's`,
    As string_,
}

packet metadata {
    @lengthOf(zchar)
    // c
    i64_ @calculatedFrom(""\" ++ [233]%N ++ runes_of_ascii """),//x
    @leftPad('\x00')
    zchar[10] zchar,
    lengthOf string_,
    int @lengthOf(pack),
    zchar[00] Foo,
    @lengthOf(packetx)
    @leftPad('\x00')
    @calculatedFrom(""x y"")
    uint16 len @calculatedFrom("""") `two words`,
    int8 metadata @lengthOf(Foo) `two words`,// @lengthOf(
}

options {
}

packet pack {
    // `tick` ""quote"" 'q'
    //
    f64 o,
    T BodyLength,
    repeat uint8 chars `" ++ [233]%N ++ runes_of_ascii "`,
    repeat Logon u,
    @tag(0123456789)
    char[] repeatCount @lengthOf(_x) `
        `,//
    @tag(7)
    repeatCount @calculatedFrom(""packet"") `{ , }`,
}")).
Eval vm_compute in ("<<<M344>>>" ++ check (runes_of_ascii "options // a // b
{	}
    packet i8i8 { @tag(
3 ) x
@calculatedFrom(
""it's""	) , @lengthOf( f32a ) match
rootA
as uint8x // @lengthOf(
{ 0 : string_ 42 : Packet } , @leftPad
(
    '\x00'
) i64_ packetx `u8 x,` ,
    @calculatedFrom(""x y"" ) matchKey {len  ,
    }  ,
@lengthOf(  matchKey
)
    @calculatedFrom(// `tick` ""quote"" 'q'
""abc"" ) @lengthOf( x_y_z )
    /// triple
    repeat metadata `line1
line2` ,lengthOf repeatCount , /// triple
int32
// " ++ [27880; 37322]%N ++ runes_of_ascii "
//	t
roots @calculatedFrom( ""`tick`"")
`" ++ [233]%N ++ runes_of_ascii "` , zchar[
1	]	Packet	@calculatedFrom(	""// no comment"" ) ,} packet
    options1
{ @lengthOf(
    uint8x ) A @calculatedFrom( ""it's""
    )
`doc`, } root packet crc
{char[	65535	]chars
,}
")).
Eval vm_compute in ("<<<M1386>>>" ++ check (runes_of_ascii "// top
packet
    // c0
Sub // c1
{ // c2
u8 // c3
a , // c5a
  // c5b
@calculatedFrom( ""CRC16"" )
    // c8
i32 // c9a
  // c9b
SubSum ,
    // c11
} // c12a
  // c12b
root
    // c13
packet Frame
    // c15
{ u16 MsgType // c18
,
    // c19
u16 // c20
BodyLen
    // c21
@lengthOf( // c22a
  // c22b
Body // c23a
  // c23b
) // c24a
  // c24b
,
    // c25
Sub // c26a
  // c26b
Body
    // c27
, // c28a
  // c28b
string
    // c29
note
    // c30
, @calculatedFrom( // c32a
  // c32b
""CRC16"" // c33a
  // c33b
) // c34a
  // c34b
i32 Checksum // c36a
  // c36b
,
    // c37
u8 // c38
tail
    // c39
, // c40
} // c41
")).
Eval vm_compute in ("<<<M1700>>>" ++ check (runes_of_ascii "options {
    LittleEndian = false;
    ArrayPrefixLenType = u8;
    FixedStringPadFromLeft = true;
    FixedStringPadChar = '0';
}

packet Heartbeat {
    string lastPx,
    uint8 Qty,
    i64 Acct,
    char[4] Ref,
}

packet Fill {
    uint8 Ref,
    Heartbeat,
    f32 OrderId,
    repeat f32 x,
}

root packet Order {
    zchar[2] OrderId,
    zchar[2] Acct,
    zchar[1] Note,
    zchar[9] Qty,
    string price,
    string tag7,
    u32 x,
    match x as Body {
        123 : Fill,
        112 : Heartbeat,
    },
    u32 seqNo @calculatedFrom(""CRC32""),
}")).
Eval vm_compute in ("<<<M210>>>" ++ check (runes_of_ascii "MetaData tag {
//
//
char[// a // b
3 ] // a // b
msg_type
    // c
    , char[7 ] options1
,
    // trailing space 
    float crc
,calculatedFrom pack ,int64 u  `a\`,}
packet leftPad{char[
    1
]
    /// triple
    zchar
,
    //
    } packet crc { // c
@lengthOf( packetx	) @lengthOf( asx)
@lengthOf( packetx ) calculatedFrom {	f32 packetx	``
// packet A { u8 x, }
//x
, },
} options { Z9_
= ""\" ++ [233]%N ++ runes_of_ascii """
    // a // b
    float = ' ' ; packetx = ""x y""
    calculatedFrom  = int16
    ;
}")).
Eval vm_compute in ("<<<M1929>>>" ++ check (runes_of_ascii "options {
    LittleEndian = true;
    StringPrefixLenType = u64;
    ArrayPrefixLenType = u16;
    FixedStringPadFromLeft = false;
    FixedStringPadChar = ' ';
}

packet Logon {
    zchar[5] Side2,
}

root packet Logout {
    repeat i64 Tail,
    Logon,
    repeat i16 OrderId,
    char[] venue,
    uint64 x,
    repeat i16 count,
    u8 Flags,
    match Flags as Body {
        25 : Logon,
    },
    u16 Qty @calculatedFrom(""CR\
        C32""),
}")).
Eval vm_compute in ("<<<M1690>>>" ++ check (runes_of_ascii "MetaData Packet {
    // c2
}

packet charz {
    // c6a
    // c6b
    Foo asx `it's`,
    // c10
    @lengthOf(T)
    // c13
    @calculatedFrom("""")
    // c16
    @calculatedFrom(""x y"")
    // c19a
    // c19b
    zchar[007] repeatCount @lengthOf(int) `a\`,// c28a
    // c28b
    i8 string_,// c31
    repeat options1 Pad,
}// c36a

// c36b
root packet Packet {
    int8 float `doc`,// c44
}
// c45")).
Eval vm_compute in ("<<<M372>>>" ++ check (runes_of_ascii "// @lengthOf(
MetaData leftPad { string	options1`say ""hi""` ,
    //x
    int16 metadata`" ++ [233]%N ++ runes_of_ascii "`,f32 i64_
//	t
// c
, }  packet
trueish { // c
MetaDataX roots ,_x
    a1 , match
packetx as charz { 0
: // c
f32a ,
} //
, repeat body Logon , }	options { repeatCount=
    int8
charz // `tick` ""quote"" 'q'
=	char[];  msg_type =""it's""	u
=
    007 Z9_
    = uint32
    //
    }")).
Eval vm_compute in ("<<<M127>>>" ++ check (runes_of_ascii "packet a1{ @leftPad ( ) float
@lengthOf(
uint8x ) , }
packet Logon {
char Logon
@calculatedFrom( ""a\\"" )
    ,T stringy ,
//
// c
repeat uint8 stringy `two words` , } MetaData charz{ u
    tag
    `
`
, a1 falsey ,//x
Z9_
matchKey , f64 lengthOf	`a\` // @lengthOf(
,
    f32a roots
    ``
,float64
    x_y_z // @lengthOf(
, }
")).
Eval vm_compute in ("<<<M1268>>>" ++ check (runes_of_ascii "// top
packet
    // c0
B
    // c1
{ // c2
u8
    // c3
a // c4
, string // c6
s
    // c7
, } root // c10
packet
    // c11
P // c12a
  // c12b
{
    // c13
u16
    // c14
L // c15a
  // c15b
@lengthOf( B
    // c17
)
    // c18
,
    // c19
B
    // c20
, u8 // c22a
  // c22b
t
    // c23
, // c24
} ")).
Eval vm_compute in ("<<<M1960>>>" ++ check (runes_of_ascii "packet MDSnapshotZZ {
u8

a	, }  packet

OrderACK
	{ u16 b ,

    }

packet	HTTPServerInfo
{ string  s
    , 
}

    root
	packet  FIXMsg {u8

    KType
,
	MDSnapshotZZ  ,

repeat OrderACK
,match	KType
as
    Body
    {	1 : HTTPServerInfo 
,
2:	OrderACK,}	, }
")).
Eval vm_compute in ("<<<M97>>>" ++ check (runes_of_ascii "packet
i8i8 { repeat char[	00 ] Pad
    `a\` ,
@leftPad
    (
'\x00') string	a1@lengthOf(tag )``, float64
    u128 @calculatedFrom( ""1""
)  ,	@lengthOf( x
    )
    u128 @lengthOf( tag )
`" ++ [28040; 24687; 31867; 22411]%N ++ runes_of_ascii "` , int64 u ,
A//x
T
    `say ""hi""`
, }
")).
Eval vm_compute in ("<<<M1326>>>" ++ check (runes_of_ascii "packet Logon {
    string user,
}
root packet Frame {
    u8 K,
    match K as Body {
        1 : Logon,
        2 : Logout,
    },
    Tail,
}
packet Logout {
    u16 reason,
}
packet Tail {
    u32 crc,
}
")).
Eval vm_compute in ("<<<M186>>>" ++ check (runes_of_ascii "root packet packetx	{	char[ 1 ]chars @calculatedFrom(
""packet"" ) `say ""hi""` ,} options
    // trailing space 
    { asx
    // a // b
    = 65535 u = float64 repeatCount  =""\" ++ [233]%N ++ runes_of_ascii """}
")).
Eval vm_compute in ("<<<M1196>>>" ++ check (runes_of_ascii "// top
packet // c0a
  // c0b
body
    // c1
{ i32 // c3
f32a
    // c4
`{ , }` // c5a
  // c5b
, }
    // c7
options // c8a
  // c8b
{ // c9
} // c10a
  // c10b
")).
Eval vm_compute in ("<<<M1401>>>" ++ check (runes_of_ascii "
packet A
{
match
	k
	as

    n

    {[
	""a""
	,
22
    ,
    ""c c"" ,  4 
,
""e""

    ,
    66
,

    ""g""  ,

8

,
""i"",  10  ]

:
B 2	:
C } ,
	}")).
Eval vm_compute in ("<<<M456>>>" ++ check (runes_of_ascii "packet uint8x
{ match pack
    as msg_type	{
    0123456789 :	float
}
,
} } packet //	t
a1
    { } options {packetx
    = '\x00'	; u128= ""a	b""  ; }
")).
Eval vm_compute in ("<<<M393>>>" ++ check (runes_of_ascii "uint8x packet
{ match pack
    as msg_type	{
    0123456789 :	float
}
,
} packet //	t
a1
    { } options {packetx
    = '\x00'	; u128= ""a	b""  ; }
")).
Eval vm_compute in ("<<<M673>>>" ++ check (runes_of_ascii "// @lengthOf(
packet i8i8 { u128 o , }
options { MetaDataX = true;
    BodyLength =""packet"" x_y_z float64 007
crc //x
= ""abc"" ;
    msg_type =
i16 }")).
Eval vm_compute in ("<<<M408>>>" ++ check (runes_of_ascii "packet uint8x
{ i8 pack
    as msg_type	{
    0123456789 :	float
}
,
} packet //	t
a1
    { } options {packetx
    = '\x00'	; u128= ""a	b""  ; }
")).
Eval vm_compute in ("<<<M391>>>" ++ check (runes_of_ascii " uint8x
{ match pack
    as msg_type	{
    0123456789 :	float
}
,
} packet //	t
a1
    { } options {packetx
    = '\x00'	; u128= ""a	b""  ; }
")).
Eval vm_compute in ("<<<M1491>>>" ++ check (runes_of_ascii "
MetaData
leftPad{

    chars 
MetaDataX,}packet
repeatCount

{ char[
255
    ]	uint8x `" ++ [233]%N ++ runes_of_ascii "`
,
    } 
MetaData	pack
    {
As Foo 
, }  // c
")).
Eval vm_compute in ("<<<M329>>>" ++ check (runes_of_ascii "  packet calculatedFrom
{ uint8x {body `line1
line2`
, string crc
@lengthOf(uint8x// " ++ [128512]%N ++ runes_of_ascii " emoji
) , char[]As@lengthOf(	Pad )
    , } , }
")).
Eval vm_compute in ("<<<M1802>>>" ++ check (runes_of_ascii "// top
root packet P {
    // c3
    u8 s_u8,// c6
    repeat u8 r_u8,
    // c10
    u16 b_len,// c13a
    // c13b
}// c14a
// c14b")).
Eval vm_compute in ("<<<M937>>>" ++ check (runes_of_ascii "packet A {
    u16 len @lengthOf(body) `a
    b
  c`,
    u32 crc @calculatedFrom(""CRC32"") `a
    b
  c`,
    string body,
}")).
Eval vm_compute in ("<<<M1144>>>" ++ check (runes_of_ascii "MetaData
// c
leftPad { chars MetaDataX , } packet repeatCount { char[ 255 ] uint8x `" ++ [233]%N ++ runes_of_ascii "` , } MetaData pack { As Foo , }")).
Eval vm_compute in ("<<<M1176>>>" ++ check (runes_of_ascii "MetaData leftPad { chars MetaDataX , } packet repeatCount { char[ 255 ] uint8x `" ++ [233]%N ++ runes_of_ascii "` , }
// c
MetaData pack { As Foo , }")).
Eval vm_compute in ("<<<M1579>>>" ++ check (runes_of_ascii "

  packet
A

{match
k as

    n 
{

    [ 1
,

    ""bb""	,

007 , ""d"" ,

5,
""f""
]  : B
    2 :
	C }
,  }
")).
Eval vm_compute in ("<<<M902>>>" ++ check (runes_of_ascii "packet A {
  match k as n {
    [""a"", ""bb"", 007, ""d"", ""e"", 66, ""g"", ""h"", 9, ""j"", ""k""] : B
    2 : C
  },
}")).
Eval vm_compute in ("<<<M913>>>" ++ check (runes_of_ascii "packet A {
  match k as n {
    [1, 22, ""c c"", 4, 5, ""f"", 7, 8, ""i"", 10, 11, ""l""] : B
    2 : C
  },
}")).
Eval vm_compute in ("<<<M900>>>" ++ check (runes_of_ascii "packet A {
  match k as n {
    [1, 22, ""c c"", 4, 5, ""f"", 7, 8, ""i"", 10, 11] : B
    2 : C
  },
}")).
Eval vm_compute in ("<<<M558>>>" ++ check (runes_of_ascii "
packet
    asx asx {match u128 as lengthOf
{
//	t
// `tick` ""quote"" 'q'
255 : x ,
    } ,	}")).
Eval vm_compute in ("<<<M623>>>" ++ check (runes_of_ascii "
packet
    asx {match u128 as lengthOf
{
//	t
// `tick` ""quote"" 'q'
255 : x ,
    } ,	} }")).
Eval vm_compute in ("<<<M584>>>" ++ check (runes_of_ascii "
packet
    asx {match u128 as {
lengthOf
//	t
// `tick` ""quote"" 'q'
255 : x ,
    } ,	}")).
Eval vm_compute in ("<<<M625>>>" ++ check (runes_of_ascii "
packet
    asx {match u128 as lengthOf
{
//	t
// `tick` ""quote"" 'q'
255 : x ,
    } ,")).
Eval vm_compute in ("<<<M843>>>" ++ check (runes_of_ascii "packet A {
  match k as n {
    [1, ""bb"", 007, ""d"", 5, ""f"", 7] : B,
    2 : C
  },
}")).
Eval vm_compute in ("<<<M831>>>" ++ check (runes_of_ascii "packet A {
  match k as n {
    [1, ""bb"", 007, ""d"", 5, ""f""] : B
    2 : C
  },
}")).
Eval vm_compute in ("<<<M1568>>>" ++ check (runes_of_ascii "root

packet

    P
	{ repeat
string

    ss
, repeat u16

ns,

    }

")).
Eval vm_compute in ("<<<M91>>>" ++ check (runes_of_ascii "packet
roots{ }	MetaData
    metadata{
asx matchKey ,
uint64
rootA , }")).
Eval vm_compute in ("<<<M1583>>>" ++ check (runes_of_ascii "packet u {
    @tag(10)
    tag @lengthOf(A),
    repeat options1,
}")).
Eval vm_compute in ("<<<M918>>>" ++ check (runes_of_ascii "packet A {
    B b `a
b`,
    B `a
b`,
    repeat B bs `a
b`,
}")).
Eval vm_compute in ("<<<M1091>>>" ++ check (runes_of_ascii "packet A { @leftPad() char[4] x, @rightPad( ) zchar[2] y, }")).
Eval vm_compute in ("<<<M627>>>" ++ check (runes_of_ascii "
packet
    asx {match u128 as lengthOf
{
//	t
// `t")).
Eval vm_compute in ("<<<M1216>>>" ++ check (runes_of_ascii "packet body { i32 f32a `{ , }` , } options
// c
{ }")).
Eval vm_compute in ("<<<M921>>>" ++ check (runes_of_ascii "MetaData M {
    u8 x `a
b`,
    T t `a
b`,
}")).
Eval vm_compute in ("<<<M1511>>>" ++ check (runes_of_ascii "

  MetaData repeatCount

    { }
//	t
")).
Eval vm_compute in ("<<<M1826>>>" ++ check (runes_of_ascii "packet A {
    u8 x,// c
    u8 y,
}")).
Eval vm_compute in ("<<<M1063>>>" ++ check (runes_of_ascii "packet A {
 u8 x `d x`, // c x
}")).
Eval vm_compute in ("<<<M1013>>>" ++ check (runes_of_ascii "packet A {
 u8 x `d" ++ [8232]%N ++ runes_of_ascii "`, // c" ++ [8232]%N ++ runes_of_ascii "
}")).
Eval vm_compute in ("<<<M1653>>>" ++ check (runes_of_ascii "

  packet
    falsey {

}
")).
Eval vm_compute in ("<<<M414>>>" ++ check (runes_of_ascii "packet uint8x
{ match")).
Eval vm_compute in ("<<<M115>>>" ++ check (runes_of_ascii "MetaData roots{ } 	 ")).
Eval vm_compute in ("<<<M982>>>" ++ check (runes_of_ascii "// c" ++ [12288]%N ++ runes_of_ascii "
packet A {
}")).
Eval vm_compute in ("<<<M1083>>>" ++ check (runes_of_ascii "packet A { // a
 }")).
Eval vm_compute in ("<<<M1230>>>" ++ check (runes_of_ascii "packet x { // c
}")).
Eval vm_compute in ("<<<M1628>>>" ++ check (runes_of_ascii "packet A {
}")).
Eval vm_compute in ("<<<M1030>>>" ++ check (runes_of_ascii "// c" ++ [11]%N)).
