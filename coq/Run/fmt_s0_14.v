From FP Require Import Lexer Parser ShowPT Digest Formatter.
From Coq Require Import String List NArith.
Import ListNotations.
Open Scope string_scope.
Set Printing Width 100000000.
Set Printing Depth 100000000.
Definition show_fres (r : fres) : string :=
  match r with
  | FOk s => "OK:" ++ sh_escaped s ""
  | FErr s => "ERR:" ++ sh_escaped s ""
  | FPanic p => "PANIC:" ++ p
  end.
Definition check (rs : list rune) : string := digest (show_fres (format_res rs)).
Definition full (rs : list rune) : string := show_fres (format_res rs).
Eval vm_compute in ("<<<M1499>>>" ++ check (runes_of_ascii "// top
options {
    // c1
    LittleEndian = true;// c5
    StringPrefixLenType = u16;
    // c9
    ArrayPrefixLenType = u8;// c13
    FixedStringPadChar = ' ';// c17
}// c18a

// c18b
packet Ack {
    @leftPad(' ')
    // c25
    char[5] lastPx,
    zchar[4] count,// c35a
    // c35b
    repeat InVenue30 {
        char[9] Side2,
        char[12] venue,// c48
    },
    // c50
}// c51a

// c51b
packet Order {
    // c54a
    // c54b
    int16 Note,// c57a
    // c57b
    repeat InAcct28 {
        // c60
        InSym3 {
            // c62
            Ack,
            // c64
            char[4] lastPx,
            char[1] venue,// c74
            f32 Ref,// c77
        },
        repeat InTag729 {
            // c82
            char[3] Side2,
            // c87
            uint64 Acct,// c90a
            // c90b
            char[] price,
            zchar[9] Note,
            // c98
            zchar[9] venue,
            // c103
        },
        char[] count,// c108a
        // c108b
        Ack,
        // c110
        char[] Px,// c113
    },// c115a
    // c115b
    u8 f1,
    // c118
    Ack,// c120a
    // c120b
}// c121a

// c121b
packet Fill {
    zchar[7] x,// c129a
    // c129b
    Order,// c131a
    // c131b
    @leftPad(' ')
    char[9] venue,
    // c140
    string count,
    char[] Flags,// c146a
    // c146b
}// c147

packet Logon {
    // c150
}// c151a

// c151b
packet Reject {
    Order,
    // c156
    char[] sym,// c159a
    // c159b
}// c160

root packet Quote {
    string price,
    // c167
    i64 Flags,// c170a
    // c170b
    repeat Fill,// c173
    zchar[9] x,// c178
    f32 lastPx,// c181a
    // c181b
    repeat Ack,
    // c184
}
// c185")).
Eval vm_compute in ("<<<M264>>>" ++ check (runes_of_ascii "root packet u8x
    {
    // trailing space 
    repeat u64 Pad
    , i64_ @calculatedFrom(
""x y"" /// triple
) `100% of %d`
// @lengthOf(
// a // b
, @calculatedFrom(
""a	b"" ) @lengthOf( Header ) @lengthOf( zchar ) i32
    A @lengthOf( falsey)//x
,	repeat zchar[// a // b
10 ]
f32a  `
` ,  repeat
    f64
rootA
    `line1
line2`
, // packet A { u8 x, }
match string_
    as
    o { 65535 : // a // b
options1 ,
// a // b
// " ++ [128512]%N ++ runes_of_ascii " emoji
""// no comment"": packetx ""\" ++ [233]%N ++ runes_of_ascii """
// c
//x
: lengthOf, 65535 :
BodyLength ,
""packet"":
a1
, }
    , @tag(
4294967296) @tag( 7
    )@rightPad (	'\x00'
    )
    repeat uint64 i8i8 , char[
    42 ]string_
`// not a comment` , } MetaData pack
    {x o
    `two words` , x As,uint64 BodyLength
    `// not a comment`,x a1`` , T
int
`it's` ,
} MetaData falsey
// a // b
// 50% %s
{ Header BodyLength `` , }root packet trueish {i16 // @lengthOf(
trueish	@calculatedFrom( ""`tick`"")`line1
line2`
, f64 As ,string T	@lengthOf(
    pack )	`100% of %d` , @lengthOf(
    matchKey )repeat // " ++ [128512]%N ++ runes_of_ascii " emoji
char[ 00 ]
    lengthOf
// packet A { u8 x, }
// c
`line1
line2` , zchar[ 3 ]_x @calculatedFrom(
""`tick`"" )
    // " ++ [128512]%N ++ runes_of_ascii " emoji
    ,
// " ++ [27880; 37322]%N ++ runes_of_ascii "
// trailing space 
@tag( 00) //	t
zchar[4294967296
]  msg_type , repeat body,
Logon , @tag( 1
    ) @calculatedFrom( ""packet"")
zchar[ 3 ] Z9_ , }
")).
Eval vm_compute in ("<<<M103>>>" ++ check (runes_of_ascii "packet x { }
options
/// triple
// c
{ Packet =string Packet =
    // a // b
    ' 'zchar = false ;
matchKey
    =
    false }	packet
f32a
// packet A { u8 x, }
// " ++ [128512]%N ++ runes_of_ascii " emoji
{ int64 options1@calculatedFrom(
    ""packet"" ) `// not a comment` ,
Z9_ { charz	{ match	BodyLength	as trueish{ ""\" ++ [233]%N ++ runes_of_ascii """ :
    charz , 65535: roots,
    [
4294967296 //x
, ""a\""b""
    // @lengthOf(
    , ""abc"" ]:
    f32a ,	""\" ++ [233]%N ++ runes_of_ascii """	:
//x
// " ++ [128512]%N ++ runes_of_ascii " emoji
int
    // packet A { u8 x, }
    ""x y"" //
: u8x }, repeat int8 u , repeat	_x	{ msg_type `100% of %d` ,
    metadata
`crlf
line`  ,
f32
roots  , char[]f32a @lengthOf( Pad )
,// c
}
,
} ,
    },match
    T
as  calculatedFrom {
[0,""" ++ [128512]%N ++ runes_of_ascii """ ]
:// @lengthOf(
Pad// packet A { u8 x, }
[""""  , ""x y""
    , """ ++ [233]%N ++ runes_of_ascii "t" ++ [233]%N ++ runes_of_ascii """ , ""a\""b""
    , 4294967296 , """ ++ [28040; 24687]%N ++ runes_of_ascii """  ]:o
[ 42
    ]//
: float , }
,  match zchar as _x	{
    ""`tick`""
    // " ++ [27880; 37322]%N ++ runes_of_ascii "
    : packetx , },
    // 50% %s
    repeat
// c
// `tick` ""quote"" 'q'
As
    // " ++ [27880; 37322]%N ++ runes_of_ascii "
    { int @lengthOf( msg_type	)
    , i64 roots`line1
line2`
    // `tick` ""quote"" 'q'
    , // c
repeat u16 Packet `" ++ [233]%N ++ runes_of_ascii "`
, f64 charz	, } , int32	i8i8 `say ""hi""` ,
}")).
Eval vm_compute in ("<<<M92>>>" ++ check (runes_of_ascii "packet As
{i32 x_y_z
, match
    /// triple
    As  as leftPad{
    ""// no comment"" :// 50% %s
repeatCount ,// 50% %s
[ 3,
    3
    ,
    """ ++ [233]%N ++ runes_of_ascii "t" ++ [233]%N ++ runes_of_ascii """ ]: charz
,
""// no comment"" : f32a 10 :u,} , uint64 len
    //
    , x
    , @lengthOf(float /// triple
)	repeat i8i8 { repeat pack,
    float32
Packet,
repeat T Z9_ ,// trailing space 
i8i8 ,
}
, char
rootA
,
    // c
    float , _x // " ++ [128512]%N ++ runes_of_ascii " emoji
@calculatedFrom( ""x y"") , }
MetaData//
Z9_	{u8x //x
BodyLength, uint32
x //	t
, a1 Header ,  calculatedFrom Pad`a\` //
, char  falsey`it's`, rootA Foo ,
    } root packet repeatCount {@leftPad  ( ' ')
zchar `{ , }` ,
@tag(42 )
match tag as Logon { 007 : float ,
[1
    ] : Packet ,  [
// `tick` ""quote"" 'q'
// packet A { u8 x, }
0 ] :
    repeatCount
, [  ""a	b""	, 10 ,""packet""	] : o
    },
    f32a`100% of %d` ,// @lengthOf(
@calculatedFrom(// c
""\n"" ) @lengthOf(
    body) repeat
    char[] calculatedFrom ``// " ++ [128512]%N ++ runes_of_ascii " emoji
,	pack,
}
")).
Eval vm_compute in ("<<<M1395>>>" ++ check (runes_of_ascii "// top
options // c0
{
    // c1
LittleEndian // c2a
  // c2b
= true // c4a
  // c4b
; // c5a
  // c5b
} packet Sub { u8
    // c10
a
    // c11
, @calculatedFrom( ""CRC16"" // c14a
  // c14b
)
    // c15
uint64
    // c16
SubSum , // c18
} root // c20
packet
    // c21
Frame
    // c22
{ // c23
u16 MsgType // c25
, // c26a
  // c26b
u16 // c27a
  // c27b
BodyLen
    // c28
@lengthOf(
    // c29
Body // c30a
  // c30b
)
    // c31
,
    // c32
Sub // c33
Body // c34a
  // c34b
, // c35a
  // c35b
string // c36a
  // c36b
note // c37a
  // c37b
, // c38a
  // c38b
@calculatedFrom( // c39a
  // c39b
""CRC16"" // c40a
  // c40b
) // c41
uint64 // c42a
  // c42b
Checksum // c43a
  // c43b
,
    // c44
u8 // c45a
  // c45b
tail // c46a
  // c46b
, // c47a
  // c47b
}
    // c48
")).
Eval vm_compute in ("<<<M1388>>>" ++ check (runes_of_ascii "options {
    LittleEndian = true;
    StringPrefixLenType = u32;
    ArrayPrefixLenType = u8;
}
packet Heartbeat {
    string msgKind,
}
packet Logon {
    repeat Heartbeat,
    repeat string Px,
    uint8 Tail,
    char[] f1,
}
packet Cancel {
    zchar[4] OrderId,
    Logon,
    repeat InMsgkind98 {
        repeat u8 tag7,
        repeat InFlags69 {
            char[] Note,
            char[] lastPx,
            char[11] Ref,
            Logon,
        },
        repeat Heartbeat,
    },
    zchar[7] Px,
    u32 seqNo,
}
root packet Reject {
    i16 tag7,
    char[3] Qty,
    InRef42 {
        u8 pad0,
    },
    uint32 f1,
    zchar[7] OrderId,
    zchar[8] x,
}
")).
Eval vm_compute in ("<<<M149>>>" ++ check (runes_of_ascii "options { stringy  =zchar[
0123456789] }
    MetaData// trailing space 
charz{ zchar[
42 ] calculatedFrom	,
    // `tick` ""quote"" 'q'
    char[ 65535 ] // " ++ [27880; 37322]%N ++ runes_of_ascii "
trueish
    , float64 // c
roots
    `doc`
,}
    packet// c
calculatedFrom // a // b
{ @calculatedFrom( """ ++ [128512]%N ++ runes_of_ascii """ )string crc `crlf
line` , MetaDataX { Packet
@lengthOf( // c
packetx )`{ , }`, // trailing space 
repeat trueish As
    , } ,int64 T,// `tick` ""quote"" 'q'
match uint8x// trailing space 
as i64_ {
00 :
_x ,
    65535 :Z9_, ""1"" : u8x
// c
// " ++ [27880; 37322]%N ++ runes_of_ascii "
, 007 : Z9_	, /// triple
255
:matchKey ""1"": crc , } ,// " ++ [128512]%N ++ runes_of_ascii " emoji
} // @lengthOf(")).
Eval vm_compute in ("<<<M316>>>" ++ check (runes_of_ascii "options
{ metadata= 10 ;  x= u16// `tick` ""quote"" 'q'
; matchKey
    =0
;	}
packet MetaDataX	{ i8 u8x `a\`//x
, u64// 50% %s
matchKey
@lengthOf( T ) ,
    // " ++ [128512]%N ++ runes_of_ascii " emoji
    char[ 1 // a // b
]
Z9_ ,
    zchar[
    7	] MetaDataX @lengthOf(calculatedFrom)	,
    // @lengthOf(
    @tag( 10 )
    repeatCount,string MetaDataX
    // trailing space 
    @calculatedFrom(/// triple
""CRC32""
) `tab	here`
// " ++ [27880; 37322]%N ++ runes_of_ascii "
/// triple
, u8
A @lengthOf( charz
) , }
packet
    // packet A { u8 x, }
    Pad{@leftPad (  ) repeat
    body
charz , }
//x
")).
Eval vm_compute in ("<<<M2>>>" ++ check (runes_of_ascii "packet Logon { @lengthOf( leftPad )repeat calculatedFrom { match
x_y_z
as Z9_ {
7 : MetaDataX [
    /// triple
    ""a\""b"" , 42 ]:uint8x, 00 :
// a // b
//	t
stringy , // packet A { u8 x, }
0
    : leftPad,
65535
    : tag ,
    [ 4294967296 , ""packet""// `tick` ""quote"" 'q'
, 1,0123456789 , 1
,""{,}"" , 42
    ,""abc""] :
uint8x ,
}
    , string
    rootA `two words` // " ++ [27880; 37322]%N ++ runes_of_ascii "
,  uint32 A ,char[0 ] T , }
    ,  @tag(007 )
    repeat zchar[ 7] f32a//
`
` , @lengthOf(T)float32 stringy `two words`, }")).
Eval vm_compute in ("<<<M58>>>" ++ check (runes_of_ascii "packet o { zchar[ 7 ] /// triple
f32a@calculatedFrom( ""a\""b"")	, @lengthOf( pack
)
    options1 ,@calculatedFrom(""abc""
)
    Header , @lengthOf( Logon )zchar[4294967296
    ] asx // packet A { u8 x, }
@lengthOf(
// a // b
// packet A { u8 x, }
u )
`100% of %d`	, @leftPad (' ' // trailing space 
)	@calculatedFrom( ""`tick`"" )
uint16 x_y_z`doc` , @tag( 00 )zchar[ //	t
1 ] // c
u,@calculatedFrom(""a\""b"" ) //
u8x uint8x,
char[1 ]
metadata , }
")).
Eval vm_compute in ("<<<M1387>>>" ++ check (runes_of_ascii "options {
    LittleEndian = false;
    StringPrefixLenType = u16;
    FixedStringPadFromLeft = true;
    FixedStringPadChar = '0';
}
packet Fill {
}
root packet Order {
    repeat Fill,
    char[] clOrdID,
    @rightPad('\x00') char[4] lastPx,
    char[] OrderId,
    int8 tag7,
    u8 f1,
    u16 count @lengthOf(Body),
    match f1 as Body {
        [159, 49] : Fill,
    },
    u16 Tail @calculatedFrom(""CR\
C32""),
}
")).
Eval vm_compute in ("<<<M226>>>" ++ check (runes_of_ascii "packet Foo  {
    char
pack@calculatedFrom(""CRC32"") `crlf
line` // " ++ [128512]%N ++ runes_of_ascii " emoji
,
@leftPad (
    )
    Logon
, } options
{ tag  = ' '  msg_type // " ++ [128512]%N ++ runes_of_ascii " emoji
=  ""// no comment"" ; x_y_z
=//x
int32 calculatedFrom =// `tick` ""quote"" 'q'
string
; u128= char[]
} packet BodyLength { char[]
body @calculatedFrom(
""" ++ [233]%N ++ runes_of_ascii "t" ++ [233]%N ++ runes_of_ascii """
    // " ++ [128512]%N ++ runes_of_ascii " emoji
    )
    ,	uint16 MetaDataX @calculatedFrom(
""a	b"" )  ,}
")).
Eval vm_compute in ("<<<M1363>>>" ++ check (runes_of_ascii "options {
    LittleEndian = true;
    StringPrefixLenType = u32;
    ArrayPrefixLenType = u64;
}
packet Logon {
    string OrderId,
    uint32 lastPx,
    repeat char[6] Side2,
    i64 Tail,
    repeat i8 f1,
}
packet Party {
}
packet Quote {
    repeat char[6] clOrdID,
    repeat Logon,
}
root packet Order {
    zchar[5] Acct,
    repeat f64 price,
}
")).
Eval vm_compute in ("<<<M1902>>>" ++ check (runes_of_ascii "packet A
	{
	u8  a, }
packet B 
{

u16
    b
,

}  packet C

{

u32

c 
, 
}
root 
packet
M 
{
    u16

Kc
	, u16
    Kb 
,
	u16	Ka, match

    Kc

    as
    X  {
	9:
A
,

    10:
B  ,
	} ,
match Kb

    as Y	{ 
2 :C

,
1
:	A  , }	,
    match
Ka as 
Z
	{  1:
    B

, },  A

,

    B

    ,	C, } ")).
Eval vm_compute in ("<<<M1399>>>" ++ check (runes_of_ascii "  options

    {LittleEndian =

    true	;  }packet
	Sub  {u8 a
	, u16  SubSum @calculatedFrom(
	""CRC16"" ) ,

    }
	root

packet
    Frame {u16
MsgType,u16 BodyLen	@lengthOf(Body ) ,
    Sub Body ,
string
note , 
u16 Checksum

    @calculatedFrom( ""CRC16"" )
,u8  tail,
	}
")).
Eval vm_compute in ("<<<M55>>>" ++ check (runes_of_ascii "MetaData // @lengthOf(
calculatedFrom { /// triple
matchKey packetx
    , float32 u128 ,// `tick` ""quote"" 'q'
}
    MetaData uint8x { //	t
zchar[ 65535
]As
    `` ,char[ 255] T
`doc` ,zchar[// " ++ [128512]%N ++ runes_of_ascii " emoji
255] int  , float64 i64_ //
`tab	here` ,char[]  len , }
")).
Eval vm_compute in ("<<<M474>>>" ++ check (runes_of_ascii "packet
    asx { @calculatedFrom(
""""  ) @tag( 255 )repeat
// packet A { u8 x, }
// trailing space 
int16 u8x
,
@tag(
    //
    007 )
    @tag( uint32
    /// triple
    ) @tag( 1) u
    @lengthOf( T ),
// `tick` ""quote"" 'q'
//x
} // " ++ [128512]%N ++ runes_of_ascii " emoji")).
Eval vm_compute in ("<<<M423>>>" ++ check (runes_of_ascii "packet
    asx { @calculatedFrom(
""""  ) @tag( ) 255 repeat
// packet A { u8 x, }
// trailing space 
int16 u8x
,
@tag(
    //
    007 )
    @tag( 0
    /// triple
    ) @tag( 1) u
    @lengthOf( T ),
// `tick` ""quote"" 'q'
//x
} // " ++ [128512]%N ++ runes_of_ascii " emoji")).
Eval vm_compute in ("<<<M464>>>" ++ check (runes_of_ascii "packet
    asx { @calculatedFrom(
""""  ) @tag( 255 )repeat
// packet A { u8 x, }
// trailing space 
int16 u8x
,
@tag(
    //
    007 [
    @tag( 0
    /// triple
    ) @tag( 1) u
    @lengthOf( T ),
// `tick` ""quote"" 'q'
//x
} // " ++ [128512]%N ++ runes_of_ascii " emoji")).
Eval vm_compute in ("<<<M516>>>" ++ check (runes_of_ascii "packet
    asx { @calculatedFrom(
""""  ) @tag( 255 )repeat
// packet A { u8 x, }
// trailing space 
int16 u8x
,
@tag(
    //
    007 )
    @tag( 0
    /// triple
    ) @tag( 1) u
    @lengthOf( T )
// `tick` ""quote"" 'q'
//x
} // " ++ [128512]%N ++ runes_of_ascii " emoji")).
Eval vm_compute in ("<<<M321>>>" ++ check (runes_of_ascii "packet //x
roots {
    @rightPad
    (	'\x00') @lengthOf(  calculatedFrom
)	asx
zchar	,char[255] charz // " ++ [27880; 37322]%N ++ runes_of_ascii "
`" ++ [233]%N ++ runes_of_ascii "`
//	t
// 50% %s
, @tag(	1 )
repeat MetaDataX, repeat
zchar[ 0] BodyLength  `a\`
, } MetaData string_ { } 	 ")).
Eval vm_compute in ("<<<M524>>>" ++ check (runes_of_ascii "packet
    asx { @calculatedFrom(
""""  ) @tag( 255 )repeat
// packet A { u8 x, }
// trailing space 
int16 u8x
,
@tag(
    //
    007 )
    @tag( 0
    /// triple
    ) @tag( 1) u
    @lengthOf( T ),")).
Eval vm_compute in ("<<<M1659>>>" ++ check (runes_of_ascii "packet u8x {
    char[] f32a @lengthOf(Foo) `100% of %d`,
    repeat i8i8 {
        A f32a,
        x `say ""hi""`,
        // @lengthOf(
        repeat body rootA `
        `,
    },
}")).
Eval vm_compute in ("<<<M564>>>" ++ check (runes_of_ascii "MetaData u
    { @rightPad MetaData o
{ float uint8x
`100% of %d` ,repeatCount u8x, string_ leftPad
, i32
    Foo , int64 x `two words` , calculatedFrom
stringy `a\` ,
}
")).
Eval vm_compute in ("<<<M708>>>" ++ check (runes_of_ascii "MetaData u
    { } MetaData o
{ float uint8x
`100% of %d` ,repeatCount u8x, string_ leftPad
, i32
    Foo , int64 " ++ [252]%N ++ runes_of_ascii "ber `two words` , calculatedFrom
stringy `a\` ,
}
")).
Eval vm_compute in ("<<<M704>>>" ++ check (runes_of_ascii "MetaData u
    { } MetaData o
{ float uint8x
`100% of %d` ,repeatCount u8x, string_ leftPad
, i32
    " ++ [8232]%N ++ runes_of_ascii "Foo , int64 x `two words` , calculatedFrom
stringy `a\` ,
}
")).
Eval vm_compute in ("<<<M653>>>" ++ check (runes_of_ascii "MetaData u
    { } MetaData o
{ float uint8x
`100% of %d` ,repeatCount u8x, string_ leftPad
, i32
    Foo , int64 `two words` x , calculatedFrom
stringy `a\` ,
}
")).
Eval vm_compute in ("<<<M606>>>" ++ check (runes_of_ascii "MetaData u
    { } MetaData o
{ float uint8x
`100% of %d` ,repeatCount , string_ leftPad
, i32
    Foo , int64 x `two words` , calculatedFrom
stringy `a\` ,
}
")).
Eval vm_compute in ("<<<M604>>>" ++ check (runes_of_ascii "MetaData u
    { } MetaData o
{ float uint8x
`100% of %d` ,u64 u8x, string_ leftPad
, i32
    Foo , int64 x `two words` , calculatedFrom
stringy `a\` ,
}
")).
Eval vm_compute in ("<<<M1584>>>" ++ check (runes_of_ascii "packet A {
    Inner {
        u8 x `tab
                	x`,
        Deep {
            u8 y `tab
                        	x`,
        },
    },
}")).
Eval vm_compute in ("<<<M1498>>>" ++ check (runes_of_ascii "
packet A	{ match
k	as

n
{
[
    ""a""
,
""bb""

, 007

    , ""d""  ,
	""e"" ,

66
, ""g"", ""h""	,

9
	,	""j"",

""k""  , 12]	:	B 2	:C 
}

,  } ")).
Eval vm_compute in ("<<<M1708>>>" ++ check (runes_of_ascii "options {
}

options {
    MetaDataX = char;
}

MetaData Pad {
    i8 metadata,
    string stringy,
    int8 As `{ , }`,
    // c
}")).
Eval vm_compute in ("<<<M1450>>>" ++ check (runes_of_ascii "packet A {
    Inner {
        u8 x `a
        b`,
        Deep {
            u8 y `a
            b`,
        },
    },
}")).
Eval vm_compute in ("<<<M1203>>>" ++ check (runes_of_ascii "options // c
{ } options { MetaDataX = char ; } MetaData Pad { i8 metadata , string stringy , int8 As `{ , }` , }")).
Eval vm_compute in ("<<<M1235>>>" ++ check (runes_of_ascii "options { } options { MetaDataX = char ; } MetaData Pad { i8 metadata , string // c
stringy , int8 As `{ , }` , }")).
Eval vm_compute in ("<<<M650>>>" ++ check (runes_of_ascii "MetaData u
    { } MetaData o
{ float uint8x
`100% of %d` ,repeatCount u8x, string_ leftPad
, i32
    Foo ,")).
Eval vm_compute in ("<<<M924>>>" ++ check (runes_of_ascii "packet A {
    Inner {
        u8 x `a
b`,
        Deep {
            u8 y `a
b`,
        },
    },
}")).
Eval vm_compute in ("<<<M62>>>" ++ check (runes_of_ascii "
options
    { calculatedFrom
    =  int8 ;
metadata
=string ; Logon =
    int8 //
Foo = 42 ; }
")).
Eval vm_compute in ("<<<M860>>>" ++ check (runes_of_ascii "packet A {
  match k as n {
    [""a"", ""bb"", 007, ""d"", ""e"", 66, ""g"", ""h""] : B,
    2 : C
  },
}")).
Eval vm_compute in ("<<<M871>>>" ++ check (runes_of_ascii "packet A {
  match k as n {
    [1, 22, ""c c"", 4, 5, ""f"", 7, 8, ""i""] : B,
    2 : C
  },
}")).
Eval vm_compute in ("<<<M858>>>" ++ check (runes_of_ascii "packet A {
  match k as n {
    [1, 22, ""c c"", 4, 5, ""f"", 7, 8] : B,
    2 : C
  },
}")).
Eval vm_compute in ("<<<M845>>>" ++ check (runes_of_ascii "packet A {
  match k as n {
    [1, 22, ""c c"", 4, 5, ""f"", 7] : B,
    2 : C
  },
}")).
Eval vm_compute in ("<<<M833>>>" ++ check (runes_of_ascii "packet A {
  match k as n {
    [1, 22, ""c c"", 4, 5, ""f""] : B
    2 : C
  },
}")).
Eval vm_compute in ("<<<M1260>>>" ++ check (runes_of_ascii "packet Inner {
    u8 a,
}
root packet P {
    Inner ref_obj,
    u8 x,
}
")).
Eval vm_compute in ("<<<M807>>>" ++ check (runes_of_ascii "packet A {
  match k as n {
    [1, 22, ""c c"", 4] : B
    2 : C
  },
}")).
Eval vm_compute in ("<<<M1686>>>" ++ check (runes_of_ascii "root packet P {
    u16 a,
    u32 Sum @calculatedFrom(""CRC32""),
}")).
Eval vm_compute in ("<<<M777>>>" ++ check (runes_of_ascii "packet A {
  match k as n {
    [1, 22] : B
    2 : C
  },
}")).
Eval vm_compute in ("<<<M1557>>>" ++ check (runes_of_ascii "
// `tick` ""quote"" 'q'
		options	{f32a
    = uint16
	}
")).
Eval vm_compute in ("<<<M979>>>" ++ check (runes_of_ascii "MetaData M {
    u8 x `%%d%!`,
    T t `%%d%!`,
}")).
Eval vm_compute in ("<<<M949>>>" ++ check (runes_of_ascii "MetaData M {
    u8 x `x
`,
    T t `x
`,
}")).
Eval vm_compute in ("<<<M155>>>" ++ check (runes_of_ascii "options {stringy =
i64 ; float = '0' }")).
Eval vm_compute in ("<<<M1186>>>" ++ check (runes_of_ascii "options {
// c
A = ""// no comment"" }")).
Eval vm_compute in ("<<<M1978>>>" ++ check (runes_of_ascii "packet A {
    u8 x `
        `,
}")).
Eval vm_compute in ("<<<M974>>>" ++ check (runes_of_ascii "root packet A {
    u8 x `%`,
}")).
Eval vm_compute in ("<<<M183>>>" ++ check (runes_of_ascii "  packet len { repeat A , }
")).
Eval vm_compute in ("<<<M324>>>" ++ check (runes_of_ascii "packet
BodyLength { }

")).
Eval vm_compute in ("<<<M1741>>>" ++ check (runes_of_ascii "// c" ++ [8192]%N ++ runes_of_ascii "
  packet 
A{ }
")).
Eval vm_compute in ("<<<M1011>>>" ++ check (runes_of_ascii "// c" ++ [133]%N ++ runes_of_ascii "
packet A {
}")).
Eval vm_compute in ("<<<M1484>>>" ++ check (runes_of_ascii "root packet a1 {
}")).
Eval vm_compute in ("<<<M299>>>" ++ check (runes_of_ascii "packet	zchar	{}
")).
Eval vm_compute in ("<<<M1684>>>" ++ check (runes_of_ascii "// c" ++ [133]%N ++ runes_of_ascii "
 
")).
Eval vm_compute in ("<<<M1849>>>" ++ check (runes_of_ascii "//
")).
