From FP Require Import Lexer Parser ShowPT Digest Formatter.
From Coq Require Import String List NArith.
Import ListNotations.
Open Scope string_scope.
Set Printing Width 100000000.
Set Printing Depth 100000000.
Definition show_fres (r : fres) : string :=
  match r with
  | FOk s => "OK:" ++ sh_escaped s ""
  | FErr s => "ERR:" ++ sh_escaped s ""
  | FPanic p => "PANIC:" ++ p
  end.
Definition check (rs : list rune) : string := digest (show_fres (format_res rs)).
Definition full (rs : list rune) : string := show_fres (format_res rs).
Eval vm_compute in ("<<<M165>>>" ++ check (runes_of_ascii "packet falsey { char[7
    ]
Foo @calculatedFrom( ""CRC32"" ) , @tag(
    //
    10)	u8 Packet`" ++ [233]%N ++ runes_of_ascii "` ,repeat  stringy
,
@lengthOf( // a // b
float)tag { repeat
    u8x {
int16 charz@lengthOf(trueish ) , //	t
repeat  string calculatedFrom,
charz @calculatedFrom(  ""a\""b""
)	`line1
line2`
,
},u64
    MetaDataX @calculatedFrom( """ ++ [128512]%N ++ runes_of_ascii """
    ) `" ++ [233]%N ++ runes_of_ascii "`
    ,rootA
    // packet A { u8 x, }
    {
    repeat	u64 BodyLength
`" ++ [233]%N ++ runes_of_ascii "` , pack @calculatedFrom( //x
""{,}"" )
    `" ++ [28040; 24687; 31867; 22411]%N ++ runes_of_ascii "` ,repeat // c
x charz,
},
    // a // b
    char[] packetx, }	, // `tick` ""quote"" 'q'
calculatedFrom , u x_y_z
,repeat	int	i64_ ,@leftPad (
    ' '
)u32 T @calculatedFrom( ""{,}"" )
, repeat
    metadata , } root packet
chars
{ char[	65535
]  pack @lengthOf( As ) `tab	here` , char[
255] msg_type `// not a comment`
    ,@calculatedFrom(
    ""// no comment"" ) @tag( //	t
0 ) @tag(10 ) repeat Header {
    char[]
// @lengthOf(
// " ++ [27880; 37322]%N ++ runes_of_ascii "
i64_,repeat T//x
`` ,match uint8x	as i64_ {
00// `tick` ""quote"" 'q'
: _x ,	65535: //
Z9_,
""1""
: u8x ,
007 : Z9_
, 255
:
matchKey
""1"" :
crc , } , } ,
    @calculatedFrom(	""packet""	) match int as x_y_z{ 0123456789 :	Logon
    // @lengthOf(
    ,
    //	t
    [ 0123456789, ""it's"" ]
:
int
    , [""a	b"" , ""CRC32"" , 0, 4294967296 , """"	] :
pack , 0 : u , } , match // @lengthOf(
string_ as
int
{ 0: repeatCount [ ""abc""
    ] : // " ++ [27880; 37322]%N ++ runes_of_ascii "
float 007: msg_type , [
    ""a\""b""	]:
charz , } , i16 MetaDataX`say ""hi""`, repeat u `tab	here` , repeat falsey  { repeat i8 lengthOf `a\` ,
    repeatCount@lengthOf( o)
    `{ , }`,}, }packet rootA
    { calculatedFrom//	t
@calculatedFrom( ""x y"") ,
char Pad @calculatedFrom( ""a\""b"" ) `" ++ [233]%N ++ runes_of_ascii "`
    , @leftPad
( '\x00' )	repeat float64 tag ,
    // " ++ [27880; 37322]%N ++ runes_of_ascii "
    @calculatedFrom( ""1"") repeat Foo ,  } // " ++ [27880; 37322]%N)).
Eval vm_compute in ("<<<M1330>>>" ++ check (runes_of_ascii "// top
packet // c0a
  // c0b
Frame // c1a
  // c1b
{ // c2a
  // c2b
u8 // c3
HK // c4
,
    // c5
u8
    // c6
BK // c7
, // c8a
  // c8b
u8 // c9
TK // c10
, // c11a
  // c11b
match // c12
HK as Hdr // c15a
  // c15b
{ // c16
1
    // c17
:
    // c18
HdrA , 2 // c21
:
    // c22
HdrB // c23
, // c24a
  // c24b
} ,
    // c26
match
    // c27
BK as
    // c29
Body // c30
{
    // c31
1 : // c33a
  // c33b
BodyA // c34
,
    // c35
2 :
    // c37
BodyB , } // c40a
  // c40b
, // c41
match // c42
TK
    // c43
as // c44
Trl // c45a
  // c45b
{ // c46a
  // c46b
1
    // c47
: // c48
TrlA , // c50a
  // c50b
} // c51a
  // c51b
, // c52a
  // c52b
} // c53a
  // c53b
packet HdrA // c55
{ u8 // c57
a // c58a
  // c58b
, // c59
} // c60
packet // c61a
  // c61b
HdrB
    // c62
{ // c63a
  // c63b
u16
    // c64
b // c65
, // c66
} // c67
packet // c68
BodyA { // c70a
  // c70b
u32
    // c71
c // c72
, } // c74
packet
    // c75
BodyB {
    // c77
u64 // c78a
  // c78b
d // c79
, // c80a
  // c80b
} // c81a
  // c81b
packet TrlA // c83a
  // c83b
{
    // c84
u8 e // c86
,
    // c87
} // c88a
  // c88b
root // c89a
  // c89b
packet
    // c90
Msg
    // c91
{ Frame , // c94a
  // c94b
u8 // c95a
  // c95b
x // c96a
  // c96b
, // c97a
  // c97b
}
    // c98
")).
Eval vm_compute in ("<<<M1881>>>" ++ check (runes_of_ascii "root
    packet u 
{ 
match  //x

  T

as body	// c
  {	[
""a\""b"", 3

    ]
:

    stringy ""a	b""
	:
	charz // a // b
, 10	:

    lengthOf 	 // " ++ [128512]%N ++ runes_of_ascii " emoji
  	, 
""CRC32""
:	falsey
,0123456789
	:	_x ,

    }

,
	body
    @lengthOf( i64_ ) ,

    u64
	chars
`u8 x,`  , T

{  i64_

    string_
    , 
u32
    metadata

,
zchar[

    1
	] Z9_	, }

    // c
,

    @calculatedFrom(
""a\\"" 
)
rootA 	 // " ++ [128512]%N ++ runes_of_ascii " emoji
	x_y_z	`u8 x,`

,

    zchar[ 007 ] body @calculatedFrom(

    ""\n""
)
,
@leftPad
	(
    '0' )
@rightPad('0'
    )	@calculatedFrom(
""" ++ [233]%N ++ runes_of_ascii "t" ++ [233]%N ++ runes_of_ascii """ )repeat
uint64 
A ,
repeat u8x	{
match o
as

x

    {10  :

charz 

// " ++ [27880; 37322]%N ++ runes_of_ascii "
	// " ++ [27880; 37322]%N ++ runes_of_ascii "
  ,

""a	b"":matchKey

    , ""x y""
:trueish
,

    [
""" ++ [233]%N ++ runes_of_ascii "t" ++ [233]%N ++ runes_of_ascii """

]:

    zchar
	,
""1""

:  charz	// " ++ [27880; 37322]%N ++ runes_of_ascii "

, 
[	""a\""b""
, ""abc""	,""a\\""
,  ""abc"",
    // packet A { u8 x, }
  // " ++ [128512]%N ++ runes_of_ascii " emoji
"""" 

// packet A { u8 x, }
  /// triple
  ]
    : u8x, }

, }	,repeat falsey
{
	rootA

tag 
, zchar[  /// triple
  0
    ]  falsey
,} ,
charz  a1

    `{ , }`

, }
root

packet/// triple
		Header	{}
")).
Eval vm_compute in ("<<<M13>>>" ++ check (runes_of_ascii "root
    packet	roots{ // `tick` ""quote"" 'q'
} options	{	asx =
    ""\n"" ; x_y_z =
3 ;rootA = ""CRC32""
    ;float=char  T = false
; }
packet falsey {
body { match u8x as /// triple
string_{ [
42,7 ,65535
    ,
    3 ,
    42 ,7 , ""1""
    , ""packet"" ]:
    // `tick` ""quote"" 'q'
    i64_ , [ ""abc""]
    :  Foo ,	""a\\""
    :
roots ,
    4294967296 :	stringy	}
    , //x
asx
`{ , }` // " ++ [128512]%N ++ runes_of_ascii " emoji
, i8
charz@lengthOf( // trailing space 
x_y_z)// trailing space 
`a\` ,}
    // @lengthOf(
    , @tag( 65535 ) i64_ @lengthOf( tag )`u8 x,`
// a // b
//	t
,Z9_@lengthOf( int )
, @calculatedFrom( ""a\""b""
)uint16  stringy @lengthOf( trueish ) , Logon	{string  Logon `say ""hi""` , packetx
i64_ , match msg_type as	float
{ ""\n"" : i64_,	[
""" ++ [128512]%N ++ runes_of_ascii """
    ]
:
metadata , // `tick` ""quote"" 'q'
[
// trailing space 
// " ++ [128512]%N ++ runes_of_ascii " emoji
10, ""1""  ]
:zchar ,
}
    , //x
}
    //x
    , Packet
    @calculatedFrom(""CRC32"" ), }
")).
Eval vm_compute in ("<<<M298>>>" ++ check (runes_of_ascii "
options  { } options
    {  uint8x =
// @lengthOf(
// " ++ [27880; 37322]%N ++ runes_of_ascii "
42 uint8x = /// triple
""abc"" ; //x
_x='0'
    }
    packet u8x
    { zchar[ 1 ] As
`crlf
line`, match metadata as float  { ""packet"" ://
trueish , } , repeat
rootA
, repeat metadata repeatCount// trailing space 
, @rightPad( // `tick` ""quote"" 'q'
'0') i64 body `// not a comment`
, @tag( 1) string string_
    `line1
line2` ,
uint8 u8x`" ++ [28040; 24687; 31867; 22411]%N ++ runes_of_ascii "` ,
packetx u128,	u tag , repeat Logon zchar
`` ,  }packet zchar
{
    }	packet	MetaDataX { @lengthOf(
Packet ) repeatCount  int
`doc` , @tag(
7 ) packetx @calculatedFrom( ""a\""b""// c
) , match msg_type as x { ""\n"" : calculatedFrom }, //x
@leftPad (// packet A { u8 x, }
'\x00')@lengthOf( MetaDataX // c
)
    // a // b
    char[007
] a1`tab	here`, As
    @calculatedFrom( ""`tick`"") `// not a comment`,} 	 ")).
Eval vm_compute in ("<<<M354>>>" ++ check (runes_of_ascii "options {
} packet u8x{ string uint8x@calculatedFrom(""{,}"" )	`crlf
line`	,} MetaData falsey{
    Logon packetx `tab	here` , } root packet o
{ falsey@calculatedFrom(
//x
// " ++ [27880; 37322]%N ++ runes_of_ascii "
""" ++ [28040; 24687]%N ++ runes_of_ascii """ ) ,	@tag(0123456789) // `tick` ""quote"" 'q'
char[
    // `tick` ""quote"" 'q'
    0123456789
]	u128@calculatedFrom(
""{,}"" ) ,
    @tag(
    00)
@lengthOf( stringy
) @tag( 4294967296
)  rootA Header,  @lengthOf(As
    )
    repeat leftPad `// not a comment`// c
, i8 leftPad @calculatedFrom( """" ) , @tag( 10
) zchar[ 007
] packetx
@lengthOf( // packet A { u8 x, }
u8x )	`" ++ [28040; 24687; 31867; 22411]%N ++ runes_of_ascii "` ,
}packet	options1 {
//	t
// trailing space 
falsey// packet A { u8 x, }
{ //	t
zchar[ 3
    ]// " ++ [128512]%N ++ runes_of_ascii " emoji
roots
//
// a // b
,
    u32 Header // c
,
} ,// a // b
}")).
Eval vm_compute in ("<<<M1122>>>" ++ check (runes_of_ascii "// top
options // c0
{ // c1
uint8x // c2
= // c3
007 // c4
; // c5
lengthOf // c6
= // c7
i8 // c8
; // c9
} // c10
packet // c11
i64_ // c12
{ // c13
@calculatedFrom( // c14
""1"" // c15
) // c16
@tag( // c17
3 // c18
) // c19
@lengthOf( // c20
rootA // c21
) // c22
repeat // c23
int8 // c24
Packet // c25
`u8 x,` // c26
, // c27
} // c28
root // c29
packet // c30
stringy // c31
{ // c32
@rightPad // c33
( // c34
' ' // c35
) // c36
repeat // c37
char[ // c38
10 // c39
] // c40
repeatCount // c41
, // c42
@tag( // c43
255 // c44
) // c45
float64 // c46
msg_type // c47
@calculatedFrom( // c48
""packet"" // c49
) // c50
, // c51
} // c52
")).
Eval vm_compute in ("<<<M1294>>>" ++ check (runes_of_ascii "// top
packet // c0a
  // c0b
A // c1
{
    // c2
u8
    // c3
a // c4a
  // c4b
, } // c6a
  // c6b
packet // c7a
  // c7b
B // c8a
  // c8b
{ u16 // c10
b // c11a
  // c11b
,
    // c12
}
    // c13
root // c14
packet P // c16
{ // c17a
  // c17b
u8 K1 // c19
, // c20
u8 // c21a
  // c21b
K2 // c22a
  // c22b
, // c23a
  // c23b
match // c24a
  // c24b
K1 as
    // c26
M1 // c27a
  // c27b
{ // c28a
  // c28b
1
    // c29
:
    // c30
A // c31
, // c32a
  // c32b
} , match K2
    // c36
as
    // c37
M2 // c38
{ 1 : // c41a
  // c41b
B
    // c42
, } ,
    // c45
} // c46
")).
Eval vm_compute in ("<<<M1300>>>" ++ check (runes_of_ascii "// top
packet // c0
A { u8
    // c3
a , // c5a
  // c5b
} // c6
packet
    // c7
B { // c9a
  // c9b
u16 // c10a
  // c10b
b // c11
, // c12
}
    // c13
root packet // c15a
  // c15b
P { // c17
u8 // c18
K // c19
, // c20
match // c21
K // c22
as // c23
M // c24a
  // c24b
{
    // c25
[ // c26
1
    // c27
,
    // c28
2 // c29a
  // c29b
] // c30a
  // c30b
: // c31a
  // c31b
A // c32a
  // c32b
, 3
    // c34
: // c35
B // c36a
  // c36b
, 7 // c38
: // c39a
  // c39b
A // c40
, // c41
} ,
    // c43
}
    // c44
")).
Eval vm_compute in ("<<<M1764>>>" ++ check (runes_of_ascii "// top
options {
    // c1
    uint8x = 007;
    lengthOf = i8;// c9a
    // c9b
}

packet i64_ {
    // c13
    @calculatedFrom(""1"")
    // c16
    @tag(3)
    // c19
    @lengthOf(rootA)
    // c22
    repeat int8 Packet `u8 x,`,// c27
}// c28a

// c28b
root packet stringy {
    // c32a
    // c32b
    @rightPad(' ')
    // c36
    repeat char[10] repeatCount,// c42
    @tag(255)
    // c45
    float64 msg_type @calculatedFrom(""packet""),// c51a
    // c51b
}// c52")).
Eval vm_compute in ("<<<M14>>>" ++ check (runes_of_ascii "MetaData u128
    {// a // b
string zchar //x
`two words` ,u16 packetx
`a\` , char[ 1 ] Logon	, len crc, char[
7]i8i8,char[]calculatedFrom,
} // @lengthOf(
MetaData u
    { u// " ++ [128512]%N ++ runes_of_ascii " emoji
u128
, //	t
}root packet metadata { }options	{ matchKey =
    255
;
x_y_z
= 007 crc=int16
; zchar =// c
char[42 ]
; int
= true ;
} options  {
Header = """ ++ [128512]%N ++ runes_of_ascii """
;
len
    = ' ' ; matchKey= """" ;MetaDataX =' '
; o
    = '\x00' ; }
/// triple
")).
Eval vm_compute in ("<<<M303>>>" ++ check (runes_of_ascii "  packet
    tag{ } packet
    //
    packetx { @calculatedFrom( ""x y""
    )@tag(
    42 )
@lengthOf(
    As  ) char a1`two words` ,
    @leftPad
(
    '\x00' )
    @tag(10)
@lengthOf( u)
    char[] falsey // " ++ [128512]%N ++ runes_of_ascii " emoji
,
    // " ++ [27880; 37322]%N ++ runes_of_ascii "
    }//
MetaData
f32a {
    string u128 , roots
    stringy , Header body,
    float options1
    //	t
    `it's`
    ,	i8i8 options1
`" ++ [28040; 24687; 31867; 22411]%N ++ runes_of_ascii "`
    ,
}")).
Eval vm_compute in ("<<<M1927>>>" ++ check (runes_of_ascii "
packet	A
{u8

    a ,
    }packet
B

    { u16

b,

}
    packet
    C  {

u32 c ,
    }
root	packet

M { u16
    Kc
,u16 
Kb , u16 Ka ,

    match	Kc
as

    X { 9  : 
A

,

    10
: 
B
	,

    }
,  match 
Kb

    as Y  {
2 :  C 
,

1 :A,}
    , 
match
    Ka 
as
    Z {
	1

    :

    B	,
}

,  A,
B	,

C
, }
")).
Eval vm_compute in ("<<<M1376>>>" ++ check (runes_of_ascii "options {
    LittleEndian = true;
}
packet Logon {
    u8 x,
}
packet Logout {
    u16 reason,
}
root packet Frame {
    u8 Kind,
    u8 Kind2,
    match Kind as Body {
        1 : Logon,
        [2, 3, 4] : Logout,
        100 : Logon,
    },
    match Kind2 as Trailer {
        0 : Logout,
    },
}
")).
Eval vm_compute in ("<<<M1314>>>" ++ check (runes_of_ascii "packet MDSnapshotZZ {
    u8 a,
}
packet OrderACK {
    u16 b,
}
packet HTTPServerInfo {
    string s,
}
root packet FIXMsg {
    u8 KType,
    MDSnapshotZZ,
    repeat OrderACK,
    match KType as Body {
        1 : HTTPServerInfo,
        2 : OrderACK,
    },
}
")).
Eval vm_compute in ("<<<M1313>>>" ++ check (runes_of_ascii "options	{ FixedStringPadChar
=

'0';  }packet
Q
{ zchar[4  ]

z
	, @rightPad  ('\x00'  )

    char[ 
3
]
n , char[
    5 ]  d,
}

    root
packet
R

{

    Q 
, zchar[8 
]top

    ,	repeat zchar[	2
]
	zs

    , 
}")).
Eval vm_compute in ("<<<M1868>>>" ++ check (runes_of_ascii "packet

    Logon
{ string user

    ,
}
root 
packet
	Frame {
u8
K	,	match

K
as
	Body
	{1
: Logon
,
    2  :Logout  ,  }  ,
	Tail , }

packet 
Logout{ 
u16 
reason
,}
packet
Tail

{
	u32 crc
, }
")).
Eval vm_compute in ("<<<M1440>>>" ++ check (runes_of_ascii "packet A {
    match k as n {
        ""\
        "" : B,
        [""\
        "", 1] : C,
        [
            1, 2, 3, 4, 5,
            ""\
            ""
        ] : D,
    },
}")).
Eval vm_compute in ("<<<M1750>>>" ++ check (runes_of_ascii "packet calculatedFrom {
    uint8x {
        body `line1
                line2`,
        string crc @lengthOf(uint8x),
        char[] As @lengthOf(Pad),
    },
}")).
Eval vm_compute in ("<<<M528>>>" ++ check (runes_of_ascii "packet uint8x
{ match pack
    as msg_type	{
    0123456789 :	float
}
,
} packet //	t
a1
    { } options {packetx
    = '\x00'	; u128= ""a	b""  packet }
")).
Eval vm_compute in ("<<<M488>>>" ++ check (runes_of_ascii "packet uint8x
{ match pack
    as msg_type	{
    0123456789 :	float
}
,
} packet //	t
a1
    { } options i8 packetx
    = '\x00'	; u128= ""a	b""  ; }
")).
Eval vm_compute in ("<<<M412>>>" ++ check (runes_of_ascii "packet uint8x
{ match as
    pack msg_type	{
    0123456789 :	float
}
,
} packet //	t
a1
    { } options {packetx
    = '\x00'	; u128= ""a	b""  ; }
")).
Eval vm_compute in ("<<<M400>>>" ++ check (runes_of_ascii "packet uint8x
 match pack
    as msg_type	{
    0123456789 :	float
}
,
} packet //	t
a1
    { } options {packetx
    = '\x00'	; u128= ""a	b""  ; }
")).
Eval vm_compute in ("<<<M1464>>>" ++ check (runes_of_ascii "
MetaData 
leftPad { chars 
MetaDataX  ,
	} 
packet
repeatCount

    { char[ 255 ] 

    // c
    uint8x
	`" ++ [233]%N ++ runes_of_ascii "`  ,
} MetaData pack
	{As Foo ,
    }")).
Eval vm_compute in ("<<<M500>>>" ++ check (runes_of_ascii "packet uint8x
{ match pack
    as msg_type	{
    0123456789 :	float
}
,
} packet //	t
a1
    { } options {packetx
    = 	; u128= ""a	b""  ; }
")).
Eval vm_compute in ("<<<M420>>>" ++ check (runes_of_ascii "packet uint8x
{ match pack
    as 	{
    0123456789 :	float
}
,
} packet //	t
a1
    { } options {packetx
    = '\x00'	; u128= ""a	b""  ; }
")).
Eval vm_compute in ("<<<M658>>>" ++ check (runes_of_ascii "// @lengthOf(
 i8i8 { u128 o , }
options { MetaDataX = true;
    BodyLength =""packet"" x_y_z= 007
crc //x
= ""abc"" ;
    msg_type =
i16 }")).
Eval vm_compute in ("<<<M144>>>" ++ check (runes_of_ascii "  MetaData falsey {o i8i8
,char[]
pack  ,
float32 lengthOf , len //x
BodyLength, BodyLength o
, stringy  u128	`crlf
line` , } 	 ")).
Eval vm_compute in ("<<<M1947>>>" ++ check (runes_of_ascii "
packet
uint8x
	{match  pack
    as 
msg_type {

    0123456789

:
    float

    } ,  }
    packet 	 //	t
    	a1{

}")).
Eval vm_compute in ("<<<M1149>>>" ++ check (runes_of_ascii "MetaData leftPad { chars // c
MetaDataX , } packet repeatCount { char[ 255 ] uint8x `" ++ [233]%N ++ runes_of_ascii "` , } MetaData pack { As Foo , }")).
Eval vm_compute in ("<<<M1181>>>" ++ check (runes_of_ascii "MetaData leftPad { chars MetaDataX , } packet repeatCount { char[ 255 ] uint8x `" ++ [233]%N ++ runes_of_ascii "` , } MetaData pack { // c
As Foo , }")).
Eval vm_compute in ("<<<M1723>>>" ++ check (runes_of_ascii "packet
    A 
{ match

    k  as  n 
{
	[1,	22
, ""c c"" ,4,
    5  ]  :

    B

    ,
2

    :	C }
, }

")).
Eval vm_compute in ("<<<M949>>>" ++ check (runes_of_ascii "packet A {
    u16 len @lengthOf(body) `x
`,
    u32 crc @calculatedFrom(""CRC32"") `x
`,
    string body,
}")).
Eval vm_compute in ("<<<M920>>>" ++ check (runes_of_ascii "packet A {
    Inner {
        u8 x `a
b`,
        Deep {
            u8 y `a
b`,
        },
    },
}")).
Eval vm_compute in ("<<<M1954>>>" ++ check (runes_of_ascii "packet

    A 
{ 
u16 // a

len // b
@lengthOf(// c
  	body  // d

)	// e
	`d`  // f
	  , }
")).
Eval vm_compute in ("<<<M630>>>" ++ check (runes_of_ascii "
packet
    a@tagsx {match u128 as lengthOf
{
//	t
// `tick` ""quote"" 'q'
255 : x ,
    } ,	}")).
Eval vm_compute in ("<<<M870>>>" ++ check (runes_of_ascii "packet A {
  match k as n {
    [1, ""bb"", 007, ""d"", 5, ""f"", 7, ""h"", 9] : B
    2 : C
  },
}")).
Eval vm_compute in ("<<<M849>>>" ++ check (runes_of_ascii "packet A {
  match k as n {
    [""a"", ""bb"", 007, ""d"", ""e"", 66, ""g""] : B,
    2 : C
  },
}")).
Eval vm_compute in ("<<<M771>>>" ++ check (runes_of_ascii "true @tag( root : repeat @calculatedFrom( match f64 int32 ] { zchar[ packet @lengthOf(")).
Eval vm_compute in ("<<<M844>>>" ++ check (runes_of_ascii "packet A {
  match k as n {
    [1, ""bb"", 007, ""d"", 5, ""f"", 7] : B
    2 : C
  },
}")).
Eval vm_compute in ("<<<M972>>>" ++ check (runes_of_ascii "packet A {
    u32 crc @calculatedFrom(""\
""),
    @calculatedFrom(""\
"") u8 y,
}")).
Eval vm_compute in ("<<<M1744>>>" ++ check (runes_of_ascii "  packet
A  {  }

    packet B
{ 
}
MetaData M
    { 
} options
    {
}
")).
Eval vm_compute in ("<<<M1879>>>" ++ check (runes_of_ascii "root
packet

    x {
    roots

@calculatedFrom( ""a\""b"" )
,
    }
")).
Eval vm_compute in ("<<<M924>>>" ++ check (runes_of_ascii "packet A {
    B b `a
b`,
    B `a
b`,
    repeat B bs `a
b`,
}")).
Eval vm_compute in ("<<<M189>>>" ++ check (runes_of_ascii "
packet
i64_ { @tag( 0123456789 ) repeat u16 stringy
,
    }")).
Eval vm_compute in ("<<<M773>>>" ++ check (runes_of_ascii "packet A {
  match k as n {
    [1] : B,
    2 : C
  },
}")).
Eval vm_compute in ("<<<M1220>>>" ++ check (runes_of_ascii "packet body { i32 f32a `{ , }` , } options { }
// c
")).
Eval vm_compute in ("<<<M1432>>>" ++ check (runes_of_ascii "options {
    a = ""x\
    y"";
    b = ""x\
    y""
}")).
Eval vm_compute in ("<<<M284>>>" ++ check (runes_of_ascii "
options{ trueish=
'0' //	t
;a1 = u64
; }")).
Eval vm_compute in ("<<<M1518>>>" ++ check (runes_of_ascii "root packet A {
    u8 x `a
        b`,
}")).
Eval vm_compute in ("<<<M50>>>" ++ check (runes_of_ascii "options {
    Packet =  char[]  }
")).
Eval vm_compute in ("<<<M1943>>>" ++ check (runes_of_ascii "packet A {
    u8 x `d" ++ [8233]%N ++ runes_of_ascii "`,// c" ++ [8233]%N ++ runes_of_ascii "
}")).
Eval vm_compute in ("<<<M1076>>>" ++ check (runes_of_ascii "MetaData M {
}// c
packet A {}")).
Eval vm_compute in ("<<<M1880>>>" ++ check (runes_of_ascii "
// c
  	MetaData	u
{ } ")).
Eval vm_compute in ("<<<M238>>>" ++ check (runes_of_ascii "root packet chars
{}
")).
Eval vm_compute in ("<<<M1041>>>" ++ check (runes_of_ascii "packet A {
}
// c 	")).
Eval vm_compute in ("<<<M1007>>>" ++ check (runes_of_ascii "// c" ++ [8202]%N ++ runes_of_ascii "
packet A {
}")).
Eval vm_compute in ("<<<M974>>>" ++ check (runes_of_ascii "packet A {
}// c ")).
Eval vm_compute in ("<<<M1438>>>" ++ check (runes_of_ascii "packet Logon{	}
")).
Eval vm_compute in ("<<<M732>>>" ++ check (runes_of_ascii "// a
// b
")).
Eval vm_compute in ("<<<M1055>>>" ++ check (runes_of_ascii "// c" ++ [6158]%N)).
