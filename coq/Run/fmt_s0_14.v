From FP Require Import Lexer Parser ShowPT Digest Formatter.
From Coq Require Import String List NArith.
Import ListNotations.
Open Scope string_scope.
Set Printing Width 100000000.
Set Printing Depth 100000000.
Definition show_fres (r : fres) : string :=
  match r with
  | FOk s => "OK:" ++ sh_escaped s ""
  | FErr s => "ERR:" ++ sh_escaped s ""
  | FPanic p => "PANIC:" ++ p
  end.
Definition check (rs : list rune) : string := digest (show_fres (format_res rs)).
Definition full (rs : list rune) : string := show_fres (format_res rs).
Eval vm_compute in ("<<<M1789>>>" ++ check (runes_of_ascii "options {
    MetaDataX = true
}

root packet u8x {
    repeat uint16 u8x `" ++ [28040; 24687; 31867; 22411]%N ++ runes_of_ascii "`,
    @tag(42)
    char[7] trueish @lengthOf(Pad),
    tag @lengthOf(A) `say ""hi""`,
    float rootA,// " ++ [27880; 37322]%N ++ runes_of_ascii "
    Foo,
    repeat uint32 calculatedFrom,
}

root packet u128 {
    repeat Packet metadata,
    repeat zchar[0123456789] len `u8 x,`,
    f32 BodyLength @lengthOf(Z9_) `it's`,
    match crc as Packet {
        0 : i64_,
        [255] : rootA,
        [
            ""a	b"", ""\" ++ [233]%N ++ runes_of_ascii """, ""\" ++ [233]%N ++ runes_of_ascii """,
            0, 4294967296
        ] : i8i8,
    },
    @tag(1)
    @calculatedFrom(""\" ++ [233]%N ++ runes_of_ascii """)
    string f32a @calculatedFrom(""abc""),
    repeat As {
        matchKey {
            crc @calculatedFrom(""// no comment""),
        },
        lengthOf `crlf
                line`,
        // a // b
        // a // b
        T Pad `a\`,
        repeat i8i8 charz,// a // b
    },
}

packet packetx {
    @lengthOf(Packet)
    repeat uint8x `line1
        line2`,
    @tag(0123456789)
    string BodyLength @calculatedFrom(""" ++ [28040; 24687]%N ++ runes_of_ascii """),// trailing space 
    zchar[42] MetaDataX,
    char A @lengthOf(tag) `two words`,
    @tag(10)
    @calculatedFrom(""" ++ [28040; 24687]%N ++ runes_of_ascii """)
    @calculatedFrom(""x y"")
    char[7] repeatCount @calculatedFrom(""// no comment""),
    @calculatedFrom(""it's"")
    char[65535] packetx `// not a comment`,
    @leftPad(' ')
    match tag as packetx {
        00 : int,
    },
    @tag(7)
    @lengthOf(float)
    @tag(0123456789)
    Z9_,
    @tag(00)
    tag {
        uint16 MetaDataX,
        u tag `tab	here`,
        float64 Packet @calculatedFrom(""{,}""),
        x_y_z u128,
    },
    char[] msg_type @lengthOf(calculatedFrom) `line1
        line2`,
}

MetaData float {
    uint32 crc,
    charz msg_type,
    u128 crc,
    string stringy `" ++ [233]%N ++ runes_of_ascii "`,
}")).
Eval vm_compute in ("<<<M156>>>" ++ check (runes_of_ascii "packet
A { @rightPad ( '0' ) repeat	i8i8
    { zchar[ 007 ]
    packetx,
    metadata `" ++ [28040; 24687; 31867; 22411]%N ++ runes_of_ascii "` ,	repeat float64  T ,}, @tag(0)Z9_ { int
@lengthOf( tag
)`line1
line2`
, repeat i8i8 // packet A { u8 x, }
{  zchar[  00 ]stringy
,
repeat f32a{ match i64_ //
as
    string_ {[ 255 , ""{,}"" , 0123456789 ]
: x_y_z
, """ ++ [233]%N ++ runes_of_ascii "t" ++ [233]%N ++ runes_of_ascii """ : A
, ""`tick`"" : len ,} , } ,
    //
    repeat u8x {u16 Z9_
@calculatedFrom(""" ++ [128512]%N ++ runes_of_ascii """ ) `line1
line2` ,f32 matchKey
    ,} ,// " ++ [27880; 37322]%N ++ runes_of_ascii "
float64 u8x `
`,
    },//
} , // `tick` ""quote"" 'q'
a1	{ repeat
    // trailing space 
    zchar[ 007
] Foo `two words`
,f32a	@calculatedFrom( """ ++ [28040; 24687]%N ++ runes_of_ascii """// trailing space 
) ,int64 i64_  @calculatedFrom( // trailing space 
""`tick`"" ) , } ,
    @lengthOf(
    // c
    Header )	f32
stringy @calculatedFrom(
""x y"" )`say ""hi""` , Foo , float64
BodyLength@calculatedFrom( // " ++ [27880; 37322]%N ++ runes_of_ascii "
""packet"") ,
    uint32
// packet A { u8 x, }
//
int
//
//x
, } packet string_{ @tag( 4294967296
) repeat u
`two words` , repeat zchar[ 0 ]
BodyLength
, @tag( 255 )/// triple
int `line1
line2` ,	uint8x`it's`,@tag(
65535 )
int8
    metadata
`" ++ [233]%N ++ runes_of_ascii "` ,/// triple
match
options1
//x
// " ++ [128512]%N ++ runes_of_ascii " emoji
as
    float// packet A { u8 x, }
{ 3: f32a , """ ++ [28040; 24687]%N ++ runes_of_ascii """
    : charz
,}
,match uint8x	as
string_ { ""CRC32"" //x
:
x
, } , uint8	packetx`crlf
line` ,
@leftPad (
)
    zchar[
0
] Foo `say ""hi""`, }
")).
Eval vm_compute in ("<<<M331>>>" ++ check (runes_of_ascii "packet o
// trailing space 
//x
{	repeat pack stringy `two words`	,
    char[	1 ]
leftPad , }
/// triple
// @lengthOf(
MetaData msg_type{ zchar[  1] Pad`" ++ [28040; 24687; 31867; 22411]%N ++ runes_of_ascii "` , uint32 //x
charz//
`a\`
,  A u8x `// not a comment` ,
    // `tick` ""quote"" 'q'
    } packet
options1
    {@calculatedFrom( """ ++ [233]%N ++ runes_of_ascii "t" ++ [233]%N ++ runes_of_ascii """
) @rightPad( )
Pad
@lengthOf(// packet A { u8 x, }
pack ) `` ,
match
    A
as
    a1 { 255  :
msg_type  ,
}
,
// " ++ [27880; 37322]%N ++ runes_of_ascii "
//
@lengthOf( tag )  @tag( 00 )@rightPad(' '
) match Header	as f32a { """" : float , } // @lengthOf(
, char[] T@calculatedFrom(
    // packet A { u8 x, }
    ""packet""	) , repeat asx /// triple
msg_type`crlf
line` , @calculatedFrom( ""\" ++ [233]%N ++ runes_of_ascii """ ) @tag( // trailing space 
7
)
int64 o
`line1
line2`,
    // trailing space 
    } // " ++ [128512]%N ++ runes_of_ascii " emoji
root
packet// packet A { u8 x, }
crc  { int8
body
@lengthOf( matchKey ) `two words` ,
    //	t
    @lengthOf( u8x )
zchar[
0123456789
    ] i8i8,
} MetaData  a1 { falsey _x
`
` ,
char[] body`" ++ [28040; 24687; 31867; 22411]%N ++ runes_of_ascii "` ,
// packet A { u8 x, }
//
zchar[ 42] trueish `
` , float trueish,  metadata //x
o `{ , }`, }")).
Eval vm_compute in ("<<<M176>>>" ++ check (runes_of_ascii "
packet i8i8 { @tag( 0 ) int32
leftPad `it's`
, repeat char[]Header`crlf
line`
, @calculatedFrom( ""\" ++ [233]%N ++ runes_of_ascii """ )/// triple
repeat
    uint8 float , @rightPad
('\x00' ) char[] zchar@lengthOf(
// a // b
//x
leftPad )
`
` , Z9_ ,
@lengthOf(
x ) match As as
    tag {	""a	b""  :
string_ [
10 , 7 , ""1"" , 255
,
3
    , 42 ,
    //
    0123456789, """ ++ [128512]%N ++ runes_of_ascii """ ] :x_y_z ,""CRC32""
: Z9_  , 00
    // c
    : Logon
    ,
} , @tag(007) o {
    char
    Packet
@lengthOf(
    //	t
    repeatCount
) , } , @lengthOf(
// " ++ [27880; 37322]%N ++ runes_of_ascii "
/// triple
pack
) float64 rootA `two words`
    ,	repeat char[] BodyLength ,}
packet Z9_{ match
    // packet A { u8 x, }
    As
as
    a1{ //
0: trueish // `tick` ""quote"" 'q'
,} ,
/// triple
// " ++ [27880; 37322]%N ++ runes_of_ascii "
} root packet u8x {
/// triple
// " ++ [128512]%N ++ runes_of_ascii " emoji
repeat
string Logon `tab	here` , // " ++ [128512]%N ++ runes_of_ascii " emoji
}	options { _x
=
    ""packet""
;f32a =007 } packet i8i8 {@calculatedFrom( ""CRC32"" )
A @lengthOf(
a1
)
, } 	 ")).
Eval vm_compute in ("<<<M298>>>" ++ check (runes_of_ascii "
options  { } options
    {  uint8x =
// @lengthOf(
// " ++ [27880; 37322]%N ++ runes_of_ascii "
42 uint8x = /// triple
""abc"" ; //x
_x='0'
    }
    packet u8x
    { zchar[ 1 ] As
`crlf
line`, match metadata as float  { ""packet"" ://
trueish , } , repeat
rootA
, repeat metadata repeatCount// trailing space 
, @rightPad( // `tick` ""quote"" 'q'
'0') i64 body `// not a comment`
, @tag( 1) string string_
    `line1
line2` ,
uint8 u8x`" ++ [28040; 24687; 31867; 22411]%N ++ runes_of_ascii "` ,
packetx u128,	u tag , repeat Logon zchar
`` ,  }packet zchar
{
    }	packet	MetaDataX { @lengthOf(
Packet ) repeatCount  int
`doc` , @tag(
7 ) packetx @calculatedFrom( ""a\""b""// c
) , match msg_type as x { ""\n"" : calculatedFrom }, //x
@leftPad (// packet A { u8 x, }
'\x00')@lengthOf( MetaDataX // c
)
    // a // b
    char[007
] a1`tab	here`, As
    @calculatedFrom( ""`tick`"") `// not a comment`,} 	 ")).
Eval vm_compute in ("<<<M1644>>>" ++ check (runes_of_ascii "MetaData lengthOf {
}

MetaData falsey {
    // " ++ [27880; 37322]%N ++ runes_of_ascii "
    falsey i64_ `
    `,
    zchar[255] u `two words`,
    BodyLength int,
    matchKey i8i8 `crlf
    line`,
    uint8x asx,
    char[] options1,
}

packet asx {
    @lengthOf(o)
    @calculatedFrom(""\n"")
    char[] lengthOf `two words`,
    BodyLength `" ++ [233]%N ++ runes_of_ascii "`,
    repeat u8x len `doc`,
    int @calculatedFrom(""a\\"") `line1
    line2`,
    @lengthOf(MetaDataX)
    Packet packetx,
    a1 {
        match Logon as len {
            4294967296 : matchKey,
            [
                1, 10, 10, ""{,}"", """ ++ [233]%N ++ runes_of_ascii "t" ++ [233]%N ++ runes_of_ascii """,
                0123456789
            ] : leftPad,
            3 : msg_type,
            //	t
            //x
            1 : As,
        },
        chars,
    },
}")).
Eval vm_compute in ("<<<M1648>>>" ++ check (runes_of_ascii "// `tick` ""quote"" 'q'
packet As {
    @rightPad('0')
    stringy @lengthOf(calculatedFrom),
    @tag(10)
    string uint8x `
    `,
    match body as uint8x {
        ""it's"" : rootA,
        [00] : leftPad,
        42 : MetaDataX,
        ""a	b"" : calculatedFrom,
        255 : trueish,
    },
    repeat i64 Logon `tab	here`,
}

options {
    crc = '\x00';
}

packet x {
    @calculatedFrom(""a\\"")
    @tag(42)
    @leftPad('0')
    match o as x_y_z {
        // packet A { u8 x, }
        [
            """ ++ [128512]%N ++ runes_of_ascii """, ""x y"", 0123456789, ""CRC32"", ""it's"",
            007, 3, 007
        ] : Packet,
        // c
        [255, ""x y""] : x_y_z,
    },
}
// trailing space ")).
Eval vm_compute in ("<<<M1405>>>" ++ check (runes_of_ascii "root packet asx {
    tag body `u8 x,`,
}

packet string_ {
    @lengthOf(len)
    repeat zchar[42] u8x,
    zchar[0] asx,
}

packet int {
    repeat crc {
        zchar float,
        match i8i8 as rootA {
            255 : lengthOf,
            1 : lengthOf,
            3 : roots,
            3 : uint8x,
            0 : As,
            ""`tick`"" : repeatCount,
        },
        repeat char[] falsey,
        u64 lengthOf,
    },
    @lengthOf(crc)
    lengthOf i64_,
    leftPad `crlf
    line`,
}

root packet zchar {
    f32 _x @calculatedFrom(""a\\""),
}

MetaData chars {
    //
}")).
Eval vm_compute in ("<<<M1412>>>" ++ check (runes_of_ascii "options {
    StringPrefixLenType = u8;
    ArrayPrefixLenType = u8;
    FixedStringPadFromLeft = false;
    FixedStringPadChar = ' ';
}

packet Ack {
    char[] tag7,
}

packet Reject {
    InSym61 {
        repeat Ack,
        zchar[4] f1,
    },
}

packet Logout {
    char[4] clOrdID,
}

root packet Cancel {
    @leftPad(' ')
    char[10] price,
    u8 x,
    u32 venue @lengthOf(Body),
    match x as Body {
        [92, 175] : Logout,
        26 : Reject,
        144 : Ack,
    },
    u16 count @calculatedFrom(""CRC32""),
}")).
Eval vm_compute in ("<<<M294>>>" ++ check (runes_of_ascii "options { rootA = 4294967296 ; falsey = ""a\""b""
;
As =
// @lengthOf(
/// triple
""""
;packetx
    = ""packet"" i8i8 =true ;
} // `tick` ""quote"" 'q'
packet x  { repeat zchar
rootA , char[]
    pack  `// not a comment`
,@tag( 00 )
@tag( 0123456789)
u @calculatedFrom( ""packet"" )`u8 x,` , Header{
    zchar[ 00
    ] body
,
    a1	@calculatedFrom( // " ++ [128512]%N ++ runes_of_ascii " emoji
""it's"" )
`" ++ [233]%N ++ runes_of_ascii "`, }, } // " ++ [27880; 37322]%N ++ runes_of_ascii "
MetaData
    A // a // b
{zchar /// triple
matchKey
    `` , int64 metadata ,char[] _x //	t
, }
")).
Eval vm_compute in ("<<<M1638>>>" ++ check (runes_of_ascii "  packet Frame {u8
HK
,
u8  BK

,

    u8	TK

    ,

    match HK
as
Hdr {  1

    : HdrA ,
2

:

HdrB

    , }
, match
BK as	Body

{ 
1
    :
BodyA
    , 
2 :	BodyB,
    }, match TK as  Trl
{
    1	: TrlA,
    }

    , }packet  HdrA{ u8 a,} 
packet	HdrB {  u16
b, }packet BodyA

    { u32

c
,}packet
	BodyB{
    u64	d

    ,
}packet

TrlA  {

u8
	e
    ,
	}  root

packet 
Msg  { Frame	,

    u8
x , 
}

")).
Eval vm_compute in ("<<<M220>>>" ++ check (runes_of_ascii "root
    packet string_{
//	t
//x
i16 o /// triple
,
    @tag( 4294967296
)
repeat char o ,Foo {match MetaDataX // trailing space 
as leftPad
    { 0123456789 : calculatedFrom ,
[ 0 ]
: u128}
, repeat
u
// `tick` ""quote"" 'q'
// @lengthOf(
{
    zchar[65535]body@lengthOf( float  )
,o , asx @calculatedFrom( ""{,}"" ) `it's` // `tick` ""quote"" 'q'
,}// `tick` ""quote"" 'q'
,
} ,  }
")).
Eval vm_compute in ("<<<M245>>>" ++ check (runes_of_ascii "MetaData float{ int16
// c
// " ++ [128512]%N ++ runes_of_ascii " emoji
chars , int8 _x
, char	charz ,
Header  u8x
    , u16 _x
,
    // @lengthOf(
    x_y_z repeatCount ,}	packet Foo
{ @tag(//	t
1  )
string Logon	`
`
, }//x
options{ zchar =  ' ' trueish = //x
""""
    leftPad =255 ;
}	root packet options1 {u64 packetx// `tick` ""quote"" 'q'
@calculatedFrom(""// no comment""  ) ``,}
")).
Eval vm_compute in ("<<<M1402>>>" ++ check (runes_of_ascii "options {
    LittleEndian = true;
}

packet Logon {
    u8 x,
}

packet Logout {
    u16 reason,
}

root packet Frame {
    u64 Kind,
    u64 Kind2,
    match Kind as Body {
        1 : Logon,
        [2, 3, 4] : Logout,
        100 : Logon,
    },
    match Kind2 as Trailer {
        0 : Logout,
    },
}")).
Eval vm_compute in ("<<<M1384>>>" ++ check (runes_of_ascii "
packet

    Sub { u8	a ,	@calculatedFrom(
""CRC16"" )

    i32
	SubSum

    ,} root 
packet Frame
	{
    u16	MsgType 
,

    u16
BodyLen
@lengthOf(
    Body

) 
,
Sub  Body 
,  string

    note  , @calculatedFrom(

""CRC16""

) 
i32	Checksum

    ,
u8 tail,
	}
")).
Eval vm_compute in ("<<<M1923>>>" ++ check (runes_of_ascii "root packet i8i8 {
    @tag(4294967296)
    // packet A { u8 x, }
    Header calculatedFrom `
    `,
    @tag(4294967296)
    @rightPad(' ')
    @lengthOf(float)
    options1 zchar `" ++ [233]%N ++ runes_of_ascii "`,
}

root packet x {
    repeat zchar[10] x `u8 x,`,
}")).
Eval vm_compute in ("<<<M18>>>" ++ check (runes_of_ascii "packet roots
// a // b
// " ++ [128512]%N ++ runes_of_ascii " emoji
{ // " ++ [27880; 37322]%N ++ runes_of_ascii "
@tag(0
)
    repeat // `tick` ""quote"" 'q'
zchar[
/// triple
//x
0
]x , } options { As =""\" ++ [233]%N ++ runes_of_ascii """ ;pack = ' ' ; int = // `tick` ""quote"" 'q'
'\x00' ; options1 =
""`tick`"" ; }")).
Eval vm_compute in ("<<<M169>>>" ++ check (runes_of_ascii "root packet
    // `tick` ""quote"" 'q'
    string_ { repeat
char[00]  rootA
    ,
// " ++ [128512]%N ++ runes_of_ascii " emoji
// " ++ [27880; 37322]%N ++ runes_of_ascii "
}
    MetaData u {i32 options1,
}MetaData
rootA
{
u16  chars	,
/// triple
//x
}
")).
Eval vm_compute in ("<<<M336>>>" ++ check (runes_of_ascii "
packet msg_type
{
    zchar[ 65535
    /// triple
    ]stringy // `tick` ""quote"" 'q'
@calculatedFrom( """ ++ [233]%N ++ runes_of_ascii "t" ++ [233]%N ++ runes_of_ascii """ )
,@tag( 0
) repeat i64_,
}
// packet A { u8 x, }
")).
Eval vm_compute in ("<<<M195>>>" ++ check (runes_of_ascii "MetaData msg_type {} root packet
A{ repeat i32 leftPad
`it's`
,
    //x
    }  root
    packet a1
    {char[
    // c
    255 ]
    falsey // @lengthOf(
, }")).
Eval vm_compute in ("<<<M150>>>" ++ check (runes_of_ascii "packet
    //	t
    Logon {
metadata
@calculatedFrom( ""a\\"" ) , @tag( 42 ) // " ++ [128512]%N ++ runes_of_ascii " emoji
@tag(	65535 )
repeat u16 o `line1
line2` ,
} packet float { }

")).
Eval vm_compute in ("<<<M547>>>" ++ check (runes_of_ascii "%packet uint8x
{ match pack
    as msg_type	{
    0123456789 :	float
}
,
} packet //	t
a1
    { } options {packetx
    = '\x00'	; u128= ""a	b""  ; }
")).
Eval vm_compute in ("<<<M502>>>" ++ check (runes_of_ascii "packet uint8x
{ match pack
    as msg_type	{
    0123456789 :	float
}
,
} packet //	t
a1
    { } options {packetx
    = ;	'\x00' u128= ""a	b""  ; }
")).
Eval vm_compute in ("<<<M433>>>" ++ check (runes_of_ascii "packet uint8x
{ match pack
    as msg_type	{
    ""`tick`"" :	float
}
,
} packet //	t
a1
    { } options {packetx
    = '\x00'	; u128= ""a	b""  ; }
")).
Eval vm_compute in ("<<<M684>>>" ++ check (runes_of_ascii "// @lengthOf(
packet i8i8 { u128 o , }
options { MetaDataX = true;
    BodyLength =""packet"" x_y_z= 007
crc //x
= ""abc"" ;
    msg_type =
i16 } }")).
Eval vm_compute in ("<<<M694>>>" ++ check (runes_of_ascii "// @lengthOf(
packet i8i8 { u128 o , }
options { MetaDataX = true;
    = BodyLength""packet"" x_y_z= 007
crc //x
= ""abc"" ;
    msg_type =
i16 }")).
Eval vm_compute in ("<<<M1612>>>" ++ check (runes_of_ascii "packet A {
    match k as n {
        [
            ""a"", ""bb"", ""c c"", ""d"", ""e"",
            ""f"", ""g""
        ] : B,
        2 : C,
    },
}")).
Eval vm_compute in ("<<<M1590>>>" ++ check (runes_of_ascii "MetaData leftPad {	chars MetaDataX
,
	} packet
repeatCount {
char[ 
255 ]uint8x
`" ++ [233]%N ++ runes_of_ascii "` 
	// c
,
}	MetaData  pack {As
	Foo

    , 
} ")).
Eval vm_compute in ("<<<M1666>>>" ++ check (runes_of_ascii "MetaData leftPad {
    chars MetaDataX,
}

packet repeatCount {
    char[255] uint8x `" ++ [233]%N ++ runes_of_ascii "`,
}

MetaData pack {
    As Foo,
}// c")).
Eval vm_compute in ("<<<M1143>>>" ++ check (runes_of_ascii "MetaData // c
leftPad { chars MetaDataX , } packet repeatCount { char[ 255 ] uint8x `" ++ [233]%N ++ runes_of_ascii "` , } MetaData pack { As Foo , }")).
Eval vm_compute in ("<<<M1175>>>" ++ check (runes_of_ascii "MetaData leftPad { chars MetaDataX , } packet repeatCount { char[ 255 ] uint8x `" ++ [233]%N ++ runes_of_ascii "` , } // c
MetaData pack { As Foo , }")).
Eval vm_compute in ("<<<M1418>>>" ++ check (runes_of_ascii "
packet A
{ u16 len @lengthOf(body ) 
`tab
	x`

, u32	crc@calculatedFrom(""CRC32"")	`tab
	x`
,  string body
,
    }")).
Eval vm_compute in ("<<<M1897>>>" ++ check (runes_of_ascii "packet 
A {Inner
	{ 
match

k  as
n  {	[ 1

    , 22
	,
    007]	:

    B

    ,

    },

}  ,  }

")).
Eval vm_compute in ("<<<M158>>>" ++ check (runes_of_ascii "
MetaData charz { As u128 , Logon options1 `say ""hi""` ,
    zchar[ 0
// @lengthOf(
//
]Logon ,
    }
")).
Eval vm_compute in ("<<<M1547>>>" ++ check (runes_of_ascii "  packet

    A

{Inner	{
    u8 x
    `x
`

    ,
Deep
{
	u8 
y`x
`
    , } 
,	}

    , } ")).
Eval vm_compute in ("<<<M862>>>" ++ check (runes_of_ascii "packet A {
  match k as n {
    [""a"", ""bb"", 007, ""d"", ""e"", 66, ""g"", ""h""] : B,
    2 : C
  },
}")).
Eval vm_compute in ("<<<M613>>>" ++ check (runes_of_ascii "
packet
    asx {match u128 as lengthOf
{
//	t
// `tick` ""quote"" 'q'
255 : x ,
    } } ,	}")).
Eval vm_compute in ("<<<M584>>>" ++ check (runes_of_ascii "
packet
    asx {match u128 as {
lengthOf
//	t
// `tick` ""quote"" 'q'
255 : x ,
    } ,	}")).
Eval vm_compute in ("<<<M845>>>" ++ check (runes_of_ascii "packet A {
  match k as n {
    [""a"", 22, ""c c"", 4, ""e"", 66, ""g""] : B,
    2 : C
  },
}")).
Eval vm_compute in ("<<<M1426>>>" ++ check (runes_of_ascii "packet A {
    B b `x
        `,
    B `x
        `,
    repeat B bs `x
        `,
}")).
Eval vm_compute in ("<<<M616>>>" ++ check (runes_of_ascii "
packet
    asx {match u128 as lengthOf
{
//	t
// `tick` ""quote"" 'q'
255 : x ,")).
Eval vm_compute in ("<<<M166>>>" ++ check (runes_of_ascii "packet calculatedFrom {repeat // packet A { u8 x, }
string Foo`{ , }`	, }
")).
Eval vm_compute in ("<<<M1937>>>" ++ check (runes_of_ascii "root packet P {
    u16 a,
    u32 Sum @calculatedFrom(""CR\
    C32""),
}")).
Eval vm_compute in ("<<<M1557>>>" ++ check (runes_of_ascii "packet A{ repeat 	 // a
    B 	 // b
b 	 // c
  	`d` // e
	  , }
")).
Eval vm_compute in ("<<<M1126>>>" ++ check (runes_of_ascii "// top
MetaData
    // c0
u
    // c1
{
    // c2
}
    // c3
")).
Eval vm_compute in ("<<<M1089>>>" ++ check (runes_of_ascii "packet A { // a
 @tag(1) u8 x, // b
 // c
 @tag(2) u8 y, }")).
Eval vm_compute in ("<<<M1809>>>" ++ check (runes_of_ascii "options {
    Logon = """ ++ [28040; 24687]%N ++ runes_of_ascii """;
    BodyLength = false;
}")).
Eval vm_compute in ("<<<M341>>>" ++ check (runes_of_ascii "options  { len = // " ++ [128512]%N ++ runes_of_ascii " emoji
""packet"" int
= ""abc""}")).
Eval vm_compute in ("<<<M1600>>>" ++ check (runes_of_ascii "options {
    x = ""{,}""
    matchKey = true;
}")).
Eval vm_compute in ("<<<M940>>>" ++ check (runes_of_ascii "root packet A {
    u8 x `a
    b
  c`,
}")).
Eval vm_compute in ("<<<M50>>>" ++ check (runes_of_ascii "options {
    Packet =  char[]  }
")).
Eval vm_compute in ("<<<M1681>>>" ++ check (runes_of_ascii "packet A {
    u8 x `d" ++ [6158]%N ++ runes_of_ascii "`,// c" ++ [6158]%N ++ runes_of_ascii "
}")).
Eval vm_compute in ("<<<M1048>>>" ++ check (runes_of_ascii "packet A {
 u8 x `d" ++ [8203]%N ++ runes_of_ascii "`, // c" ++ [8203]%N ++ runes_of_ascii "
}")).
Eval vm_compute in ("<<<M929>>>" ++ check (runes_of_ascii "packet A {
    u8 x `
`,
}")).
Eval vm_compute in ("<<<M63>>>" ++ check (runes_of_ascii "packet i64_
    { }

")).
Eval vm_compute in ("<<<M1933>>>" ++ check (runes_of_ascii "root packet u128 {
}")).
Eval vm_compute in ("<<<M996>>>" ++ check (runes_of_ascii "packet A {
}
// c" ++ [5760]%N)).
Eval vm_compute in ("<<<M172>>>" ++ check (runes_of_ascii "packet
len { }

")).
Eval vm_compute in ("<<<M310>>>" ++ check (runes_of_ascii "
MetaData A {}
")).
Eval vm_compute in ("<<<M750>>>" ++ check (runes_of_ascii "uk%W,3^r>l")).
Eval vm_compute in ("<<<M1496>>>" ++ check (runes_of_ascii "// " ++ [27880; 37322]%N)).
