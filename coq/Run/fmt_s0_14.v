From FP Require Import Lexer Parser ShowPT Digest Formatter.
From Coq Require Import String List NArith.
Import ListNotations.
Open Scope string_scope.
Set Printing Width 100000000.
Set Printing Depth 100000000.
Definition show_fres (r : fres) : string :=
  match r with
  | FOk s => "OK:" ++ sh_escaped s ""
  | FErr s => "ERR:" ++ sh_escaped s ""
  | FPanic p => "PANIC:" ++ p
  end.
Definition check (rs : list rune) : string := digest (show_fres (format_res rs)).
Definition full (rs : list rune) : string := show_fres (format_res rs).
Eval vm_compute in ("<<<M165>>>" ++ check (runes_of_ascii "packet falsey { char[7
    ]
Foo @calculatedFrom( ""CRC32"" ) , @tag(
    //
    10)	u8 Packet`" ++ [233]%N ++ runes_of_ascii "` ,repeat  stringy
,
@lengthOf( // a // b
float)tag { repeat
    u8x {
int16 charz@lengthOf(trueish ) , //	t
repeat  string calculatedFrom,
charz @calculatedFrom(  ""a\""b""
)	`line1
line2`
,
},u64
    MetaDataX @calculatedFrom( """ ++ [128512]%N ++ runes_of_ascii """
    ) `" ++ [233]%N ++ runes_of_ascii "`
    ,rootA
    // packet A { u8 x, }
    {
    repeat	u64 BodyLength
`" ++ [233]%N ++ runes_of_ascii "` , pack @calculatedFrom( //x
""{,}"" )
    `" ++ [28040; 24687; 31867; 22411]%N ++ runes_of_ascii "` ,repeat // c
x charz,
},
    // a // b
    char[] packetx, }	, // `tick` ""quote"" 'q'
calculatedFrom , u x_y_z
,repeat	int	i64_ ,@leftPad (
    ' '
)u32 T @calculatedFrom( ""{,}"" )
, repeat
    metadata , } root packet
chars
{ char[	65535
]  pack @lengthOf( As ) `tab	here` , char[
255] msg_type `// not a comment`
    ,@calculatedFrom(
    ""// no comment"" ) @tag( //	t
0 ) @tag(10 ) repeat Header {
    char[]
// @lengthOf(
// " ++ [27880; 37322]%N ++ runes_of_ascii "
i64_,repeat T//x
`` ,match uint8x	as i64_ {
00// `tick` ""quote"" 'q'
: _x ,	65535: //
Z9_,
""1""
: u8x ,
007 : Z9_
, 255
:
matchKey
""1"" :
crc , } , } ,
    @calculatedFrom(	""packet""	) match int as x_y_z{ 0123456789 :	Logon
    // @lengthOf(
    ,
    //	t
    [ 0123456789, ""it's"" ]
:
int
    , [""a	b"" , ""CRC32"" , 0, 4294967296 , """"	] :
pack , 0 : u , } , match // @lengthOf(
string_ as
int
{ 0: repeatCount [ ""abc""
    ] : // " ++ [27880; 37322]%N ++ runes_of_ascii "
float 007: msg_type , [
    ""a\""b""	]:
charz , } , i16 MetaDataX`say ""hi""`, repeat u `tab	here` , repeat falsey  { repeat i8 lengthOf `a\` ,
    repeatCount@lengthOf( o)
    `{ , }`,}, }packet rootA
    { calculatedFrom//	t
@calculatedFrom( ""x y"") ,
char Pad @calculatedFrom( ""a\""b"" ) `" ++ [233]%N ++ runes_of_ascii "`
    , @leftPad
( '\x00' )	repeat float64 tag ,
    // " ++ [27880; 37322]%N ++ runes_of_ascii "
    @calculatedFrom( ""1"") repeat Foo ,  } // " ++ [27880; 37322]%N)).
Eval vm_compute in ("<<<M382>>>" ++ check (runes_of_ascii "options {
	StringPrefixLenType = u16;
	ArrayPrefixLenType = u16;
}

packet SampleBinary {
    uint16 MsgType `" ++ [28040; 24687; 31867; 22411]%N ++ runes_of_ascii "`,
    u16 BodyLenght @lengthOf(Body) `" ++ [28040; 24687; 20307; 38271; 24230]%N ++ runes_of_ascii "`,
    match MsgType as Body {
        1 : Logon,
        2 : Logout,
        3 : Heartbeat,
        4 : RiskControlRequest,
        5 : RiskControlResponse,
    },
        @calculatedFrom(""CRC32"")
    u32 Ckecksum `" ++ [26657; 39564; 21644]%N ++ runes_of_ascii "`,
}

packet Logon {
     @leftPad('0')
    char[10] UserName `" ++ [29992; 25143; 21517]%N ++ runes_of_ascii "`,
    string Password `" ++ [23494; 30721]%N ++ runes_of_ascii "`,
    uint64 ClientId `" ++ [23458; 25143; 31471]%N ++ runes_of_ascii "ID`,
    u16 HeartbeatInterval `" ++ [24515; 36339; 38388; 38548]%N ++ runes_of_ascii "`,
}

packet Logout {
      @rightPad('0')
    char[10] UserName `" ++ [29992; 25143; 21517]%N ++ runes_of_ascii "`,
    uint64 ClientId `" ++ [23458; 25143; 31471]%N ++ runes_of_ascii "ID`,
}

packet Heartbeat {
}

packet RiskControlRequest {
    string UniqueOrderId `" ++ [21807; 19968; 35746; 21333; 21495]%N ++ runes_of_ascii "`,
    char[16] ClOrdID `" ++ [23458; 25143; 35746; 21333; 21495]%N ++ runes_of_ascii "`,
    char[3] MarketID `" ++ [24066; 22330]%N ++ runes_of_ascii "id`,
    char[12] SecurityID `" ++ [35777; 21048; 20195; 30721]%N ++ runes_of_ascii "`,
    char Side `" ++ [20080; 21334; 26041; 21521]%N ++ runes_of_ascii "`,
    char OrderType `" ++ [35746; 21333; 31867; 22411]%N ++ runes_of_ascii "`,
    u64 Price `" ++ [20215; 26684]%N ++ runes_of_ascii "`,
    u32 Qty `" ++ [25968; 37327]%N ++ runes_of_ascii "`,
    repeat string ExtraInfo `" ++ [38468; 21152; 20449; 24687]%N ++ runes_of_ascii "`,
    repeat SubOrder {
    		char[16] ClOrdID `" ++ [23376; 35746; 21333; 21495]%N ++ runes_of_ascii "`,
    		u64 Price `" ++ [23376; 35746; 21333; 20215; 26684]%N ++ runes_of_ascii "`,
    		u32 Qty `" ++ [23376; 35746; 21333; 25968; 37327]%N ++ runes_of_ascii "`,
    	},
}

packet RiskControlResponse {
    string UniqueOrderId `" ++ [21807; 19968; 35746; 21333; 21495]%N ++ runes_of_ascii "`,
    i32 Status `" ++ [29366; 24577]%N ++ runes_of_ascii "`,
    string Msg `" ++ [32467; 26524; 20449; 24687]%N ++ runes_of_ascii "`,
    repeat Detail,
}

packet Detail {
    string RuleName `" ++ [35268; 21017; 21517; 31216]%N ++ runes_of_ascii "`,
    u16 Code `" ++ [21407; 22240; 20195; 30721]%N ++ runes_of_ascii "`,
}")).
Eval vm_compute in ("<<<M174>>>" ++ check (runes_of_ascii "
root packet asx { leftPad
    {u128 @calculatedFrom( ""1""
) , //x
}
, lengthOf // packet A { u8 x, }
@calculatedFrom( """ ++ [128512]%N ++ runes_of_ascii """ ) `a\`
, i64 // `tick` ""quote"" 'q'
Packet @lengthOf(  calculatedFrom ) , @calculatedFrom(
""" ++ [233]%N ++ runes_of_ascii "t" ++ [233]%N ++ runes_of_ascii """ ) stringy	a1 `doc` // `tick` ""quote"" 'q'
, @rightPad
    (
    // a // b
    )
    // c
    a1
    `a\`
,  char
Header @lengthOf(
    x )`say ""hi""`, uint8x
Z9_ `tab	here` ,  }
options
    {
    calculatedFrom// packet A { u8 x, }
= 0}	packet metadata {@leftPad ( '\x00'	) f32
    pack
//	t
//
, @tag( 65535 ) u32 uint8x @lengthOf( repeatCount) ``,MetaDataX	{ repeat options1 , match
matchKey as len { """ ++ [128512]%N ++ runes_of_ascii """:
    u8x	, 1 :
zchar
, /// triple
[ ""a\\""
    ,
    ""x y"" ] : charz 0
    :
    x_y_z
    //
    ,[// trailing space 
4294967296// `tick` ""quote"" 'q'
]: asx  , [/// triple
""a\""b"" , ""\n"" , ""\" ++ [233]%N ++ runes_of_ascii """ ,10 ] : _x ,
    }	, uint8  metadata
@lengthOf(float
) ,
zchar[
    255] i8i8 , },
    }root  packet
f32a
    { }")).
Eval vm_compute in ("<<<M1341>>>" ++ check (runes_of_ascii "options {
    StringPrefixLenType = u64;
    ArrayPrefixLenType = u32;
    FixedStringPadFromLeft = false;
}
packet Party {
    zchar[7] OrderId,
    InTail6 {
        repeat char[1] msgKind,
        char[3] Tail,
        char[3] Flags,
        i16 tag7,
    },
    @rightPad('0') char[12] clOrdID,
}
packet Quote {
    @leftPad('0') char[11] price,
    repeat InCount7 {
        i32 x,
        Party,
        u8 Ref,
        u8 tag7,
    },
    char[] seqNo,
    Party,
}
packet Logon {
    @rightPad('\x00') char[5] Note,
    i16 sym,
    InPrice72 {
        char[9] Ref,
        zchar[1] venue,
    },
    char[] clOrdID,
}
root packet Reject {
    repeat Logon,
    @leftPad(' ') char[4] seqNo,
    zchar[5] Acct,
    u32 x,
    u16 f1 @lengthOf(Body),
    match x as Body {
        [169, 74] : Quote,
        45 : Party,
        7 : Logon,
    },
}
")).
Eval vm_compute in ("<<<M1380>>>" ++ check (runes_of_ascii "root packet packetx {
    @tag(0)
    char[00] Z9_,
    // a // b
    falsey {
        match x as options1 {
            [42, 007] : uint8x,
        },
        uint8 falsey `crlf
        line`,
    },
    f64 Pad,
    @tag(7)
    string Logon `a\`,
    @lengthOf(lengthOf)
    char[3] calculatedFrom @calculatedFrom(""" ++ [28040; 24687]%N ++ runes_of_ascii """),
    char[] T,//x
    @tag(42)
    @leftPad()
    char[] trueish @calculatedFrom(""`tick`""),
    match uint8x as pack {
        [1, ""abc"", ""1"", ""packet"", ""a\""b""] : As,
        """ ++ [28040; 24687]%N ++ runes_of_ascii """ : trueish,
    },
}

packet charz {
    repeat Z9_ {
        Pad {
            match len as string_ {
                // a // b
                4294967296 : msg_type,
                [""// no comment""] : u,
            },
        },
        zchar[65535] As @lengthOf(string_),
    },
}")).
Eval vm_compute in ("<<<M1741>>>" ++ check (runes_of_ascii "

  options{ leftPad	// packet A { u8 x, }
  	= 
0

    ;

    //
	  Logon
	= char// `tick` ""quote"" 'q'
    i64_	=
'\x00' ;} options {crc 
=	i32

; matchKey =
    255
    leftPad
=
' '
	;
metadata
= 42  // trailing space 
	  ;
packetx=
10
    }
root 
packet  //
    A

{ @calculatedFrom( ""x y""// c
	) 	 /// triple
	zchar[ 00
	]f32a

, @tag(  255

)	zchar[0123456789
    ] a1
	@lengthOf( As
	)	`" ++ [28040; 24687; 31867; 22411]%N ++ runes_of_ascii "`
	/// triple

, int16
body
, 	 // `tick` ""quote"" 'q'
	  uint64 x

@calculatedFrom( 
""1"" 
    //	t
    // " ++ [128512]%N ++ runes_of_ascii " emoji
	) 	 // packet A { u8 x, }
	  `line1
line2`  ,  @lengthOf(
    Logon )
char[
	0	// packet A { u8 x, }
	] float@calculatedFrom(
""abc"" 
)

    ,	} MetaData
    u128

    {	}

")).
Eval vm_compute in ("<<<M23>>>" ++ check (runes_of_ascii "MetaData lengthOf
{ }
MetaData falsey { // " ++ [27880; 37322]%N ++ runes_of_ascii "
falsey i64_
`
`	, zchar[ 255	] u `two words` ,	BodyLength int , matchKey	i8i8 `crlf
line` ,uint8x	asx ,
char[]options1 ,	}packet
    asx  {	@lengthOf( o
)@calculatedFrom(//
""\n"" ) char[] lengthOf  `two words`// c
,
    BodyLength `" ++ [233]%N ++ runes_of_ascii "` ,repeat u8x len // " ++ [27880; 37322]%N ++ runes_of_ascii "
`doc`
, int
@calculatedFrom(
""a\\""
    ) `line1
line2`,@lengthOf( MetaDataX
)
Packet packetx
    // `tick` ""quote"" 'q'
    , a1 {
    match Logon	as
// " ++ [128512]%N ++ runes_of_ascii " emoji
/// triple
len {	4294967296
:matchKey , [
1  , 10 , 10 ,
""{,}"" , """ ++ [233]%N ++ runes_of_ascii "t" ++ [233]%N ++ runes_of_ascii """ , 0123456789]: leftPad ,  3
    :msg_type ,
//	t
//x
1 : As
,} ,
    chars , }
    ,}
")).
Eval vm_compute in ("<<<M1333>>>" ++ check (runes_of_ascii "options {
    LittleEndian = false;
    ArrayPrefixLenType = u8;
    FixedStringPadFromLeft = true;
    FixedStringPadChar = '0';
}
packet Heartbeat {
    string lastPx,
    uint8 Qty,
    i64 Acct,
    char[4] Ref,
}
packet Fill {
    uint8 Ref,
    Heartbeat,
    f32 OrderId,
    repeat f32 x,
}
root packet Order {
    zchar[2] OrderId,
    zchar[2] Acct,
    zchar[1] Note,
    zchar[9] Qty,
    string price,
    string tag7,
    u32 x,
    match x as Body {
        123 : Fill,
        112 : Heartbeat,
    },
    u32 seqNo @calculatedFrom(""CRC32""),
}
")).
Eval vm_compute in ("<<<M1781>>>" ++ check (runes_of_ascii "MetaData body {
    T calculatedFrom,
    string f32a `line1
        line2`,
    leftPad BodyLength `tab	here`,
}

options {
}

MetaData options1 {
    char[3] MetaDataX `" ++ [28040; 24687; 31867; 22411]%N ++ runes_of_ascii "`,
    BodyLength x `
        `,
    u16 tag `say ""hi""`,
    u8 float,
    float32 As `
        `,
    i8i8 Z9_ `
        `,
}

packet u {
    @tag(42)
    options1 o `crlf
        line`,
    @calculatedFrom(""`tick`"")
    repeat char[] a1,
}

options {
    uint8x = true
    A = 7;// packet A { u8 x, }
    len = """ ++ [128512]%N ++ runes_of_ascii """
}")).
Eval vm_compute in ("<<<M1297>>>" ++ check (runes_of_ascii "packet A { // c2a
  // c2b
u8
    // c3
a ,
    // c5
} // c6a
  // c6b
packet B // c8
{ // c9
u16
    // c10
b // c11
, // c12
} // c13a
  // c13b
root // c14a
  // c14b
packet // c15a
  // c15b
P
    // c16
{ u8 // c18a
  // c18b
K // c19
, match // c21
K // c22a
  // c22b
as // c23
M // c24
{ // c25a
  // c25b
1 : // c27a
  // c27b
A // c28a
  // c28b
,
    // c29
1
    // c30
: B
    // c32
,
    // c33
} // c34a
  // c34b
,
    // c35
} ")).
Eval vm_compute in ("<<<M1414>>>" ++ check (runes_of_ascii "packet Header {
    match roots as packetx {
        // `tick` ""quote"" 'q'
        [0123456789, """ ++ [28040; 24687]%N ++ runes_of_ascii """] : packetx,
        //
        // c
        4294967296 : Logon,
        [""\n"", ""x y"", ""packet"", ""packet""] : i8i8,
        42 : Foo,
    },//	t
    @calculatedFrom(""x y"")
    f64 Logon,
}

options {
    // " ++ [128512]%N ++ runes_of_ascii " emoji
    chars = ' ';
    repeatCount = """ ++ [233]%N ++ runes_of_ascii "t" ++ [233]%N ++ runes_of_ascii """
    x = ""\n"";
    calculatedFrom = ""`tick`"";
}")).
Eval vm_compute in ("<<<M1628>>>" ++ check (runes_of_ascii "packet a1 {
    @calculatedFrom(""`tick`"")
    uint32 charz `crlf
        line`,
    // c
    //x
    a1 `tab	here`,
}

options {
    // " ++ [27880; 37322]%N ++ runes_of_ascii "
    // " ++ [128512]%N ++ runes_of_ascii " emoji
    stringy = 255;
    metadata = 4294967296
    pack = string;
    crc = string;
}

root packet crc {
    @tag(42)
    @calculatedFrom(""abc"")
    @rightPad('0')
    u128 u8x,
    @lengthOf(len)
    uint16 int,
}")).
Eval vm_compute in ("<<<M127>>>" ++ check (runes_of_ascii "packet a1{ @leftPad ( ) float
@lengthOf(
uint8x ) , }
packet Logon {
char Logon
@calculatedFrom( ""a\\"" )
    ,T stringy ,
//
// c
repeat uint8 stringy `two words` , } MetaData charz{ u
    tag
    `
`
, a1 falsey ,//x
Z9_
matchKey , f64 lengthOf	`a\` // @lengthOf(
,
    f32a roots
    ``
,float64
    x_y_z // @lengthOf(
, }
")).
Eval vm_compute in ("<<<M1376>>>" ++ check (runes_of_ascii "options {
    LittleEndian = true;
}
packet Logon {
    u8 x,
}
packet Logout {
    u16 reason,
}
root packet Frame {
    i8 Kind,
    i8 Kind2,
    match Kind as Body {
        1 : Logon,
        [2, 3, 4] : Logout,
        100 : Logon,
    },
    match Kind2 as Trailer {
        0 : Logout,
    },
}
")).
Eval vm_compute in ("<<<M1450>>>" ++ check (runes_of_ascii "
packet

MDSnapshotZZ {	u8 a ,

    }

    packet OrderACK	{
u16	b ,  }
	packet  HTTPServerInfo{string
s ,}
    root

packet

FIXMsg
{
	u8
KType 
, MDSnapshotZZ ,

    repeat OrderACK, match

KType as
Body

{

1	: HTTPServerInfo

,
    2
	:
	OrderACK	, 
} 
, } ")).
Eval vm_compute in ("<<<M139>>>" ++ check (runes_of_ascii "packet//x
x_y_z {rootA @lengthOf( o ) `two words` ,} MetaData f32a{
trueish
    // packet A { u8 x, }
    x , }
    MetaData body
    { u128 pack , f64
    // @lengthOf(
    float	, char[ 65535
//	t
/// triple
] tag `" ++ [233]%N ++ runes_of_ascii "`// c
,  } // " ++ [128512]%N ++ runes_of_ascii " emoji")).
Eval vm_compute in ("<<<M1758>>>" ++ check (runes_of_ascii "  MetaData
stringy {

zchar[

    10 ]

    crc

    ,  }
    packet

u128
	{
repeat
	uint16 
BodyLength `// not a comment`
    , 
@lengthOf(
    falsey

) _x , char[

    42 ] i8i8

    ,

    }

")).
Eval vm_compute in ("<<<M1881>>>" ++ check (runes_of_ascii "options {
    Z9_ = ""packet"";
    float = false;
    A = ' '
}

MetaData pack {
    zchar[3] leftPad,
    zchar falsey `it's`,
    char[] repeatCount,
    char[65535] Z9_,
}")).
Eval vm_compute in ("<<<M224>>>" ++ check (runes_of_ascii "root packet
T
{ zchar[ // a // b
0123456789
] // c
uint8x , }  root packet metadata { @rightPad( )  x_y_z @lengthOf( stringy )
// `tick` ""quote"" 'q'
// c
, }")).
Eval vm_compute in ("<<<M528>>>" ++ check (runes_of_ascii "packet uint8x
{ match pack
    as msg_type	{
    0123456789 :	float
}
,
} packet //	t
a1
    { } options {packetx
    = '\x00'	; u128= ""a	b""  packet }
")).
Eval vm_compute in ("<<<M471>>>" ++ check (runes_of_ascii "packet uint8x
{ match pack
    as msg_type	{
    0123456789 :	float
}
,
} packet //	t
a1
    { { } options {packetx
    = '\x00'	; u128= ""a	b""  ; }
")).
Eval vm_compute in ("<<<M275>>>" ++ check (runes_of_ascii "MetaData
stringy { zchar[10 ] crc,  }
    packet u128
{ repeat uint16  BodyLength `// not a comment`, @lengthOf( falsey ) _x ,
char[ 42 ]  i8i8	, }

")).
Eval vm_compute in ("<<<M532>>>" ++ check (runes_of_ascii "packet uint8x
{ match pack
    as msg_type	{
    0123456789 :	float
}
,
} packet //	t
a1
    { } options {packetx
    = '\x00'	; u128= ""a	b""  ; )
")).
Eval vm_compute in ("<<<M1778>>>" ++ check (runes_of_ascii "
packet

A

    {
Inner {match	k 
as n
    {
[  1
,
22, 007

    ,

    4
    ,	5,

66,7
    , 8 ,

9

]

:

    B	,

    },	} ,
    }
")).
Eval vm_compute in ("<<<M695>>>" ++ check (runes_of_ascii "// @lengthOf(
packet i8i8 { u128 o , }
options { MetaDataX = true;
    BodyLe@xngth =""packet"" x_y_z= 007
crc //x
= ""abc"" ;
    msg_type =
i16 }")).
Eval vm_compute in ("<<<M707>>>" ++ check (runes_of_ascii "// @lengthOf(
packet i8i8 { u128 o , }
options { MetaDataX = true;
    BodyLength =MetaData x_y_z= 007
crc //x
= ""abc"" ;
    msg_type =
i16 }")).
Eval vm_compute in ("<<<M1260>>>" ++ check (runes_of_ascii "

  packet

B
    {

u8
	a

,
    }root
packet
P{ u8 K  , u8

L @lengthOf(
	Body )
,  match

K
    as Body
{

    1  :  B
	,  },
    } ")).
Eval vm_compute in ("<<<M16>>>" ++ check (runes_of_ascii "options { }MetaData u8x { uint8x	body`crlf
line`
    //	t
    , calculatedFrom body ,
}
    options  {
} root packet options1
{  }")).
Eval vm_compute in ("<<<M1847>>>" ++ check (runes_of_ascii "  packet A
{ 
match k as n

    {

[

    ""a""
    ,""bb""
, ""c c"" ,

""d""
	,	""e""  ]
    : B
    ,

    2:C

    }

,

}
")).
Eval vm_compute in ("<<<M1145>>>" ++ check (runes_of_ascii "MetaData leftPad // c
{ chars MetaDataX , } packet repeatCount { char[ 255 ] uint8x `" ++ [233]%N ++ runes_of_ascii "` , } MetaData pack { As Foo , }")).
Eval vm_compute in ("<<<M1177>>>" ++ check (runes_of_ascii "MetaData leftPad { chars MetaDataX , } packet repeatCount { char[ 255 ] uint8x `" ++ [233]%N ++ runes_of_ascii "` , } MetaData // c
pack { As Foo , }")).
Eval vm_compute in ("<<<M1791>>>" ++ check (runes_of_ascii "

  packet stringy{ }	// packet A { u8 x, }
  	packet u128 
{
    u16
    len @lengthOf(
u128
)	, 
      //x
	}
")).
Eval vm_compute in ("<<<M1586>>>" ++ check (runes_of_ascii "options
	{_x  =	""`tick`""
;  matchKey
	=
	""it's""
    ; options1 = u16

;
stringy
	=true
    // c
      }
")).
Eval vm_compute in ("<<<M920>>>" ++ check (runes_of_ascii "packet A {
    Inner {
        u8 x `a
b`,
        Deep {
            u8 y `a
b`,
        },
    },
}")).
Eval vm_compute in ("<<<M590>>>" ++ check (runes_of_ascii "
packet
    asx {match u128 as lengthOf
MetaData
//	t
// `tick` ""quote"" 'q'
255 : x ,
    } ,	}")).
Eval vm_compute in ("<<<M891>>>" ++ check (runes_of_ascii "packet A {
  match k as n {
    [1, 22, 007, 4, 5, 66, 7, 8, 9, 10, 11] : B,
    2 : C
  },
}")).
Eval vm_compute in ("<<<M388>>>" ++ check (runes_of_ascii "root packet SimpleMessage {
    uint16 MsgType `" ++ [28040; 24687; 31867; 22411]%N ++ runes_of_ascii "`,
    string JsonBody `Json" ++ [23383; 31526; 20018; 28040; 24687; 20307]%N ++ runes_of_ascii "`,
}")).
Eval vm_compute in ("<<<M874>>>" ++ check (runes_of_ascii "packet A {
  match k as n {
    [1, 22, ""c c"", 4, 5, ""f"", 7, 8, ""i""] : B
    2 : C
  },
}")).
Eval vm_compute in ("<<<M846>>>" ++ check (runes_of_ascii "packet A {
  match k as n {
    [""a"", 22, ""c c"", 4, ""e"", 66, ""g""] : B
    2 : C
  },
}")).
Eval vm_compute in ("<<<M966>>>" ++ check (runes_of_ascii "packet A {
    u32 crc @calculatedFrom(""x\
y""),
    @calculatedFrom(""x\
y"") u8 y,
}")).
Eval vm_compute in ("<<<M1512>>>" ++ check (runes_of_ascii "packet Inner {
    u8 a,
}

root packet P {
    repeat Inner items,
    u8 x,
}")).
Eval vm_compute in ("<<<M810>>>" ++ check (runes_of_ascii "packet A {
  match k as n {
    [""a"", ""bb"", 007, ""d""] : B,
    2 : C
  },
}")).
Eval vm_compute in ("<<<M1807>>>" ++ check (runes_of_ascii "packet

    body 
	    // c

	{

i32 
f32a

`{ , }`	, 
}options{
	} ")).
Eval vm_compute in ("<<<M1815>>>" ++ check (runes_of_ascii "

  MetaData

    M{

u8 x
`a
    b
  c`
, T

t `a
    b
  c`, }
")).
Eval vm_compute in ("<<<M365>>>" ++ check (runes_of_ascii "MetaData x_y_z { i8i8 u8x , string	uint8x
    `crlf
line` , }")).
Eval vm_compute in ("<<<M1255>>>" ++ check (runes_of_ascii "root packet P {
    hdr {
        u8 a,
    },
    u8 x,
}
")).
Eval vm_compute in ("<<<M1772>>>" ++ check (runes_of_ascii "MetaData M {
    u8 x `a
    b`,
    T t `a
    b`,
}")).
Eval vm_compute in ("<<<M181>>>" ++ check (runes_of_ascii "options{ packetx=// " ++ [27880; 37322]%N ++ runes_of_ascii "
string Logon // " ++ [27880; 37322]%N ++ runes_of_ascii "
=  int8}")).
Eval vm_compute in ("<<<M1587>>>" ++ check (runes_of_ascii "options {
    a = ""\
    "";
    b = ""\
    ""
}")).
Eval vm_compute in ("<<<M1546>>>" ++ check (runes_of_ascii "
// `tick` ""quote"" 'q'
  options

{ }

")).
Eval vm_compute in ("<<<M132>>>" ++ check (runes_of_ascii "options
    { Foo = 0123456789
; }")).
Eval vm_compute in ("<<<M1522>>>" ++ check (runes_of_ascii "options 
{

Packet
=char[] }

")).
Eval vm_compute in ("<<<M1077>>>" ++ check (runes_of_ascii "MetaData M {
}// c
options {}")).
Eval vm_compute in ("<<<M1496>>>" ++ check (runes_of_ascii "
packet 
A {  }// c" ++ [11]%N ++ runes_of_ascii "
 
")).
Eval vm_compute in ("<<<M1069>>>" ++ check (runes_of_ascii "// a// bpacket A {}")).
Eval vm_compute in ("<<<M1132>>>" ++ check (runes_of_ascii "MetaData u // c
{ }")).
Eval vm_compute in ("<<<M1032>>>" ++ check (runes_of_ascii "// c" ++ [11]%N ++ runes_of_ascii "
packet A {
}")).
Eval vm_compute in ("<<<M1019>>>" ++ check (runes_of_ascii "packet A {
}// c" ++ [8239]%N)).
Eval vm_compute in ("<<<M626>>>" ++ check (runes_of_ascii "
packet
    as")).
Eval vm_compute in ("<<<M995>>>" ++ check (runes_of_ascii "// c" ++ [5760]%N)).
Eval vm_compute in ("<<<M734>>>" ++ check ([65279]%N)).
