From FP Require Import Lexer Parser ShowPT Digest Formatter.
From Coq Require Import String List NArith.
Import ListNotations.
Open Scope string_scope.
Set Printing Width 100000000.
Set Printing Depth 100000000.
Definition show_fres (r : fres) : string :=
  match r with
  | FOk s => "OK:" ++ sh_escaped s ""
  | FErr s => "ERR:" ++ sh_escaped s ""
  | FPanic p => "PANIC:" ++ p
  end.
Definition check (rs : list rune) : string := digest (show_fres (format_res rs)).
Definition full (rs : list rune) : string := show_fres (format_res rs).
Eval vm_compute in ("<<<M168>>>" ++ check (runes_of_ascii "  packet charz{
    body{
// " ++ [128512]%N ++ runes_of_ascii " emoji
// c
repeat float32 int
`100% of %d`
, // 50% %s
u32 // " ++ [128512]%N ++ runes_of_ascii " emoji
charz@lengthOf( rootA
    )	, match len as stringy
{
[""" ++ [28040; 24687]%N ++ runes_of_ascii """ , 7 , 0123456789 , 0
    ,
0123456789 ] // @lengthOf(
:// `tick` ""quote"" 'q'
options1 , 255 : //	t
MetaDataX,} , u8
o
`// not a comment` , }
,// " ++ [27880; 37322]%N ++ runes_of_ascii "
@tag(// c
42
) // 50% %s
@tag( 7
// a // b
//x
)@lengthOf( crc )	char[] Header @lengthOf( crc )
`100% of %d`
    , zchar[ 255]
body`crlf
line`
,//
i8// c
u128 `{ , }` , } packet string_
{
}packet
    rootA {
match A as rootA  {
[""a\\""
// trailing space 
// 50% %s
,
0 ,
    ""CRC32"" ,42 , ""abc""
    , 65535 ,// " ++ [27880; 37322]%N ++ runes_of_ascii "
""x y"" , 0123456789
]
: f32a, ""it's""
    // c
    : crc ""CRC32"" : msg_type  ,	""a\""b""
: pack
    ,
    } , @rightPad( '\x00'
    ) charz falsey
`{ , }` , char[] len , @calculatedFrom(
    ""// no comment"" )@calculatedFrom( """ ++ [233]%N ++ runes_of_ascii "t" ++ [233]%N ++ runes_of_ascii """ ) @lengthOf(  i64_
) char[
    007 ] _x `{ , }`
    // 50% %s
    ,
packetx T ,
    @lengthOf(stringy )repeat
    // `tick` ""quote"" 'q'
    float64	i8i8
    ,
    // trailing space 
    char[] asx`doc`  ,  @lengthOf(  Header
)@calculatedFrom( ""{,}"" )repeat options1 { float32 matchKey  ,}
, }  root packet o
{ string
// `tick` ""quote"" 'q'
//	t
pack @calculatedFrom(
""1"" ) , @calculatedFrom(
""\n"" )match
    u
    // trailing space 
    as options1{ [
    ""CRC32""
    , // " ++ [128512]%N ++ runes_of_ascii " emoji
7 ,
    0 ,
    //x
    ""\n"" , ""\" ++ [233]%N ++ runes_of_ascii """,""" ++ [233]%N ++ runes_of_ascii "t" ++ [233]%N ++ runes_of_ascii """ , 10	] :
Logon
    , 0  :
    // packet A { u8 x, }
    len , ["""" ] : // 50% %s
uint8x [ 7, 0123456789 ,	3
,007 , ""\n"" , 10
    // " ++ [27880; 37322]%N ++ runes_of_ascii "
    , 1 ] :
Packet ""packet"" :
Header ,  }
    /// triple
    , o	@calculatedFrom( ""a\\"" ), @calculatedFrom( ""1"" )
    match zchar as roots {  [""x y""
,""\n"" ,
    """ ++ [233]%N ++ runes_of_ascii "t" ++ [233]%N ++ runes_of_ascii """ , // 50% %s
00 , ""{,}"" ] : lengthOf } , @leftPad ( ) zchar[ 0123456789
]
    // a // b
    leftPad`say ""hi""`,
    // a // b
    @calculatedFrom( ""abc"")
match
    //x
    As
    as _x{ ""{,}"": stringy ""\" ++ [233]%N ++ runes_of_ascii """	: Logon // @lengthOf(
, [
    00 ] : Pad ,""it's""	:
i64_ , [ """" // trailing space 
,
""x y""
]
:Logon ,
    // trailing space 
    }, }
    options {
    //x
    a1// c
= ' ' ;
//
// @lengthOf(
}")).
Eval vm_compute in ("<<<M1311>>>" ++ check (runes_of_ascii "packet o
{
//	t
// trailing space 
match u128
as A { ""x y"" :
    len , ""a\""b""
:
i8i8 , [
10
,
7 ,  0 ,00, """ ++ [128512]%N ++ runes_of_ascii """ ,  0123456789 //
] : i8i8 ,
    42 : lengthOf , 65535 : /// triple
f32a ,
    ""abc"" :
Logon }
, // packet A { u8 x, }
@tag(
    0123456789 )
@tag( 3 )
@leftPad (
' ' ) zchar[
007 ]
    calculatedFrom
    @lengthOf(	tag ) `doc` , @calculatedFrom( ""\n"") @calculatedFrom( """ ++ [28040; 24687]%N ++ runes_of_ascii """ )a1 Foo
`u8 x,` , calculatedFrom { repeat // `tick` ""quote"" 'q'
int{ uint8 tag @calculatedFrom( """ ++ [128512]%N ++ runes_of_ascii """
    //	t
    )
// " ++ [27880; 37322]%N ++ runes_of_ascii "
// trailing space 
`u8 x,` ,	zchar[
    // @lengthOf(
    3
]
i8i8 @calculatedFrom( ""\" ++ [233]%N ++ runes_of_ascii """ ) `two words`
, repeat //x
f32a{
match
uint8x as uint8x { ""CRC32""  :metadata ,
    //	t
    """" : roots },
    } ,} , }	, u8x pack
,
@tag(0123456789 ) repeat BodyLength {
repeat x {  match roots	as Packet {""\n""// trailing space 
:options1 , ""a\""b"": metadata ,/// triple
[ ""\n"" , // 50% %s
""" ++ [128512]%N ++ runes_of_ascii """ , ""a\\""  , 7	, ""a	b"" , ""x y"", 3, ""a\\"" ] :
BodyLength ,
// " ++ [128512]%N ++ runes_of_ascii " emoji
// trailing space 
} , repeat
stringy , // @lengthOf(
}, repeat string
    metadata
    , zchar[ 10 ] int @lengthOf(uint8x ) ,
    rootA
@lengthOf( crc )  `two words` ,} , @tag(
    // c
    7 ) // 50% %s
@rightPad ( '\x00' ) @calculatedFrom( ""\n"" ) int8 Logon, repeat charz chars , u16 matchKey @calculatedFrom(  ""x y"") , } root packet _x{  @calculatedFrom(""x y"" ) float a1// trailing space 
, u32  u128	@lengthOf( u128 ) // `tick` ""quote"" 'q'
`doc`,
    zchar[ 10	]
    A // 50% %s
`crlf
line` // packet A { u8 x, }
, repeat int64
metadata
    // packet A { u8 x, }
    `line1
line2`, zchar@calculatedFrom( ""a\""b"" )
    /// triple
    `" ++ [28040; 24687; 31867; 22411]%N ++ runes_of_ascii "` , @leftPad (
) repeat Logon ,// 50% %s
}
")).
Eval vm_compute in ("<<<M1030>>>" ++ check (runes_of_ascii "MetaData msg_type	{ char[]
    // trailing space 
    Logon `say ""hi""`
, } MetaData
    a1 {a1 options1
    ,
    zchar[ 10 ] uint8x
    `two words`
, asx
As
    , char[65535 ] tag , uint8x f32a
    `a\`
, zchar[ 007 ]
calculatedFrom, } MetaData lengthOf {char[]metadata , } root
    packet chars{@tag( 7
)f32a ,@rightPad ( )x {
    char tag @calculatedFrom( ""`tick`"" )
`crlf
line` ,
    char[]
u8x
    @calculatedFrom(
    ""CRC32"" ) , repeat Pad Logon
,}  , @calculatedFrom(
    ""1"" ) // @lengthOf(
_x _x ``
,}
    // trailing space 
    packet tag { int64
len	@calculatedFrom( ""a\\""
) `line1
line2`,@tag( 7 ) tag,@lengthOf( i64_ ) uint16 T ,f64 falsey	@lengthOf( o ) , @tag(
//
// @lengthOf(
0
    // packet A { u8 x, }
    )	match o as
    // `tick` ""quote"" 'q'
    options1 { 007: Logon ,
    [
255
    ,	1
] : uint8x ,
[
    ""a\\"" ,
""// no comment""
] :
//x
// `tick` ""quote"" 'q'
rootA, 255
:	T ,[ """ ++ [233]%N ++ runes_of_ascii "t" ++ [233]%N ++ runes_of_ascii """]
: f32a }
    , @tag(
4294967296 ) @tag(
4294967296) @rightPad ( ) match asx as As
{  65535 : repeatCount ,
""`tick`"" :tag ,	""""
    : // 50% %s
matchKey
    , // packet A { u8 x, }
""packet"" : As 7:
    metadata
    """ ++ [128512]%N ++ runes_of_ascii """
: Z9_ } , zchar {	char[] trueish ,u16 // c
o  `doc` // `tick` ""quote"" 'q'
, char[42 ]
// 50% %s
//x
calculatedFrom // " ++ [27880; 37322]%N ++ runes_of_ascii "
@lengthOf( metadata
    ) ,
    int16
    // c
    u8x
, } , @leftPad  (
// a // b
// `tick` ""quote"" 'q'
'\x00'
) @leftPad	( ) repeat uint16  MetaDataX`it's`
,
//x
// @lengthOf(
}")).
Eval vm_compute in ("<<<M4451>>>" ++ check (runes_of_ascii "
packet trueish
{u16 trueish
    ,@calculatedFrom( ""abc""	)
f64
MetaDataX	@calculatedFrom(
    ""\" ++ [233]%N ++ runes_of_ascii """  //	t
  )
,
	match
len  // " ++ [27880; 37322]%N ++ runes_of_ascii "
    	as

    Logon{

65535  :  string_
, """ ++ [233]%N ++ runes_of_ascii "t" ++ [233]%N ++ runes_of_ascii """ 

// 50% %s

//	t
    	:// `tick` ""quote"" 'q'
u128,
    [007 
,0123456789
    // a // b
		//
]	:string_  }
	,	@lengthOf( string_  )int8 repeatCount , 
@leftPad (  //

  ) roots
    x
	    // a // b
    	,
string //	t

	chars
`crlf
line`	,
    u
	u128
	,
@calculatedFrom(

""`tick`""
    )

    u16  asx@lengthOf(  // trailing space 
i8i8),
string
	//	t
    // 50% %s
  leftPad	`doc` 
, f32 
falsey
,
    }

    options{ stringy =
	""1"" 

// trailing space 
	;
	float 
=	// a // b
    i64

    ; 
calculatedFrom=
    ""it's"" // a // b
;
Z9_=	""// no comment""	// trailing space 
    ; }
packet Pad {  // @lengthOf(
	leftPad repeatCount `a\`,	zchar[  0

]

chars
    , 
} 
packet charz
{	match

As as Header  {
42
: As
, } ,
    @calculatedFrom(""\" ++ [233]%N ++ runes_of_ascii """	// 50% %s
)

    //x
  // packet A { u8 x, }
	@tag(

42)@rightPad
    (
    '0'
)
    repeat
Packet 
x
, body  asx
    ,  //x
	float64
MetaDataX 
	//	t
    // c
	  , body 

    //x
  stringy, match
    Header  as
uint8x
	{""x y"" :
i8i8
255  
  /// triple
	:
    trueish

, """ ++ [28040; 24687]%N ++ runes_of_ascii """
:
	rootA
	,
    ""packet""	:

    trueish 
,
	},

} ")).
Eval vm_compute in ("<<<M34>>>" ++ check (runes_of_ascii "packet leftPad{ @rightPad (
    // `tick` ""quote"" 'q'
    '0'
)	MetaDataX
    body , @calculatedFrom( ""a\\"" ) string float  `two words` , zchar[ 00
//x
// trailing space 
]
tag //
@lengthOf(
A )
    `tab	here` // c
,@tag( 42 ) @lengthOf( chars )  @leftPad('0'// `tick` ""quote"" 'q'
) // 50% %s
match Logon as int	{
    255: Z9_
    ,
} // trailing space 
, @leftPad
( '\x00' ) repeat	trueish{  match  MetaDataX as msg_type { [ 0
    //
    ,
""" ++ [28040; 24687]%N ++ runes_of_ascii """ ,
    ""CRC32"" ] :
    //	t
    As , 0123456789 : BodyLength
    65535 : falsey,  }
,} //x
, @calculatedFrom( ""a\\"" )@lengthOf( len ) repeat
    stringy A , calculatedFrom@calculatedFrom( """ ++ [28040; 24687]%N ++ runes_of_ascii """) , }packet A { @rightPad ( '0' ) Logon ,}root packet f32a { @rightPad ( )Header `" ++ [233]%N ++ runes_of_ascii "` // @lengthOf(
, } packet u { repeatCount{ i8i8 @lengthOf( msg_type  )	`u8 x,`, repeat Foo {
// @lengthOf(
// @lengthOf(
repeat Z9_`
`, },
char[] roots ,
    /// triple
    } // " ++ [128512]%N ++ runes_of_ascii " emoji
,
@calculatedFrom( // " ++ [27880; 37322]%N ++ runes_of_ascii "
""{,}""	)
f32 // a // b
u128`
` ,
falsey
, @calculatedFrom( ""a\\"" )tag{ charz { rootA ,},} , @tag(//	t
65535 ) @tag( 0123456789 ) // trailing space 
@tag(
    255 )char[]
Z9_ `line1
line2` , @rightPad ('\x00')
char[] chars ,charz falsey , stringy , }")).
Eval vm_compute in ("<<<M3841>>>" ++ check (runes_of_ascii "  root

packet
	tag	{
float float 
,
char[] calculatedFrom
	@calculatedFrom( ""packet"" )

`say ""hi""`	,
int8
	pack	@lengthOf(  A ) 
,

@tag(

    255  // 50% %s
	) @calculatedFrom(""abc""

    ) @lengthOf( repeatCount 
) string  Logon `" ++ [233]%N ++ runes_of_ascii "`

, uint16 
u
	@lengthOf(tag

    ) // trailing space 

`two words` ,
	@tag( 4294967296 )  @calculatedFrom( ""x y"" )  @tag(	7

    )zchar[
00 ]

    trueish ,repeat
i8i8

    {i64

    a1

`{ , }` ,}

    , }// c
  packet tag  {//	t
    repeat repeatCount{
    // 50% %s
i8i8 
@calculatedFrom(
""// no comment""  )

`" ++ [28040; 24687; 31867; 22411]%N ++ runes_of_ascii "`//x
  , char[]	matchKey
@calculatedFrom( """ ++ [233]%N ++ runes_of_ascii "t" ++ [233]%N ++ runes_of_ascii """ 

// c
	//
)  // @lengthOf(
  	`line1
line2`
    ,
    }

,
repeat
    zchar[42
	]	body	, @calculatedFrom(""" ++ [233]%N ++ runes_of_ascii "t" ++ [233]%N ++ runes_of_ascii """ )	@calculatedFrom(	//x
    ""\n"" ) @leftPad

    (	'0'  )
match
tag
    as
len	{

""CRC32""
:	_x	[  """"// c
	]

:
    matchKey

    , } ,
	@lengthOf(  i8i8 )
zchar[ 00

] pack
@calculatedFrom(""1"" ) ,

pack{
stringy `doc`
,  // `tick` ""quote"" 'q'
    match
f32a	//x
  	as calculatedFrom  { [	// " ++ [27880; 37322]%N ++ runes_of_ascii "
    	""a	b""
,00 
,
007
,

""a	b""
] 
:u8x

    }  /// triple
	,}

,
	}// a // b")).
Eval vm_compute in ("<<<M741>>>" ++ check (runes_of_ascii "
options { /// triple
repeatCount =
    '\x00'  u128= ' '; A  =
    00 int	='0' stringy=3 ; } options	{
float
=false  ;options1 =""`tick`""  ;
    rootA
    =
    ' '
    ; T='0' ;}packet charz{ @lengthOf( int )repeat i16
uint8x `say ""hi""`
,
repeat zchar[ 255
]Z9_ ,  metadata
,@tag( 007 // `tick` ""quote"" 'q'
)// c
Packet{ char[ 1 //x
]
x , // " ++ [27880; 37322]%N ++ runes_of_ascii "
match asx as
x//x
{ 00: len
[ """"// packet A { u8 x, }
,
    ""a\\"" ] : crc, 10
    :
    matchKey 10 : leftPad } , match//x
stringy
as A{ ""1""
: i64_ , 7// c
:  As,
""{,}""
    : i8i8,
}
    ,	zchar[007  ]
matchKey , } // packet A { u8 x, }
, repeat zchar[  7 ] trueish ,@tag( 42 )  u8
// `tick` ""quote"" 'q'
// `tick` ""quote"" 'q'
metadata @lengthOf(Packet  )
// trailing space 
// `tick` ""quote"" 'q'
, @calculatedFrom(
// `tick` ""quote"" 'q'
// " ++ [128512]%N ++ runes_of_ascii " emoji
""a	b"")
i8 i64_ `line1
line2` , repeat	A  { chars {char[	1  ]stringy @calculatedFrom( ""1"" ) , }
, repeat char[]
Z9_  , repeat
    u128`" ++ [28040; 24687; 31867; 22411]%N ++ runes_of_ascii "` , chars @lengthOf(
asx // " ++ [128512]%N ++ runes_of_ascii " emoji
) ,
} , } packet Foo
{
} MetaData
asx  { char[] Header `doc` ,} 	 ")).
Eval vm_compute in ("<<<M4173>>>" ++ check (runes_of_ascii "
options {LittleEndian  =

false

;

    StringPrefixLenType= 
u16	;
    ArrayPrefixLenType =

u16;FixedStringPadFromLeft	=

    false
    ; 
FixedStringPadChar  = ' ' ;
	} packet
Heartbeat

    { i32  f1
,
	}packet 
Cancel 
{char[]Note

, }
packet Fill
{
u32
	price ,  float64	Ref, zchar[ 8

] tag7,
	repeat

    Cancel ,

    int64
Acct
,}  packet
Quote { @rightPad(
    '0'

)  char[
12 ]count	,
    char[]

seqNo	,
}

root 
packet Party{

    Fill, InMsgkind30	{ repeat
    u16	Ref,
	repeat
	InCount61
{repeat
    i8
sym

, 
char[]  Ref , repeat

char[ 4	]

    Qty

,	repeat Heartbeat ,

    } , u32
	venue
    , uint16	Flags, },	u8
	Px  , repeat

    u16 Side2
	,@rightPad(

'0' )

char[
	10
]
	Qty
	, @rightPad	('\x00' )

char[
    1
    ] clOrdID

    ,  u8 
Tail	,
	match

Tail
	as Body{  [ 159 , 182	] :
Quote , 155
:Heartbeat ,  178
:

    Fill

,  49 
:
    Cancel

    ,
}
	,u16

    Ref @calculatedFrom(  ""CRC32"" 
), 
}

")).
Eval vm_compute in ("<<<M23>>>" ++ check (runes_of_ascii "
MetaData Z9_ {
    // packet A { u8 x, }
    char chars// " ++ [128512]%N ++ runes_of_ascii " emoji
`100% of %d`
,
} packet
As { zchar[ 255 ]  int , Pad { match pack as BodyLength{10: f32a,
    // @lengthOf(
    [
    0 ,
    00
,1
    , ""a	b"" ,
    ""// no comment"" ] : charz
,	} , T
    ,
repeat
    _x { match
matchKey as string_ {  [ ""it's"" ,0123456789 ] : body [ 00] :
charz 00
: Z9_ , } , char[ 007 ]
    lengthOf
/// triple
// @lengthOf(
`line1
line2`
    , }
    ,
    }, @leftPad ( ) repeat// a // b
string lengthOf ,int16
BodyLength`crlf
line` ,  @tag( //x
255
    // c
    )@tag(10 )
    match	calculatedFrom as chars	{""" ++ [233]%N ++ runes_of_ascii "t" ++ [233]%N ++ runes_of_ascii """ : Header 4294967296
: _x// a // b
[ 0123456789 , """", ""1""
    //
    ] :leftPad// packet A { u8 x, }
, 007 :u
    //	t
    , }
, //	t
uint8 Logon @lengthOf( msg_type),match roots as len { [3
    ,
    7
, ""`tick`"" ]
    : pack ,} , //	t
@leftPad (	' ' )// @lengthOf(
u8 a1
, repeat f64 u ,uint8 u8x `a\` , }
//x
")).
Eval vm_compute in ("<<<M3956>>>" ++ check (runes_of_ascii "
packet// 50% %s
int
    {
// " ++ [27880; 37322]%N ++ runes_of_ascii "
u16
    trueish // `tick` ""quote"" 'q'
    , 
zchar[  1 ] 
zchar @lengthOf(

chars), repeat	zchar[ 
10
    // c
	// " ++ [128512]%N ++ runes_of_ascii " emoji

	] msg_type `line1
line2` ,

@calculatedFrom(
	""a\\""	) @rightPad // trailing space 
  (	//	t

' '	)string Z9_	`it's` 
// a // b
    // 50% %s

,

    repeat 	 // packet A { u8 x, }
  rootA {  // c
  zchar[
00
	]
	MetaDataX , } 
,
@calculatedFrom(
""" ++ [233]%N ++ runes_of_ascii "t" ++ [233]%N ++ runes_of_ascii """)

match

    string_  // trailing space 
	as

    leftPad
{
    ""a	b""
    : Z9_	,
	[ ""`tick`"" ,
65535 ]  // " ++ [27880; 37322]%N ++ runes_of_ascii "
	:
    a1
}
    , 
@tag( 007
    )
	    // " ++ [128512]%N ++ runes_of_ascii " emoji
      // @lengthOf(
u16
metadata 

    //
,  @lengthOf(

body	) char[ 
7

] Pad

`// not a comment`  ,
@calculatedFrom( ""a\\""
	) pack

_x
,

    lengthOf
	T ,
    }packet
	BodyLength	{ 
int32
A
,
}
	packet
o

    { float64
roots
,uint8x@lengthOf(
    Logon

    )`two words` ,

    }
")).
Eval vm_compute in ("<<<M3357>>>" ++ check (runes_of_ascii "// top
packet
    // c0
stringy
    // c1
{
    // c2
BodyLength
    // c3
`crlf
line`
    // c4
,
    // c5
@calculatedFrom(
    // c6
""`tick`""
    // c7
)
    // c8
zchar[
    // c9
007
    // c10
]
    // c11
Header
    // c12
,
    // c13
@lengthOf(
    // c14
body
    // c15
)
    // c16
zchar[
    // c17
42
    // c18
]
    // c19
pack
    // c20
,
    // c21
}
    // c22
packet
    // c23
Z9_
    // c24
{
    // c25
@lengthOf(
    // c26
i64_
    // c27
)
    // c28
char[
    // c29
255
    // c30
]
    // c31
u
    // c32
`u8 x,`
    // c33
,
    // c34
@lengthOf(
    // c35
MetaDataX
    // c36
)
    // c37
@calculatedFrom(
    // c38
""\n""
    // c39
)
    // c40
float32
    // c41
Z9_
    // c42
,
    // c43
}
    // c44
options
    // c45
{
    // c46
_x
    // c47
=
    // c48
""it's""
    // c49
;
    // c50
}
    // c51
")).
Eval vm_compute in ("<<<M514>>>" ++ check (runes_of_ascii "
MetaData	Logon
    {  } root
    packet
tag {	uint64
options1`100% of %d` ,}//
options
    // `tick` ""quote"" 'q'
    {f32a =
    char[] ; A	= ' ' ;
x= ""packet"" ; lengthOf = false
    } packet
    a1 {
f32
_x @calculatedFrom( ""1""
) `crlf
line`
, int64
matchKey
    `it's`
, @calculatedFrom(""1""
    ) roots i8i8
, @leftPad ( )
match zchar as crc
// packet A { u8 x, }
//x
{""abc""
    :Packet ,""it's"" :
Pad 7 :
    // trailing space 
    Foo , [ """ ++ [128512]%N ++ runes_of_ascii """  ,
    42  ,
    ""CRC32""
    ,""CRC32"" ,
// c
// " ++ [128512]%N ++ runes_of_ascii " emoji
""x y"" ,
0 , """ ++ [233]%N ++ runes_of_ascii "t" ++ [233]%N ++ runes_of_ascii """ ]: Foo// packet A { u8 x, }
, } ,
uint64
rootA`100% of %d` ,
metadata o `doc`,
    // 50% %s
    string chars ,
//x
// `tick` ""quote"" 'q'
@tag( // 50% %s
0123456789
)  uint8 Packet
@calculatedFrom( ""x y"") `` , uint8 pack
`" ++ [28040; 24687; 31867; 22411]%N ++ runes_of_ascii "`
// packet A { u8 x, }
// `tick` ""quote"" 'q'
, }")).
Eval vm_compute in ("<<<M4007>>>" ++ check (runes_of_ascii "

  MetaData
calculatedFrom//	t
	  {
    i64

packetx	`
`

, 
} packet
	f32a {
zchar 
{ match
MetaDataX  as

As
    { 42
    :
len 
      // `tick` ""quote"" 'q'

,

    """ ++ [28040; 24687]%N ++ runes_of_ascii """ :  zchar
,  [
	""{,}""

, """ ++ [233]%N ++ runes_of_ascii "t" ++ [233]%N ++ runes_of_ascii """
, 007
,

7 
    // packet A { u8 x, }
]
	: x
,
} , 
repeat zchar[

    0 // " ++ [27880; 37322]%N ++ runes_of_ascii "
    ]
zchar ,string_
`
`
    ,
char[]string_
,} , @leftPad ( )u64 _x 
,
    @lengthOf(u128 
)  @calculatedFrom(  ""packet"") 
@leftPad
    (

    ' ' )

repeat
int , 
@calculatedFrom(
    ""packet""  ) msg_type 	 /// triple
  ,

int32
	leftPad`100% of %d`  ,@lengthOf(calculatedFrom)zchar 
@calculatedFrom(	""\n""

    )

    , string  chars

@lengthOf(  matchKey)

    `doc` ,//	t
  } MetaData body
{
	char matchKey	`a\`

    ,
	char[]
    falsey
	, char[42
	]

float ,
	}")).
Eval vm_compute in ("<<<M3560>>>" ++ check (runes_of_ascii "// top
options // c0a
  // c0b
{
    // c1
LittleEndian = // c3a
  // c3b
false // c4
;
    // c5
StringPrefixLenType
    // c6
= u32 ; ArrayPrefixLenType = // c11a
  // c11b
u64 // c12a
  // c12b
; // c13a
  // c13b
FixedStringPadFromLeft // c14a
  // c14b
=
    // c15
false ;
    // c17
FixedStringPadChar // c18
= // c19a
  // c19b
'0'
    // c20
; // c21
} // c22a
  // c22b
packet Fill // c24a
  // c24b
{ // c25a
  // c25b
zchar[ // c26a
  // c26b
6 // c27a
  // c27b
] // c28
price // c29
, // c30
} // c31
root // c32a
  // c32b
packet // c33
Quote // c34a
  // c34b
{ // c35
Fill // c36
, // c37
float32 // c38a
  // c38b
count ,
    // c40
repeat
    // c41
f64 // c42
OrderId
    // c43
, // c44a
  // c44b
} // c45
")).
Eval vm_compute in ("<<<M175>>>" ++ check (runes_of_ascii "MetaData
// 50% %s
//	t
tag
{
    } root packet int
    // packet A { u8 x, }
    {@calculatedFrom(""`tick`"")repeat string len
    // c
    `a\`, @calculatedFrom(
    ""{,}"") char[ 0
] body@lengthOf(MetaDataX) ,u32
    matchKey @calculatedFrom( ""x y"" )  `say ""hi""`
    ,repeat f32
leftPad //x
,
@rightPad ( ) match crc as A { [
""x y""
, 4294967296  ,	42 , """ ++ [233]%N ++ runes_of_ascii "t" ++ [233]%N ++ runes_of_ascii """, 10 ] : a1 007 : x_y_z ,
    7	: repeatCount , ""abc"" :x ,/// triple
""""
:	Logon
[""\n"" , 0123456789]
    :roots// c
, },
match lengthOf as zchar{10 : u8x	,
    42: a1
    [
    ""packet"" ] : T , [ 3
//	t
//
,007
, 65535 , 255, ""a\""b"" , 10 , ""// no comment""] : metadata// packet A { u8 x, }
255 :i64_ ,
}	, float
    metadata , }
")).
Eval vm_compute in ("<<<M4298>>>" ++ check (runes_of_ascii "
packet
	u128 {

    @tag(	// a // b

10 )
char[ 
0123456789]
    A
``

, 
	// c
  	//
    	char[ 1
] matchKey
    `say ""hi""` 
, 
	    // `tick` ""quote"" 'q'
T{
u128
leftPad ,
}, 
@calculatedFrom(

""`tick`"" )
    match

    Logon as

    msg_type{ 	 // c
""it's"" :int

,
	""" ++ [128512]%N ++ runes_of_ascii """ 
    // c
: charz  ""a\\""
:
options1 ,

},}MetaData
    f32a  {	i64 
pack ,
    uint8  /// triple
  int 
,
	tag

packetx

`// not a comment`	, char[ 7  ] charz
	, // c

	a1
As , u32
As 	 // " ++ [27880; 37322]%N ++ runes_of_ascii "
      ,  }

    options { 
_x
	=	1	;  }  packet 
uint8x {	// trailing space 
      @calculatedFrom(
    """" 
)
	u8x lengthOf 
    // @lengthOf(
  // trailing space 
	`say ""hi""`
	, } ")).
Eval vm_compute in ("<<<M1066>>>" ++ check (runes_of_ascii "MetaData options1 { a1 string_ ,
char[] BodyLength `say ""hi""`
,
    string msg_type , string_ pack ,} packet options1
    // `tick` ""quote"" 'q'
    { match	MetaDataX	as
leftPad {	""a	b"" :
x_y_z ,[ ""a\""b""
,""a	b"" ]
: matchKey , [ ""1""
    ]
: _x// packet A { u8 x, }
,
[ ""x y""] :
//	t
// @lengthOf(
pack ,255	: leftPad , ""packet"" :
    Header	, }
, @lengthOf(// `tick` ""quote"" 'q'
body	)
uint16 packetx `line1
line2`// packet A { u8 x, }
,i64 Logon
,int64	A @lengthOf( metadata) ,@rightPad
( ) leftPad// `tick` ""quote"" 'q'
`" ++ [233]%N ++ runes_of_ascii "` ,
    tag
//
/// triple
,} packet len { repeat int64 string_ , @lengthOf( x )
    repeat int16 float , } 	 ")).
Eval vm_compute in ("<<<M3642>>>" ++ check (runes_of_ascii "
options {T	=
	char[]  //x
  ; } root packet
repeatCount{  @lengthOf(BodyLength  )repeat 
char[
3
]
Pad 
`u8 x,`, zchar[ 42
]
u	@lengthOf( 
float ) `doc`

, 
f32	metadata
    `" ++ [28040; 24687; 31867; 22411]%N ++ runes_of_ascii "`  ,
    repeat

uint64

    matchKey ,match i64_

as  calculatedFrom {

""`tick`"" : i64_ ,
} ,@leftPad( ) 	 // c
u64

    MetaDataX
@lengthOf(rootA 
)  ,
	metadata @calculatedFrom( 	 // 50% %s
""it's""

) 

    // c
,

    T {char[] asx@lengthOf( lengthOf 
) ,  } , 

    // `tick` ""quote"" 'q'
  /// triple
  @leftPad 
(  ) len

    packetx `say ""hi""`
	, 
    // `tick` ""quote"" 'q'
  }	// `tick` ""quote"" 'q'
")).
Eval vm_compute in ("<<<M3852>>>" ++ check (runes_of_ascii "packet o {
    match roots as chars {
        """ ++ [28040; 24687]%N ++ runes_of_ascii """ : len,
    },
}

packet chars {
    repeat float64 options1,
    BodyLength {
        Pad @lengthOf(Foo) `" ++ [233]%N ++ runes_of_ascii "`,// `tick` ""quote"" 'q'
        repeat uint16 lengthOf `tab	here`,
    },
    uint8 leftPad,
    uint8 pack `a\`,
    crc,
    @tag(10)
    // trailing space 
    //	t
    char[] o `say ""hi""`,
    @calculatedFrom(""a\""b"")
    // " ++ [27880; 37322]%N ++ runes_of_ascii "
    u128 @calculatedFrom(""it's"") `" ++ [28040; 24687; 31867; 22411]%N ++ runes_of_ascii "`,
    tag,
}

MetaData string_ {
    int8 zchar,
    A stringy,
    A u8x,
    BodyLength o,
    /// triple
    Foo chars `line1
        line2`,
}")).
Eval vm_compute in ("<<<M1020>>>" ++ check (runes_of_ascii "packet string_{ @leftPad ( )
    repeat repeatCount
{ msg_type @lengthOf( BodyLength ) `say ""hi""`
,
    match zchar
as body{ 0:	calculatedFrom, [ """ ++ [233]%N ++ runes_of_ascii "t" ++ [233]%N ++ runes_of_ascii """
    // @lengthOf(
    , 7
    ] // c
: options1 , } ,
repeat // @lengthOf(
zchar
{len @calculatedFrom(
""a\""b""
) ,
//	t
//x
rootA@calculatedFrom( ""`tick`"") `
`,
    } , }, repeat // packet A { u8 x, }
uint64 msg_type ,
    @tag(
// @lengthOf(
// @lengthOf(
255
    ) // a // b
repeat string_ { match
rootA as i8i8 { [ """ ++ [233]%N ++ runes_of_ascii "t" ++ [233]%N ++ runes_of_ascii """ , ""x y"", ""`tick`"" , ""\" ++ [233]%N ++ runes_of_ascii """	,
00 ] :
options1,
    ""abc"":	u128, }
    , }, }
")).
Eval vm_compute in ("<<<M3607>>>" ++ check (runes_of_ascii "root packet repeatCount {
}

options {
    metadata = 65535;
    falsey = false;
    i8i8 = '\x00';// 50% %s
    As = true
}

//	t
root packet int {
    int8 len,// a // b
    @tag(3)
    body `it's`,
    repeat repeatCount f32a,
    int8 u128 @lengthOf(stringy) `{ , }`,
    @calculatedFrom(""" ++ [233]%N ++ runes_of_ascii "t" ++ [233]%N ++ runes_of_ascii """)
    @lengthOf(f32a)
    @calculatedFrom(""abc"")
    match roots as int {
        """ ++ [233]%N ++ runes_of_ascii "t" ++ [233]%N ++ runes_of_ascii """ : A,
    },
    @leftPad()
    char[42] string_ @calculatedFrom(""`tick`""),
    @calculatedFrom(""`tick`"")
    repeat calculatedFrom Header,
}/// triple")).
Eval vm_compute in ("<<<M4120>>>" ++ check (runes_of_ascii "// top
packet stringy {
    // c2
    BodyLength `crlf
        line`,
    // c5
    @calculatedFrom(""`tick`"")
    // c8
    zchar[007] Header,
    // c13
    @lengthOf(body)
    // c16a
    // c16b
    zchar[42] pack,
}

// c22
packet Z9_ {
    // c25
    @lengthOf(i64_)
    // c28
    char[255] u `u8 x,`,// c34a
    // c34b
    @lengthOf(MetaDataX)
    // c37a
    // c37b
    @calculatedFrom(""\n"")
    // c40
    float32 Z9_,// c43a
    // c43b
}

options {
    // c46
    _x = ""it's"";// c50
}// c51a
// c51b")).
Eval vm_compute in ("<<<M4467>>>" ++ check (runes_of_ascii "packet Packet {
    @calculatedFrom(""a	b"")
    @calculatedFrom(""it's"")
    @calculatedFrom(""// no comment"")
    trueish {
        char[] charz @calculatedFrom(""\n""),
    },
    @rightPad('0')
    @tag(255)
    len {
        zchar[65535] f32a,
    },
    f64 i8i8 `line1
        line2`,
    @rightPad('\x00')
    repeat int `two words`,
    As Pad `{ , }`,
    @rightPad('\x00')
    pack `doc`,
    @tag(1)
    f32 tag,//x
    zchar[3] i64_,
    uint64 trueish @calculatedFrom(""CRC32""),
}")).
Eval vm_compute in ("<<<M719>>>" ++ check (runes_of_ascii "
root packet stringy {
match pack as x_y_z
{	""CRC32"" : asx
,
3	:
    roots , """"
    // `tick` ""quote"" 'q'
    : zchar 255 : A // `tick` ""quote"" 'q'
,
    [
10 , // trailing space 
""a	b""
, ""a	b"" //
,
255, """ ++ [233]%N ++ runes_of_ascii "t" ++ [233]%N ++ runes_of_ascii """ ,
""CRC32""
// a // b
//x
,
// trailing space 
// @lengthOf(
3
    ]
//	t
// " ++ [128512]%N ++ runes_of_ascii " emoji
: packetx ,1 :options1
    ,
} ,
}
    packet i64_
{
    } packet roots {
    @tag( 0123456789) repeat
    x Packet, } MetaData Logon
{
}options {
    tag = """ ++ [128512]%N ++ runes_of_ascii """}
// c
")).
Eval vm_compute in ("<<<M3548>>>" ++ check (runes_of_ascii "options {
    StringPrefixLenType = u8;
    ArrayPrefixLenType = u16;
    FixedStringPadChar = '0';
}
packet Fill {
    char[6] Acct,
    u64 venue,
}
root packet Logout {
    char[] Tail,
    repeat i8 f1,
    float64 msgKind,
    zchar[3] Note,
    uint64 count,
    @leftPad(' ') char[12] Px,
    u32 OrderId,
    u16 tag7 @lengthOf(Body),
    match OrderId as Body {
        [35, 107] : Fill,
    },
    u32 Ref @calculatedFrom(""CRC32""),
}
")).
Eval vm_compute in ("<<<M1120>>>" ++ check (runes_of_ascii "root
packet packetx
{
    char[255
    // c
    ]
    T, @tag(
    00
    )
    // packet A { u8 x, }
    len
{ string repeatCount
    `two words`, repeat Logon u , uint64 lengthOf , /// triple
char[]
Logon `{ , }`
    , } ,repeat u64 asx , @calculatedFrom( ""a\""b""
//
// c
) repeat int8 MetaDataX ,@calculatedFrom( ""abc""
    )	uint64 tag
`// not a comment`, @tag( 255 ) i8 len
, // packet A { u8 x, }
uint8 chars `it's` , }
")).
Eval vm_compute in ("<<<M4297>>>" ++ check (runes_of_ascii "options {
}

packet x {
    @lengthOf(BodyLength)
    charz _x `doc`,
    //x
    // packet A { u8 x, }
    @calculatedFrom(""abc"")
    o matchKey,
    @tag(255)
    char repeatCount @lengthOf(i64_),
}

root packet len {
    @leftPad('\x00')
    //x
    // " ++ [27880; 37322]%N ++ runes_of_ascii "
    Z9_ @lengthOf(asx) ``,
}

packet metadata {
    char[00] packetx @lengthOf(i8i8),
    int32 Packet @lengthOf(x_y_z),
    @tag(1)
    repeat uint8 len,
}")).
Eval vm_compute in ("<<<M123>>>" ++ check (runes_of_ascii "packet zchar{ } packet
    // " ++ [27880; 37322]%N ++ runes_of_ascii "
    Logon{
// a // b
// @lengthOf(
char[  42
    ]zchar  ,
}// " ++ [27880; 37322]%N ++ runes_of_ascii "
MetaData // " ++ [128512]%N ++ runes_of_ascii " emoji
calculatedFrom {char[
10]	x_y_z `it's` , char[ 0 ] options1
    //	t
    ,
float32 Logon `" ++ [28040; 24687; 31867; 22411]%N ++ runes_of_ascii "`
    , string stringy `line1
line2` , zchar[ 42 ]
BodyLength,options1 f32a
`it's` , } MetaData roots {string
i64_// @lengthOf(
, }
// @lengthOf(
// packet A { u8 x, }
MetaData A
    {
}")).
Eval vm_compute in ("<<<M1121>>>" ++ check (runes_of_ascii "// " ++ [27880; 37322]%N ++ runes_of_ascii "
packet u128	{tag
pack , int16
stringy// 50% %s
,
}options
{ tag= 7
;}
packet
falsey {}packet
string_ { uint16 len
    `line1
line2`//	t
, f64 Foo@calculatedFrom(
""it's""), @tag( 007 ) @leftPad(
// " ++ [27880; 37322]%N ++ runes_of_ascii "
// " ++ [27880; 37322]%N ++ runes_of_ascii "
' ' ) char[] string_
`100% of %d`, @lengthOf(
A
) i8i8{ // packet A { u8 x, }
float64
falsey @lengthOf( body ) ,
    } ,
char[65535  ] i8i8  `// not a comment` ,  }
")).
Eval vm_compute in ("<<<M1134>>>" ++ check (runes_of_ascii "MetaData lengthOf {//
char[ 00 ] falsey ,
string packetx `crlf
line` ,
    charz _x , crc
metadata , uint32 metadata//x
`tab	here`	, u16
// @lengthOf(
// " ++ [27880; 37322]%N ++ runes_of_ascii "
i64_ ,}
    MetaData As {
char[]crc
    , i8 T , u8
u
    , // `tick` ""quote"" 'q'
string crc`line1
line2` , i16 leftPad, }
    root
packet // c
crc
{
    // packet A { u8 x, }
    i32 uint8x `line1
line2` , }")).
Eval vm_compute in ("<<<M350>>>" ++ check (runes_of_ascii "MetaData asx
{int32 leftPad,
    options1 packetx`" ++ [233]%N ++ runes_of_ascii "`	,	zchar[	1 ] rootA , u8x  repeatCount
`// not a comment`, i8i8 uint8x
, roots asx
    `say ""hi""`  , }// trailing space 
root
packet msg_type { @tag( 0
)
repeat Foo
    `it's` ,zchar[ 65535	]leftPad	`doc` ,// c
Packet	@calculatedFrom(  ""a	b""
// " ++ [27880; 37322]%N ++ runes_of_ascii "
//x
) , } packet trueish {
repeat leftPad u8x , }")).
Eval vm_compute in ("<<<M415>>>" ++ check (runes_of_ascii "packet
    // " ++ [128512]%N ++ runes_of_ascii " emoji
    Logon{@calculatedFrom(""x y"" ) @rightPad
    //x
    ( ' ' ) @lengthOf( crc// 50% %s
)
    // `tick` ""quote"" 'q'
    i16
    stringy
@calculatedFrom(	""`tick`"") , match
    // 50% %s
    a1 as a1 {
    [	0
, 42]
//
// trailing space 
:  falsey , 1:
    // c
    rootA ,
    """ ++ [233]%N ++ runes_of_ascii "t" ++ [233]%N ++ runes_of_ascii """ :
packetx , 10 : x
, }
,
    }
")).
Eval vm_compute in ("<<<M3576>>>" ++ check (runes_of_ascii "options {
    LittleEndian=	true ;

    } 
packet Logon{
u8

x
    ,
}	packet  Logout

    { u16  reason,}
root 
packet

    Frame {	u16
    Kind,
    u16  Kind2

    ,
match
Kind  as 
Body
{1 :  Logon
	,
[2

, 3	,

    4 ]
: Logout,  100
    :

Logon ,}

,match Kind2	as	Trailer {
0

:
    Logout ,	} ,

    }

")).
Eval vm_compute in ("<<<M4396>>>" ++ check (runes_of_ascii "// a // b
    MetaData
	int  {u8
	string_
    `two words`
, 
        //	t
	i32

    A

    `
` ,
    }
    root

    packet 
rootA{ @leftPad ( 
)
match
x	as
    falsey {  [ 10  ]

    :
    string_	0123456789 :

    //
    uint8x
    , },	@tag( 

    // c
    0	)
x_y_z 
u  ,
}
root 
packet zchar	{}
")).
Eval vm_compute in ("<<<M4026>>>" ++ check (runes_of_ascii "  // top

	options// c0a
    	// c0b
	{// c1
      LittleEndian 
  // c2
= true 	 // c4
	;
    // c5
	} // c6a
    // c6b

	root 	 // c7a
    	// c7b
  	packet 
P// c9a
    // c9b

{repeat	// c11
  char
    cs // c13
	,
        // c14
  u8 	 // c15
    x	// c16a
  // c16b
,
} // c18a

// c18b
")).
Eval vm_compute in ("<<<M4260>>>" ++ check (runes_of_ascii "root
	packet charz	{ match 
        // trailing space 

// trailing space 

  f32a
    as
lengthOf  {
[ ""1""] :asx ,
""" ++ [233]%N ++ runes_of_ascii "t" ++ [233]%N ++ runes_of_ascii """
:f32a
	,
// c
  	[7 
, ""1""

    , ""\n""
]

    :	// 50% %s
  uint8x , """"
: rootA
, }

    ,

    } 
    // " ++ [27880; 37322]%N ++ runes_of_ascii "
  // @lengthOf(
	packet

    Header

{}

")).
Eval vm_compute in ("<<<M1862>>>" ++ check (runes_of_ascii "packet	packetx { // trailing space 
x_y_z x_y_z
{
string
charz ,
string x// @lengthOf(
`two words`
    ,  u8x { // `tick` ""quote"" 'q'
charz `100% of %d` // packet A { u8 x, }
,}// " ++ [27880; 37322]%N ++ runes_of_ascii "
,} , }
    // a // b
    packet metadata {  @leftPad ( '0') repeat i32 options1 ,u64 uint8x , }
")).
Eval vm_compute in ("<<<M1859>>>" ++ check (runes_of_ascii "packet	packetx i64 // trailing space 
x_y_z
{
string
charz ,
string x// @lengthOf(
`two words`
    ,  u8x { // `tick` ""quote"" 'q'
charz `100% of %d` // packet A { u8 x, }
,}// " ++ [27880; 37322]%N ++ runes_of_ascii "
,} , }
    // a // b
    packet metadata {  @leftPad ( '0') repeat i32 options1 ,u64 uint8x , }
")).
Eval vm_compute in ("<<<M2046>>>" ++ check (runes_of_ascii "packet	packetx { // trailing space 
x_y_z
{
string
charz ,
string x// @lengthOf(
`two words`
    ,  u8x { // `tick` ""quote"" 'q'
charz `100% of %d` // packet A { u8 x, }
,}// " ++ [27880; 37322]%N ++ runes_of_ascii "
" ++ [8232]%N ++ runes_of_ascii ",} , }
    // a // b
    packet metadata {  @leftPad ( '0') repeat i32 options1 ,u64 uint8x , }
")).
Eval vm_compute in ("<<<M1983>>>" ++ check (runes_of_ascii "packet	packetx { // trailing space 
x_y_z
{
string
charz ,
string x// @lengthOf(
`two words`
    ,  u8x { // `tick` ""quote"" 'q'
charz `100% of %d` // packet A { u8 x, }
,}// " ++ [27880; 37322]%N ++ runes_of_ascii "
,} , }
    // a // b
    packet metadata {  @leftPad ( )'0' repeat i32 options1 ,u64 uint8x , }
")).
Eval vm_compute in ("<<<M2140>>>" ++ check (runes_of_ascii "packet// packet A { u8 x, }
repeatCount	{// packet A { u8 x, }
@leftPad ( '\x00'
) repeat u8x MetaDataX `crlf
line`,
    repeat
    char[] MetaDataX
    ,
u64	uint8x@calculatedFrom( @calculatedFrom(""a\""b""
// c
// packet A { u8 x, }
) `tab	here`
,//
}MetaData pack
    {
    }
")).
Eval vm_compute in ("<<<M1861>>>" ++ check (runes_of_ascii "packet	packetx { // trailing space 

{
string
charz ,
string x// @lengthOf(
`two words`
    ,  u8x { // `tick` ""quote"" 'q'
charz `100% of %d` // packet A { u8 x, }
,}// " ++ [27880; 37322]%N ++ runes_of_ascii "
,} , }
    // a // b
    packet metadata {  @leftPad ( '0') repeat i32 options1 ,u64 uint8x , }
")).
Eval vm_compute in ("<<<M1924>>>" ++ check (runes_of_ascii "packet	packetx { // trailing space 
x_y_z
{
string
charz ,
string x// @lengthOf(
`two words`
    ,  u8x { // `tick` ""quote"" 'q'
charz ' ' // packet A { u8 x, }
,}// " ++ [27880; 37322]%N ++ runes_of_ascii "
,} , }
    // a // b
    packet metadata {  @leftPad ( '0') repeat i32 options1 ,u64 uint8x , }
")).
Eval vm_compute in ("<<<M2175>>>" ++ check (runes_of_ascii "packet// packet A { u8 x, }
repeatCount	{// packet A { u8 x, }
@leftPad ( '\x00'
) repeat u8x MetaDataX `crlf
line`,
    repeat
    char[] MetaDataX
    ,
u64	uint8x@calculatedFrom(""a\""b""
// c
// packet A { u8 x, }
) `tab	here`
,//
}MetaData pack pack
    {
    }
")).
Eval vm_compute in ("<<<M2125>>>" ++ check (runes_of_ascii "packet// packet A { u8 x, }
repeatCount	{// packet A { u8 x, }
@leftPad ( '\x00'
) repeat u8x MetaDataX `crlf
line`,
    repeat
    char[] MetaDataX
    , ,
u64	uint8x@calculatedFrom(""a\""b""
// c
// packet A { u8 x, }
) `tab	here`
,//
}MetaData pack
    {
    }
")).
Eval vm_compute in ("<<<M2057>>>" ++ check (runes_of_ascii "packet// packet A { u8 x, }
{	repeatCount// packet A { u8 x, }
@leftPad ( '\x00'
) repeat u8x MetaDataX `crlf
line`,
    repeat
    char[] MetaDataX
    ,
u64	uint8x@calculatedFrom(""a\""b""
// c
// packet A { u8 x, }
) `tab	here`
,//
}MetaData pack
    {
    }
")).
Eval vm_compute in ("<<<M2182>>>" ++ check (runes_of_ascii "packet// packet A { u8 x, }
repeatCount	{// packet A { u8 x, }
@leftPad ( '\x00'
) repeat u8x MetaDataX `crlf
line`,
    repeat
    char[] MetaDataX
    ,
u64	uint8x@calculatedFrom(""a\""b""
// c
// packet A { u8 x, }
) `tab	here`
,//
}MetaData pack
    T
    }
")).
Eval vm_compute in ("<<<M2172>>>" ++ check (runes_of_ascii "packet// packet A { u8 x, }
repeatCount	{// packet A { u8 x, }
@leftPad ( '\x00'
) repeat u8x MetaDataX `crlf
line`,
    repeat
    char[] MetaDataX
    ,
u64	uint8x@calculatedFrom(""a\""b""
// c
// packet A { u8 x, }
) `tab	here`
,//
}root pack
    {
    }
")).
Eval vm_compute in ("<<<M541>>>" ++ check (runes_of_ascii "root
packet MetaDataX{	pack {u8x { uint16 uint8x,
    // " ++ [27880; 37322]%N ++ runes_of_ascii "
    } ,
} , } packet
rootA { A charz `" ++ [233]%N ++ runes_of_ascii "` , float64 rootA `" ++ [28040; 24687; 31867; 22411]%N ++ runes_of_ascii "` , } MetaData Z9_ { pack
repeatCount
    `u8 x,` ,string x `100% of %d`,string repeatCount//	t
`a\`
    ,
} // packet A { u8 x, }")).
Eval vm_compute in ("<<<M2154>>>" ++ check (runes_of_ascii "packet// packet A { u8 x, }
repeatCount	{// packet A { u8 x, }
@leftPad ( '\x00'
) repeat u8x MetaDataX `crlf
line`,
    repeat
    char[] MetaDataX
    ,
u64	uint8x@calculatedFrom(""a\""b""
// c
// packet A { u8 x, }
) 
,//
}MetaData pack
    {
    }
")).
Eval vm_compute in ("<<<M1465>>>" ++ check (runes_of_ascii "packet calculatedFrom
{ @calculatedFrom( ""a\\"" ) zchar[ 4294967296 ]
calculatedFrom pack @lengthOf( )	`100% of %d` ,char[]body@calculatedFrom( ""// no comment"" )  ,
@tag( 007) //x
int8
leftPad`it's` , repeat pack
    { repeat char[ 3] body
,},
}")).
Eval vm_compute in ("<<<M1460>>>" ++ check (runes_of_ascii "packet calculatedFrom
{ @calculatedFrom( ""a\\"" ) zchar[ 4294967296 ]
@lengthOf(calculatedFrom pack )	`100% of %d` ,char[]body@calculatedFrom( ""// no comment"" )  ,
@tag( 007) //x
int8
leftPad`it's` , repeat pack
    { repeat char[ 3] body
,},
}")).
Eval vm_compute in ("<<<M3462>>>" ++ check (runes_of_ascii "packet B // c1
{ // c2
u8 // c3
a // c4a
  // c4b
, // c5
string // c6a
  // c6b
s // c7a
  // c7b
, } root // c10a
  // c10b
packet // c11
P { // c13
u16 L // c15
@lengthOf( B )
    // c18
, // c19
B , // c21
u8 // c22
t // c23
, // c24
} // c25
")).
Eval vm_compute in ("<<<M1466>>>" ++ check (runes_of_ascii "packet calculatedFrom
{ @calculatedFrom( ""a\\"" ) zchar[ 4294967296 ]
calculatedFrom int64 pack )	`100% of %d` ,char[]body@calculatedFrom( ""// no comment"" )  ,
@tag( 007) //x
int8
leftPad`it's` , repeat pack
    { repeat char[ 3] body
,},
}")).
Eval vm_compute in ("<<<M1995>>>" ++ check (runes_of_ascii "packet	packetx { // trailing space 
x_y_z
{
string
charz ,
string x// @lengthOf(
`two words`
    ,  u8x { // `tick` ""quote"" 'q'
charz `100% of %d` // packet A { u8 x, }
,}// " ++ [27880; 37322]%N ++ runes_of_ascii "
,} , }
    // a // b
    packet metadata {  @leftPad ( '0')")).
Eval vm_compute in ("<<<M747>>>" ++ check (runes_of_ascii "// `tick` ""quote"" 'q'
root
    packet
len
{f64
matchKey
`{ , }`
, pack @calculatedFrom( """ ++ [28040; 24687]%N ++ runes_of_ascii """ ), string roots
@calculatedFrom(  """" )  `u8 x,` , u16
x_y_z ,
    // " ++ [27880; 37322]%N ++ runes_of_ascii "
    @rightPad (
'0')
repeat len ,
uint64 i64_`100% of %d`	,}")).
Eval vm_compute in ("<<<M3444>>>" ++ check (runes_of_ascii "packet Inner // c1
{ u8 // c3a
  // c3b
a // c4a
  // c4b
, // c5
} // c6a
  // c6b
root // c7a
  // c7b
packet
    // c8
P { // c10
Inner // c11
ref_obj , u8 // c14a
  // c14b
x // c15a
  // c15b
, } // c17a
  // c17b
")).
Eval vm_compute in ("<<<M527>>>" ++ check (runes_of_ascii "root packet len { /// triple
@calculatedFrom( ""`tick`"" // " ++ [128512]%N ++ runes_of_ascii " emoji
)
options1
repeatCount// a // b
`crlf
line` ,
@lengthOf( MetaDataX ) repeat _x	u128
, }packet uint8x{ @tag( 1)rootA ,} // packet A { u8 x, }")).
Eval vm_compute in ("<<<M817>>>" ++ check (runes_of_ascii "  root packet	_x	{u `tab	here`
,
    @lengthOf(A ) // packet A { u8 x, }
char[ 007 ]i8i8	, } options
{
i8i8= """ ++ [128512]%N ++ runes_of_ascii """ options1	= ' '// " ++ [128512]%N ++ runes_of_ascii " emoji
; // c
packetx= true;MetaDataX
    = 255; T
    = """ ++ [233]%N ++ runes_of_ascii "t" ++ [233]%N ++ runes_of_ascii """ }
")).
Eval vm_compute in ("<<<M3468>>>" ++ check (runes_of_ascii "options { FixedStringPadFromLeft =
    // c3
true // c4
; } // c6a
  // c6b
root packet P // c9
{ // c10a
  // c10b
char[ // c11
4 // c12
] // c13a
  // c13b
z // c14a
  // c14b
, }
    // c16
")).
Eval vm_compute in ("<<<M1955>>>" ++ check (runes_of_ascii "packet	packetx { // trailing space 
x_y_z
{
string
charz ,
string x// @lengthOf(
`two words`
    ,  u8x { // `tick` ""quote"" 'q'
charz `100% of %d` // packet A { u8 x, }
,}// " ++ [27880; 37322]%N ++ runes_of_ascii "
,} ,")).
Eval vm_compute in ("<<<M4493>>>" ++ check (runes_of_ascii "packet a1 {
    @leftPad()
    zchar[7] calculatedFrom,
    //
}

/// triple
root packet x {
}

options {
    pack = ""abc""
    trueish = 255;
    BodyLength = u64;
    Z9_ = i64;
}")).
Eval vm_compute in ("<<<M2189>>>" ++ check (runes_of_ascii "packet// packet A { u8 x, }
repeatCount	{// packet A { u8 x, }
@leftPad ( '\x00'
) repeat u8x MetaDataX `crlf
line`,
    repeat
    char[] MetaDataX
    ,
u64	uint8x@calc")).
Eval vm_compute in ("<<<M135>>>" ++ check (runes_of_ascii "// packet A { u8 x, }
options { float =i8 ; int = uint16 BodyLength = '\x00' ;chars=
false } packet msg_type { } //	t
options
{ BodyLength =	false Pad
= string }
")).
Eval vm_compute in ("<<<M40>>>" ++ check (runes_of_ascii "MetaData zchar {u16/// triple
A `line1
line2` ,} packet// packet A { u8 x, }
zchar{} root
    packet stringy { //
match	lengthOf  as lengthOf { 65535 :Pad} , }
")).
Eval vm_compute in ("<<<M1708>>>" ++ check (runes_of_ascii "options { } packet Packet{char[] i64_ ,
@tag(
    255) match
crc as i8i8 i8i8{""{,}"" : trueish """" : Pad , ""a\\"" :
Foo ,
    1 :packetx
, """ ++ [128512]%N ++ runes_of_ascii """ : trueish , } , }")).
Eval vm_compute in ("<<<M1743>>>" ++ check (runes_of_ascii "options { } packet Packet{char[] i64_ ,
@tag(
    255) match
crc as i8i8{""{,}"" : trueish """" : Pad Pad , ""a\\"" :
Foo ,
    1 :packetx
, """ ++ [128512]%N ++ runes_of_ascii """ : trueish , } , }")).
Eval vm_compute in ("<<<M2405>>>" ++ check (runes_of_ascii "
packet MetaDataX
{
    @leftPad
( // a // b
'0'
) i8 u MetaDataX
@lengthOf(
    ) `say ""hi""` ,	} MetaData BodyLength {
    asx
x_y_z `" ++ [233]%N ++ runes_of_ascii "`
, uint64 u128 , }
")).
Eval vm_compute in ("<<<M1833>>>" ++ check (runes_of_ascii "options { } packet Packet{char[] i64_ ,
@tag(
    255) match
crc as i8i8{? ""{,}"" : trueish """" : Pad , ""a\\"" :
Foo ,
    1 :packetx
, """ ++ [128512]%N ++ runes_of_ascii """ : trueish , } , }")).
Eval vm_compute in ("<<<M1838>>>" ++ check (runes_of_ascii "options { } packet Packet{char[] i64_ ,
@tag(
    255) match
crc as i8i8{""{,}"" : truei<sh """" : Pad , ""a\\"" :
Foo ,
    1 :packetx
, """ ++ [128512]%N ++ runes_of_ascii """ : trueish , } , }")).
Eval vm_compute in ("<<<M1749>>>" ++ check (runes_of_ascii "options { } packet Packet{char[] i64_ ,
@tag(
    255) match
crc as i8i8{""{,}"" : trueish """" : Pad ""a\\"" , :
Foo ,
    1 :packetx
, """ ++ [128512]%N ++ runes_of_ascii """ : trueish , } , }")).
Eval vm_compute in ("<<<M1687>>>" ++ check (runes_of_ascii "options { } packet Packet{char[] i64_ ,
@tag(
    255 match
crc as i8i8{""{,}"" : trueish """" : Pad , ""a\\"" :
Foo ,
    1 :packetx
, """ ++ [128512]%N ++ runes_of_ascii """ : trueish , } , }")).
Eval vm_compute in ("<<<M2359>>>" ++ check (runes_of_ascii "
; MetaDataX
{
    @leftPad
( // a // b
'0'
) i8 u @lengthOf(
MetaDataX
    ) `say ""hi""` ,	} MetaData BodyLength {
    asx
x_y_z `" ++ [233]%N ++ runes_of_ascii "`
, uint64 u128 , }
")).
Eval vm_compute in ("<<<M1821>>>" ++ check (runes_of_ascii "options { } packet Packet{char[] i64_ ,
@tag(
    255) match
crc as i8i8{""{,}"" : trueish """" : Pad , ""a\\"" :
Foo ,
    1 :packetx
, """ ++ [128512]%N ++ runes_of_ascii """ : trueish , }")).
Eval vm_compute in ("<<<M1782>>>" ++ check (runes_of_ascii "options { } packet Packet{char[] i64_ ,
@tag(
    255) match
crc as i8i8{""{,}"" : trueish """" : Pad , ""a\\"" :
Foo ,
    1 :
, """ ++ [128512]%N ++ runes_of_ascii """ : trueish , } , }")).
Eval vm_compute in ("<<<M463>>>" ++ check (runes_of_ascii "packet // 50% %s
As { repeat
    // `tick` ""quote"" 'q'
    zchar[
42 ]
A , int64 charz@lengthOf( repeatCount)
`` , repeat
char[  00]
zchar
,}")).
Eval vm_compute in ("<<<M4085>>>" ++ check (runes_of_ascii "

  MetaData
float
	{ uint8
	BodyLength 

// c
    ,	}MetaData
charz	{ 
float32 
trueish`a\`
    ,
    i16

    metadata `say ""hi""`,
	}")).
Eval vm_compute in ("<<<M3677>>>" ++ check (runes_of_ascii "packet
A
    {
match  k	as n	{[  ""a"" 
, 22
, ""c c""

    ,
4

    ,  ""e""
,66 , 
""g""

,
8

]

:

    B
    ,
    2 :	C	} 
,}
")).
Eval vm_compute in ("<<<M4484>>>" ++ check (runes_of_ascii "MetaData Logon {
    zchar[10] float `two words`,
    string calculatedFrom,
    u8 tag `// not a comment`,
    string int,
}// " ++ [27880; 37322]%N)).
Eval vm_compute in ("<<<M976>>>" ++ check (runes_of_ascii "// packet A { u8 x, }
MetaData int { zchar[ // `tick` ""quote"" 'q'
42 ]
x `" ++ [233]%N ++ runes_of_ascii "`  ,
uint8 _x
    `crlf
line`, len u ``, } //")).
Eval vm_compute in ("<<<M3291>>>" ++ check (runes_of_ascii "MetaData metadata { } MetaData rootA { i8 i64_ , roots options1 `a\` , lengthOf
// c
Header , Z9_ Foo , int16 BodyLength , }")).
Eval vm_compute in ("<<<M1781>>>" ++ check (runes_of_ascii "options { } packet Packet{char[] i64_ ,
@tag(
    255) match
crc as i8i8{""{,}"" : trueish """" : Pad , ""a\\"" :
Foo ,
    1")).
Eval vm_compute in ("<<<M231>>>" ++ check (runes_of_ascii "//	t
packet rootA
{ @calculatedFrom( ""`tick`"")f32a { char[] calculatedFrom  ,
} ,
@tag(4294967296
) float32 o ,
}")).
Eval vm_compute in ("<<<M711>>>" ++ check (runes_of_ascii "root packet int {	match zchar  as
int	{ ""\" ++ [233]%N ++ runes_of_ascii """ :	leftPad// " ++ [128512]%N ++ runes_of_ascii " emoji
, }
,
MetaDataX@calculatedFrom( """ ++ [233]%N ++ runes_of_ascii "t" ++ [233]%N ++ runes_of_ascii """) ,	}
")).
Eval vm_compute in ("<<<M3330>>>" ++ check (runes_of_ascii "MetaData float { uint8 BodyLength , } // c
MetaData charz { float32 trueish `a\` , i16 metadata `say ""hi""` , }")).
Eval vm_compute in ("<<<M936>>>" ++ check (runes_of_ascii "MetaData Pad
{ repeatCount
    asx
    ,
    A lengthOf `// not a comment` ,} options{ roots =
42 int =0 }
")).
Eval vm_compute in ("<<<M3056>>>" ++ check (runes_of_ascii "packet A {
    u16 len @lengthOf(body) `x
`,
    u32 crc @calculatedFrom(""CRC32"") `x
`,
    string body,
}")).
Eval vm_compute in ("<<<M2995>>>" ++ check (runes_of_ascii "packet A {
  match k as n {
    [""a"", ""bb"", 007, ""d"", ""e"", 66, ""g"", ""h"", 9, ""j""] : B,
    2 : C
  },
}")).
Eval vm_compute in ("<<<M400>>>" ++ check (runes_of_ascii "MetaData
zchar
    { _x
charz `crlf
line` , packetx Foo `crlf
line` , char[]	A// " ++ [128512]%N ++ runes_of_ascii " emoji
`
` , }")).
Eval vm_compute in ("<<<M4351>>>" ++ check (runes_of_ascii "MetaData charz
{ char

crc

    ,
options1  body
,	zchar[

255
]

A ,

}
packet 
Packet { }")).
Eval vm_compute in ("<<<M790>>>" ++ check (runes_of_ascii "MetaData
    options1 { len chars // c
`crlf
line`
,  charz Logon // trailing space 
`
`,}
")).
Eval vm_compute in ("<<<M3696>>>" ++ check (runes_of_ascii "options {
    lengthOf = true
    int = ""1"";
    string_ = false;//
    msg_type = ""CRC32""
}")).
Eval vm_compute in ("<<<M3498>>>" ++ check (runes_of_ascii "packet order_item	{u8
a 
, }

    root packet  new_order
	{order_item
    ,
u8  x

,	}
")).
Eval vm_compute in ("<<<M2212>>>" ++ check (runes_of_ascii "_x MetaData {string x `// not a comment` , string
i64_ // trailing space 
`a\` ,
    }
")).
Eval vm_compute in ("<<<M4028>>>" ++ check (runes_of_ascii "packet A {
    match k as n {
        [1, 22, ""c c"", 4, 5] : B,
        2 : C,
    },
}")).
Eval vm_compute in ("<<<M1413>>>" ++ check (runes_of_ascii "root packet SimpleMessage {
	uint16 MsgType `" ++ [28040; 24687; 31867; 22411]%N ++ runes_of_ascii "`,
	string JsonBody `Json" ++ [23383; 31526; 20018; 28040; 24687; 20307]%N ++ runes_of_ascii "`,
}")).
Eval vm_compute in ("<<<M2939>>>" ++ check (runes_of_ascii "packet A {
  match k as n {
    [""a"", 22, ""c c"", 4, ""e"", 66] : B,
    2 : C
  },
}")).
Eval vm_compute in ("<<<M2210>>>" ++ check (runes_of_ascii " _x {string x `// not a comment` , string
i64_ // trailing space 
`a\` ,
    }
")).
Eval vm_compute in ("<<<M2947>>>" ++ check (runes_of_ascii "packet A {
  match k as n {
    [1, 22, 007, 4, 5, 66, 7] : B
    2 : C
  },
}")).
Eval vm_compute in ("<<<M3362>>>" ++ check (runes_of_ascii "// c
MetaData _x { f64 charz `tab	here` , } options { BodyLength = """ ++ [233]%N ++ runes_of_ascii "t" ++ [233]%N ++ runes_of_ascii """ ; }")).
Eval vm_compute in ("<<<M4521>>>" ++ check (runes_of_ascii "root packet msg_type {
    @lengthOf(u8x)
    string pack @lengthOf(pack),
}")).
Eval vm_compute in ("<<<M2896>>>" ++ check (runes_of_ascii "packet A {
  match k as n {
    [""a"", ""bb"", ""c c""] : B,
    2 : C
  },
}")).
Eval vm_compute in ("<<<M72>>>" ++ check (runes_of_ascii "/// triple
root packet/// triple
Foo {char[
0 ]Z9_ ,  } // @lengthOf(")).
Eval vm_compute in ("<<<M3409>>>" ++ check (runes_of_ascii "packet o { @tag(
// c
4294967296 ) options1 @lengthOf( u8x ) `" ++ [233]%N ++ runes_of_ascii "` , }")).
Eval vm_compute in ("<<<M3483>>>" ++ check (runes_of_ascii "root
packet
P {
repeat
    string
    ss
, repeat	u16
ns
,  }
")).
Eval vm_compute in ("<<<M3750>>>" ++ check (runes_of_ascii "root packet P {
    u8 s_u8,
    repeat u8 r_u8,
    u16 b_len,
}")).
Eval vm_compute in ("<<<M2890>>>" ++ check (runes_of_ascii "packet A {
  match k as n {
    [1, ""bb""] : B
    2 : C
  },
}")).
Eval vm_compute in ("<<<M1361>>>" ++ check (runes_of_ascii "root packet stringy {
repeat char[]
zchar `it's`
    , }
")).
Eval vm_compute in ("<<<M3079>>>" ++ check (runes_of_ascii "packet A {
    B b `%`,
    B `%`,
    repeat B bs `%`,
}")).
Eval vm_compute in ("<<<M1240>>>" ++ check (runes_of_ascii "root
//	t
// " ++ [27880; 37322]%N ++ runes_of_ascii "
packet Foo { char repeatCount
    ,}

")).
Eval vm_compute in ("<<<M2333>>>" ++ check (runes_of_ascii "
MetaData P@tagad{
u32 rootA `line1
line2` ,
    }
")).
Eval vm_compute in ("<<<M2798>>>" ++ check (runes_of_ascii "f64 char as options msg_type 3 @rightPad root char")).
Eval vm_compute in ("<<<M616>>>" ++ check (runes_of_ascii "MetaData Foo {
msg_type
roots `two words`
,	}
")).
Eval vm_compute in ("<<<M1048>>>" ++ check (runes_of_ascii "MetaData stringy {u128
roots	`two words` ,	}
")).
Eval vm_compute in ("<<<M2311>>>" ++ check (runes_of_ascii "
MetaData Pad{
u32 ( `line1
line2` ,
    }
")).
Eval vm_compute in ("<<<M3090>>>" ++ check (runes_of_ascii "options {
    a = ""x\
y"";
    b = ""x\
y""
}")).
Eval vm_compute in ("<<<M2825>>>" ++ check (runes_of_ascii "K&G4_FbAFF+D.0PI%kG3CRQKKMVd,dD3Z2s""`J>!")).
Eval vm_compute in ("<<<M2638>>>" ++ check (runes_of_ascii "packet A { match k as n { '0' : B }, }")).
Eval vm_compute in ("<<<M6>>>" ++ check (runes_of_ascii "root packet Z9_ { }packet charz
{}
")).
Eval vm_compute in ("<<<M2711>>>" ++ check (runes_of_ascii "packet i16 f32a char[] int64 string")).
Eval vm_compute in ("<<<M391>>>" ++ check (runes_of_ascii "root packet calculatedFrom{
    }")).
Eval vm_compute in ("<<<M3059>>>" ++ check (runes_of_ascii "root packet A {
    u8 x `x
`,
}")).
Eval vm_compute in ("<<<M3151>>>" ++ check (runes_of_ascii "packet A {
 u8 x `d" ++ [8239]%N ++ runes_of_ascii "`, // c" ++ [8239]%N ++ runes_of_ascii "
}")).
Eval vm_compute in ("<<<M3024>>>" ++ check (runes_of_ascii "packet A {
    u8 x `a
b`,
}")).
Eval vm_compute in ("<<<M1296>>>" ++ check (runes_of_ascii "// 50% %s
packet u8x { }

")).
Eval vm_compute in ("<<<M2844>>>" ++ check ([11; 65533]%N ++ runes_of_ascii "D" ++ [65533]%N ++ runes_of_ascii "0" ++ [65533; 5]%N ++ runes_of_ascii "\" ++ [24; 65533]%N ++ runes_of_ascii "Y" ++ [65533; 1607]%N ++ runes_of_ascii "BD" ++ [2]%N ++ runes_of_ascii "<" ++ [12]%N ++ runes_of_ascii "`" ++ [65533]%N ++ runes_of_ascii "Tc" ++ [65533; 6]%N ++ runes_of_ascii ">")).
Eval vm_compute in ("<<<M2596>>>" ++ check (runes_of_ascii "packet A { x `d` `e`, }")).
Eval vm_compute in ("<<<M3197>>>" ++ check (runes_of_ascii "// a// bpacket A {}")).
Eval vm_compute in ("<<<M2584>>>" ++ check (runes_of_ascii "packet A { repeat }")).
Eval vm_compute in ("<<<M3120>>>" ++ check (runes_of_ascii "// c" ++ [133]%N ++ runes_of_ascii "
packet A {
}")).
Eval vm_compute in ("<<<M4296>>>" ++ check (runes_of_ascii "root packet As {
}")).
Eval vm_compute in ("<<<M3172>>>" ++ check (runes_of_ascii "packet A {
}// c" ++ [8203]%N)).
Eval vm_compute in ("<<<M2835>>>" ++ check (runes_of_ascii "3 @tag( char i8")).
Eval vm_compute in ("<<<M3840>>>" ++ check (runes_of_ascii "packet a1 {
}")).
Eval vm_compute in ("<<<M2270>>>" ++ check (runes_of_ascii "MetaData _")).
Eval vm_compute in ("<<<M2657>>>" ++ check (runes_of_ascii "packet A")).
Eval vm_compute in ("<<<M816>>>" ++ check (runes_of_ascii "//	t

")).
Eval vm_compute in ("<<<M2486>>>" ++ check (runes_of_ascii "match")).
Eval vm_compute in ("<<<M2462>>>" ++ check (runes_of_ascii "uint")).
Eval vm_compute in ("<<<M2458>>>" ++ check (runes_of_ascii "u80")).
Eval vm_compute in ("<<<M2459>>>" ++ check (runes_of_ascii "u8")).
Eval vm_compute in ("<<<M2573>>>" ++ check ([233]%N)).
